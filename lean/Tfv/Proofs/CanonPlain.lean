import Tfv.Model
import Tfv.Spec.Sub
import Tfv.Spec.Taxonomy
import Tfv.Proofs.SubOrder
import Tfv.Proofs.Canon
import Tfv.Proofs.CanonComplete
import Tfv.Proofs.CanonClosed
import Tfv.Proofs.CanonLinks
import Tfv.Proofs.CanonMirror
/-!
# Helper lemmas for C10: the canon when neither `Top` nor `Bottom` was requested is exactly the set of
`Top`/`Bottom`-free subtypes of the listed types
-/
namespace Tfv.Tax
open Tfv

theorem baseSucc_plain_tbFree {L : Lang} (wf : WF L) {o : SOpts} (h2 : o.top = false) (h3 : o.bottom = false)
    (up : Bool) {op : Nat} (hT : op ≠ TOP) (hB : op ≠ BOT) {s : Ty} (hs : s ∈ baseSucc L o up op) :
    tbFree s = true := by
  have hTb : (op == TOP) = false := by simpa using hT
  have hBb : (op == BOT) = false := by simpa using hB
  unfold baseSucc at hs
  cases up
  · simp only [Bool.not_false, if_true, hTb, Bool.false_eq_true, if_false, h3, Bool.false_and] at hs
    by_cases hc : (o.custom && !(childrenOf L op).isEmpty) = true
    · simp only [hc, if_true, List.mem_map] at hs
      obtain ⟨c, hc1, rfl⟩ := hs
      exact tbFree_base (wf.builtin_orphan _ _ (mem_childrenOf.mp hc1))
    · simp [hc] at hs
  · simp only [Bool.not_true, Bool.false_eq_true, if_false, hBb, h2, Bool.false_and] at hs
    cases hp : parentOf L op with
    | some p =>
      by_cases hc : o.custom = true
      · simp only [hc, hp, Option.isSome_some, Bool.and_self, if_true, List.mem_singleton] at hs
        subst hs
        exact tbFree_app.mpr ⟨wf.parent_not_top _ _ hp, wf.parent_not_bot _ _ hp, tbFreeL_nil⟩
      · simp [hc] at hs
    | none => simp [hp] at hs

mutual
theorem succT_plain_tbFree {L : Lang} (wf : WF L) {o : SOpts} (h2 : o.top = false) (h3 : o.bottom = false) :
    ∀ (up : Bool) (t s : Ty), tbFree t = true → s ∈ succT L o up t → tbFree s = true
  | up, .app b bs, s, ht, h => by
    obtain ⟨hb1, hb2, hb3⟩ := tbFree_app.mp ht
    by_cases h0 : arityOf L b = 0
    · simp only [succT, h0, beq_self_eq_true, if_true] at h
      exact baseSucc_plain_tbFree wf h2 h3 up hb1 hb2 h
    · have hb : (arityOf L b == 0) = false := by simpa using h0
      simp only [succT, hb, Bool.false_eq_true, if_false, h2, h3, Bool.false_and] at h
      by_cases he : (succArgs L o up (varianceOf L b) bs).isEmpty = true
      · simp [he] at h
      · simp only [he, Bool.false_eq_true, if_false, List.mem_map] at h
        obtain ⟨as, has, rfl⟩ := h
        exact tbFree_app.mpr ⟨hb1, hb2, succArgs_plain_tbFree wf h2 h3 up (varianceOf L b) bs as hb3 has⟩
theorem succArgs_plain_tbFree {L : Lang} (wf : WF L) {o : SOpts} (h2 : o.top = false) (h3 : o.bottom = false) :
    ∀ (up : Bool) (vs : List Bool) (ts ss : List Ty), tbFreeL ts = true → ss ∈ succArgs L o up vs ts →
    tbFreeL ss = true
  | _, [], _, _, _, h => by simp [succArgs] at h
  | _, _ :: _, [], _, _, h => by simp [succArgs] at h
  | up, v :: vs, p :: ps, ss, ht, h => by
    simp only [succArgs, List.mem_append, List.mem_map] at h
    obtain ⟨t1, t2⟩ := tbFreeL_cons.mp ht
    rcases h with ⟨q, hq, rfl⟩ | ⟨qs, hqs, rfl⟩
    · exact tbFreeL_cons.mpr ⟨succT_plain_tbFree wf h2 h3 (up == v) p q t1 hq, t2⟩
    · exact tbFreeL_cons.mpr ⟨t1, succArgs_plain_tbFree wf h2 h3 up vs ps qs t2 hqs⟩
end

theorem baseSucc_nocustom_nil {L : Lang} {o : SOpts} (h1 : o.custom = false) (h2 : o.top = false)
    (h3 : o.bottom = false) (up : Bool) {op : Nat} (hT : op ≠ TOP) (hB : op ≠ BOT) :
    baseSucc L o up op = [] := by
  have hTb : (op == TOP) = false := by simpa using hT
  have hBb : (op == BOT) = false := by simpa using hB
  unfold baseSucc
  cases up <;> simp [hTb, hBb, h1, h2, h3]

mutual
theorem succT_nocustom_nil {L : Lang} {o : SOpts} (h1 : o.custom = false) (h2 : o.top = false)
    (h3 : o.bottom = false) : ∀ (up : Bool) (t : Ty), tbFree t = true → succT L o up t = []
  | up, .app b bs, ht => by
    obtain ⟨hb1, hb2, hb3⟩ := tbFree_app.mp ht
    simp only [succT, baseSucc_nocustom_nil h1 h2 h3 up hb1 hb2,
      succArgs_nocustom_nil h1 h2 h3 up (varianceOf L b) bs hb3, h2, h3, List.isEmpty_nil, if_true,
      Bool.false_and, Bool.false_eq_true, if_false, ite_self]
theorem succArgs_nocustom_nil {L : Lang} {o : SOpts} (h1 : o.custom = false) (h2 : o.top = false)
    (h3 : o.bottom = false) : ∀ (up : Bool) (vs : List Bool) (ts : List Ty), tbFreeL ts = true →
    succArgs L o up vs ts = []
  | _, [], _, _ => by simp only [succArgs]
  | _, _ :: _, [], _ => by simp only [succArgs]
  | up, v :: vs, p :: ps, ht => by
    obtain ⟨t1, t2⟩ := tbFreeL_cons.mp ht
    simp only [succArgs, succT_nocustom_nil h1 h2 h3 (up == v) p t1,
      succArgs_nocustom_nil h1 h2 h3 up vs ps t2, List.map_nil, List.append_nil]
end

/-- without `Top`/`Bottom` requested, every canon member is a `Top`/`Bottom`-free subtype of a listed type -/
theorem canon_plain_sound {L : Lang} (wf : WF L) {c : CanonCfg} (hT : c.includeTop = false)
    (hB : c.includeBottom = false) (n : Nat) (start : List Ty)
    (hstart : ∀ t ∈ start, wfTy L t = true ∧ tbFree t = true) :
    ∀ x ∈ expandCanon L c n start start,
      wfTy L x = true ∧ tbFree x = true ∧ ∃ t ∈ start, Sub L x t := by
  apply expandCanon_least (fun x => wfTy L x = true ∧ tbFree x = true ∧ ∃ t ∈ start, Sub L x t)
  · rintro x ⟨x1, x2, t, ht, x3⟩ s hs
    unfold canonSucc at hs
    rw [succT_nocustom_nil (o := canonOpts c false) rfl hT hB true x x2, List.nil_append] at hs
    obtain ⟨r1, _, r3⟩ := succT_sound wf (canonOpts_univOK L c true) false x s x1 hs
    exact ⟨r3, succT_plain_tbFree wf (o := canonOpts c true) hT hB false x s x2 hs, t, ht,
      sub_trans wf x s t (le_down.mp r1) x3⟩
  · intro t ht
    exact ⟨(hstart t ht).1, (hstart t ht).2, t, ht, sub_refl t (hstart t ht).1⟩
  · intro t ht
    exact ⟨(hstart t ht).1, (hstart t ht).2, t, ht, sub_refl t (hstart t ht).1⟩

/-- exact description of the canon when neither `Top` nor `Bottom` was requested -/
theorem mkCanon_plain_iff {L : Lang} (wf : WF L) {c : CanonCfg} (hT : c.includeTop = false)
    (hB : c.includeBottom = false) {listed : List Ty}
    (hl : ∀ t ∈ listed, wfTy L t = true ∧ tbFree t = true)
    (term : Terminates L c canonFuel (initOf listed) (initOf listed)) (s : Ty) :
    s ∈ mkCanon L c listed ↔ (tbFree s = true ∧ ∃ t ∈ listed, Sub L s t) := by
  obtain ⟨m1, m2⟩ := mkCanon_closed term
  constructor
  · intro hs
    rw [mkCanon_eq] at hs
    obtain ⟨_, a2, t, a3, a4⟩ := canon_plain_sound wf hT hB canonFuel (initOf listed)
      (fun t ht => hl t ((mem_initOf listed t).mp ht)) s hs
    exact ⟨a2, t, (mem_initOf listed t).mp a3, a4⟩
  · rintro ⟨hs, t, ht, hsub⟩
    exact closed_contains_subtypes wf m2 (m1 t ht) (hl t ht).1 (hl t ht).2 hs hsub

/-- the second sentence of C10 when neither `Top` nor `Bottom` was requested: among canonical types,
reachability through reported direct-subtype links is the subtype order -/
theorem reach_iff_plain {L : Lang} (wf : WF L) {c : CanonCfg} (hT : c.includeTop = false)
    (hB : c.includeBottom = false) {listed : List Ty}
    (hl : ∀ t ∈ listed, wfTy L t = true ∧ tbFree t = true)
    (term : Terminates L c canonFuel (initOf listed) (initOf listed)) (n : Nat) {s t : Ty}
    (hs : s ∈ mkCanon L c listed) (ht : t ∈ mkCanon L c listed) :
    Reach (Link L c (mkCanon L c listed) (n+1) false) t s ↔ Sub L s t := by
  obtain ⟨_, m2⟩ := mkCanon_closed term
  have key := fun x (hx : x ∈ mkCanon L c listed) => by
    rw [mkCanon_eq] at hx
    exact canon_plain_sound wf hT hB canonFuel (initOf listed)
      (fun t ht => hl t ((mem_initOf listed t).mp ht)) x hx
  obtain ⟨t1, t2, _⟩ := key t ht
  obtain ⟨_, s2, _⟩ := key s hs
  constructor
  · intro hr
    exact le_down.mp (reach_link_sound wf c _ (n+1) false hr t1).1
  · intro hsub
    exact complete_tbfree wf m2 n ht t1 t2 s2 hsub

/-- without `Top`/`Bottom` requested, direct subtype and supertype links mirror each other on the whole canon -/
theorem mirror_plain {L : Lang} (wf : WF L) {c : CanonCfg} (hT : c.includeTop = false)
    (hB : c.includeBottom = false) {listed : List Ty}
    (hl : ∀ t ∈ listed, wfTy L t = true ∧ tbFree t = true)
    (term : Terminates L c canonFuel (initOf listed) (initOf listed)) (n k : Nat) {s t : Ty}
    (hs : s ∈ mkCanon L c listed) (ht : t ∈ mkCanon L c listed) :
    Link L c (mkCanon L c listed) (n+1) false t s ↔ Link L c (mkCanon L c listed) (k+1) true s t := by
  obtain ⟨_, m2⟩ := mkCanon_closed term
  have key := fun x (hx : x ∈ mkCanon L c listed) => by
    rw [mkCanon_eq] at hx
    exact canon_plain_sound wf hT hB canonFuel (initOf listed)
      (fun t ht => hl t ((mem_initOf listed t).mp ht)) x hx
  obtain ⟨t1, t2, _⟩ := key t ht
  obtain ⟨s1, s2, _⟩ := key s hs
  exact link_mirror wf m2 n k ht t1 s1 t2 s2

/-! ## wrappers in the shape of the C10 statements -/

theorem succT_sound_down {L : Lang} (wf : WF L) {o : SOpts} (ok : UnivOK L o) {t s : Ty}
    (ht : wfTy L t = true) (h : s ∈ succT L o false t) : Sub L s t ∧ s ≠ t ∧ wfTy L s = true :=
  let r := succT_sound wf ok false t s ht h
  ⟨le_down.mp r.1, r.2⟩

theorem succT_sound_up {L : Lang} (wf : WF L) {o : SOpts} (ok : UnivOK L o) {t s : Ty}
    (ht : wfTy L t = true) (h : s ∈ succT L o true t) : Sub L t s ∧ s ≠ t ∧ wfTy L s = true :=
  let r := succT_sound wf ok true t s ht h
  ⟨le_up.mp r.1, r.2⟩

theorem langSucc_sound_down {L : Lang} (wf : WF L) (c : CanonCfg) (canon : List Ty) (n : Nat)
    (t : Ty) (tr : Bool) (r : Ty) (ht : wfTy L t = true) (h : r ∈ langSucc L c canon n false t tr) :
    Sub L r t ∧ r ≠ t ∧ wfTy L r = true ∧ r ∈ canon :=
  let q := langSucc_sound wf c canon n false t tr r ht h
  ⟨le_down.mp q.1, q.2⟩

theorem step_complete_down {L : Lang} (wf : WF L) {o : SOpts} (hc : o.custom = true)
    {t s : Ty} (ht : tbFree t = true) (hs : tbFree s = true) (hsub : Sub L s t) (hne : s ≠ t) :
    ∃ u, u ∈ succT L o false t ∧ Sub L s u ∧ tbFree u = true :=
  let ⟨u, h1, h2, h3, _⟩ := step_complete wf hc false t s ht hs (le_down.mpr hsub) hne
  ⟨u, h1, le_down.mp h2, h3⟩

theorem closed_spelled {L : Lang} {c : CanonCfg} {R : List Ty} (h : Closed L c R) {t s : Ty}
    (ht : memTy t R = true) :
    (s ∈ succT L { custom := true, top := c.includeTop, bottom := c.includeBottom } false t →
      memTy s R = true) ∧
    (s ∈ succT L { custom := false, top := c.includeTop, bottom := c.includeBottom } true t →
      memTy s R = true) :=
  ⟨fun hs => (memTy_iff _ _).mpr (closed_down h ((memTy_iff _ _).mp ht) hs),
   fun hs => (memTy_iff _ _).mpr (closed_up h ((memTy_iff _ _).mp ht) hs)⟩

theorem mkCanon_contains_subtypes {L : Lang} (wf : WF L) {c : CanonCfg} {listed : List Ty}
    (term : Terminates L c canonFuel (initOf listed) (initOf listed)) {t s : Ty} (ht : t ∈ listed)
    (hw : wfTy L t = true) (htb : tbFree t = true) (hsb : tbFree s = true) (hsub : Sub L s t) :
    s ∈ mkCanon L c listed :=
  closed_contains_subtypes wf (mkCanon_closed term).2 ((mkCanon_closed term).1 t ht) hw htb hsb hsub

theorem reach_iff_tbfree {L : Lang} (wf : WF L) {c : CanonCfg} {R : List Ty} (h : Closed L c R) (n : Nat)
    {t s : Ty} (ht : t ∈ R) (hw : wfTy L t = true) (htb : tbFree t = true) (hsb : tbFree s = true) :
    Reach (Link L c R (n+1) false) t s ↔ Sub L s t :=
  ⟨fun hr => le_down.mp (reach_link_sound wf c R (n+1) false hr hw).1,
   fun hsub => complete_tbfree wf h n ht hw htb hsb hsub⟩

theorem expandCanon_fuel {L : Lang} {c : CanonCfg} {n : Nat} {stack canon : List Ty}
    (h : Terminates L c n stack canon) (k : Nat) :
    Terminates L c (n + k) stack canon ∧
      expandCanon L c (n + k) stack canon = expandCanon L c n stack canon := by
  have e := expandRun_fuel_mono k n stack canon _ (terminates_eq h)
  exact ⟨congrArg Prod.fst e, by rw [← expandRun_snd, e]⟩

end Tfv.Tax
