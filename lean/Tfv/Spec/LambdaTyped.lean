import Tfv.Model.Lambda
import Tfv.Spec.Lambda
import Tfv.Spec.Sub
import Tfv.Model.Sub
/-!
# A simple type system with subsumption for the lambda model (M5b) — specification

The terms of `Tfv/Model/Lambda.lean` are untyped. This file gives them the simply typed discipline the
library applies to expressions: every primitive operator, every composite operator and every source has ONE
concrete type (`Ty`, `Tfv/Model/Basic.lean`); a function type is the builtin `Function` operator
(`.app FUN [A, B]`, index 4, contravariant in `A`, covariant in `B`); a term that has a type also has every
supertype in the declared order `Sub L` (`Tfv/Spec/Sub.lean`, proved a partial order in C01).

Scope: **monomorphic instances only**. The real library's operator signatures contain type variables
(`compose : (b → c) → (a → b) → a → c`); here a signature entry is one concrete instance of such a schema.
Polymorphism (instantiation, unification, constraints) is the subject of C03–C07, not of this file.
-/
namespace Tfv.LamTyped
open Tfv Tfv.LamSpec

/-- the function type `A → B` -/
def fn (A B : Ty) : Ty := .app FUN [A, B]

/-- "the same or a more specific type": equal, or below in the declared order. (`Sub` is reflexive on
well-formed types only, C01; the disjunction makes the statements independent of well-formedness.) -/
def Le (L : Lang) (s t : Ty) : Prop := s = t ∨ Sub L s t

/-- `HasType L Sg S Γ t T`: in the language `L`, with operator signature `Sg` (primitive AND composite operators),
source types `S` and the types `Γ` of the de Bruijn variables (`Γ[i]` is the type of `var i`), the term `t`
has the type `T`. -/
inductive HasType (L : Lang) (Sg : String → Option Ty) (S : Nat → Option Ty) : List Ty → LTerm → Ty → Prop where
  | var {Γ : List Ty} {i : Nat} {T : Ty} : Γ[i]? = some T → HasType L Sg S Γ (.var i) T
  | src {Γ : List Ty} {k : Nat} {T : Ty} : S k = some T → HasType L Sg S Γ (.src k) T
  | op {Γ : List Ty} {name : String} {T : Ty} : Sg name = some T → HasType L Sg S Γ (.op name) T
  | app {Γ : List Ty} {f x : LTerm} {A B : Ty} :
      HasType L Sg S Γ f (fn A B) → HasType L Sg S Γ x A → HasType L Sg S Γ (.app f x) B
  | lam {Γ : List Ty} {b : LTerm} {A B : Ty} :
      HasType L Sg S (A :: Γ) b B → HasType L Sg S Γ (.lam b) (fn A B)
  | sub {Γ : List Ty} {t : LTerm} {T T' : Ty} :
      HasType L Sg S Γ t T → Sub L T T' → HasType L Sg S Γ t T'

/-- Every definition that can be used (the FIRST one of each name, as `List.find?` returns it) has a declared
type in the signature, and the anonymous function built from it, `λ…λ. body` with `arity` binders, is a closed
term of that type — possibly through subsumption, i.e. the body's own type may be more specific than the
declared one. The body may mention other operators, composite or not, at their declared types. -/
def DefsTyped (L : Lang) (Sg : String → Option Ty) (S : Nat → Option Ty) (defs : List LDef) : Prop :=
  ∀ (name : String) (d : LDef), defs.find? (fun d => d.name == name) = some d →
    ∃ T, Sg name = some T ∧ HasType L Sg S [] (lamN d.arity d.body) T

/-- `M` is a minimal (principal) type of `t`: a type of `t` that is the same as or more specific than every
type of `t`. -/
def IsMinType (L : Lang) (Sg : String → Option Ty) (S : Nat → Option Ty) (Γ : List Ty) (t : LTerm) (M : Ty) : Prop :=
  HasType L Sg S Γ t M ∧ ∀ T, HasType L Sg S Γ t T → Le L M T

/-- the applicative fragment: no anonymous function (variables, sources, operators, applications) -/
def lamFree : LTerm → Bool
  | .lam _ => false
  | .app f x => lamFree f && lamFree x
  | _ => true

/-- Minimal type of a term of the applicative fragment, computed bottom-up with the library's own subtype
test `sub L` (`Tfv/Model/Sub.lean`): the declared type of an operator, source or variable; for `f x` the
result type `B` of `f`'s minimal type `A → B` if `x`'s minimal type is below `A`; `Bottom` if `f`'s minimal
type is `Bottom` (which is below every function type). `none` for untypable terms and for terms with an
anonymous function (their parameter type is not written down; see `C15t_lam_no_minimal`). -/
def mintype (L : Lang) (Sg : String → Option Ty) (S : Nat → Option Ty) (Γ : List Ty) : LTerm → Option Ty
  | .var i => Γ[i]?
  | .src k => S k
  | .op name => Sg name
  | .lam _ => none
  | .app f x =>
    match mintype L Sg S Γ f, mintype L Sg S Γ x with
    | some (.app o [A, B]), some X =>
      if o == FUN then (if sub L X A then some B else none) else none
    | some (.app o []), some _ => if o == BOT then some (.app BOT []) else none
    | _, _ => none

/-- every type handed out by a partial map is well-formed in `L` -/
def WfMap {α : Type} (L : Lang) (m : α → Option Ty) : Prop := ∀ a T, m a = some T → wfTy L T = true

/-- every type of the context is well-formed in `L` -/
def WfCtx (L : Lang) (Γ : List Ty) : Prop := ∀ T, T ∈ Γ → wfTy L T = true

end Tfv.LamTyped
