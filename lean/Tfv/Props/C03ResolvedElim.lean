import Tfv.Model
import Tfv.Spec.Sat
import Tfv.Spec.SatChain
import Tfv.Proofs.ResolvedElimCheck
import Tfv.Proofs.ResolvedElimExamples
import Tfv.Proofs.ResolvedElimMatch
import Tfv.Props.C03Resolved
/-!
# C03, last clause, last open case: elimination records marked FULFILLED that keep SEVERAL alternatives

STATUS: the case is NOT decided. No counterexample was found (the analysis in the report explains why none is to be
expected), and the proof for all runs is not done: it needs a new induction over the engine in which the information
"the inner `fulfill` unified the reference with one alternative" survives while an outer `fulfill` of the same
constraint is still running, plus one fact about `match3` that is not available ("after `unify ref a` succeeded,
`match3 ref a` never answers `some false` in a later store").

What IS proved here (statements only; proofs in `Tfv/Proofs/ResolvedElim*.lean`, namespace `Tfv.C03E`):
* a VERIFIED MONITOR: `elimHoldsB L σ c` (the engine's own `match3`, subtype mode, fuel 64, answers `some true` for the
  reference against one remaining alternative) is equivalent to the property whenever reference and alternatives
  resolve below depth 64 — for every elimination record, fulfilled or not, any number of alternatives
  (`C03e_monitor_exact_partial`); so the open case can be checked exactly on every final store of every run;
* the REDUCTION of the open case to a semantic witness clause `ElimWit L σ c` ("under every solution of the store some
  remaining alternative is above the reference"): it implies the property in an acyclic `Ready` store for any number
  of alternatives (`C03e_fulfilled_elim_witness_partial`), holds for fulfilled records with one alternative
  (`C03e_witness_single`), and is stable under the three ways the engine touches such a record: store changes that
  leave the record alone (`C03e_witness_ext`), the stale write-back of `minimize` (`C03e_witness_widen`), the filter of
  `fulfill` provided a witness survives it (`C03e_witness_filter`: exactly the missing fact);
* a kernel-checked run in which such a record arises (`C03e_multi_alternative_record_arises`), on which monitor and
  property hold.
-/
namespace Tfv.C03
open Tfv Tfv.C03P Tfv.C03C Tfv.C03R Tfv.C03E

/-- The monitor is exact: in a well-formed store (`OkStoreC`, part of `Ready`), for every registered elimination
constraint record — fulfilled or not, with any number of remaining alternatives — whose reference and remaining
alternatives resolve (less than 64 operators deep), `elimHoldsB` answers `true` if and only if the resolved reference
is a subtype of at least one resolved remaining alternative. PARTIAL: depth 64 (fuel of the test). -/
theorem C03e_monitor_exact_partial (L : Lang) (wf : WF L) (σ : Store) (okc : OkStoreC L σ) (c : Nat) (ref : Term)
    (alts : List Term) (ful : Bool) (hc : c < σ.constrs.length) (hg : getConstr σ c = .elim ref alts ful) (τr : Ty)
    (τs : List Ty) (h1 : Res σ ref τr) (h2 : ResL σ alts τs) (d1 : Ty.depth τr < 64) (d2 : Ty.depthL τs ≤ 64) :
    elimHoldsB L σ c = true ↔ ∃ τ, τ ∈ τs ∧ Sub L τr τ :=
  elimHoldsB_iff wf okc hc hg h1 h2 d1 d2

/-- In an acyclic store satisfying the invariant, an elimination record (any flag, ANY number of alternatives) that
satisfies the witness clause `ElimWit` holds: if reference and remaining alternatives resolve, the resolved reference is
a subtype of at least one resolved remaining alternative. No depth bound. PARTIAL: `ElimWit L σ c` is a hypothesis;
it is proved for fulfilled records with one alternative only (next theorem). -/
theorem C03e_fulfilled_elim_witness_partial (L : Lang) (wf : WF L) (σ : Store) (rd : Ready L σ) (hac : Acyclic σ)
    (c : Nat) (ref : Term) (alts : List Term) (ful : Bool) (hg : getConstr σ c = .elim ref alts ful)
    (hw : ElimWit L σ c) (τr : Ty) (τs : List Ty) (h1 : Res σ ref τr) (h2 : ResL σ alts τs) :
    ∃ τ, τ ∈ τs ∧ Sub L τr τ :=
  ready_elim_witness wf rd hac hg hw h1 h2

/-- A fulfilled elimination record with one alternative satisfies the witness clause in every store satisfying the
invariant. -/
theorem C03e_witness_single (L : Lang) (σ : Store) (rd : Ready L σ) (c : Nat) (ref a : Term)
    (hc : c < σ.constrs.length) (hg : getConstr σ c = .elim ref [a] true) : ElimWit L σ c :=
  ready_elimWit_single rd hc hg

/-- non-vacuity: `(x ** x)[x << {F(A), F(Unit)}]` applied to `F(B)` ends with a fulfilled record with one alternative -/
example : ∃ σ', Ready exL σ' ∧ ElimWit exL σ' 0 ∧ ∃ ref a, getConstr σ' 0 = .elim ref [a] true := by
  obtain ⟨σ1, f, σ', r, hi, hxs, ha, hchk⟩ := runChk_elim run_sEl_one
  obtain ⟨hc, ref, alts, hg, h1, h2⟩ := elimChk_elim hchk
  have rd' := (C03r_resolved_sub_holds_partial exL exL_wf 200 true {} σ1 σ' sEl f r _ (ready_empty exL) rfl
    (by decide) (by decide) hi hxs ha).1
  match alts, h2, hg with
  | [a], _, hg => exact ⟨σ', rd', C03e_witness_single exL σ' rd' 0 ref a hc hg, ref, a, hg⟩
  | [], h2, _ => rw [resL_nil_left] at h2; cases h2
  | _ :: _ :: _, h2, _ => rw [resL_cons, resL_nil_right] at h2; cases h2.2

/-- The witness clause is kept by every change of the store that leaves the record alone and adds no solutions
(bindings, bounds, other constraints: every engine step outside `fulfill`/`minimize` of this constraint). -/
theorem C03e_witness_ext (L : Lang) (σ σ' : Store) (c : Nat) (hw : ElimWit L σ c)
    (hsat : ∀ ρ, Sat L ρ σ' → Sat L ρ σ) (hsame : getConstr σ' c = getConstr σ c) : ElimWit L σ' c :=
  hw.ext hsat hsame

/-- The witness clause is kept by the stale write-back of `minimize`: the record is overwritten by a reference with the
same denotation and by alternatives such that, under every solution, every alternative of the overwritten record has
one above it among the new ones (the inner `fulfill` narrowed the record to an alternative `only`; `minimize` keeps
`only` or an alternative for which `match3 only … = some true`). -/
theorem C03e_witness_widen (L : Lang) (wf : WF L) (σ : Store) (c : Nat) (r r' : Term) (as as' : List Term)
    (f f' : Bool) (hw : ElimWit L σ c) (hc : c < σ.constrs.length) (hg : getConstr σ c = .elim r as f)
    (hr : ∀ ρ, Sat L ρ σ → den ρ r' = den ρ r)
    (has : ∀ ρ, Sat L ρ σ → ∀ a, a ∈ as → ∃ a', a' ∈ as' ∧ Sub L (den ρ a) (den ρ a')) :
    ElimWit L (setConstr σ c (.elim r' as' f')) c :=
  hw.widen wf hc hg hr has

/-- The witness clause survives the filter of `fulfill` (`alts.filter keep`) if under every solution an alternative
above the reference is kept. THIS is the fact missing for the open case with `keep a := match3 … ref a != some false`. -/
theorem C03e_witness_filter (L : Lang) (σ : Store) (c : Nat) (r : Term) (as : List Term) (f' : Bool)
    (keep : Term → Bool) (hc : c < σ.constrs.length)
    (hk : ∀ ρ, Sat L ρ σ → ∃ a, a ∈ as ∧ keep a = true ∧ Sub L (den ρ r) (den ρ a)) :
    ElimWit L (setConstr σ c (.elim r (as.filter keep) f')) c :=
  ElimWit.filter hc hk

/-- `match3` never answers `some false` for two terms that follow to the same term — in the store where they do and
(`Same`) in every later store whose chains end. So after `unify ref only` BOUND a variable (reference or alternative a
variable: then both follow to the same term), no later filter of `fulfill` removes that alternative. -/
theorem C03e_match3_same_not_refuted (L : Lang) (σ σ' : Store) (a b : Term) (h : Same σ a b) (e : C03R.Ext σ σ')
    (hc : C17E.Chains σ') (n : Nat) (st aw : Bool) : match3 L σ' n st aw a b ≠ some false :=
  match3_Same_ne_false L h e hc n st aw

example : match3 exL σC2 3 true false (.var 0) (.var 0) ≠ some false :=
  C03e_match3_same_not_refuted exL σC2 σC2 _ _ (Same.refl _ _) (C03R.Ext.refl _) (C17E.chainsB_sound (by decide)) 3 true false

/-- The missing fact holds in the "same term" case: if an alternative of an elimination record follows to the same term
as the reference, the filter of `fulfill` (`match3 … ref t != some false`) keeps it and the filtered record satisfies the
witness clause. -/
theorem C03e_witness_filter_same (L : Lang) (σ : Store) (okc : OkStoreC L σ) (c : Nat) (r a : Term) (as : List Term)
    (f f' : Bool) (hc : c < σ.constrs.length) (hg : getConstr σ c = .elim r as f) (ha : a ∈ as)
    (he : followT σ r = followT σ a) :
    a ∈ as.filter (fun t => match3 L σ (matchFuel σ) true true r t != some false) ∧
    ElimWit L (setConstr σ c (.elim r (as.filter (fun t => match3 L σ (matchFuel σ) true true r t != some false)) f')) c :=
  elimWit_filter_same okc hc hg ha he

/-- Such records arise: `x ** y ** z ** x [x << {x, x, y}]` applied to `A, A, A` succeeds, the final store satisfies the
invariant and is acyclic, and constraint 0 ends as a FULFILLED elimination record with TWO alternatives, reference and
alternatives all resolved to `A`; the monitor answers `true` and the property holds (non-vacuity of
`C03e_monitor_exact_partial` on the open case). -/
theorem C03e_multi_alternative_record_arises :
    ∃ σ1 f σ' r, instantiate exL 200 {} sXXY = .ok (σ1, f) ∧
      applyAll exL 200 true σ1 f [.app 5 [], .app 5 [], .app 5 []] = .ok (σ', r) ∧ Ready exL σ' ∧ Acyclic σ' ∧
      ∃ ref a1 a2, getConstr σ' 0 = .elim ref [a1, a2] true ∧ Res σ' ref (.app 5 []) ∧
        ResL σ' [a1, a2] [.app 5 [], .app 5 []] ∧ elimHoldsB exL σ' 0 = true ∧
        ∃ τ, τ ∈ [Ty.app 5 [], Ty.app 5 []] ∧ Sub exL (.app 5 []) τ :=
  multi_arises

/-- non-vacuity of `C03e_witness_filter_same`, `C03e_fulfilled_elim_witness_partial` and `C03e_monitor_exact_partial` on
the open case: in the final store of the run above the first alternative follows to the same term as the reference
(`A`), so filtering that record once more keeps it and gives the witness clause; the witness clause of the record itself
(both alternatives denote `A` under every solution) gives the property. -/
example : ∃ σ' ref a1 a2, Ready exL σ' ∧ Acyclic σ' ∧ getConstr σ' 0 = .elim ref [a1, a2] true ∧
    followT σ' ref = followT σ' a1 ∧
    a1 ∈ [a1, a2].filter (fun t => match3 exL σ' (matchFuel σ') true true ref t != some false) ∧
    ElimWit exL σ' 0 ∧ (elimHoldsB exL σ' 0 = true ↔ ∃ τ, τ ∈ [Ty.app 5 [], Ty.app 5 []] ∧ Sub exL (.app 5 []) τ) ∧
    (∃ τ, τ ∈ [Ty.app 5 [], Ty.app 5 []] ∧ Sub exL (.app 5 []) τ) ∧
    ElimWit exL (setConstr σ' 0 (.elim ref [a2, a1] true)) 0 := by
  obtain ⟨σ1, f, σ', r, _, _, rd, hac, ref, a1, a2, hg, h1, h2, _, _⟩ := C03e_multi_alternative_record_arises
  have hc : 0 < σ'.constrs.length := by
    cases hl : σ'.constrs with
    | nil => unfold getConstr at hg; rw [hl] at hg; cases hg
    | cons _ _ => simp
  have e1 : followT σ' ref = .app 5 [] := by
    rw [res_app] at h1; obtain ⟨args, e, hl⟩ := h1; rw [resL_nil_right] at hl; rw [e, hl]
  have e2 : followT σ' a1 = .app 5 [] := by
    rw [resL_cons] at h2
    have h := h2.1
    rw [res_app] at h; obtain ⟨args, e, hl⟩ := h; rw [resL_nil_right] at hl; rw [e, hl]
  have he : followT σ' ref = followT σ' a1 := by rw [e1, e2]
  have hf := C03e_witness_filter_same exL σ' rd.pre.okc 0 ref a1 [a1, a2] true true hc hg List.mem_cons_self he
  have hw : ElimWit exL σ' 0 := by
    intro r' as' f' e ρ hρ
    rw [hg] at e
    injection e with e3 e4 e5
    subst e3; subst e4
    refine ⟨a1, List.mem_cons_self, ?_⟩
    rw [← C03P.den_followT hρ ref, he, C03P.den_followT hρ a1]
    exact sub_refl _ (C03P.wfTy_den hρ.wf a1
      (C03C.okTermL_iff.mp (C03P.okTermL_cons.mp (okc_elim_terms rd.pre.okc hc hg)).2 a1 List.mem_cons_self))
  exact ⟨σ', ref, a1, a2, rd, hac, hg, he, hf.1, hw,
    C03e_monitor_exact_partial exL exL_wf σ' rd.pre.okc 0 ref [a1, a2] true hc hg _ _ h1 h2 (by decide) (by decide),
    C03e_fulfilled_elim_witness_partial exL exL_wf σ' rd hac 0 ref [a1, a2] true hg hw _ _ h1 h2,
    C03e_witness_widen exL exL_wf σ' 0 ref ref [a1, a2] [a2, a1] true true (C03e_witness_ext exL σ' σ' 0 hw (fun _ h => h) rfl)
      hc hg (fun _ _ => rfl) (fun ρ hρ a ha => ⟨a, by simp at ha ⊢; exact ha.symm, sub_refl _ (C03P.wfTy_den hρ.wf a
        (C03C.okTermL_iff.mp (C03P.okTermL_cons.mp (okc_elim_terms rd.pre.okc hc hg)).2 a ha))⟩)⟩

end Tfv.C03
