import Tfv.Proofs.GraphAbsWire
import Tfv.Proofs.GraphExpr
/-!
# C08 on expanded composite operators, part 4: parameters, and an abstraction in argument position
-/
namespace Tfv.C08P
open Tfv

/-! ## an induction principle that follows the recursion of `addExprA` -/

theorem AExpr.ind {P : AExpr → Prop}
    (src : ∀ id l t, P (.src id l t)) (op : ∀ name t, P (.op name t)) (pvar : ∀ id t, P (.pvar id t))
    (lam : ∀ ps b t, P (.lam ps b t))
    (app_lam : ∀ f ps b t ty, P f → P b → P (.app f (.lam ps b t) ty))
    (app : ∀ f x ty, AExpr.isLam x = false → P f → P x → P (.app f x ty)) : ∀ e, P e
  | .src id l t => src id l t
  | .op name t => op name t
  | .pvar id t => pvar id t
  | .lam ps b t => lam ps b t
  | .app f (.lam ps b t) ty => app_lam f ps b t ty (AExpr.ind src op pvar lam app_lam app f) (AExpr.ind src op pvar lam app_lam app b)
  | .app f (.src id l t) ty => app f _ ty rfl (AExpr.ind src op pvar lam app_lam app f) (src id l t)
  | .app f (.op name t) ty => app f _ ty rfl (AExpr.ind src op pvar lam app_lam app f) (op name t)
  | .app f (.pvar id t) ty => app f _ ty rfl (AExpr.ind src op pvar lam app_lam app f) (pvar id t)
  | .app f (.app f' x' t) ty => app f _ ty rfl (AExpr.ind src op pvar lam app_lam app f)
      (AExpr.ind src op pvar lam app_lam app (.app f' x' t))

/-! ## parameters -/

/-- a registered parameter: its node, the state as it was -/
theorem addExprA_pvar_some {G : GLang} {c : GCfg} {root : Node} {origin : Option Node} {s : AState} {id : Nat}
    {p : Nat × Nat} (ty : Term) (cur : Option Nat) (im : Bool) (h : s.params.find? (fun p => p.1 == id) = some p) :
    addExprA G c root origin s (.pvar id ty) cur im = .ok (s, p.2) := by
  rw [addExprA_pvar, h]

/-- an unregistered parameter fails -/
theorem addExprA_pvar_none {G : GLang} {c : GCfg} {root : Node} {origin : Option Node} {s : AState} {id : Nat}
    (ty : Term) (cur : Option Nat) (im : Bool) (h : s.params.find? (fun p => p.1 == id) = none) :
    addExprA G c root origin s (.pvar id ty) cur im = .error assertApp := by
  rw [addExprA_pvar, h]

/-- an abstraction in function position fails -/
theorem addExprA_lam_head {G : GLang} {c : GCfg} {root : Node} {origin : Option Node} (s : AState) (ps : List Nat)
    (body x : AExpr) (t ty : Term) (cur : Option Nat) (im : Bool) :
    addExprA G c root origin s (.app (.lam ps body t) x ty) cur im = .error assertApp := by
  cases x with
  | lam ps' b' t' =>
    rw [addExprA_app_lam_gen, addExprA_lam]
  | src id l t' => rw [addExprA_app_gen _ _ _ _ _ _ _ _ _ _ rfl, addExprA_lam]
  | op name t' => rw [addExprA_app_gen _ _ _ _ _ _ _ _ _ _ rfl, addExprA_lam]
  | app f' x' t' => rw [addExprA_app_gen _ _ _ _ _ _ _ _ _ _ rfl, addExprA_lam]
  | pvar id t' => rw [addExprA_app_gen _ _ _ _ _ _ _ _ _ _ rfl, addExprA_lam]

/-- an abstraction whose type is not a function type never succeeds in argument position -/
theorem addExprA_lam_nofun_fails {G : GLang} {c : GCfg} {root : Node} {origin : Option Node} (s : AState) (f : AExpr)
    (ps : List Nat) (body : AExpr) (t ty : Term) (cur : Option Nat) (im : Bool) (ht : t.isFunction = false)
    (s' : AState) (n : Nat) :
    addExprA G c root origin s (.app f (.lam ps body t) ty) cur im ≠ .ok (s', n) := by
  rw [addExprA_app_lam_nofun _ _ _ _ _ _ _ _ _ _ _ _ ht]
  cases addExprA G c root origin { s with g := (curG s.g cur).1 } f (some (curG s.g cur).2) im with
  | error e => intro h; cases h
  | ok r => intro h; cases h

/-- the parameter table only grows, at its end -/
theorem addExprA_params_ext {G : GLang} {c : GCfg} {root : Node} : ∀ (e : AExpr) (origin : Option Node) (s : AState)
    (cur : Option Nat) (im : Bool) (s' : AState) (n : Nat),
    addExprA G c root origin s e cur im = .ok (s', n) → ∃ l, s'.params = s.params ++ l := by
  intro e
  refine AExpr.ind (P := fun e => ∀ (origin : Option Node) (s : AState) (cur : Option Nat) (im : Bool) (s' : AState) (n : Nat),
    addExprA G c root origin s e cur im = .ok (s', n) → ∃ l, s'.params = s.params ++ l) ?_ ?_ ?_ ?_ ?_ ?_ e
  · intro id l t origin s cur im s' n h
    rw [addExprA_src] at h
    cases hr : addExpr G c root origin s.g (.src id l t) cur im with
    | error e => rw [hr] at h; cases h
    | ok r => obtain ⟨g1, n1⟩ := r; rw [hr] at h; cases h; exact ⟨[], (List.append_nil _).symm⟩
  · intro name t origin s cur im s' n h
    rw [addExprA_op] at h
    cases hr : addExpr G c root origin s.g (.op name t) cur im with
    | error e => rw [hr] at h; cases h
    | ok r => obtain ⟨g1, n1⟩ := r; rw [hr] at h; cases h; exact ⟨[], (List.append_nil _).symm⟩
  · intro id t origin s cur im s' n h
    rw [addExprA_pvar] at h
    cases hr : s.params.find? (fun p => p.1 == id) with
    | none => rw [hr] at h; cases h
    | some p => rw [hr] at h; cases h; exact ⟨[], (List.append_nil _).symm⟩
  · intro ps b t origin s cur im s' n h
    rw [addExprA_lam] at h; cases h
  · intro f ps b t ty ihf ihb origin s cur im s' n h
    cases ht : t.isFunction with
    | false =>
      rw [addExprA_app_lam_nofun _ _ _ _ _ _ _ _ _ _ _ _ ht] at h
      cases hf : addExprA G c root origin { s with g := (curG s.g cur).1 } f (some (curG s.g cur).2) im with
      | error e => rw [hf] at h; cases h
      | ok r => rw [hf] at h; cases h
    | true =>
      rw [addExprA_app_lam _ _ _ _ _ _ _ _ _ _ _ _ ht] at h
      cases hf : addExprA G c root origin { s with g := (curG s.g cur).1 } f (some (curG s.g cur).2) im with
      | error e => rw [hf] at h; cases h
      | ok r1 =>
        obtain ⟨s1, fnode⟩ := r1
        rw [hf] at h
        simp only [] at h
        cases hb : addExprA G c root none
            { g := (mkInternalG s1.g.fresh.1 fnode true).1,
              params := s1.params ++ ps.map (fun p => (p, s1.g.nextB + 1)) } b (some s1.g.nextB) true with
        | error e => rw [hb] at h; cases h
        | ok r2 =>
          obtain ⟨s2, bnode⟩ := r2
          rw [hb] at h
          cases h
          obtain ⟨l1, h1⟩ := ihf _ _ _ _ _ _ hf
          obtain ⟨l2, h2⟩ := ihb _ _ _ _ _ _ hb
          refine ⟨l1 ++ (ps.map (fun p => (p, s1.g.nextB + 1)) ++ l2), ?_⟩
          show s2.params = _
          rw [h2]
          show (s1.params ++ _) ++ l2 = _
          rw [h1]
          simp only [List.append_assoc]
  · intro f x ty hx ihf ihx origin s cur im s' n h
    rw [addExprA_app _ _ _ _ _ _ _ _ _ _ hx] at h
    cases hf : addExprA G c root origin { s with g := (curG s.g cur).1 } f (some (curG s.g cur).2) im with
    | error e => rw [hf] at h; cases h
    | ok r1 =>
      obtain ⟨s1, fnode⟩ := r1
      rw [hf] at h
      simp only [] at h
      cases hb : addExprA G c root origin { s1 with g := (mkInternalG s1.g.fresh.1 fnode x.ty.isFunction).1 } x
          (some s1.g.fresh.2) true with
      | error e => rw [hb] at h; cases h
      | ok r2 =>
        obtain ⟨s2, xnode⟩ := r2
        rw [hb] at h
        cases h
        obtain ⟨l1, h1⟩ := ihf _ _ _ _ _ _ hf
        obtain ⟨l2, h2⟩ := ihx _ _ _ _ _ _ hb
        refine ⟨l1 ++ l2, ?_⟩
        show s2.params = _
        rw [h2]
        show s1.params ++ l2 = _
        rw [h1]
        simp only [List.append_assoc]

theorem find_append_some {α : Type} (q : α → Bool) (l1 l2 : List α) (a : α) (h : l1.find? q = some a) :
    (l1 ++ l2).find? q = some a := by
  rw [List.find?_append, h]; rfl

/-- a parameter that is registered keeps its node -/
theorem addExprA_lookup_stable {G : GLang} {c : GCfg} {root : Node} {origin : Option Node} {e : AExpr} {s s' : AState}
    {cur : Option Nat} {im : Bool} {n id : Nat} {p : Nat × Nat}
    (h : addExprA G c root origin s e cur im = .ok (s', n))
    (hp : s.params.find? (fun p => p.1 == id) = some p) :
    s'.params.find? (fun p => p.1 == id) = some p := by
  obtain ⟨l, hl⟩ := addExprA_params_ext e origin s cur im s' n h
  rw [hl]
  exact find_append_some _ _ _ _ hp

theorem find_map_const (ps : List Nat) (i q : Nat) (hq : q ∈ ps) :
    (ps.map (fun p => (p, i))).find? (fun p => p.1 == q) = some (q, i) := by
  induction ps with
  | nil => cases hq
  | cons a as ih =>
    simp only [List.map_cons, List.find?_cons]
    by_cases ha : a = q
    · subst ha; simp
    · have : (a == q) = false := by simpa using ha
      simp only [this]
      rcases List.mem_cons.1 hq with h | h
      · exact absurd h.symm ha
      · exact ih h

/-- a new parameter of an abstraction is registered for the internal node -/
theorem lookup_new_param (old : List (Nat × Nat)) (ps : List Nat) (i q : Nat) (hq : q ∈ ps)
    (hold : old.find? (fun p => p.1 == q) = none) :
    (old ++ ps.map (fun p => (p, i))).find? (fun p => p.1 == q) = some (q, i) := by
  rw [List.find?_append, hold, find_map_const ps i q hq]; rfl

/-! ## internal nodes are never removed (any configuration) -/

theorem GStep.internals_mono {c : GCfg} {P : Triple → Prop} {Q : Term × Node → Prop} {g g' : GState}
    (h : GStep c P Q g g') : ∀ p ∈ g.internals, p ∈ g'.internals := by
  induction h with
  | refl g => exact fun _ h => h
  | trans _ _ ih1 ih2 => exact fun p h => ih2 p (ih1 p h)
  | ty h => intro p hp; rw [h.internals_eq]; exact hp
  | addFrom g a b r =>
    intro p hp
    have : (gAddFrom c g a b r).internals = g.internals := by unfold gAddFrom; split <;> rfl
    rw [this]; exact hp
  | pushSrc g x => exact fun _ h => h
  | pushShared g x => exact fun _ h => h
  | pushInternal g x => exact fun _ h => List.mem_append_left _ h

theorem wireG_internals (c : GCfg) (origin : Option Node) (g : GState) (cur fnode xnode : Nat) (ci : Option Nat) :
    (wireG c origin g cur fnode xnode ci).internals = g.internals := by
  have := congrArg Core.ints (coreOf_wireG c origin g cur fnode xnode ci)
  rw [(wire_frame _ _ _ _).2.2.2] at this
  exact this

theorem wirePostG_internals (c : GCfg) (origin : Option Node) (g : GState) (cur fnode xnode i : Nat) :
    (wirePostG c origin g cur fnode xnode (some i)).internals = g.internals := by
  have := congrArg Core.ints (coreOf_wirePostG c origin g cur fnode xnode (some i))
  rw [(wireP_frame _ _ _ _).2.2.2] at this
  exact this

theorem mkInternalG_internals_mono (g : GState) (fnode : Nat) (b : Bool) :
    ∀ p ∈ g.internals, p ∈ (mkInternalG g.fresh.1 fnode b).1.internals := by
  intro p hp
  have h : (mkInternalG g.fresh.1 fnode b).1.internals = (mkInternal (coreOf g.fresh.1) fnode b).1.ints :=
    congrArg Core.ints (coreOf_mkInternalG g.fresh.1 fnode b)
  rw [h]
  unfold mkInternal
  split
  · exact List.mem_append_left _ hp
  · exact hp

theorem curG_internals (g : GState) (cur : Option Nat) : (curG g cur).1.internals = g.internals := by
  cases cur <;> rfl

/-- internal nodes are never removed -/
theorem addExprA_ints_mono {G : GLang} {c : GCfg} {root : Node} : ∀ (e : AExpr) (origin : Option Node) (s : AState)
    (cur : Option Nat) (im : Bool) (s' : AState) (n : Nat),
    addExprA G c root origin s e cur im = .ok (s', n) → ∀ p ∈ s.g.internals, p ∈ s'.g.internals := by
  intro e
  refine AExpr.ind (P := fun e => ∀ (origin : Option Node) (s : AState) (cur : Option Nat) (im : Bool) (s' : AState) (n : Nat),
    addExprA G c root origin s e cur im = .ok (s', n) → ∀ p ∈ s.g.internals, p ∈ s'.g.internals) ?_ ?_ ?_ ?_ ?_ ?_ e
  · intro id l t origin s cur im s' n h
    rw [addExprA_src] at h
    cases hr : addExpr G c root origin s.g (.src id l t) cur im with
    | error e => rw [hr] at h; cases h
    | ok r =>
      obtain ⟨g1, n1⟩ := r; rw [hr] at h; cases h
      exact GStep.internals_mono (addExpr_step G c root origin _ _ _ _ _ _ hr)
  · intro name t origin s cur im s' n h
    rw [addExprA_op] at h
    cases hr : addExpr G c root origin s.g (.op name t) cur im with
    | error e => rw [hr] at h; cases h
    | ok r =>
      obtain ⟨g1, n1⟩ := r; rw [hr] at h; cases h
      exact GStep.internals_mono (addExpr_step G c root origin _ _ _ _ _ _ hr)
  · intro id t origin s cur im s' n h
    rw [addExprA_pvar] at h
    cases hr : s.params.find? (fun p => p.1 == id) with
    | none => rw [hr] at h; cases h
    | some p => rw [hr] at h; cases h; exact fun _ hp => hp
  · intro ps b t origin s cur im s' n h
    rw [addExprA_lam] at h; cases h
  · intro f ps b t ty ihf ihb origin s cur im s' n h
    cases ht : t.isFunction with
    | false => exact absurd h (addExprA_lam_nofun_fails s f ps b t ty cur im ht s' n)
    | true =>
      rw [addExprA_app_lam _ _ _ _ _ _ _ _ _ _ _ _ ht] at h
      cases hf : addExprA G c root origin { s with g := (curG s.g cur).1 } f (some (curG s.g cur).2) im with
      | error e => rw [hf] at h; cases h
      | ok r1 =>
        obtain ⟨s1, fnode⟩ := r1
        rw [hf] at h
        simp only [] at h
        cases hb : addExprA G c root none
            { g := (mkInternalG s1.g.fresh.1 fnode true).1,
              params := s1.params ++ ps.map (fun p => (p, s1.g.nextB + 1)) } b (some s1.g.nextB) true with
        | error e => rw [hb] at h; cases h
        | ok r2 =>
          obtain ⟨s2, bnode⟩ := r2
          rw [hb] at h
          cases h
          intro p hp
          show p ∈ (wirePostG c origin s2.g (curG s.g cur).2 fnode bnode (some (s1.g.nextB + 1))).internals
          rw [wirePostG_internals]
          apply ihb _ _ _ _ _ _ hb
          apply mkInternalG_internals_mono
          apply ihf _ _ _ _ _ _ hf
          show p ∈ (curG s.g cur).1.internals
          rw [curG_internals]; exact hp
  · intro f x ty hx ihf ihx origin s cur im s' n h
    rw [addExprA_app _ _ _ _ _ _ _ _ _ _ hx] at h
    cases hf : addExprA G c root origin { s with g := (curG s.g cur).1 } f (some (curG s.g cur).2) im with
    | error e => rw [hf] at h; cases h
    | ok r1 =>
      obtain ⟨s1, fnode⟩ := r1
      rw [hf] at h
      simp only [] at h
      cases hb : addExprA G c root origin { s1 with g := (mkInternalG s1.g.fresh.1 fnode x.ty.isFunction).1 } x
          (some s1.g.fresh.2) true with
      | error e => rw [hb] at h; cases h
      | ok r2 =>
        obtain ⟨s2, xnode⟩ := r2
        rw [hb] at h
        cases h
        intro p hp
        show p ∈ (wireG c origin s2.g (curG s.g cur).2 fnode xnode
          (mkInternalG s1.g.fresh.1 fnode x.ty.isFunction).2).internals
        rw [wireG_internals]
        apply ihx _ _ _ _ _ _ hb
        apply mkInternalG_internals_mono
        apply ihf _ _ _ _ _ _ hf
        show p ∈ (curG s.g cur).1.internals
        rw [curG_internals]; exact hp

/-! ## the abstraction in argument position -/

theorem mkInternalG_true_fd (g : GState) (fnode : Nat) : (mkInternalG g.fresh.1 fnode true).1.fd = g.fd := by
  simp only [mkInternalG, if_true]
  rw [add_fd]; rfl

/-- The complete local rule for an abstraction in argument position (any expression, any configuration, any state). -/
theorem addExprA_lam_wiring {G : GLang} {c : GCfg} {root : Node} {origin : Option Node} {s s' : AState}
    {f : AExpr} {ps : List Nat} {body : AExpr} {t ty : Term} {m : Nat} {im : Bool} {n : Nat}
    (ht : t.isFunction = true)
    (h : addExprA G c root origin s (.app f (.lam ps body t) ty) (some m) im = .ok (s', n)) :
    ∃ (s1 : AState) (fnode : Nat) (gi : GState) (s2 : AState) (bnode : Nat),
      addExprA G c root origin s f (some m) im = .ok (s1, fnode) ∧
      gi.nextB = s1.g.nextB + 2 ∧ gi.internals = s1.g.internals ++ [(fnode, s1.g.nextB + 1)] ∧
      gi.srcNodes = s1.g.srcNodes ∧ gi.sharedNodes = s1.g.sharedNodes ∧ gi.fd = s1.g.fd ∧
      addExprA G c root none { g := gi, params := s1.params ++ ps.map (fun p => (p, s1.g.nextB + 1)) } body
        (some s1.g.nextB) true = .ok (s2, bnode) ∧
      n = m ∧ s'.params = s2.params ∧
      s'.g.internals = s2.g.internals ∧ s'.g.nextB = s2.g.nextB ∧ s'.g.srcNodes = s2.g.srcNodes ∧
      (fnode, s1.g.nextB + 1) ∈ s'.g.internals ∧
      (∀ q ∈ ps, s1.params.find? (fun p => p.1 == q) = none →
        (s1.params ++ ps.map (fun p => (p, s1.g.nextB + 1))).find? (fun p => p.1 == q) = some (q, s1.g.nextB + 1) ∧
        s'.params.find? (fun p => p.1 == q) = some (q, s1.g.nextB + 1)) ∧
      (fnode, bnode) ∈ s'.g.fd.frm ∧
      (∀ p ∈ s2.g.fd.frm, p ∈ s'.g.fd.frm) ∧
      (∀ μ, (bnode, μ) ∈ s2.g.internals → (μ, s1.g.nextB + 1) ∈ s'.g.fd.frm) ∧
      (∀ fin, (fnode, fin) ∈ s2.g.fd.frm → (s1.g.nextB + 1, fin) ∈ s'.g.fd.frm) ∧
      (∀ j, (fnode, j) ∈ s2.g.internals → j ≠ s1.g.nextB + 1 → (j, bnode) ∈ s'.g.fd.frm) ∧
      (fnode ≠ bnode → (fnode, fnode) ∉ s2.g.internals → (bnode, fnode) ∉ s2.g.internals →
        ∀ p, p ∈ s'.g.fd.frm ↔
          p ∈ s2.g.fd.frm ∨ p = (fnode, bnode) ∨
          (∃ μ, (bnode, μ) ∈ s2.g.internals ∧ p = (μ, s1.g.nextB + 1)) ∨
          (∃ j, (fnode, j) ∈ s2.g.internals ∧ j ≠ s1.g.nextB + 1 ∧ p = (j, bnode)) ∨
          (∃ fin, (fnode, fin) ∈ s2.g.fd.frm ∧ p = (s1.g.nextB + 1, fin))) ∧
      (fnode ≠ bnode → (fnode, fnode) ∉ s2.g.internals → (bnode, fnode) ∉ s2.g.internals →
        bnode ≠ s1.g.nextB + 1 → (bnode, bnode) ∉ s2.g.internals → (bnode, s1.g.nextB + 1) ∉ s2.g.fd.frm →
        (bnode, s1.g.nextB + 1) ∉ s'.g.fd.frm) := by
  rw [addExprA_app_lam _ _ _ _ _ _ _ _ _ _ _ _ ht] at h
  simp only [curG] at h
  cases hf : addExprA G c root origin s f (some m) im with
  | error e =>
    have hf' : addExprA G c root origin { s with g := s.g } f (some m) im = .error e := hf
    rw [hf'] at h; cases h
  | ok r1 =>
    obtain ⟨s1, fnode⟩ := r1
    have hf' : addExprA G c root origin { s with g := s.g } f (some m) im = .ok (s1, fnode) := hf
    rw [hf'] at h
    simp only [] at h
    cases hb : addExprA G c root none
        { g := (mkInternalG s1.g.fresh.1 fnode true).1,
          params := s1.params ++ ps.map (fun p => (p, s1.g.nextB + 1)) } body (some s1.g.nextB) true with
    | error e => rw [hb] at h; cases h
    | ok r2 =>
      obtain ⟨s2, bnode⟩ := r2
      rw [hb] at h
      cases h
      have hcore := coreOf_wirePostG c origin s2.g m fnode bnode (some (s1.g.nextB + 1))
      have hfr := wireP_frame (coreOf s2.g) fnode bnode (s1.g.nextB + 1)
      have hfrm : (wirePostG c origin s2.g m fnode bnode (some (s1.g.nextB + 1))).fd.frm =
          (wireP (coreOf s2.g) fnode bnode (some (s1.g.nextB + 1))).frm := congrArg Core.frm hcore
      have hint : (wirePostG c origin s2.g m fnode bnode (some (s1.g.nextB + 1))).internals = s2.g.internals := by
        have := congrArg Core.ints hcore
        rw [hfr.2.2.2] at this
        exact this
      have hnext : (wirePostG c origin s2.g m fnode bnode (some (s1.g.nextB + 1))).nextB = s2.g.nextB := by
        have := congrArg Core.nextB hcore
        rw [hfr.1] at this
        exact this
      have hsrc : (wirePostG c origin s2.g m fnode bnode (some (s1.g.nextB + 1))).srcNodes = s2.g.srcNodes := by
        have := congrArg Core.src hcore
        rw [hfr.2.1] at this
        exact this
      refine ⟨s1, fnode, (mkInternalG s1.g.fresh.1 fnode true).1, s2, bnode, rfl, ?_, ?_, ?_, ?_, ?_, hb, rfl, rfl,
        hint, hnext, hsrc, ?_, ?_, ?_, ?_, ?_, ?_, ?_, ?_, ?_⟩
      · exact congrArg Core.nextB (coreOf_mkInternalG s1.g.fresh.1 fnode true)
      · exact congrArg Core.ints (coreOf_mkInternalG s1.g.fresh.1 fnode true)
      · exact congrArg Core.src (coreOf_mkInternalG s1.g.fresh.1 fnode true)
      · exact congrArg Core.shared (coreOf_mkInternalG s1.g.fresh.1 fnode true)
      · exact mkInternalG_true_fd s1.g fnode
      · show (fnode, s1.g.nextB + 1) ∈ (wirePostG c origin s2.g m fnode bnode (some (s1.g.nextB + 1))).internals
        rw [hint]
        apply addExprA_ints_mono _ _ _ _ _ _ _ hb
        show (fnode, s1.g.nextB + 1) ∈ (mkInternalG s1.g.fresh.1 fnode true).1.internals
        have hh : (mkInternalG s1.g.fresh.1 fnode true).1.internals = s1.g.internals ++ [(fnode, s1.g.nextB + 1)] :=
          congrArg Core.ints (coreOf_mkInternalG s1.g.fresh.1 fnode true)
        rw [hh]
        exact List.mem_append_right _ (List.mem_singleton.2 rfl)
      · intro q hq hold
        have h1 := lookup_new_param s1.params ps (s1.g.nextB + 1) q hq hold
        have h2 : s2.params.find? (fun p => p.1 == q) = some (q, s1.g.nextB + 1) :=
          addExprA_lookup_stable (s := AState.mk _ _) hb h1
        exact ⟨h1, h2⟩
      · show (fnode, bnode) ∈ (wirePostG c origin s2.g m fnode bnode (some (s1.g.nextB + 1))).fd.frm
        rw [hfrm]; exact wireP_some_sub _ _ _ _ _ (Or.inr (Or.inl rfl))
      · intro p hp
        show p ∈ (wirePostG c origin s2.g m fnode bnode (some (s1.g.nextB + 1))).fd.frm
        rw [hfrm]; exact wireP_some_sub _ _ _ _ _ (Or.inl hp)
      · intro μ hμ
        show _ ∈ (wirePostG c origin s2.g m fnode bnode (some (s1.g.nextB + 1))).fd.frm
        rw [hfrm]; exact wireP_some_sub _ _ _ _ _ (Or.inr (Or.inr ⟨μ, hμ, rfl⟩))
      · intro fin hfin
        show _ ∈ (wirePostG c origin s2.g m fnode bnode (some (s1.g.nextB + 1))).fd.frm
        rw [hfrm]; exact wireP_some_inputs _ _ _ _ _ hfin
      · intro j hj hji
        show _ ∈ (wirePostG c origin s2.g m fnode bnode (some (s1.g.nextB + 1))).fd.frm
        rw [hfrm]; exact wireP_some_siblings _ _ _ _ _ hj hji
      · intro h1 h2 h3 p
        show p ∈ (wirePostG c origin s2.g m fnode bnode (some (s1.g.nextB + 1))).fd.frm ↔ _
        rw [hfrm]
        exact wireP_some_mem_all (coreOf s2.g) fnode bnode (s1.g.nextB + 1) p h1 h2 h3
      · intro h1 h2 h3 h4 h5 h6
        show (bnode, s1.g.nextB + 1) ∉ (wirePostG c origin s2.g m fnode bnode (some (s1.g.nextB + 1))).fd.frm
        rw [hfrm, wireP_some_mem_all (coreOf s2.g) fnode bnode (s1.g.nextB + 1) _ h1 h2 h3]
        rintro (h | h | ⟨μ, hμ, h⟩ | ⟨j, _, _, h⟩ | ⟨fin, _, h⟩)
        · exact h6 h
        · exact h1 (Prod.mk.inj h).1.symm
        · have := (Prod.mk.inj h).1
          subst this
          exact h5 hμ
        · exact h4 (Prod.mk.inj h).2.symm
        · exact h4 (Prod.mk.inj h).1

/-- The identity abstraction `λp. p` in argument position: the node of the argument is the internal node itself. -/
theorem addExprA_lam_identity {G : GLang} {c : GCfg} {root : Node} {origin : Option Node} {s s' : AState}
    {f : AExpr} {p : Nat} {tp t ty : Term} {m : Nat} {im : Bool} {n : Nat}
    (ht : t.isFunction = true)
    (h : addExprA G c root origin s (.app f (.lam [p] (.pvar p tp) t) ty) (some m) im = .ok (s', n)) :
    ∃ (s1 : AState) (fnode : Nat),
      addExprA G c root origin s f (some m) im = .ok (s1, fnode) ∧ n = m ∧
      (s1.params.find? (fun q => q.1 == p) = none →
        s'.params = s1.params ++ [(p, s1.g.nextB + 1)] ∧ s'.g.nextB = s1.g.nextB + 2 ∧
        s'.g.srcNodes = s1.g.srcNodes ∧
        s'.g.internals = s1.g.internals ++ [(fnode, s1.g.nextB + 1)] ∧
        (fnode, s1.g.nextB + 1) ∈ s'.g.fd.frm ∧
        (∀ q ∈ s1.g.fd.frm, q ∈ s'.g.fd.frm) ∧
        (∀ fin, (fnode, fin) ∈ s1.g.fd.frm → (s1.g.nextB + 1, fin) ∈ s'.g.fd.frm) ∧
        (∀ j, (fnode, j) ∈ s1.g.internals → j ≠ s1.g.nextB + 1 → (j, s1.g.nextB + 1) ∈ s'.g.fd.frm) ∧
        (fnode ≠ s1.g.nextB + 1 → (fnode, fnode) ∉ s1.g.internals → (s1.g.nextB + 1, fnode) ∉ s1.g.internals →
          ∀ q, q ∈ s'.g.fd.frm ↔
            q ∈ s1.g.fd.frm ∨ q = (fnode, s1.g.nextB + 1) ∨
            (∃ μ, (s1.g.nextB + 1, μ) ∈ s1.g.internals ∧ q = (μ, s1.g.nextB + 1)) ∨
            (∃ j, (fnode, j) ∈ s1.g.internals ∧ j ≠ s1.g.nextB + 1 ∧ q = (j, s1.g.nextB + 1)) ∨
            (∃ fin, (fnode, fin) ∈ s1.g.fd.frm ∧ q = (s1.g.nextB + 1, fin)))) := by
  obtain ⟨s1, fnode, gi, s2, bnode, hf, _, g2, _, _, g5, hb, hn, hp, hi, hnx, hsr, _, _, e1, e2, _, e4, e5, e6, _⟩ :=
    addExprA_lam_wiring ht h
  refine ⟨s1, fnode, hf, hn, ?_⟩
  intro hold
  have hl := lookup_new_param s1.params [p] (s1.g.nextB + 1) p (List.mem_singleton.2 rfl) hold
  rw [addExprA_pvar_some (s := AState.mk _ _) tp _ _ hl] at hb
  cases hb
  have hmem : ∀ a b, (a, b) ∈ gi.internals ↔ (a, b) ∈ s1.g.internals ∨ (a = fnode ∧ b = s1.g.nextB + 1) := by
    intro a b
    rw [g2, List.mem_append, List.mem_singleton, Prod.mk.injEq]
  refine ⟨hp, ?_, ?_, ?_, e1, ?_, ?_, ?_, ?_⟩
  · rw [hnx]; assumption
  · rw [hsr]; assumption
  · rw [hi]; exact g2
  · intro q hq; exact e2 q (by rw [g5]; exact hq)
  · intro fin hfin; exact e4 fin (by rw [g5]; exact hfin)
  · intro j hj hji; exact e5 j ((hmem _ _).2 (Or.inl hj)) hji
  · intro h1 h2 h3 q
    have hA : (fnode, fnode) ∉ gi.internals := by
      rw [hmem]; rintro (h' | ⟨_, h'⟩)
      · exact h2 h'
      · exact h1 h'
    have hB : ((p, s1.g.nextB + 1).2, fnode) ∉ gi.internals := by
      show (s1.g.nextB + 1, fnode) ∉ gi.internals
      rw [hmem]; rintro (h' | ⟨h', _⟩)
      · exact h3 h'
      · exact h1 h'.symm
    rw [e6 h1 hA hB q, g5]
    show q ∈ s1.g.fd.frm ∨ q = (fnode, s1.g.nextB + 1) ∨
        (∃ μ, (s1.g.nextB + 1, μ) ∈ gi.internals ∧ q = (μ, s1.g.nextB + 1)) ∨
        (∃ j, (fnode, j) ∈ gi.internals ∧ j ≠ s1.g.nextB + 1 ∧ q = (j, s1.g.nextB + 1)) ∨
        (∃ fin, (fnode, fin) ∈ s1.g.fd.frm ∧ q = (s1.g.nextB + 1, fin)) ↔ _
    constructor
    · rintro (h' | h' | ⟨μ, hμ, h'⟩ | ⟨j, hj, hji, h'⟩ | h')
      · exact Or.inl h'
      · exact Or.inr (Or.inl h')
      · rcases (hmem _ _).1 hμ with h'' | ⟨h'', _⟩
        · exact Or.inr (Or.inr (Or.inl ⟨μ, h'', h'⟩))
        · exact absurd h''.symm h1
      · rcases (hmem _ _).1 hj with h'' | ⟨_, h''⟩
        · exact Or.inr (Or.inr (Or.inr (Or.inl ⟨j, h'', hji, h'⟩)))
        · exact absurd h'' hji
      · exact Or.inr (Or.inr (Or.inr (Or.inr h')))
    · rintro (h' | h' | ⟨μ, hμ, h'⟩ | ⟨j, hj, hji, h'⟩ | h')
      · exact Or.inl h'
      · exact Or.inr (Or.inl h')
      · exact Or.inr (Or.inr (Or.inl ⟨μ, (hmem _ _).2 (Or.inl hμ), h'⟩))
      · exact Or.inr (Or.inr (Or.inr (Or.inl ⟨j, (hmem _ _).2 (Or.inl hj), hji, h'⟩)))
      · exact Or.inr (Or.inr (Or.inr (Or.inr h')))

end Tfv.C08P
