import Tfv.Model
import Tfv.Spec.WellTyped
import Tfv.Proofs.ParseInv
import Tfv.Proofs.ParseTypeOk
import Tfv.Proofs.ExprTyped
import Tfv.Proofs.ExprExamples
/-!
# C04 — every expression the parser returns is well typed at every application node

In any expression returned by the parser or by applying operators as Python objects, after
fixing, each application node's function part has a function type whose input is a supertype of
the argument's type and whose output is the node's type; each operator leaf carries an instance
of its declared signature, and each annotated sub-expression `e : T` has a type that is a subtype
of `T`.

Reading guide. `WellTyped L ρ e` and `TypedIn L σ e` are in `Spec/WellTyped.lean`: `TypedIn L σ e`
says the node types of `e` are well-formed terms of the store `σ` and, under *every* solution `ρ`
of `σ` (`Sat L ρ σ`, `Spec/Sat.lean`), every application node `f x : t` of `e` satisfies
`den ρ f.ty = p ** den ρ t` with `den ρ x.ty ≤ p` (or both `f` and the node have type `Top`).
`GoodStore L σ` is the invariant of the constraint-free engine (`OkStore L σ ∧ NoConstraints σ`).
`Step L σ σ'` (`Proofs/InferSound.lean`) is a sound successor store: `σ'` is good, has at least
the variables of `σ`, and every solution of `σ'` is a solution of `σ`.

Scope: operator declarations without constraints whose bodies are well formed (`OpsOk`), alias
bodies well formed (`AliasesOk`), a well-formed language (`WF`). All statements are full (no
`_partial`): no statement of the task turned out false of the model.
Statements only; proofs in `Tfv/Proofs/ParseInv.lean`, `ParseTypeOk.lean`, `ExprTyped.lean`.
-/
namespace Tfv.C04
open Tfv Tfv.C03P Tfv.C04P Tfv.ParseInv

/-! ## 1. the generic invariant lemma for the stack machine -/

/-- The invariant lemma for the loop of `parse_expr`, for any builder: if the four builder
operations preserve the state invariant `I`, are `step`s, and produce `Q`-expressions from
`Q`-arguments (`BuilderInv`), and `Q` is monotone along `step`, then from a state with `I`,
`Q`-inputs and a `Q`-stack the loop ends (when it succeeds) in such a state again. -/
theorem C04_stack_machine_loop {S E : Type} (P : PLang) (B : Builder S E) (I : S → Prop) (Q : S → E → Prop)
    (step : S → S → Prop) (H : BuilderInv P B I Q step) (inputs : List E) (defaults : Bool)
    (n : Nat) (s s' : EState S E) (toks : List String)
    (hs : LoopInv I Q inputs s) (h : parseExprLoop P B inputs defaults n s toks = .ok s') :
    LoopInv I Q inputs s' := parseExprLoop_inv H inputs defaults n s toks s' hs h

/-- … and for `parse_expr` itself: the returned state satisfies `I`, the returned expression `Q`. -/
theorem C04_stack_machine {S E : Type} (P : PLang) (B : Builder S E) (I : S → Prop) (Q : S → E → Prop)
    (step : S → S → Prop) (H : BuilderInv P B I Q step) (inputs : List E) (st0 st : S)
    (toks : List String) (e : E) (hI : I st0) (hin : InputsQ Q st0 inputs)
    (h : parseExprToks P B inputs st0 toks = .ok (st, e)) :
    I st ∧ InputsQ Q st inputs ∧ Q st e := parseExprToks_inv H hI hin h

/-- the premises are satisfiable in a non-trivial way: the typed builder with the store invariant -/
example : BuilderInv c4P (typedBuilder c4P.types c4ops true) (fun s => GoodStore c4P.types s.store)
    (fun s e => TypedIn c4P.types s.store e) (XStep c4P.types) :=
  typedBuilder_inv c4L_wf c4P_aliases c4ops_ok true

/-! ## 2. the four operations of the typed builder -/

/-- `Source()` keeps the store good, is a sound step, and the new source is typed in the new store. -/
theorem C04_mkSource_typed (L : Lang) (s : XState) (g : GoodStore L s.store) :
    GoodStore L (mkSourceT s).1.store ∧ Step L s.store (mkSourceT s).1.store ∧
    TypedIn L (mkSourceT s).1.store (mkSourceT s).2 := mkSource_typed s g

example : GoodStore c4L s1.store ∧ mkSourceT s1 = (s2, eS) := ⟨s1_good, ex_s⟩

/-- `Operator.instance()` for declarations without constraints: good store, sound step, typed leaf. -/
theorem C04_mkOp_typed (L : Lang) (wf : WF L) (ops : List OperatorDecl) (hops : OpsOk L ops)
    (s s' : XState) (name : String) (e : TExpr) (g : GoodStore L s.store)
    (h : mkOpT L ops s name = .ok (s', e)) :
    GoodStore L s'.store ∧ Step L s.store s'.store ∧ TypedIn L s'.store e := mkOp_typed wf hops g h

example : WF c4L ∧ OpsOk c4L c4ops ∧ GoodStore c4L ({} : XState).store ∧ mkOpT c4L c4ops {} "g" = .ok (s1, eG) :=
  ⟨c4L_wf, c4ops_ok, empty_good _, ex_g⟩

/-- `Application(f, x)`: from typed `f` and `x` the new node is typed in the new store — under every
solution of the new store the function part means `p ** t` with the argument below `p`. -/
theorem C04_mkApp_typed (L : Lang) (wf : WF L) (fixFlag : Bool) (s s' : XState) (f x e : TExpr)
    (g : GoodStore L s.store) (hf : TypedIn L s.store f) (hx : TypedIn L s.store x)
    (h : mkAppT L fixFlag s f x = .ok (s', e)) :
    GoodStore L s'.store ∧ Step L s.store s'.store ∧ TypedIn L s'.store e := mkApp_typed wf g hf hx h

example : GoodStore c4L s2.store ∧ TypedIn c4L s2.store eF ∧ TypedIn c4L s2.store eS ∧
    mkAppT c4L true s2 eF eS = .ok (s3, eFS) := ⟨s2_good, eF_typed _, eS_typed, ex_app1⟩

/-- `e : T` keeps the store good and the annotated tree typed. The annotation term has to be a
well-formed term of the store after the `nfresh` variables for its `_` were allocated
(`C04_annotation_term_ok`: the parser's annotation terms are). -/
theorem C04_annotate_typed (L : Lang) (wf : WF L) (s s' : XState) (previous e : TExpr) (t : Term)
    (nfresh : Nat) (prevDash : Bool) (g : GoodStore L s.store) (hp : TypedIn L s.store previous)
    (ht : okTerm L (allocVars s.store nfresh 0) t = true)
    (h : annotateT L s previous t nfresh prevDash = .ok (s', e)) :
    GoodStore L s'.store ∧ Step L s.store s'.store ∧ TypedIn L s'.store e :=
  annotate_typed3 wf g hp ht h

/-- After a successful annotation `e : T` the type of the annotated expression is a subtype of `T`
under every solution of the resulting store and of every later store. -/
theorem C04_annotation (L : Lang) (wf : WF L) (s s' : XState) (previous e : TExpr) (t : Term)
    (nfresh : Nat) (prevDash : Bool) (g : GoodStore L s.store) (hp : TypedIn L s.store previous)
    (ht : okTerm L (allocVars s.store nfresh 0) t = true)
    (h : annotateT L s previous t nfresh prevDash = .ok (s', e)) :
    ∀ σ'' ρ, Step L s'.store σ'' → Sat L ρ σ'' → Sub L (den ρ e.ty) (den ρ t) :=
  annotation_later wf g hp ht h

example : GoodStore c4L t0.store ∧ TypedIn c4L t0.store eI ∧
    okTerm c4L (allocVars t0.store 0 0) (.app 6 []) = true ∧
    annotateT c4L t0 eI (.app 6 []) 0 false = .ok (t1, eI) ∧ Sat c4L (valOf [.app 6 []]) t1.store :=
  ⟨t0_good, eI_typed, by decide, ex2_annot, ex2_sat⟩

/-- The type parser only produces well-formed terms: arities respected, variables exactly the
ones made for `_` (numbers `varBase … varBase + nfresh - 1`). -/
theorem C04_parse_type_ok (P : PLang) (wf : WF P.types) (ha : AliasesOk P) (consumeAll : Bool) (varBase : Nat)
    (toks rest : List String) (t : Term) (nfresh : Nat)
    (h : parseTypeLoop P consumeAll varBase {} toks = .ok (t, nfresh, rest)) :
    okTermN P.types (varBase + nfresh) t = true := parseTypeLoop_init_ok wf ha h

/-- … hence the annotation terms the expression parser hands to `annotateT` satisfy the
hypothesis of `C04_annotate_typed` / `C04_annotation`. -/
theorem C04_annotation_term_ok (P : PLang) (wf : WF P.types) (ha : AliasesOk P) (σ : Store)
    (toks rest : List String) (t : Term) (nfresh : Nat)
    (h : parseTypeLoop P false σ.vars.length {} toks = .ok (t, nfresh, rest)) :
    okTerm P.types (allocVars σ nfresh 0) t = true := annotation_term_ok wf ha h

example : WF c4P.types ∧ AliasesOk c4P ∧
    parseTypeLoop c4P false t0.store.vars.length {} ["B", ")"] = .ok (.app 6 [], 0, [")"]) :=
  ⟨c4L_wf, c4P_aliases, ex2_type⟩

/-- The typed builder satisfies the premises of the generic invariant lemma with the store
invariant `GoodStore` and the predicate `TypedIn`. -/
theorem C04_typedBuilder_inv (P : PLang) (wf : WF P.types) (ha : AliasesOk P) (ops : List OperatorDecl)
    (hops : OpsOk P.types ops) (fixFlag : Bool) :
    BuilderInv P (typedBuilder P.types ops fixFlag) (fun s => GoodStore P.types s.store)
      (fun s e => TypedIn P.types s.store e) (XStep P.types) := typedBuilder_inv wf ha hops fixFlag

/-! ## 3. the parser, `Expr.fix()`, `Expr.__call__` -/

/-- The input expressions `Source()` handed to the parser are typed in the state they leave. -/
theorem C04_mkInputs_typed (L : Lang) (n : Nat) (s s' : XState) (es : List TExpr)
    (g : GoodStore L s.store) (h : mkInputs n s = (s', es)) :
    GoodStore L s'.store ∧ Step L s.store s'.store ∧ ∀ e ∈ es, TypedIn L s'.store e :=
  mkInputs_typed n s s' es g h

example : GoodStore c4L ({} : XState).store ∧ mkInputs 1 {} = (t0, [eI]) := ⟨empty_good _, ex2_inputs⟩

/-- MAIN. For operator declarations without constraints, whatever `parse_expr` returns is typed in
the final store: every application node of the returned tree is well typed under every solution
of the final store (and the inputs stay typed, the store stays good). -/
theorem C04_nodes (P : PLang) (wf : WF P.types) (ha : AliasesOk P) (ops : List OperatorDecl)
    (hops : OpsOk P.types ops) (fixFlag : Bool) (inputs : List TExpr) (s0 s : XState)
    (toks : List String) (e : TExpr) (g : GoodStore P.types s0.store)
    (hin : ∀ x ∈ inputs, TypedIn P.types s0.store x)
    (h : parseExprToks P (typedBuilder P.types ops fixFlag) inputs s0 toks = .ok (s, e)) :
    GoodStore P.types s.store ∧ (∀ x ∈ inputs, TypedIn P.types s.store x) ∧ TypedIn P.types s.store e :=
  parse_nodes wf ha hops g hin h

/-- `g(f -)` with `f : A ** B`, `g : x ** x`: the parser succeeds, the final store has a solution
(`x := B`, the source of type `B`), so the statement is not vacuous -/
example : WF c4P.types ∧ AliasesOk c4P ∧ OpsOk c4P.types c4ops ∧ GoodStore c4P.types ({} : XState).store ∧
    parseExprToks c4P (typedBuilder c4P.types c4ops true) [] {} ["g", "(", "f", "-", ")"] = .ok (s4, eGFS) ∧
    Sat c4L (valOf [.app 6 [], .app 6 []]) s4.store :=
  ⟨c4L_wf, c4P_aliases, c4ops_ok, empty_good _, ex_parse, ex_sat4⟩

/-- `f(1 : B)` with one input: an annotation inside a parse -/
example : GoodStore c4P.types t0.store ∧ (∀ x ∈ [eI], TypedIn c4P.types t0.store x) ∧
    parseExprToks c4P (typedBuilder c4P.types c4ops true) [eI] t0 ["f", "(", "1", ":", "B", ")"] = .ok (t1, eFI) ∧
    Sat c4L (valOf [.app 6 []]) t1.store :=
  ⟨t0_good, fun x hx => by rw [List.mem_singleton] at hx; subst hx; exact eI_typed, ex2_parse, ex2_sat⟩

/-- The fixing pass of `Expr.fix()` (`fixExprCore`: sources to their most general type, applications
to their most specific one) preserves it: solutions only shrink, the tree stays typed in the store
after the pass, and the type of the root keeps its meaning. -/
theorem C04_fixCore_nodes (L : Lang) (wf : WF L) (e e' : TExpr) (σ σ' : Store)
    (g : GoodStore L σ) (ht : TypedIn L σ e) (h : fixExprCore L σ e = .ok (σ', e')) :
    Step L σ σ' ∧ TypedIn L σ' e' ∧ ∀ ρ, Sat L ρ σ' → den ρ e'.ty = den ρ e.ty :=
  fixExprCore_typed wf e σ σ' e' g ht h

example : fixExprCore c4L s4.store eGFS = .ok (s5.store, eCore) ∧ GoodStore c4L s4.store :=
  ⟨ex_fixCore, ⟨okStoreB_sound (by decide), noConstraintsB_sound (by decide)⟩⟩

/-- Normalising every node type against the store the tree is typed in (`normExpr σ`) keeps the
tree typed, and the type of the root keeps its meaning under every solution of `σ`. -/
theorem C04_normExpr_nodes (L : Lang) (σ : Store) (e : TExpr) (ok : OkStore L σ) (h : TypedIn L σ e) :
    TypedIn L σ (normExpr σ e) ∧ ∀ ρ, Sat L ρ σ → den ρ (normExpr σ e).ty = den ρ e.ty :=
  normExpr_typed ok h

example : normExpr s5.store eCore = eFixed := by
  simp only [eCore, eG, eF, normExpr, ex_norm1, ex_norm2, ex_norm3, eFixed]

/-- `Expr.fix()` (`fixExpr`: one recursion in Python's order — children first, then the node's own type
is fixed and normalised against the store of that moment, so a variable bound only later stays in the
stored type) preserves it: the fixed tree is typed in the store after fixing, and the type of the root
keeps its meaning under every solution of that store. -/
theorem C04_fix_nodes (L : Lang) (wf : WF L) (e e' : TExpr) (σ σ' : Store)
    (g : GoodStore L σ) (ht : TypedIn L σ e) (h : fixExpr L σ e = .ok (σ', e')) :
    Step L σ σ' ∧ TypedIn L σ' e' ∧ ∀ ρ, Sat L ρ σ' → den ρ e'.ty = den ρ e.ty :=
  fixExpr_typed wf e σ σ' e' g ht h

example : fixExpr c4L s4.store eGFS = .ok (s5.store, eFixed) ∧
    Sat c4L (valOf [.app 6 [], .app 5 []]) s5.store := ⟨ex_fix, ex_sat⟩

/-- a run with a *stale* type: `g -` where the variable of `g : x ** x` is still unbound (bounded by `A`) when
`g` is normalised and is bound to `A` by fixing the source afterwards. The hypotheses of `C04_fix_nodes` hold,
the fixed tree keeps `x ** x` on `g` and differs from the tree normalised against the final store; the
conclusion gives that it is well typed under the solution `x := A` of the final store all the same. -/
example : GoodStore c4L u0 ∧ TypedIn c4L u0 eU ∧ fixExpr c4L u0 eU = .ok (u1, eUfixed) ∧
    normExpr u1 eUfixed = eUnorm ∧ eUfixed ≠ eUnorm ∧ Sat c4L (valOf [.app 5 []]) u1 ∧
    WellTyped c4L (valOf [.app 5 []]) eUfixed :=
  ⟨u0_good, eU_typed, exU_fix, exU_normExpr, exU_stale, exU_sat,
   (C04_fix_nodes c4L c4L_wf eU eUfixed u0 u1 u0_good eU_typed exU_fix).2.1.wt _ exU_sat⟩

/-- `Language.parse(text, *inputs)` with or without `Expr.fix()`: the result is typed in the final store. -/
theorem C04_parseTyped_nodes (P : PLang) (wf : WF P.types) (ha : AliasesOk P) (ops : List OperatorDecl)
    (hops : OpsOk P.types ops) (n : Nat) (toks : List String) (doFix : Bool) (s : XState) (e : TExpr)
    (h : parseTyped P ops n toks doFix = .ok (s, e)) :
    GoodStore P.types s.store ∧ TypedIn P.types s.store e := parseTyped_nodes wf ha hops h

/-- the run asked for: `parseTyped` succeeds on `g ( f - )`, and the result is well typed under the
solution `x := B`, source `: A` of the final store -/
example : parseTyped c4P c4ops 0 ["g", "(", "f", "-", ")"] true = .ok (s5, eFixed) ∧
    WellTyped c4L (valOf [.app 6 [], .app 5 []]) eFixed :=
  ⟨ex_parseTyped,
   (C04_parseTyped_nodes c4P c4L_wf c4P_aliases c4ops c4ops_ok 0 _ true s5 eFixed ex_parseTyped).2.wt _ ex_sat⟩

example : parseTyped c4P c4ops 0 ["g", "(", "f", "-", ")"] false = .ok (s4, eGFS) := ex_parseTyped_nofix

/-- Programmatic construction `f(x₁, x₂, …)` (`Expr.__call__`): from typed parts the result is typed. -/
theorem C04_call_nodes (L : Lang) (wf : WF L) (xs : List TExpr) (s s' : XState) (f e : TExpr)
    (g : GoodStore L s.store) (hf : TypedIn L s.store f) (hxs : ∀ x ∈ xs, TypedIn L s.store x)
    (h : callT L s f xs = .ok (s', e)) :
    GoodStore L s'.store ∧ Step L s.store s'.store ∧ TypedIn L s'.store e :=
  callT_typed wf xs s s' f e g hf hxs h

example : GoodStore c4L s2.store ∧ TypedIn c4L s2.store eF ∧ (∀ x ∈ [eS], TypedIn c4L s2.store x) ∧
    callT c4L s2 eF [eS] = .ok (s3, eFS) :=
  ⟨s2_good, eF_typed _, fun x hx => by rw [List.mem_singleton] at hx; subst hx; exact eS_typed, ex_call⟩

/-- What `TypedIn` says, unfolded at an arbitrary application node `f x : t` of the tree (`SubExpr`):
under every solution of the store, the function part has type `p ** t` with the argument's type
a subtype of `p` — or the function part has type `Top` and so has the node. -/
theorem C04_every_node (L : Lang) (σ : Store) (e f x : TExpr) (t : Term) (h : TypedIn L σ e)
    (hs : SubExpr (.app f x t) e) (ρ : Val) (hρ : Sat L ρ σ) :
    (∃ p, den ρ f.ty = .app FUN [p, den ρ t] ∧ Sub L (den ρ x.ty) p) ∨
    (den ρ f.ty = .app TOP [] ∧ den ρ t = .app TOP []) := every_node h hs hρ

/-- A shared expression object `.shared key e` (the same object wherever it occurs) is transparent:
it is typed in a store exactly when the expression it stands for is; its type is that of `e`. -/
theorem C04_shared (L : Lang) (σ : Store) (key : Nat) (e : TExpr) :
    (TypedIn L σ (.shared key e) ↔ TypedIn L σ e) ∧ (TExpr.shared key e).ty = e.ty :=
  ⟨typedIn_shared, rfl⟩

/-- the shared object `f -`: typed in the final store of `g(f -)`; below a shared node the tree goes on -/
example : TypedIn c4L s4.store (.shared 7 eFS) ∧ SubExpr eFS (.app eG (.shared 7 eFS) (.app 6 [])) :=
  ⟨typedIn_shared.mpr eFS_typed, .arg (.shared (.refl _))⟩

/-- the inner node `f -` of `g(f -)` -/
example : SubExpr eFS eGFS ∧ Sat c4L (valOf [.app 6 [], .app 6 []]) s4.store :=
  ⟨.arg (.refl _), ex_sat4⟩

/-! ## 4. operator leaves -/

/-- An operator leaf made by `Operator.instance()` (an `Operation`, or a `Source` labelled with the
name for a non-function operator) carries an instance of its declared signature: under every
solution `ρ` of the resulting or any later store its type means the declared schema body under
the substitution `v ↦ ρ (v + base)`, `base` the number of variables before instantiation. -/
theorem C04_leaf_instance (L : Lang) (wf : WF L) (ops : List OperatorDecl) (hops : OpsOk L ops)
    (s s' : XState) (name : String) (e : TExpr) (g : GoodStore L s.store)
    (h : mkOpT L ops s name = .ok (s', e)) :
    ∃ d ∈ ops, d.name = name ∧
      (e = .op name e.ty ∨ e = .src s.nsrc (some name) e.ty) ∧
      ∀ σ'' ρ, Step L s'.store σ'' → Sat L ρ σ'' →
        den ρ e.ty = den (fun v => ρ (v + s.store.vars.length)) d.schema.body :=
  leaf_instance wf hops g h

/-- shifting a schema body is substituting `v ↦ ρ (v + base)` -/
theorem C04_den_shift (ρ : Val) (base : Nat) (t : Term) :
    den ρ (t.shift base) = den (fun v => ρ (v + base)) t := den_shift ρ base t

example : mkOpT c4L c4ops s1 "f" = .ok (s1, eF) ∧ GoodStore c4L s1.store := ⟨ex_f, s1_good⟩

end Tfv.C04
