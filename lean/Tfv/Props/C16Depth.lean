import Tfv.Model
import Tfv.Spec.History
import Tfv.Spec.HistoryShiftConstr
import Tfv.Proofs.FuelStable
import Tfv.Proofs.FuelStableEngine
import Tfv.Proofs.FuelStableUse
import Tfv.Proofs.FuelStableExamples
/-!
# C16, depth form — when do the store-size fuels suffice?

`Tfv/Props/C16Shift.lean`: behind a history a use of a schema WITH constraints is the fresh use renamed, computed with the
four store-size fuels (`followT`: `vars + 1`; `match`: `4·vars + 64`; occurs check and `variables()`: `vars + 64`; the
closure over constraints: `vars·(constrs+1) + 8`) offset by the sizes of the history; history independence holds
exactly when the fresh run is insensitive to the offsets. This file is about that insensitivity.

§1 (FULL, the fuelled helpers). Each helper is independent of the offsets once its fuel suffices at offset `0`:
`followT` when the binding chains end (`FuelOk`); `match`, the occurs check, `variables()` when the RESOLVED depth
(`RDepth σ d t`: `t` read through the bindings of `σ`; decidable, `rdepthB`) of the term walked is below the fuel — for
`match` of ONE of the two terms; the closure when the worklist ran empty (`closedWithin`, decidable).

§2 (the whole use). The lift through the twelve engine functions, `instantiate`, `Type.apply` and a whole use is done
for SAFE runs: `useSafe L n fixFlag s xs` (Proofs/FuelStableUse.lean, `safe` in Proofs/FuelStableEngine.lean) follows
the FRESH run (offsets `0`) and checks at every call of a fuelled helper the hypotheses of §1 with depth bound 63 (below
every store-size fuel): chains end, the terms walked are resolved-shallow, the closure stabilised. It is a Bool, decided
by evaluating the fresh run ONCE; it does not mention the history. `C16d_history_independent_partial`: a safe use is
history independent behind EVERY history (any content, any size) — the hypothesis `hstable` of C16Shift is discharged
for all offsets at once. PARTIAL because the hypothesis is about the run, not about the depth of the inputs: the
statement aimed at — "inputs nested less than 64 deep ⇒ history independence" — is FALSE (§3), and `useSafe` rejects
the counterexamples. `C16d_history_independent_iff_all_offsets`: the statement for ALL histories is exactly the
insensitivity to ALL offsets.

§3 (FINDING, kernel-checked). Elimination constraints with one alternative chain bindings without allocating variables
(`x₁ << {Fᵉ x₀}`, `x₂ << {Fᵉ x₁}`, …): the resolved depth grows by `e` per variable, the fuels by `4` resp. `1`.
History independence fails for a schema nested ≤ 26 deep with 8 variables, for one nested ≤ 9 deep with 26 variables
(both through the fuel of `variables()`), and for one nested ≤ 31 deep with 9 variables and no arguments (through the
fuel of `match`). No bound on the depth of the inputs alone can be the hypothesis; it has to bound depth × length of
binding chains (the resolved depth) against `vars + 64`.

Statements only; proofs in `Tfv/Proofs/FuelStable*.lean` (namespace `Tfv.C16D`).
-/
namespace Tfv.C16
open Tfv Tfv.C03P Tfv.C03C Tfv.C16P Tfv.C16C Tfv.C16H Tfv.C16D Tfv.C17E

/-! ## 1. the fuelled helpers -/

/-- `followT`: in a store whose binding chains end within the model's fuel (`FuelOk`, equivalently the invariant
`Chains` of C17) any offset gives the model's answer. -/
theorem C16d_followT_stable (σ : Store) (hf : FuelOk σ) (kv : Nat) (t : Term) :
    followTE kv σ t = followT σ t :=
  followTE_eq hf kv t
example : FuelOk σElim ∧ followTE 7 σElim (.var 0) = .app 5 [] := ⟨σElim_fuelOk, by decide⟩

/-- The resolved depth is decidable: `rdepthB σ d t` walks `t` through the bindings of `σ`. -/
theorem C16d_rdepth_decidable (σ : Store) (d : Nat) (t : Term) : RDepth σ d t ↔ rdepthB σ d t = true :=
  ⟨rdepthB_complete, rdepthB_sound d t⟩
example : RDepth σElim 1 (.var 0) ∧ ¬ RDepth σElim 0 (.var 0) :=
  ⟨σElim_rdepth, fun h => absurd (rdepthB_complete h) (by decide)⟩

/-- In a store without bindings the resolved depth is the raw nesting depth (`tdepth`: a variable `0`, a constant `1`). -/
theorem C16d_rdepth_of_unbound (σ : Store) (hu : ∀ v, (getVar σ v).bound = none) (t : Term) (d : Nat)
    (h : tdepth t ≤ d) : RDepth σ d t :=
  rdepth_of_unbound hu t d h
example : (∀ v, (getVar σ1 v).bound = none) ∧ tdepth (.app 7 [.app 5 []]) ≤ 2 := ⟨σ1_unbound, by decide⟩

/-- `match`: if ONE of the two terms has resolved depth below both fuels, the fuel and the offset do not matter. -/
theorem C16d_match_stable (L : Lang) (σ : Store) (hf : FuelOk σ) (kv n m d : Nat) (st aw : Bool) (a b : Term)
    (hd : RDepth σ d a ∨ RDepth σ d b) (hn : d < n) (hm : d < m) :
    match3E L kv σ n st aw a b = match3E L 0 σ m st aw a b :=
  match3E_stable L hf kv n m d st aw a b hd hn hm

/-- … with the model's fuel `4·vars + 64`: the call the engine makes, for every offset, is the model's. -/
theorem C16d_match_fuel_stable (L : Lang) (σ : Store) (hf : FuelOk σ) (kv d : Nat) (st aw : Bool) (a b : Term)
    (hd : RDepth σ d a ∨ RDepth σ d b) (h : d < matchFuel σ) :
    match3E L kv σ (matchFuelE kv σ) st aw a b = match3 L σ (matchFuel σ) st aw a b :=
  match3E_fuel_stable L hf kv st aw a b hd h
example : FuelOk σElim ∧ (RDepth σElim 1 (.var 0) ∨ RDepth σElim 1 (dA 70)) ∧ 1 < matchFuel σElim :=
  ⟨σElim_fuelOk, .inl σElim_rdepth, by decide⟩

/-- the occurs check `b in a` (fuel `vars + 64`; inside, `match` with fuel `4·vars + 64`): resolved depth of `a`. -/
theorem C16d_occurs_stable (L : Lang) (σ : Store) (hf : FuelOk σ) (kv d : Nat) (a b : Term)
    (hd : RDepth σ d a) (h : d < termFuel σ) :
    occursE L kv σ (termFuelE kv σ) a b = occurs L σ (termFuel σ) a b :=
  occursE_fuel_stable L hf kv a b hd h
example : FuelOk σElim ∧ RDepth σElim 1 (.var 0) ∧ 1 < termFuel σElim := ⟨σElim_fuelOk, σElim_rdepth, by decide⟩

/-- `variables()` of one term (fuel `vars + 64`). -/
theorem C16d_directVars_stable (σ : Store) (hf : FuelOk σ) (kv d : Nat) (t : Term) (acc : List Nat)
    (hd : RDepth σ d t) (h : d < termFuel σ) :
    directVarsE kv σ (termFuelE kv σ) t acc = directVars σ (termFuel σ) t acc :=
  directVarsE_fuel_stable hf kv t acc hd h
example : FuelOk σCC ∧ RDepth σCC 0 (.var 1) ∧ 0 < termFuel σCC :=
  ⟨σCC_fuelOk, rdepthB_sound 0 _ (by decide), by decide⟩

/-- the closure over constraints (fuel `vars·(constrs+1) + 8`): once the worklist runs empty within `n` steps
(`closedWithin`, decidable) and the constraint terms are resolved-shallow, more fuel and any offset change nothing. -/
theorem C16d_indirectVars_stable (σ : Store) (hf : FuelOk σ) (kv d : Nat) (hc : ConstrsShallow σ d)
    (h : d < termFuel σ) (n j : Nat) (work seen : List Nat) (hw : closedWithin σ n work seen = true) :
    indirectVarsE kv σ (n + j) work seen = indirectVarsE 0 σ n work seen :=
  indirectVarsE_stable hf kv hc h n j work seen hw

/-- `variables(indirect=True)`: both offsets. -/
theorem C16d_varsOfTerms_stable (σ : Store) (hf : FuelOk σ) (kv kc d : Nat) (hc : ConstrsShallow σ d)
    (h : d < termFuel σ) (ts : List Term) (hts : ∀ t, t ∈ ts → RDepth σ d t)
    (hw : closedWithin σ (σ.vars.length * (σ.constrs.length + 1) + 8)
      (ts.foldl (fun acc t => directVars σ (termFuel σ) t acc) [])
      (ts.foldl (fun acc t => directVars σ (termFuel σ) t acc) []) = true) :
    varsOfTermsE kv kc σ ts = varsOfTerms σ ts :=
  varsOfTermsE_stable hf kv kc hc h ts hts hw
/-- non-vacuity: `σCC` has two pending constraints (`x0 ≤ A`, `x1 ≤ A`) -/
example : FuelOk σCC ∧ ConstrsShallow σCC 1 ∧ 1 < termFuel σCC ∧
    (∀ t, t ∈ [Term.var 0, .var 1] → RDepth σCC 1 t) ∧
    varsOfTermsE 9 4 σCC [.var 0, .var 1] = varsOfTerms σCC [.var 0, .var 1] :=
  ⟨σCC_fuelOk, σCC_shallow, by decide,
   fun t ht => rdepthB_sound 1 t (by
     rcases List.mem_cons.mp ht with rfl | ht
     · decide
     · rcases List.mem_cons.mp ht with rfl | ht
       · decide
       · cases ht),
   varsOfTermsE_stable σCC_fuelOk 9 4 σCC_shallow (by decide) _ (fun t ht => rdepthB_sound 1 t (by
     rcases List.mem_cons.mp ht with rfl | ht
     · decide
     · rcases List.mem_cons.mp ht with rfl | ht
       · decide
       · cases ht)) σCC_closed⟩

/-- `spineFollow` (used by `instantiate`). -/
theorem C16d_spineFollow_stable (σ : Store) (hf : FuelOk σ) (kv : Nat) (t : Term) :
    spineFollowE kv σ t = spineFollowE 0 σ t :=
  spineFollowE_eq hf kv t
example : FuelOk σElim := σElim_fuelOk

/-! ## 2. the whole use, for ALL histories -/

/-- History independence for EVERY history (any content, any size) is EXACTLY the insensitivity of the fresh run to
EVERY pair of fuel offsets. -/
theorem C16d_history_independent_iff_all_offsets (L : Lang) (n : Nat) (fixFlag : Bool) (s : Schema) (xs : List Term)
    (hcs : ∀ c, c ∈ s.constraints → okCAstN L (s.nvars + s.nwild) c = true)
    (hbody : okTermN L (s.nvars + s.nwild) s.body = true) (hxs : Term.closedL xs = true) :
    (∀ σ₀ : Store, useSchema L n fixFlag σ₀ s xs = afterHistoryC σ₀ (useSchema L n fixFlag {} s xs)) ↔
      ∀ kv kc, useSchemaE L kv kc n fixFlag {} s xs = useSchema L n fixFlag {} s xs :=
  history_independent_all_iff hcs hbody hxs
example : (∀ c, c ∈ sElim.constraints → okCAstN exL (sElim.nvars + sElim.nwild) c = true) ∧
    okTermN exL (sElim.nvars + sElim.nwild) sElim.body = true ∧ Term.closedL [.app 6 []] = true :=
  ⟨sElim_ok.1, sElim_ok.2, by decide⟩

/-- If the fresh run is insensitive to every pair of offsets, the use is history independent behind every history. -/
theorem C16d_history_independent_of_all_offsets (L : Lang) (n : Nat) (fixFlag : Bool) (s : Schema) (xs : List Term)
    (hcs : ∀ c, c ∈ s.constraints → okCAstN L (s.nvars + s.nwild) c = true)
    (hbody : okTermN L (s.nvars + s.nwild) s.body = true) (hxs : Term.closedL xs = true)
    (hstable : ∀ kv kc, useSchemaE L kv kc n fixFlag {} s xs = useSchema L n fixFlag {} s xs) (σ₀ : Store) :
    useSchema L n fixFlag σ₀ s xs = afterHistoryC σ₀ (useSchema L n fixFlag {} s xs) :=
  (history_independent_all_iff hcs hbody hxs).mpr hstable σ₀
/-- non-vacuity: a constraint-free schema satisfies `hstable` (C16s_constraint_free_stable) -/
example : ∀ kv kc, useSchemaE exL kv kc 10 true {} exSch [.app 6 []] = useSchema exL 10 true {} exSch [.app 6 []] :=
  fun kv kc => useSchemaE_stable_constraint_free rfl (by decide) (by decide) kv kc

/-- THE ENGINE BLOCK. For every offset `kv` and every fuel `n`, each of the twelve functions (`unify`, `unifyList`,
`bind`, `above`, `below`, `checkConstraints`, `checkList`, `fulfill`, `minimize`, `minLoop`, `fix`, `fixList`), called on
ANY store and arguments for which the safety check of the offset-`0` run succeeds (`(safe L n).unify σ a b st sb sw =
true`, …), returns the same with the fuel offset `kv` as with offset `0`. -/
theorem C16d_engine_stable (L : Lang) (kv n : Nat) : BlockSt L kv n := blockSt L kv n

/-- … e.g. unification, any flags, arbitrary terms, arbitrary store -/
theorem C16d_unify_stable (L : Lang) (kv n : Nat) (σ : Store) (a b : Term) (st sb sw : Bool)
    (hs : (safe L n).unify σ a b st sb sw = true) :
    unifyE L kv n σ a b st sb sw = unifyE L 0 n σ a b st sb sw :=
  (blockSt L kv n).unify σ a b st sb sw hs
example : (safe exL 20).unify σCC (.var 0) (.app 6 []) true false false = true := by decide +kernel

/-- `instantiate` of a schema WITH constraints, from any store -/
theorem C16d_instantiate_stable (L : Lang) (n : Nat) (σ : Store) (s : Schema)
    (hs : instantiateSafe L n σ s = true) (kv kc : Nat) :
    instantiateE L kv kc n σ s = instantiateE L 0 0 n σ s :=
  instantiateE_safe hs kv kc
example : instantiateSafe exL 40 σC sElim = true := by decide +kernel

/-- `Type.apply`, arbitrary terms, arbitrary store -/
theorem C16d_apply_stable (L : Lang) (n : Nat) (σ : Store) (f x : Term) (fixFlag : Bool)
    (hs : applyTSafe L n σ f x fixFlag = true) (kv : Nat) :
    applyTE L kv n σ f x fixFlag = applyTE L 0 n σ f x fixFlag :=
  applyTE_safe hs kv
example : applyTSafe exL 40 σCC (.app FUN [.var 0, .var 0]) (.app 6 []) true = true := by decide +kernel

/-- A SAFE fresh run is the same for ALL fuel offsets: `hstable` of `C16s_history_independent_partial`, for every
history at once, from one evaluation of the decidable check `useSafe`. -/
theorem C16d_use_stable_of_safe (L : Lang) (n : Nat) (fixFlag : Bool) (s : Schema) (xs : List Term)
    (hsafe : useSafe L n fixFlag s xs = true) (kv kc : Nat) :
    useSchemaE L kv kc n fixFlag {} s xs = useSchema L n fixFlag {} s xs :=
  useSchemaE_safe hsafe kv kc
example : useSafe exL 40 true sElim [.app 6 []] = true := sElim_safe

/-- THE MAIN STATEMENT, PARTIAL. For EVERY history `σ₀` (any content, any size, no well-formedness), every well-scoped
schema WITH constraints and concrete arguments whose fresh run is fuel-safe (`useSafe`, a decidable property of the
fresh run alone: at every fuelled helper call the chains end and the terms walked are resolved at most 63 deep):
the use behind the history is the fresh use placed behind the history. No `hstable`. PARTIAL: the hypothesis is about
the run, because no bound on the depth of the inputs alone suffices (§3). -/
theorem C16d_history_independent_partial (L : Lang) (n : Nat) (fixFlag : Bool) (s : Schema) (xs : List Term)
    (hcs : ∀ c, c ∈ s.constraints → okCAstN L (s.nvars + s.nwild) c = true)
    (hbody : okTermN L (s.nvars + s.nwild) s.body = true) (hxs : Term.closedL xs = true)
    (hsafe : useSafe L n fixFlag s xs = true) (σ₀ : Store) :
    useSchema L n fixFlag σ₀ s xs = afterHistoryC σ₀ (useSchema L n fixFlag {} s xs) :=
  (history_independent_all_iff hcs hbody hxs).mpr (useSchemaE_safe hsafe) σ₀
/-- non-vacuity on the examples of C16Shift: the elimination constraint `x ** x [x << {A, B}]` on `B`, the subtype
constraint `x ** x [x ≤ A]` on `B`, and `x ** y ** x [x ≤ F(y)]` on `F(B)`, `A` (allocates a skeleton variable) are safe -/
example : useSafe exL 40 true sElim [.app 6 []] = true ∧ useSafe exL 40 true exSC [.app 6 []] = true ∧
    useSafe exL 60 true sSubF [.app 7 [.app 6 []], .app 5 []] = true := ⟨sElim_safe, exSC_safe, sSubF_safe⟩
/-- … so behind ANY history, e.g. `σC` (pending constraint), whatever its size: -/
example (σ₀ : Store) : useSchema exL 40 true σ₀ sElim [.app 6 []] =
    afterHistoryC σ₀ (useSchema exL 40 true {} sElim [.app 6 []]) :=
  C16d_history_independent_partial exL 40 true sElim [.app 6 []] sElim_ok.1 sElim_ok.2 (by decide) sElim_safe σ₀

/-- The check is not vacuous in the other direction: it REJECTS the runs on which history independence fails — the deep
schema of C16Shift and the shallow chain of §3. -/
theorem C16d_safe_rejects_counterexamples :
    useSafe exL 200 true sDeep [] = false ∧ useSafe exL 700 true (sV 25 3) [.app 5 []] = false :=
  ⟨sDeep_rejected, sV_25_3_rejected⟩

/-! ## 3. FINDING: shallow inputs do not make the fuels suffice -/

/-- `sV 25 3` is `x₀ ** y [x₁ << {F²⁵ x₀}, x₂ << {F²⁵ x₁}, x₃ << {F²⁵ x₂}, x₄ << {F²⁵ B}, x₅ << {F²⁵ x₄},
x₆ << {F²⁵ x₅}, y << {x₃, x₆}]`: well-formed, every term nested at most 26 deep, 8 variables; applied to the constant
`A`. From the empty store the result type is the unresolved `y` (`variables()` of the last constraint, fuel `8 + 64`,
does not reach `x₀` through `x₃ = F⁷⁵(x₀)`, the constraint is not re-checked when `x₀ := A`); behind 20 unresolved
variables it is a compound type (`F⁷⁵(A)`). The use behind the history is NOT the fresh use renamed. -/
theorem C16d_history_independent_fails_shallow :
    schemaDepth (sV 25 3) = 26 ∧
    (∃ σ, useSchema exL 700 true {} (sV 25 3) [.app 5 []] = .ok (σ, .var 7)) ∧
    (∃ σ o args, useSchema exL 700 true (blankHistory 20 0) (sV 25 3) [.app 5 []] = .ok (σ, .app o args)) ∧
    useSchema exL 700 true (blankHistory 20 0) (sV 25 3) [.app 5 []] ≠
      afterHistoryC (blankHistory 20 0) (useSchema exL 700 true {} (sV 25 3) [.app 5 []]) :=
  ⟨sV_25_3_depth, sV_25_3_fails⟩

/-- … the same with every term nested at most 9 deep and 26 variables (`sV 8 12`, chains of twelve `F⁸`). (Evaluated,
not kernel-checked here for build time: `sV 4 36`, nested at most 5 deep, 74 variables, behaves the same.) -/
theorem C16d_history_independent_fails_depth9 :
    schemaDepth (sV 8 12) = 9 ∧
    (∃ σ, useSchema exL 1000 true {} (sV 8 12) [.app 5 []] = .ok (σ, .var 25)) ∧
    (∃ σ o args, useSchema exL 1000 true (blankHistory 20 0) (sV 8 12) [.app 5 []] = .ok (σ, .app o args)) ∧
    useSchema exL 1000 true (blankHistory 20 0) (sV 8 12) [.app 5 []] ≠
      afterHistoryC (blankHistory 20 0) (useSchema exL 1000 true {} (sV 8 12) [.app 5 []]) :=
  ⟨sV_8_12_depth, sV_8_12_fails⟩

/-- … and through the fuel of `match` (`4·vars + 64`), without arguments: `sChain`, nested at most 31 deep, 9 variables,
two chains resolving to `F¹²⁰(A)` and `F¹²⁰(B)` compared by `minimize`; behind 6 unresolved variables. -/
theorem C16d_history_independent_fails_match :
    schemaDepth sChain = 31 ∧
    useSchema exL 700 true (blankHistory 6 0) sChain [] ≠
      afterHistoryC (blankHistory 6 0) (useSchema exL 700 true {} sChain []) :=
  ⟨sChain_depth, sChain_fails⟩

/-- Hence the statement aimed at is false of the model: a bound on the nesting depth of the schema's terms and of the
arguments — here 26 and 1 — does not imply history independence, for a well-formed language, a well-formed schema and a
history of unresolved variables satisfying every invariant. -/
theorem C16d_depth_bound_insufficient :
    ¬ (∀ (L : Lang) (n : Nat) (fixFlag : Bool) (σ₀ : Store) (s : Schema) (xs : List Term), WF L → OkStoreC L σ₀ →
        (∀ c, c ∈ s.constraints → okCAstN L (s.nvars + s.nwild) c = true) →
        okTermN L (s.nvars + s.nwild) s.body = true → Term.closedL xs = true →
        schemaDepth s ≤ 26 → tdepth.tdepthL xs ≤ 1 →
        useSchema L n fixFlag σ₀ s xs = afterHistoryC σ₀ (useSchema L n fixFlag {} s xs)) :=
  fun h => sV_25_3_fails.2.2 (h exL 700 true (blankHistory 20 0) (sV 25 3) [.app 5 []] exL_wf blank20_okc
    sV_25_3_ok.1 sV_25_3_ok.2 (by decide) (Nat.le_of_eq sV_25_3_depth) (by decide))

end Tfv.C16
