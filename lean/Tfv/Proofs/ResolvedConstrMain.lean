import Tfv.Proofs.ResolvedConstrTop
import Tfv.Proofs.InferConstrMain
import Tfv.Proofs.InferWitness
/-!
# Resolved subtype constraints hold: the statements in their final form

`Ready L σ`: the store satisfies the earlier invariants (`OkStoreC`, `Chains`, `NoWild`) and the attachment invariant
with nothing pending. It holds of the empty store and of every store without constraints, it is kept by `instantiate`
(schemas without wildcards), `applyT`, `applyAll`, `unify`, and in a `Ready` store every subtype constraint whose two
sides resolve (to types of depth below 64) holds; an unfulfilled one never has both sides resolved.
-/
namespace Tfv.C03R
open Tfv Tfv.C03P Tfv.C03C Tfv.C16P Tfv.C17E

structure Ready (L : Lang) (σ : Store) : Prop where
  pre : Pre L σ
  inv : Inv L σ Pend.none

/-- executable sufficient condition: well formed, chains end, no wildcards, no constraints registered,
every variable points to an allocated constraint set -/
def readyB (L : Lang) (σ : Store) : Bool :=
  okStoreCB L σ && chainsB σ && noWildB σ && σ.constrs.isEmpty &&
    σ.vars.all (fun i => decide (i.cset < σ.csets.length))

theorem readyB_sound {L : Lang} {σ : Store} (h : readyB L σ = true) : Ready L σ := by
  unfold readyB at h
  simp only [Bool.and_eq_true, List.isEmpty_iff] at h
  obtain ⟨⟨⟨⟨h1, h2⟩, h3⟩, h4⟩, h5⟩ := h
  refine ⟨⟨okStoreCB_sound h1, chainsB_sound h2, noWildB_sound h3⟩, ?_, ?_, ?_, ?_, ?_, ?_, ?_,
    fun _ _ _ _ hk _ => hk.elim⟩
  · intro v hv
    have := List.all_eq_true.mp h5 _ (List.getElem_mem hv)
    rw [C17E.getVar_eq_getElem hv]
    simpa using this
  · intro c r t s hc
    have := unful_lt hc
    rw [h4] at this; cases this
  · intro c r t s hc
    have := unful_lt hc
    rw [h4] at this; cases this
  · intro c r t s hc
    rw [h4] at hc; cases hc
  · intro c r as hc
    have := (unful_elim hc).lt
    rw [h4] at this; cases this
  · intro c r as hc
    have := (unful_elim hc).lt
    rw [h4] at this; cases this
  · intro c r a hc
    rw [h4] at hc; cases hc

theorem ready_empty (L : Lang) : Ready L {} := by
  refine ⟨⟨okStoreCB_sound (by rfl), chains_empty, fun _ => rfl⟩, ?_, ?_, ?_, ?_, ?_, ?_, ?_,
    fun _ _ _ _ hk _ => hk.elim⟩
  · intro v hv; cases hv
  · intro c r t s hc; have := unful_lt hc; cases this
  · intro c r t s hc; have := unful_lt hc; cases this
  · intro c r t s hc; cases hc
  · intro c r as hc; have := (unful_elim hc).lt; cases this
  · intro c r as hc; have := (unful_elim hc).lt; cases this
  · intro c r a hc; cases hc

/-- in a `Ready` store every subtype constraint with both sides resolved holds -/
theorem ready_sub {L : Lang} {σ : Store} (rd : Ready L σ) {c : Nat} {ref tgt : Term} {st ful : Bool}
    (hc : c < σ.constrs.length) (hg : getConstr σ c = .sub ref tgt st ful) {τr τt : Ty}
    (h1 : Res σ ref τr) (h2 : Res σ tgt τt) (d1 : Ty.depth τr < 64) (d2 : Ty.depth τt < 64) : Sub L τr τt := by
  cases ful with
  | true => exact rd.inv.ful c ref tgt st hc hg σ (Ext.refl σ) rd.pre.ch rd.pre.okc.ok τr τt h1 h2
  | false => exact (rd.inv.chk c ref tgt st hg (fun h => h) τr τt h1 h2 d1 d2).elim

/-- … a fulfilled one whatever the depth -/
theorem ready_sub_fulfilled {L : Lang} {σ : Store} (rd : Ready L σ) {c : Nat} {ref tgt : Term} {st : Bool}
    (hc : c < σ.constrs.length) (hg : getConstr σ c = .sub ref tgt st true) {τr τt : Ty}
    (h1 : Res σ ref τr) (h2 : Res σ tgt τt) : Sub L τr τt :=
  rd.inv.ful c ref tgt st hc hg σ (Ext.refl σ) rd.pre.ch rd.pre.okc.ok τr τt h1 h2

/-- in a `Ready` store an unfulfilled subtype constraint does not have both sides resolved -/
theorem ready_unfulfilled {L : Lang} {σ : Store} (rd : Ready L σ) {c : Nat} {ref tgt : Term} {st : Bool}
    (hg : getConstr σ c = .sub ref tgt st false) {τr τt : Ty}
    (h1 : Res σ ref τr) (h2 : Res σ tgt τt) (d1 : Ty.depth τr < 64) (d2 : Ty.depth τt < 64) : False :=
  rd.inv.chk c ref tgt st hg (fun h => h) τr τt h1 h2 d1 d2

/-- … and sits in the constraint set of every variable still reachable from it -/
theorem ready_attached {L : Lang} {σ : Store} (rd : Ready L σ) {c : Nat} {ref tgt : Term} {st : Bool}
    (hg : getConstr σ c = .sub ref tgt st false) {u d : Nat} (hd : d < 64)
    (hr : Reach σ ref u d ∨ Reach σ tgt u d) : c ∈ getCset σ (getVar σ u).cset :=
  rd.inv.att c ref tgt st hg u d hd hr

/-- in a `Ready` store an unfulfilled elimination constraint has at least two alternatives left, and if its reference
and all of them resolve, the reference resolves to a subtype of every one of them -/
theorem ready_elim_unfulfilled {L : Lang} {σ : Store} (rd : Ready L σ) {c : Nat} {ref : Term} {alts : List Term}
    (hg : getConstr σ c = .elim ref alts false) :
    2 ≤ alts.length ∧ ∀ τr τs, Res σ ref τr → ResL σ alts τs → Ty.depth τr < 64 → Ty.depthL τs ≤ 64 →
      ∀ τ, τ ∈ τs → Sub L τr τ :=
  rd.inv.chkE c ref alts hg (fun h => h)

/-- … in particular it resolves to a subtype of at least one resolved remaining alternative -/
theorem ready_elim_unfulfilled_exists {L : Lang} {σ : Store} (rd : Ready L σ) {c : Nat} {ref : Term}
    {alts : List Term} (hg : getConstr σ c = .elim ref alts false) {τr : Ty} {τs : List Ty}
    (h1 : Res σ ref τr) (h2 : ResL σ alts τs) (d1 : Ty.depth τr < 64) (d2 : Ty.depthL τs ≤ 64) :
    ∃ τ, τ ∈ τs ∧ Sub L τr τ := by
  obtain ⟨hlen, hall⟩ := ready_elim_unfulfilled rd hg
  cases τs with
  | nil => have hl := resL_length h2; rw [hl] at hlen; simp at hlen
  | cons τ τs => exact ⟨τ, List.mem_cons_self, hall τr _ h1 h2 d1 d2 τ List.mem_cons_self⟩

/-- … and sits in the constraint set of every variable still reachable from its reference or an alternative -/
theorem ready_elim_attached {L : Lang} {σ : Store} (rd : Ready L σ) {c : Nat} {ref : Term} {alts : List Term}
    (hg : getConstr σ c = .elim ref alts false) {t : Term} (ht : t ∈ ref :: alts) {u d : Nat} (hd : d < 64)
    (hr : Reach σ t u d) : c ∈ getCset σ (getVar σ u).cset :=
  rd.inv.attE c ref alts hg t ht u d hd hr

/-- in a `Ready` store whose bindings are acyclic, an elimination constraint marked fulfilled with ONE alternative left
holds: if the reference and that alternative resolve, the resolved reference is a subtype of the resolved alternative
(`fulfill` unified the reference with it in subtype mode, and every later step only shrinks the set of solutions) -/
theorem ready_elim_fulfilled_single {L : Lang} (wf : WF L) {σ : Store} (rd : Ready L σ) (hac : Acyclic σ) {c : Nat}
    {ref a : Term} (hc : c < σ.constrs.length) (hg : getConstr σ c = .elim ref [a] true) {τr τa : Ty}
    (h1 : Res σ ref τr) (h2 : Res σ a τa) : Sub L τr τa := by
  obtain ⟨ρ, hρ, _⟩ := witness_exists rd.pre.okc.ok hac _ (choice_exists wf rd.pre.okc.ok)
  have := rd.inv.ful1 c ref a hc hg (fun h => h) ρ hρ trivial
  rw [res_den hρ τr ref h1, res_den hρ τa a h2] at this
  exact this

/-- terms that follow to the same term resolve to the same type -/
theorem Same.res {σ : Store} {a b : Term} {τ : Ty} (h : Same σ a b) (hc : Chains σ) (hr : Res σ a τ) : Res σ b τ :=
  res_congr (h.now hc) hr

theorem ready_unify {L : Lang} (wf : WF L) {n : Nat} {σ σ' : Store} {a b : Term} {sb sw : Bool} (rd : Ready L σ)
    (ha : okTerm L σ a = true) (hb : okTerm L σ b = true) (h : unify L n σ a b true sb sw = .ok σ') :
    Ready L σ' :=
  ⟨(unify_pre wf rd.pre ha hb h).1, ((all_R wf n).1 σ a b sb sw σ' _ rd.pre ha hb rd.inv h).2⟩

theorem ready_applyT {L : Lang} (wf : WF L) {n : Nat} {σ σ' : Store} {f x r : Term} {fixFlag : Bool}
    (rd : Ready L σ) (hf : okTerm L σ f = true) (hx : okTerm L σ x = true)
    (h : applyT L n σ f x fixFlag = .ok (σ', r)) : Ready L σ' := by
  obtain ⟨p, _, _, i, _⟩ := applyT_R wf rd.pre hf hx rd.inv h
  exact ⟨p, i⟩

theorem ready_applyAll {L : Lang} (wf : WF L) {n : Nat} {fixFlag : Bool} {σ σ' : Store} {f r : Term}
    {xs : List Term} (rd : Ready L σ) (hf : okTerm L σ f = true) (hxs : okTermL L σ xs = true)
    (h : applyAll L n fixFlag σ f xs = .ok (σ', r)) : Ready L σ' := by
  obtain ⟨p, _, _, i, _⟩ := applyAll_R wf n fixFlag xs σ σ' f r _ rd.pre hf hxs rd.inv h
  exact ⟨p, i⟩

theorem ready_instantiate {L : Lang} (wf : WF L) {n : Nat} {σ σ' : Store} {s : Schema} {f : Term}
    (rd : Ready L σ) (hw : s.nwild = 0)
    (hcs : ∀ c, c ∈ s.constraints → okCAstN L (s.nvars + s.nwild) c = true)
    (hbody : okTermN L (s.nvars + s.nwild) s.body = true)
    (h : instantiate L n σ s = .ok (σ', f)) : Ready L σ' ∧ okTerm L σ' f = true := by
  obtain ⟨p, _, i, hf⟩ := instantiate_R wf rd.pre hw hcs hbody (fun ⟨_, hj⟩ => hj.elim) rd.inv h
  exact ⟨⟨p, i⟩, hf⟩

/-- the records of a run: over a chain of applications every elimination constraint keeps its kind, its fulfilled flag
is only raised, and its reference / every remaining alternative follows to what the reference / some alternative of
the record before the run follows to (now and later) -/
theorem applyAll_der {L : Lang} (wf : WF L) {n : Nat} {fixFlag : Bool} {σ σ' : Store} {f r : Term}
    {xs : List Term} (rd : Ready L σ) (hf : okTerm L σ f = true) (hxs : okTermL L σ xs = true)
    (h : applyAll L n fixFlag σ f xs = .ok (σ', r)) {c : Nat} {ref : Term} {alts : List Term} {ful : Bool}
    (hc : c < σ.constrs.length) (hg : getConstr σ c = .elim ref alts ful) :
    ∃ ref' alts' ful', getConstr σ' c = .elim ref' alts' ful' ∧ (ful = true → ful' = true) ∧ Same σ' ref' ref ∧
      ∀ a', a' ∈ alts' → ∃ a, a ∈ alts ∧ Same σ' a' a := by
  obtain ⟨_, _, sr, _, _⟩ := applyAll_R wf n fixFlag xs σ σ' f r _ rd.pre hf hxs rd.inv h
  exact sr.der c ref alts ful hc hg

/-- registering an elimination constraint: the record it leaves derives from the given reference and alternatives -/
theorem addConstraint_der {L : Lang} (wf : WF L) {n : Nat} {σ σ' : Store} {ref : Term} {alts : List Term}
    (rd : Ready L σ) (hc : okTermL L σ (ref :: alts) = true)
    (h : addConstraint L n σ (.elim ref alts false) = .ok σ') :
    Ready L σ' ∧ ∃ ref' alts' ful', getConstr σ' σ.constrs.length = .elim ref' alts' ful' ∧ Same σ' ref' ref ∧
      ∀ a', a' ∈ alts' → ∃ a, a ∈ alts ∧ Same σ' a' a := by
  obtain ⟨p, _, _, i, hd⟩ := addConstraint_R (P := Pend.none) wf rd.pre (c := .elim ref alts false) hc rfl
    (fun (hk : False) => hk.elim) rd.inv h
  obtain ⟨r', as', f', e, _, h1, h2⟩ := hd ref alts false rfl
  exact ⟨⟨p, i⟩, r', as', f', e, h1, h2⟩

/-- the property in one statement: instantiate a constrained schema (no wildcards), apply the instance to arguments;
in the final store every subtype constraint (of this schema or registered before) whose reference and target resolve
holds on the resolutions -/
theorem resolved_sub_holds {L : Lang} (wf : WF L) {n : Nat} {fixFlag : Bool} {σ σ1 σ' : Store} {s : Schema}
    {f r : Term} {xs : List Term} (rd : Ready L σ) (hw : s.nwild = 0)
    (hcs : ∀ c, c ∈ s.constraints → okCAstN L (s.nvars + s.nwild) c = true)
    (hbody : okTermN L (s.nvars + s.nwild) s.body = true)
    (hi : instantiate L n σ s = .ok (σ1, f)) (hxs : okTermL L σ1 xs = true)
    (ha : applyAll L n fixFlag σ1 f xs = .ok (σ', r)) :
    Ready L σ' ∧
    ∀ c ref tgt st ful, c < σ'.constrs.length → getConstr σ' c = .sub ref tgt st ful →
      ∀ τr τt, Res σ' ref τr → Res σ' tgt τt → Ty.depth τr < 64 → Ty.depth τt < 64 → Sub L τr τt := by
  obtain ⟨rd1, hf⟩ := ready_instantiate wf rd hw hcs hbody hi
  have rd' := ready_applyAll wf rd1 hf hxs ha
  exact ⟨rd', fun c ref tgt st ful hc hg τr τt h1 h2 d1 d2 => ready_sub rd' hc hg h1 h2 d1 d2⟩

/-! ## elimination constraints registered with closed alternatives -/

/-- `Ready`, and the elimination constraints with index in `K` were registered with closed alternatives -/
structure ReadyK (L : Lang) (σ : Store) (K : Nat → Prop) : Prop where
  pre : Pre L σ
  inv : Inv L σ (Pend.closedFrom K)

theorem ReadyK.ready {L : Lang} {σ : Store} {K : Nat → Prop} (rd : ReadyK L σ K) : Ready L σ :=
  ⟨rd.pre, Inv.mono' (P := Pend.closedFrom K) (P' := Pend.none) (fun _ _ hp => hp) (fun _ hw => hw) (fun _ hg => hg)
    (fun _ hk => hk.elim) rd.inv⟩

/-- nothing is known yet about the constraints that are not registered yet -/
theorem Ready.readyK {L : Lang} {σ : Store} (rd : Ready L σ) : ReadyK L σ (fun c => σ.constrs.length ≤ c) := by
  refine ⟨rd.pre, rd.inv.idx, rd.inv.att, rd.inv.chk, rd.inv.ful, rd.inv.attE, rd.inv.chkE, rd.inv.ful1, ?_⟩
  intro c r as f (hk : σ.constrs.length ≤ c) hc
  have : getConstr σ c = .sub (.var 0) (.var 0) false true := by
    unfold getConstr
    rw [List.getD_eq_getElem?_getD, List.getElem?_eq_none (by omega)]
    rfl
  rw [this] at hc; cases hc

theorem readyK_instantiate {L : Lang} (wf : WF L) {n : Nat} {σ σ' : Store} {s : Schema} {f : Term}
    {K : Nat → Prop} (rd : ReadyK L σ K) (hw : s.nwild = 0)
    (hcs : ∀ c, c ∈ s.constraints → okCAstN L (s.nvars + s.nwild) c = true)
    (hbody : okTermN L (s.nvars + s.nwild) s.body = true)
    (hcl : ∀ c, c ∈ s.constraints → closedAltsB c = true)
    (h : instantiate L n σ s = .ok (σ', f)) : ReadyK L σ' K ∧ okTerm L σ' f = true := by
  obtain ⟨p, _, i, hf⟩ := instantiate_R wf rd.pre hw hcs hbody (fun _ => hcl) rd.inv h
  exact ⟨⟨p, i⟩, hf⟩

theorem readyK_applyAll {L : Lang} (wf : WF L) {n : Nat} {fixFlag : Bool} {σ σ' : Store} {f r : Term}
    {xs : List Term} {K : Nat → Prop} (rd : ReadyK L σ K) (hf : okTerm L σ f = true)
    (hxs : okTermL L σ xs = true) (h : applyAll L n fixFlag σ f xs = .ok (σ', r)) : ReadyK L σ' K := by
  obtain ⟨p, _, _, i, _⟩ := applyAll_R wf n fixFlag xs σ σ' f r _ rd.pre hf hxs rd.inv h
  exact ⟨p, i⟩

/-- an elimination constraint registered with closed alternatives keeps closed alternatives, and once it is marked
fulfilled exactly one alternative is left (its `minimize` never re-enters `fulfill`) -/
theorem readyK_closed {L : Lang} {σ : Store} {K : Nat → Prop} (rd : ReadyK L σ K) {c : Nat} (hk : K c)
    {ref : Term} {alts : List Term} {ful : Bool} (hg : getConstr σ c = .elim ref alts ful) :
    Term.closedL alts = true ∧ (ful = true → alts.length = 1) :=
  rd.inv.ful2 c ref alts ful hk hg

/-- the elimination clause for schemas whose elimination constraints have closed alternatives (`x << {A, B}`):
after instantiating the schema and applying the instance, every elimination constraint of the schema whose reference
resolves is satisfied: the resolved reference is a subtype of at least one remaining alternative -/
theorem resolved_elim_closed_holds {L : Lang} (wf : WF L) {n : Nat} {fixFlag : Bool} {σ σ1 σ' : Store}
    {s : Schema} {f r : Term} {xs : List Term} (rd : Ready L σ) (hw : s.nwild = 0)
    (hcs : ∀ c, c ∈ s.constraints → okCAstN L (s.nvars + s.nwild) c = true)
    (hbody : okTermN L (s.nvars + s.nwild) s.body = true)
    (hcl : ∀ c, c ∈ s.constraints → closedAltsB c = true)
    (hi : instantiate L n σ s = .ok (σ1, f)) (hxs : okTermL L σ1 xs = true)
    (ha : applyAll L n fixFlag σ1 f xs = .ok (σ', r)) (hac : Acyclic σ') :
    ∀ c ref alts ful, σ.constrs.length ≤ c → c < σ'.constrs.length → getConstr σ' c = .elim ref alts ful →
      ∀ τr τs, Res σ' ref τr → ResL σ' alts τs → Ty.depth τr < 64 → Ty.depthL τs ≤ 64 →
      ∃ τ, τ ∈ τs ∧ Sub L τr τ := by
  obtain ⟨rd1, hf⟩ := readyK_instantiate wf rd.readyK hw hcs hbody hcl hi
  have rd' := readyK_applyAll wf rd1 hf hxs ha
  intro c ref alts ful hk hc hg τr τs h1 h2 d1 d2
  cases ful with
  | false => exact ready_elim_unfulfilled_exists rd'.ready hg h1 h2 d1 d2
  | true =>
    obtain ⟨_, hone⟩ := readyK_closed rd' (K := fun c => σ.constrs.length ≤ c) hk hg
    match alts, hone rfl, hg, h2 with
    | [a], _, hg, h2 =>
      match τs, h2 with
      | [τa], h2 =>
        rw [resL_cons] at h2
        exact ⟨τa, List.mem_cons_self, ready_elim_fulfilled_single wf rd'.ready hac hc hg h1 h2.1⟩
      | [], h2 => rw [resL_nil_right] at h2; cases h2
      | _ :: _ :: _, h2 => rw [resL_cons, resL_nil_left] at h2; cases h2.2

/-! ## an executable resolution -/

mutual
/-- `Res` as a test -/
def resB (σ : Store) : Term → Ty → Bool
  | t, .app o τs => match followT σ t with
    | .app o' args => o == o' && resBL σ args τs
    | .var _ => false
def resBL (σ : Store) : List Term → List Ty → Bool
  | [], [] => true
  | t :: ts, τ :: τs => resB σ t τ && resBL σ ts τs
  | [], _ :: _ => false
  | _ :: _, [] => false
end

mutual
theorem resB_sound {σ : Store} : ∀ (τ : Ty) (t : Term), resB σ t τ = true → Res σ t τ
  | .app o τs, t, h => by
    rw [resB] at h
    rw [res_app]
    split at h
    · next o' args e =>
      rw [Bool.and_eq_true, beq_iff_eq] at h
      obtain ⟨h1, h2⟩ := h
      subst h1
      exact ⟨args, e, resBL_sound τs args h2⟩
    · cases h
theorem resBL_sound {σ : Store} : ∀ (τs : List Ty) (ts : List Term), resBL σ ts τs = true → ResL σ ts τs
  | [], [], _ => resL_nil
  | [], _ :: _, h => by rw [resBL] at h; cases h
  | _ :: _, [], h => by rw [resBL] at h; cases h
  | τ :: τs, t :: ts, h => by
    rw [resBL, Bool.and_eq_true] at h
    exact resL_cons.mpr ⟨resB_sound τ t h.1, resBL_sound τs ts h.2⟩
end

end Tfv.C03R
