import Tfv.Model.InferSched
/-!
# C18 — invariants of the constraint sets of a store

`CsInv Q σ`: every constraint set of `σ` satisfies `Q`. For a `Q` closed under the three operations
the engine performs on constraint sets (create empty, union, remove one member) every store
operation of the engine keeps `CsInv Q`.
-/
namespace Tfv.C18P

/-- every constraint set of the store satisfies `Q` -/
def CsInv (Q : List Nat → Prop) (σ : Store) : Prop := ∀ k, Q (getCset σ k)

/-- `Q` is closed under the operations the engine block performs on constraint sets -/
structure CsClosed (Q : List Nat → Prop) : Prop where
  nil : Q []
  union : ∀ a b, Q a → Q b → Q (unionSorted a b)
  filter : ∀ a c, Q a → Q (a.filter (· != c))

variable {Q : List Nat → Prop}

theorem csInv_setVar {σ : Store} (h : CsInv Q σ) (v : Nat) (i : VarInfo) : CsInv Q (setVar σ v i) :=
  fun k => h k

theorem csInv_setConstr {σ : Store} (h : CsInv Q σ) (c : Nat) (x : Constr) : CsInv Q (setConstr σ c x) :=
  fun k => h k

theorem getCset_setCset (σ : Store) (k j : Nat) (cs : List Nat) :
    getCset (setCset σ k cs) j = if k = j ∧ k < σ.csets.length then cs else getCset σ j := by
  unfold getCset setCset
  simp only [List.getD_eq_getElem?_getD, List.getElem?_set]
  by_cases h : k = j
  · subst h
    by_cases h2 : k < σ.csets.length
    · simp [h2]
    · simp [h2]
  · simp [h]

theorem csInv_setCset {σ : Store} (h : CsInv Q σ) (k : Nat) {cs : List Nat} (hcs : Q cs) :
    CsInv Q (setCset σ k cs) := by
  intro j
  rw [getCset_setCset]
  split
  · exact hcs
  · exact h j

theorem getCset_newVar (σ : Store) (wc : Bool) (j : Nat) :
    getCset (newVar σ wc).1 j = getCset σ j := by
  unfold getCset newVar
  simp only [List.getD_eq_getElem?_getD, List.getElem?_append]
  split
  · rfl
  · next hlt =>
    rw [List.getElem?_eq_none (l := σ.csets) (by omega)]
    cases (j - σ.csets.length) <;> simp

theorem csInv_newVar {σ : Store} (h : CsInv Q σ) (wc : Bool) : CsInv Q (newVar σ wc).1 := by
  intro j; rw [getCset_newVar]; exact h j

theorem csInv_newVars : ∀ (n : Nat) {σ : Store}, CsInv Q σ → CsInv Q (newVars σ n).1
  | 0, _, h => h
  | n+1, σ, h => by
    unfold newVars
    exact csInv_newVars n (csInv_newVar h false)

theorem csInv_allocVars {σ : Store} (h : CsInv Q σ) (nv nw : Nat) : CsInv Q (allocVars σ nv nw) := by
  have aux : ∀ (wc : Bool) (l : List Nat) (σ : Store), CsInv Q σ →
      CsInv Q (l.foldl (fun σ _ => (newVar σ wc).1) σ) := by
    intro wc l
    induction l with
    | nil => intro σ h; exact h
    | cons x xs ih => intro σ h; exact ih _ (csInv_newVar h wc)
  unfold allocVars
  exact aux true _ _ (aux false _ _ h)

theorem csInv_foldl_setVar (f : Store → Nat → VarInfo) (vars : List Nat) : ∀ (σ : Store), CsInv Q σ →
    CsInv Q (vars.foldl (fun σ w => setVar σ w (f σ w)) σ) := by
  induction vars with
  | nil => intro σ h; exact h
  | cons w ws ih => intro σ h; exact ih _ (csInv_setVar h _ _)

theorem q_merged (hQ : CsClosed Q) {σ : Store} (h : CsInv Q σ) (vars : List Nat) : ∀ (init : List Nat), Q init →
    Q (vars.foldl (fun acc w => unionSorted acc (getCset σ (getVar σ w).cset)) init) := by
  induction vars with
  | nil => intro init hi; exact hi
  | cons w ws ih => intro init hi; exact ih _ (hQ.union _ _ hi (h _))

theorem csInv_empty (hQ : CsClosed Q) : CsInv Q {} := by
  intro k
  have : getCset {} k = [] := by unfold getCset; simp
  rw [this]; exact hQ.nil

end Tfv.C18P
