"""Paths and the import of the implementation under verification."""
from __future__ import annotations
import os, sys

VERIF = os.path.dirname(os.path.dirname(os.path.abspath(__file__)))
REPO = os.environ.get("VERIF_REPO", "/repo")
LEAN = os.path.join(VERIF, "lean")
GUARD = "TRANSFORGE_VERIF"


def import_impl():
    """Import transforge from REPO's *current working tree* with hooks on."""
    os.environ[GUARD] = "1"
    if sys.path[0] != REPO:
        sys.path.insert(0, REPO)
    for m in list(sys.modules):
        if m == "transforge" or m.startswith("transforge."):
            f = getattr(sys.modules[m], "__file__", "") or ""
            if not f.startswith(REPO):
                del sys.modules[m]
    import transforge  # noqa
    assert transforge.__file__.startswith(REPO), transforge.__file__
    return transforge
