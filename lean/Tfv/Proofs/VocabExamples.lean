import Tfv.Proofs.VocabCheck
import Tfv.Proofs.VocabPerm
import Tfv.Proofs.VocabOps
/-!
# Running examples for the vocabulary theorems

`exG` (from `Tfv.GraphEx`): `A > B > C`, covariant `F`, canon `{A, F(A), F(B), F(C), B, C}`.
`exD` : `A > B`, covariant `F`, `H`; canon `{H(F(A)), H(F(B))}` - the parameter types `F(A)`, `F(B)` are not canonical
(finding D24: they are described at blank nodes).
-/
namespace Tfv.VocabEx
open Tfv Tfv.Voc Tfv.GraphEx

theorem ok_of_isSome {ε α : Type} {x : Except ε α} (h : x.toOption.isSome = true) : ∃ a, x = .ok a := by
  cases x with
  | error e => simp [Except.toOption] at h
  | ok a => exact ⟨a, rfl⟩

/-- the configuration of a vocabulary graph -/
def cV : GCfg := { withCanonicalTypes := true }

def subTr (a b : String) : Triple := (.ns a, subClassOf, .ns b)
def typeTr (n : Node) : Triple := (n, .rdf "type", .tf "Type")

/-- the taxonomy of `exG` without closure -/
theorem exG_direct : (addTaxonomyOn exG cV false exG.canon {}).toOption.map (·.triples) = some
    [typeTr (.ns "A"), subTr "B" "A", typeTr (.ns "F-A"), subTr "F-A" "F", (.ns "F-A", .rdf "_1", .ns "A"), subTr "F-B" "F-A",
     typeTr (.ns "F-B"), subTr "F-B" "F", typeTr (.ns "B"), (.ns "F-B", .rdf "_1", .ns "B"), subTr "F-C" "F-B",
     typeTr (.ns "F-C"), subTr "F-C" "F", typeTr (.ns "C"), (.ns "F-C", .rdf "_1", .ns "C"), subTr "C" "B"] := by
  decide +kernel

/-- the closure adds the reflexive and the composed links -/
theorem exG_closure : (addTaxonomyOn exG cV true exG.canon {}).toOption.map (fun g => g.triples.drop 16) = some
    [subTr "A" "A", subTr "C" "A", subTr "F-A" "F-A", subTr "F-C" "F-A", subTr "F-B" "F-B", subTr "F-C" "F-C", subTr "B" "B", subTr "C" "C"] := by
  decide +kernel

theorem exG_runs (cl : Bool) : ∃ g, addTaxonomyOn exG cV cl exG.canon {} = .ok g := by
  cases cl <;> exact ok_of_isSome (by decide +kernel)

theorem exG_runs_rev (cl : Bool) : ∃ g, addTaxonomyOn exG cV cl exG.canon.reverse {} = .ok g := by
  cases cl <;> exact ok_of_isSome (by decide +kernel)

theorem exG_cover_rev : ∀ t ∈ exG.canon, t ∈ exG.canon.reverse := fun _ h => List.mem_reverse.2 h

theorem exG_mem_A : tA ∈ exG.canon := (Tfv.Tax.memTy_iff _ _).1 (by decide +kernel)
theorem exG_mem_B : tB ∈ exG.canon := (Tfv.Tax.memTy_iff _ _).1 (by decide +kernel)
theorem exG_uri_A : typeUri exG tA.toTerm = .ok (.ns "A") := by rfl
theorem exG_uri_B : typeUri exG tB.toTerm = .ok (.ns "B") := by rfl

theorem exG_uriInj : UriInj exG := uriInj_of_check (by decide +kernel)
theorem exG_opSep : OpSep exG := opSep_of_check (by decide +kernel)

/-- the whole vocabulary of `exG` with two operators -/
theorem exG_vocabulary : (vocabulary exG cV false ["f", "g"]).toOption.map (fun ts => ts.drop 16) = some
    [(.ns "f", .rdf "type", .tf "Operation"), (.ns "g", .rdf "type", .tf "Operation"),
     (.ns "signature", .rdfs "subPropertyOf", .tf "signature"), (.ns "expression", .rdfs "subPropertyOf", .tf "expression"),
     (.ns "type", .rdfs "subPropertyOf", .tf "type"), (.ns "via", .rdfs "subPropertyOf", .tf "via")] := by
  decide +kernel

/-! ## the seeded bug: closing each type right after its direct links misses composed links -/

/-- `add_taxonomy` with the two loops fused -/
def fusedTaxonomy (G : GLang) (c : GCfg) (order : List Ty) (g : GState) : Except GErr GState :=
  order.foldlM (fun g t => match taxonomyStep G c g t with
    | .error e => .error e
    | .ok g => closureStep G g t) g

theorem fused_misses : (fusedTaxonomy exG cV exG.canon {}).toOption.map (fun g => g.triples.contains (subTr "C" "A")) = some false ∧
    (addTaxonomyOn exG cV true exG.canon {}).toOption.map (fun g => g.triples.contains (subTr "C" "A")) = some true := by
  constructor <;> decide +kernel

/-! ## D24: non-canonical parameter types -/

def exLD : Lang := builtinDecls ++
  [⟨"A", [], none⟩, ⟨"B", [], some 5⟩, ⟨"F", [true], none⟩, ⟨"H", [true], none⟩]

def tHFA : Ty := .app 8 [.app 7 [.app 5 []]]
def tHFB : Ty := .app 8 [.app 7 [.app 6 []]]

def exD : GLang := { types := exLD, cfg := {}, canon := [tHFA, tHFB] }

/-- `F(A)` is not canonical, yet it is described (at the blank node `_:0`), and so is the base type `A` -/
theorem exD_d24 : memTy (.app 7 [.app 5 []]) exD.canon = false ∧
    (addTaxonomyOn exD cV false exD.canon {}).toOption.map (·.triples) = some
    [typeTr (.ns "H-F-A"), subTr "H-F-A" "H", typeTr (.b 0), (.b 0, subClassOf, .ns "F"), typeTr (.ns "A"),
     (.b 0, .rdf "_1", .ns "A"), (.ns "H-F-A", .rdf "_1", .b 0), subTr "H-F-B" "H-F-A",
     typeTr (.ns "H-F-B"), subTr "H-F-B" "H", typeTr (.b 1), (.b 1, subClassOf, .ns "F"), typeTr (.ns "B"),
     (.b 1, .rdf "_1", .ns "B"), (.ns "H-F-B", .rdf "_1", .b 1)] := by
  constructor <;> decide +kernel

/-- the numbering of the blank nodes depends on the order: the triple sets differ -/
theorem exD_order_dependent :
    (addTaxonomyOn exD cV false exD.canon {}).toOption.map (fun g => g.triples.contains (.ns "H-F-A", .rdf "_1", .b 0)) = some true ∧
    (addTaxonomyOn exD cV false exD.canon.reverse {}).toOption.map (fun g => g.triples.contains (.ns "H-F-A", .rdf "_1", .b 0))
      = some false := by
  constructor <;> decide +kernel

/-- with `with_noncanonical_types` off the vocabulary of `exD` cannot be built -/
theorem exD_strict_fails :
    (addTaxonomyOn exD { cV with withNoncanonicalTypes := false } false exD.canon {}).toOption.isSome = false := by
  decide +kernel

theorem exD_runs : ∃ g, addTaxonomyOn exD cV false exD.canon {} = .ok g := ok_of_isSome (by decide +kernel)
theorem exD_runs_rev : ∃ g, addTaxonomyOn exD cV false exD.canon.reverse {} = .ok g := ok_of_isSome (by decide +kernel)

end Tfv.VocabEx
