import Tfv.Model
import Tfv.Spec.Sub
import Tfv.Proofs.SubOrder
import Tfv.Proofs.Apply
/-!
# C02 — applying a concrete function type accepts exactly the subtypes of its input
Statements only; proofs are one-liners calling lemmas of `Tfv/Proofs/Apply.lean`.
-/
namespace Tfv.C02
open Tfv

/-- `x.unify(a, subtype=True)` on concrete types succeeds exactly when `x ≤ a` (executable form) -/
theorem C02_unify_iff_sub (L : Lang) (x a : Ty) :
    unifyC L true x a = .ok () ↔ sub L x a = true := unify_iff_sub L x a

/-- a failed unification raises a type mismatch (TypeMismatch or its subclass SubtypeMismatch), never anything else -/
theorem C02_unify_error (L : Lang) (x a : Ty) (e : CErr) :
    unifyC L true x a = .error e → e = .typeMismatch ∨ e = .subtypeMismatch := unifyC_error L true x a e

/-- `(a ** b).apply(x)`: accepted iff `x` is a subtype of `a` in the declared order, and then returns `b` -/
theorem C02_apply_accepts (L : Lang) (wf : WF L) (a b x : Ty)
    (ha : wfTy L a = true) (hx : wfTy L x = true) :
    applyC L (.app FUN [a, b]) x = .ok b ↔ Sub L x a := apply_accepts wf a b x ha hx

/-- … otherwise it raises a type-mismatch error -/
theorem C02_apply_rejects (L : Lang) (wf : WF L) (a b x : Ty)
    (ha : wfTy L a = true) (hx : wfTy L x = true) (h : ¬ Sub L x a) :
    applyC L (.app FUN [a, b]) x = .error .typeMismatch ∨
    applyC L (.app FUN [a, b]) x = .error .subtypeMismatch := apply_rejects wf a b x ha hx h

/-- applying Top yields Top -/
theorem C02_top (L : Lang) (x : Ty) : applyC L (.app TOP []) x = .ok (.app TOP []) := apply_top L x

/-- applying any other concrete non-function type is an error -/
theorem C02_nonfunction (L : Lang) (o : Nat) (args : List Ty) (x : Ty)
    (h1 : o ≠ FUN) (h2 : o ≠ TOP) :
    applyC L (.app o args) x = .error .functionApplication := apply_nonfunction L o args x h1 h2

def exL : Lang := builtinDecls ++ [⟨"A", [], none⟩, ⟨"B", [], some 5⟩, ⟨"F", [true], none⟩]
example : applyC exL (.app FUN [.app 7 [.app 5 []], .app 5 []]) (.app 7 [.app 6 []]) = .ok (.app 5 []) := by rfl
example : applyC exL (.app FUN [.app 7 [.app 6 []], .app 5 []]) (.app 7 [.app 5 []]) = .error .subtypeMismatch := by rfl

end Tfv.C02
