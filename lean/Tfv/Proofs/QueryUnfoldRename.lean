import Tfv.Proofs.QueryUnfoldTask
/-!
# Renaming the variables of a query; clause generation commutes with an injective renaming of the assignment
-/
namespace Tfv

/-! ## renaming -/

def QTerm.ren (ρ : QVar → QVar) : QTerm → QTerm
  | .var v => .var (ρ v)
  | .workflow => .workflow
  | .node n => .node n

def QTriple.ren (ρ : QVar → QVar) (tr : QTriple) : QTriple := ⟨tr.s.ren ρ, tr.p, tr.o.ren ρ⟩

def QClause.ren (ρ : QVar → QVar) : QClause → QClause
  | .one tr => .one (tr.ren ρ)
  | .union ts => .union (ts.map (·.ren ρ))

/-- the query with every variable `v` replaced by `ρ v` -/
def Query.ren (ρ : QVar → QVar) (q : Query) : Query :=
  { prefilter := q.prefilter.map (·.ren ρ), body := q.body.map (·.ren ρ) }

def QAssign.ren (ρ : QVar → QVar) (a : QAssign) : QAssign :=
  { vars := a.vars.map (fun x => (ρ x.1, x.2)), links := a.links.map (fun l => (ρ l.1, ρ l.2)),
    outs := a.outs.map ρ, ins := a.ins.map ρ }

/-- every variable that occurs in `a` satisfies `P` -/
structure ValidP (P : QVar → Prop) (a : QAssign) : Prop where
  vars : ∀ x ∈ a.vars, P x.1
  links : ∀ l ∈ a.links, P l.1 ∧ P l.2
  outs : ∀ v ∈ a.outs, P v
  ins : ∀ v ∈ a.ins, P v

def exMap {ε α β : Type} (f : α → β) : Except ε α → Except ε β
  | .ok a => .ok (f a)
  | .error e => .error e

/-! ## generic list lemmas -/

theorem find?_congr_mem {α : Type} {p q : α → Bool} : ∀ {l : List α}, (∀ x ∈ l, p x = q x) → l.find? p = l.find? q
  | [], _ => rfl
  | x :: l, h => by
    have hx := h x List.mem_cons_self
    have hl := find?_congr_mem (l := l) (fun y hy => h y (List.mem_cons_of_mem _ hy))
    simp only [List.find?_cons, hx, hl]

theorem any_congr_mem {α : Type} {p q : α → Bool} : ∀ {l : List α}, (∀ x ∈ l, p x = q x) → l.any p = l.any q
  | [], _ => rfl
  | x :: l, h => by
    have hx := h x List.mem_cons_self
    have hl := any_congr_mem (l := l) (fun y hy => h y (List.mem_cons_of_mem _ hy))
    simp only [List.any_cons, hx, hl]

theorem eraseDups_map_inj {α β : Type} [BEq α] [LawfulBEq α] [BEq β] [LawfulBEq β] (f : α → β) :
    ∀ (n : Nat) (l : List α), l.length ≤ n → (∀ x ∈ l, ∀ y ∈ l, f x = f y → x = y) →
      (l.map f).eraseDups = l.eraseDups.map f := by
  intro n
  induction n with
  | zero =>
    intro l hl _
    cases l with
    | nil => rfl
    | cons x xs => simp at hl
  | succ n ih =>
    intro l hl hinj
    cases l with
    | nil => rfl
    | cons a as =>
      rw [List.map_cons, List.eraseDups_cons, List.eraseDups_cons, List.map_cons, List.filter_map]
      have hc : as.filter ((fun b => !b == f a) ∘ f) = as.filter (fun b => !b == a) := by
        apply List.filter_congr
        intro x hx
        simp only [Function.comp]
        by_cases hxa : x = a
        · subst hxa; simp
        · have : f x ≠ f a := fun he => hxa (hinj x (List.mem_cons_of_mem _ hx) a List.mem_cons_self he)
          rw [beq_eq_false_iff_ne.2 this, beq_eq_false_iff_ne.2 hxa]
      rw [hc]
      congr 1
      apply ih
      · have := List.length_filter_le (fun b => !b == a) as
        simp only [List.length_cons] at hl
        omega
      · intro x hx y hy
        exact hinj x (List.mem_cons_of_mem _ (List.mem_filter.1 hx).1) y (List.mem_cons_of_mem _ (List.mem_filter.1 hy).1)

theorem mapM_ren {α β ε : Type} (ρ : α → α) (Φ : β → β) (F F' : α → Except ε β) :
    ∀ (l : List α), (∀ v ∈ l, F' (ρ v) = exMap Φ (F v)) → (l.map ρ).mapM F' = exMap (List.map Φ) (l.mapM F) := by
  intro l
  induction l with
  | nil => intro _; rfl
  | cons v vs ih =>
    intro h
    have hv := h v List.mem_cons_self
    have hvs := ih (fun x hx => h x (List.mem_cons_of_mem _ hx))
    rw [List.map_cons, List.mapM_cons, List.mapM_cons, hv, hvs]
    cases F v with
    | error e => rfl
    | ok y =>
      cases vs.mapM F with
      | error e => rfl
      | ok ys => rfl

theorem foldlM_accStep_ren {α β ε : Type} (r : α → α) (Φ : β → β) (piece piece' : α → Except ε (List β)) :
    ∀ (l : List α) (acc : List β), (∀ x ∈ l, piece' (r x) = exMap (List.map Φ) (piece x)) →
      (l.map r).foldlM (accStep piece') (acc.map Φ) = exMap (List.map Φ) (l.foldlM (accStep piece) acc) := by
  intro l
  induction l with
  | nil => intro acc _; rfl
  | cons x xs ih =>
    intro acc h
    have hx := h x List.mem_cons_self
    simp only [List.map_cons, List.foldlM_cons, accStep]
    rw [hx]
    cases piece x with
    | error e => rfl
    | ok cs =>
      simp only [exMap]
      have := ih (acc ++ cs) (fun y hy => h y (List.mem_cons_of_mem _ hy))
      rw [List.map_append] at this
      exact this

/-! ## the pieces of the clause generation under an injective renaming -/

section
variable {ρ : QVar → QVar} {P : QVar → Prop}

theorem stepOf_ren (hinj : ∀ v w, P v → P w → ρ v = ρ w → v = w) {a : QAssign} (hv : ValidP P a) {v : QVar} (hP : P v) :
    stepOf (a.ren ρ) (ρ v) = stepOf a v := by
  unfold stepOf QAssign.ren
  simp only [List.find?_map]
  have : a.vars.find? ((fun p => p.1 == ρ v) ∘ fun x => (ρ x.1, x.2)) = a.vars.find? (fun p => p.1 == v) := by
    apply find?_congr_mem
    intro x hx
    simp only [Function.comp]
    by_cases hxv : x.1 = v
    · simp [hxv]
    · have : ρ x.1 ≠ ρ v := fun he => hxv (hinj _ _ (hv.vars x hx) hP he)
      rw [beq_eq_false_iff_ne.2 this, beq_eq_false_iff_ne.2 hxv]
  rw [this]
  cases a.vars.find? (fun p => p.1 == v) <;> rfl

theorem aftersOf_ren (hinj : ∀ v w, P v → P w → ρ v = ρ w → v = w) {a : QAssign} (hv : ValidP P a) {v : QVar} (hP : P v) :
    aftersOf (a.ren ρ) (ρ v) = (aftersOf a v).map ρ := by
  unfold aftersOf QAssign.ren
  simp only [List.filter_map, List.map_map]
  have : a.links.filter ((fun l => l.2 == ρ v) ∘ fun l => (ρ l.1, ρ l.2)) = a.links.filter (fun l => l.2 == v) := by
    apply List.filter_congr
    intro x hx
    simp only [Function.comp]
    by_cases hxv : x.2 = v
    · simp [hxv]
    · have : ρ x.2 ≠ ρ v := fun he => hxv (hinj _ _ (hv.links x hx).2 hP he)
      rw [beq_eq_false_iff_ne.2 this, beq_eq_false_iff_ne.2 hxv]
  rw [this]
  rfl

theorem unionClause_ren (ts : List QTriple) :
    unionClause (ts.map (·.ren ρ)) = (unionClause ts).map (·.ren ρ) := by
  cases ts with
  | nil => rfl
  | cons t1 ts =>
    cases ts with
    | nil => rfl
    | cons t2 ts => rfl

theorem subtypeOfClauses_ren (G : GLang) (v : QVar) (types : List Ty) :
    subtypeOfClauses G (ρ v) types = exMap (List.map (·.ren ρ)) (subtypeOfClauses G v types) := by
  unfold subtypeOfClauses
  simp only
  cases (unionOf (leTyB G.types) false types).mapM (fun t => typeUri G t.toTerm) with
  | error e => rfl
  | ok uris =>
    simp only [exMap]
    rw [← unionClause_ren, List.map_map]
    rfl

theorem viaClauses_ren (v : QVar) (ops : List String) :
    viaClauses (ρ v) ops = (viaClauses v ops).map (·.ren ρ) := by
  unfold viaClauses
  rw [← unionClause_ren, List.map_map]
  rfl

theorem outClause_ren (hinj : ∀ v w, P v → P w → ρ v = ρ w → v = w) {G : GLang} {t : QTask} {f : QFlags}
    {a : QAssign} (hv : ValidP P a) {v : QVar} (hP : P v) :
    outClause G t f (a.ren ρ) (ρ v) = exMap (List.map (·.ren ρ)) (outClause G t f a v) := by
  unfold outClause
  rw [stepOf_ren hinj hv hP, subtypeOfClauses_ren]
  cases subtypeOfClauses G v (t.step (stepOf a v)).types <;> rfl

theorem inClause_ren (hinj : ∀ v w, P v → P w → ρ v = ρ w → v = w) {G : GLang} {t : QTask} {f : QFlags}
    {a : QAssign} (hv : ValidP P a) {v : QVar} (hP : P v) :
    inClause G t f (a.ren ρ) (ρ v) = exMap (List.map (·.ren ρ)) (inClause G t f a v) := by
  unfold inClause
  rw [stepOf_ren hinj hv hP, subtypeOfClauses_ren]
  cases subtypeOfClauses G v (t.step (stepOf a v)).types <;> rfl

theorem depClauses_ren (hinj : ∀ v w, P v → P w → ρ v = ρ w → v = w) {t : QTask}
    {a : QAssign} (hv : ValidP P a) {v : QVar} (hP : P v) (k : Nat) :
    depClauses t (a.ren ρ) (ρ v, k) = (depClauses t a (v, k)).map (·.ren ρ) := by
  unfold depClauses
  simp only
  have hPa : ∀ c ∈ aftersOf a v, P c := fun c hc => (hv.links _ (mem_aftersOf.1 hc)).1
  rw [aftersOf_ren hinj hv hP, eraseDups_map_inj ρ _ _ (Nat.le_refl _)
    (fun x hx y hy he => hinj x y (hPa x hx) (hPa y hy) he), List.map_map, List.map_map]
  apply List.map_congr_left
  intro c hc
  have hc' : c ∈ aftersOf a v := List.mem_eraseDups.1 hc
  simp only [Function.comp, stepOf_ren hinj hv (hPa c hc')]
  rfl

theorem chronPiece_ren (hinj : ∀ v w, P v → P w → ρ v = ρ w → v = w) {G : GLang} {t : QTask}
    {a : QAssign} (hv : ValidP P a) {v : QVar} (hP : P v) (k : Nat) :
    chronPiece G t (a.ren ρ) (ρ v, k) = exMap (List.map (·.ren ρ)) (chronPiece G t a (v, k)) := by
  unfold chronPiece
  simp only
  rw [aftersOf_ren hinj hv hP, List.isEmpty_map]
  by_cases he : (aftersOf a v).isEmpty = true
  · rw [if_pos he, if_pos he, viaClauses_ren]
    rfl
  · rw [if_neg he, if_neg he, subtypeOfClauses_ren, depClauses_ren hinj hv hP, viaClauses_ren]
    cases subtypeOfClauses G v (t.step k).types with
    | error e => rfl
    | ok cs => simp only [exMap, List.map_append]

theorem chronOf_ren (hinj : ∀ v w, P v → P w → ρ v = ρ w → v = w) {G : GLang} {t : QTask} {f : QFlags}
    {a : QAssign} (hv : ValidP P a) :
    chronOf G t f (a.ren ρ) = exMap (List.map (·.ren ρ)) (chronOf G t f a) := by
  unfold chronOf
  split
  · rfl
  · have := foldlM_accStep_ren (fun x : QVar × Nat => (ρ x.1, x.2)) (QClause.ren ρ) (chronPiece G t a)
      (chronPiece G t (a.ren ρ)) a.vars [] (fun x hx => chronPiece_ren hinj hv (hv.vars x hx) x.2)
    exact this

theorem typesClauses_ren (G : GLang) (t : QTask) (a : QAssign) : typesClauses G t (a.ren ρ) = typesClauses G t a := by
  rw [typesClauses_eq, typesClauses_eq]
  unfold QAssign.ren
  simp only [List.map_map]
  rfl

theorem operatorsClauses_ren (t : QTask) (a : QAssign) : operatorsClauses t (a.ren ρ) = operatorsClauses t a := by
  unfold operatorsClauses QAssign.ren
  simp only [List.filterMap_map]
  rfl

/-- a clause without variables is not changed -/
theorem ren_fixed {c : QClause} (h : ∀ tr ∈ c.triples, ∃ n u, tr = ⟨.workflow, .pred n, .node u⟩) : c.ren ρ = c := by
  cases c with
  | one tr =>
    obtain ⟨n, u, rfl⟩ := h tr (by simp [QClause.triples])
    rfl
  | union ts =>
    simp only [QClause.ren, QClause.union.injEq]
    have : ∀ tr ∈ ts, tr.ren ρ = tr := by
      intro tr htr
      obtain ⟨n, u, rfl⟩ := h tr htr
      rfl
    rw [List.map_congr_left this, List.map_id']

theorem operatorsClauses_fixed (t : QTask) (a : QAssign) :
    (operatorsClauses t a).map (·.ren ρ) = operatorsClauses t a := by
  have : ∀ c ∈ operatorsClauses t a, c.ren ρ = c := by
    intro c hc
    unfold operatorsClauses at hc
    simp only [List.mem_map] at hc
    obtain ⟨o, _, rfl⟩ := hc
    rfl
  rw [List.map_congr_left this, List.map_id']

theorem typesClauses_fixed {G : GLang} {t : QTask} {a : QAssign} {cs : List QClause}
    (h : typesClauses G t a = .ok cs) : cs.map (·.ren ρ) = cs := by
  rw [typesClauses_eq] at h
  have : ∀ c ∈ cs, c.ren ρ = c := by
    intro c hc
    obtain ⟨ts, _, hts⟩ := forall₂_right (mapM_ok _ _ _ h) c hc
    apply ren_fixed
    intro tr htr
    obtain ⟨u, rfl⟩ := typeClause_shape hts tr htr
    exact ⟨_, u, rfl⟩
  rw [List.map_congr_left this, List.map_id']

/-- **clause generation commutes with an injective renaming of the variables of the assignment** -/
theorem genFrom_ren (hinj : ∀ v w, P v → P w → ρ v = ρ w → v = w) {G : GLang} {t : QTask} {f : QFlags}
    {a : QAssign} (hv : ValidP P a) :
    genFrom G t f (a.ren ρ) = exMap (Query.ren ρ) (genFrom G t f a) := by
  have c2 : (a.ren ρ).outs.mapM (outClause G t f (a.ren ρ)) =
      exMap (List.map (List.map (·.ren ρ))) (a.outs.mapM (outClause G t f a)) :=
    mapM_ren ρ (List.map (QClause.ren ρ)) _ _ a.outs (fun v hvo => outClause_ren hinj hv (hv.outs v hvo))
  have c3 : (a.ren ρ).ins.mapM (inClause G t f (a.ren ρ)) =
      exMap (List.map (List.map (·.ren ρ))) (a.ins.mapM (inClause G t f a)) :=
    mapM_ren ρ (List.map (QClause.ren ρ)) _ _ a.ins (fun v hvi => inClause_ren hinj hv (hv.ins v hvi))
  have c4 := chronOf_ren (f := f) (G := G) (t := t) hinj hv
  unfold genFrom
  rw [typesClauses_ren, operatorsClauses_ren, c2, c3, c4]
  cases h1 : (if f.byTypes then typesClauses G t a else .ok []) with
  | error e => rfl
  | ok pre2 =>
    have hpre2 : pre2.map (·.ren ρ) = pre2 := by
      split at h1
      · exact typesClauses_fixed h1
      · simp only [Except.ok.injEq] at h1
        subst h1
        rfl
    cases h2 : a.outs.mapM (outClause G t f a) with
    | error e => rfl
    | ok outs =>
      simp only [exMap]
      by_cases hio : f.byIo = true
      · simp only [hio, if_true]
        cases h3 : a.ins.mapM (inClause G t f a) with
        | error e => rfl
        | ok ins =>
          simp only
          cases h4 : chronOf G t f a with
          | error e => rfl
          | ok chron =>
            simp only [Query.ren, List.map_append, List.map_flatten, hpre2, Except.ok.injEq, Query.mk.injEq, and_true]
            split
            · rw [operatorsClauses_fixed]
            · rfl
      · simp only [hio, Bool.false_eq_true, if_false]
        cases h4 : chronOf G t f a with
        | error e => rfl
        | ok chron =>
          simp only [Query.ren, List.map_append, List.map_flatten, hpre2, Except.ok.injEq, Query.mk.injEq,
            List.map_nil, and_true]
          split
          · rw [operatorsClauses_fixed]
          · rfl

end

end Tfv
