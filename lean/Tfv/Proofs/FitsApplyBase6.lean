import Tfv.Proofs.FitsApplyBase5
/-!
# C06 end to end, nullary argument, part 6: the argument `Top`
-/
namespace Tfv.C06B
open Tfv Tfv.C03P Tfv.C03C Tfv.C16P Tfv.C17E Tfv.C03R Tfv.C06A Tfv.C05P

theorem sub_top_head {L : Lang} (wf : WF L) (t : Ty) (h : sub L (.app TOP []) t = true) : hd t = TOP := by
  rw [sub_base_eq L TOP (arity_top wf)] at h
  rcases (opSub_iff wf TOP (hd t)).mp h with e | e | e
  · cases e
  · exact e
  · exact anc_top_left wf e

theorem antichain_other {L : Lang} {ts : List Ty} (ha : antichain L ts = true) (h2 : 2 ≤ ts.length) {t : Ty} (ht : t ∈ ts) :
    ∃ u ∈ ts, sub L u t = false := by
  match ts, h2 with
  | t1 :: t2 :: rest, _ =>
    rw [antichain, Bool.and_eq_true, List.all_eq_true] at ha
    rcases List.mem_cons.mp ht with e | e
    · subst e
      have := ha.1 t2 List.mem_cons_self
      simp only [Bool.and_eq_true, Bool.not_eq_true'] at this
      exact ⟨t2, List.mem_cons_of_mem _ List.mem_cons_self, this.2⟩
    · have := ha.1 t e
      simp only [Bool.and_eq_true, Bool.not_eq_true'] at this
      exact ⟨t1, List.mem_cons_self, this.1⟩

/-- no alternative of an antichain of at least two is above `Top` -/
theorem top_no_fit {L : Lang} (wf : WF L) {ts : List Ty} (ha : antichain L ts = true) (h2 : 2 ≤ ts.length) :
    ts.filter (fun t => sub L (.app TOP []) t) = [] := by
  rw [List.filter_eq_nil_iff]
  intro t ht h
  obtain ⟨u, _, hu⟩ := antichain_other ha h2 ht
  rw [sub_of_head_top L u t (sub_top_head wf t h)] at hu
  cases hu

theorem bind_top (L : Lang) (wf : WF L) (k : Nat) (ts : List Ty) (ha : antichain L ts = true)
    (hd : ∀ t ∈ ts, Ty.depth t < 64) (hn : ts.length + 2 * Ty.sizeL ts + 2 * Ty.size (.app TOP []) + 1 ≤ k) :
    bind L (k+5) (σ0 (Ty.toTermL ts)) 0 (Ty.app TOP []).toTerm =
      afterC (.app TOP []) (ts.filter (fun t => sub L (.app TOP []) t)) := by
  have hda : Ty.depth (.app TOP []) < 64 := by decide
  rw [← check_σB L k ts (.app TOP []) ha hd hda hn]
  rw [Tfv.toTerm_app, bind]
  have h0 := arity_top wf
  simp [σ0, getVar, h0, setVar, σB, Tfv.toTerm_app]

theorem applyT_top (L : Lang) (wf : WF L) (k : Nat) (r : Term) (ts : List Ty) (fixFlag : Bool)
    (ha : antichain L ts = true) (hd : ∀ t ∈ ts, Ty.depth t < 64)
    (hn : ts.length + 2 * Ty.sizeL ts + 2 * Ty.size (.app TOP []) + 1 ≤ k) :
    applyT L (k+7) (σ0 (Ty.toTermL ts)) (.app FUN [.var 0, r]) (Ty.app TOP []).toTerm fixFlag =
      (match afterC (.app TOP []) (ts.filter (fun t => sub L (.app TOP []) t)) with
       | .error e => .error e
       | .ok σ1 => if fixFlag && !C06A.isFunT r then fix L (k+7) σ1 r true else .ok (σ1, r)) := by
  unfold applyT
  rw [Tfv.followT_app, followT_toTerm]
  simp only [beq_self_eq_true, if_true]
  have hu : unify L (k+7) (σ0 (Ty.toTermL ts)) (Ty.app TOP []).toTerm (.var 0) true false false =
      bind L (k+5) (σ0 (Ty.toTermL ts)) 0 (Ty.app TOP []).toTerm := by
    rw [unify_base L _ TOP _ (arity_top wf) (by decide), above]
    simp [Tfv.toTerm_app, Ty.toTermL]
  rw [hu, bind_top L wf k ts ha hd hn]
  cases afterC (.app TOP []) (ts.filter (fun t => sub L (.app TOP []) t)) with
  | error e => rfl
  | ok σ1 =>
    simp only []
    cases r <;> rfl

/-- **the argument `Top`**: never accepted (no alternative of an antichain of two or more is `Top`), the declared
`constraintViolation` -/
theorem runAll_top (L : Lang) (wf : WF L) (N : Nat) (r : Term) (ts : List Ty) (fixFlag : Bool)
    (ha : antichain L ts = true) (h2 : 2 ≤ ts.length) (hd : ∀ t ∈ ts, Ty.depth t < 64)
    (hN : fuelFor r ts (.app TOP []) ≤ N) :
    runAll L N fixFlag (elimSchema r ts) [(Ty.app TOP []).toTerm] = .error .constraintViolation := by
  unfold fuelFor at hN
  rw [size_base, Nat.mul_one] at hN
  obtain ⟨k, rfl⟩ : ∃ k, N = k + 7 := ⟨N - 7, by omega⟩
  unfold runAll
  rw [show k + 7 = (k + 5) + 2 from rfl, instantiate_elimSchema L (k+5) r ts ha h2 hd (by omega)]
  simp only []
  rw [applyAll]
  rw [show k + 5 + 2 = k + 7 from rfl, applyT_top L wf k r ts fixFlag ha hd (by rw [size_base]; omega),
    top_no_fit wf ha h2]
  rfl

end Tfv.C06B
