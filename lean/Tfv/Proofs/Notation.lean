import Tfv.Spec.Notation
/-!
# Lemmas for C13: the expression parser on rendered spines, the tokenizer on layouts, comments
-/
namespace Tfv.Notation
open Tfv

/-! ## decimal numbers -/

theorem decimalValue_digitChar (k : Nat) (h : k < 10) : decimalValue k.digitChar = some k := by
  match k, h with
  | 0, _ | 1, _ | 2, _ | 3, _ | 4, _ | 5, _ | 6, _ | 7, _ | 8, _ | 9, _ => decide

def decStep : Option Nat → Char → Option Nat := fun acc c => match acc, decimalValue c with
    | some n, some d => some (10 * n + d)
    | _, _ => none

theorem foldl_toDigits (n : Nat) :
    (Nat.toDigits 10 n).foldl decStep (some 0) = some n := by
  induction n using Nat.base_induction 10 (by decide) with
  | single m hm =>
    rw [Nat.toDigits_of_lt_base hm]
    simp [decStep, decimalValue_digitChar m hm]
  | digit m k hk hm ih =>
    rw [← Nat.toDigits_append_toDigits (by decide) hm hk, List.foldl_append, ih,
      Nat.toDigits_of_lt_base hk]
    simp [decStep, decimalValue_digitChar k hk]

theorem parseDecimal_toString (n : Nat) : parseDecimal (toString n) = some n := by
  unfold parseDecimal
  rw [if_neg]
  · rw [Nat.toString_eq_repr, Nat.toList_repr]
    exact foldl_toDigits n
  · simp [String.isEmpty_iff]

theorem toString_ne_of_parseDecimal_none (n : Nat) (t : String) (h : parseDecimal t = none) : toString n ≠ t := by
  intro e; rw [← e, parseDecimal_toString] at h; cases h

/-! ## last token -/

theorem lastTok_nil (p : String) : lastTok p [] = p := rfl

theorem lastTok_cons (p t : String) (ts : List String) : lastTok p (t :: ts) = lastTok t ts := by
  simp [lastTok, List.getLast?_cons]

theorem lastTok_append (p : String) (a b : List String) : lastTok p (a ++ b) = lastTok (lastTok p a) b := by
  induction a generalizing p with
  | nil => rfl
  | cons x a ih => rw [List.cons_append, lastTok_cons, lastTok_cons, ih]

theorem lastTok_toksSeps (p : String) (ss : List (List Item)) : lastTok p (toksSeps ss) = ")" := by
  induction ss generalizing p with
  | nil => simp [toksSeps, lastTok_cons, lastTok_nil]
  | cons s ss ih => simp only [toksSeps, lastTok_cons, lastTok_append, ih]

theorem lastTok_toksGroup (p : String) (ss : List (List Item)) : lastTok p (toksGroup ss) = ")" := by
  cases ss with
  | nil => simp [toksGroup, lastTok_cons, lastTok_nil]
  | cons s ss => simp only [toksGroup, lastTok_append, lastTok_toksSeps]

/-! ## single steps of the parser with the free builder -/

section steps
variable (P : PLang) (opNames : List String) (inputs : List PExpr)

/-- the parser's loop, abbreviated -/
abbrev run (n : Nat) (st : FreeState) (stack : List (Option PExpr)) (p : String) (ts : List String) :=
  parseExprLoop P (freeBuilder opNames) inputs false n { st := st, stack := stack, comment := false, prevTok := p } ts

theorem step_open (n : Nat) (st : FreeState) (stack : List (Option PExpr)) (p : String) (rest : List String) :
    run P opNames inputs (n + 1) st stack p ("(" :: rest)
    = run P opNames inputs n st (none :: stack) "(" rest := by
  unfold run
  rw [parseExprLoop]
  simp

theorem step_comma (n : Nat) (st : FreeState) (t k : Option PExpr) (S : List (Option PExpr)) (p : String) (rest : List String) :
    run P opNames inputs (n + 1) st (t :: k :: S) p ("," :: rest)
    = run P opNames inputs n st (none :: pappO k t :: S) "," rest := by
  unfold run
  rw [parseExprLoop]
  cases t <;> cases k <;> simp [freeBuilder, pappO, papp]

theorem step_close (n : Nat) (st : FreeState) (t k : Option PExpr) (S : List (Option PExpr)) (p : String) (rest : List String) :
    run P opNames inputs (n + 1) st (t :: k :: S) p (")" :: rest)
    = run P opNames inputs n st (pappO k t :: S) ")" rest := by
  unfold run
  rw [parseExprLoop]
  cases t <;> cases k <;> simp [freeBuilder, pappO, papp]

theorem step_src (n : Nat) (st : FreeState) (k : Option PExpr) (S : List (Option PExpr)) (p : String) (rest : List String) :
    run P opNames inputs (n + 1) st (k :: S) p ("-" :: rest)
    = run P opNames inputs n { st with nsrc := st.nsrc + 1 } (some (papp k (.src st.nsrc)) :: S) "-" rest := by
  unfold run
  rw [parseExprLoop]
  cases k <;> simp [freeBuilder, papp]

theorem isNameToken_spec {tok : String} (hn : isNameToken tok = true) :
    tok ≠ "#" ∧ tok ≠ "\n" ∧ tok ≠ "(" ∧ tok ≠ "," ∧ tok ≠ ")" ∧ tok ≠ ":" ∧ tok ≠ ";" ∧ tok ≠ "-" ∧
    parseDecimal tok = none := by
  simp only [isNameToken, Bool.and_eq_true, bne_iff_ne, ne_eq, Option.isNone_iff_eq_none] at hn
  obtain ⟨⟨⟨⟨⟨⟨⟨⟨h1, h2⟩, h3⟩, h4⟩, h5⟩, h6⟩, h7⟩, h8⟩, h9⟩ := hn
  exact ⟨h1, h2, h3, h4, h5, h6, h7, h8, h9⟩

theorem step_name (n : Nat) (st : FreeState) (k : Option PExpr) (S : List (Option PExpr)) (p : String) (rest : List String)
    (tok : String) (hn : isNameToken tok = true) (ho : opNames.contains tok = true) :
    run P opNames inputs (n + 1) st (k :: S) p (tok :: rest)
    = run P opNames inputs n st (some (papp k (.op tok)) :: S) tok rest := by
  unfold run
  rw [parseExprLoop]
  obtain ⟨h1, h2, h3, h4, h5, h6, h7, h8, h9⟩ := isNameToken_spec hn
  have ho' : tok ∈ opNames := by simpa using ho
  cases k <;> simp [freeBuilder, papp, h1, h2, h3, h4, h5, h6, h7, h8, h9, ho']

theorem step_name_err (n : Nat) (st : FreeState) (k : Option PExpr) (S : List (Option PExpr)) (p : String) (rest : List String)
    (tok : String) (hn : isNameToken tok = true) (ho : ¬ opNames.contains tok = true) :
    run P opNames inputs (n + 1) st (k :: S) p (tok :: rest) = .error (.undefinedToken tok) := by
  unfold run
  rw [parseExprLoop]
  obtain ⟨h1, h2, h3, h4, h5, h6, h7, h8, h9⟩ := isNameToken_spec hn
  have ho' : tok ∉ opNames := by simpa using ho
  simp [freeBuilder, h1, h2, h3, h4, h5, h6, h7, h8, h9, ho']

theorem toString_not_special (i : Nat) :
    toString i ≠ "#" ∧ toString i ≠ "\n" ∧ toString i ≠ "(" ∧ toString i ≠ "," ∧ toString i ≠ ")" ∧
    toString i ≠ ":" ∧ toString i ≠ ";" ∧ toString i ≠ "-" :=
  ⟨toString_ne_of_parseDecimal_none i _ (by decide), toString_ne_of_parseDecimal_none i _ (by decide),
   toString_ne_of_parseDecimal_none i _ (by decide), toString_ne_of_parseDecimal_none i _ (by decide),
   toString_ne_of_parseDecimal_none i _ (by decide), toString_ne_of_parseDecimal_none i _ (by decide),
   toString_ne_of_parseDecimal_none i _ (by decide), toString_ne_of_parseDecimal_none i _ (by decide)⟩

theorem step_input (n : Nat) (st : FreeState) (k : Option PExpr) (S : List (Option PExpr)) (p : String) (rest : List String)
    (i : Nat) (e : PExpr) (he : lookupInput inputs i = some e) :
    run P opNames inputs (n + 1) st (k :: S) p (toString i :: rest)
    = run P opNames inputs n st (some (papp k e) :: S) (toString i) rest := by
  unfold run
  rw [parseExprLoop]
  obtain ⟨h1, h2, h3, h4, h5, h6, h7, h8⟩ := toString_not_special i
  cases k <;> simp [freeBuilder, papp, h1, h2, h3, h4, h5, h6, h7, h8, parseDecimal_toString, he, -Nat.toString_eq_repr]

theorem step_input_err (n : Nat) (st : FreeState) (k : Option PExpr) (S : List (Option PExpr)) (p : String) (rest : List String)
    (i : Nat) (he : lookupInput inputs i = none) :
    run P opNames inputs (n + 1) st (k :: S) p (toString i :: rest) = .error (.missingInput i) := by
  unfold run
  rw [parseExprLoop]
  obtain ⟨h1, h2, h3, h4, h5, h6, h7, h8⟩ := toString_not_special i
  simp [h1, h2, h3, h4, h5, h6, h7, h8, parseDecimal_toString, he, -Nat.toString_eq_repr]

/-! ## the parser on a rendered spine: the successful case -/

mutual
theorem parse_item : ∀ (it : Item) (st : FreeState) (k : Option PExpr) (st' : FreeState) (k' : Option PExpr),
    namesOk it = true → denItem opNames inputs st k it = .ok (st', k') →
    ∀ (n : Nat) (S : List (Option PExpr)) (p : String) (rest : List String),
      run P opNames inputs (n + (toksItem it).length) st (k :: S) p (toksItem it ++ rest)
      = run P opNames inputs n st' (k' :: S) (lastTok p (toksItem it)) rest
  | .op name, st, k, st', k', hn, hd, n, S, p, rest => by
    simp only [namesOk] at hn
    simp only [denItem] at hd
    split at hd
    · rename_i ho
      cases hd
      simp only [toksItem, List.length_cons, List.length_nil, List.cons_append, List.nil_append, lastTok_cons, lastTok_nil]
      exact step_name P opNames inputs n st k S p rest name hn ho
    · cases hd
  | .src, st, k, st', k', hn, hd, n, S, p, rest => by
    simp only [denItem] at hd
    cases hd
    simp only [toksItem, List.length_cons, List.length_nil, List.cons_append, List.nil_append, lastTok_cons, lastTok_nil]
    exact step_src P opNames inputs n st k S p rest
  | .input i, st, k, st', k', hn, hd, n, S, p, rest => by
    simp only [denItem] at hd
    split at hd
    · rename_i e he
      cases hd
      simp only [toksItem, List.length_cons, List.length_nil, List.cons_append, List.nil_append, lastTok_cons, lastTok_nil]
      exact step_input P opNames inputs n st k S p rest i e he
    · cases hd
  | .group ss, st, k, st', k', hn, hd, n, S, p, rest => by
    simp only [namesOk] at hn
    simp only [denItem] at hd
    simp only [toksItem, List.length_cons, List.cons_append, lastTok_cons, lastTok_toksGroup]
    rw [← Nat.add_assoc, step_open]
    exact parse_group ss st k st' k' hn hd n S "(" rest
theorem parse_items : ∀ (sp : List Item) (st : FreeState) (k : Option PExpr) (st' : FreeState) (k' : Option PExpr),
    namesOkS sp = true → den opNames inputs st k sp = .ok (st', k') →
    ∀ (n : Nat) (S : List (Option PExpr)) (p : String) (rest : List String),
      run P opNames inputs (n + (toks sp).length) st (k :: S) p (toks sp ++ rest)
      = run P opNames inputs n st' (k' :: S) (lastTok p (toks sp)) rest
  | [], st, k, st', k', hn, hd, n, S, p, rest => by
    simp only [den] at hd
    cases hd
    simp [toks, lastTok_nil]
  | it :: is, st, k, st', k', hn, hd, n, S, p, rest => by
    simp only [namesOkS, Bool.and_eq_true] at hn
    simp only [den] at hd
    split at hd
    · cases hd
    · rename_i st1 k1 h1
      simp only [toks, List.length_append, List.append_assoc, lastTok_append]
      rw [show n + ((toksItem it).length + (toks is).length) = (n + (toks is).length) + (toksItem it).length by omega]
      rw [parse_item it st k st1 k1 hn.1 h1]
      exact parse_items is st1 k1 st' k' hn.2 hd n S _ rest
theorem parse_group : ∀ (ss : List (List Item)) (st : FreeState) (k : Option PExpr) (st' : FreeState) (k' : Option PExpr),
    namesOkG ss = true → denGroup opNames inputs st k ss = .ok (st', k') →
    ∀ (n : Nat) (S : List (Option PExpr)) (p : String) (rest : List String),
      run P opNames inputs (n + (toksGroup ss).length) st (none :: k :: S) p (toksGroup ss ++ rest)
      = run P opNames inputs n st' (k' :: S) ")" rest
  | [], st, k, st', k', hn, hd, n, S, p, rest => by
    simp only [denGroup] at hd
    cases hd
    simp only [toksGroup, List.length_cons, List.length_nil, List.cons_append, List.nil_append, Nat.zero_add]
    rw [step_close]
    rfl
  | s :: ss, st, k, st', k', hn, hd, n, S, p, rest => by
    simp only [namesOkG, Bool.and_eq_true] at hn
    simp only [denGroup] at hd
    split at hd
    · cases hd
    · rename_i st1 v h1
      simp only [toksGroup, List.length_append, List.append_assoc]
      rw [show n + ((toks s).length + (toksSeps ss).length) = (n + (toksSeps ss).length) + (toks s).length by omega]
      rw [parse_items s st none st1 v hn.1 h1]
      exact parse_seps ss st1 k v st' k' hn.2 hd n S _ rest
theorem parse_seps : ∀ (ss : List (List Item)) (st : FreeState) (k t : Option PExpr) (st' : FreeState) (k' : Option PExpr),
    namesOkG ss = true → denGroup opNames inputs st (pappO k t) ss = .ok (st', k') →
    ∀ (n : Nat) (S : List (Option PExpr)) (p : String) (rest : List String),
      run P opNames inputs (n + (toksSeps ss).length) st (t :: k :: S) p (toksSeps ss ++ rest)
      = run P opNames inputs n st' (k' :: S) ")" rest
  | [], st, k, t, st', k', hn, hd, n, S, p, rest => by
    simp only [denGroup] at hd
    cases hd
    simp only [toksSeps, List.length_cons, List.length_nil, List.cons_append, List.nil_append, Nat.zero_add]
    rw [step_close]
  | s :: ss, st, k, t, st', k', hn, hd, n, S, p, rest => by
    simp only [namesOkG, Bool.and_eq_true] at hn
    simp only [denGroup] at hd
    split at hd
    · cases hd
    · rename_i st1 v h1
      simp only [toksSeps, List.length_cons, List.length_append, List.append_assoc, List.cons_append]
      rw [show n + ((toks s).length + (toksSeps ss).length + 1) = ((n + (toksSeps ss).length) + (toks s).length) + 1 by omega]
      rw [step_comma, parse_items s st none st1 v hn.1 h1]
      exact parse_seps ss st1 (pappO k t) v st' k' hn.2 hd n S _ rest
end



end steps

/-! ## the parser on a rendered spine: errors, and whole expressions -/

section errs
variable (P : PLang) (opNames : List String) (inputs : List PExpr)

mutual
theorem parse_item_err : ∀ (it : Item) (st : FreeState) (k : Option PExpr) (e : PErr),
    namesOk it = true → denItem opNames inputs st k it = .error e →
    ∀ (n : Nat) (S : List (Option PExpr)) (p : String) (rest : List String),
      run P opNames inputs (n + (toksItem it).length) st (k :: S) p (toksItem it ++ rest) = .error e
  | .op name, st, k, e, hn, hd, n, S, p, rest => by
    simp only [namesOk] at hn
    simp only [denItem] at hd
    split at hd
    · cases hd
    · rename_i ho
      cases hd
      simp only [toksItem, List.length_cons, List.length_nil, List.cons_append, List.nil_append, Nat.zero_add]
      exact step_name_err P opNames inputs n st k S p rest name hn ho
  | .src, st, k, e, hn, hd, n, S, p, rest => by
    simp only [denItem] at hd
    cases hd
  | .input i, st, k, e, hn, hd, n, S, p, rest => by
    simp only [denItem] at hd
    split at hd
    · cases hd
    · rename_i he
      cases hd
      simp only [toksItem, List.length_cons, List.length_nil, List.cons_append, List.nil_append, Nat.zero_add]
      exact step_input_err P opNames inputs n st k S p rest i he
  | .group ss, st, k, e, hn, hd, n, S, p, rest => by
    simp only [namesOk] at hn
    simp only [denItem] at hd
    simp only [toksItem, List.length_cons, List.cons_append]
    rw [← Nat.add_assoc, step_open]
    exact parse_group_err ss st k e hn hd n S "(" rest
theorem parse_items_err : ∀ (sp : List Item) (st : FreeState) (k : Option PExpr) (e : PErr),
    namesOkS sp = true → den opNames inputs st k sp = .error e →
    ∀ (n : Nat) (S : List (Option PExpr)) (p : String) (rest : List String),
      run P opNames inputs (n + (toks sp).length) st (k :: S) p (toks sp ++ rest) = .error e
  | [], st, k, e, hn, hd, n, S, p, rest => by
    simp only [den] at hd
    cases hd
  | it :: is, st, k, e, hn, hd, n, S, p, rest => by
    simp only [namesOkS, Bool.and_eq_true] at hn
    simp only [den] at hd
    simp only [toks, List.length_append, List.append_assoc]
    rw [show n + ((toksItem it).length + (toks is).length) = (n + (toks is).length) + (toksItem it).length by omega]
    split at hd
    · rename_i e1 h1
      cases hd
      exact parse_item_err it st k e hn.1 h1 _ S p _
    · rename_i st1 k1 h1
      rw [parse_item P opNames inputs it st k st1 k1 hn.1 h1]
      exact parse_items_err is st1 k1 e hn.2 hd n S _ rest
theorem parse_group_err : ∀ (ss : List (List Item)) (st : FreeState) (k : Option PExpr) (e : PErr),
    namesOkG ss = true → denGroup opNames inputs st k ss = .error e →
    ∀ (n : Nat) (S : List (Option PExpr)) (p : String) (rest : List String),
      run P opNames inputs (n + (toksGroup ss).length) st (none :: k :: S) p (toksGroup ss ++ rest) = .error e
  | [], st, k, e, hn, hd, n, S, p, rest => by
    simp only [denGroup] at hd
    cases hd
  | s :: ss, st, k, e, hn, hd, n, S, p, rest => by
    simp only [namesOkG, Bool.and_eq_true] at hn
    simp only [denGroup] at hd
    simp only [toksGroup, List.length_append, List.append_assoc]
    rw [show n + ((toks s).length + (toksSeps ss).length) = (n + (toksSeps ss).length) + (toks s).length by omega]
    split at hd
    · rename_i e1 h1
      cases hd
      exact parse_items_err s st none e hn.1 h1 _ _ p _
    · rename_i st1 v h1
      rw [parse_items P opNames inputs s st none st1 v hn.1 h1]
      exact parse_seps_err ss st1 k v e hn.2 hd n S _ rest
theorem parse_seps_err : ∀ (ss : List (List Item)) (st : FreeState) (k t : Option PExpr) (e : PErr),
    namesOkG ss = true → denGroup opNames inputs st (pappO k t) ss = .error e →
    ∀ (n : Nat) (S : List (Option PExpr)) (p : String) (rest : List String),
      run P opNames inputs (n + (toksSeps ss).length) st (t :: k :: S) p (toksSeps ss ++ rest) = .error e
  | [], st, k, t, e, hn, hd, n, S, p, rest => by
    simp only [denGroup] at hd
    cases hd
  | s :: ss, st, k, t, e, hn, hd, n, S, p, rest => by
    simp only [namesOkG, Bool.and_eq_true] at hn
    simp only [denGroup] at hd
    simp only [toksSeps, List.length_cons, List.length_append, List.append_assoc, List.cons_append]
    rw [show n + ((toks s).length + (toksSeps ss).length + 1) = ((n + (toksSeps ss).length) + (toks s).length) + 1 by omega]
    rw [step_comma]
    split at hd
    · rename_i e1 h1
      cases hd
      exact parse_items_err s st none e hn.1 h1 _ _ _ _
    · rename_i st1 v h1
      rw [parse_items P opNames inputs s st none st1 v hn.1 h1]
      exact parse_seps_err ss st1 (pappO k t) v e hn.2 hd n S _ rest
end

theorem parseExprToks_toks (st0 : FreeState) (sp : List Item) (hn : namesOkS sp = true) :
    parseExprToks P (freeBuilder opNames) inputs st0 (toks sp) = denote opNames inputs st0 sp := by
  unfold parseExprToks denote
  have e1 : parseExprLoop P (freeBuilder opNames) inputs false ((toks sp).length + 1) { st := st0 } (toks sp)
      = run P opNames inputs (1 + (toks sp).length) st0 [none] "" (toks sp ++ []) := by
    rw [List.append_nil, Nat.add_comm]
  rw [e1]
  cases hd : den opNames inputs st0 none sp with
  | error e => rw [parse_items_err P opNames inputs sp st0 none e hn hd]
  | ok r =>
    obtain ⟨st', k'⟩ := r
    rw [parse_items P opNames inputs sp st0 none st' k' hn hd]
    unfold run
    rw [parseExprLoop]
    · cases k' <;> rfl
    · intro h; cases h

end errs

/-! ## well-formed spines denote -/

section dens
variable (opNames : List String) (inputs : List PExpr)

theorem lookupInput_pos (k : Nat) (h1 : 1 ≤ k) : lookupInput inputs k = inputs[k - 1]? := by
  unfold lookupInput
  rw [if_neg]
  simp; omega

theorem lookupInput_in_range (k : Nat) (h1 : 1 ≤ k) (h2 : k ≤ inputs.length) :
    ∃ e, lookupInput inputs k = some e := by
  rw [lookupInput_pos inputs k h1]
  exact ⟨inputs[k - 1]'(by omega), List.getElem?_eq_getElem (by omega)⟩

mutual
theorem wf_item : ∀ (it : Item) (st : FreeState) (k : Option PExpr),
    wfItem opNames inputs.length it = true → ∃ st' e, denItem opNames inputs st k it = .ok (st', some e)
  | .op name, st, k, h => by
    simp only [wfItem] at h
    exact ⟨st, papp k (.op name), by simp only [denItem, h, if_true]⟩
  | .src, st, k, h => ⟨{ st with nsrc := st.nsrc + 1 }, papp k (.src st.nsrc), by simp only [denItem]⟩
  | .input i, st, k, h => by
    simp only [wfItem, Bool.and_eq_true, decide_eq_true_eq] at h
    obtain ⟨e, he⟩ := lookupInput_in_range inputs i h.1 h.2
    exact ⟨st, papp k e, by simp only [denItem, he]⟩
  | .group ss, st, k, h => by
    simp only [wfItem, Bool.and_eq_true, Bool.not_eq_true', List.isEmpty_eq_false_iff] at h
    obtain ⟨st', k', hd, hs⟩ := wf_group ss st k h.2
    have := hs (Or.inr h.1)
    cases k' with
    | none => cases this
    | some e => exact ⟨st', e, by simp only [denItem, hd]⟩
theorem wf_items : ∀ (sp : List Item) (st : FreeState) (k : Option PExpr),
    wfItems opNames inputs.length sp = true →
    ∃ st' k', den opNames inputs st k sp = .ok (st', k') ∧ ((k.isSome = true ∨ sp ≠ []) → k'.isSome = true)
  | [], st, k, h => ⟨st, k, by simp only [den], fun h => by simpa using h⟩
  | it :: is, st, k, h => by
    simp only [wfItems, Bool.and_eq_true] at h
    obtain ⟨st1, e1, h1⟩ := wf_item it st k h.1
    obtain ⟨st', k', h2, hs⟩ := wf_items is st1 (some e1) h.2
    exact ⟨st', k', by simp only [den, h1, h2], fun _ => hs (Or.inl rfl)⟩
theorem wf_group : ∀ (ss : List (List Item)) (st : FreeState) (k : Option PExpr),
    wfGroup opNames inputs.length ss = true →
    ∃ st' k', denGroup opNames inputs st k ss = .ok (st', k') ∧ ((k.isSome = true ∨ ss ≠ []) → k'.isSome = true)
  | [], st, k, h => ⟨st, k, by simp only [denGroup], fun h => by simpa using h⟩
  | s :: ss, st, k, h => by
    simp only [wfGroup, Bool.and_eq_true, Bool.not_eq_true', List.isEmpty_eq_false_iff] at h
    obtain ⟨st1, v, h1, hv⟩ := wf_items s st none h.1.2
    have := hv (Or.inr h.1.1)
    cases v with
    | none => cases this
    | some x =>
      obtain ⟨st', k', h2, hs⟩ := wf_group ss st1 (pappO k (some x)) h.2
      exact ⟨st', k', by simp only [denGroup, h1, h2], fun _ => hs (Or.inl rfl)⟩
end

theorem wf_denote (sp : List Item) (st : FreeState) (hne : sp ≠ [])
    (h : wfItems opNames inputs.length sp = true) :
    ∃ st' e, denote opNames inputs st sp = .ok (st', e) := by
  obtain ⟨st', k', hd, hs⟩ := wf_items opNames inputs sp st none h
  have := hs (Or.inr hne)
  cases k' with
  | none => cases this
  | some e => exact ⟨st', e, by simp only [denote, hd]⟩

/-! ## laws of the denotation -/

theorem pappO_none (v : Option PExpr) : pappO none v = v := by cases v <;> rfl

theorem den_append (a b : List Item) (st : FreeState) (k : Option PExpr) :
    den opNames inputs st k (a ++ b) =
      match den opNames inputs st k a with
      | .error e => .error e
      | .ok (st', k') => den opNames inputs st' k' b := by
  induction a generalizing st k with
  | nil => simp only [List.nil_append, den]
  | cons i a ih =>
    simp only [List.cons_append, den]
    cases denItem opNames inputs st k i with
    | error e => rfl
    | ok r => exact ih r.1 r.2

theorem denItem_group_single (sp : List Item) (st : FreeState) (k : Option PExpr) :
    denItem opNames inputs st k (.group [sp]) =
      match den opNames inputs st none sp with
      | .error e => .error e
      | .ok (st', v) => .ok (st', pappO k v) := by
  simp only [denItem, denGroup]
  cases den opNames inputs st none sp with
  | error e => rfl
  | ok r => rfl

/-- redundant parentheses around a whole expression -/
theorem den_parens (sp : List Item) (st : FreeState) :
    den opNames inputs st none [.group [sp]] = den opNames inputs st none sp := by
  simp only [den, denItem_group_single]
  cases den opNames inputs st none sp with
  | error e => rfl
  | ok r => simp only [pappO_none]

/-- `(i₁ … iⱼ) iⱼ₊₁ … iₙ = i₁ … iₙ`: application associates to the left -/
theorem den_paren_prefix (sp : List Item) (j : Nat) (st : FreeState) :
    den opNames inputs st none (.group [sp.take j] :: sp.drop j) = den opNames inputs st none sp := by
  conv => rhs; rw [← List.take_append_drop j sp, den_append]
  simp only [den, denItem_group_single]
  cases den opNames inputs st none (sp.take j) with
  | error e => rfl
  | ok r => simp only [pappO_none]

theorem denItem_atom (a : Item) (ha : isAtom a = true) (st : FreeState) (k : Option PExpr) :
    denItem opNames inputs st k a =
      match denItem opNames inputs st none a with
      | .error e => .error e
      | .ok (st', v) => .ok (st', pappO k v) := by
  cases a with
  | op name => simp only [denItem]; split <;> rfl
  | src => rfl
  | input i => simp only [denItem]; split <;> rfl
  | group ss => cases ha

/-- `k(a₁, …, aₙ) = k a₁ … aₙ` for atoms -/
theorem denGroup_atoms (as : List Item) (ha : ∀ a ∈ as, isAtom a = true) (st : FreeState) (k : Option PExpr) :
    denGroup opNames inputs st k (as.map fun a => [a]) = den opNames inputs st k as := by
  induction as generalizing st k with
  | nil => simp only [List.map_nil, denGroup, den]
  | cons a as ih =>
    simp only [List.map_cons, denGroup, den]
    rw [denItem_atom opNames inputs a (ha a (by simp)) st k]
    cases denItem opNames inputs st none a with
    | error e => rfl
    | ok r => exact ih (fun b hb => ha b (by simp [hb])) r.1 _

/-- `f(a₁, …, aₙ) = f a₁ … aₙ` -/
theorem den_call_atoms (f : Item) (as : List Item) (ha : ∀ a ∈ as, isAtom a = true) (st : FreeState) (k : Option PExpr) :
    den opNames inputs st k [f, .group (as.map fun a => [a])] = den opNames inputs st k (f :: as) := by
  simp only [den]
  cases denItem opNames inputs st k f with
  | error e => rfl
  | ok r =>
    simp only [denItem, denGroup_atoms opNames inputs as ha]
    cases den opNames inputs r.1 r.2 as with
    | error e => rfl
    | ok r2 => rfl

end dens

/-! ## application trees rendered in several styles -/

section trees
variable (opNames : List String) (inputs : List PExpr)

/-- a tree's value as the accumulator of a spine -/
def lift (r : Except PErr (FreeState × PExpr)) : Except PErr (FreeState × Option PExpr) :=
  match r with
  | .error e => .error e
  | .ok (st, e) => .ok (st, some e)

theorem denote_of_lift (st : FreeState) (sp : List Item) (r : Except PErr (FreeState × PExpr))
    (h : den opNames inputs st none sp = lift r) : denote opNames inputs st sp = r := by
  unfold denote
  rw [h]
  cases r with
  | error e => rfl
  | ok v => rfl

theorem denItem_argItem (t : Tree) (s : List Item)
    (hs : ∀ st, den opNames inputs st none s = lift (evalTree opNames inputs st t))
    (st : FreeState) (k : Option PExpr) :
    denItem opNames inputs st k (argItem t s) =
      match evalTree opNames inputs st t with
      | .error e => .error e
      | .ok (st', e) => .ok (st', some (papp k e)) := by
  cases t with
  | op name => simp only [argItem, denItem, evalTree]; split <;> rfl
  | src => rfl
  | input i => simp only [argItem, denItem, evalTree]; split <;> rfl
  | app f x =>
    simp only [argItem, denItem_group_single, hs]
    cases evalTree opNames inputs st (.app f x) with
    | error e => rfl
    | ok r => rfl

theorem den_singleton (i : Item) (st : FreeState) (k : Option PExpr) :
    den opNames inputs st k [i] = denItem opNames inputs st k i := by
  simp only [den]
  cases denItem opNames inputs st k i with
  | error e => rfl
  | ok r => rfl

theorem den_juxta (t : Tree) : ∀ st, den opNames inputs st none (juxta t) = lift (evalTree opNames inputs st t) := by
  induction t with
  | op name => intro st; simp only [juxta, den_singleton, denItem, evalTree]; split <;> rfl
  | src => intro st; rfl
  | input i => intro st; simp only [juxta, den_singleton, denItem, evalTree]; split <;> rfl
  | app f x ihf ihx =>
    intro st
    simp only [juxta, den_append, ihf, evalTree]
    cases evalTree opNames inputs st f with
    | error e => rfl
    | ok r =>
      simp only [lift, den_singleton, denItem_argItem opNames inputs x (juxta x) ihx]
      cases evalTree opNames inputs r.1 x with
      | error e => rfl
      | ok r2 => rfl

theorem den_binary (t : Tree) : ∀ st, den opNames inputs st none (binary t) = lift (evalTree opNames inputs st t) := by
  induction t with
  | op name => intro st; simp only [binary, den_singleton, denItem, evalTree]; split <;> rfl
  | src => intro st; rfl
  | input i => intro st; simp only [binary, den_singleton, denItem, evalTree]; split <;> rfl
  | app f x ihf ihx =>
    intro st
    simp only [binary, den, evalTree, denItem_argItem opNames inputs f (binary f) ihf]
    cases evalTree opNames inputs st f with
    | error e => rfl
    | ok r =>
      simp only [denItem_argItem opNames inputs x (binary x) ihx]
      cases evalTree opNames inputs r.1 x with
      | error e => rfl
      | ok r2 => rfl

theorem den_paren (t : Tree) : ∀ st, den opNames inputs st none (paren t) = lift (evalTree opNames inputs st t) := by
  induction t with
  | op name => intro st; simp only [paren, den_singleton, denItem, evalTree]; split <;> rfl
  | src => intro st; rfl
  | input i => intro st; simp only [paren, den_singleton, denItem, evalTree]; split <;> rfl
  | app f x ihf ihx =>
    intro st
    simp only [paren, den, evalTree, denItem_group_single, ihf]
    cases evalTree opNames inputs st f with
    | error e => rfl
    | ok r =>
      simp only [lift, ihx]
      cases evalTree opNames inputs r.1 x with
      | error e => rfl
      | ok r2 => rfl

theorem den_headWith (h : Item) (args : List (List Item)) (st : FreeState) :
    den opNames inputs st none (headWith h args) =
      match denItem opNames inputs st none h with
      | .error e => .error e
      | .ok (st1, k1) => denGroup opNames inputs st1 k1 args := by
  cases args with
  | nil =>
    simp only [headWith, den, denGroup]
    cases denItem opNames inputs st none h with
    | error e => rfl
    | ok r => rfl
  | cons a as =>
    simp only [headWith, den, denItem]
    cases denItem opNames inputs st none h with
    | error e => rfl
    | ok r =>
      simp only []
      cases denGroup opNames inputs r.1 r.2 (a :: as) with
      | error e => rfl
      | ok r2 => rfl

theorem den_callAux (t : Tree) : ∀ st args, den opNames inputs st none (callAux t args) =
      match evalTree opNames inputs st t with
      | .error e => .error e
      | .ok (st1, e) => denGroup opNames inputs st1 (some e) args := by
  induction t with
  | op name =>
    intro st args; simp only [callAux, den_headWith, denItem, evalTree]
    by_cases h : opNames.contains name = true
    · rw [if_pos h, if_pos h]; rfl
    · rw [if_neg h, if_neg h]
  | src => intro st args; simp only [callAux, den_headWith, denItem, evalTree]; rfl
  | input i =>
    intro st args; simp only [callAux, den_headWith, denItem, evalTree]
    cases lookupInput inputs i with
    | none => rfl
    | some e => rfl
  | app f x ihf ihx =>
    intro st args
    simp only [callAux, ihf, evalTree]
    cases evalTree opNames inputs st f with
    | error e => rfl
    | ok r =>
      simp only [denGroup, ihx]
      cases evalTree opNames inputs r.1 x with
      | error e => rfl
      | ok r2 => rfl

theorem den_render (s : Style) (t : Tree) (st : FreeState) :
    den opNames inputs st none (render s t) = lift (evalTree opNames inputs st t) := by
  cases s with
  | juxta => exact den_juxta opNames inputs t st
  | binary => exact den_binary opNames inputs t st
  | paren => exact den_paren opNames inputs t st
  | call =>
    simp only [render, den_callAux]
    cases evalTree opNames inputs st t with
    | error e => rfl
    | ok r => rfl

end trees

/-! ## names of rendered trees; numbering of sources -/

section names

theorem namesOkS_append (a b : List Item) : namesOkS (a ++ b) = (namesOkS a && namesOkS b) := by
  induction a with
  | nil => simp [namesOkS]
  | cons i a ih => simp only [List.cons_append, namesOkS, ih, Bool.and_assoc]

theorem namesOk_argItem (t : Tree) (s : List Item) (ht : namesOkT t = true) (hs : namesOkS s = true) :
    namesOk (argItem t s) = true := by
  cases t with
  | op name => simpa only [argItem, namesOk, namesOkT] using ht
  | src => rfl
  | input i => rfl
  | app f x => simp only [argItem, namesOk, namesOkG, hs, Bool.and_self]

theorem namesOkS_juxta (t : Tree) (ht : namesOkT t = true) : namesOkS (juxta t) = true := by
  induction t with
  | op name => simpa only [juxta, namesOkS, namesOk, namesOkT, Bool.and_true] using ht
  | src => rfl
  | input i => rfl
  | app f x ihf ihx =>
    simp only [namesOkT, Bool.and_eq_true] at ht
    simp only [juxta, namesOkS_append, namesOkS, ihf ht.1, namesOk_argItem x _ ht.2 (ihx ht.2), Bool.and_self]

theorem namesOkS_binary (t : Tree) (ht : namesOkT t = true) : namesOkS (binary t) = true := by
  induction t with
  | op name => simpa only [binary, namesOkS, namesOk, namesOkT, Bool.and_true] using ht
  | src => rfl
  | input i => rfl
  | app f x ihf ihx =>
    simp only [namesOkT, Bool.and_eq_true] at ht
    simp only [binary, namesOkS, namesOk_argItem f _ ht.1 (ihf ht.1), namesOk_argItem x _ ht.2 (ihx ht.2),
      Bool.and_self]

theorem namesOkS_paren (t : Tree) (ht : namesOkT t = true) : namesOkS (paren t) = true := by
  induction t with
  | op name => simpa only [paren, namesOkS, namesOk, namesOkT, Bool.and_true] using ht
  | src => rfl
  | input i => rfl
  | app f x ihf ihx =>
    simp only [namesOkT, Bool.and_eq_true] at ht
    simp only [paren, namesOkS, namesOk, namesOkG, ihf ht.1, ihx ht.2, Bool.and_self]

theorem namesOkS_headWith (h : Item) (args : List (List Item)) (hh : namesOk h = true) (ha : namesOkG args = true) :
    namesOkS (headWith h args) = true := by
  cases args with
  | nil => simp only [headWith, namesOkS, hh, Bool.and_self]
  | cons a as => simp only [headWith, namesOkS, namesOk, hh, ha, Bool.and_self]

theorem namesOkS_callAux (t : Tree) (ht : namesOkT t = true) :
    ∀ args, namesOkG args = true → namesOkS (callAux t args) = true := by
  induction t with
  | op name => intro args ha; exact namesOkS_headWith _ _ (by simpa only [namesOk, namesOkT] using ht) ha
  | src => intro args ha; exact namesOkS_headWith _ _ rfl ha
  | input i => intro args ha; exact namesOkS_headWith _ _ rfl ha
  | app f x ihf ihx =>
    intro args ha
    simp only [namesOkT, Bool.and_eq_true] at ht
    simp only [callAux]
    apply ihf ht.1
    simp only [namesOkG, ihx ht.2 [] rfl, ha, Bool.and_self]

theorem namesOkS_render (s : Style) (t : Tree) (ht : namesOkT t = true) : namesOkS (render s t) = true := by
  cases s with
  | juxta => exact namesOkS_juxta t ht
  | binary => exact namesOkS_binary t ht
  | paren => exact namesOkS_paren t ht
  | call => exact namesOkS_callAux t ht [] rfl

end names

section srcs
variable (opNames : List String) (inputs : List PExpr)

mutual
theorem nsrc_item : ∀ (it : Item) (st : FreeState) (k : Option PExpr) (st' : FreeState) (k' : Option PExpr),
    denItem opNames inputs st k it = .ok (st', k') →
    st'.nsrc = st.nsrc + countSrc it ∧ st'.nvars = st.nvars ∧ st'.anns = st.anns
  | .op name, st, k, st', k', h => by
    simp only [denItem] at h
    split at h
    · cases h; exact ⟨rfl, rfl, rfl⟩
    · cases h
  | .src, st, k, st', k', h => by
    simp only [denItem] at h
    cases h; exact ⟨rfl, rfl, rfl⟩
  | .input i, st, k, st', k', h => by
    simp only [denItem] at h
    split at h
    · cases h; exact ⟨rfl, rfl, rfl⟩
    · cases h
  | .group ss, st, k, st', k', h => by
    simp only [denItem] at h
    simpa only [countSrc] using nsrc_group ss st k st' k' h
theorem nsrc_items : ∀ (sp : List Item) (st : FreeState) (k : Option PExpr) (st' : FreeState) (k' : Option PExpr),
    den opNames inputs st k sp = .ok (st', k') →
    st'.nsrc = st.nsrc + countSrcS sp ∧ st'.nvars = st.nvars ∧ st'.anns = st.anns
  | [], st, k, st', k', h => by
    simp only [den] at h
    cases h; exact ⟨rfl, rfl, rfl⟩
  | it :: is, st, k, st', k', h => by
    simp only [den] at h
    split at h
    · cases h
    · rename_i st1 k1 h1
      obtain ⟨a1, a2, a3⟩ := nsrc_item it st k st1 k1 h1
      obtain ⟨b1, b2, b3⟩ := nsrc_items is st1 k1 st' k' h
      simp only [countSrcS]
      exact ⟨by omega, by rw [b2, a2], by rw [b3, a3]⟩
theorem nsrc_group : ∀ (ss : List (List Item)) (st : FreeState) (k : Option PExpr) (st' : FreeState) (k' : Option PExpr),
    denGroup opNames inputs st k ss = .ok (st', k') →
    st'.nsrc = st.nsrc + countSrcG ss ∧ st'.nvars = st.nvars ∧ st'.anns = st.anns
  | [], st, k, st', k', h => by
    simp only [denGroup] at h
    cases h; exact ⟨rfl, rfl, rfl⟩
  | s :: ss, st, k, st', k', h => by
    simp only [denGroup] at h
    split at h
    · cases h
    · rename_i st1 v h1
      obtain ⟨a1, a2, a3⟩ := nsrc_items s st none st1 v h1
      obtain ⟨b1, b2, b3⟩ := nsrc_group ss st1 _ st' k' h
      simp only [countSrcG]
      exact ⟨by omega, by rw [b2, a2], by rw [b3, a3]⟩
end

/-- the `-` after a prefix `sp1` becomes the source numbered `nsrc + (number of - in sp1)` -/
theorem den_src_after (sp1 sp2 : List Item) (st st1 : FreeState) (k k1 : Option PExpr)
    (h1 : den opNames inputs st k sp1 = .ok (st1, k1)) :
    den opNames inputs st k (sp1 ++ .src :: sp2) =
      den opNames inputs { st1 with nsrc := st1.nsrc + 1 }
        (some (papp k1 (.src (st.nsrc + countSrcS sp1)))) sp2 := by
  rw [den_append, h1]
  simp only [den, denItem, (nsrc_items opNames inputs sp1 st k st1 k1 h1).1]

theorem den_input_single (i : Nat) (e : PExpr) (he : lookupInput inputs i = some e) (st : FreeState) :
    denote opNames inputs st [.input i] = .ok (st, e) := by
  simp only [denote, den, denItem, he, papp]

theorem den_src_single (st : FreeState) :
    denote opNames inputs st [.src] = .ok ({ st with nsrc := st.nsrc + 1 }, .src st.nsrc) := by
  simp only [denote, den, denItem, papp]

end srcs

/-! ## tokenizer -/
section tok
variable (specials blanks : List Char)

/-- the pending token, if any -/
def flush (cur : String) : List String := if cur.isEmpty then [] else [cur]

theorem flush_empty : flush "" = [] := rfl

theorem flush_of_ne (cur : String) (h : cur.toList ≠ []) : flush cur = [cur] := by
  unfold flush
  rw [if_neg]
  intro he
  rw [String.isEmpty_iff] at he
  subst he
  exact h String.toList_empty

theorem tok_nil (cur : String) : tokenizeAux specials blanks [] cur = flush cur := by
  simp [tokenizeAux, flush]

theorem tok_blank (c : Char) (cs : List Char) (cur : String) (hc : c ∈ blanks) :
    tokenizeAux specials blanks (c :: cs) cur = flush cur ++ tokenizeAux specials blanks cs "" := by
  simp [tokenizeAux, flush, hc]

theorem tok_special (c : Char) (cs : List Char) (cur : String) (hb : c ∉ blanks) (hs : c ∈ specials) :
    tokenizeAux specials blanks (c :: cs) cur
      = flush cur ++ String.singleton c :: tokenizeAux specials blanks cs "" := by
  simp [tokenizeAux, flush, hb, hs]

theorem tok_ordinary (c : Char) (cs : List Char) (cur : String) (hb : c ∉ blanks) (hs : c ∉ specials) :
    tokenizeAux specials blanks (c :: cs) cur = tokenizeAux specials blanks cs (cur.push c) := by
  simp [tokenizeAux, hb, hs]

theorem tok_blanks_empty (sep cs : List Char) (h : ∀ c ∈ sep, c ∈ blanks) :
    tokenizeAux specials blanks (sep ++ cs) "" = tokenizeAux specials blanks cs "" := by
  induction sep with
  | nil => rfl
  | cons c sep ih =>
    rw [List.cons_append, tok_blank _ _ c _ _ (h c (by simp)), flush_empty, List.nil_append]
    exact ih (fun d hd => h d (by simp [hd]))

theorem tok_blanks (sep cs : List Char) (cur : String) (h : ∀ c ∈ sep, c ∈ blanks) (hne : sep ≠ []) :
    tokenizeAux specials blanks (sep ++ cs) cur = flush cur ++ tokenizeAux specials blanks cs "" := by
  cases sep with
  | nil => exact absurd rfl hne
  | cons c sep =>
    rw [List.cons_append, tok_blank _ _ c _ _ (h c (by simp))]
    rw [tok_blanks_empty _ _ sep cs (fun d hd => h d (by simp [hd]))]

theorem tok_word (w cs : List Char) (cur cur' : String) (h : ∀ c ∈ w, c ∉ specials ∧ c ∉ blanks)
    (he : cur'.toList = cur.toList ++ w) :
    tokenizeAux specials blanks (w ++ cs) cur = tokenizeAux specials blanks cs cur' := by
  induction w generalizing cur with
  | nil =>
    have : cur' = cur := String.toList_injective (by simpa using he)
    rw [this]; rfl
  | cons c w ih =>
    rw [List.cons_append, tok_ordinary _ _ c _ _ (h c (by simp)).2 (h c (by simp)).1]
    apply ih _ (fun d hd => h d (by simp [hd]))
    rw [String.toList_push, he]; simp

theorem tok_layoutChars (items : List (String × List Char)) (h : LayoutOk specials blanks items) :
    tokenizeAux specials blanks (layoutChars items) "" = items.map Prod.fst := by
  induction items with
  | nil => rfl
  | cons it rest ih =>
    obtain ⟨t, sep⟩ := it
    obtain ⟨ht, hsep, hadj, hrest⟩ := h
    have ih' := ih hrest
    simp only [layoutChars, List.map_cons, List.append_assoc]
    rcases ht with ⟨c, hcs, hcb, rfl⟩ | hw
    · rw [String.toList_singleton, List.cons_append, List.nil_append,
        tok_special _ _ c _ _ hcb hcs, flush_empty, List.nil_append,
        tok_blanks_empty _ _ sep _ hsep, ih']
    · rw [tok_word _ _ t.toList _ "" t hw.2 (by simp)]
      by_cases hne : sep = []
      · subst hne
        rw [List.nil_append]
        cases rest with
        | nil => simp [layoutChars, tok_nil, flush_of_ne t hw.1]
        | cons it' rest' =>
          obtain ⟨t', sep'⟩ := it'
          obtain ⟨ht', -, -, -⟩ := hrest
          rcases ht' with ⟨c, hcs, hcb, rfl⟩ | hw'
          · rw [← ih']
            simp only [layoutChars, String.toList_singleton, List.cons_append, List.nil_append]
            rw [tok_special _ _ c _ t hcb hcs, tok_special _ _ c _ "" hcb hcs, flush_of_ne t hw.1,
              flush_empty]
            rfl
          · exact absurd rfl (hadj hw hw')
      · rw [tok_blanks _ _ sep _ t hsep hne, flush_of_ne t hw.1, ih']
        rfl

theorem tokenize_layout (specials blanks : String) (lead : List Char) (items : List (String × List Char))
    (hlead : ∀ c ∈ lead, c ∈ blanks.toList) (h : LayoutOk specials.toList blanks.toList items) :
    tokenize specials blanks (layout lead items) = items.map Prod.fst := by
  unfold tokenize layout
  rw [String.toList_ofList, tok_blanks_empty _ _ lead _ hlead]
  exact tok_layoutChars _ _ items h

end tok

/-! ## comments -/
section comments
variable {S E : Type} (P : PLang) (B : Builder S E) (inputs : List E) (defaults : Bool)

/-- inside a comment every token up to the line break is skipped; nothing else changes (not even "the previous token") -/
theorem comment_junk (junk : List String) (hj : "\n" ∉ junk) (n : Nat) (s : EState S E) (rest : List String) :
    parseExprLoop P B inputs defaults (n + junk.length) { s with comment := true } (junk ++ rest)
    = parseExprLoop P B inputs defaults n { s with comment := true } rest := by
  induction junk with
  | nil => rfl
  | cons t junk ih =>
    have ht : t ≠ "\n" := fun e => hj (by simp [e])
    have hj' : "\n" ∉ junk := fun e => hj (by simp [e])
    rw [List.length_cons, ← Nat.add_assoc, List.cons_append, parseExprLoop]
    by_cases h1 : t = "#"
    · subst h1
      simp only [beq_self_eq_true, if_true]
      exact ih hj'
    · simp only [beq_iff_eq, h1, ht, if_false, if_true]
      exact ih hj'

/-- a whole comment, `#` up to and including the line break, leaves the loop state as it was -/
theorem comment_skip (junk : List String) (hj : "\n" ∉ junk) (n : Nat) (s : EState S E) (hc : s.comment = false)
    (rest : List String) :
    parseExprLoop P B inputs defaults (n + junk.length + 2) s ("#" :: junk ++ "\n" :: rest)
    = parseExprLoop P B inputs defaults n s rest := by
  obtain ⟨st, stack, c, p⟩ := s
  simp only at hc
  subst hc
  rw [show n + junk.length + 2 = ((n + 1) + junk.length) + 1 by omega, List.cons_append, parseExprLoop]
  simp only [beq_self_eq_true, if_true]
  have := comment_junk P B inputs defaults junk hj (n + 1) ⟨st, stack, false, p⟩ ("\n" :: rest)
  rw [this, parseExprLoop]
  simp

end comments

/-! ## comments and line breaks anywhere -/
section trivia
variable {S E : Type} (P : PLang) (B : Builder S E) (inputs : List E) (defaults : Bool)

/-- what one token other than `#`, line break and `:` does to the builder state and the stack outside comments -/
def exprStep (st : S) (stack : List (Option E)) (tok : String) : Except PErr (S × List (Option E)) :=
  if tok == "(" || tok == "," || tok == ")" then
    let r : Except PErr (S × List (Option E)) :=
      if tok == ")" || tok == "," then
        match stack with
        | [] => .error .bracketMismatch
        | none :: rest' => .ok (st, rest')
        | some y :: rest' =>
          match rest' with
          | [] => .error .bracketMismatch
          | none :: rest'' => .ok (st, some y :: rest'')
          | some x :: rest'' =>
            match B.mkApp st x y with
            | .error e => .error e
            | .ok (st', e) => .ok (st', some e :: rest'')
      else .ok (st, stack)
    match r with
    | .error e => .error e
    | .ok (st', stack') => .ok (st', if tok == "(" || tok == "," then none :: stack' else stack')
  else if tok == ";" then .ok (st, [none])
  else
    let cur : Except PErr (S × E) :=
      if tok == "-" then .ok (B.mkSource st)
      else match parseDecimal tok with
        | some k =>
          (match lookupInput inputs k with
           | some e => .ok (st, e)
           | none => if defaults then .ok (B.mkSource st) else .error (.missingInput k))
        | none => B.mkOp st tok
    match cur with
    | .error e => .error e
    | .ok (st', current) =>
      match stack with
      | [] => .error .bracketMismatch
      | none :: below => .ok (st', some current :: below)
      | some previous :: below =>
        match B.mkApp st' previous current with
        | .error e => .error e
        | .ok (st'', e) => .ok (st'', some e :: below)

theorem loop_step (m : Nat) (s : EState S E) (tok : String) (rest : List String)
    (h1 : tok ≠ "#") (h2 : tok ≠ "\n") (h3 : tok ≠ ":") (hc : s.comment = false) :
    parseExprLoop P B inputs defaults (m + 1) s (tok :: rest) =
      match exprStep B inputs defaults s.st s.stack tok with
      | .error e => .error e
      | .ok (st', stack') => parseExprLoop P B inputs defaults m { s with st := st', stack := stack', prevTok := tok } rest := by
  rw [parseExprLoop]
  simp only [beq_iff_eq, h1, h2, h3, hc, if_false, Bool.false_eq_true]
  unfold exprStep
  by_cases hp : (tok == "(" || tok == "," || tok == ")") = true
  · simp only [hp, if_true]
    generalize (if (tok == ")" || tok == ",") = true then _ else _ : Except PErr (S × List (Option E))) = r
    cases r with
    | error e => rfl
    | ok v => rfl
  · simp only [hp, if_false, Bool.false_eq_true]
    by_cases hs : tok = ";"
    · simp only [hs, if_true, beq_self_eq_true]
    · simp only [hs, if_false, beq_iff_eq]
      generalize (if tok = "-" then _ else _ : Except PErr (S × E)) = cur
      cases cur with
      | error e => rfl
      | ok v =>
        obtain ⟨st', current⟩ := v
        simp only []
        cases s.stack with
        | nil => rfl
        | cons top below =>
          cases top with
          | none => rfl
          | some previous =>
            simp only []
            cases B.mkApp st' previous current with
            | error e => rfl
            | ok v2 => rfl

/-- what `parseExprToks` looks at -/
def proj (r : Except PErr (EState S E)) : Except PErr (S × List (Option E)) :=
  match r with
  | .error e => .error e
  | .ok s => .ok (s.st, s.stack)

theorem strip_loop (ts : List String) :
    ∀ (s : EState S E) (p : String) (n : Nat), ":" ∉ stripTrivia s.comment ts →
    proj (parseExprLoop P B inputs defaults (n + 1 + ts.length) s ts) =
    proj (parseExprLoop P B inputs defaults (n + 1 + (stripTrivia s.comment ts).length)
      { s with comment := false, prevTok := p } (stripTrivia s.comment ts)) := by
  induction ts with
  | nil =>
    intro s p n _
    simp only [stripTrivia, List.length_nil, Nat.add_zero]
    rw [parseExprLoop, parseExprLoop]
    · rfl
    · intro h; cases h
    · intro h; cases h
  | cons tok rest ih =>
    intro s p n hcol
    rw [List.length_cons, ← Nat.add_assoc]
    by_cases h1 : tok = "#"
    · subst h1
      rw [parseExprLoop]
      simp only [beq_self_eq_true, if_true]
      simp only [stripTrivia, beq_self_eq_true, if_true] at hcol ⊢
      exact ih { s with comment := true } p n hcol
    · by_cases h2 : tok = "\n"
      · subst h2
        rw [parseExprLoop]
        simp only [beq_iff_eq, h1, if_false, if_true]
        simp only [stripTrivia, beq_iff_eq, h1, if_false, if_true] at hcol ⊢
        exact ih { s with comment := false } p n hcol
      · cases hc : s.comment with
        | true =>
          rw [parseExprLoop]
          simp only [beq_iff_eq, h1, h2, hc, if_false, if_true]
          rw [hc] at hcol
          simp only [stripTrivia, beq_iff_eq, h1, h2, if_false, if_true] at hcol ⊢
          have := ih s p n (by simpa only [hc] using hcol)
          simpa only [hc] using this
        | false =>
          rw [hc] at hcol
          simp only [stripTrivia, beq_iff_eq, h1, h2, if_false, Bool.false_eq_true, List.mem_cons, not_or] at hcol ⊢
          have h3 : tok ≠ ":" := fun e => hcol.1 e.symm
          rw [List.length_cons, ← Nat.add_assoc]
          rw [loop_step P B inputs defaults _ s tok rest h1 h2 h3 hc,
            loop_step P B inputs defaults _ { s with comment := false, prevTok := p } tok _ h1 h2 h3 rfl]
          cases exprStep B inputs defaults s.st s.stack tok with
          | error e => rfl
          | ok v =>
            obtain ⟨st', stack'⟩ := v
            simp only []
            have := ih { s with st := st', stack := stack', prevTok := tok } tok n (by simpa only [hc] using hcol.2)
            simpa only [hc] using this

theorem parseExprToks_eq_proj (st0 : S) (ts : List String) :
    parseExprToks P B inputs st0 ts =
      match proj (parseExprLoop P B inputs false (ts.length + 1) { st := st0 } ts) with
      | .error e => .error e
      | .ok (st, stack) =>
        match stack with
        | [some e] => .ok (st, e)
        | [none] => .error .emptyParse
        | _ => .error .bracketMismatch := by
  unfold parseExprToks proj
  cases parseExprLoop P B inputs false (ts.length + 1) { st := st0 } ts with
  | error e => rfl
  | ok s => rfl

theorem parseExprToks_strip (st0 : S) (ts : List String) (hcol : ":" ∉ stripTrivia false ts) :
    parseExprToks P B inputs st0 ts = parseExprToks P B inputs st0 (stripTrivia false ts) := by
  rw [parseExprToks_eq_proj, parseExprToks_eq_proj]
  have := strip_loop P B inputs false ts { st := st0 } "" 0 hcol
  simp only [Nat.zero_add] at this
  rw [Nat.add_comm ts.length 1, Nat.add_comm (stripTrivia false ts).length 1, this]

end trivia

/-! ## corollaries used by the property file -/

section final
variable (P : PLang) (opNames : List String) (inputs : List PExpr)

theorem parse_spine_wf (sp : List Item) (hwf : WF opNames inputs.length sp)
    (st : FreeState) (k : Option PExpr) :
    ∃ st' e, den opNames inputs st k sp = .ok (st', some e) ∧
      ∀ (n : Nat) (S : List (Option PExpr)) (p : String) (rest : List String),
        parseExprLoop P (freeBuilder opNames) inputs false (n + (toks sp).length)
          { st := st, stack := k :: S, comment := false, prevTok := p } (toks sp ++ rest)
        = parseExprLoop P (freeBuilder opNames) inputs false n
          { st := st', stack := some e :: S, comment := false, prevTok := lastTok p (toks sp) } rest := by
  obtain ⟨hne, hn, hw⟩ := hwf
  obtain ⟨st', k', hd, hs⟩ := wf_items opNames inputs sp st k hw
  have := hs (Or.inr hne)
  cases k' with
  | none => cases this
  | some e => exact ⟨st', e, hd, parse_items P opNames inputs sp st k st' (some e) hn hd⟩

theorem parse_render_wf (sp : List Item) (hwf : WF opNames inputs.length sp) (st0 : FreeState) :
    ∃ st' e, parseExprToks P (freeBuilder opNames) inputs st0 (toks sp) = .ok (st', e) ∧
      den opNames inputs st0 none sp = .ok (st', some e) := by
  obtain ⟨hne, hn, hw⟩ := hwf
  obtain ⟨st', k', hd, hs⟩ := wf_items opNames inputs sp st0 none hw
  have := hs (Or.inr hne)
  cases k' with
  | none => cases this
  | some e =>
    refine ⟨st', e, ?_, hd⟩
    rw [parseExprToks_toks P opNames inputs st0 sp hn]
    simp only [denote, hd]

theorem denote_congr (st : FreeState) (a b : List Item)
    (h : den opNames inputs st none a = den opNames inputs st none b) :
    denote opNames inputs st a = denote opNames inputs st b := by
  unfold denote; rw [h]

theorem parse_parens (sp : List Item) (hn : namesOkS sp = true) (st0 : FreeState) :
    parseExprToks P (freeBuilder opNames) inputs st0 (toks [.group [sp]])
    = parseExprToks P (freeBuilder opNames) inputs st0 (toks sp) := by
  rw [parseExprToks_toks P opNames inputs st0 sp hn,
    parseExprToks_toks P opNames inputs st0 _ (by simp only [namesOkS, namesOk, namesOkG, hn, Bool.and_self])]
  exact denote_congr opNames inputs st0 _ _ (den_parens opNames inputs sp st0)

theorem parse_paren_prefix (sp : List Item) (j : Nat) (hn : namesOkS sp = true) (st0 : FreeState) :
    parseExprToks P (freeBuilder opNames) inputs st0 (toks (.group [sp.take j] :: sp.drop j))
    = parseExprToks P (freeBuilder opNames) inputs st0 (toks sp) := by
  have h2 : (namesOkS (sp.take j) && namesOkS (sp.drop j)) = true := by
    rw [← namesOkS_append, List.take_append_drop]; exact hn
  rw [Bool.and_eq_true] at h2
  rw [parseExprToks_toks P opNames inputs st0 sp hn,
    parseExprToks_toks P opNames inputs st0 _ (by simp only [namesOkS, namesOk, namesOkG, h2.1, h2.2, Bool.and_self])]
  exact denote_congr opNames inputs st0 _ _ (den_paren_prefix opNames inputs sp j st0)

theorem namesOkG_singletons (as : List Item) : namesOkG (as.map fun a => [a]) = namesOkS as := by
  induction as with
  | nil => rfl
  | cons a as ih => simp only [List.map_cons, namesOkG, namesOkS, ih, Bool.and_true]

theorem parse_call_atoms (f : Item) (as : List Item) (ha : ∀ a ∈ as, isAtom a = true)
    (hn : namesOkS (f :: as) = true) (st0 : FreeState) :
    parseExprToks P (freeBuilder opNames) inputs st0 (toks [f, .group (as.map fun a => [a])])
    = parseExprToks P (freeBuilder opNames) inputs st0 (toks (f :: as)) := by
  have hn' := hn
  simp only [namesOkS, Bool.and_eq_true] at hn'
  rw [parseExprToks_toks P opNames inputs st0 _ hn,
    parseExprToks_toks P opNames inputs st0 _
      (by simp only [namesOkS, namesOk, namesOkG_singletons, hn'.1, hn'.2, Bool.and_self])]
  exact denote_congr opNames inputs st0 _ _ (den_call_atoms opNames inputs f as ha st0 none)

theorem parse_render_tree (s : Style) (t : Tree) (ht : namesOkT t = true) (st0 : FreeState) :
    parseExprToks P (freeBuilder opNames) inputs st0 (toks (render s t)) = evalTree opNames inputs st0 t := by
  rw [parseExprToks_toks P opNames inputs st0 _ (namesOkS_render s t ht)]
  exact denote_of_lift opNames inputs st0 _ _ (den_render opNames inputs s t st0)

theorem parse_text (specials blanks : String) (lead : List Char) (items : List (String × List Char))
    (hlead : ∀ c ∈ lead, c ∈ blanks.toList) (h : LayoutOk specials.toList blanks.toList items)
    (sp : List Item) (hn : namesOkS sp = true) (htoks : items.map Prod.fst = toks sp) (st0 : FreeState) :
    parseExprToks P (freeBuilder opNames) inputs st0 (tokenize specials blanks (layout lead items))
    = denote opNames inputs st0 sp := by
  rw [tokenize_layout specials blanks lead items hlead h, htoks]
  exact parseExprToks_toks P opNames inputs st0 sp hn

theorem parse_input (i : Nat) (h1 : 1 ≤ i) (h2 : i ≤ inputs.length) (st0 : FreeState) :
    ∃ e, inputs[i - 1]? = some e ∧
      parseExprToks P (freeBuilder opNames) inputs st0 [toString i] = .ok (st0, e) ∧
      ∀ st k, denItem opNames inputs st k (.input i) = .ok (st, some (papp k e)) := by
  obtain ⟨e, he⟩ := lookupInput_in_range inputs i h1 h2
  refine ⟨e, by rw [← lookupInput_pos inputs i h1]; exact he, ?_, ?_⟩
  · have := parseExprToks_toks P opNames inputs st0 [.input i] rfl
    rw [den_input_single opNames inputs i e he st0] at this
    exact this
  · intro st k
    simp only [denItem, he]

theorem parse_src (st0 : FreeState) :
    parseExprToks P (freeBuilder opNames) inputs st0 ["-"]
    = .ok ({ st0 with nsrc := st0.nsrc + 1 }, .src st0.nsrc) := by
  have := parseExprToks_toks P opNames inputs st0 [.src] rfl
  rw [den_src_single opNames inputs st0] at this
  exact this

end final


mutual
theorem colon_toksItem : ∀ (it : Item), namesOk it = true → ":" ∉ toksItem it
  | .op name, h => by
    simp only [namesOk] at h
    have := (isNameToken_spec h).2.2.2.2.2.1
    simp only [toksItem, List.mem_singleton]
    exact fun e => this e.symm
  | .src, _ => by simp only [toksItem, List.mem_singleton]; decide
  | .input i, _ => by
    simp only [toksItem, List.mem_singleton]
    exact fun e => (toString_not_special i).2.2.2.2.2.1 e.symm
  | .group ss, h => by
    simp only [namesOk] at h
    simp only [toksItem, List.mem_cons, not_or]
    exact ⟨by decide, colon_toksGroup ss h⟩
theorem colon_toks : ∀ (sp : List Item), namesOkS sp = true → ":" ∉ toks sp
  | [], _ => by simp only [toks, List.not_mem_nil, not_false_eq_true]
  | it :: is, h => by
    simp only [namesOkS, Bool.and_eq_true] at h
    simp only [toks, List.mem_append, not_or]
    exact ⟨colon_toksItem it h.1, colon_toks is h.2⟩
theorem colon_toksGroup : ∀ (ss : List (List Item)), namesOkG ss = true → ":" ∉ toksGroup ss
  | [], _ => by simp only [toksGroup, List.mem_singleton]; decide
  | s :: ss, h => by
    simp only [namesOkG, Bool.and_eq_true] at h
    simp only [toksGroup, List.mem_append, not_or]
    exact ⟨colon_toks s h.1, colon_toksSeps ss h.2⟩
theorem colon_toksSeps : ∀ (ss : List (List Item)), namesOkG ss = true → ":" ∉ toksSeps ss
  | [], _ => by simp only [toksSeps, List.mem_singleton]; decide
  | s :: ss, h => by
    simp only [namesOkG, Bool.and_eq_true] at h
    simp only [toksSeps, List.mem_cons, List.mem_append, not_or]
    exact ⟨by decide, colon_toks s h.1, colon_toksSeps ss h.2⟩
end

theorem parse_trivia (P : PLang) (opNames : List String) (inputs : List PExpr) (st0 : FreeState)
    (ts : List String) (sp : List Item) (hn : namesOkS sp = true) (hts : stripTrivia false ts = toks sp) :
    parseExprToks P (freeBuilder opNames) inputs st0 ts = denote opNames inputs st0 sp := by
  rw [parseExprToks_strip P (freeBuilder opNames) inputs st0 ts (by rw [hts]; exact colon_toks sp hn), hts]
  exact parseExprToks_toks P opNames inputs st0 sp hn


/-- the main theorem under its announced name -/
theorem parse_spine (P : PLang) (opNames : List String) (inputs : List PExpr) (sp : List Item)
    (st : FreeState) (k : Option PExpr) (st' : FreeState) (k' : Option PExpr)
    (hn : namesOkS sp = true) (hd : den opNames inputs st k sp = .ok (st', k'))
    (n : Nat) (S : List (Option PExpr)) (p : String) (rest : List String) :
    run P opNames inputs (n + (toks sp).length) st (k :: S) p (toks sp ++ rest)
    = run P opNames inputs n st' (k' :: S) (lastTok p (toks sp)) rest :=
  parse_items P opNames inputs sp st k st' k' hn hd n S p rest

theorem parse_text_trivia (P : PLang) (opNames : List String) (inputs : List PExpr) (specials blanks : String)
    (lead : List Char) (items : List (String × List Char))
    (hlead : ∀ c ∈ lead, c ∈ blanks.toList) (h : LayoutOk specials.toList blanks.toList items)
    (sp : List Item) (hn : namesOkS sp = true) (htoks : stripTrivia false (items.map Prod.fst) = toks sp)
    (st0 : FreeState) :
    parseExprToks P (freeBuilder opNames) inputs st0 (tokenize specials blanks (layout lead items))
    = denote opNames inputs st0 sp := by
  rw [tokenize_layout specials blanks lead items hlead h]
  exact parse_trivia P opNames inputs st0 _ sp hn htoks

end Tfv.Notation
