import Tfv.Proofs.VocabMain
/-!
# The `rdfs:subClassOf` and `rdf:type` triples of the taxonomy, spelled out
-/
namespace Tfv.Voc
open Tfv Tfv.Tax

/-- `(s, rdfs:subClassOf, o)` links a registered compound type to its operator -/
def OpEdge (G : GLang) (c : GCfg) (g : GState) (s o : Node) : Prop :=
  c.withTypeParameters = true ∧ ∃ op args, g.L (.app op args) = some s ∧ arityOf G.types op > 0 ∧ o = opUri G op

/-- `s`, `o` are the URIs of canonical types `t`, `u` such that `u` is a reported direct supertype of `t` or `t` a
reported direct subtype of `u` -/
def LinkEdge (G : GLang) (s o : Node) : Prop :=
  ∃ t u, t ∈ G.canon ∧ u ∈ G.canon ∧ typeUri G t.toTerm = .ok s ∧ typeUri G u.toTerm = .ok o ∧
    (GLink G true t u ∨ GLink G false u t)

theorem glink_canon {G : GLang} {up : Bool} {t s : Ty} (h : GLink G up t s) : s ∈ G.canon :=
  mem_of_memTy (langSucc_canon _ _ _ _ _ _ _ _ h)

theorem linkTr_iff (G : GLang) (s o : Node) : LinkTr G (s, subClassOf, o) ↔ LinkEdge G s o := by
  constructor
  · intro h
    cases h with
    | @up t u _ _ ht hu ha hb => exact ⟨t, u, ht, glink_canon hu, ha, hb, .inl hu⟩
    | @down t s' _ _ ht hs ha hb => exact ⟨s', t, glink_canon hs, ht, hb, ha, .inr hs⟩
  · rintro ⟨t, u, ht, hu, ha, hb, hl | hl⟩
    · exact .up ht hl ha hb
    · exact .down hu hl hb ha

theorem linkTr_pred {G : GLang} {tr : Triple} (h : LinkTr G tr) : tr.2.1 = subClassOf := by
  cases h <;> rfl

theorem paramPred_ne_type (i : Nat) : paramPred i ≠ Node.rdf "type" := by
  intro h
  injection h with h
  have := congrArg String.toList h
  simp at this

theorem described_sub_iff (G : GLang) (c : GCfg) (g : GState) (s o : Node) :
    Described G c g (s, subClassOf, o) ↔ OpEdge G c g s o := by
  constructor
  · rintro ⟨x, n, hl, hd⟩
    generalize htr : (s, subClassOf, o) = tr at hd
    cases hd with
    | cls _ => simp only [Prod.mk.injEq] at htr; exact absurd htr.2.1 (by simp)
    | @op op args hx ha htp =>
      simp only [Prod.mk.injEq] at htr
      obtain ⟨rfl, _, rfl⟩ := htr
      subst hx
      exact ⟨htp, op, args, hl, ha, rfl⟩
    | param _ _ _ _ _ => simp only [Prod.mk.injEq] at htr; exact absurd htr.2.1 (by simp)
  · rintro ⟨htp, op, args, hl, ha, rfl⟩
    exact ⟨_, s, hl, .op rfl ha htp⟩

theorem directEdge_iff (G : GLang) (c : GCfg) (g : GState) (s o : Node) :
    DirectEdge G c g s o ↔ LinkEdge G s o ∨ OpEdge G c g s o := by
  unfold DirectEdge DirectTr
  rw [described_sub_iff, linkTr_iff]
  exact Or.comm

theorem described_type_iff (G : GLang) (c : GCfg) (g : GState) (n : Node) :
    Described G c g (n, Node.rdf "type", Node.tf "Type") ↔ (c.withClasses = true ∧ ∃ x, g.L x = some n) := by
  constructor
  · rintro ⟨x, m, hl, hd⟩
    generalize htr : (n, Node.rdf "type", Node.tf "Type") = tr at hd
    cases hd with
    | cls hc =>
      simp only [Prod.mk.injEq] at htr
      obtain ⟨rfl, _, _⟩ := htr
      exact ⟨hc, x, hl⟩
    | op _ _ _ => simp only [Prod.mk.injEq] at htr; exact absurd htr.2.1 (by simp)
    | @param _ _ i _ _ _ _ _ _ _ =>
      simp only [Prod.mk.injEq] at htr
      exact absurd htr.2.1.symm (paramPred_ne_type (i + 1))
  · rintro ⟨hc, x, hl⟩
    exact ⟨x, n, hl, .cls hc⟩

/-- **without closure** the `rdfs:subClassOf` triples are the direct links and the operator edges -/
theorem TaxResult.sub_iff_direct {G : GLang} {c : GCfg} {g : GState} (h : TaxResult G c false g) (s o : Node) :
    (s, subClassOf, o) ∈ g.triples ↔ LinkEdge G s o ∨ OpEdge G c g s o := by
  rw [h.triples, ← directEdge_iff]
  simp [DirectEdge]

/-- **with closure**: additionally every node reaches every canonical type it reaches over direct edges, in `≥ 0` steps -/
theorem TaxResult.sub_iff_closure {G : GLang} {c : GCfg} {g : GState} (h : TaxResult G c true g) (s o : Node) :
    (s, subClassOf, o) ∈ g.triples ↔
      DirectEdge G c g s o ∨ ((∃ t ∈ G.canon, typeUri G t.toTerm = .ok o) ∧ NReach (DirectEdge G c g) s o) := by
  rw [h.triples]
  constructor
  · rintro (h0 | ⟨_, t, ht, ref, s', href, hs, he⟩)
    · exact .inl h0
    · simp only [Prod.mk.injEq, true_and] at he
      obtain ⟨rfl, rfl⟩ := he
      exact .inr ⟨⟨t, ht, href⟩, hs⟩
  · rintro (h0 | ⟨⟨t, ht, href⟩, hs⟩)
    · exact .inl h0
    · exact .inr ⟨rfl, t, ht, o, s, href, hs, rfl⟩

/-- **`rdf:type tf:Type`** marks exactly the nodes of the registered types (when `with_classes`) -/
theorem TaxResult.type_iff {G : GLang} {c : GCfg} {cl : Bool} {g : GState} (h : TaxResult G c cl g) (n : Node) :
    (n, Node.rdf "type", Node.tf "Type") ∈ g.triples ↔ (c.withClasses = true ∧ ∃ x, g.L x = some n) := by
  rw [h.triples, ← described_type_iff]
  constructor
  · rintro ((h0 | h0) | ⟨_, _, _, _, _, _, _, he⟩)
    · exact h0
    · exact absurd (linkTr_pred h0) (by simp)
    · simp only [Prod.mk.injEq] at he; exact absurd he.2.1 (by simp)
  · intro h0; exact .inl (.inl h0)

/-- every canonical type is described (`with_classes`) -/
theorem TaxResult.canonical_described {G : GLang} {c : GCfg} {cl : Bool} {g : GState} (h : TaxResult G c cl g)
    (hc : c.withClasses = true) (t : Ty) (ht : t ∈ G.canon) :
    ∃ n, typeUri G t.toTerm = .ok n ∧ (n, Node.rdf "type", Node.tf "Type") ∈ g.triples := by
  obtain ⟨n, h1, h2⟩ := h.done t ht
  exact ⟨n, h1, (h.type_iff n).2 ⟨hc, _, h2⟩⟩

/-- without `with_type_parameters` nothing but the canonical types is registered -/
theorem TaxResult.registered_no_parameters {G : GLang} {c : GCfg} {cl : Bool} {g : GState} (h : TaxResult G c cl g)
    (htp : c.withTypeParameters = false) (x : Term) : (∃ n, g.L x = some n) ↔ ∃ t ∈ G.canon, x = t.toTerm := by
  rw [h.registered x]
  constructor
  · rintro ⟨t, ht, hr⟩
    cases hr with
    | refl => exact ⟨t, ht, rfl⟩
    | param _ _ h' _ => rw [htp] at h'; cases h'
  · rintro ⟨t, ht, rfl⟩; exact ⟨t, ht, .refl _⟩

end Tfv.Voc
