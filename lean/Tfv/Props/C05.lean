import Tfv.Model
import Tfv.Spec.Sub
import Tfv.Spec.Sat
import Tfv.Proofs.SubOrder
import Tfv.Proofs.Bounds
import Tfv.Proofs.BoundsChain
import Tfv.Proofs.BoundsApply
import Tfv.Proofs.BoundsFix
import Tfv.Proofs.BoundsTop
import Tfv.Proofs.BoundsExamples
/-!
# C05 — the bound-tightening machine: closed form, order independence, monotonicity, leastness

Statements only; proofs are one-liners calling lemmas of `Tfv/Proofs/Bounds*.lean`.
Scope: constraint-free stores (`NoConstraints`), base-type arguments from one chain of the
hierarchy (`ChainOn`: nullary operators, pairwise `Anc`-comparable, neither `Top` nor `Bottom`;
`Top`/`Bottom` are treated in `C05_above_top`, `C05_below_bot`, `C05_bot_neutral`, `C05_top_neutral`,
`C05_drop_neutral`, `C05_co_top`, `C05_contra_bot`).

Vocabulary (defined in `Tfv/Proofs/Bounds.lean`):
* `Op = Bool × Nat`: `(true, a)` supplies the base type `a` from below (covariant argument),
  `(false, b)` supplies `b` from above (contravariant argument);
* `runRaw` folds `above`/`below` over a list of supplies, `runSupply` folds the corresponding
  `unify` calls (`unify (a) (v)` resp. `unify (v) (b)` with `subtype = true`), `aboveAll`/`belowAll`
  fold `above`/`below` alone; all in the `Except` monad, left to right;
* `FreshI i`: the variable record is unbound and has no bounds;
* `IsGreatest L A lo` / `IsLeast L B up`: `lo`/`up` is the greatest/least element of the list in the
  declared order (`none` for the empty list);
* `Compat L ops`: every covariant argument is a subtype (`Anc`) of every contravariant one.
-/
namespace Tfv.C05
open Tfv Tfv.C05P

/-! The running example lives in `Tfv/Proofs/BoundsExamples.lean` (`namespace Tfv.C05Ex`):
the language `exL` with the chain `C < B < A` (operators 7, 6, 5) and an unrelated `D` (8), the
store `exS` with one fresh variable, and the stores `exS1 … exS4` used below. -/
open Tfv.C05Ex

/-! ## 1. the bound machine on base types -/

/-- **Closed form of `above` on a chain.** On a constraint-free store, for an allocated, unbound
variable `v` without bounds and a non-empty list `as` of base types from one chain, tightening the
lower bound with every element of `as` (in the order given, fuel at least 4) succeeds; afterwards
the lower bound is the greatest element `m` of `as`, the wildcard flag is cleared and nothing else
in the store has changed. -/
theorem C05_above_chain (L : Lang) (wf : WF L) {σ : Store} (nc : NoConstraints σ) (n v : Nat)
    (hv : v < σ.vars.length) (hf : FreshI (getVar σ v)) (as : List Nat) (hne : as ≠ [])
    (ch : ChainOn L (fun x => x ∈ as)) :
    ∃ m, m ∈ as ∧ (∀ a ∈ as, Anc L a m) ∧
      aboveAll L (n+4) σ v as =
        .ok (setVar σ v { getVar σ v with wildcard := false, lower := some m }) :=
  above_chain L wf nc n v hv hf as hne ch

example : ∃ m, m ∈ [6, 7, 5] ∧ (∀ a ∈ [6, 7, 5], Anc exL a m) ∧
    aboveAll exL 4 exS 0 [6, 7, 5] = .ok (setVar exS 0 { getVar exS 0 with wildcard := false, lower := some m }) :=
  C05_above_chain exL exWF exNC 0 0 (by decide) exFresh [6, 7, 5] (by simp) exChain

/-- the same, field by field: lower bound `m`, no upper bound, still unbound, every other variable
and all constraint data unchanged -/
theorem C05_above_chain_fields (L : Lang) (wf : WF L) {σ : Store} (nc : NoConstraints σ) (n v : Nat)
    (hv : v < σ.vars.length) (hf : FreshI (getVar σ v)) (as : List Nat) (hne : as ≠ [])
    (ch : ChainOn L (fun x => x ∈ as)) :
    ∃ m σ', m ∈ as ∧ (∀ a ∈ as, Anc L a m) ∧ aboveAll L (n+4) σ v as = .ok σ' ∧
      (getVar σ' v).lower = some m ∧ (getVar σ' v).upper = none ∧ (getVar σ' v).bound = none ∧
      (∀ w, w ≠ v → getVar σ' w = getVar σ w) ∧ σ'.csets = σ.csets ∧ σ'.constrs = σ.constrs :=
  above_chain_fields L wf nc n v hv hf as hne ch

/-- **Closed form of `below` on a chain**: the upper bound becomes the least element of `bs`. -/
theorem C05_below_chain (L : Lang) (wf : WF L) {σ : Store} (nc : NoConstraints σ) (n v : Nat)
    (hv : v < σ.vars.length) (hf : FreshI (getVar σ v)) (bs : List Nat) (hne : bs ≠ [])
    (ch : ChainOn L (fun x => x ∈ bs)) :
    ∃ m, m ∈ bs ∧ (∀ b ∈ bs, Anc L m b) ∧
      belowAll L (n+4) σ v bs =
        .ok (setVar σ v { getVar σ v with wildcard := false, upper := some m }) :=
  below_chain L wf nc n v hv hf bs hne ch

example : ∃ m, m ∈ [6, 7, 5] ∧ (∀ b ∈ [6, 7, 5], Anc exL m b) ∧
    belowAll exL 4 exS 0 [6, 7, 5] = .ok (setVar exS 0 { getVar exS 0 with wildcard := false, upper := some m }) :=
  C05_below_chain exL exWF exNC 0 0 (by decide) exFresh [6, 7, 5] (by simp) exChain

/-- field by field -/
theorem C05_below_chain_fields (L : Lang) (wf : WF L) {σ : Store} (nc : NoConstraints σ) (n v : Nat)
    (hv : v < σ.vars.length) (hf : FreshI (getVar σ v)) (bs : List Nat) (hne : bs ≠ [])
    (ch : ChainOn L (fun x => x ∈ bs)) :
    ∃ m σ', m ∈ bs ∧ (∀ b ∈ bs, Anc L m b) ∧ belowAll L (n+4) σ v bs = .ok σ' ∧
      (getVar σ' v).upper = some m ∧ (getVar σ' v).lower = none ∧ (getVar σ' v).bound = none ∧
      (∀ w, w ≠ v → getVar σ' w = getVar σ w) ∧ σ'.csets = σ.csets ∧ σ'.constrs = σ.constrs :=
  below_chain_fields L wf nc n v hv hf bs hne ch

/-- **Order independence of `above`**: a permutation of the arguments gives the very same store. -/
theorem C05_above_perm (L : Lang) (wf : WF L) {σ : Store} (nc : NoConstraints σ) (n v : Nat)
    (hv : v < σ.vars.length) (hf : FreshI (getVar σ v)) (as as' : List Nat)
    (ch : ChainOn L (fun x => x ∈ as)) (hp : as.Perm as') :
    aboveAll L (n+4) σ v as' = aboveAll L (n+4) σ v as :=
  above_perm L wf nc n v hv hf as as' ch hp

example : aboveAll exL 4 exS 0 [5, 6, 7] = aboveAll exL 4 exS 0 [6, 7, 5] :=
  C05_above_perm exL exWF exNC 0 0 (by decide) exFresh [6, 7, 5] [5, 6, 7] exChain (by decide)

/-- **Order independence of `below`.** -/
theorem C05_below_perm (L : Lang) (wf : WF L) {σ : Store} (nc : NoConstraints σ) (n v : Nat)
    (hv : v < σ.vars.length) (hf : FreshI (getVar σ v)) (bs bs' : List Nat)
    (ch : ChainOn L (fun x => x ∈ bs)) (hp : bs.Perm bs') :
    belowAll L (n+4) σ v bs' = belowAll L (n+4) σ v bs :=
  below_perm L wf nc n v hv hf bs bs' ch hp

example : belowAll exL 4 exS 0 [5, 6, 7] = belowAll exL 4 exS 0 [6, 7, 5] :=
  C05_below_perm exL exWF exNC 0 0 (by decide) exFresh [6, 7, 5] [5, 6, 7] exChain (by decide)

/-- **Mixed, direct calls, any interleaving**: when every covariant argument is a *proper* subtype
of every contravariant one, the run of `above`/`below` calls succeeds with lower bound the greatest
covariant argument, upper bound the least contravariant one, and the variable still unbound. -/
theorem C05_raw_strict (L : Lang) (wf : WF L) {σ : Store} (nc : NoConstraints σ) (n v : Nat)
    (hv : v < σ.vars.length) (hf : FreshI (getVar σ v)) (ops : List Op)
    (ch : ChainOn L (fun x => ∃ op ∈ ops, op.2 = x)) (hc : StrictCompat L ops) :
    ∃ lo up, IsGreatest L (coArgs ops) lo ∧ IsLeast L (contraArgs ops) up ∧
      runRaw L (n+4) σ v ops =
        .ok (setVar σ v { lower := lo, upper := up,
                          wildcard := (getVar σ v).wildcard && ops.isEmpty, cset := (getVar σ v).cset }) :=
  raw_chain_strict L wf nc n v hv hf ops ch hc

example : ∃ lo up, IsGreatest exL (coArgs exOpsS) lo ∧ IsLeast exL (contraArgs exOpsS) up ∧
    runRaw exL 4 exS 0 exOpsS =
      .ok (setVar exS 0 { lower := lo, upper := up,
                          wildcard := (getVar exS 0).wildcard && exOpsS.isEmpty, cset := (getVar exS 0).cset }) :=
  C05_raw_strict exL exWF exNC 0 0 (by decide) exFresh exOpsS exChainOpsS exStrict

/-- … in particular `above` over `as` followed by `below` over `bs`. `_partial`: *proper* subtypes
are required; when the greatest `a` equals the least `b` the direct calls may hit an internal
assertion depending on the order of `bs` (`C05_raw_order_dependent`). The version without this
restriction holds through `unify`: `C05_supply_chain`; and for direct calls when the bounds meet only
at the last call: `C05_raw_eq_supply_last`. -/
theorem C05_mixed_partial (L : Lang) (wf : WF L) {σ : Store} (nc : NoConstraints σ) (n v : Nat)
    (hv : v < σ.vars.length) (hf : FreshI (getVar σ v)) (as bs : List Nat)
    (ch : ChainOn L (fun x => x ∈ as ++ bs)) (hs : ∀ a ∈ as, ∀ b ∈ bs, Anc L a b ∧ a ≠ b) :
    ∃ lo up, IsGreatest L as lo ∧ IsLeast L bs up ∧
      (match aboveAll L (n+4) σ v as with
       | .error e => (.error e : R)
       | .ok σ1 => belowAll L (n+4) σ1 v bs) =
        .ok (setVar σ v { lower := lo, upper := up,
                          wildcard := (getVar σ v).wildcard && (as.isEmpty && bs.isEmpty),
                          cset := (getVar σ v).cset }) :=
  mixed_strict L wf nc n v hv hf as bs ch hs

example : ∃ lo up, IsGreatest exL [7, 6] lo ∧ IsLeast exL [5] up ∧
    (match aboveAll exL 4 exS 0 [7, 6] with
     | .error e => (.error e : R)
     | .ok σ1 => belowAll exL 4 σ1 0 [5]) =
      .ok (setVar exS 0 { lower := lo, upper := up, wildcard := false, cset := 0 }) :=
  C05_mixed_partial exL exWF exNC 0 0 (by decide) exFresh [7, 6] [5]
    (chainOn_of_chainB exWF (by decide)) exMixedStrict

/-- direct calls, strictly compatible supplies: the order is irrelevant -/
theorem C05_raw_perm_strict (L : Lang) (wf : WF L) {σ : Store} (nc : NoConstraints σ) (n v : Nat)
    (hv : v < σ.vars.length) (hf : FreshI (getVar σ v)) (ops ops' : List Op)
    (ch : ChainOn L (fun x => ∃ op ∈ ops, op.2 = x)) (hc : StrictCompat L ops) (hp : ops.Perm ops') :
    runRaw L (n+4) σ v ops' = runRaw L (n+4) σ v ops :=
  raw_perm_strict L wf nc n v hv hf ops ops' ch hc hp

/-- **Mixed, through `unify`, any interleaving, bounds may meet**: compatible supplies succeed;
the record of `v` afterwards is `resultI`: lower bound the greatest covariant argument, upper bound
the least contravariant one, and bound to the base type when the two coincide
(`C05_result_bound_meet`, `C05_result_bound_apart`). -/
theorem C05_supply_chain (L : Lang) (wf : WF L) {σ : Store} (nc : NoConstraints σ) (n v : Nat)
    (hv : v < σ.vars.length) (hf : FreshI (getVar σ v)) (ops : List Op)
    (ch : ChainOn L (fun x => ∃ op ∈ ops, op.2 = x)) (hc : Compat L ops) :
    ∃ lo up, IsGreatest L (coArgs ops) lo ∧ IsLeast L (contraArgs ops) up ∧
      runSupply L (n+5) σ v ops = .ok (setVar σ v (resultI (getVar σ v) lo up ops.isEmpty)) :=
  supply_chain_ok L wf nc n v hv hf ops ch hc

example : ∃ lo up, IsGreatest exL (coArgs exOps) lo ∧ IsLeast exL (contraArgs exOps) up ∧
    runSupply exL 5 exS 0 exOps = .ok (setVar exS 0 (resultI (getVar exS 0) lo up exOps.isEmpty)) :=
  C05_supply_chain exL exWF exNC 0 0 (by decide) exFresh exOps exChainOps exCompat

theorem C05_result_lower (i : VarInfo) (lo up : Option Nat) (e : Bool) : (resultI i lo up e).lower = lo :=
  resultI_lower i lo up e
theorem C05_result_upper (i : VarInfo) (lo up : Option Nat) (e : Bool) : (resultI i lo up e).upper = up :=
  resultI_upper i lo up e
/-- the bounds meet: the variable is bound to that base type … -/
theorem C05_result_bound_meet (i : VarInfo) (m : Nat) (e : Bool) :
    (resultI i (some m) (some m) e).bound = some (.app m []) := resultI_bound_meet i m e
/-- … and reads as it -/
theorem C05_result_follow_meet {σ : Store} {v m : Nat} (hv : v < σ.vars.length) (i : VarInfo) (e : Bool) :
    followT (setVar σ v (resultI i (some m) (some m) e)) (.var v) = .app m [] :=
  supply_meet_follow hv i e
/-- the bounds do not meet: the variable stays unbound -/
theorem C05_result_bound_apart (i : VarInfo) (lo up : Option Nat) (e : Bool)
    (h : lo = none ∨ up = none ∨ lo ≠ up) : (resultI i lo up e).bound = none :=
  resultI_bound_apart i lo up e h

/-- **Order independence through `unify`**: success, failure and the resulting store are the same
for every order of the supplies (compatible or not). -/
theorem C05_supply_perm (L : Lang) (wf : WF L) {σ : Store} (nc : NoConstraints σ) (n v : Nat)
    (hv : v < σ.vars.length) (hf : FreshI (getVar σ v)) (ops ops' : List Op)
    (ch : ChainOn L (fun x => ∃ op ∈ ops, op.2 = x)) (hp : ops.Perm ops') :
    runSupply L (n+5) σ v ops' = runSupply L (n+5) σ v ops :=
  supply_perm L wf nc n v hv hf ops ops' ch hp

example : runSupply exL 5 exS 0 [(false, 5), (true, 6), (false, 6), (true, 7)] = runSupply exL 5 exS 0 exOps :=
  C05_supply_perm exL exWF exNC 0 0 (by decide) exFresh exOps _ exChainOps (by decide)

/-- **Crossing fails, through `unify`**: if some covariant argument is not a subtype of some
contravariant one, the run is a subtype mismatch — in every order (the hypothesis is order-free). -/
theorem C05_crossing_fails (L : Lang) (wf : WF L) {σ : Store} (nc : NoConstraints σ) (n v : Nat)
    (hv : v < σ.vars.length) (hf : FreshI (getVar σ v)) (ops : List Op)
    (ch : ChainOn L (fun x => ∃ op ∈ ops, op.2 = x)) (hc : ¬ Compat L ops) :
    runSupply L (n+5) σ v ops = .error .subtypeMismatch :=
  supply_chain_fails L wf nc n v hv hf ops ch hc

example : runSupply exL 5 exS 0 exOpsX = .error .subtypeMismatch :=
  C05_crossing_fails exL exWF exNC 0 0 (by decide) exFresh exOpsX exChainOpsX exCrossing

/-- **Crossing fails, direct calls** (`_partial`: the run fails in every order, but the error need
not be the subtype mismatch, see `C05_raw_crossing_internal`). -/
theorem C05_crossing_fails_raw_partial (L : Lang) (wf : WF L) {σ : Store} (nc : NoConstraints σ) (n v : Nat)
    (hv : v < σ.vars.length) (hf : FreshI (getVar σ v)) (ops : List Op)
    (ch : ChainOn L (fun x => ∃ op ∈ ops, op.2 = x)) (hc : ¬ Compat L ops) :
    ∃ e, runRaw L (n+4) σ v ops = .error e :=
  raw_chain_fails L wf nc n v hv hf ops ch hc

example : ∃ e, runRaw exL 4 exS 0 exOpsX = .error e :=
  C05_crossing_fails_raw_partial exL exWF exNC 0 0 (by decide) exFresh exOpsX exChainOpsX exCrossing

/-- direct calls agree with the run through `unify` as long as the variable is not bound before
the last supply (so: bounds may meet, but only at the very end) -/
theorem C05_raw_eq_supply_last (L : Lang) (wf : WF L) {σ : Store} (nc : NoConstraints σ) (n v : Nat)
    (hv : v < σ.vars.length) (hf : FreshI (getVar σ v)) (ops : List Op) (op : Op)
    (ch : ChainOn L (fun x => ∃ o ∈ ops ++ [op], o.2 = x)) (hc : StrictCompat L ops) :
    runRaw L (n+4) σ v (ops ++ [op]) = runSupply L (n+5) σ v (ops ++ [op]) :=
  raw_eq_supply_last L wf nc n v hv hf ops op ch hc

example : runRaw exL 4 exS 0 ([(true, 7), (false, 5)] ++ [(true, 5)]) =
    runSupply exL 5 exS 0 ([(true, 7), (false, 5)] ++ [(true, 5)]) :=
  C05_raw_eq_supply_last exL exWF exNC 0 0 (by decide) exFresh _ _
    (chainOn_ops_of_chainB exWF (by decide)) exStrictPre

/-! ### findings: direct `above`/`below` calls are order dependent once the bounds meet -/

/-- **Counterexample (direct calls, compatible supplies).** `above B; below A; below B` binds the
variable to `B`, but `above B; below B; below A` hits the failed `assert not self.bound` of `below`:
the second call already bound the variable. Through `unify` both orders succeed
(`C05_supply_perm`), because `unify` follows the binding first. -/
theorem C05_raw_order_dependent (n : Nat) :
    runRaw exL (n+4) exS 0 [(true, 6), (false, 5), (false, 6)] =
      .ok (setVar exS 0 { bound := some (.app 6 []), lower := some 6, upper := some 6 }) ∧
    runRaw exL (n+4) exS 0 [(true, 6), (false, 6), (false, 5)] =
      .error (.internal "below:assert not self.bound") ∧
    runSupply exL (n+5) exS 0 [(true, 6), (false, 6), (false, 5)] =
      .ok (setVar exS 0 { bound := some (.app 6 []), lower := some 6, upper := some 6 }) :=
  raw_order_dependent n

/-- **Counterexample (direct calls, crossing supplies).** `above B; below B; below C` (with `C < B`)
fails with the internal assertion, not with the subtype mismatch that `above B; below C; below B`
and every order through `unify` report. -/
theorem C05_raw_crossing_internal (n : Nat) :
    runRaw exL (n+4) exS 0 [(true, 6), (false, 6), (false, 7)] =
      .error (.internal "below:assert not self.bound") ∧
    runRaw exL (n+4) exS 0 [(true, 6), (false, 7), (false, 6)] = .error .subtypeMismatch ∧
    runSupply exL (n+5) exS 0 [(true, 6), (false, 6), (false, 7)] = .error .subtypeMismatch :=
  raw_crossing_internal n

/-! ### `Top` and `Bottom` -/

/-- **`above v Top`** on an unbound variable without upper bound binds it to `Top`, whatever lower
bound it already has (`bind` checks that lower bound and accepts). -/
theorem C05_above_top (L : Lang) (wf : WF L) {σ : Store} (nc : NoConstraints σ) (n v : Nat)
    (hv : v < σ.vars.length) (hb : (getVar σ v).bound = none) (hu : (getVar σ v).upper = none)
    (hl : ∀ l, (getVar σ v).lower = some l → l ≠ TOP ∧ arityOf L l = 0) :
    above L (n+4) σ v TOP =
      .ok (setVar σ v { getVar σ v with wildcard := false, bound := some (.app TOP []) }) :=
  above_top L wf nc n v hv hb hu hl

example : above exL 4 exS1 0 TOP =
    .ok (setVar exS1 0 { getVar exS1 0 with wildcard := false, bound := some (.app TOP []) }) :=
  C05_above_top exL exWF exNC1 0 0 (by decide) rfl rfl exS1_lower

/-- … with an upper bound present (even `Top` itself) it is a subtype mismatch -/
theorem C05_above_top_upper_fails (L : Lang) (wf : WF L) {σ : Store} (nc : NoConstraints σ) (n v u : Nat)
    (hv : v < σ.vars.length) (hb : (getVar σ v).bound = none) (hu : (getVar σ v).upper = some u)
    (hl : ∀ l, (getVar σ v).lower = some l → l ≠ TOP ∧ arityOf L l = 0) :
    above L (n+4) σ v TOP = .error .subtypeMismatch :=
  above_top_upper L wf nc n v u hv hb hu hl

/-- **`below v Bottom`** on an unbound variable without lower bound binds it to `Bottom`. -/
theorem C05_below_bot (L : Lang) (wf : WF L) {σ : Store} (nc : NoConstraints σ) (n v : Nat)
    (hv : v < σ.vars.length) (hb : (getVar σ v).bound = none) (hl : (getVar σ v).lower = none)
    (hu : ∀ u, (getVar σ v).upper = some u → u ≠ BOT ∧ arityOf L u = 0) :
    below L (n+4) σ v BOT =
      .ok (setVar σ v { getVar σ v with wildcard := false, bound := some (.app BOT []) }) :=
  below_bot L wf nc n v hv hb hl hu

example : below exL 4 exS 0 BOT =
    .ok (setVar exS 0 { getVar exS 0 with wildcard := false, bound := some (.app BOT []) }) :=
  C05_below_bot exL exWF exNC 0 0 (by decide) rfl rfl (fun u h => by cases h)

/-- … with a lower bound present it is a subtype mismatch -/
theorem C05_below_bot_lower_fails (L : Lang) (wf : WF L) {σ : Store} (nc : NoConstraints σ) (n v l : Nat)
    (hv : v < σ.vars.length) (hb : (getVar σ v).bound = none) (hl : (getVar σ v).lower = some l)
    (hu : ∀ u, (getVar σ v).upper = some u → arityOf L u = 0) :
    below L (n+4) σ v BOT = .error .subtypeMismatch :=
  below_bot_lower L wf nc n v l hv hb hl hu

example : below exL 4 exS1 0 BOT = .error .subtypeMismatch :=
  C05_below_bot_lower_fails exL exWF exNC1 0 0 6 (by decide) rfl rfl (fun u h => by cases h)

/-- `Bottom` supplied from below is neutral: `unify` returns the store unchanged -/
theorem C05_bot_neutral (L : Lang) (n : Nat) (σ : Store) (t : Term) (st sb sw : Bool) :
    unify L (n+1) σ (.app BOT []) t st sb sw = .ok σ := unify_bot_left L n σ t st sb sw

/-- `Top` supplied from above is neutral -/
theorem C05_top_neutral (L : Lang) (n : Nat) (σ : Store) (t : Term) (st sb sw : Bool) :
    unify L (n+1) σ t (.app TOP []) st sb sw = .ok σ := unify_top_right L n σ t st sb sw

/-- neutral supplies (`Bottom` from below, `Top` from above) can be dropped from any run, so the
closed forms above apply to the remaining supplies -/
theorem C05_drop_neutral (L : Lang) (wf : WF L) {σ : Store} (nc : NoConstraints σ) (n v : Nat)
    (hv : v < σ.vars.length) (hf : FreshI (getVar σ v)) (ops : List Op)
    (h0 : ∀ op ∈ ops, arityOf L op.2 = 0) :
    runSupply L (n+5) σ v ops = runSupply L (n+5) σ v (ops.filter fun op => !neutralB op) :=
  supply_drop_neutral L wf nc n v hv hf ops h0

/-- **`Top` among the covariant arguments** (the others from one chain, `Bottom` allowed): the run
through `unify` succeeds and the variable is bound to `Top` — the least upper bound — whatever the
order. (The leftover `lower` field of the bound record does depend on the order; it is never read
again, `follow` goes through the binding.) -/
theorem C05_co_top (L : Lang) (wf : WF L) {S : Nat → Prop} (ch : ChainOn L S) {σ : Store}
    (nc : NoConstraints σ) (n v : Nat) (hv : v < σ.vars.length) (hf : FreshI (getVar σ v))
    (as : List Nat) (hS : ∀ a ∈ as, S a ∨ a = TOP ∨ a = BOT) (htop : TOP ∈ as) :
    ∃ lo, runSupply L (n+5) σ v (coOps as) =
      .ok (setVar σ v { bound := some (.app TOP []), lower := lo, upper := none, wildcard := false,
                        cset := (getVar σ v).cset }) :=
  supply_co_top L wf ch nc n v hv hf as hS htop

example : ∃ lo, runSupply exL 5 exS 0 (coOps [7, TOP, BOT, 6]) =
    .ok (setVar exS 0 { bound := some (.app TOP []), lower := lo, upper := none, wildcard := false,
                        cset := (getVar exS 0).cset }) :=
  C05_co_top exL exWF exChain exNC 0 0 (by decide) exFresh [7, TOP, BOT, 6] (by decide) (by decide)

/-- **`Bottom` among the contravariant arguments**: the variable is bound to `Bottom`. -/
theorem C05_contra_bot (L : Lang) (wf : WF L) {S : Nat → Prop} (ch : ChainOn L S) {σ : Store}
    (nc : NoConstraints σ) (n v : Nat) (hv : v < σ.vars.length) (hf : FreshI (getVar σ v))
    (bs : List Nat) (hS : ∀ b ∈ bs, S b ∨ b = TOP ∨ b = BOT) (hbot : BOT ∈ bs) :
    ∃ up, runSupply L (n+5) σ v (contraOps bs) =
      .ok (setVar σ v { bound := some (.app BOT []), lower := none, upper := up, wildcard := false,
                        cset := (getVar σ v).cset }) :=
  supply_contra_bot L wf ch nc n v hv hf bs hS hbot

example : ∃ up, runSupply exL 5 exS 0 (contraOps [5, BOT, TOP, 6]) =
    .ok (setVar exS 0 { bound := some (.app BOT []), lower := none, upper := up, wildcard := false,
                        cset := (getVar exS 0).cset }) :=
  C05_contra_bot exL exWF exChain exNC 0 0 (by decide) exFresh [5, BOT, TOP, 6] (by decide) (by decide)

/-! ## 2. monotonicity -/

/-- **Replacing a covariant argument by a subtype from the same chain** never turns success into
failure; the lower bound (hence the base type the variable may end up bound to) can only go down,
the upper bound is unchanged. -/
theorem C05_mono (L : Lang) (wf : WF L) {σ : Store} (nc : NoConstraints σ) (n v : Nat)
    (hv : v < σ.vars.length) (hf : FreshI (getVar σ v)) (pre post : List Op) (a a' : Nat)
    (ch : ChainOn L (fun x => x = a' ∨ ∃ o ∈ pre ++ (true, a) :: post, o.2 = x))
    (haa : Anc L a' a) {σ1 : Store}
    (h : runSupply L (n+5) σ v (pre ++ (true, a) :: post) = .ok σ1) :
    ∃ σ2 l l', runSupply L (n+5) σ v (pre ++ (true, a') :: post) = .ok σ2 ∧
      (getVar σ1 v).lower = some l ∧ (getVar σ2 v).lower = some l' ∧ Anc L l' l ∧
      (getVar σ2 v).upper = (getVar σ1 v).upper :=
  supply_mono L wf nc n v hv hf pre post a a' ch haa h

example : ∃ σ2 l l', runSupply exL 5 exS 0 ([(false, 5)] ++ (true, 7) :: [(true, 6)]) = .ok σ2 ∧
    (getVar (setVar exS 0 (resultI (getVar exS 0) (some 5) (some 5) false)) 0).lower = some l ∧
    (getVar σ2 0).lower = some l' ∧ Anc exL l' l ∧
    (getVar σ2 0).upper = (getVar (setVar exS 0 (resultI (getVar exS 0) (some 5) (some 5) false)) 0).upper :=
  C05_mono exL exWF exNC 0 0 (by decide) exFresh [(false, 5)] [(true, 6)] 5 7 exChainMono
    (anc_of_opSub exWF (by decide) (by decide) (by decide)) exMonoRun

/-- the same for `above` alone -/
theorem C05_above_mono (L : Lang) (wf : WF L) {σ : Store} (nc : NoConstraints σ) (n v : Nat)
    (hv : v < σ.vars.length) (hf : FreshI (getVar σ v)) (pre post : List Nat) (a a' : Nat)
    (ch : ChainOn L (fun x => x ∈ a' :: (pre ++ a :: post))) (haa : Anc L a' a) :
    ∃ m m', aboveAll L (n+4) σ v (pre ++ a :: post) =
        .ok (setVar σ v { getVar σ v with wildcard := false, lower := some m }) ∧
      aboveAll L (n+4) σ v (pre ++ a' :: post) =
        .ok (setVar σ v { getVar σ v with wildcard := false, lower := some m' }) ∧
      Anc L m' m :=
  above_mono L wf nc n v hv hf pre post a a' ch haa

example : ∃ m m', aboveAll exL 4 exS 0 ([6] ++ 5 :: []) =
      .ok (setVar exS 0 { getVar exS 0 with wildcard := false, lower := some m }) ∧
    aboveAll exL 4 exS 0 ([6] ++ 7 :: []) =
      .ok (setVar exS 0 { getVar exS 0 with wildcard := false, lower := some m' }) ∧ Anc exL m' m :=
  C05_above_mono exL exWF exNC 0 0 (by decide) exFresh [6] [] 5 7
    (chainOn_of_chainB exWF (by decide)) (anc_of_opSub exWF (by decide) (by decide) (by decide))

/-! ## 3. lift to `unify` and `applyT` -/

/-- the occurs check is false for a base type against an unbound variable -/
theorem C05_occurs_false (L : Lang) (σ : Store) (k a v : Nat) (h0 : arityOf L a = 0)
    (hb : (getVar σ v).bound = none) : occurs L σ k (.app a []) (.var v) = false :=
  occurs_nullary_var L σ k a v h0 hb

/-- **a covariant base-type argument meeting an unbound variable is `above`** -/
theorem C05_unify_above (L : Lang) (σ : Store) (n a v : Nat) (h0 : arityOf L a = 0)
    (hb : (getVar σ v).bound = none) (hne : a ≠ BOT) :
    unify L (n+1) σ (.app a []) (.var v) true false false = above L n σ v a :=
  unify_base_var L σ n a v h0 hb hne

/-- **a contravariant one is `below`** -/
theorem C05_unify_below (L : Lang) (σ : Store) (n b v : Nat) (h0 : arityOf L b = 0)
    (hb : (getVar σ v).bound = none) (hne : b ≠ TOP) :
    unify L (n+1) σ (.var v) (.app b []) true false false = below L n σ v b :=
  unify_var_base L σ n b v h0 hb hne

/-- against a variable already bound to a base type `m`, the argument is only checked -/
theorem C05_unify_bound (L : Lang) (σ : Store) (n a v m : Nat) (ms : List Term) (h0 : arityOf L a = 0)
    (hb : (getVar σ v).bound = some (.app m ms)) :
    unify L (n+1) σ (.app a []) (.var v) true false false =
      if a == BOT || m == TOP then .ok σ
      else if !opSub L a m then .error .subtypeMismatch else .ok σ :=
  unify_base_bound L σ n a v m ms h0 hb

/-- **`x ** x ** … ** (function type)` applied to base-type arguments** supplies each of them to `x`
in covariant position (so the run goes through `above` once per argument while `x` is unbound) and
returns the remaining function type un-fixed. No hypothesis on the arguments is needed. -/
theorem C05_apply_chain (L : Lang) (n v : Nat) (rs : List Term) (as : List Nat) (σ : Store) :
    applyArgs L n σ (funN v as.length (.app FUN rs)) as =
      match runSupply L n σ v (coOps as) with
      | .error e => .error e
      | .ok σ' => .ok (σ', .app FUN rs) :=
  applyArgs_chain L n v rs as σ

/-- **End to end**: `(x ** x ** … ** x).apply(a₁)…apply(aₖ)` with the `aᵢ` on one chain succeeds and
returns their least upper bound (the greatest `aᵢ`), with `x` bound to it — whatever the order. -/
theorem C05_apply_identity_chain (L : Lang) (wf : WF L) {σ : Store} (nc : NoConstraints σ) (n v : Nat)
    (hv : v < σ.vars.length) (hf : FreshI (getVar σ v)) (as : List Nat) (hne : as ≠ [])
    (ch : ChainOn L (fun x => x ∈ as)) :
    ∃ m, m ∈ as ∧ (∀ a ∈ as, Anc L a m) ∧
      applyArgs L (n+5) σ (funN v as.length (.var v)) as =
        .ok (setVar σ v { getVar σ v with wildcard := false, lower := some m, bound := some (.app m []) },
             .app m []) :=
  apply_identity_chain L wf nc n v hv hf as hne ch

example : ∃ m, m ∈ [6, 7, 5] ∧ (∀ a ∈ [6, 7, 5], Anc exL a m) ∧
    applyArgs exL 5 exS (funN 0 3 (.var 0)) [6, 7, 5] =
      .ok (setVar exS 0 { getVar exS 0 with wildcard := false, lower := some m, bound := some (.app m []) },
           .app m []) :=
  C05_apply_identity_chain exL exWF exNC 0 0 (by decide) exFresh [6, 7, 5] (by simp) exChain

/-- **End to end, monotone**: replacing one argument by a subtype from the same chain keeps success
and the returned concrete type is a subtype of the old one (never more general). -/
theorem C05_apply_mono (L : Lang) (wf : WF L) {σ : Store} (nc : NoConstraints σ) (n v : Nat)
    (hv : v < σ.vars.length) (hf : FreshI (getVar σ v)) (pre post : List Nat) (a a' : Nat)
    (ch : ChainOn L (fun x => x ∈ a' :: (pre ++ a :: post))) (haa : Anc L a' a) :
    ∃ σ1 σ2 m m',
      applyArgs L (n+5) σ (funN v (pre ++ a :: post).length (.var v)) (pre ++ a :: post) = .ok (σ1, .app m []) ∧
      applyArgs L (n+5) σ (funN v (pre ++ a' :: post).length (.var v)) (pre ++ a' :: post) = .ok (σ2, .app m' []) ∧
      Anc L m' m :=
  apply_identity_mono L wf nc n v hv hf pre post a a' ch haa

example : ∃ σ1 σ2 m m',
    applyArgs exL 5 exS (funN 0 ([6] ++ 5 :: []).length (.var 0)) ([6] ++ 5 :: []) = .ok (σ1, .app m []) ∧
    applyArgs exL 5 exS (funN 0 ([6] ++ 7 :: []).length (.var 0)) ([6] ++ 7 :: []) = .ok (σ2, .app m' []) ∧
    Anc exL m' m :=
  C05_apply_mono exL exWF exNC 0 0 (by decide) exFresh [6] [] 5 7
    (chainOn_of_chainB exWF (by decide)) (anc_of_opSub exWF (by decide) (by decide) (by decide))

/-! ## 4. `fix` yields the least instantiation within the bounds

`Occ L t pl x q`: entering `t` with preference flag `pl` (`true` = prefer the lower bound), `fix`
meets the variable `x` at a position with effective flag `q` (the flag flips in contravariant
positions). "Single polarity" is: no variable carrying a bound is met with both flags.
`FixExt σ σ' W`: `σ'` is `σ` with some unbound variables `w` (met at flag `q`, `W w q`) bound to
their lower (`q = true`) resp. upper bound; nothing else differs. -/

/-- **What `fix` does to the store**: it binds some of the unbound variables it meets to the bound
selected by the flag of the position (lower bound in covariant, upper bound in contravariant
positions for `prefer_lower`), and changes nothing else. -/
theorem C05_fix_store (L : Lang) {σ σ' : Store} {t t' : Term} {n : Nat} {pl : Bool}
    (nc : NoConstraints σ) (hfix : fix L n σ t pl = .ok (σ', t'))
    (unb : ∀ x q, Occ L t pl x q → (getVar σ x).bound = none) : FixExt σ σ' (Occ L t pl) :=
  fix_store L nc hfix unb

/-- the term returned by `fix` is the input read through the new store -/
theorem C05_fix_term (L : Lang) (n : Nat) (σ : Store) (t : Term) (pl : Bool) (σ' : Store) (t' : Term)
    (unb : ∀ v, t = .var v → (getVar σ v).bound = none)
    (h : fix L n σ t pl = .ok (σ', t')) : t' = followT σ' t :=
  fix_term L n σ t pl σ' t' unb h

/-- **Leastness of `fix`** (`_partial`, because of the side condition `indep`, which the informal
statement lacks and which cannot be dropped, see `C05_fix_needs_indep`).
On a constraint-free store whose bounds are base types of `L`, let `t` be a well-formed term whose
variables are unbound and such that no variable carrying a bound is met with both polarities. If
`fix t` (prefer lower) succeeds with store `σ'` and term `t'`, then every solution `ρ` of `σ` is
dominated by a solution `ρ'` of `σ'`: `ρ'` agrees with `ρ` on every variable whose binding did not
change, `den ρ' t` is a subtype of `den ρ t`, and `t'` denotes the same type as `t` under `ρ'`.
`indep`: the variables mentioned in pre-existing bindings are not among those bound by this `fix`. -/
theorem C05_fix_least_partial (L : Lang) {σ σ' : Store} {t t' : Term} {n : Nat}
    (nc : NoConstraints σ) (hfix : fix L n σ t true = .ok (σ', t'))
    (unb : ∀ x q, Occ L t true x q → (getVar σ x).bound = none)
    (ρ : Val) (sat : Sat L ρ σ)
    (okb : ∀ w, okBound L (getVar σ w).lower ∧ okBound L (getVar σ w).upper)
    (indep : ∀ w s x, (getVar σ w).bound = some s → HasVar s x →
      (getVar σ' x).bound = (getVar σ x).bound)
    (sp : ∀ x, Occ L t true x true → Occ L t true x false →
      (getVar σ x).lower = none ∧ (getVar σ x).upper = none)
    (okt : okTerm L σ t = true) :
    ∃ ρ', Sat L ρ' σ' ∧
      (∀ w, (getVar σ' w).bound = (getVar σ w).bound → ρ' w = ρ w) ∧
      Sub L (den ρ' t) (den ρ t) ∧ den ρ' t' = den ρ' t :=
  fix_least_lower L nc hfix unb ρ sat okb indep sp okt

/-- the same with a side condition on `σ` alone: variables mentioned in bindings carry no bounds -/
theorem C05_fix_least_static_partial (L : Lang) {σ σ' : Store} {t t' : Term} {n : Nat}
    (nc : NoConstraints σ) (hfix : fix L n σ t true = .ok (σ', t'))
    (unb : ∀ x q, Occ L t true x q → (getVar σ x).bound = none)
    (ρ : Val) (sat : Sat L ρ σ)
    (okb : ∀ w, okBound L (getVar σ w).lower ∧ okBound L (getVar σ w).upper)
    (indep : ∀ w s x, (getVar σ w).bound = some s → HasVar s x →
      (getVar σ x).lower = none ∧ (getVar σ x).upper = none)
    (sp : ∀ x, Occ L t true x true → Occ L t true x false →
      (getVar σ x).lower = none ∧ (getVar σ x).upper = none)
    (okt : okTerm L σ t = true) :
    ∃ ρ', Sat L ρ' σ' ∧
      (∀ w, (getVar σ' w).bound = (getVar σ w).bound → ρ' w = ρ w) ∧
      Sub L (den ρ' t) (den ρ t) ∧ den ρ' t' = den ρ' t :=
  fix_least_lower_static L nc hfix unb ρ sat okb indep sp okt

/-- both polarities, general flag: `SubDir L pl new old` is `Sub new old` for `pl = true` and
`Sub old new` for `pl = false` (`fix(prefer_lower = False)` yields the greatest instantiation) -/
theorem C05_fix_extremal_partial (L : Lang) {σ σ' : Store} {t t' : Term} {n : Nat} (pl : Bool)
    (nc : NoConstraints σ) (hfix : fix L n σ t pl = .ok (σ', t'))
    (unb : ∀ x q, Occ L t pl x q → (getVar σ x).bound = none)
    (ρ : Val) (sat : Sat L ρ σ)
    (okb : ∀ w, okBound L (getVar σ w).lower ∧ okBound L (getVar σ w).upper)
    (indep : ∀ w s x, (getVar σ w).bound = some s → HasVar s x →
      (getVar σ' x).bound = (getVar σ x).bound)
    (sp : ∀ x, Occ L t pl x true → Occ L t pl x false →
      (getVar σ x).lower = none ∧ (getVar σ x).upper = none)
    (okt : okTerm L σ t = true) :
    ∃ ρ', Sat L ρ' σ' ∧
      (∀ w, (getVar σ' w).bound = (getVar σ w).bound → ρ' w = ρ w) ∧
      SubDir L pl (den ρ' t) (den ρ t) :=
  fix_least L pl nc hfix unb ρ sat okb indep sp okt

/-- **Leastness of `fix` on acyclic stores** (the faithful full form). On a constraint-free store
whose bounds are base types of `L`, whose bindings are well-formed and acyclic (`rank` decreases
from a bound variable to the variables of its binding — what the occurs check maintains), let `t`
be a well-formed term whose variables are unbound and such that no variable carrying a bound is met
with both polarities. If `fix t` (prefer lower) succeeds with store `σ'` and term `t'`, then every
solution `ρ` of `σ` is dominated by a solution `ρ'` of `σ'` that agrees with `ρ` on every variable
still unbound: `den ρ' t` is a subtype of `den ρ t`, and `t'` denotes the same type as `t`. -/
theorem C05_fix_least (L : Lang) {σ σ' : Store} {t t' : Term} {n : Nat}
    (nc : NoConstraints σ) (hfix : fix L n σ t true = .ok (σ', t'))
    (unb : ∀ x q, Occ L t true x q → (getVar σ x).bound = none)
    (ρ : Val) (sat : Sat L ρ σ)
    (okb : ∀ w, okBound L (getVar σ w).lower ∧ okBound L (getVar σ w).upper)
    (okbind : ∀ w s, (getVar σ w).bound = some s → okTerm L σ s = true)
    (rank : Nat → Nat)
    (acyc : ∀ w s x, (getVar σ w).bound = some s → HasVar s x → rank x < rank w)
    (sp : ∀ x, Occ L t true x true → Occ L t true x false →
      (getVar σ x).lower = none ∧ (getVar σ x).upper = none)
    (okt : okTerm L σ t = true) :
    ∃ ρ', Sat L ρ' σ' ∧
      (∀ w, (getVar σ' w).bound = none → ρ' w = ρ w) ∧
      Sub L (den ρ' t) (den ρ t) ∧ den ρ' t' = den ρ' t :=
  fix_least_acyclic_lower L nc hfix unb ρ sat okb okbind rank acyc sp okt

/-- general flag: `fix(prefer_lower = False)` yields the greatest instantiation -/
theorem C05_fix_extremal (L : Lang) {σ σ' : Store} {t t' : Term} {n : Nat} (pl : Bool)
    (nc : NoConstraints σ) (hfix : fix L n σ t pl = .ok (σ', t'))
    (unb : ∀ x q, Occ L t pl x q → (getVar σ x).bound = none)
    (ρ : Val) (sat : Sat L ρ σ)
    (okb : ∀ w, okBound L (getVar σ w).lower ∧ okBound L (getVar σ w).upper)
    (okbind : ∀ w s, (getVar σ w).bound = some s → okTerm L σ s = true)
    (rank : Nat → Nat)
    (acyc : ∀ w s x, (getVar σ w).bound = some s → HasVar s x → rank x < rank w)
    (sp : ∀ x, Occ L t pl x true → Occ L t pl x false →
      (getVar σ x).lower = none ∧ (getVar σ x).upper = none)
    (okt : okTerm L σ t = true) :
    ∃ ρ', Sat L ρ' σ' ∧
      (∀ w, (getVar σ' w).bound = none → ρ' w = ρ w) ∧
      SubDir L pl (den ρ' t) (den ρ t) :=
  fix_least_acyclic L pl nc hfix unb ρ sat okb okbind rank acyc sp okt

/-! ### examples
`exS2`: `x₀ ≤ A`, `C ≤ x₁`; `fix (x₀ ** x₁)` binds `x₀ := A` (contravariant: upper bound) and
`x₁ := C` (covariant: lower bound) — `exFix2`; `exRho` sends both to `B`.
`exS3`: `B ≤ x₀`, `x₁` bound to `x₀ ** Unit`; `fix x₀` binds `x₀ := B` — `exFix3`. -/

example : ∃ ρ', Sat exL ρ' exS2' ∧
    (∀ w, (getVar exS2' w).bound = (getVar exS2 w).bound → ρ' w = exRho w) ∧
    Sub exL (den ρ' (.app FUN [.var 0, .var 1])) (den exRho (.app FUN [.var 0, .var 1])) ∧
    den ρ' (.app FUN [.var 0, .var 1]) = den ρ' (.app FUN [.var 0, .var 1]) :=
  C05_fix_least_static_partial exL exNC2 exFix2 exUnb2 exRho exSat2 exOkb2
    (fun w s _ hs _ => (exNoBind2 w s hs).elim) exSp2 (by decide)

example : ∃ ρ', Sat exL ρ' exS3' ∧ (∀ w, (getVar exS3' w).bound = none → ρ' w = exRho3 w) ∧
    Sub exL (den ρ' (.var 0)) (den exRho3 (.var 0)) ∧ den ρ' (.app 6 []) = den ρ' (.var 0) :=
  C05_fix_least exL (noConstraints_of_all (by decide)) exFix3 exUnb3 exRho3 exSat3 exOkb3 exOkbind3
    id exAcyc3 exSp3 (by decide)

/-! ### findings: the side conditions are needed -/

/-- **Counterexample: `indep` cannot be dropped from `C05_fix_least_partial`**, i.e. the clause
"`ρ'` agrees with `ρ` on every variable that `fix` did not bind" is too strong in general.
In `exS3` variable 1 is bound to `x₀ ** Unit` and `x₀` has lower bound `B`; `exRho3` sends `x₀` to `A`.
`fix x₀` binds `x₀ := B` (`exFix3`), and no solution of the new store agrees with `exRho3` on
variable 1, which `fix` did not bind. (`C05_fix_least` still applies to this store.) -/
theorem C05_fix_needs_indep :
    fix exL 4 exS3 (.var 0) true = .ok (exS3', .app 6 []) ∧ Sat exL exRho3 exS3 ∧
    ¬ ∃ ρ', Sat exL ρ' exS3' ∧
      (∀ w, (getVar exS3' w).bound = (getVar exS3 w).bound → ρ' w = exRho3 w) :=
  ⟨exFix3, exSat3, exNo3⟩

/-- **Counterexample: single polarity cannot be dropped.** In `exS4`, `x₀` has lower bound `B` and
occurs on both sides of `x₀ ** x₀`; `exRho4` sends it to `A`. `fix` binds `x₀ := B` (`exFix4`), and
`B ** B` is not a subtype of `A ** A`. -/
theorem C05_fix_needs_single_polarity :
    fix exL 7 exS4 (.app FUN [.var 0, .var 0]) true = .ok (exS4', .app FUN [.var 0, .var 0]) ∧
    Sat exL exRho4 exS4 ∧
    ¬ ∃ ρ', Sat exL ρ' exS4' ∧
      Sub exL (den ρ' (.app FUN [.var 0, .var 0])) (den exRho4 (.app FUN [.var 0, .var 0])) :=
  ⟨exFix4, exSat4, exNo4⟩

end Tfv.C05
