import Tfv.Model
import Tfv.Spec.Sub
import Tfv.Spec.Fits
import Tfv.Spec.Sat
import Tfv.Proofs.SubOrder
import Tfv.Proofs.Fits
import Tfv.Proofs.FitsGen1
import Tfv.Proofs.FitsGen2
import Tfv.Proofs.FitsGen3
import Tfv.Proofs.FitsGen4
import Tfv.Proofs.FitsGen5
/-!
# C06 beyond linear alternatives

`Tfv/Props/C06.lean` treats signatures `a ** r(b) [a << alts]` whose alternatives are linear patterns.
Here the alternatives may be nested (`F(G(b, _))`), mention several signature variables (`G(b, c)`) and
repeat a variable (`G(b, b)`, `b ** b`).

**What "fits" means.** `Fits L x p` (Spec/Fits.lean): ONE instantiation `θ` of the variables with `x ≤ p[θ]`;
both occurrences of a repeated variable get the same type. `fitsB` -- the relation the matcher decides --
looks at each occurrence on its own. `reqs L true x p` lists what `x` demands of each variable occurrence
(`(v, true, t)`: `t ≤ θ v`; `(v, false, t)`: `θ v ≤ t`), `fitsX` is `fitsB` plus "every lower demand on a variable
is below every upper demand on it".

**The class for which the matcher is exact** (decidable, `Term.pvars` lists the occurrences with their polarity):
`unipolar L p`: no variable occurs both co- and contravariantly. It contains the linear patterns.

**Results.**
1. The declared subtype order has the interpolation property; hence `fitsX` decides `Fits` for EVERY well-formed
   pattern. For unipolar patterns `fitsB` itself is exact (a variable repeated in one polarity can be instantiated
   by `Top` / `Bottom`).
2. The filter of `fulfill` (concrete reference) never eliminates an alternative that fits, for any pattern;
   for unipolar alternatives it keeps exactly the fitting ones: violation iff no alternative fits. In general it
   keeps a non-fitting alternative exactly when the demands on some variable are incompatible (`fitsB` but not `fitsX`).
3. FINDING: for a variable that occurs in both polarities (`b ** b`) the matcher answers "not enough
   information" where the argument cannot fit, and the non-fitting alternative survives. Consequences, all
   replayed as whole runs: an application is accepted although no alternative fits (two such survivors); a
   unique fitting alternative does not determine its variables (a non-fitting survivor keeps the constraint
   pending); a sole non-fitting survivor is rejected by `unify` with `subtypeMismatch`, not by the constraint.
4. FINDING (the other direction): `G(A, C)` fits `G(b, b)` with `b := Top` and is kept, but `unify` has no joins
   and rejects it (`subtypeMismatch`).
5. Uniqueness clause (`fulfill` level): exactly one surviving alternative ⇒ the constraint is fulfilled and every
   solution of the resulting store instantiates that alternative above the argument; the result type denotes its instance.
6. Between clause (`fulfill` level, concrete alternatives): the reference variable ends between the
   argument's type and the single surviving alternative; whole run for `a ** a [a << {A, C}]` applied to `B`.
Statements only; proofs in `Tfv/Proofs/FitsGen1..5.lean`.
-/
namespace Tfv.C06
open Tfv Tfv.C03C

/-! ## 1. the meaning of "fits" for patterns with repeated variables -/

/-- `x ≤ p[θ]` (in the executable form `matchC`) holds iff `x` passes `fitsB` against `p` and `θ` meets every
demand in `reqs L pol x p`: the occurrence-wise test plus ONE instantiation for all occurrences -/
theorem C06g_match_iff_reqs (L : Lang) (θ : Nat → Ty) (pol : Bool) (x : Ty) (p : Term) :
    matchC L true pol x (p.inst θ) = true ↔
      fitsB L pol x p = true ∧ ∀ r ∈ reqs L pol x p, Req.holds L θ r :=
  ⟨fun h => ⟨fits_of_match L θ pol x p h, reqs_of_match L θ pol x p h⟩,
   fun h => match_of_reqs L θ pol x p h.1 h.2⟩

/-- a real fit passes the exact test `fitsX` -- for every well-formed pattern, no condition on its variables -/
theorem C06g_fitsX_of_fits (L : Lang) (wf : WF L) (x : Ty) (p : Term)
    (hx : wfTy L x = true) (hp : wfTm L p = true) (h : Fits L x p) : fitsX L x p = true :=
  fitsX_of_fits wf x p hx hp h

/-- **interpolation**: if finitely many well-formed types `ls` all lie below finitely many well-formed types `us`,
some well-formed type lies between them -/
theorem C06g_interpolation (L : Lang) (wf : WF L) (ls us : List Ty) (hl : ∀ l ∈ ls, wfTy L l = true)
    (hu : ∀ u ∈ us, wfTy L u = true) (h : ∀ l ∈ ls, ∀ u ∈ us, Sub L l u) :
    ∃ θ, wfTy L θ = true ∧ (∀ l ∈ ls, Sub L l θ) ∧ ∀ u ∈ us, Sub L θ u := interp wf ls us hl hu h

/-- **`fitsX` decides `Fits`** for every well-formed pattern, however often and in whichever polarity a variable is
repeated: `F(G(b, _))`, `G(b, c)`, `G(b, b)`, `b ** b`, `b ** b ** G(b, b)`, … -/
theorem C06g_fitsX_iff_fits (L : Lang) (wf : WF L) (x : Ty) (p : Term)
    (hx : wfTy L x = true) (hp : wfTm L p = true) :
    fitsX L x p = true ↔ Fits L x p := fitsX_iff_fits_all wf x p hx hp

/-- for unipolar patterns (`F(G(b, _))`, `G(b, c)`, `G(b, b)`, `b ** c`) already `fitsB`, the matcher's relation, decides `Fits` -/
theorem C06g_fitsB_iff_fits_unipolar (L : Lang) (wf : WF L) (x : Ty) (p : Term)
    (hx : wfTy L x = true) (hp : wfTm L p = true) (hu : unipolar L p = true) :
    fitsB L true x p = true ↔ Fits L x p := fitsB_iff_fits_unipolar wf x p hx hp hu

/-- the linear patterns of `Props/C06.lean` are unipolar -/
theorem C06g_unipolar_of_linear (L : Lang) (p : Term) (h : linear p) : unipolar L p = true :=
  unipolar_of_linear h

/-! ## 2. the filter of `fulfill` on a concrete reference -/

/-- an alternative that fits is never eliminated (any well-formed pattern with free variables) -/
theorem C06g_kept_of_fits (L : Lang) (wf : WF L) (σ : Store) (n : Nat) (x : Ty) (p : Term)
    (hx : wfTy L x = true) (hp : wfTm L p = true) (hf : PatFree σ p) (hn : Ty.depth x < n)
    (h : Fits L x p) : match3 L σ n true true x.toTerm p ≠ some false :=
  kept_of_fits wf σ n x p hx hp hf hn h

/-- **violation ⇒ no fit** for arbitrary alternatives: when the filter leaves nothing (the model raises
`constraintViolation`), the argument fits no alternative -/
theorem C06g_violation_no_fit (L : Lang) (wf : WF L) (σ : Store) (n : Nat) (x : Ty) (alts : List Term)
    (hx : wfTy L x = true) (hp : ∀ t ∈ alts, wfTm L t = true)
    (hf : ∀ t ∈ alts, PatFree σ t) (hn : Ty.depth x < n)
    (h : alts.filter (fun t => match3 L σ n true true x.toTerm t != some false) = []) :
    ∀ t ∈ alts, ¬ Fits L x t := violation_no_fit wf σ n x alts hx hp hf hn h

/-- **acceptance iff fit** for unipolar alternatives (nested, several variables, repeated variables of one
polarity): the filter leaves nothing iff the argument fits no alternative -/
theorem C06g_violation_iff_no_fit (L : Lang) (wf : WF L) (σ : Store) (n : Nat) (x : Ty) (alts : List Term)
    (hx : wfTy L x = true) (hp : ∀ t ∈ alts, wfTm L t = true) (hu : ∀ t ∈ alts, unipolar L t = true)
    (hf : ∀ t ∈ alts, PatFree σ t) (hn : Ty.depth x < n) :
    alts.filter (fun t => match3 L σ n true true x.toTerm t != some false) = [] ↔
      ∀ t ∈ alts, ¬ Fits L x t := violation_iff_no_fit_unipolar wf σ n x alts hx hp hu hf hn

/-- … and the alternatives it keeps are exactly those that fit -/
theorem C06g_kept_iff_fits (L : Lang) (wf : WF L) (σ : Store) (n : Nat) (x : Ty) (alts : List Term)
    (hx : wfTy L x = true) (hp : ∀ t ∈ alts, wfTm L t = true) (hu : ∀ t ∈ alts, unipolar L t = true)
    (hf : ∀ t ∈ alts, PatFree σ t) (hn : Ty.depth x < n) (t : Term) :
    t ∈ alts.filter (fun t => match3 L σ n true true x.toTerm t != some false) ↔ t ∈ alts ∧ Fits L x t :=
  kept_iff_fits_unipolar wf σ n x alts hx hp hu hf hn t

/-- PARTIAL (arbitrary well-formed alternatives, variables may occur in both polarities): the filter keeps the fitting
alternatives and, in addition, exactly those that pass `fitsB` but fail `fitsX` (the full statement "kept iff fits"
is false: `C06g_nonlinear_survives`) -/
theorem C06g_kept_partial (L : Lang) (wf : WF L) (σ : Store) (n : Nat) (x : Ty) (alts : List Term)
    (hx : wfTy L x = true) (hp : ∀ t ∈ alts, wfTm L t = true)
    (hf : ∀ t ∈ alts, PatFree σ t) (hn : Ty.depth x < n) (t : Term) :
    t ∈ alts.filter (fun t => match3 L σ n true true x.toTerm t != some false) ↔
      t ∈ alts ∧ (Fits L x t ∨ (fitsB L true x t = true ∧ fitsX L x t = false)) :=
  kept_all wf σ n x alts hx hp hf hn t

/-- exactly where the matcher is incomplete: an alternative is kept without fitting iff it passes the
occurrence-wise test while the demands of the argument on some variable are incompatible -/
theorem C06g_kept_not_fitting_iff (L : Lang) (wf : WF L) (σ : Store) (n : Nat) (x : Ty) (p : Term)
    (hx : wfTy L x = true) (hp : wfTm L p = true) (hf : PatFree σ p) (hn : Ty.depth x < n) :
    (match3 L σ n true true x.toTerm p ≠ some false ∧ ¬ Fits L x p) ↔
      (fitsB L true x p = true ∧ compat L (reqs L true x p) = false) :=
  kept_exact_iff wf σ n x p hx hp hf hn

open FitsEx FitsRun

/-- FINDING, filter level: `A ** C` does not fit `b ** b` (it would need `C ≤ b ≤ A`), the pattern is
well formed with free variables, yet the matcher answers `none` and the filter keeps the alternative -/
theorem C06g_nonlinear_survives :
    ¬ Fits exL tAC (fn (.var 1) (.var 1)) ∧ wfTm exL (fn (.var 1) (.var 1)) = true ∧
    match3 exL {vars := [{}, {}, {}]} 76 true true tAC.toTerm (fn (.var 1) (.var 1)) = none ∧
    [fn (.var 1) (.var 1)].filter
      (fun t => match3 exL {vars := [{}, {}, {}]} 76 true true tAC.toTerm t != some false) = [fn (.var 1) (.var 1)] :=
  ⟨not_fits_bb, by decide, match3_none_bb.1, by rw [List.filter_cons, match3_none_bb.1]; rfl⟩

/-! ## 3. what `fulfill` does with a single survivor: uniqueness and between clauses -/

/-- **Uniqueness clause.** Constraint `c` is an unfulfilled elimination constraint whose reference is (after
`minimize`) the concrete type `x`; the variables of its alternatives are free; exactly one alternative `only`
passes the matcher's test. If `fulfill` succeeds, the constraint is fulfilled, and every solution `ρ` of the
resulting store is a solution of the old one that instantiates `only` above `x`; every term `r` (the result type
`r(b)` of the signature) denotes the instance `r[ρ]`. No linearity: `only` may repeat variables in any polarity. -/
theorem C06g_unique_alternative (L : Lang) (wf : WF L) (n : Nat) (σ σ1 σ' : Store) (c : Nat) (d ful : Bool)
    (r0 only : Term) (a0 alts : List Term) (x : Ty)
    (okc : OkStoreC L σ) (hc : c < σ.constrs.length)
    (h0 : getConstr σ c = .elim r0 a0 false)
    (hm : minimize L n σ c = .ok σ1)
    (h1 : getConstr σ1 c = .elim x.toTerm alts ful)
    (hpf : ∀ t ∈ alts, PatFree σ1 t) (hd : Ty.depth x < 64)
    (hu : alts.filter (fun t => fitsB L true x t) = [only])
    (h : fulfill L (n+1) σ c = .ok (σ', d)) :
    d = true ∧ ∀ ρ, Sat L ρ σ' →
      Sat L ρ σ ∧ Sub L x (only.inst ρ) ∧ ∀ r : Term, den ρ r = r.inst ρ :=
  fulfill_single_fits wf okc hc h0 hm h1 hpf hd hu h

/-- … so a single survivor of a successful `fulfill` whose store has a solution really fits, even if the filter
alone would have let a non-fitting alternative through -/
theorem C06g_unique_alternative_fits (L : Lang) (wf : WF L) (n : Nat) (σ σ1 σ' : Store) (c : Nat) (d ful : Bool)
    (r0 only : Term) (a0 alts : List Term) (x : Ty)
    (okc : OkStoreC L σ) (hc : c < σ.constrs.length)
    (h0 : getConstr σ c = .elim r0 a0 false)
    (hm : minimize L n σ c = .ok σ1)
    (h1 : getConstr σ1 c = .elim x.toTerm alts ful)
    (hpf : ∀ t ∈ alts, PatFree σ1 t) (hd : Ty.depth x < 64)
    (hu : alts.filter (fun t => fitsB L true x t) = [only])
    (h : fulfill L (n+1) σ c = .ok (σ', d)) (ρ : Val) (hρ : Sat L ρ σ') : Fits L x only :=
  fulfill_single_sound wf okc hc h0 hm h1 hpf hd hu h ρ hρ

/-- … and when that single survivor is a concrete type `t`, the argument is a declared subtype of it -/
theorem C06g_unique_alternative_concrete (L : Lang) (wf : WF L) (n : Nat) (σ σ1 σ' : Store) (c : Nat) (d ful : Bool)
    (r0 : Term) (a0 alts : List Term) (x t : Ty)
    (okc : OkStoreC L σ) (hc : c < σ.constrs.length)
    (h0 : getConstr σ c = .elim r0 a0 false)
    (hm : minimize L n σ c = .ok σ1)
    (h1 : getConstr σ1 c = .elim x.toTerm alts ful)
    (hpf : ∀ p ∈ alts, PatFree σ1 p) (hd : Ty.depth x < 64)
    (hu : alts.filter (fun p => fitsB L true x p) = [t.toTerm])
    (h : fulfill L (n+1) σ c = .ok (σ', d)) (ρ : Val) (hρ : Sat L ρ σ') : Sub L x t :=
  fulfill_single_concrete wf okc hc h0 hm h1 hpf hd hu h ρ hρ

/-- for base-type alternatives and a reference variable that carries the lower bound `l` (the argument was the base
type `l`), the filter keeps exactly the alternatives that are `Top` or declared supertypes of `l` -/
theorem C06g_filter_bounded_base (L : Lang) (σ : Store) (n : Nat) (a l : Nat) (hn : 0 < n)
    (hb : (getVar σ a).bound = none) (hl : (getVar σ a).lower = some l) (hu : (getVar σ a).upper = none)
    (bos : List Nat) (h0 : ∀ bo ∈ bos, arityOf L bo = 0) :
    (bos.map fun bo => Term.app bo []).filter (fun t => match3 L σ n true true (.var a) t != some false) =
      (bos.filter fun bo => bo == TOP || opSub L l bo).map fun bo => Term.app bo [] :=
  filter_bounded_base L σ n a l hn hb hl hu bos h0

/-- **Between clause.** The reference of constraint `c` is (after `minimize`) the variable `a`, which has the
lower bound `l`; the filter keeps exactly one alternative and it is the concrete type `only`. If `fulfill` succeeds,
the constraint is fulfilled and under every solution of the resulting store `l ≤ a ≤ only`. -/
theorem C06g_between (L : Lang) (wf : WF L) (n : Nat) (σ σ1 σ' : Store) (c a l : Nat) (d ful : Bool)
    (r0 : Term) (only : Ty) (a0 alts : List Term)
    (okc : OkStoreC L σ) (hc : c < σ.constrs.length)
    (h0 : getConstr σ c = .elim r0 a0 false)
    (hm : minimize L n σ c = .ok σ1)
    (h1 : getConstr σ1 c = .elim (.var a) alts ful)
    (hf : alts.filter (fun t => match3 L σ1 (matchFuel σ1) true true (.var a) t != some false) = [only.toTerm])
    (hb : (getVar σ a).bound = none) (hl : (getVar σ a).lower = some l)
    (h : fulfill L (n+1) σ c = .ok (σ', d)) :
    d = true ∧ ∀ ρ, Sat L ρ σ' → Sub L (.app l []) (ρ a) ∧ Sub L (ρ a) only :=
  fulfill_between wf okc hc h0 hm h1 hf hb hl h

/-! ## 4. whole runs: `run L fuel s x` instantiates the signature `s` in the empty store and applies it to `x` -/

/-- FINDING: `a ** G(b, c) [a << {b ** b, c ** c}]` applied to `A ** C` is ACCEPTED -- result `G(b, c)` with `b`, `c`
unresolved, the constraint pending with both alternatives -- although `A ** C` fits neither alternative -/
theorem C06g_accepted_without_fit :
    (∃ σ, run exL 40 sTwoBad tAC.toTerm = .ok (σ, G (.var 1) (.var 2)) ∧
      getConstr σ 0 = .elim tAC.toTerm [fn (.var 1) (.var 1), fn (.var 2) (.var 2)] false ∧
      (getVar σ 1).bound.isNone = true ∧ (getVar σ 2).bound.isNone = true) ∧
    ¬ Fits exL tAC (fn (.var 1) (.var 1)) ∧ ¬ Fits exL tAC (fn (.var 2) (.var 2)) :=
  ⟨run_accept_no_fit, not_fits_bb, not_fits_cc⟩

/-- FINDING: `a ** b [a << {b ** b, F(b)}]` applied to `A ** C`: the non-fitting `b ** b` is the only survivor, the
rejection comes from `unify` (`subtypeMismatch`), not from the constraint; applied to `A ** B`, which fits, the
result is `B` -/
theorem C06g_sole_survivor :
    run exL 40 sOneBad tAC.toTerm = .error .subtypeMismatch ∧
    ∃ σ, run exL 40 sOneBad (fn A B) = .ok (σ, B) ∧ (getVar σ 1).bound = some B ∧
      getConstr σ 0 = .elim (fn A B) [fn (.var 1) (.var 1)] true :=
  ⟨run_sole_survivor_mismatch, run_sole_survivor_ok⟩

/-- FINDING (uniqueness fails beyond unipolar alternatives): `A ** C` fits exactly one alternative of
`a ** c [a << {b ** b, c ** C}]`, but the constraint stays pending and `c` gets no bound; without the non-fitting
alternative the constraint is narrowed and `c ≤ A` is recorded -/
theorem C06g_unique_fit_not_determined :
    Fits exL tAC (fn (.var 2) C) ∧ ¬ Fits exL tAC (fn (.var 1) (.var 1)) ∧
    (∃ σ, run exL 40 sUniqBad tAC.toTerm = .ok (σ, .var 2) ∧
      getConstr σ 0 = .elim tAC.toTerm [fn (.var 1) (.var 1), fn (.var 2) C] false ∧
      (getVar σ 2).bound.isNone = true ∧ (getVar σ 2).upper = none) ∧
    (∃ σ, run exL 40 sUniqGood tAC.toTerm = .ok (σ, .var 2) ∧
      getConstr σ 0 = .elim (.var 0) [fn (.var 2) C] true ∧
      (getVar σ 2).bound.isNone = true ∧ (getVar σ 2).upper = some 5) :=
  ⟨fits_cC, not_fits_bb, run_unique_fit_pending, run_unique_fit_narrowed⟩

/-- nested alternative, repeated variable, no fit: `a ** b [a << {F(G(b, _)), G(b, b), A}]` applied to `F(G(B, C))`
gives `B`, applied to `G(B, A)` gives `A`, applied to `C` violates the constraint -/
theorem C06g_runs_nested_repeated :
    (∃ σ, run exL 40 sNested (F (G B C)) = .ok (σ, B) ∧ (getVar σ 1).bound = some B ∧
      getConstr σ 0 = .elim (F (G B C)) [F (G (.var 1) (.var 2))] true) ∧
    (∃ σ, run exL 40 sNested (G B A) = .ok (σ, A) ∧ (getVar σ 1).bound = some A ∧
      getConstr σ 0 = .elim (G B A) [G (.var 1) (.var 1)] true) ∧
    run exL 40 sNested C = .error .constraintViolation :=
  ⟨run_nested, run_repeated, run_nested_violation⟩

/-- FINDING: `G(A, C)` fits `G(b, b)` (instantiate `b` by `Top`), the filter keeps exactly that alternative, but
`unify` cannot join the lower bounds `A` and `C`: the application is rejected with `subtypeMismatch` -/
theorem C06g_top_fit_rejected :
    Fits exL tGAC (G (.var 1) (.var 1)) ∧ run exL 40 sNested tGAC.toTerm = .error .subtypeMismatch :=
  ⟨fits_Gbb_top, run_top_fit_rejected⟩

/-- two signature variables: `a ** G(c, b) [a << {G(b, c), F(b)}]` applied to `G(A, C)` binds `b := A`, `c := C`;
the result `G(c, b)` is `G(C, A)` -/
theorem C06g_run_two_vars :
    ∃ σ, run exL 40 sTwoVars tGAC.toTerm = .ok (σ, G (.var 2) (.var 1)) ∧
      (getVar σ 1).bound = some A ∧ (getVar σ 2).bound = some C ∧
      getConstr σ 0 = .elim tGAC.toTerm [G (.var 1) (.var 2)] true := run_two_vars

/-- between: `a ** a [a << {A, C}]` applied to `B` (`B < A`) returns `B`; `a` ends with lower bound `B` (the
argument) and upper bound `A` (the one alternative above `B`); applied to `Unit` the constraint is violated -/
theorem C06g_run_between :
    (∃ σ, run exL 40 sBetween B = .ok (σ, B) ∧ (getVar σ 0).bound = some B ∧
      (getVar σ 0).lower = some 6 ∧ (getVar σ 0).upper = some 5 ∧
      getConstr σ 0 = .elim (.var 0) [A] true) ∧
    run exL 40 sBetween (.app 0 []) = .error .constraintViolation :=
  ⟨run_between, run_between_violation⟩

/-- the runs are runs of the model's `instantiate` and `applyT` -/
theorem C06g_run_def (L : Lang) (fuel : Nat) (s : Schema) (x : Term) :
    run L fuel s x = (match instantiate L fuel {} s with
      | .error e => .error e
      | .ok (σ, f) => applyT L fuel σ f x) := rfl

/-! ## non-vacuity -/

/-- `F(G(b, _))`, `G(b, c)`, `G(b, b)` (variables 1, 2; the wildcard is variable 3) -/
def gAlts : List Term := [F (G (.var 1) (.var 3)), G (.var 1) (.var 2), G (.var 1) (.var 1)]
/-- four free variables, the last one a wildcard -/
def gσ : Store := { vars := [{}, {}, {}, { wildcard := true }], csets := [[], [], [], []] }

example : WF exL := exL_wf
example : ∀ t ∈ gAlts, unipolar exL t = true := by decide
example : ∀ t ∈ gAlts, wfTm exL t = true := by decide
example : ∀ t ∈ gAlts, PatFree gσ t := by decide
example : ¬ linear (G (.var 1) (.var 1)) := by decide
example : wfTy exL tGAC = true := by decide
example : Ty.depth tGAC < matchFuel gσ := by decide
-- `b ** b` is neither unipolar nor linear
example : unipolar exL (fn (.var 1) (.var 1)) = false ∧ ¬ linear (fn (.var 1) (.var 1)) := by decide
-- a pattern with two covariant and two contravariant occurrences of `b`: `b ** b ** G(b, b)`; the argument
-- `A ** B ** G(B, B)` fits it (`b := B`), `A ** B ** G(A, B)` does not (`A ≤ b ≤ B` is impossible)
example : Fits exL (.app 4 [.app 5 [], .app 4 [.app 6 [], .app 8 [.app 6 [], .app 6 []]]])
    (fn (.var 1) (fn (.var 1) (G (.var 1) (.var 1)))) :=
  (C06g_fitsX_iff_fits exL exL_wf _ _ (by decide) (by decide)).mp (by decide)
example : ¬ Fits exL (.app 4 [.app 5 [], .app 4 [.app 6 [], .app 8 [.app 5 [], .app 6 []]]])
    (fn (.var 1) (fn (.var 1) (G (.var 1) (.var 1)))) := fun h =>
  absurd ((C06g_fitsX_iff_fits exL exL_wf _ _ (by decide) (by decide)).mpr h) (by decide)
-- interpolation: `B` and `Bottom` below `A` and `Top`
example : ∃ θ, wfTy exL θ = true ∧ (∀ l ∈ [Ty.app 6 [], .app 2 []], Sub exL l θ) ∧
    ∀ u ∈ [Ty.app 5 [], .app 1 []], Sub exL θ u :=
  C06g_interpolation exL exL_wf _ _ (by decide) (by decide) (by
    intro l hl u hu
    have hw : ∀ t ∈ [Ty.app 6 [], .app 2 []], wfTy exL t = true := by decide
    have hw' : ∀ t ∈ [Ty.app 5 [], .app 1 []], wfTy exL t = true := by decide
    have hm : ∀ l ∈ [Ty.app 6 [], .app 2 []], ∀ u ∈ [Ty.app 5 [], .app 1 []], matchC exL true true l u = true := by decide
    have := (matchC_true_iff exL_wf true l u (hw l hl) (hw' u hu)).mp (hm l hl u hu)
    simpa using this)
-- `G(A, C)` is kept for `G(b, c)` and `G(b, b)`, eliminated for `F(G(b, _))`
example : gAlts.filter (fun t => fitsB exL true tGAC t) = [G (.var 1) (.var 2), G (.var 1) (.var 1)] := by rfl
example : Fits exL tGAC (G (.var 1) (.var 2)) :=
  (C06g_fitsB_iff_fits_unipolar exL exL_wf _ _ (by decide) (by decide) (by decide)).mp (by decide)
example : ¬ Fits exL tGAC (F (G (.var 1) (.var 3))) := fun h =>
  absurd ((C06g_fitsB_iff_fits_unipolar exL exL_wf _ _ (by decide) (by decide) (by decide)).mpr h) (by decide)
-- the demands of `A ** C` on `b ** b`: `b ≤ A` and `C ≤ b`; they are incompatible
example : reqs exL true tAC (fn (.var 1) (.var 1)) = [(1, false, .app 5 []), (1, true, .app 9 [])] := by rfl
example : fitsB exL true tAC (fn (.var 1) (.var 1)) = true ∧ fitsX exL tAC (fn (.var 1) (.var 1)) = false := by decide
-- `A ** B` does fit `b ** b`
example : Fits exL (.app 4 [.app 5 [], .app 6 []]) (fn (.var 1) (.var 1)) :=
  (C06g_fitsX_iff_fits exL exL_wf _ _ (by decide) (by decide)).mp (by decide)
-- violation for the argument `C` against the unipolar alternatives
example : gAlts.filter (fun t => match3 exL gσ (matchFuel gσ) true true (Ty.app 9 []).toTerm t != some false) = [] :=
  (filter_empty_iff exL gσ (matchFuel gσ) (.app 9 []) gAlts (by decide) (by decide)).mpr (by decide)
example : ∀ t ∈ gAlts, ¬ Fits exL (.app 9 []) t :=
  C06g_violation_no_fit exL exL_wf gσ (matchFuel gσ) (.app 9 []) gAlts (by decide) (by decide) (by decide) (by decide)
    ((filter_empty_iff exL gσ (matchFuel gσ) (.app 9 []) gAlts (by decide) (by decide)).mpr (by decide))


-- the uniqueness clause on a concrete step: `a = G(A, C)`, pending `a << {G(b, c), F(b)}`; `fulfill` narrows the
-- constraint to `G(b, c)` and records `A ≤ b`, `C ≤ c`; `b := A`, `c := C` is a solution of the resulting store
example : OkStoreC exL σU ∧ 0 < σU.constrs.length ∧
    getConstr σU 0 = .elim (.var 0) [G (.var 1) (.var 2), F (.var 1)] false ∧
    minimize exL 40 σU 0 = .ok σU1 ∧
    getConstr σU1 0 = .elim tGAC.toTerm [G (.var 1) (.var 2), F (.var 1)] false ∧
    (∀ t ∈ [G (.var 1) (.var 2), F (.var 1)], PatFree σU1 t) ∧ Ty.depth tGAC < 64 ∧
    [G (.var 1) (.var 2), F (.var 1)].filter (fun t => fitsB exL true tGAC t) = [G (.var 1) (.var 2)] ∧
    fulfill exL 41 σU 0 = .ok (σU', true) ∧ Sat exL (C03P.valOf [tGAC, .app 5 [], .app 9 []]) σU' :=
  ⟨σU_okc, by decide, rfl, exU_minimize, rfl, by decide, by decide, by rfl, exU_fulfill, σU'_sat⟩

example : Sub exL tGAC ((G (.var 1) (.var 2)).inst (C03P.valOf [tGAC, .app 5 [], .app 9 []])) :=
  ((C06g_unique_alternative exL exL_wf 40 σU σU1 σU' 0 true false (.var 0) (G (.var 1) (.var 2))
    [G (.var 1) (.var 2), F (.var 1)] [G (.var 1) (.var 2), F (.var 1)] tGAC σU_okc (by decide) rfl exU_minimize rfl
    (by decide) (by decide) (by rfl) exU_fulfill).2 _ σU'_sat).2.1

-- the between clause on a concrete step: `a` has lower bound `B`, pending `a << {A, C}`; only `A` is kept;
-- afterwards `B ≤ a ≤ A`, and `a := B` is a solution of the resulting store
example : OkStoreC exL σB ∧ 0 < σB.constrs.length ∧ getConstr σB 0 = .elim (.var 0) [A, C] false ∧
    minimize exL 40 σB 0 = .ok σB ∧
    [A, C].filter (fun t => match3 exL σB (matchFuel σB) true true (.var 0) t != some false) = [(Ty.app 5 []).toTerm] ∧
    (getVar σB 0).bound = none ∧ (getVar σB 0).lower = some 6 ∧
    fulfill exL 41 σB 0 = .ok (σB', true) ∧ Sat exL (C03P.valOf [.app 6 []]) σB' :=
  ⟨σB_okc, by decide, rfl, exB_minimize, exB_filter, rfl, rfl, exB_fulfill, σB'_sat⟩

example : Sub exL (.app 6 []) (C03P.valOf [.app 6 []] 0) ∧ Sub exL (C03P.valOf [.app 6 []] 0) (.app 5 []) :=
  (C06g_between exL exL_wf 40 σB σB σB' 0 0 6 true false (.var 0) (.app 5 []) [A, C] [A, C] σB_okc (by decide) rfl
    exB_minimize rfl exB_filter rfl rfl exB_fulfill).2 _ σB'_sat

-- base-type alternatives `A, C, Top` against the lower bound `B`: `A` and `Top` are kept
example : ([5, 9, 1].map fun bo => Term.app bo []).filter
      (fun t => match3 exL σB (matchFuel σB) true true (.var 0) t != some false) =
    [Term.app 5 [], Term.app 1 []] :=
  C06g_filter_bounded_base exL σB (matchFuel σB) 0 6 (by decide) rfl rfl rfl [5, 9, 1] (by decide)

end Tfv.C06
