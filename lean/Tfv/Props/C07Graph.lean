import Tfv.Model
import Tfv.Spec.Sub
import Tfv.Spec.Taxonomy
import Tfv.Proofs.GraphMemo
import Tfv.Proofs.GraphSubtype
import Tfv.Proofs.GraphNode
import Tfv.Proofs.GraphReach
import Tfv.Proofs.GraphPlain
import Tfv.Proofs.GraphExamples
/-!
# C07 on graphs — each concept node carries its inferred type and all canonical supertypes

Statements only; the proofs are in `Tfv/Proofs/Graph*.lean`.

Vocabulary
* `lookupType g.typeNodes t = some n`: the type `t` is registered in the graph's type-node table with node `n`
  (Python: `self.type_nodes[t]`); `addType` consults the table first.
* `TypePred tr`: the predicate of the triple `tr` is not in the `tf:` vocabulary (the triples `addType` emits are
  `rdf:type`, `rdfs:subClassOf`, `rdf:_i`).
* `supsOf G ty = dedupTy (langSucc G.types G.cfg G.canon (G.canon.length + 2) true ty.generalize true)`: the
  supertypes `annotateType` iterates over (`Language.supertypes(t, transitive=True)`).
* `PlainCanon G listed` (`Tfv/Proofs/GraphPlain.lean`): well-formed language, neither `Top` nor `Bottom`
  requested, `G.canon = mkCanon G.types G.cfg listed` for well-formed `Top`/`Bottom`-free listed types, fuel
  sufficient — the setting of `C10_reach_iff_plain`.
* "default node table": `c.withCanonicalTypes = false` and the graph's type-node table extends the one of
  `initGraph G c` (true of every graph the generator builds, by `C07_typeNodes_grow_*`).
* `G.store`: the inference store at graph-building time. A node's STORED type may still show a variable that has
  been bound since ("stale type"); `normT G.store ty` is the type read through the store. `addExpr` registers and
  annotates `normT G.store ty` for a source and `normT G.store (outputType 1000 ty)` for an operator, but decides
  "is the source's type canonical" on the stored `ty`. For a variable-free type `normT σ t = t`
  (`Tfv.GraphN.normT_closed`); `annotateType` itself never looks at the store. Its optional last argument overrides
  the "canonical" decision (used by the source branch); the statements about `annotateType` below are about the
  default (no override), the two monotonicity statements hold for every override.
-/
namespace Tfv.C07Graph
open Tfv Tfv.Tax Tfv.GraphEx

/-! ## B. monotonicity and memoisation -/

/-- **`addType` only adds**: every triple stays, the type-node table grows at its end, and every added triple has a
predicate outside the `tf:` vocabulary. -/
theorem C07_triples_mono_addType (G : GLang) (c : GCfg) (n : Nat) (g : GState) (t : Term) (g' : GState) (node : Node)
    (h : addType G c n g t = .ok (g', node)) :
    (∀ tr, tr ∈ g.triples → tr ∈ g'.triples) ∧ (∃ l, g'.typeNodes = g.typeNodes ++ l) ∧
      (∀ tr, tr ∈ g'.triples → tr ∈ g.triples ∨ TypePred tr) ∧ g'.fd = g.fd :=
  have s := addType_step G c n g t g' node h
  ⟨s.triples_mono, (let ⟨l, hl, _⟩ := s.typeNodes_ext; ⟨l, hl⟩), s.new_triples, s.fd_eq⟩

/-- **`annotateType` only adds.** -/
theorem C07_triples_mono_annotateType (G : GLang) (c : GCfg) (g : GState) (root : Node) (cur : Nat) (ty : Term)
    (mf : Bool) (g' : GState) (h : annotateType G c g root cur ty mf = .ok g') :
    (∀ tr, tr ∈ g.triples → tr ∈ g'.triples) ∧ (∃ l, g'.typeNodes = g.typeNodes ++ l) ∧ g'.fd = g.fd :=
  have s := annotateType_step G c g root cur ty mf g' h
  ⟨s.triples_mono, (let ⟨l, hl, _⟩ := s.typeNodes_ext; ⟨l, hl⟩), s.fd_eq⟩

/-- `annotateType` only adds, also when the caller decides `canonical` (the source branch of `addExpr`). -/
theorem C07_triples_mono_annotateType_ov (G : GLang) (c : GCfg) (g : GState) (root : Node) (cur : Nat) (ty : Term)
    (mf : Bool) (ov : Option Bool) (g' : GState) (h : annotateType G c g root cur ty mf ov = .ok g') :
    (∀ tr, tr ∈ g.triples → tr ∈ g'.triples) ∧ (∃ l, g'.typeNodes = g.typeNodes ++ l) ∧ g'.fd = g.fd :=
  have s := annotateType_step_ov G c g root cur ty mf ov g' h
  ⟨s.triples_mono, (let ⟨l, hl, _⟩ := s.typeNodes_ext; ⟨l, hl⟩), s.fd_eq⟩

/-- **`addExpr` only adds**: triples stay, the type-node table grows at its end, blank-node numbers are never
reused. -/
theorem C07_triples_mono (G : GLang) (c : GCfg) (root : Node) (origin : Option Node) (g : GState) (e : TExpr)
    (cur : Option Nat) (inter : Bool) (g' : GState) (n : Nat)
    (h : addExpr G c root origin g e cur inter = .ok (g', n)) :
    (∀ tr, tr ∈ g.triples → tr ∈ g'.triples) ∧ (∃ l, g'.typeNodes = g.typeNodes ++ l) ∧ g.nextB ≤ g'.nextB :=
  have s := addExpr_step G c root origin e g cur inter g' n h
  ⟨s.triples_mono, (let ⟨l, hl, _⟩ := s.typeNodes_ext; ⟨l, hl⟩), s.nextB_mono⟩

example : run1.toOption.map (fun p => (p.1.triples, p.1.fd.frm, p.1.fd.dep, p.2))
    = some ([(.b 0, .tf "via", .ns "f"), (GraphEx.root, .tf "containsOperation", .ns "f"),
      (.b 0, .tf "type", .ns "B"), (.b 0, .tf "subtypeOf", .ns "B"), (GraphEx.root, .tf "containsType", .ns "B"),
      (GraphEx.root, .tf "containsType", .ns "A"), (.b 0, .tf "subtypeOf", .ns "A"),
      (.b 1, .tf "type", .ns "A"), (.b 1, .tf "subtypeOf", .ns "A")], [(0, 1)], [(0, 1)], 0) := run1_triples

/-- the structural equality test on types used by the type-node table decides equality; in particular it is
reflexive -/
theorem C07_term_beq_iff (s t : Term) : Term.beq s t = true ↔ s = t := term_beq_iff s t

theorem C07_term_beq_refl (t : Term) : Term.beq t t = true := term_beq_refl t

/-- **Type nodes are memoised**: after `addType`, the type is registered with the returned node … -/
theorem C07_type_memo (G : GLang) (c : GCfg) (n : Nat) (g : GState) (t : Term) (g1 : GState) (node : Node)
    (h : addType G c n g t = .ok (g1, node)) : lookupType g1.typeNodes t = some node :=
  addType_memo G c n g t g1 node h

/-- … hence **a type node is created once per distinct type**: a second `addType` of the same type returns the
same node and changes nothing … -/
theorem C07_type_once (G : GLang) (c : GCfg) (n m : Nat) (g : GState) (t : Term) (g1 : GState) (node : Node)
    (h : addType G c n g t = .ok (g1, node)) : addType G c (m+1) g1 t = .ok (g1, node) :=
  addType_twice G c n m g t g1 node h

/-- … also later, after any further expressions have been added to the graph. -/
theorem C07_type_once_later (G : GLang) (c : GCfg) (n m : Nat) (g : GState) (t : Term) (g1 : GState) (node : Node)
    (h : addType G c n g t = .ok (g1, node)) (root : Node) (origin : Option Node) (e : TExpr) (cur : Option Nat)
    (inter : Bool) (g2 : GState) (k : Nat) (h2 : addExpr G c root origin g1 e cur inter = .ok (g2, k)) :
    addType G c (m+1) g2 t = .ok (g2, node) :=
  addType_of_lookup G c m g2 t node
    ((addExpr_step G c root origin e g1 cur inter g2 k h2).lookup_stable (addType_memo G c n g t g1 node h))

/-- non-vacuity: a non-canonical type `F(F(A))` gets a blank node, registered last -/
example : ((addType exG {} typeFuel (initGraph exG {}) (tmF (tmF tmA))).toOption.map
      (fun p => (p.1.triples, p.1.typeNodes.length, p.1.nextB, p.2)))
    = some ([(.b 0, .rdf "type", .tf "Type"), (.b 0, .rdfs "subClassOf", .ns "F"),
        (.b 0, .rdf "_1", .ns "F-A")], 7, 1, .b 0) := by decide +kernel

/-! ## C. the annotations of a node -/

/-- **An operator leaf** attached to node `cur` returns `cur`; with `with_operators` the node gets its `via`
triple, and with `with_membership` the root gets `containsOperation`. -/
theorem C07_op_node (G : GLang) (c : GCfg) (root : Node) (origin : Option Node) (g : GState) (name : String)
    (ty : Term) (cur : Nat) (inter : Bool) (g' : GState) (n : Nat)
    (h : addExpr G c root origin g (.op name ty) (some cur) inter = .ok (g', n)) :
    n = cur ∧ (c.withOperators = true → (Node.b cur, Node.tf "via", Node.ns name) ∈ g'.triples ∧
      (c.withMembership = true → (root, Node.tf "containsOperation", Node.ns name) ∈ g'.triples)) :=
  addExpr_op_node G c root origin g name ty cur inter g' n h

example : ((addExpr exG {} GraphEx.root none (initGraph exG {}) (.op "f" (tmFn tmA tmB)) (some 7) false).toOption.map
      (fun p => (p.2, p.1.triples)))
    = some (7, [(.b 7, .tf "via", .ns "f"), (GraphEx.root, .tf "containsOperation", .ns "f"),
        (.b 7, .tf "type", .ns "B"), (.b 7, .tf "subtypeOf", .ns "B"), (GraphEx.root, .tf "containsType", .ns "B"),
        (GraphEx.root, .tf "containsType", .ns "A"), (.b 7, .tf "subtypeOf", .ns "A")]) := by graph_eval

/-- **The `subtypeOf` annotations of a node with a canonical type** (`with_supertypes` on), any node table.
After `annotateType`: (1) the type itself is registered and the node carries `type` and `subtypeOf` to its node;
(2) every supertype `s` the loop visits is registered and the node carries `subtypeOf` to its node;
(3) conversely every `subtypeOf` triple of the node that was not there before points to the registered node of the
type or of one of these supertypes. -/
theorem C07_annotate_subtypeOf (G : GLang) (c : GCfg) (g : GState) (root : Node) (cur : Nat) (t : Ty) (mf : Bool)
    (g' : GState) (hS : c.withSupertypes = true) (hC : inCanon G t.toTerm = true)
    (h : annotateType G c g root cur t.toTerm mf = .ok g') :
    (∃ tn, lookupType g'.typeNodes t.toTerm = some tn ∧ (Node.b cur, Node.tf "type", tn) ∈ g'.triples ∧
      (Node.b cur, Node.tf "subtypeOf", tn) ∈ g'.triples) ∧
    (∀ s ∈ langSucc G.types G.cfg G.canon (G.canon.length + 2) true t true,
      ∃ sn, lookupType g'.typeNodes s.toTerm = some sn ∧ (Node.b cur, Node.tf "subtypeOf", sn) ∈ g'.triples) ∧
    (∀ o, (Node.b cur, Node.tf "subtypeOf", o) ∈ g'.triples →
      (Node.b cur, Node.tf "subtypeOf", o) ∈ g.triples ∨ lookupType g'.typeNodes t.toTerm = some o ∨
        ∃ s ∈ langSucc G.types G.cfg G.canon (G.canon.length + 2) true t true,
          lookupType g'.typeNodes s.toTerm = some o) :=
  annotateType_subtypeOf_spec G c g root cur t mf g' hS hC h

/-- for a concrete type, "canonical" is membership in the canon -/
theorem C07_inCanon_concrete (G : GLang) (t : Ty) : inCanon G t.toTerm = memTy t G.canon := inCanon_toTerm G t

/-- **The type node of a canonical type is its URI** (default node table): `addType` is a pure lookup that returns
`typeUri` and leaves the graph unchanged. -/
theorem C07_canonical_type_node (G : GLang) (c : GCfg) (hc : c.withCanonicalTypes = false) (n : Nat) (g : GState)
    (l : List (Term × Node)) (hg : g.typeNodes = (initGraph G c).typeNodes ++ l) (s : Ty)
    (h : memTy s G.canon = true) :
    ∃ uri, typeUri G s.toTerm = .ok uri ∧ addType G c (n+1) g s.toTerm = .ok (g, uri) :=
  addType_canonical G c hc n g l hg s h

example : (initGraph exG {}).typeNodes.map (·.2) = [.ns "A", .ns "F-A", .ns "F-B", .ns "F-C", .ns "B", .ns "C"] := by
  decide +kernel

/-- **The `subtypeOf` objects of a node with canonical type `t`, default node table**: exactly the URIs of `t`
and of the types `Language.supertypes(t, transitive=True)` reports (plus whatever the node had before). -/
theorem C07_subtypeOf_exact (G : GLang) (c : GCfg) (hcT : c.withCanonicalTypes = false)
    (hS : c.withSupertypes = true) (g : GState) (l : List (Term × Node))
    (hg : g.typeNodes = (initGraph G c).typeNodes ++ l) (root : Node) (cur : Nat) (t : Ty)
    (hC : memTy t G.canon = true) (mf : Bool) (g' : GState)
    (h : annotateType G c g root cur t.toTerm mf = .ok g') (o : Node) :
    (Node.b cur, Node.tf "subtypeOf", o) ∈ g'.triples ↔
      ((Node.b cur, Node.tf "subtypeOf", o) ∈ g.triples ∨
        ∃ s, (s = t ∨ s ∈ langSucc G.types G.cfg G.canon (G.canon.length + 2) true t true) ∧
          typeUri G s.toTerm = .ok o) :=
  annotateType_subtypeOf_exact G c hcT hS g l hg root cur t hC mf g' h o

/-- **`successors(transitive=True)` = one or more reported direct links** (well-formed language and start type;
the fuel `canon.length + m` suffices because every chain of links is strictly monotone, hence visits pairwise
different canonical types). -/
theorem C07_langSucc_trans_iff_reach {L : Lang} (wf : WF L) (c : CanonCfg) (canon : List Ty) (up : Bool) (m : Nat)
    {t r : Ty} (ht : wfTy L t = true) :
    r ∈ langSucc L c canon (canon.length + m) up t true ↔
      ∃ u, Link L c canon 1 up t u ∧ Reach (Link L c canon 1 up) u r :=
  mem_langSucc_trans_iff_reach wf c canon up m ht

example : langSucc exG.types exG.cfg exG.canon (exG.canon.length + 2) true tC true = [tB, tA] ∧
    wfTy exG.types tC = true := ⟨by rfl, by decide⟩

/-- over a plain closed canon the reported transitive supertypes of a canonical type are exactly its strict
canonical supertypes -/
theorem C07_supertypes_plain (G : GLang) (listed : List Ty) (p : PlainCanon G listed) {t s : Ty}
    (ht : t ∈ G.canon) :
    s ∈ langSucc G.types G.cfg G.canon (G.canon.length + 2) true t true ↔
      (s ∈ G.canon ∧ Sub G.types t s ∧ s ≠ t) :=
  p.mem_langSucc_up ht

/-- **C07 for a plain closed canon, default node table**: after `annotateType`, the `subtypeOf` set of a node with
canonical type `t` is exactly `{uri s | s ∈ canon ∧ t ≤ s}` (plus whatever the node had before) — the node
carries its type and *all* canonical supertypes, and nothing else. -/
theorem C07_subtypeOf_exact_plain (G : GLang) (listed : List Ty) (p : PlainCanon G listed) (c : GCfg)
    (hcT : c.withCanonicalTypes = false) (hS : c.withSupertypes = true) (g : GState) (l : List (Term × Node))
    (hg : g.typeNodes = (initGraph G c).typeNodes ++ l) (root : Node) (cur : Nat) (t : Ty)
    (ht : t ∈ G.canon) (mf : Bool) (g' : GState)
    (h : annotateType G c g root cur t.toTerm mf = .ok g') (o : Node) :
    (Node.b cur, Node.tf "subtypeOf", o) ∈ g'.triples ↔
      ((Node.b cur, Node.tf "subtypeOf", o) ∈ g.triples ∨
        ∃ s, s ∈ G.canon ∧ Sub G.types t s ∧ typeUri G s.toTerm = .ok o) :=
  annotateType_subtypeOf_plain G listed p c hcT hS g l hg root cur t ht mf g' h o

/-- non-vacuity: the running example is a plain closed canon; a node of type `C` gets `C`, `B`, `A` -/
example : PlainCanon exG [tA, tF tA] ∧ tC ∈ exG.canon ∧
    ((annotateType exG {} (initGraph exG {}) GraphEx.root 0 tmC false).toOption.map (·.triples))
      = some [(.b 0, .tf "type", .ns "C"), (.b 0, .tf "subtypeOf", .ns "C"),
        (GraphEx.root, .tf "containsType", .ns "C"),
        (GraphEx.root, .tf "containsType", .ns "B"), (.b 0, .tf "subtypeOf", .ns "B"),
        (GraphEx.root, .tf "containsType", .ns "A"), (.b 0, .tf "subtypeOf", .ns "A")] :=
  ⟨exG_plain, by simp [exG], annC_triples⟩

/-- **The same for the leaves of an expression.** An operator leaf whose output type, READ THROUGH THE GRAPH'S STORE,
is the canonical `t`: `normT G.store (outputType 1000 ty) = t.toTerm` (`output()` walks the stored type object, the
result is normalised; types on, node essential) … -/
theorem C07_op_subtypeOf (G : GLang) (c : GCfg) (hcT : c.withCanonicalTypes = false)
    (hS : c.withSupertypes = true) (hTy : c.withTypes = true) (root : Node) (origin : Option Node) (g : GState)
    (l : List (Term × Node)) (hg : g.typeNodes = (initGraph G c).typeNodes ++ l) (name : String) (ty : Term)
    (t : Ty) (hout : normT G.store (outputType 1000 ty) = t.toTerm) (hC : memTy t G.canon = true) (cur : Nat)
    (inter : Bool) (hE : (c.withIntermediateTypes || !inter) = true) (g' : GState) (n : Nat)
    (h : addExpr G c root origin g (.op name ty) (some cur) inter = .ok (g', n)) (o : Node) :
    (Node.b cur, Node.tf "subtypeOf", o) ∈ g'.triples ↔
      ((Node.b cur, Node.tf "subtypeOf", o) ∈ g.triples ∨
        ∃ s, (s = t ∨ s ∈ langSucc G.types G.cfg G.canon (G.canon.length + 2) true t true) ∧
          typeUri G s.toTerm = .ok o) :=
  addExpr_op_subtypeOf G c hcT hS hTy root origin g l hg name ty t hout hC cur inter hE g' n h o

/-- non-vacuity with a stale type: `h : A → x0` where the store binds `x0 := B`; the node gets `B` and `A` -/
example : normT exGs.store (outputType 1000 (tmFn tmA (.var 0))) = tB.toTerm ∧
    ((addExpr exGs {} GraphEx.root none (initGraph exGs {}) (.op "h" (tmFn tmA (.var 0))) (some 7) false).toOption.map
      (fun p => (p.2, p.1.triples)))
    = some (7, [(.b 7, .tf "via", .ns "h"), (GraphEx.root, .tf "containsOperation", .ns "h"),
        (.b 7, .tf "type", .ns "B"), (.b 7, .tf "subtypeOf", .ns "B"), (GraphEx.root, .tf "containsType", .ns "B"),
        (GraphEx.root, .tf "containsType", .ns "A"), (.b 7, .tf "subtypeOf", .ns "A")]) :=
  ⟨normT_stale_out, staleOp_triples⟩

/-- the special case in which the STORED output type is already the canonical `t` (the statement as it was before
the store was modelled: a variable-free type is read unchanged through every store) -/
theorem C07_op_subtypeOf_stored (G : GLang) (c : GCfg) (hcT : c.withCanonicalTypes = false)
    (hS : c.withSupertypes = true) (hTy : c.withTypes = true) (root : Node) (origin : Option Node) (g : GState)
    (l : List (Term × Node)) (hg : g.typeNodes = (initGraph G c).typeNodes ++ l) (name : String) (ty : Term)
    (t : Ty) (hout : outputType 1000 ty = t.toTerm) (hC : memTy t G.canon = true) (cur : Nat) (inter : Bool)
    (hE : (c.withIntermediateTypes || !inter) = true) (g' : GState) (n : Nat)
    (h : addExpr G c root origin g (.op name ty) (some cur) inter = .ok (g', n)) (o : Node) :
    (Node.b cur, Node.tf "subtypeOf", o) ∈ g'.triples ↔
      ((Node.b cur, Node.tf "subtypeOf", o) ∈ g.triples ∨
        ∃ s, (s = t ∨ s ∈ langSucc G.types G.cfg G.canon (G.canon.length + 2) true t true) ∧
          typeUri G s.toTerm = .ok o) :=
  addExpr_op_subtypeOf_stored G c hcT hS hTy root origin g l hg name ty t hout hC cur inter hE g' n h o

/-- … and a source leaf that has no node yet, whose STORED type is the canonical `t` (statement unchanged: the stored
type `t.toTerm` is variable-free, so it is canonical as stored and `normT G.store t.toTerm = t.toTerm`). -/
theorem C07_src_subtypeOf (G : GLang) (c : GCfg) (hcT : c.withCanonicalTypes = false)
    (hS : c.withSupertypes = true) (hTy : c.withTypes = true) (root : Node) (origin : Option Node) (g : GState)
    (l : List (Term × Node)) (hg : g.typeNodes = (initGraph G c).typeNodes ++ l) (id : Nat) (lbl : Option String)
    (t : Ty) (hC : memTy t G.canon = true) (hnew : g.srcNodes.find? (fun p => p.1 == id) = none) (cur : Nat)
    (inter : Bool) (g' : GState) (n : Nat)
    (h : addExpr G c root origin g (.src id lbl t.toTerm) (some cur) inter = .ok (g', n)) (o : Node) :
    n = cur ∧ ((Node.b cur, Node.tf "subtypeOf", o) ∈ g'.triples ↔
      ((Node.b cur, Node.tf "subtypeOf", o) ∈ g.triples ∨
        ∃ s, (s = t ∨ s ∈ langSucc G.types G.cfg G.canon (G.canon.length + 2) true t true) ∧
          typeUri G s.toTerm = .ok o)) :=
  addExpr_src_subtypeOf G c hcT hS hTy root origin g l hg id lbl t hC hnew cur inter g' n h o

/-- **A source whose type is not canonical gets no `subtypeOf` triple** - the type being read through the final store
(`normT G.store ty`). Before the repair of defect D30 Python decided `expr.type in canon` on the stored type object, so a
source whose type variable had been bound to a canonical type AFTER the source was fixed got a `type` triple but no
`subtypeOf` triple; see the example below for the repaired behaviour. -/
theorem C07_src_stale (G : GLang) (c : GCfg) (root : Node) (origin : Option Node) (g : GState) (id : Nat)
    (lbl : Option String) (ty : Term) (hC : inCanon G (normT G.store ty) = false)
    (hnew : g.srcNodes.find? (fun p => p.1 == id) = none) (cur : Option Nat) (inter : Bool) (g' : GState) (n : Nat)
    (h : addExpr G c root origin g (.src id lbl ty) cur inter = .ok (g', n)) (s o : Node)
    (ht : (s, Node.tf "subtypeOf", o) ∈ g'.triples) : (s, Node.tf "subtypeOf", o) ∈ g.triples :=
  addExpr_src_stale G c root origin g id lbl ty hC hnew cur inter g' n h s o ht

/-- a source stored with type `x0`, the store binds `x0 := B`: annotated as a source of type `B` (repaired behaviour) -/
example : inCanon exGs (.var 0) = false ∧ normT exGs.store (.var 0) = tB.toTerm ∧
    ((addExpr exGs {} GraphEx.root none (initGraph exGs {}) (.src 0 none (.var 0)) (some 7) false).toOption.map
      (fun p => (p.2, p.1.triples)))
    = some (7, [(.b 7, .tf "type", .ns "B"), (.b 7, .tf "subtypeOf", .ns "B"), (GraphEx.root, .tf "containsType", .ns "B"),
        (GraphEx.root, .tf "containsType", .ns "A"), (.b 7, .tf "subtypeOf", .ns "A")]) :=
  ⟨by decide, normT_stale_var, staleSrc_triples⟩

end Tfv.C07Graph
