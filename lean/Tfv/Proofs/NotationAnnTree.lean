import Tfv.Proofs.NotationAnnParse
/-!
# C13 with annotations: trees with annotation nodes rendered in four styles

For an arbitrary builder, the denotation of every rendering of a tree is the fold `evalA` of the builder over
the tree (`den_renderA`); the renderings of acceptable trees are acceptable spines (`aOkS_renderA`); hence
`parse_render_tree`.
-/
namespace Tfv.NotationAnn
open Tfv Tfv.Notation

section dens
variable {S E : Type} (B : Builder S E) (inputs : List E)

theorem pushCur_none (r : Except PErr (S × E)) : pushCur B none r = someR r := by
  cases r with
  | error e => rfl
  | ok v => rfl

theorem den_append (a b : List AItem) (st : S) (k : Option E) (d : Bool) :
    den B inputs st k d (a ++ b) =
      match den B inputs st k d a with
      | .error e => .error e
      | .ok (st', k') => den B inputs st' k' (lastD d a) b := by
  induction a generalizing st k d with
  | nil => simp only [List.nil_append, den, lastD]
  | cons i a ih =>
    simp only [List.cons_append, den, lastD]
    cases denItem B inputs st k d i with
    | error e => rfl
    | ok r => exact ih r.1 r.2 _

theorem den_singleton (i : AItem) (st : S) (k : Option E) (d : Bool) :
    den B inputs st k d [i] = denItem B inputs st k d i := by
  simp only [den]
  cases denItem B inputs st k d i with
  | error e => rfl
  | ok r => rfl

theorem lastD_append_single (d : Bool) (a : List AItem) (i : AItem) : lastD d (a ++ [i]) = isSrcItem i := by
  induction a generalizing d with
  | nil => rfl
  | cons x a ih => simp only [List.cons_append, lastD, ih]

theorem denItem_group_single (sp : List AItem) (st : S) (k : Option E) (d : Bool) :
    denItem B inputs st k d (.group [sp]) =
      match den B inputs st none false sp with
      | .error e => .error e
      | .ok (st', v) => gappO B st' k v := by
  simp only [denItem, denGroup]
  cases den B inputs st none false sp with
  | error e => rfl
  | ok r =>
    obtain ⟨st1, v⟩ := r
    simp only []
    cases gappO B st1 k v with
    | error e => rfl
    | ok r2 => rfl

theorem denItem_ann (T : Ty) (st : S) (v : E) (d : Bool) :
    denItem B inputs st (some v) d (.ann T) = someR (B.annotate st v T.toTerm 0 d) := by
  simp only [denItem]

/-- an operand: its value is applied to the accumulator -/
theorem denItem_argA (fl : ATree → Bool) (t : ATree) (s : List AItem)
    (hs : ∀ st, den B inputs st none false s = someR (evalA B inputs fl st t))
    (st : S) (k : Option E) (d : Bool) :
    denItem B inputs st k d (argA t s) = pushCur B k (evalA B inputs fl st t) := by
  cases t with
  | op name => rfl
  | src => rfl
  | input i =>
    simp only [argA, denItem, evalA]
    cases lookupInput inputs i with
    | none => rfl
    | some e => rfl
  | app f x =>
    simp only [argA, denItem_group_single, hs]
    cases evalA B inputs fl st (.app f x) with
    | error e => rfl
    | ok r => rfl
  | ann e T =>
    simp only [argA, denItem_group_single, hs]
    cases evalA B inputs fl st (.ann e T) with
    | error e => rfl
    | ok r => rfl

theorem isSrcItem_argA (t : ATree) (s : List AItem) : isSrcItem (argA t s) = t.isSrc := by
  cases t <;> rfl

theorem lastD_juxtaA (e : ATree) (d : Bool) : lastD d (juxtaA e) = dashJ e := by
  cases e with
  | op name => rfl
  | src => rfl
  | input i => rfl
  | app f x =>
    simp only [juxtaA, lastD_append_single, isSrcItem_argA]
    cases x <;> rfl
  | ann e T => simp only [juxtaA, lastD_append_single]; rfl

theorem den_leaf_op (name : String) (st : S) (d : Bool) :
    den B inputs st none d [.op name] = someR (B.mkOp st name) := by
  rw [den_singleton]; simp only [denItem, pushCur_none]

theorem den_leaf_src (st : S) (d : Bool) :
    den B inputs st none d [.src] = someR (.ok (B.mkSource st)) := by
  rw [den_singleton]; simp only [denItem, pushCur_none]

theorem den_leaf_input (i : Nat) (st : S) (d : Bool) :
    den B inputs st none d [.input i] = someR (evalA B inputs (fun _ => false) st (.input i)) := by
  rw [den_singleton]
  simp only [denItem, evalA]
  cases lookupInput inputs i with
  | none => rfl
  | some e => rfl

theorem evalA_input (fl : ATree → Bool) (i : Nat) (st : S) :
    evalA B inputs fl st (.input i) = evalA B inputs (fun _ => false) st (.input i) := by
  simp only [evalA]

theorem den_juxtaA (t : ATree) : ∀ st d, den B inputs st none d (juxtaA t) = someR (evalA B inputs dashJ st t) := by
  induction t with
  | op name => intro st d; exact den_leaf_op B inputs name st d
  | src => intro st d; exact den_leaf_src B inputs st d
  | input i => intro st d; rw [evalA_input]; exact den_leaf_input B inputs i st d
  | app f x ihf ihx =>
    intro st d
    simp only [juxtaA, den_append, ihf, evalA]
    cases evalA B inputs dashJ st f with
    | error e => rfl
    | ok r =>
      obtain ⟨st1, ef⟩ := r
      simp only [someR, den_singleton, denItem_argA B inputs dashJ x (juxtaA x) (fun st' => ihx st' false)]
      cases evalA B inputs dashJ st1 x with
      | error e => rfl
      | ok r2 => rfl
  | ann e T ih =>
    intro st d
    simp only [juxtaA, den_append, ih, evalA]
    cases evalA B inputs dashJ st e with
    | error err => rfl
    | ok r =>
      obtain ⟨st1, v⟩ := r
      simp only [someR, den_singleton, denItem_ann, lastD_juxtaA]

theorem den_binaryA (t : ATree) :
    ∀ st d, den B inputs st none d (binaryA t) = someR (evalA B inputs ATree.isSrc st t) := by
  induction t with
  | op name => intro st d; exact den_leaf_op B inputs name st d
  | src => intro st d; exact den_leaf_src B inputs st d
  | input i => intro st d; rw [evalA_input]; exact den_leaf_input B inputs i st d
  | app f x ihf ihx =>
    intro st d
    simp only [binaryA, den, evalA,
      denItem_argA B inputs ATree.isSrc f (binaryA f) (fun st' => ihf st' false), pushCur_none]
    cases evalA B inputs ATree.isSrc st f with
    | error e => rfl
    | ok r =>
      obtain ⟨st1, ef⟩ := r
      simp only [someR, denItem_argA B inputs ATree.isSrc x (binaryA x) (fun st' => ihx st' false)]
      cases evalA B inputs ATree.isSrc st1 x with
      | error e => rfl
      | ok r2 =>
        obtain ⟨st2, ex⟩ := r2
        simp only [pushCur, gapp]
        cases B.mkApp st2 ef ex with
        | error e => rfl
        | ok r3 => rfl
  | ann e T ih =>
    intro st d
    simp only [binaryA, den, evalA,
      denItem_argA B inputs ATree.isSrc e (binaryA e) (fun st' => ih st' false), pushCur_none]
    cases evalA B inputs ATree.isSrc st e with
    | error err => rfl
    | ok r =>
      obtain ⟨st1, v⟩ := r
      simp only [someR, denItem_ann, isSrcItem_argA]
      cases B.annotate st1 v T.toTerm 0 e.isSrc with
      | error err => rfl
      | ok r2 => rfl

theorem den_parenA (t : ATree) :
    ∀ st d, den B inputs st none d (parenA t) = someR (evalA B inputs (fun _ => false) st t) := by
  induction t with
  | op name => intro st d; exact den_leaf_op B inputs name st d
  | src => intro st d; exact den_leaf_src B inputs st d
  | input i => intro st d; exact den_leaf_input B inputs i st d
  | app f x ihf ihx =>
    intro st d
    simp only [parenA, den, evalA, denItem_group_single, ihf]
    cases evalA B inputs (fun _ => false) st f with
    | error e => rfl
    | ok r =>
      obtain ⟨st1, ef⟩ := r
      simp only [someR, gappO, gapp, ihx]
      cases evalA B inputs (fun _ => false) st1 x with
      | error e => rfl
      | ok r2 =>
        obtain ⟨st2, ex⟩ := r2
        dsimp only
        cases B.mkApp st2 ef ex with
        | error e => rfl
        | ok r3 => rfl
  | ann e T ih =>
    intro st d
    simp only [parenA, den, evalA, denItem_group_single, ih]
    cases evalA B inputs (fun _ => false) st e with
    | error err => rfl
    | ok r =>
      obtain ⟨st1, v⟩ := r
      simp only [someR, gappO, gapp, denItem_ann, isSrcItem]
      cases B.annotate st1 v T.toTerm 0 false with
      | error err => rfl
      | ok r2 => rfl

/-- a value followed by an argument list -/
def thenGroup (r : Except PErr (S × Option E)) (args : List (List AItem)) : Except PErr (S × Option E) :=
  match r with
  | .error e => .error e
  | .ok (st1, k1) => denGroup B inputs st1 k1 args

theorem den_withArgs (sp : List AItem) (args : List (List AItem)) (st : S) (k : Option E) (d : Bool) :
    den B inputs st k d (withArgs sp args) = thenGroup B inputs (den B inputs st k d sp) args := by
  cases args with
  | nil =>
    simp only [withArgs, thenGroup, denGroup]
    cases den B inputs st k d sp with
    | error e => rfl
    | ok r => rfl
  | cons a as =>
    simp only [withArgs, den_append, thenGroup, den_singleton, denItem]

theorem lastD_withArgs_cons (sp : List AItem) (a : List AItem) (as : List (List AItem)) (d : Bool) :
    lastD d (withArgs sp (a :: as)) = false := by
  simp only [withArgs, lastD_append_single]; rfl

theorem lastD_callA_cons (t : ATree) : ∀ (a : List AItem) (as : List (List AItem)) (d : Bool),
    lastD d (callA t (a :: as)) = false := by
  induction t with
  | op name => intro a as d; exact lastD_withArgs_cons _ a as d
  | src => intro a as d; exact lastD_withArgs_cons _ a as d
  | input i => intro a as d; exact lastD_withArgs_cons _ a as d
  | app f x ihf _ => intro a as d; simp only [callA]; exact ihf _ _ d
  | ann e T _ => intro a as d; exact lastD_withArgs_cons _ a as d

theorem lastD_callA (e : ATree) (d : Bool) : lastD d (callA e []) = e.isSrc := by
  cases e with
  | op name => rfl
  | src => rfl
  | input i => rfl
  | app f x => simp only [callA]; exact lastD_callA_cons f _ _ d
  | ann e T => simp only [callA, withArgs, lastD_append_single]; rfl

theorem den_callA (t : ATree) : ∀ st d args, den B inputs st none d (callA t args) =
    thenGroup B inputs (someR (evalA B inputs ATree.isSrc st t)) args := by
  induction t with
  | op name => intro st d args; simp only [callA, den_withArgs, den_leaf_op, evalA]
  | src => intro st d args; simp only [callA, den_withArgs, den_leaf_src, evalA]
  | input i => intro st d args; simp only [callA, den_withArgs, den_leaf_input]; rw [← evalA_input]
  | app f x ihf ihx =>
    intro st d args
    simp only [callA, ihf, evalA]
    cases evalA B inputs ATree.isSrc st f with
    | error e => rfl
    | ok r =>
      obtain ⟨st1, ef⟩ := r
      simp only [someR, thenGroup, denGroup, ihx]
      cases evalA B inputs ATree.isSrc st1 x with
      | error e => rfl
      | ok r2 =>
        obtain ⟨st2, ex⟩ := r2
        simp only [someR, gappO, gapp]
        cases B.mkApp st2 ef ex with
        | error e => rfl
        | ok r3 => rfl
  | ann e T ih =>
    intro st d args
    simp only [callA, den_withArgs, den_append, ih, evalA]
    cases evalA B inputs ATree.isSrc st e with
    | error err => rfl
    | ok r =>
      obtain ⟨st1, v⟩ := r
      simp only [someR, thenGroup, denGroup, den_singleton, denItem_ann, lastD_callA]

theorem den_renderA (s : Style) (t : ATree) (st : S) :
    den B inputs st none false (renderA s t) = someR (evalA B inputs (styleFlag s) st t) := by
  cases s with
  | juxta => exact den_juxtaA B inputs t st false
  | binary => exact den_binaryA B inputs t st false
  | paren => exact den_parenA B inputs t st false
  | call =>
    simp only [renderA, den_callA]
    show thenGroup B inputs (someR (evalA B inputs ATree.isSrc st t)) [] = someR (evalA B inputs ATree.isSrc st t)
    cases evalA B inputs ATree.isSrc st t with
    | error e => rfl
    | ok r => rfl

theorem denote_of_someR (st : S) (sp : List AItem) (r : Except PErr (S × E))
    (h : den B inputs st none false sp = someR r) : denote B inputs st sp = r := by
  unfold denote
  rw [h]
  cases r with
  | error e => rfl
  | ok v => rfl

end dens

/-! ## renderings of acceptable trees are acceptable spines -/

section oks
variable (okT : Ty → Bool)

theorem aOkS_append (a b : List AItem) : aOkS okT (a ++ b) = (aOkS okT a && aOkS okT b) := by
  induction a with
  | nil => simp [aOkS]
  | cons i a ih => simp only [List.cons_append, aOkS, ih, Bool.and_assoc]

theorem aOk_argA (t : ATree) (s : List AItem) (ht : aOkT okT t = true) (hs : aOkS okT s = true) :
    aOk okT (argA t s) = true := by
  cases t with
  | op name => simpa only [argA, aOk, aOkT] using ht
  | src => rfl
  | input i => rfl
  | app f x => simp only [argA, aOk, aOkG, hs, Bool.and_self]
  | ann e T => simp only [argA, aOk, aOkG, hs, Bool.and_self]

theorem aOkS_juxtaA (t : ATree) (ht : aOkT okT t = true) : aOkS okT (juxtaA t) = true := by
  induction t with
  | op name => simpa only [juxtaA, aOkS, aOk, aOkT, Bool.and_true] using ht
  | src => rfl
  | input i => rfl
  | app f x ihf ihx =>
    simp only [aOkT, Bool.and_eq_true] at ht
    simp only [juxtaA, aOkS_append, aOkS, ihf ht.1, aOk_argA okT x _ ht.2 (ihx ht.2), Bool.and_self]
  | ann e T ih =>
    simp only [aOkT, Bool.and_eq_true] at ht
    simp only [juxtaA, aOkS_append, aOkS, aOk, ih ht.1, ht.2, Bool.and_self]

theorem aOkS_binaryA (t : ATree) (ht : aOkT okT t = true) : aOkS okT (binaryA t) = true := by
  induction t with
  | op name => simpa only [binaryA, aOkS, aOk, aOkT, Bool.and_true] using ht
  | src => rfl
  | input i => rfl
  | app f x ihf ihx =>
    simp only [aOkT, Bool.and_eq_true] at ht
    simp only [binaryA, aOkS, aOk_argA okT f _ ht.1 (ihf ht.1), aOk_argA okT x _ ht.2 (ihx ht.2), Bool.and_self]
  | ann e T ih =>
    simp only [aOkT, Bool.and_eq_true] at ht
    simp only [binaryA, aOkS, aOk, aOk_argA okT e _ ht.1 (ih ht.1), ht.2, Bool.and_self]

theorem aOkS_parenA (t : ATree) (ht : aOkT okT t = true) : aOkS okT (parenA t) = true := by
  induction t with
  | op name => simpa only [parenA, aOkS, aOk, aOkT, Bool.and_true] using ht
  | src => rfl
  | input i => rfl
  | app f x ihf ihx =>
    simp only [aOkT, Bool.and_eq_true] at ht
    simp only [parenA, aOkS, aOk, aOkG, ihf ht.1, ihx ht.2, Bool.and_self]
  | ann e T ih =>
    simp only [aOkT, Bool.and_eq_true] at ht
    simp only [parenA, aOkS, aOk, aOkG, ih ht.1, ht.2, Bool.and_self]

theorem aOkS_withArgs (sp : List AItem) (args : List (List AItem)) (hh : aOkS okT sp = true)
    (ha : aOkG okT args = true) : aOkS okT (withArgs sp args) = true := by
  cases args with
  | nil => exact hh
  | cons a as => simp only [withArgs, aOkS_append, aOkS, aOk, hh, ha, Bool.and_self]

theorem aOkS_callA (t : ATree) (ht : aOkT okT t = true) :
    ∀ args, aOkG okT args = true → aOkS okT (callA t args) = true := by
  induction t with
  | op name =>
    intro args ha
    exact aOkS_withArgs okT _ _ (by simpa only [aOkS, aOk, aOkT, Bool.and_true] using ht) ha
  | src => intro args ha; exact aOkS_withArgs okT _ _ rfl ha
  | input i => intro args ha; exact aOkS_withArgs okT _ _ rfl ha
  | app f x ihf ihx =>
    intro args ha
    simp only [aOkT, Bool.and_eq_true] at ht
    simp only [callA]
    apply ihf ht.1
    simp only [aOkG, ihx ht.2 [] rfl, ha, Bool.and_self]
  | ann e T ih =>
    intro args ha
    simp only [aOkT, Bool.and_eq_true] at ht
    apply aOkS_withArgs okT _ _ _ ha
    simp only [aOkS_append, aOkS, aOk, ih ht.1 [] rfl, ht.2, Bool.and_self]

theorem aOkS_renderA (s : Style) (t : ATree) (ht : aOkT okT t = true) : aOkS okT (renderA s t) = true := by
  cases s with
  | juxta => exact aOkS_juxtaA okT t ht
  | binary => exact aOkS_binaryA okT t ht
  | paren => exact aOkS_parenA okT t ht
  | call => exact aOkS_callA okT t ht [] rfl

end oks

theorem atoks_append (L : Lang) (a b : List AItem) : atoks L (a ++ b) = atoks L a ++ atoks L b := by
  induction a with
  | nil => simp only [List.nil_append, atoks]
  | cons i a ih => simp only [List.cons_append, atoks, ih, List.append_assoc]

/-! ## the tree theorem -/

theorem parse_render_tree {S E : Type} (P : PLang) (B : Builder S E) (inputs : List E)
    (okT : Ty → Bool) (hI : ∀ T, okT T = true → InlineOk P T)
    (s : Style) (t : ATree) (ht : aOkT okT t = true) (st0 : S) :
    parseExprToks P B inputs st0 (atoks P.types (renderA s t)) = evalA B inputs (styleFlag s) st0 t := by
  rw [parseExprToks_atoks P B inputs okT hI st0 _ (aOkS_renderA okT s t ht)]
  exact denote_of_someR B inputs st0 _ _ (den_renderA B inputs s t st0)

end Tfv.NotationAnn
