import Tfv.Model
import Tfv.Spec.Matches
import Tfv.Proofs.QuerySolve
import Tfv.Proofs.QueryCorollaries
import Tfv.Proofs.QueryTotal
import Tfv.Props.C01
import Tfv.Props.C20
/-!
# C11 — the query generated from a task matches exactly the workflows that contain the described flow
Statements only; the proofs are in `Tfv/Proofs/Query*.lean`, the specification in `Tfv/Spec/Matches.lean`.
-/
namespace Tfv.C11
open Tfv

/-! ## Part A — `solve`/`evalQuery` is a basic-graph-pattern semantics -/

/-- Every environment that `solve` returns (started from the empty environment) satisfies every clause. -/
theorem C11_solve_sound (g : List Triple) (wf : Node) (univ : List Node) (cs : List QClause) (e : QEnv)
    (h : e ∈ solve g wf univ cs [[]]) : SatAll g wf e cs :=
  solve_sound_nil h

/-- If an assignment `ρ` satisfies every clause, and gives the variables in subject position of a `p?`
triple values in `univ`, then `solve` returns an environment, and that environment is part of `ρ`. -/
theorem C11_solve_complete (g : List Triple) (wf : Node) (univ : List Node) (cs : List QClause) (ρ : QEnv)
    (hs : SatAll g wf ρ cs) (hu : OptSubjectsIn univ wf ρ cs) :
    ∃ e ∈ solve g wf univ cs [[]], EnvLe e ρ :=
  solve_complete g wf univ ρ cs [[]] ⟨[], by simp, envLe_nil ρ⟩ hs hu

/-- `pathPairs` enumerates exactly the pairs that satisfy the path and agree with the known ends
(for `p?` between two unknown ends, the reflexive pairs range over `univ`). -/
theorem C11_pathPairs (g : List Triple) (univ : List Node) (p : QPath) (sa ob : Option Node) (a b : Node)
    (hu : ∀ n, p = .opt n → sa = none → ob = none → a = b → a ∈ univ) :
    (a, b) ∈ pathPairs g univ p sa ob ↔ (pathHolds g p a b = true ∧ endOk sa a ∧ endOk ob b) :=
  ⟨pathPairs_sound g univ p sa ob a b, fun h => pathPairs_complete g univ p sa ob a b h.1 h.2.1 h.2.2 hu⟩

/-- `extendTriple` returns only extensions of the environment that satisfy the triple … -/
theorem C11_extend_sound (g : List Triple) (wf : Node) (univ : List Node) (env e' : QEnv) (t : QTriple)
    (h : e' ∈ extendTriple g wf univ env t) : EnvLe env e' ∧ SatTriple g wf e' t :=
  extendTriple_sound h

/-- … and below every satisfying assignment that extends the environment there is a returned extension
(the returned extensions are the minimal ones). -/
theorem C11_extend_complete (g : List Triple) (wf : Node) (univ : List Node) (env ρ : QEnv) (t : QTriple)
    (hle : EnvLe env ρ) (hsat : SatTriple g wf ρ t)
    (hu : ∀ n v a, t.p = .opt n → t.s = .var v → termVal wf ρ (.var v) = some a → a ∈ univ) :
    ∃ e' ∈ extendTriple g wf univ env t, EnvLe e' ρ :=
  extendTriple_complete hle hsat hu

/-- A query is accepted only if pre-filter and body are satisfiable (no hypothesis). -/
theorem C11_eval_sound (q : Query) (g : List Triple) (wf : Node) (h : evalQuery q g wf = true) :
    Satisfiable g wf q.prefilter ∧ Satisfiable g wf q.body :=
  eval_sound h

/-- A query whose pre-filter and body are satisfiable by assignments that take graph nodes at the
subjects of `p?` triples is accepted (no hypothesis on the query). -/
theorem C11_eval_complete (q : Query) (g : List Triple) (wf : Node)
    (h1 : SatisfiableIn (graphNodes g) g wf q.prefilter) (h2 : SatisfiableIn (graphNodes g) g wf q.body) :
    evalQuery q g wf = true :=
  eval_complete h1 h2

/-- Exact characterisation, when `p?` is only used between variables (true of every generated query):
the query is accepted iff pre-filter and body are satisfiable over the nodes of the graph. -/
theorem C11_eval_iff (q : Query) (g : List Triple) (wf : Node)
    (h1 : OptVars q.prefilter) (h2 : OptVars q.body) :
    evalQuery q g wf = true ↔
      SatisfiableIn (graphNodes g) g wf q.prefilter ∧ SatisfiableIn (graphNodes g) g wf q.body :=
  eval_iff_in q g wf h1 h2

/-- With unrestricted assignments the equivalence needs the query to be grounded: every variable at
the subject of a `p?` triple also occurs in a stand-alone triple with another path. -/
theorem C11_eval_iff_partial (q : Query) (g : List Triple) (wf : Node)
    (h1 : Grounded q.prefilter) (h2 : Grounded q.body) :
    evalQuery q g wf = true ↔ Satisfiable g wf q.prefilter ∧ Satisfiable g wf q.body :=
  eval_iff_grounded q g wf h1 h2

/-- Counterexample to the unrestricted equivalence: `?x :depends? ?y` over the empty graph is satisfied by
`x = y = anything`, but a zero-length path between unbound variables ranges over the nodes of the graph. -/
theorem C11_eval_iff_counterexample :
    let q : Query := { body := [.one ⟨.var [0], .opt "depends", .var [1]⟩] }
    evalQuery q [] (.res "w") = false ∧ Satisfiable [] (.res "w") q.prefilter ∧ Satisfiable [] (.res "w") q.body := by
  refine ⟨by decide, ⟨[], fun c hc => by cases hc⟩, ⟨[([0], .res "w"), ([1], .res "w")], ?_⟩⟩
  intro c hc
  simp only [List.mem_singleton] at hc
  subst hc
  exact ⟨.res "w", .res "w", rfl, rfl, by decide⟩

/-! ### non-vacuity for Part A: a small graph and a clause list with a `p?` clause -/

def b (n : Nat) : Node := .b n
def w : Node := .res "wf"

/-- a workflow `w` with three concept nodes: `b 0` (output, via `f`) depends on `b 1` (via `g`), which depends on the input `b 2` -/
def exGraph : List Triple := [
  (w, .tf "output", b 0), (b 0, .tf "via", .ns "f"), (b 0, .tf "subtypeOf", .ns "A"), (b 0, .tf "depends", b 1),
  (b 1, .tf "via", .ns "g"), (b 1, .tf "subtypeOf", .ns "B"), (b 1, .tf "subtypeOf", .ns "A"), (b 1, .tf "depends", b 2),
  (b 0, .tf "depends", b 2), (b 2, .tf "subtypeOf", .ns "A"), (w, .tf "input", b 2),
  (w, .tf "containsOperation", .ns "f"), (w, .tf "containsOperation", .ns "g"),
  (w, .tf "containsType", .ns "A"), (w, .tf "containsType", .ns "B")]

def exClauses : List QClause :=
  [.one ⟨.workflow, .outputFrom, .var [0]⟩, .one ⟨.var [0], .opt "depends", .var [1]⟩,
   .union [⟨.var [1], .pred "via", .node (.ns "g")⟩, ⟨.var [1], .pred "via", .node (.ns "h")⟩]]

example : solve exGraph w (graphNodes exGraph) exClauses [[]] =
    [[([0], b 0), ([1], b 1)]] := by decide +kernel

example : SatAll exGraph w [([0], b 0), ([1], b 1)] exClauses :=
  C11_solve_sound _ _ (graphNodes exGraph) _ _ (by decide +kernel)

example : OptVars exClauses ∧ ¬ Grounded [QClause.one ⟨.var [0], .opt "depends", .var [1]⟩] := by
  refine ⟨?_, ?_⟩
  · intro c hc t ht n hp
    simp only [exClauses, List.mem_cons, List.not_mem_nil, or_false] at hc
    rcases hc with rfl | rfl | rfl <;> simp [QClause.triples] at ht <;> (try rcases ht with rfl | rfl) <;> simp_all
  · intro h
    obtain ⟨t', ht', hne, _⟩ := h (.one ⟨.var [0], .opt "depends", .var [1]⟩) (by simp)
      ⟨.var [0], .opt "depends", .var [1]⟩ (by simp [QClause.triples]) "depends" [0] rfl rfl
    simp only [List.mem_singleton, QClause.one.injEq] at ht'
    subst ht'
    exact hne "depends" rfl

/-! ## the predicates of a generated query -/

/-- Every predicate name that a generated query tests (whatever the flags) is one of the eight queried
predicates, and each of those is a predicate that the graph generator emits. -/
theorem C11_predicates (G : GLang) (t : QTask) (f : QFlags) (q : Query) (h : genQuery G t f = .ok q) :
    ∀ n ∈ q.preds, n ∈ Generated.queriedPredicates ∧ n ∈ Generated.emittedPredicates :=
  genQuery_preds h

/-- Every triple of a generated query has one of ten shapes (`GenTriple`), for the variable assignment `a`
computed by `assignAll`; the `:depends`/`:depends?` triples are between the two ends of a recorded link. -/
theorem C11_shapes (G : GLang) (t : QTask) (f : QFlags) (q : Query) (h : genQuery G t f = .ok q) :
    ∃ a, assignAll t f = .ok a ∧ ∀ c ∈ q.prefilter ++ q.body, ∀ tr ∈ c.triples, GenTriple f a tr := by
  obtain ⟨a, ha, hq⟩ := genQuery_ok h
  exact ⟨a, ha, genFrom_shape hq⟩

/-- Generated queries use `p?` between variables only, so `C11_eval_iff` applies to them. -/
theorem C11_generated_optVars (G : GLang) (t : QTask) (f : QFlags) (q : Query) (h : genQuery G t f = .ok q) :
    OptVars q.prefilter ∧ OptVars q.body :=
  genQuery_optVars h

/-- For a generated query (not unfolded) the unrestricted equivalence does hold: every variable, also one that
only occurs in `:depends?` clauses, is linked through its successors to an output variable, so a satisfying
assignment can only take nodes of the graph there. -/
theorem C11_generated_eval_iff (G : GLang) (t : QTask) (f : QFlags) (q : Query)
    (hf : f.unfoldTree = false) (hq : genQuery G t f = .ok q) (g : List Triple) (wf : Node) :
    evalQuery q g wf = true ↔ Satisfiable g wf q.prefilter ∧ Satisfiable g wf q.body :=
  generated_eval_iff hf hq g wf

/-! ## Part B — the generated query means `Matches` -/

/-- What `assign_variables` computes for a task that is not unfolded (if it succeeds: no cycle on a path):
one variable `[k]` per step `k` reachable from an output, each once; a link `([c],[b])` for exactly the
pairs with `c` reachable and `b` a predecessor of `c`; the outputs; the reachable inputs. -/
theorem C11_assign_reachable (t : QTask) (f : QFlags) (hf : f.unfoldTree = false) (a : QAssign)
    (h : assignAll t f = .ok a) : AssignOk t a :=
  assignAll_ok t f hf a h

/-- `genQuery` is `assignAll` followed by the clause generation `genFrom`. -/
theorem C11_genQuery_eq (G : GLang) (t : QTask) (f : QFlags) :
    genQuery G t f = (match assignAll t f with
      | .error e => .error e
      | .ok a => genFrom G t f a) :=
  genQuery_eq G t f

/-- The declared subtype order, decided by `leTyB`, is a partial order on well-formed types (C01), and on
every smaller domain. -/
theorem C11_porder (L : Lang) (wfL : WF L) (P : Ty → Prop) :
    C20.POrder (leTyB L) (fun T => wfTy L T = true ∧ P T) :=
  ⟨fun x hx => (C01.C01_decides L wfL x x hx.1 hx.1).2 (C01.C01_refl L wfL x hx.1),
   fun x y z hx hy hz h1 h2 => (C01.C01_decides L wfL x z hx.1 hz.1).2
     (C01.C01_trans L wfL x y z hx.1 hy.1 hz.1 ((C01.C01_decides L wfL x y hx.1 hy.1).1 h1)
       ((C01.C01_decides L wfL y z hy.1 hz.1).1 h2)),
   fun x y hx hy h1 h2 => C01.C01_antisymm L wfL x y hx.1 hy.1
     ((C01.C01_decides L wfL x y hx.1 hy.1).1 h1) ((C01.C01_decides L wfL y x hy.1 hx.1).1 h2)⟩

/-- **C11.** For a task whose query can be generated (no cycle on a path from an output, the used types have
URIs) and not unfolded: the query accepts workflow `wf` of graph `g` iff the
task matches it (`Matches`, see `Tfv/Spec/Matches.lean`). The pre-filter on types is a reduced bag; it
means "every step's type requirement is met" when `leTyB` is a partial order on a domain `D` of the task's
types and the `containsType` set of the workflow is closed under supertypes within `D` (C20). -/
theorem C11_query (G : GLang) (t : QTask) (f : QFlags) (q : Query)
    (hf : f.unfoldTree = false) (hq : genQuery G t f = .ok q)
    (g : List Triple) (wf : Node) (D : Ty → Prop) (po : C20.POrder (leTyB G.types) D)
    (hD : ∀ k, StepReach t k → ∀ T ∈ (t.step k).types, D T)
    (hup : C20.UpClosed (leTyB G.types) D (HasType G g wf)) :
    evalQuery q g wf = true ↔ Matches G t f g wf := by
  refine query_iff hf hq g wf (fun _ reqs hreqs => ?_)
  refine satBag_bagOf (leTyB G.types) D po.refl po.trans po.antisymm (HasType G g wf) hup reqs ?_
  intro r hr x hx
  obtain ⟨k, hk, rfl⟩ := hreqs r hr
  exact hD k hk x hx

/-- `assign_variables` succeeds exactly when no step reachable from an output lies on a cycle of `from_` links
(the fuel `steps.length + 2` of the model always suffices). -/
theorem C11_assign_iff (t : QTask) (f : QFlags) (hf : f.unfoldTree = false) :
    (∃ a, assignAll t f = .ok a) ↔ NoCycle t :=
  assignAll_ok_iff t f hf

/-- A query is generated for every task without a reachable cycle whose (reachable) types all have URIs … -/
theorem C11_generates (G : GLang) (t : QTask) (f : QFlags) (hf : f.unfoldTree = false) (hnc : NoCycle t)
    (hU : ∀ k, StepReach t k → ∀ T ∈ (t.step k).types, HasUri G T) : ∃ q, genQuery G t f = .ok q :=
  genQuery_total hf hnc hU

/-- … and only for tasks without a reachable cycle. -/
theorem C11_generates_only (G : GLang) (t : QTask) (f : QFlags) (q : Query) (hf : f.unfoldTree = false)
    (h : genQuery G t f = .ok q) : NoCycle t :=
  genQuery_ok_nocycle hf h

/-- **C11**, in one statement: an acyclic task with URIs has a query, and that query accepts exactly the
workflows that the task matches. -/
theorem C11_query_acyclic (G : GLang) (t : QTask) (f : QFlags) (hf : f.unfoldTree = false) (hnc : NoCycle t)
    (D : Ty → Prop) (po : C20.POrder (leTyB G.types) D)
    (hD : ∀ k, StepReach t k → ∀ T ∈ (t.step k).types, D T ∧ HasUri G T) :
    ∃ q, genQuery G t f = .ok q ∧ ∀ (g : List Triple) (wf : Node),
      C20.UpClosed (leTyB G.types) D (HasType G g wf) → (evalQuery q g wf = true ↔ Matches G t f g wf) := by
  obtain ⟨q, hq⟩ := C11_generates G t f hf hnc (fun k hk T hT => (hD k hk T hT).2)
  exact ⟨q, hq, fun g wf hup => C11_query G t f q hf hq g wf D po (fun k hk T hT => (hD k hk T hT).1) hup⟩

/-- Without the pre-filter on types no order hypothesis is needed. -/
theorem C11_query_noTypes (G : GLang) (t : QTask) (f : QFlags) (q : Query)
    (hf : f.unfoldTree = false) (hty : f.byTypes = false)
    (hq : genQuery G t f = .ok q) (g : List Triple) (wf : Node) :
    evalQuery q g wf = true ↔ Matches G t f g wf :=
  query_iff hf hq g wf (fun h => by rw [hty] at h; cases h)

/-! ## Part C — consequences -/

/-- A task that asks for a part of another task (fewer outputs, inputs or links, the same constraints on the
steps it keeps) matches whatever the other task matches, with the same assignment. -/
theorem C11_subtask (G : GLang) (t' t : QTask) (f : QFlags) (g : List Triple) (wf : Node)
    (h : SubTask t' t) (hm : Matches G t f g wf) : Matches G t' f g wf := by
  obtain ⟨hh, hm⟩ := hm
  exact ⟨hh, h.matchesBy hm⟩

/-- Dropping a step never loses a match: removing the link `c → j` (so that step `j`, and whatever is only
reachable through it, is no longer asked for) preserves `Matches`. -/
theorem C11_drop_step (G : GLang) (t : QTask) (f : QFlags) (g : List Triple) (wf : Node) (c j : Nat)
    (hm : Matches G t f g wf) : Matches G (t.dropLink c j) f g wf :=
  C11_subtask G _ t f g wf (dropLink_subTask t c j) hm

/-- Generalising types never loses a match: if every type alternative of every step is replaced by
supertypes, the task still matches, provided the `subtypeOf` sets of the nodes and the `containsType` set of the
workflow are closed under supertypes within the domain `D` of the types involved (C07 for generated graphs). -/
theorem C11_generalise (G : GLang) (t t' : QTask) (f : QFlags) (g : List Triple) (wf : Node)
    (D : Ty → Prop) (po : C20.POrder (leTyB G.types) D)
    (h : GeneralisedTask (leTyB G.types) t t')
    (hD : ∀ k, ∀ T ∈ (t.step k).types, D T) (hD' : ∀ k, ∀ T ∈ (t'.step k).types, D T)
    (hup : UpClosedSubtypeOf G D g) (hupc : C20.UpClosed (leTyB G.types) D (HasType G g wf))
    (hm : Matches G t f g wf) : Matches G t' f g wf := by
  obtain ⟨hh, hm⟩ := hm
  exact ⟨hh, h.matchesBy G D po.refl po.trans po.antisymm hD hD' hup hupc hm⟩

/-- Requiring an absent operator never matches: a reachable step that requires exactly `o`, while the workflow
does not contain `o` (pre-filter on) or no node is computed via `o` (chronology on). -/
theorem C11_absent_operator (G : GLang) (t : QTask) (f : QFlags) (g : List Triple) (wf : Node) (k : Nat) (o : String)
    (hk : StepReach t k) (hops : (t.step k).ops = [o])
    (habs : (f.byOperators = true ∧ (wf, Node.tf "containsOperation", Node.ns o) ∉ g) ∨
            (f.byChronology = true ∧ ∀ n, (n, Node.tf "via", Node.ns o) ∉ g)) :
    ¬ Matches G t f g wf :=
  not_matches_absent_operator hk hops habs

/-- Requiring an absent type never matches. -/
theorem C11_absent_type (G : GLang) (t : QTask) (f : QFlags) (g : List Triple) (wf : Node) (k : Nat)
    (hk : StepReach t k) (hne : (t.step k).types ≠ [])
    (habs : (f.byTypes = true ∧ ∀ T ∈ (t.step k).types, ¬ HasType G g wf T) ∨
            (f.byChronology = true ∧ ∀ n, ∀ T ∈ unionOf (leTyB G.types) false (t.step k).types, ∀ u,
              typeUri G T.toTerm = .ok u → (n, Node.tf "subtypeOf", u) ∉ g)) :
    ¬ Matches G t f g wf :=
  not_matches_absent_type hk hne habs

/-- A task read off a workflow's own graph matches it, under every choice of flags: the steps are nodes of the
graph (through `h`), their operators, types and links are triples of the graph, and the workflow has the
membership triples the graph generator emits. -/
theorem C11_self (G : GLang) (t : QTask) (f : QFlags) (g : List Triple) (wf : Node) (h : Nat → Node)
    (hr : ReadOff G t g wf h) : Matches G t f g wf :=
  ⟨h, hr.matchesBy f⟩

/-! ## non-vacuity: a three-step task, the graph `exGraph`, and every theorem above instantiated -/

def exL : Lang := builtinDecls ++ [⟨"A", [], none⟩, ⟨"B", [], some 5⟩]
def exG : GLang := { types := exL }
def tA : Ty := .app 5 []
def tB : Ty := .app 6 []
/-- output step 0 (an `A` via `f`) from step 1 (a `B` or an `A`, via `g`) from the input step 2 (an `A`) -/
def exTask : QTask :=
  { steps := [{ types := [tA], ops := ["f"], from_ := [1] }, { types := [tB, tA], ops := ["g"], from_ := [2] },
              { types := [tA], ops := [], from_ := [] }],
    outputs := [0], inputs := [2] }
def exD (T : Ty) : Prop := wfTy exL T = true ∧ (T = tA ∨ T = tB)
def exQuery : Query := match genQuery exG exTask {} with
  | .ok q => q
  | .error _ => {}

theorem exQuery_ok : genQuery exG exTask {} = .ok exQuery := by
  unfold exQuery
  cases h : genQuery exG exTask {} with
  | ok q => rfl
  | error e =>
    have : (match genQuery exG exTask {} with | .ok _ => true | .error _ => false) = true := by decide +kernel
    rw [h] at this
    cases this

theorem exTask_types : ∀ k, ∀ T ∈ (exTask.step k).types, exD T := by
  intro k T hT
  have hA : exD tA := ⟨by decide, Or.inl rfl⟩
  have hB : exD tB := ⟨by decide, Or.inr rfl⟩
  rcases k with _ | _ | _ | k <;> simp [exTask, QTask.step] at hT
  · subst hT; exact hA
  · rcases hT with rfl | rfl
    · exact hB
    · exact hA
  · subst hT; exact hA

theorem hasA : HasType exG exGraph w tA := ⟨.ns "A", rfl, by decide⟩
theorem hasB : HasType exG exGraph w tB := ⟨.ns "B", rfl, by decide⟩

theorem exUp : C20.UpClosed (leTyB exG.types) exD (HasType exG exGraph w) := by
  intro x y _ hy _ _
  rcases hy.2 with rfl | rfl
  · exact hasA
  · exact hasB

theorem exMatches : Matches exG exTask {} exGraph w :=
  (C11_query exG exTask {} exQuery rfl exQuery_ok exGraph w exD
    (C11_porder exL (C01.C01_wfLang exL (by decide)) _) (fun k _ => exTask_types k) exUp).1 (by decide +kernel)


/-- the query accepts: C11 is not vacuous on the accepting side … -/
example : evalQuery exQuery exGraph w = true := by decide +kernel

theorem exReach : ∀ k, StepReach exTask k → k = 0 ∨ k = 1 ∨ k = 2 := by
  intro k hk
  induction hk with
  | out ho => simp [exTask] at ho; exact Or.inl ho
  | step _ hb ih =>
    rcases ih with rfl | rfl | rfl <;> simp [exTask, QTask.step] at hb
    · exact Or.inr (Or.inl hb)
    · exact Or.inr (Or.inr hb)

/-- … the same task is read off the graph (`C11_self` applies with `h = b`) -/
theorem exReadOff : ReadOff exG exTask exGraph w b := by
  refine ⟨?_, ?_, ?_, ?_, ?_, ?_, ?_⟩
  · intro o ho
    simp [exTask] at ho
    subst ho
    decide
  · intro i hi _
    simp [exTask] at hi
    subst hi
    decide
  · intro k hk o ho
    rcases exReach k hk with rfl | rfl | rfl <;> simp [exTask, QTask.step] at ho <;> subst ho <;> decide
  · intro k hk T hT
    rcases exReach k hk with rfl | rfl | rfl <;> simp [exTask, QTask.step] at hT
    · subst hT; exact ⟨.ns "A", rfl, by decide⟩
    · rcases hT with rfl | rfl
      · exact ⟨.ns "B", rfl, by decide⟩
      · exact ⟨.ns "A", rfl, by decide⟩
    · subst hT; exact ⟨.ns "A", rfl, by decide⟩
  · intro c b' hc hb
    rcases exReach c hc with rfl | rfl | rfl <;> simp [exTask, QTask.step] at hb <;> subst hb <;> decide
  · intro n o h
    simp [exGraph, b, w] at h
    rcases h with ⟨_, rfl⟩ | ⟨_, rfl⟩ <;> decide
  · intro n u h
    simp [exGraph, b, w] at h
    rcases h with ⟨_, rfl⟩ | ⟨_, rfl⟩ | ⟨_, rfl⟩ | ⟨_, rfl⟩ <;> decide

example : Matches exG exTask {} exGraph w := C11_self exG exTask {} exGraph w b exReadOff

/-- dropping the input step keeps the match, and the new query still accepts -/
example : Matches exG (exTask.dropLink 1 2) {} exGraph w := C11_drop_step exG exTask {} exGraph w 1 2 exMatches
example : (match genQuery exG (exTask.dropLink 1 2) {} with
    | .ok q => evalQuery q exGraph w
    | .error _ => false) = true := by decide +kernel

/-- a task that requires the absent operator `h` at its output does not match, and its query rejects -/
def exTaskH : QTask := { exTask with steps := [{ types := [tA], ops := ["h"], from_ := [1] }] ++ exTask.steps.drop 1 }

example : ¬ Matches exG exTaskH {} exGraph w :=
  C11_absent_operator exG exTaskH {} exGraph w 0 "h" (.out (by simp [exTaskH, exTask])) rfl
    (Or.inl ⟨rfl, by decide⟩)
example : (match genQuery exG exTaskH {} with
    | .ok q => evalQuery q exGraph w
    | .error _ => true) = false := by decide +kernel

/-- generalising step 1 from "`B` or `A`" to "`A`": the hypotheses of `C11_generalise` hold of the example graph -/
def exTaskGen : QTask :=
  { exTask with steps := [{ types := [tA], ops := ["f"], from_ := [1] }, { types := [tA], ops := ["g"], from_ := [2] },
                          { types := [tA], ops := [], from_ := [] }] }

theorem leAA : leTyB exL tA tA = true := by decide
theorem leBA : leTyB exL tB tA = true := by decide
theorem leAB : leTyB exL tA tB = false := by decide

theorem exGeneralised : GeneralisedTask (leTyB exG.types) exTask exTaskGen := by
  refine ⟨rfl, rfl, ?_, ?_, ?_⟩
  · intro k
    rcases k with _ | _ | _ | k <;> rfl
  · intro k
    rcases k with _ | _ | _ | k <;> rfl
  · intro k
    rcases k with _ | _ | _ | k <;> simp [GeneralisesTypes, exTask, exTaskGen, QTask.step]
    · exact leAA
    · exact ⟨leBA, leAA⟩
    · exact leAA

theorem exUpSub : UpClosedSubtypeOf exG exD exGraph := by
  intro n T T' u hT hT' hu hg hle
  rcases hT.2 with rfl | rfl <;> rcases hT'.2 with rfl | rfl
  · exact ⟨u, hu, hg⟩
  · rw [show exG.types = exL from rfl, leAB] at hle
    cases hle
  · have : u = .ns "B" := by
      have h2 : typeUri exG tB.toTerm = .ok (.ns "B") := rfl
      rw [h2] at hu
      simp only [Except.ok.injEq] at hu
      exact hu.symm
    subst this
    simp [exGraph, b, w] at hg
    subst hg
    exact ⟨.ns "A", rfl, by decide⟩
  · exact ⟨u, hu, hg⟩

theorem exTaskGen_types : ∀ k, ∀ T ∈ (exTaskGen.step k).types, exD T := by
  intro k T hT
  have hA : exD tA := ⟨by decide, Or.inl rfl⟩
  rcases k with _ | _ | _ | k <;> simp [exTaskGen, QTask.step] at hT <;> subst hT <;> exact hA

example : Matches exG exTaskGen {} exGraph w :=
  C11_generalise exG exTask exTaskGen {} exGraph w exD (C11_porder exL (C01.C01_wfLang exL (by decide)) _)
    exGeneralised exTask_types exTaskGen_types exUpSub exUp exMatches

/-- the example task has no cycle (its query was generated), a task whose output feeds itself has one and is refused -/
example : NoCycle exTask := C11_generates_only exG exTask {} exQuery rfl exQuery_ok

example : (match genQuery exG { exTask with steps := [{ from_ := [0] }] } {} with
    | .error .cyclic => true
    | _ => false) = true := by decide +kernel

/-- the predicates of the example query -/
example : exQuery.preds.eraseDups = ["containsOperation", "containsType", "output", "from", "subtypeOf", "input", "via", "depends"] := by
  decide +kernel

/-- what `assignAll` computes for the example -/
example : assignAll exTask {} = .ok ⟨[([0], 0), ([1], 1), ([2], 2)], [([1], [2]), ([0], [1])], [[0]], [[2]]⟩ := by rfl

end Tfv.C11
