import Tfv.Spec.History
/-!
# Specification: the part of a store WITH pending constraints that a use may touch (C16, constrained engine)

With pending constraints, binding a variable re-checks the constraints attached to it (`check_constraints`),
which unifies the terms of these constraints, which may bind further variables, … So the part of the store a use
working on a term `t` may read or write is the closure of the variables of `t` under

* the bindings of reachable variables (as in `Reach`), and
* the terms of every constraint held by the constraint set of a reachable variable.

`ReachC σ t v`: the variable `v` is in this closure; `ReachCset σ t k`: the constraint-set object `k` belongs to an
(allocated) reachable variable; `ReachConstr σ t c`: the constraint `c` is a member of such a set.

A `Region` is any triple of sets (variables, constraint-set ids, constraint ids) that is closed in this sense
(`ClosedC`); `FrC R σ σ'` says the store `σ'` differs from `σ` only inside the region `R` (and by allocation).
-/
namespace Tfv

/-- `v` is reachable from `t` in `σ` through bindings and through the constraints attached to reachable variables -/
inductive ReachC (σ : Store) : Term → Nat → Prop
  | here {t : Term} {v : Nat} : VarIn v t → ReachC σ t v
  | bound {t : Term} {w : Nat} {b : Term} {v : Nat} :
      ReachC σ t w → (getVar σ w).bound = some b → VarIn v b → ReachC σ t v
  | constr {t : Term} {w c : Nat} {u : Term} {v : Nat} :
      ReachC σ t w → c ∈ getCset σ (getVar σ w).cset → u ∈ constrTerms (getConstr σ c) → VarIn v u →
      ReachC σ t v

/-- the constraint-set object `k` is the one of an allocated variable reachable from `t` -/
def ReachCset (σ : Store) (t : Term) (k : Nat) : Prop :=
  ∃ w, w < σ.vars.length ∧ ReachC σ t w ∧ (getVar σ w).cset = k

/-- the constraint `c` is held by the constraint set of an allocated variable reachable from `t` -/
def ReachConstr (σ : Store) (t : Term) (c : Nat) : Prop :=
  ∃ k, ReachCset σ t k ∧ c ∈ getCset σ k

/-- a part of a store: a set of variables, of constraint-set ids and of constraint ids -/
structure Region where
  S : Nat → Prop
  K : Nat → Prop
  C : Nat → Prop

/-- `v` is in `S` and allocated -/
def InStore (σ : Store) (S : Nat → Prop) (v : Nat) : Prop := S v ∧ v < σ.vars.length

/-- all variables of the term are allocated members of `S` -/
def TermInR (σ : Store) (S : Nat → Prop) (t : Term) : Prop := ∀ v, VarIn v t → InStore σ S v

/-- the region is closed in `σ`: bindings of its variables mention allocated members only, the constraint set of an
allocated member belongs to it, the members of its constraint sets are allocated constraints of the region whose terms
mention allocated members only; everything not yet allocated belongs to the region -/
structure ClosedC (σ : Store) (R : Region) : Prop where
  bnd : ∀ w b, R.S w → (getVar σ w).bound = some b → TermInR σ R.S b
  cs : ∀ w, w < σ.vars.length → R.S w → R.K (getVar σ w).cset
  mem : ∀ k c, R.K k → c ∈ getCset σ k → R.C c ∧ c < σ.constrs.length
  ctm : ∀ c u, c < σ.constrs.length → R.C c → u ∈ constrTerms (getConstr σ c) → TermInR σ R.S u
  sfr : ∀ v, σ.vars.length ≤ v → R.S v
  kfr : ∀ k, σ.csets.length ≤ k → R.K k
  cfr : ∀ c, σ.constrs.length ≤ c → R.C c

/-- `σ'` differs from `σ` only inside the region `R` (which is still closed): nothing is lost, every variable,
constraint set and constraint outside the region is exactly as before -/
structure FrC (R : Region) (σ σ' : Store) : Prop where
  len : σ.vars.length ≤ σ'.vars.length
  klen : σ.csets.length ≤ σ'.csets.length
  clen : σ.constrs.length ≤ σ'.constrs.length
  vfr : ∀ v, ¬ R.S v → getVar σ' v = getVar σ v
  kfr : ∀ k, ¬ R.K k → getCset σ' k = getCset σ k
  cfr : ∀ c, ¬ R.C c → getConstr σ' c = getConstr σ c
  closed : ClosedC σ' R

/-- the region reachable from a set of root terms given by the predicate `P` on variables (`P v`: `v` is reachable
from one of the roots), together with everything not yet allocated -/
def reachRegion (σ : Store) (PV PK PC : Nat → Prop) : Region where
  S := fun v => PV v ∨ σ.vars.length ≤ v
  K := fun k => PK k ∨ σ.csets.length ≤ k
  C := fun c => PC c ∨ σ.constrs.length ≤ c

/-- two stores of the same sizes carry the same variable records, constraint sets and constraints on the region `R`
(and may differ arbitrarily elsewhere) -/
structure SameOnC (R : Region) (τ τ' : Store) : Prop where
  vlen : τ'.vars.length = τ.vars.length
  klen : τ'.csets.length = τ.csets.length
  clen : τ'.constrs.length = τ.constrs.length
  vsame : ∀ v, R.S v → getVar τ' v = getVar τ v
  ksame : ∀ k, R.K k → getCset τ' k = getCset τ k
  csame : ∀ c, R.C c → getConstr τ' c = getConstr τ c

/-- two outcomes of a store operation are the same as far as the region `R` is concerned: the same error, or
resulting stores that agree on `R` -/
def SameResultC (R : Region) : Except Err Store → Except Err Store → Prop
  | .error e, r' => r' = .error e
  | .ok τ1, r' => ∃ τ1', r' = .ok τ1' ∧ SameOnC R τ1 τ1'

/-- the same for operations that also return a value (a type, a flag): the same error, or the same value and
resulting stores that agree on `R` -/
def SameOutcomeC {α : Type} (R : Region) : Except Err (Store × α) → Except Err (Store × α) → Prop
  | .error e, r' => r' = .error e
  | .ok (τ1, x), r' => ∃ τ1', r' = .ok (τ1', x) ∧ SameOnC R τ1 τ1'

end Tfv
