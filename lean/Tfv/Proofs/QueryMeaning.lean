import Tfv.Proofs.QueryGen
import Tfv.Proofs.QuerySolve
import Tfv.Proofs.Bag
/-!
# What the generated clauses mean (pieces)
-/
namespace Tfv

variable {g : List Triple} {wf : Node} {env : QEnv}

theorem satAll_nil : SatAll g wf env [] := fun _ h => by cases h

theorem satAll_append {xs ys : List QClause} :
    SatAll g wf env (xs ++ ys) ↔ SatAll g wf env xs ∧ SatAll g wf env ys := by
  unfold SatAll
  simp only [List.mem_append]
  exact ⟨fun h => ⟨fun c hc => h c (Or.inl hc), fun c hc => h c (Or.inr hc)⟩,
    fun h c hc => hc.elim (h.1 c) (h.2 c)⟩

theorem satAll_cons {c : QClause} {cs : List QClause} :
    SatAll g wf env (c :: cs) ↔ SatClause g wf env c ∧ SatAll g wf env cs := by
  unfold SatAll
  simp only [List.mem_cons, forall_eq_or_imp]

theorem satAll_flatten {l : List (List QClause)} :
    SatAll g wf env l.flatten ↔ ∀ cs ∈ l, SatAll g wf env cs := by
  unfold SatAll
  simp only [List.mem_flatten]
  exact ⟨fun h cs hcs c hc => h c ⟨cs, hcs, hc⟩, fun h c ⟨cs, hcs, hc⟩ => h cs hcs c hc⟩

theorem satTriple_var_node {v : QVar} {n : String} {u : Node} :
    SatTriple g wf env ⟨.var v, .pred n, .node u⟩ ↔ ∃ a, qlookup env v = some a ∧ (a, Node.tf n, u) ∈ g := by
  unfold SatTriple
  simp only [termVal, pathHolds_pred]
  constructor
  · rintro ⟨a, b, h1, h2, h3⟩
    simp only [Option.some.injEq] at h2
    subst h2
    exact ⟨a, h1, h3⟩
  · rintro ⟨a, h1, h3⟩
    exact ⟨a, u, h1, rfl, h3⟩

theorem satTriple_wf_node {n : String} {u : Node} :
    SatTriple g wf env ⟨.workflow, .pred n, .node u⟩ ↔ (wf, Node.tf n, u) ∈ g := by
  unfold SatTriple
  simp only [termVal, pathHolds_pred]
  constructor
  · rintro ⟨a, b, h1, h2, h3⟩
    simp only [Option.some.injEq] at h1 h2
    subst h1 h2
    exact h3
  · intro h
    exact ⟨wf, u, rfl, rfl, h⟩

theorem satTriple_wf_var {p : QPath} {v : QVar} :
    SatTriple g wf env ⟨.workflow, p, .var v⟩ ↔ ∃ b, qlookup env v = some b ∧ pathHolds g p wf b = true := by
  unfold SatTriple
  simp only [termVal]
  constructor
  · rintro ⟨a, b, h1, h2, h3⟩
    simp only [Option.some.injEq] at h1
    subst h1
    exact ⟨b, h2, h3⟩
  · rintro ⟨b, h2, h3⟩
    exact ⟨wf, b, rfl, h2, h3⟩

theorem satTriple_var_var {c v : QVar} {p : QPath} :
    SatTriple g wf env ⟨.var c, p, .var v⟩ ↔
      ∃ a b, qlookup env c = some a ∧ qlookup env v = some b ∧ pathHolds g p a b = true := by
  unfold SatTriple
  simp only [termVal_var]

theorem satAll_unionClause {ts : List QTriple} :
    SatAll g wf env (unionClause ts) ↔ (ts = [] ∨ ∃ t ∈ ts, SatTriple g wf env t) := by
  unfold unionClause
  split
  · simp [satAll_nil]
  · rw [satAll_cons]
    simp [SatClause, satAll_nil]
  · rename_i h1 h2
    rw [satAll_cons]
    simp only [SatClause, satAll_nil, and_true]
    constructor
    · exact Or.inr
    · rintro (h | h)
      · exact absurd h h1
      · exact h

/-! ## unions are non-empty -/

theorem unionAdd_ne_nil {α : Type} (le : α → α → Bool) (s : Bool) (data : List α) (x : α) :
    unionAdd le s data x ≠ [] := by
  unfold unionAdd
  split
  · split
    · rename_i h
      intro hd
      rw [hd] at h
      simp at h
    · simp
  · split
    · rename_i h
      intro hd
      rw [hd] at h
      simp at h
    · simp

theorem foldl_unionAdd_ne_nil {α : Type} (le : α → α → Bool) (s : Bool) :
    ∀ (xs : List α) (acc : List α), acc ≠ [] → xs.foldl (unionAdd le s) acc ≠ [] := by
  intro xs
  induction xs with
  | nil => exact fun _ h => h
  | cons x xs ih => exact fun acc _ => ih _ (unionAdd_ne_nil le s acc x)

theorem unionOf_eq_nil {α : Type} (le : α → α → Bool) (s : Bool) (xs : List α) :
    unionOf le s xs = [] ↔ xs = [] := by
  constructor
  · intro h
    cases xs with
    | nil => rfl
    | cons x xs =>
      exact absurd h (foldl_unionAdd_ne_nil le s xs _ (unionAdd_ne_nil le s [] x))
  · rintro rfl
    rfl

theorem unionAdd_subset {α : Type} (le : α → α → Bool) (s : Bool) (data : List α) (x : α) :
    ∀ y ∈ unionAdd le s data x, y ∈ data ∨ y = x := by
  intro y hy
  unfold unionAdd at hy
  split at hy
  · split at hy
    · exact Or.inl hy
    · rcases List.mem_append.1 hy with h | h
      · exact Or.inl (List.mem_filter.1 h).1
      · exact Or.inr (by simpa using h)
  · split at hy
    · exact Or.inl hy
    · rcases List.mem_append.1 hy with h | h
      · exact Or.inl (List.mem_filter.1 h).1
      · exact Or.inr (by simpa using h)

theorem foldl_unionAdd_subset {α : Type} (le : α → α → Bool) (s : Bool) :
    ∀ (xs acc : List α), ∀ y ∈ xs.foldl (unionAdd le s) acc, y ∈ acc ∨ y ∈ xs := by
  intro xs
  induction xs with
  | nil => exact fun acc y hy => Or.inl hy
  | cons x xs ih =>
    intro acc y hy
    rcases ih _ y hy with h | h
    · rcases unionAdd_subset le s acc x y h with h | h
      · exact Or.inl h
      · exact Or.inr (h ▸ List.mem_cons_self)
    · exact Or.inr (List.mem_cons_of_mem _ h)

theorem unionOf_subset {α : Type} (le : α → α → Bool) (s : Bool) (xs : List α) :
    ∀ y ∈ unionOf le s xs, y ∈ xs := by
  intro y hy
  rcases foldl_unionAdd_subset le s xs [] y hy with h | h
  · cases h
  · exact h

/-! ## type and operator constraints of one variable -/

theorem subtypeOf_meaning {G : GLang} {v : QVar} {types : List Ty} {cs : List QClause} {n : Node}
    (h : subtypeOfClauses G v types = .ok cs) (hv : qlookup env v = some n) :
    SatAll g wf env cs ↔ TypeOk G g n types := by
  unfold subtypeOfClauses at h
  simp only at h
  split at h
  · cases h
  · rename_i uris hu
    simp only [Except.ok.injEq] at h
    subst h
    have hall := mapM_ok _ _ _ hu
    rw [satAll_unionClause]
    unfold TypeOk
    constructor
    · rintro (h1 | ⟨tr, htr, hs⟩)
      · left
        simp only [List.map_eq_nil_iff] at h1
        exact (unionOf_eq_nil _ _ _).1 ((forall₂_nil_iff hall).1 h1)
      · right
        simp only [List.mem_map] at htr
        obtain ⟨u, hu', rfl⟩ := htr
        obtain ⟨a, ha, hg⟩ := satTriple_var_node.1 hs
        rw [hv] at ha
        simp only [Option.some.injEq] at ha
        subst ha
        obtain ⟨T, hT, hTu⟩ := forall₂_right hall u hu'
        exact ⟨T, hT, u, hTu, hg⟩
    · rintro (h1 | ⟨T, hT, u, hTu, hg⟩)
      · left
        subst h1
        have : unionOf (leTyB G.types) false ([] : List Ty) = [] := rfl
        rw [this] at hall
        cases hall
        rfl
      · right
        obtain ⟨u', hu', hTu'⟩ := forall₂_left hall T hT
        rw [hTu] at hTu'
        simp only [Except.ok.injEq] at hTu'
        subst hTu'
        exact ⟨_, List.mem_map.2 ⟨u, hu', rfl⟩, satTriple_var_node.2 ⟨n, hv, hg⟩⟩

theorem via_meaning {v : QVar} {ops : List String} {n : Node} (hv : qlookup env v = some n) :
    SatAll g wf env (viaClauses v ops) ↔ OpOk g n ops := by
  unfold viaClauses OpOk
  rw [satAll_unionClause]
  constructor
  · rintro (h1 | ⟨tr, htr, hs⟩)
    · left
      simpa using h1
    · right
      simp only [List.mem_map] at htr
      obtain ⟨o, ho, rfl⟩ := htr
      obtain ⟨a, ha, hg⟩ := satTriple_var_node.1 hs
      rw [hv] at ha
      simp only [Option.some.injEq] at ha
      subst ha
      exact ⟨o, ho, hg⟩
  · rintro (h1 | ⟨o, ho, hg⟩)
    · left
      simp [h1]
    · right
      exact ⟨_, List.mem_map.2 ⟨o, ho, rfl⟩, satTriple_var_node.2 ⟨n, hv, hg⟩⟩

theorem outPath_meaning (f : QFlags) (n : Node) :
    pathHolds g (outPath f) wf n = true ↔
      ((wf, Node.tf "output", n) ∈ g ∨
        (f.byPenultimateOutput = true ∧ ∃ m, (wf, Node.tf "output", m) ∈ g ∧ (m, Node.tf "from", n) ∈ g)) := by
  unfold outPath
  split
  · rename_i hp
    rw [pathHolds_outputFrom]
    constructor
    · rintro ⟨m, h1, rfl | h2⟩
      · exact Or.inl h1
      · exact Or.inr ⟨hp, m, h1, h2⟩
    · rintro (h1 | ⟨_, m, h1, h2⟩)
      · exact ⟨n, h1, Or.inl rfl⟩
      · exact ⟨m, h1, Or.inr h2⟩
  · rename_i hp
    rw [pathHolds_pred]
    constructor
    · exact Or.inl
    · rintro (h1 | ⟨h, _⟩)
      · exact h1
      · exact absurd h hp

theorem inPath_meaning (f : QFlags) (n : Node) :
    pathHolds g (inPath f) wf n = true ↔
      ((wf, Node.tf "input", n) ∈ g ∨
        (f.bySecondInput = true ∧ ∃ m, (wf, Node.tf "input", m) ∈ g ∧ (n, Node.tf "from", m) ∈ g)) := by
  unfold inPath
  split
  · rename_i hp
    rw [pathHolds_inputFromInv]
    constructor
    · rintro ⟨m, h1, rfl | h2⟩
      · exact Or.inl h1
      · exact Or.inr ⟨hp, m, h1, h2⟩
    · rintro (h1 | ⟨_, m, h1, h2⟩)
      · exact ⟨n, h1, Or.inl rfl⟩
      · exact ⟨m, h1, Or.inr h2⟩
  · rename_i hp
    rw [pathHolds_pred]
    constructor
    · exact Or.inl
    · rintro (h1 | ⟨h, _⟩)
      · exact h1
      · exact absurd h hp

theorem outClause_meaning {G : GLang} {t : QTask} {f : QFlags} {a : QAssign} {v : QVar} {cs : List QClause}
    (h : outClause G t f a v = .ok cs) :
    SatAll g wf env cs ↔ ∃ n, qlookup env v = some n ∧ pathHolds g (outPath f) wf n = true ∧
      TypeOk G g n (t.step (stepOf a v)).types := by
  unfold outClause at h
  split at h
  · cases h
  · rename_i cs' h1
    simp only [Except.ok.injEq] at h
    subst h
    rw [satAll_cons]
    simp only [SatClause, satTriple_wf_var]
    constructor
    · rintro ⟨⟨n, hn, hp⟩, hs⟩
      exact ⟨n, hn, hp, (subtypeOf_meaning h1 hn).1 hs⟩
    · rintro ⟨n, hn, hp, ht⟩
      exact ⟨⟨n, hn, hp⟩, (subtypeOf_meaning h1 hn).2 ht⟩

theorem inClause_meaning {G : GLang} {t : QTask} {f : QFlags} {a : QAssign} {v : QVar} {cs : List QClause}
    (h : inClause G t f a v = .ok cs) :
    SatAll g wf env cs ↔ ∃ n, qlookup env v = some n ∧ pathHolds g (inPath f) wf n = true ∧
      TypeOk G g n (t.step (stepOf a v)).types := by
  unfold inClause at h
  split at h
  · cases h
  · rename_i cs' h1
    simp only [Except.ok.injEq] at h
    subst h
    rw [satAll_cons]
    simp only [SatClause, satTriple_wf_var]
    constructor
    · rintro ⟨⟨n, hn, hp⟩, hs⟩
      exact ⟨n, hn, hp, (subtypeOf_meaning h1 hn).1 hs⟩
    · rintro ⟨n, hn, hp, ht⟩
      exact ⟨⟨n, hn, hp⟩, (subtypeOf_meaning h1 hn).2 ht⟩

end Tfv
