import Tfv.Proofs.WorkflowTable
/-!
# `wfNode` visits a resource after its inputs and registers exactly one node for it
-/
namespace Tfv

theorem Wfl.foldlM_post {α β ε : Type} (R : β → β → Prop) (hrefl : ∀ b, R b b)
    (htrans : ∀ a b c, R a b → R b c → R a c) (f : β → α → Except ε β) (Post : α → β → Prop)
    (hstab : ∀ a b b', R b b' → Post a b → Post a b') :
    ∀ (l : List α), (∀ b a b', a ∈ l → f b a = .ok b' → R b b' ∧ Post a b') →
      ∀ b b', l.foldlM f b = .ok b' → R b b' ∧ ∀ a ∈ l, Post a b' := by
  intro l
  induction l with
  | nil =>
    intro _ b b' h
    rw [Wfl.foldlM_nil_ok] at h
    subst h
    exact ⟨hrefl _, by simp⟩
  | cons x l ih =>
    intro hf b b' h
    rw [Wfl.foldlM_cons_ok] at h
    obtain ⟨b1, h1, h2⟩ := h
    obtain ⟨r1, p1⟩ := hf b x b1 List.mem_cons_self h1
    obtain ⟨r2, p2⟩ := ih (fun b a b' ha => hf b a b' (List.mem_cons_of_mem _ ha)) b1 b' h2
    refine ⟨htrans _ _ _ r1 r2, ?_⟩
    intro a ha
    rcases List.mem_cons.1 ha with rfl | ha
    · exact hstab _ _ _ r2 p1
    · exact p2 a ha

/-- the resource has an expression whose node is registered in `g` -/
def HasNode (T : List (Nat × TExpr)) (g : GState) (i : Nat) : Prop := ∃ e k, alook T i = some e ∧ nodeOf g e = some k

theorem HasNode.stable {T : List (Nat × TExpr)} {c : GCfg} {P : Triple → Prop} {Q : Term × Node → Prop} {g g' : GState}
    (s : GStep c P Q g g') {i : Nat} (h : HasNode T g i) : HasNode T g' i := by
  obtain ⟨e, k, he, hk⟩ := h
  exact ⟨e, k, he, s.nodeOf_stable hk⟩

/-- the registered tool outputs are closed under "input of" and under "occurs tagged in the expression of" -/
structure GInv (w : Wf) (T : List (Nat × TExpr)) (g : GState) : Prop where
  inputs : ∀ x ∈ g.sharedNodes.map (·.1), x ∉ w.sources → ∀ a, w.app? x = some a → ∀ i ∈ a.inputs, HasNode T g i
  nested : ∀ x ∈ g.sharedNodes.map (·.1), ∀ e, alook T x = some e → ∀ j ∈ e.sharedKeys, j ∈ g.sharedNodes.map (·.1)

theorem RunTable.shared_not_source {w : Wf} {tgt : Nat} {T : List (Nat × TExpr)} (hT : RunTable w tgt T) {r : Nat}
    {e0 : TExpr} (h : alook T r = some (TExpr.shared r e0)) : r ∉ w.sources := by
  intro hr
  obtain ⟨e, he, hsrc⟩ := hT.srcs r hr
  rw [h] at he
  cases he
  exact IsSrc.not_shared hsrc r e0 rfl

theorem RunTable.entry_shape {w : Wf} {tgt : Nat} {T : List (Nat × TExpr)} (hT : RunTable w tgt T) {r : Nat}
    {e : TExpr} (h : alook T r = some e) : e.IsSrc ∨ ∃ e0, e = TExpr.shared r e0 :=
  hT.inv.shape (r, e) (alook_some_mem h)

section
variable (G : GLang) (c : GCfg) (w : Wf) (tgt : Nat) (T : List (Nat × TExpr))

/-- what one successful `wfNode` call establishes -/
def VisitPost (g : GState) (r : Nat) (g' : GState) (k : Nat) : Prop :=
  GStep c NotFD AnyQ g g' ∧ (∃ e, alook T r = some e ∧ nodeOf g' e = some k) ∧ (GInv w T g → GInv w T g')

theorem wfNodeInputs_post (n : Nat)
    (ih : ∀ g r g' k, wfNode G c w wfRoot T n g r = .ok (g', k) → VisitPost c w T g r g' k)
    (g : GState) (r : Nat) (g1 : GState) (h : wfNodeInputs G c w wfRoot T n g r = .ok g1) :
    GStep c NotFD AnyQ g g1 ∧ (GInv w T g → GInv w T g1) ∧
      (r ∉ w.sources → ∀ a, w.app? r = some a → ∀ i ∈ a.inputs, HasNode T g1 i) := by
  unfold wfNodeInputs at h
  split at h
  · rename_i hc
    simp only [Except.ok.injEq] at h
    subst h
    exact ⟨.refl _, fun h => h, fun hr => absurd (List.contains_iff_mem.1 hc) hr⟩
  · split at h
    · rename_i ha
      simp only [Except.ok.injEq] at h
      subst h
      exact ⟨.refl _, fun h => h, fun _ a ha' => by rw [ha] at ha'; cases ha'⟩
    · rename_i a ha
      have := Wfl.foldlM_post (fun g g' => GStep c NotFD AnyQ g g' ∧ (GInv w T g → GInv w T g'))
        (fun g => ⟨.refl g, fun h => h⟩) (fun _ _ _ h1 h2 => ⟨.trans h1.1 h2.1, fun h => h2.2 (h1.2 h)⟩)
        (wfNodeInputsStep G c w wfRoot T n) (fun i g => HasNode T g i) (fun i g g' hr hp => hp.stable hr.1)
        a.inputs (by
          intro ga i gb _ hi
          unfold wfNodeInputsStep at hi
          split at hi
          · cases hi
          · rename_i gc kc hc
            simp only [Except.ok.injEq] at hi
            subst hi
            obtain ⟨s1, ⟨e, he, hk⟩, hinv⟩ := ih _ _ _ _ hc
            exact ⟨⟨s1, hinv⟩, e, kc, he, hk⟩) g g1 h
      refine ⟨this.1.1, this.1.2, fun _ a' ha' => ?_⟩
      rw [ha] at ha'
      cases ha'
      exact this.2

theorem wfNode_visit (hT : RunTable w tgt T) :
    ∀ n g r g' k, wfNode G c w wfRoot T n g r = .ok (g', k) → VisitPost c w T g r g' k := by
  intro n
  induction n with
  | zero => intro g r g' k h; rw [wfNode_zero] at h; cases h
  | succ n ih =>
    intro g r g' k h
    rw [wfNode_succ] at h
    split at h
    · cases h
    · rename_i e he
      split at h
      · rename_i k' hk'
        simp only [Except.ok.injEq, Prod.mk.injEq] at h
        obtain ⟨rfl, rfl⟩ := h
        exact ⟨.refl _, ⟨e, he, hk'⟩, fun h => h⟩
      · split at h
        · cases h
        · rename_i g1 hin
          obtain ⟨s1, inv1, vis1⟩ := wfNodeInputs_post G c w T n ih g r g1 hin
          split at h
          · cases h
          · rename_i g2 node hx
            simp only [Except.ok.injEq, Prod.mk.injEq] at h
            obtain ⟨rfl, rfl⟩ := h
            have sx := addExpr_step G c wfRoot _ e g1 none false g2 node hx
            obtain ⟨lx, hlx⟩ := sx.sharedNodes_ext
            have hsub : ∀ x ∈ g1.sharedNodes.map (·.1), x ∈ g2.sharedNodes.map (·.1) := by
              intro x hx'; rw [hlx, List.map_append]; exact List.mem_append_left _ hx'
            have hnew := addExpr_sharedKeys G c wfRoot _ e g1 none false g2 node hx
            rcases hT.entry_shape he with hsrc | ⟨e0, rfl⟩
            · -- a source
              obtain ⟨id, l, t, rfl⟩ := hsrc
              refine ⟨.trans s1 sx, ⟨_, he, addExpr_src_registers G c wfRoot _ g1 id l t none false g2 node hx⟩, ?_⟩
              intro hg
              have h1 := inv1 hg
              have hback : ∀ x ∈ g2.sharedNodes.map (·.1), x ∈ g1.sharedNodes.map (·.1) := by
                intro x hx'
                rcases hnew x hx' with h | h
                · exact h
                · cases h
              exact ⟨fun x hx' hs a ha i hi => (h1.inputs x (hback x hx') hs a ha i hi).stable sx,
                fun x hx' e' he' j hj => hsub j (h1.nested x (hback x hx') e' he' j hj)⟩
            · -- a tool output
              have hns : r ∉ w.sources := hT.shared_not_source he
              have hmem : (r, TExpr.shared r e0) ∈ T := alook_some_mem he
              have hreg : alook g2.sharedNodes r = some node :=
                addExpr_shared_registers G c wfRoot _ g1 r e0 none false g2 node (hT.inv.noself r e0 hmem) hx
              refine ⟨.trans s1 sx, ⟨_, he, hreg⟩, ?_⟩
              intro hg
              have h1 := inv1 hg
              have hnest : ∀ j ∈ e0.sharedKeys, j ∈ g1.sharedNodes.map (·.1) := by
                intro j hj
                obtain ⟨a, i, ei, ha, hi, hei, hjei⟩ := hT.inv.struct r e0 hmem j hj
                obtain ⟨e', k', he', hk'⟩ := vis1 hns a ha i hi
                rw [hei] at he'
                cases he'
                rcases hT.entry_shape hei with hs | ⟨ei0, rfl⟩
                · rw [IsSrc.sharedKeys hs] at hjei; cases hjei
                · exact h1.nested i (alook_some_key hk') _ hei j hjei
              have hback : ∀ x ∈ g2.sharedNodes.map (·.1), x ∈ g1.sharedNodes.map (·.1) ∨ x = r := by
                intro x hx'
                rcases hnew x hx' with h | h
                · exact .inl h
                · rcases List.mem_cons.1 h with h | h
                  · exact .inr h
                  · exact .inl (hnest x h)
              refine ⟨?_, ?_⟩
              · intro x hx' hs a ha i hi
                rcases hback x hx' with hx1 | rfl
                · exact (h1.inputs x hx1 hs a ha i hi).stable sx
                · exact (vis1 hns a ha i hi).stable sx
              · intro x hx' e' he' j hj
                rcases hback x hx' with hx1 | rfl
                · exact hsub j (h1.nested x hx1 e' he' j hj)
                · rw [he] at he'
                  cases he'
                  rcases List.mem_cons.1 hj with rfl | hj
                  · exact alook_some_key hreg
                  · exact hsub j (hnest j hj)
end

end Tfv
