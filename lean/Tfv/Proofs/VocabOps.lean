import Tfv.Proofs.VocabMain
import Tfv.Proofs.GraphType
/-!
# `add_vocabulary`: the taxonomy, the operators, the four sub-properties; no `from`/`depends` triples
-/
namespace Tfv.Voc
open Tfv Tfv.Tax

/-- the operator triples of `add_operators` -/
def OperatorTr (c : GCfg) (ops : List String) (tr : Triple) : Prop :=
  c.withClasses = true ∧ ∃ name ∈ ops, tr = (Node.ns name, Node.rdf "type", Node.tf "Operation")

theorem addOperators_spec (c : GCfg) (ops : List String) : ∀ (g : GState),
    (addOperators c ops g).fd = g.fd ∧
    ∀ tr, tr ∈ (addOperators c ops g).triples ↔ tr ∈ g.triples ∨ OperatorTr c ops tr := by
  unfold addOperators OperatorTr
  induction ops with
  | nil => intro g; simp
  | cons a ops ih =>
    intro g
    simp only [List.foldl_cons]
    by_cases hc : c.withClasses = true
    · simp only [hc, if_true, true_and] at ih ⊢
      obtain ⟨h1, h2⟩ := ih (g.add (Node.ns a, Node.rdf "type", Node.tf "Operation"))
      refine ⟨by rw [h1, add_fd], ?_⟩
      intro tr
      rw [h2 tr, mem_add]
      simp only [List.mem_cons, exists_eq_or_imp]
      constructor
      · rintro ((h | h) | h)
        · exact .inl h
        · exact .inr (.inl h)
        · exact .inr (.inr h)
      · rintro (h | h | h)
        · exact .inl (.inl h)
        · exact .inl (.inr h)
        · exact .inr h
    · simp only [hc, Bool.false_eq_true, if_false, false_and, or_false] at ih ⊢
      exact ih g

theorem foldl_add_spec (l : List Triple) : ∀ (g : GState),
    (l.foldl GState.add g).fd = g.fd ∧ ∀ tr, tr ∈ (l.foldl GState.add g).triples ↔ tr ∈ g.triples ∨ tr ∈ l := by
  induction l with
  | nil => intro g; simp
  | cons a l ih =>
    intro g
    simp only [List.foldl_cons]
    obtain ⟨h1, h2⟩ := ih (g.add a)
    refine ⟨by rw [h1, add_fd], ?_⟩
    intro tr
    rw [h2 tr, mem_add, List.mem_cons, or_assoc]

/-! ## `fd` is not touched -/

def SameFd (g g' : GState) : Prop := g'.fd = g.fd

theorem SameFd.refl (g : GState) : SameFd g g := rfl
theorem SameFd.trans {g1 g2 g3 : GState} (h1 : SameFd g1 g2) (h2 : SameFd g2 g3) : SameFd g1 g3 := by
  unfold SameFd at *; rw [h2, h1]

theorem addSubtypes_fd (G : GLang) (g : GState) (t : Ty) (g' : GState) (h : addSubtypes G g t = .ok g') : SameFd g g' := by
  unfold addSubtypes at h
  split at h
  · cases h
  · split at h
    · cases h
    · refine foldlM_rel SameFd.refl (fun _ _ _ => SameFd.trans) _ _ ?_ g g' h
      intro ga s gb _ hs
      split at hs
      · cases hs
      · simp only [Except.ok.injEq] at hs
        subst hs; exact add_fd _ _

theorem addSupertypes_fd (G : GLang) (g : GState) (t : Ty) (g' : GState) (h : addSupertypes G g t = .ok g') : SameFd g g' := by
  unfold addSupertypes at h
  split at h
  · simp only [Except.ok.injEq] at h; subst h; rfl
  · split at h
    · cases h
    · split at h
      · cases h
      · refine foldlM_rel SameFd.refl (fun _ _ _ => SameFd.trans) _ _ ?_ g g' h
        intro ga s gb _ hs
        split at hs
        · cases hs
        · simp only [Except.ok.injEq] at hs
          subst hs; exact add_fd _ _

theorem taxonomyStep_fd (G : GLang) (c : GCfg) (g : GState) (t : Ty) (g' : GState) (h : taxonomyStep G c g t = .ok g') :
    SameFd g g' := by
  unfold taxonomyStep at h
  split at h
  · cases h
  · rename_i g1 n hadd
    split at h
    · cases h
    · rename_i g2 hsub
      have h1 : SameFd g g1 := (addType_step G c _ _ _ _ _ hadd).fd_eq
      exact (h1.trans (addSubtypes_fd G g1 t g2 hsub)).trans (addSupertypes_fd G g2 t g' h)

theorem closureStep_fd (G : GLang) (g : GState) (t : Ty) (g' : GState) (h : closureStep G g t = .ok g') : SameFd g g' := by
  unfold closureStep at h
  split at h
  · cases h
  · simp only [Except.ok.injEq] at h
    subst h
    exact foldl_rel SameFd.refl (fun _ _ _ => SameFd.trans) _ _ (fun ga s _ => add_fd ga _) g

theorem addTaxonomyOn_fd (G : GLang) (c : GCfg) (closure : Bool) (order : List Ty) (g g' : GState)
    (h : addTaxonomyOn G c closure order g = .ok g') : SameFd g g' := by
  unfold addTaxonomyOn at h
  split at h
  · cases h
  · split at h
    · cases h
    · rename_i g1 hloop
      have h1 : SameFd g g1 := foldlM_rel SameFd.refl (fun _ _ _ => SameFd.trans) _ _
        (fun ga s gb _ hs => taxonomyStep_fd G c ga s gb hs) g g1 hloop
      split at h
      · exact h1.trans (foldlM_rel SameFd.refl (fun _ _ _ => SameFd.trans) _ _
          (fun ga s gb _ hs => closureStep_fd G ga s gb hs) g1 g' h)
      · simp only [Except.ok.injEq] at h
        subst h; exact h1

theorem allTriples_of_fd_empty (g : GState) (h : g.fd = {}) : g.allTriples = g.triples := by
  unfold GState.allTriples
  rw [h]
  simp

/-- **`add_vocabulary`**: the taxonomy triples, one `rdf:type tf:Operation` triple per operator (when `with_classes`), the
four `rdfs:subPropertyOf` triples -/
theorem vocabulary_spec (G : GLang) (c : GCfg) (closure : Bool) (ops : List String) (ts : List Triple)
    (h : vocabulary G c closure ops = .ok ts) :
    ∃ g, addTaxonomyOn G c closure G.canon {} = .ok g ∧ TaxResult G c closure g ∧
      ∀ tr, tr ∈ ts ↔ tr ∈ g.triples ∨ OperatorTr c ops tr ∨ tr ∈ vocabProperties := by
  unfold vocabulary addVocabularyOn at h
  have hinit : c.withCanonicalTypes = true → initGraph G c = {} := by
    intro hc; unfold initGraph; rw [if_pos hc]
  cases hc : c.withCanonicalTypes with
  | false =>
    have : addTaxonomyOn G c closure G.canon (initGraph G c) = .error (.internal "assert with_canonical_types") := by
      unfold addTaxonomyOn; simp [hc]
    rw [this] at h; cases h
  | true =>
    rw [hinit hc] at h
    split at h
    · cases h
    · rename_i g2 hv
      split at hv
      · cases hv
      · rename_i g1 htax
        simp only [Except.ok.injEq] at hv h
        subst hv; subst h
        have hfd : g1.fd = {} := addTaxonomyOn_fd G c closure G.canon {} g1 htax
        obtain ⟨o1, o2⟩ := addOperators_spec c ops g1
        obtain ⟨p1, p2⟩ := foldl_add_spec vocabProperties (addOperators c ops g1)
        refine ⟨g1, htax, addTaxonomyOn_result G c closure G.canon g1 (fun _ h => h) htax, ?_⟩
        intro tr
        rw [allTriples_of_fd_empty _ (by rw [p1, o1, hfd]), p2 tr, o2 tr, or_assoc]

theorem vocabulary_spec' (G : GLang) (c : GCfg) (closure : Bool) (ops : List String) (ts : List Triple)
    (h : vocabulary G c closure ops = .ok ts) :
    ∃ g, addTaxonomyOn G c closure G.canon {} = .ok g ∧
      ∀ tr, tr ∈ ts ↔ tr ∈ g.triples ∨ OperatorTr c ops tr ∨ tr ∈ vocabProperties :=
  let ⟨g, h1, _, h3⟩ := vocabulary_spec G c closure ops ts h
  ⟨g, h1, h3⟩

end Tfv.Voc
