import Tfv.Proofs.GraphAbsLam
import Tfv.Proofs.GraphClosed
/-!
# C09 on expanded composite operators: `addExprA` as a sequence of primitive graph steps

Every change `addExprA` makes to the graph state is one of the primitive changes of `GStep` (Proofs/GraphStep.lean):
the leaves are `addExpr` itself, an application reserves nodes, registers an internal node and wires through
`gAddFrom`; the abstraction branch only changes the parameter table. Hence everything that is proved for `GStep`
(here: `depends` = transitive closure of `from`) holds for `addExprA` on every `AExpr`.
-/
namespace Tfv.C08P
open Tfv Tfv.C09

theorem curG_step (c : GCfg) (g : GState) (cur : Option Nat) : GStep c NotFD AnyQ g (curG g cur).1 := by
  cases cur with
  | none => exact .fresh g
  | some k => exact .refl g

theorem mkInternalG_step (c : GCfg) (g : GState) (fnode : Nat) (b : Bool) :
    GStep c NotFD AnyQ g (mkInternalG g fnode b).1 := appPre_step c g fnode b

theorem wirePostG_step (c : GCfg) (origin : Option Node) (g : GState) (cur fnode xnode : Nat) (ci : Option Nat) :
    GStep c NotFD AnyQ g (wirePostG c origin g cur fnode xnode ci) := by
  have h : wirePostG c origin g cur fnode xnode ci =
      addOrigin c origin
        (wire5 c origin (wire4 c (wire3 c (gAddFrom c g fnode xnode) xnode ci) fnode xnode ci)
          fnode xnode ci ((objectsOf g.fd.frm fnode).contains xnode)) cur := by
    cases ci <;> rfl
  rw [h]
  exact .trans (.addFrom _ fnode xnode false) (.trans (wire3_step c _ xnode ci)
    (.trans (wire4_step c _ fnode xnode ci) (.trans (wire5_step c origin _ fnode xnode ci _)
      (.originAdd origin _ cur))))

theorem feedG_step (c : GCfg) (g : GState) (xnode : Nat) (ci : Option Nat) :
    GStep c NotFD AnyQ g (feedG c g xnode ci) := by
  cases ci with
  | none => exact .refl g
  | some i => exact .addFrom g xnode i false

theorem wireG_step (c : GCfg) (origin : Option Node) (g : GState) (cur fnode xnode : Nat) (ci : Option Nat) :
    GStep c NotFD AnyQ g (wireG c origin g cur fnode xnode ci) := by
  rw [wireG_eq]
  exact .trans (feedG_step c g xnode ci) (wirePostG_step c origin _ cur fnode xnode ci)

/-- a successful run of `addExprA` changes the graph state by primitive steps only (any expression, abstractions included) -/
theorem addExprA_step {G : GLang} {c : GCfg} {root : Node} : ∀ (e : AExpr) (origin : Option Node) (s : AState)
    (cur : Option Nat) (im : Bool) (s' : AState) (n : Nat),
    addExprA G c root origin s e cur im = .ok (s', n) → GStep c NotFD AnyQ s.g s'.g := by
  intro e
  refine AExpr.ind (P := fun e => ∀ (origin : Option Node) (s : AState) (cur : Option Nat) (im : Bool) (s' : AState) (n : Nat),
    addExprA G c root origin s e cur im = .ok (s', n) → GStep c NotFD AnyQ s.g s'.g) ?_ ?_ ?_ ?_ ?_ ?_ e
  · intro id l t origin s cur im s' n h
    rw [addExprA_src] at h
    cases hr : addExpr G c root origin s.g (.src id l t) cur im with
    | error e => rw [hr] at h; cases h
    | ok r =>
      obtain ⟨g1, n1⟩ := r; rw [hr] at h; cases h
      exact addExpr_step G c root origin _ _ _ _ _ _ hr
  · intro name t origin s cur im s' n h
    rw [addExprA_op] at h
    cases hr : addExpr G c root origin s.g (.op name t) cur im with
    | error e => rw [hr] at h; cases h
    | ok r =>
      obtain ⟨g1, n1⟩ := r; rw [hr] at h; cases h
      exact addExpr_step G c root origin _ _ _ _ _ _ hr
  · intro id t origin s cur im s' n h
    rw [addExprA_pvar] at h
    cases hr : s.params.find? (fun p => p.1 == id) with
    | none => rw [hr] at h; cases h
    | some p => rw [hr] at h; cases h; exact .refl _
  · intro ps b t origin s cur im s' n h
    rw [addExprA_lam] at h; cases h
  · intro f ps b t ty ihf ihb origin s cur im s' n h
    cases ht : t.isFunction with
    | false => exact absurd h (addExprA_lam_nofun_fails s f ps b t ty cur im ht s' n)
    | true =>
      rw [addExprA_app_lam _ _ _ _ _ _ _ _ _ _ _ _ ht] at h
      cases hf : addExprA G c root origin { s with g := (curG s.g cur).1 } f (some (curG s.g cur).2) im with
      | error e => rw [hf] at h; cases h
      | ok r1 =>
        obtain ⟨s1, fnode⟩ := r1
        rw [hf] at h
        simp only [] at h
        cases hb : addExprA G c root none
            { g := (mkInternalG s1.g.fresh.1 fnode true).1,
              params := s1.params ++ ps.map (fun p => (p, s1.g.nextB + 1)) } b (some s1.g.nextB) true with
        | error e => rw [hb] at h; cases h
        | ok r2 =>
          obtain ⟨s2, bnode⟩ := r2
          rw [hb] at h
          cases h
          show GStep c NotFD AnyQ s.g (wirePostG c origin s2.g (curG s.g cur).2 fnode bnode (some (s1.g.nextB + 1)))
          exact .trans (curG_step c s.g cur) (.trans (ihf _ _ _ _ _ _ hf) (.trans (.fresh s1.g)
            (.trans (mkInternalG_step c _ fnode true) (.trans (ihb _ _ _ _ _ _ hb)
              (wirePostG_step c origin s2.g _ fnode bnode _)))))
  · intro f x ty hx ihf ihx origin s cur im s' n h
    rw [addExprA_app _ _ _ _ _ _ _ _ _ _ hx] at h
    cases hf : addExprA G c root origin { s with g := (curG s.g cur).1 } f (some (curG s.g cur).2) im with
    | error e => rw [hf] at h; cases h
    | ok r1 =>
      obtain ⟨s1, fnode⟩ := r1
      rw [hf] at h
      simp only [] at h
      cases hb : addExprA G c root origin { s1 with g := (mkInternalG s1.g.fresh.1 fnode x.ty.isFunction).1 } x
          (some s1.g.fresh.2) true with
      | error e => rw [hb] at h; cases h
      | ok r2 =>
        obtain ⟨s2, xnode⟩ := r2
        rw [hb] at h
        cases h
        show GStep c NotFD AnyQ s.g (wireG c origin s2.g (curG s.g cur).2 fnode xnode
          (mkInternalG s1.g.fresh.1 fnode x.ty.isFunction).2)
        exact .trans (curG_step c s.g cur) (.trans (ihf _ _ _ _ _ _ hf) (.trans (.fresh s1.g)
          (.trans (mkInternalG_step c _ fnode _) (.trans (ihx _ _ _ _ _ _ hb)
            (wireG_step c origin s2.g _ fnode xnode _)))))

/-- with dependencies on, `depends` = transitive closure of `from` is preserved by `addExprA` -/
theorem addExprA_closed (G : GLang) (c : GCfg) (hc : c.withDependencies = true) (root : Node)
    (origin : Option Node) (s : AState) (e : AExpr) (cur : Option Nat) (im : Bool) (s' : AState) (n : Nat)
    (hg : Closed s.g.fd) (h : addExprA G c root origin s e cur im = .ok (s', n)) : Closed s'.g.fd :=
  (addExprA_step e origin s cur im s' n h).closed hc hg

/-- without dependencies no `depends` edge is recorded -/
theorem addExprA_no_dependencies (G : GLang) (c : GCfg) (hc : c.withDependencies = false) (root : Node)
    (origin : Option Node) (s : AState) (e : AExpr) (cur : Option Nat) (im : Bool) (s' : AState) (n : Nat)
    (hg : s.g.fd.dep = []) (h : addExprA G c root origin s e cur im = .ok (s', n)) : s'.g.fd.dep = [] :=
  (addExprA_step e origin s cur im s' n h).no_dep hc hg

/-- the emitted triples: `depends` triples are exactly the closure of the `from` triples -/
theorem addExprA_triples (G : GLang) (c : GCfg) (hc : c.withDependencies = true) (root : Node)
    (origin : Option Node) (ps : List (Nat × Nat)) (e : AExpr) (cur : Option Nat) (im : Bool) (s' : AState) (n : Nat)
    (h : addExprA G c root origin { g := initGraph G c, params := ps } e cur im = .ok (s', n)) (a b : Nat) :
    ((Node.b a, Node.tf "depends", Node.b b) ∈ s'.g.allTriples ↔ TC s'.g.fd.frm a b) ∧
      ((Node.b a, Node.tf "from", Node.b b) ∈ s'.g.allTriples ↔ (a, b) ∈ s'.g.fd.frm) :=
  allTriples_closed hc (addExprA_step e origin _ cur im s' n h) a b

end Tfv.C08P
