"""C16 - using an operator or type never changes what it means later."""
from __future__ import annotations
import langgen as G
import infer as I
import parsegen as PG
import exprgen as X

RULE = ("histories (length <= 30) of parse / failed parse / Expr.fix / direct Type.apply on operator signatures / printing of signatures / validate / "
        "vocabulary, expression-graph and query building / parse_type with aliases on ONE Language object, followed by a probe expression; the probe's typed "
        "tree (every node's type, bounds, residual constraints) is compared with the same probe in a freshly built identical language and with the model "
        "(which has no history by construction); on a difference the history is shrunk by deleting steps; non-trivial = the history contains at least three "
        "successful uses of an operator that the probe uses too; distinct by (language, history, probe)")
ASSUMPTIONS = ["'freshly built identical language' = new TypeOperator, Operator and Language objects from the same declarations"]
TRUSTED = ["harness/exprgen.py (canonical dump)"]


def gen_history(rng, spec, opdecls, pool, bad, n):
    """history as data, replayable on any fresh copy of the language"""
    h = []
    for _ in range(n):
        r = rng.random()
        if r < 0.35 and pool:
            h.append(("parse", rng.choice(pool), rng.random() < 0.6))
        elif r < 0.5 and bad:
            h.append(("badparse", rng.choice(bad)))
        elif r < 0.6:
            name = rng.choice(opdecls)[0]
            arg = G.gen_ty(rng, spec, rng.randint(0, 1), p_special=0.1, allow_fun=False)
            h.append(("apply", name, arg))
        elif r < 0.66:
            h.append(("print", rng.choice(opdecls)[0]))
        elif r < 0.72:
            h.append(("validate",))
        elif r < 0.78:
            h.append(("vocab",))
        elif r < 0.88 and pool:
            h.append(("graph", rng.choice(pool)))
        elif r < 0.94:
            h.append(("query", rng.choice(opdecls)[0]))
        else:
            h.append(("ptype", PG.gen_type_text(rng, spec, 2).replace("PSyn", "Top").replace("Syn", "Top")))
    return h


def play(step, spec, ops, lang, operators, ninputs):
    """run one history step on the real objects; every exception of the declared families is part of the history"""
    from transforge import expr as E
    from transforge import type as T
    from transforge.lang import ParseError
    from transforge.expr import ApplicationError, DeclarationError
    from transforge.graph import TransformationGraph
    from transforge.query import TransformationQuery
    from rdflib import BNode
    kind = step[0]
    try:
        if kind == "parse":
            e = lang.parse(step[1], *[E.Source() for _ in range(ninputs)])
            if step[2]:
                e.fix()
            return "ok"
        if kind == "badparse":
            lang.parse(step[1], *[E.Source() for _ in range(ninputs)])
            return "ok"
        if kind == "apply":
            t = operators[step[1]].type.instance()
            t.apply(G.ty_py(step[2], ops))
            return "ok"
        if kind == "print":
            str(operators[step[1]].type)
            return "ok"
        if kind == "validate":
            lang.validate()
            return "ok"
        if kind == "vocab":
            g = TransformationGraph(lang, with_canonical_types=True, with_noncanonical_types=True)
            g.add_vocabulary()
            return "ok"
        if kind == "graph":
            e = lang.parse(step[1], *[E.Source() for _ in range(ninputs)])
            e.fix()
            g = TransformationGraph(lang, with_noncanonical_types=True)
            g.add_expr(e, BNode())
            return "ok"
        if kind == "query":
            q = TransformationQuery.from_list(lang, [operators[step[1]]])
            q.sparql()
            return "ok"
        if kind == "ptype":
            lang.parse_type(step[1])
            return "ok"
    except (ParseError, T.TypingError, ApplicationError, DeclarationError, ValueError, RuntimeError) as ex:
        return "E:" + type(ex).__name__
    return "?"


PLAIN = {}


def fresh(spec, opdecls):
    ops = spec.build()
    lang, operators = X.build_typed_language(spec, ops, opdecls)
    plain = PLAIN.get(id(opdecls))
    if plain:
        # an operator declared with a plain (non-schematic) signature that holds a wildcard: one variable made at definition time
        from transforge.expr import Operator
        from transforge import type as T
        name, src = plain
        op = Operator(type=eval(src, {"OPS": ops, "_": T._}), name=name)
        lang.add(op, name)
        operators[name] = op
    return ops, lang, operators


def validates(spec, opdecls):
    from transforge.expr import DeclarationError
    ops, lang, operators = fresh(spec, opdecls)
    try:
        # the operator's own validation (the other, generated operators may fail validation for unrelated reasons)
        operators["size"].validate()
        return True
    except (DeclarationError, ValueError):
        return False


def run_history(spec, opdecls, history, probe, ninputs):
    ops, lang, operators = fresh(spec, opdecls)
    outcomes = [play(s, spec, ops, lang, operators, ninputs) for s in history]
    obs, ex, e, _ = X.obs_typed(lang, probe, ninputs, ops)
    return obs, outcomes


def run(ctx):
    rng = ctx.rng
    nlang = 8 if ctx.tier == "quick" else 40
    nhist = 100 if ctx.tier == "quick" else 200
    for li in range(nlang):
        spec = G.gen_lang(rng, max_base=5, max_ops=2, max_arity=2)
        opdecls = X.gen_operators(rng, spec, allow_prod=rng.random() < 0.3)
        language_histories(ctx, li, spec, opdecls, nhist, [])
    polyconst_family(ctx)
    validate_history_cases(ctx)
    alias_wildcard_cases(ctx)


def validate_history_cases(ctx):
    """`Language.validate()` gives the same verdict at any point of any history: a language with an operator whose plain signature holds a
    wildcard (`size : R(_) ** A`, invalid) and an explicit namespace is validated fresh, after its namespace was used (uri, graph, vocabulary:
    these close the language) and after a first, failed validation; and likewise a valid language"""
    from transforge.type import TypeOperator, _
    from transforge.expr import Operator, DeclarationError
    from transforge.lang import Language
    from transforge.graph import TransformationGraph

    def make(valid):
        A = TypeOperator("A"); B = TypeOperator("B"); R = TypeOperator("R", params=1)
        size = Operator(type=(lambda: R(_) ** A) if valid else R(_) ** A, name="size")
        okop = Operator(type=A ** B, name="okop")
        return Language(scope=dict(A=A, B=B, R=R, size=size, okop=okop), namespace=("ex", "https://example.org/lang#")), A

    def verdict(lang):
        try:
            lang.validate()
            return "ok"
        except DeclarationError:
            return "DeclarationError"
        except Exception as ex:  # noqa
            return "X:" + type(ex).__name__

    def act(lang, A, what):
        if what == "uri":
            lang.uri(A)
        elif what == "graph":
            TransformationGraph(lang)
        elif what == "vocabulary":
            TransformationGraph(lang, with_canonical_types=True).add_vocabulary()
        elif what == "validate":
            verdict(lang)
        elif what == "parse":
            try:
                lang.parse("okop (- : A)")
            except Exception:  # noqa
                pass
    for valid in (False, True):
        lang, A = make(valid)
        ref = verdict(lang)
        for hist in (["uri"], ["graph"], ["vocabulary"], ["validate"], ["parse"], ["parse", "graph", "validate"], ["uri", "parse"]):
            lang, A = make(valid)
            for h in hist:
                act(lang, A, h)
            got = verdict(lang)
            ctx.evaluations += 1
            ctx.count("validate_history_cases")
            if got != ref:
                ctx.fail(f"Language.validate() of a language with {'a valid' if valid else 'an invalid (plain, wildcard-holding)'} signature gives {got} after "
                         f"the history {hist}; on the fresh language {ref}",
                    {"check": "validate-history-dependence", "steps": hist}, {"what": "validate-history", "valid": valid, "history": hist})


def alias_wildcard_cases(ctx):
    """every use of an alias or wildcard gets fresh variables: a synonym that holds a wildcard (`Any = TypeAlias(_)`, `AnyF = TypeAlias(F(_))`)
    must be refused, or - if a language accepts it - behave like the wildcard written out, whatever was parsed before"""
    from transforge.type import TypeOperator, TypeAlias, _
    from transforge.expr import Operator
    from transforge.lang import Language

    def make(kind):
        A = TypeOperator("A"); B = TypeOperator("B"); F = TypeOperator("F", params=1)
        f = Operator(type=F(A) ** A, name="f"); g = Operator(type=F(B) ** B, name="g")
        syn = TypeAlias(_) if kind == "bare" else TypeAlias(F(_)) if kind == "inst" else TypeAlias(lambda: F(_))
        return Language(scope=dict(A=A, B=B, F=F, f=f, g=g, Any=syn), namespace="https://example.org/aw#")

    def obs(lang, text):
        try:
            e = lang.parse(text)
            return "ok " + str(e)
        except Exception as ex:  # noqa
            return "E:" + type(ex).__name__
    import re
    norm = lambda o: re.sub(r"τ\d+", "τ", o)  # noqa
    for kind, use in (("bare", "F(Any)"), ("inst", "Any"), ("schema", "Any")):
        ctx.evaluations += 1
        ctx.count("alias_wildcard_cases")
        try:
            make(kind)
        except Exception:  # noqa
            ctx.count("alias_wildcard_refused")
            continue
        for hist, probe in (([f"f (- : {use})"], f"g (- : {use})"), ([f"g (- : {use})", f"f (- : {use})"], f"- : {use}")):
            ref = norm(obs(make(kind), probe))
            lang = make(kind)
            for h in hist:
                obs(lang, h)
            got = norm(obs(lang, probe))
            if got != ref:
                ctx.fail(f"a language with the synonym Any = {'_' if kind == 'bare' else 'F(_)'} ({kind}) is accepted; probe {probe!r} after {hist} gives {got}, on a fresh language {ref}",
                    {"check": "history-dependence", "steps": ["parse"], "alias_with_wildcard": True}, {"what": "alias-wildcard", "kind": kind})
                break


def polyconst_family(ctx):
    """polymorphic DATA constants (nil : L(x)) next to functions over them: a use at one instantiation must not fix the constant's
    variable for later uses"""
    rng = ctx.rng
    decls = list(G.BUILTIN_DECLS) + [("A", [], None), ("B", [], None), ("N", [], None), ("A1", [], 5), ("L", [True], None)]
    spec = G.LangSpec(decls)
    x = ('v', 0)
    A, B, N, A1 = (5, ()), (6, ()), (7, ()), (8, ())
    L = lambda t: (9, (t,))  # noqa
    opdecls = [("nil", {"nvars": 1, "nwild": 0, "body": L(x), "constraints": []}),
               ("cons", {"nvars": 1, "nwild": 0, "body": X.fun(x, L(x), L(x)), "constraints": []}),
               ("a", {"nvars": 0, "nwild": 0, "body": A, "constraints": []}),
               ("b", {"nvars": 0, "nwild": 0, "body": B, "constraints": []}),
               ("a1", {"nvars": 0, "nwild": 0, "body": A1, "constraints": []}),
               ("len", {"nvars": 1, "nwild": 0, "body": X.fun(L(x), N), "constraints": []}),
               ("wrap", {"nvars": 1, "nwild": 0, "body": X.fun(x, L(x)), "constraints": []}),
               ("cat", {"nvars": 1, "nwild": 0, "body": X.fun(L(x), L(x), L(x)), "constraints": []})]
    extra = ["nil", "cons a nil", "cons b nil", "cons a1 nil", "len nil", "cons a (cons a nil)", "cons b (cons b nil)", "len (cons b nil)",
             "cat nil nil", "cat (wrap a) nil", "cat nil (wrap b)", "cons a (cat nil nil)", "cons a1 (cons a nil)", "cat (cons a nil) (cons a1 nil)"]
    ctx.count("polyconst_languages")
    language_histories(ctx, "polyconst", spec, opdecls, 60 if ctx.tier == "quick" else 200, extra)


def language_histories(ctx, li, spec, opdecls, nhist, extra_pool):
    rng = ctx.rng
    if True:
        try:
            ops0, lang0, operators0 = fresh(spec, opdecls)
        except Exception:  # noqa
            ctx.count("language_rejected")
            return
        ctx.setup(spec.sexp(), "ok T")
        ctx.setup("(aliases)", "ok")
        ctx.setup(X.operators_line(opdecls), "ok")
        ninputs = rng.randint(0, 2)
        trees = X.gen_typed_trees(rng, lang0, spec, opdecls, ninputs, rounds=3, per_round=10)
        pool = [X.tree_text(t) for t in trees] + list(extra_pool)
        bad = [PG.mutate(rng, t) for t in pool[:10]] + [X.tree_text(("app", ("op", rng.choice(opdecls)[0]), ("op", rng.choice(opdecls)[0]))) for _ in range(5)]
        if not pool:
            return
        plain_cases(ctx, li, spec, opdecls, rng)
        for k in range(nhist):
            history = gen_history(rng, spec, opdecls, pool, bad, rng.randint(3, 30))
            probe = rng.choice(pool + bad[:3])
            ref, _ = run_history(spec, opdecls, [], probe, ninputs)
            got, outcomes = run_history(spec, opdecls, history, probe, ninputs)
            uses = sum(1 for s, o in zip(history, outcomes) if o == "ok" and s[0] in ("parse", "graph", "apply", "query"))
            ctx.case(f"(texpr {ninputs} T {G.str_sexp(probe)})", got,
                {"lang": spec.to_json(), "probe": probe, "history_len": len(history), "inputs": ninputs},
                nontrivial=uses >= 3, key=(li, k, probe))
            for s, o in zip(history, outcomes):
                ctx.count(f"step_{s[0]}_{'ok' if o == 'ok' else 'err'}")
            if got != ref:
                small = shrink(spec, opdecls, history, probe, ninputs, ref)
                ctx.fail(f"probe {probe!r} after a history of {len(small)} step(s) {small} gives {got}; in a fresh language {ref}",
                    {"check": "history-dependence", "steps": sorted({s[0] for s in small})},
                    {"lang": spec.to_json(), "opdecls": [[n, s] for n, s in opdecls], "history": small, "probe": probe, "inputs": ninputs})


def plain_cases(ctx, li, spec, opdecls, rng):
    """an operator whose signature is a plain type holding a wildcard (`R(_) ** N`): `validate()` must reject it (the wildcard is ONE
    variable made at definition time, every use would share it); if the language validates, no history may change what a later use means"""
    comps = spec.compounds(builtin=False)
    bases = spec.bases()
    if not comps or len(bases) < 2:
        return
    c = rng.choice(comps)
    src = "OPS[%d](%s) ** OPS[%d]" % (c, ", ".join("_" if i == 0 else "OPS[%d]" % rng.choice(bases) for i in range(spec.arity(c))), rng.choice(bases))
    decls = list(opdecls)
    PLAIN[id(decls)] = ("size", src)
    try:
        ok = validates(spec, decls)
    except Exception:  # noqa
        PLAIN.pop(id(decls), None)
        return
    ctx.count("plain_signature_" + ("validates" if ok else "rejected"))
    ctx.evaluations += 1
    if ok:
        a, b = bases[0], bases[1]
        mk = lambda t: "size (- : %s(%s))" % (spec.name(c), ", ".join(spec.name(t) if i == 0 else "_" for i in range(spec.arity(c))))
        history = [("parse", mk(a), True)]
        probe = mk(b)
        ref, _ = run_history(spec, decls, [], probe, 0)
        got, outcomes = run_history(spec, decls, history, probe, 0)
        if got != ref:
            ctx.fail(f"language validates with `size : {src}`; probe {probe!r} after {history} gives {got}; in a fresh language {ref}",
                {"check": "history-dependence", "steps": ["parse"], "plain_signature": True},
                {"lang": spec.to_json(), "opdecls": [[n, s] for n, s in opdecls], "plain": ["size", src], "history": history, "probe": probe, "inputs": 0})
    PLAIN.pop(id(decls), None)


def shrink(spec, opdecls, history, probe, ninputs, ref):
    h = list(history)
    changed = True
    while changed and len(h) > 1:
        changed = False
        for i in range(len(h)):
            h2 = h[:i] + h[i + 1:]
            got, _ = run_history(spec, opdecls, h2, probe, ninputs)
            if got != ref:
                h = h2
                changed = True
                break
    return h


def replay(ctx, payload):
    from props.C03 import fix_schema
    inp = payload["input"]
    if inp.get("what") == "alias-wildcard":
        c = type("C", (), {"failures": [], "evaluations": 0, "count": lambda self, n, k=1: None,
            "fail": lambda self, d, f, r: self.failures.append(d)})()
        alias_wildcard_cases(c)
        for d in c.failures:
            print(d)
        return not c.failures
    if inp.get("what") == "validate-history":
        c = type("C", (), {"failures": [], "evaluations": 0, "count": lambda self, n, k=1: None,
            "fail": lambda self, d, f, r: self.failures.append(d)})()
        validate_history_cases(c)
        for d in c.failures:
            print(d)
        return not c.failures
    spec = G.LangSpec([(n, v, p) for n, v, p in inp["lang"]])
    opdecls = [(n, fix_schema(s)) for n, s in inp["opdecls"]]
    if inp.get("plain"):
        PLAIN[id(opdecls)] = tuple(inp["plain"])
    history = [tuple(tuple_deep(x) for x in s) for s in inp["history"]]
    ref, _ = run_history(spec, opdecls, [], inp["probe"], inp["inputs"])
    got, outcomes = run_history(spec, opdecls, history, inp["probe"], inp["inputs"])
    print("history:", list(zip(history, outcomes)))
    print("fresh  :", ref)
    print("after  :", got)
    return ref == got


def tuple_deep(x):
    if isinstance(x, list):
        return tuple(tuple_deep(y) for y in x)
    return x
