import Tfv.Proofs.GraphAnnotate
import Tfv.Proofs.Canon
import Tfv.Proofs.CanonLinks
/-!
# Canonical types are pre-registered with their URIs
-/
namespace Tfv
open Tfv.Tax

mutual
theorem generalize_toTerm : ∀ (t : Ty), t.toTerm.generalize = t
  | .app o args => by rw [Ty.toTerm, Term.generalize, generalizeL_toTermL args]
theorem generalizeL_toTermL : ∀ (ts : List Ty), Term.generalizeL (Ty.toTermL ts) = ts
  | [] => by rw [Ty.toTermL, Term.generalizeL]
  | t :: ts => by rw [Ty.toTermL, Term.generalizeL, generalize_toTerm t, generalizeL_toTermL ts]
end

mutual
theorem isClosed_toTerm : ∀ (t : Ty), t.toTerm.isClosed = true
  | .app o args => by rw [Ty.toTerm, Term.isClosed, isClosedL_toTermL args]
theorem isClosedL_toTermL : ∀ (ts : List Ty), Term.isClosedL (Ty.toTermL ts) = true
  | [] => by rw [Ty.toTermL, Term.isClosedL]
  | t :: ts => by rw [Ty.toTermL, Term.isClosedL, isClosed_toTerm t, isClosedL_toTermL ts]; rfl
end

theorem inCanon_toTerm (G : GLang) (t : Ty) : inCanon G t.toTerm = memTy t G.canon := by
  unfold inCanon
  rw [isClosed_toTerm, generalize_toTerm, Bool.true_and]

/-- a canonical type has a URI -/
theorem typeUri_canonical (G : GLang) (s : Ty) (h : memTy s G.canon = true) :
    ∃ uri, typeUri G s.toTerm = .ok uri := by
  unfold typeUri
  rw [generalize_toTerm]
  cases s with
  | app o args =>
    simp only [h, if_true]
    split
    · exact ⟨_, rfl⟩
    · exact ⟨_, rfl⟩

theorem dedupTy_eq_initOf (ts : List Ty) : dedupTy ts = initOf ts := rfl

theorem mem_dedupTy (ts : List Ty) (t : Ty) : t ∈ dedupTy ts ↔ t ∈ ts := mem_initOf ts t

/-- everything `Language.successors` reports is canonical (no assumption on the language) -/
theorem langSucc_canon (L : Lang) (c : CanonCfg) (canon : List Ty) : ∀ (n : Nat) (up : Bool) (t : Ty)
    (tr : Bool) (r : Ty), r ∈ langSucc L c canon n up t tr → memTy r canon = true
  | 0, _, _, _, _, h => by simp [langSucc] at h
  | n+1, up, t, tr, r, h => by
    simp only [langSucc, List.mem_flatMap] at h
    obtain ⟨s, _, h⟩ := h
    by_cases hm : memTy s canon = true
    · simp only [hm, if_true, List.mem_cons] at h
      rcases h with rfl | h
      · exact hm
      · cases tr
        · simp at h
        · simp only [if_true] at h
          exact langSucc_canon L c canon n up s true r h
    · simp only [hm, Bool.false_eq_true, if_false, List.mem_flatMap] at h
      obtain ⟨u, _, h⟩ := h
      by_cases hm2 : memTy u canon = true
      · simp only [hm2, if_true, List.mem_cons] at h
        rcases h with rfl | h
        · exact hm2
        · cases tr
          · simp at h
          · simp only [if_true] at h
            exact langSucc_canon L c canon n up u true r h
      · simp [hm2] at h

theorem supsOf_canon (G : GLang) (ty : Term) (s : Ty) (h : s ∈ supsOf G ty) : memTy s G.canon = true := by
  unfold supsOf at h
  rw [mem_dedupTy] at h
  exact langSucc_canon _ _ _ _ _ _ _ _ h

/-! ## `initGraph` -/

theorem initGraph_typeNodes (G : GLang) (c : GCfg) (hc : c.withCanonicalTypes = false) :
    (initGraph G c).typeNodes = G.canon.filterMap (fun t => match typeUri G t.toTerm with
      | .ok n => some (t.toTerm, n)
      | .error _ => none) := by
  unfold initGraph
  rw [if_neg (by simp [hc])]
  rfl

/-- with `with_canonical_types` off, a canonical type is registered in the initial graph under its URI -/
theorem initGraph_lookup (G : GLang) (c : GCfg) (hc : c.withCanonicalTypes = false) (s : Ty)
    (h : memTy s G.canon = true) (uri : Node) (hu : typeUri G s.toTerm = .ok uri) :
    lookupType (initGraph G c).typeNodes s.toTerm = some uri := by
  rw [initGraph_typeNodes G c hc]
  unfold lookupType
  have hmem : (s.toTerm, uri) ∈ G.canon.filterMap (fun t => match typeUri G t.toTerm with
      | .ok n => some (t.toTerm, n)
      | .error _ => none) := by
    rw [List.mem_filterMap]
    exact ⟨s, (memTy_iff _ _).1 h, by rw [hu]⟩
  cases hf : List.find? (fun p => Term.beq p.1 s.toTerm) (G.canon.filterMap (fun t =>
      match typeUri G t.toTerm with
      | .ok n => some (t.toTerm, n)
      | .error _ => none)) with
  | none =>
    rw [List.find?_eq_none] at hf
    exact absurd (term_beq_refl _) (hf _ hmem)
  | some p =>
    have hb := List.find?_some hf
    have hp := List.mem_of_find?_eq_some hf
    rw [List.mem_filterMap] at hp
    obtain ⟨t', _, ht'⟩ := hp
    have e1 : p.1 = s.toTerm := (term_beq_iff _ _).1 hb
    cases hx : typeUri G t'.toTerm with
    | error e => rw [hx] at ht'; cases ht'
    | ok n' =>
      rw [hx] at ht'
      simp only [Option.some.injEq] at ht'
      subst ht'
      simp only at e1
      rw [e1, hu] at hx
      cases hx
      rfl

/-- in every graph that extends the initial graph, `addType` of a canonical type is a pure lookup of its URI -/
theorem addType_canonical (G : GLang) (c : GCfg) (hc : c.withCanonicalTypes = false) (n : Nat) (g : GState)
    (l : List (Term × Node)) (hg : g.typeNodes = (initGraph G c).typeNodes ++ l) (s : Ty)
    (h : memTy s G.canon = true) :
    ∃ uri, typeUri G s.toTerm = .ok uri ∧ addType G c (n+1) g s.toTerm = .ok (g, uri) := by
  obtain ⟨uri, hu⟩ := typeUri_canonical G s h
  refine ⟨uri, hu, addType_of_lookup G c n g _ uri ?_⟩
  rw [hg]
  exact lookupType_append_some (initGraph_lookup G c hc s h uri hu)

end Tfv
