import Tfv.Model.Expr
import Tfv.Model.Render
/-!
Canonical rendering of typed expression trees for the line protocol (not part of any theorem).
Variables are numbered by first occurrence over all node types, visiting an application's
function part, then its argument, then its own type.
-/
namespace Tfv

partial def exprVars (σ : Store) : TExpr → List Nat → List Nat
  | .src _ _ t, acc => collectVars σ t acc
  | .op _ t, acc => collectVars σ t acc
  | .app f x t, acc => collectVars σ t (exprVars σ x (exprVars σ f acc))
  | .shared _ e, acc => exprVars σ e acc

partial def exprTypes : TExpr → List Term
  | .src _ _ t => [t]
  | .op _ t => [t]
  | .app f x t => exprTypes f ++ exprTypes x ++ [t]
  | .shared _ e => exprTypes e

partial def renderExprWith (σ : Store) (names : List Nat) : TExpr → String
  | .src i none t => s!"(src {i} {renderTerm σ names t})"
  | .src _ (some l) t => s!"(const {l} {renderTerm σ names t})"
  | .op n t => s!"(op {n} {renderTerm σ names t})"
  | .app f x t => s!"(app {renderExprWith σ names f} {renderExprWith σ names x} {renderTerm σ names t})"
  | .shared _ e => renderExprWith σ names e

def renderExpr (σ : Store) (e : TExpr) : String :=
  let names := exprVars σ e []
  let body := renderExprWith σ names e
  let bounds := names.map (fun v =>
    let i := getVar σ v
    s!"[{optNat i.lower} {optNat i.upper} {if i.wildcard then "W" else "-"}]")
  let vars := varsOfTerms σ (exprTypes e)
  let cids := vars.foldl (fun acc v => unionSorted acc (getCset σ (getVar σ v).cset)) []
  let cs := (cids.map (fun c => renderConstr σ names (getConstr σ c))).mergeSort (fun a b => a ≤ b)
  body ++ " " ++ "".intercalate bounds ++ " {" ++ " ".intercalate cs ++ "}"

namespace Sexp
def opdecl? : Sexp → Option OperatorDecl
  | .list [.atom name, s] => do pure ⟨name, ← schema? s⟩
  | _ => none
end Sexp

end Tfv
