"""Families of languages with composite operators (operators defined by a body), as data.

Simple types: 'A', 'B' (B <= A) or ('fun', t1, t2). A family has primitive operators with monomorphic
signatures, the classic combinators with polymorphic signatures (compose, flip, const, identity, twice,
partial application) and randomly generated composite operators whose bodies are type-correct by
construction (definitions may use earlier definitions). Expressions over a family are generated
type-directed, so almost all of them are well-typed.
"""
from __future__ import annotations

A, B = 'A', 'B'


def fun(*ts):
    t = ts[-1]
    for p in reversed(ts[:-1]):
        t = ('fun', p, t)
    return t


def uncurry(t):
    ps = []
    while isinstance(t, tuple):
        ps.append(t[1])
        t = t[2]
    return ps, t


def ty_src(t):
    if isinstance(t, str):
        return f"T['{t}']"
    l = ty_src(t[1])
    if isinstance(t[1], tuple):
        l = "(" + l + ")"
    return l + " ** " + ty_src(t[2])


def body_src(b, top=True):
    if b[0] == "op":
        # a body that is just an operator must still be an expression
        return f"OPS['{b[1]}']" + (".instance()" if top else "")
    if b[0] == "p":
        return f"x{b[1]}"
    head, args = spine(b)
    return body_src(head, False) + "(" + ", ".join(body_src(a, False) for a in args) + ")"


def spine(b):
    args = []
    while b[0] == "app":
        args.append(b[2])
        b = b[1]
    return b, list(reversed(args))


def body_uses(b, acc):
    if b[0] == "p":
        acc[b[1]] = acc.get(b[1], 0) + 1
    elif b[0] == "app":
        body_uses(b[1], acc)
        body_uses(b[2], acc)
    return acc


COMBINATORS = {
    # name: (schema source over variables, nparams, body, monomorphic instance used by the generator, linear?)
    "compose": ("lambda a, b, c: (b ** c) ** (a ** b) ** a ** c", 3, ("app", ("p", 0), ("app", ("p", 1), ("p", 2))), fun(fun(A, A), fun(A, A), A, A), True),
    "flip": ("lambda a, b, c: (a ** b ** c) ** b ** a ** c", 3, ("app", ("app", ("p", 0), ("p", 2)), ("p", 1)), fun(fun(A, A, A), A, A, A), True),
    "const": ("lambda a, b: a ** b ** a", 2, ("p", 0), fun(A, A, A), True),
    "ident": ("lambda a: a ** a", 1, ("p", 0), fun(A, A), True),
    "twice": ("lambda a: (a ** a) ** a ** a", 2, ("app", ("p", 0), ("app", ("p", 0), ("p", 1))), fun(fun(A, A), A, A), False),
    # a DATA parameter used twice (the argument - possibly a whole application - occurs twice in the expansion)
    "dupl": ("lambda a, b: (a ** a ** b) ** a ** b", 2, ("app", ("app", ("p", 0), ("p", 1)), ("p", 1)), fun(fun(A, A, A), A, A), False),
}


POLY_ID = "POLY_ID"       # a polymorphic primitive `x ** x`


class Family:
    def __init__(self, prims, comps, use_combinators, nsources=3, plain=()):
        self.prims = prims                  # [(name, type | POLY_ID)]
        self.comps = comps                  # [(name, [param types], result type, body)]
        self.use_combinators = use_combinators
        self.nsources = nsources
        self.plain = list(plain)            # composites declared with a plain type instance instead of a schema
        self.build()

    def to_json(self):
        return {"prims": self.prims, "comps": self.comps, "combinators": self.use_combinators, "nsources": self.nsources, "plain": self.plain}

    def table(self):
        """name -> (monomorphic type used for generation, linear?)"""
        t = {n: ((fun(A, A) if ty == POLY_ID else ty), True) for n, ty in self.prims}
        for n in self.use_combinators:
            t[n] = (COMBINATORS[n][3], COMBINATORS[n][4])
        for n, ps, r, body in self.comps:
            uses = body_uses(body, {})
            linear = all(uses.get(i, 0) <= 1 for i in range(len(ps))) and all(self_linear(self, o) for o in body_ops(body))
            t[n] = (fun(*ps, r), linear)
        return t

    def build(self):
        from transforge.type import TypeOperator, TypeSchema
        from transforge.expr import Operator
        from transforge.lang import Language
        Aop = TypeOperator("A")
        Bop = TypeOperator("B", supertype=Aop)
        self.T = {"A": Aop, "B": Bop}
        OPS = {}
        self.OPS = OPS
        for n, ty in self.prims:
            if ty == POLY_ID:
                OPS[n] = Operator(type=lambda x: x ** x, name=n)
            else:
                OPS[n] = Operator(type=eval("lambda: " + ty_src(ty), {"T": self.T}), name=n)
        for n in self.use_combinators:
            schema, k, body, _, _ = COMBINATORS[n]
            OPS[n] = Operator(type=eval(schema), name=n,
                body=eval("lambda " + ", ".join(f"x{i}" for i in range(k)) + ": " + body_src(body), {"OPS": OPS}))
        for n, ps, r, body in self.comps:
            # declared either as a schema (`lambda: …`) or as a plain type instance
            decl = eval(("" if n in self.plain else "lambda: ") + ty_src(fun(*ps, r)), {"T": self.T})
            OPS[n] = Operator(type=decl, name=n,
                body=eval("lambda " + ", ".join(f"x{i}" for i in range(len(ps))) + ": " + body_src(body), {"OPS": OPS}))
        self.lang = Language(scope={"A": Aop, "B": Bop, **OPS})

    def sources(self):
        from transforge.expr import Source
        return [Source(self.T["A"]) for _ in range(self.nsources)]

    def is_composite(self, name):
        return name in self.use_combinators or any(n == name for n, *_ in self.comps)


def body_ops(b):
    if b[0] == "op":
        return [b[1]]
    if b[0] == "app":
        return body_ops(b[1]) + body_ops(b[2])
    return []


def self_linear(fam, name):
    if name in COMBINATORS:
        return COMBINATORS[name][4]
    for n, ps, r, body in fam.comps:
        if n == name:
            uses = body_uses(body, {})
            return all(uses.get(i, 0) <= 1 for i in range(len(ps))) and all(self_linear(fam, o) for o in body_ops(body) if o != name)
    return True


def family_from_json(j):
    def tt(x):
        return tuple(tt(y) for y in x) if isinstance(x, list) else x
    return Family([(n, tt(t)) for n, t in j["prims"]], [(n, [tt(p) for p in ps], tt(r), tt(b)) for n, ps, r, b in j["comps"]],
        list(j["combinators"]), j.get("nsources", 3), j.get("plain", ()))


def sub_ok(res, target):
    return res == target or (res == B and target == A)


def candidates(table, env, target, allow_nonlinear, exact=False):
    """(kind, name/index, number of arguments to supply, parameter types)"""
    out = []
    sub_ok_ = (lambda r, t: r == t) if exact else sub_ok
    for name, (ty, linear) in table.items():
        if not linear and not allow_nonlinear:
            continue
        ps, r = uncurry(ty)
        for k in range(len(ps) + 1):
            rest = fun(*ps[k:], r)
            if rest == target or (k == len(ps) and sub_ok_(r, target)):
                out.append(("op", name, k, ps[:k]))
    for i, ty in enumerate(env):
        ps, r = uncurry(ty)
        for k in range(len(ps) + 1):
            rest = fun(*ps[k:], r)
            if rest == target or (k == len(ps) and sub_ok_(r, target)):
                out.append(("p", i, k, ps[:k]))
    return out


def gen_term(rng, table, env, target, depth, allow_nonlinear=True, used=None, linear_params=False, exact=False):
    """type-directed term of (a subtype of) `target` (exactly `target` at the top when `exact`); returns a body tree or None"""
    if depth < -3:
        return None
    cs = candidates(table, env, target, allow_nonlinear, exact)
    if linear_params and used is not None:
        cs = [c for c in cs if not (c[0] == "p" and c[1] in used)]
    if depth <= 0:
        cs = [c for c in cs if c[2] == 0] or cs
    if not cs:
        return None
    # prefer parameters that are still unused (so that bodies mention their parameters)
    unused = [c for c in cs if c[0] == "p" and used is not None and c[1] not in used]
    kind, ref, k, ps = rng.choice(unused) if unused and rng.random() < 0.7 else rng.choice(cs)
    if kind == "p" and used is not None:
        used.add(ref)
    t = (kind, ref)
    for p in ps:
        a = gen_term(rng, table, env, p, depth - 1, allow_nonlinear, used, linear_params)
        if a is None:
            return None
        t = ("app", t, a)
    return t


def gen_family(rng, ncomps=None):
    prims = [("u1", fun(A, A)), ("u2", fun(A, A)), ("b1", fun(A, A, A)), ("mkb", fun(A, B))]
    extra = [("h1", fun(fun(A, A), A)), ("h2", fun(fun(A, A), A, A)), ("h3", fun(fun(A, A), fun(A, A), A, A)), ("k2", fun(fun(A, A, A), A, A)),
             ("ub", fun(B, A)), ("b2", fun(A, B, A))]
    prims += [e for e in extra if rng.random() < 0.75]
    if rng.random() < 0.6:
        prims.append(("copy", POLY_ID))
    combs = [c for c in COMBINATORS if rng.random() < 0.7]
    fam = Family(prims, [], combs)
    comps = []
    n = ncomps if ncomps is not None else rng.randint(2, 6)
    for i in range(n):
        table = Family(prims, comps, combs).table()
        k = rng.randint(1, 3)
        # a declared signature must not be more general than the inferred one: parameters are A or A ** A
        ps = [rng.choice([A, A, A, fun(A, A)]) for _ in range(k)]
        # result: data, or a function (partial application)
        r = rng.choice([A, A, A, fun(A, A)])
        linear = rng.random() < 0.8
        for attempt in range(30):
            used = set()
            body = gen_term(rng, table, ps, r, rng.randint(1, 3), allow_nonlinear=not linear, used=used, linear_params=linear, exact=True)
            if body is not None and (used or rng.random() < 0.2):
                comps.append((f"c{i}", ps, r, body))
                break
    plain = [c[0] for c in comps if rng.random() < 0.4]
    return Family(prims, comps, combs, plain=plain)


def term_text(t):
    if t[0] == "op":
        return t[1]
    if t[0] == "p":
        return str(t[1] + 1)            # sources are the numbered inputs
    f, x = term_text(t[1]), term_text(t[2])
    if t[2][0] == "app":
        x = "(" + x + ")"
    return f + " " + x


def gen_expr_tree(rng, fam, depth=3, linear_only=False, target=A):
    table = fam.table()
    env = [A] * fam.nsources
    for _ in range(20):
        t = gen_term(rng, table, env, target, depth, allow_nonlinear=not linear_only)
        if t is not None:
            return t
    return ("p", 0)


def gen_expr_text(rng, fam, depth=3, linear_only=False):
    return term_text(gen_expr_tree(rng, fam, depth, linear_only))
