import Tfv.Model
namespace Tfv.C12
theorem placeholder : True := trivial
end Tfv.C12
