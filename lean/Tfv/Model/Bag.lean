/-!
# M3 — type unions and bags (bag.py), over an abstract decidable order

`TypeUnion.add`, `TypeUnion.is_subtype`, `Bag.add` (as repaired:
"fix: Bag.add drops a clause implied by the bag …"). Python `set`s are lists
without duplicates read as sets; the harness compares sorted contents.
-/
namespace Tfv

variable {α : Type}

/-- `TypeUnion.add(new)`.
specific mode: `for t in data: if new ≤ t: mark t elif t ≤ new: return`;
general mode:  `for t in data: if new ≤ t: return elif t ≤ new: mark t`;
then `data -= marked; data.add(new)`. Marks made before an early return are
discarded, so the early return happens iff some element triggers it. -/
def unionAdd (le : α → α → Bool) (specific : Bool) (data : List α) (new : α) : List α :=
  if specific then
    if data.any (fun t => !le new t && le t new) then data
    else data.filter (fun t => !le new t) ++ [new]
  else
    if data.any (fun t => le new t) then data
    else data.filter (fun t => !le t new) ++ [new]

/-- `TypeUnion(xs, specific)` -/
def unionOf (le : α → α → Bool) (specific : Bool) (xs : List α) : List α :=
  xs.foldl (unionAdd le specific) []

/-- `TypeUnion.is_subtype(other : Type)`: non-empty and every member below `t` -/
def unionLeTy (le : α → α → Bool) (u : List α) (t : α) : Bool :=
  !u.isEmpty && u.all (fun x => le x t)

/-- `TypeUnion.is_subtype(other : TypeUnion)`: non-empty and every member below every member -/
def unionLeUnion (le : α → α → Bool) (u v : List α) : Bool :=
  !u.isEmpty && v.all (fun y => u.all (fun x => le x y))

/-- `Bag.add(*new_types)` -/
def bagAdd (le : α → α → Bool) (content : List (List α)) (newTypes : List α) : List (List α) :=
  if newTypes.any (fun nt => content.any (fun c => unionLeTy le c nt)) then content
  else
    let new := unionOf le false newTypes
    if new.isEmpty then content
    else content.filter (fun c => !unionLeUnion le new c) ++ [new]

def bagOf (le : α → α → Bool) (reqs : List (List α)) : List (List α) :=
  reqs.foldl (bagAdd le) []

/-- a bag (conjunction of disjunctions) is satisfied by a set of present types -/
def satBag (content : List (List α)) (P : α → Prop) : Prop :=
  ∀ c ∈ content, ∃ t ∈ c, P t

end Tfv
