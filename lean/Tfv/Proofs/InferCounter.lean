import Tfv.Proofs.InferCheck
import Tfv.Proofs.InferUnify
/-!
# Plain unification (`subtype = False`) of the model is NOT sound for the declared meaning (C03 finding)

Two concrete runs of `unify … st=false sb=false sw=false`:
1. `Bottom` against the base type `A` is accepted although the types differ
   (the `Bottom`/`Top` shortcut is taken before `subtype` is looked at);
2. a variable with lower bound `A` is bound to the unrelated base type `C`
   (`bind` only rejects a base type *strictly below* the lower bound), so a
   solution of the resulting store is not a solution of the original one.
-/
namespace Tfv.C03P

/-- `A` and `C` unrelated base types, `F` a unary covariant operator -/
def cexL : Lang := builtinDecls ++ [⟨"A", [], none⟩, ⟨"C", [], none⟩, ⟨"F", [true], none⟩]
/-- one variable with lower bound `A` -/
def cexσ : Store := { vars := [{ lower := some 5 }], csets := [[]] }
/-- the same variable bound to `C` -/
def cexσ' : Store := { vars := [{ bound := some (.app 6 []), lower := some 5 }], csets := [[]] }

theorem cexL_wf : WF cexL := wf_of_wfLangB cexL (by decide)
theorem cexσ_ok : OkStore cexL cexσ := okStoreB_sound (by decide)
theorem cexσ_nc : NoConstraints cexσ := noConstraintsB_sound (by decide)
theorem cexσ'_ok : OkStore cexL cexσ' := okStoreB_sound (by decide)
theorem empty_ok (L : Lang) : OkStore L {} := okStoreB_sound (by rfl)
theorem empty_nc : NoConstraints {} := noConstraintsB_sound (by rfl)

/-- finding 1: `Bottom.unify(A)` succeeds without `subtype` -/
theorem cex_bot_run :
    unify cexL 5 {} (.app BOT []) (.app 5 []) false false false = .ok {} := by
  with_unfolding_all rfl

theorem cex_bot_sat : Sat cexL (valOf []) {} := satB_sound cexL_wf (empty_ok cexL) (by decide)

theorem cex_bot_ne : den (valOf []) (.app BOT []) ≠ den (valOf []) (.app 5 []) := by
  rw [den_app, den_app]
  intro h
  injection h with h _
  exact absurd h (by decide)

theorem cex_occ : occurs cexL cexσ (termFuel cexσ) (.app 6 []) (.var 0) = false := by
  have e : termFuel cexσ = 64 + 1 := rfl
  have e2 : matchFuel cexσ = 67 + 1 := rfl
  have f1 : followT cexσ (.app 6 []) = .app 6 [] := rfl
  have f2 : followT cexσ (.var 0) = .var 0 := rfl
  rw [e, occurs, f1, f2, e2, match3, f1, f2]
  have : opSub cexL 5 6 = false := by decide
  simp [getVar, cexσ, this]

/-- finding 2: a variable with lower bound `A` unifies (without `subtype`) with the unrelated `C` -/
theorem cex_bound_run :
    unify cexL 5 cexσ (.var 0) (.app 6 []) false false false = .ok cexσ' := by
  have f1 : followT cexσ (.app 6 []) = .app 6 [] := rfl
  have f2 : followT cexσ (.var 0) = .var 0 := rfl
  rw [unify, f1, f2]
  simp only [cex_occ]
  have : bind cexL 4 cexσ 0 (.app 6 []) = .ok cexσ' := by with_unfolding_all rfl
  rw [this]
  rfl

theorem cex_bound_sat : Sat cexL (valOf [.app 6 []]) cexσ' :=
  satB_sound cexL_wf cexσ'_ok (by decide)

theorem cex_bound_unsat : ¬ Sat cexL (valOf [.app 6 []]) cexσ := by
  intro h
  have h1 : Sub cexL (.app 5 []) (.app 6 []) := h.lower 0 5 rfl rfl
  have h2 := (sub_iff_Sub cexL_wf (s := .app 5 []) (t := .app 6 []) (by decide) (by decide)).mpr h1
  exact absurd h2 (by decide)

/-- the soundness statement with `subtype = False` fails (already its "solutions only shrink" half) -/
theorem unify_sound_fails_without_subtype :
    ¬ (∀ (L : Lang) (n : Nat) (σ σ' : Store) (a b : Term), WF L → OkStore L σ → NoConstraints σ →
        okTerm L σ a = true → okTerm L σ b = true →
        unify L n σ a b false false false = .ok σ' →
        ∀ ρ, Sat L ρ σ' → Sat L ρ σ ∧ den ρ a = den ρ b) := by
  intro h
  exact cex_bound_unsat
    (h cexL 5 cexσ cexσ' (.var 0) (.app 6 []) cexL_wf cexσ_ok cexσ_nc (by decide) (by decide)
      cex_bound_run _ cex_bound_sat).1

/-- … and so does its "the relation holds" half, on variable-free terms -/
theorem unify_eq_fails_on_bottom :
    ¬ (∀ (L : Lang) (n : Nat) (σ σ' : Store) (a b : Term), WF L → OkStore L σ → NoConstraints σ →
        okTerm L σ a = true → okTerm L σ b = true →
        unify L n σ a b false false false = .ok σ' →
        ∀ ρ, Sat L ρ σ' → den ρ a = den ρ b) := by
  intro h
  exact cex_bot_ne
    (h cexL 5 {} {} (.app BOT []) (.app 5 []) cexL_wf (empty_ok cexL) empty_nc (by decide) (by decide)
      cex_bot_run _ cex_bot_sat)

end Tfv.C03P
