import Tfv.Proofs.FlowMain
/-!
# C08 proofs, part 6: which edges the wiring of one argument adds (as a set)
-/
namespace Tfv.C08P
open Tfv

theorem mem_foldl_from {α : Type} (c : α → Bool) (a b : α → Nat) (l : List α) (k : Core) (p : Nat × Nat) :
    p ∈ (l.foldl (fun k j => if c j then k.from (a j) (b j) else k) k).frm ↔
      p ∈ k.frm ∨ ∃ j ∈ l, c j = true ∧ p = (a j, b j) := by
  induction l generalizing k with
  | nil => simp
  | cons x xs ih =>
    simp only [List.foldl_cons]
    rw [ih]
    by_cases hc : c x
    · simp only [hc, if_true, Core.from, List.mem_cons, exists_eq_or_imp, true_and]
      constructor
      · rintro ((h | h) | h)
        · exact Or.inr (Or.inl h)
        · exact Or.inl h
        · exact Or.inr (Or.inr h)
      · rintro (h | h | h)
        · exact Or.inl (Or.inr h)
        · exact Or.inl (Or.inl h)
        · exact Or.inr h
    · simp [hc]

theorem mem_foldl_from' {α : Type} (a b : α → Nat) (l : List α) (k : Core) (p : Nat × Nat) :
    p ∈ (l.foldl (fun k j => k.from (a j) (b j)) k).frm ↔ p ∈ k.frm ∨ ∃ j ∈ l, p = (a j, b j) := by
  have := mem_foldl_from (fun _ => true) a b l k p
  simpa using this

theorem mem_objectsOf (r : Rel) (b m : Nat) : m ∈ objectsOf r b ↔ (b, m) ∈ r := by
  simp only [objectsOf, List.mem_map, List.mem_filter, beq_iff_eq]
  constructor
  · rintro ⟨p, ⟨hp, h1⟩, h2⟩
    have : p = (b, m) := by cases p; simp_all
    rw [← this]; exact hp
  · intro h
    exact ⟨(b, m), ⟨h, rfl⟩, rfl⟩

theorem mem_intsOf (ints : List (Nat × Nat)) (n j : Nat) : j ∈ intsOf ints n ↔ (n, j) ∈ ints := by
  simp only [intsOf, List.mem_map, List.mem_filter, beq_iff_eq]
  constructor
  · rintro ⟨p, ⟨hp, h1⟩, h2⟩
    have : p = (n, j) := by cases p; simp_all
    rw [← this]; exact hp
  · intro h
    exact ⟨(n, j), ⟨h, rfl⟩, rfl⟩

/-- a data argument: one edge from the step, one from every internal node of the step -/
theorem wire_none_mem (k : Core) (n x : Nat) (p : Nat × Nat) :
    p ∈ (wire k n x none).frm ↔ p ∈ k.frm ∨ p = (n, x) ∨ ∃ j, (n, j) ∈ k.ints ∧ p = (j, x) := by
  simp only [wire]
  rw [mem_foldl_from (fun j => some j != none) (fun j => j) (fun _ => x)]
  simp only [Core.from, List.mem_cons, mem_intsOf]
  constructor
  · rintro ((h | h) | ⟨j, hj, _, h⟩)
    · exact Or.inr (Or.inl h)
    · exact Or.inl h
    · exact Or.inr (Or.inr ⟨j, hj, h⟩)
  · rintro (h | h | ⟨j, hj, h⟩)
    · exact Or.inl (Or.inr h)
    · exact Or.inl (Or.inl h)
    · exact Or.inr ⟨j, hj, by simp, h⟩

/-- `repeated` of the model: the argument's node was an input of the step already -/
theorem repeated_iff (k : Core) (n x i : Nat) (hnx : n ≠ x) :
    (objectsOf (k.from x i).frm n).contains x = true ↔ (n, x) ∈ k.frm := by
  rw [List.contains_iff_mem, mem_objectsOf]
  simp only [Core.from, List.mem_cons]
  constructor
  · rintro (h | h)
    · exact absurd (Prod.mk.inj h).1 hnx
    · exact h
  · exact Or.inr

/-- The wiring of a passed operation, in general: the step `n` takes the argument's node `x`; `x` takes
its internal node `i`; the internal nodes attached to `x` take `i`; the other internal nodes of `n` take
`x`; and `i` takes every input that `n` had before this argument, the node `x` itself included when it
was one of them (the same source passed a second time). -/
theorem wire_some_mem_all (k : Core) (n x i : Nat) (p : Nat × Nat)
    (hnx : n ≠ x) (hnn : (n, n) ∉ k.ints) (hxn : (x, n) ∉ k.ints) :
    p ∈ (wire k n x (some i)).frm ↔
      p ∈ k.frm ∨ p = (x, i) ∨ p = (n, x) ∨ (∃ j, (x, j) ∈ k.ints ∧ p = (j, i)) ∨
      (∃ j, (n, j) ∈ k.ints ∧ j ≠ i ∧ p = (j, x)) ∨
      (∃ fin, (n, fin) ∈ k.frm ∧ p = (i, fin)) := by
  simp only [wire]
  have hrep := repeated_iff k n x i hnx
  generalize (objectsOf (k.from x i).frm n).contains x = rep at hrep
  rw [mem_foldl_from (fun fin => x != fin || rep) (fun _ => i) (fun fin => fin)]
  have hints : ∀ (K : Core), (List.foldl (fun k j => k.from j i) K (intsOf K.ints x)).ints = K.ints :=
    fun K => (foldl_from_frame' (fun j => j) (fun _ => i) _ K).2.2.2
  have hF : ∀ q, q ∈ (List.foldl (fun k j => if (some j != some i) = true then k.from j x else k)
      (List.foldl (fun k j => k.from j i) ((k.from x i).from n x) (intsOf ((k.from x i).from n x).ints x))
      (intsOf (List.foldl (fun k j => k.from j i) ((k.from x i).from n x)
        (intsOf ((k.from x i).from n x).ints x)).ints n)).frm ↔
      q ∈ k.frm ∨ q = (x, i) ∨ q = (n, x) ∨ (∃ j, (x, j) ∈ k.ints ∧ q = (j, i)) ∨
      (∃ j, (n, j) ∈ k.ints ∧ j ≠ i ∧ q = (j, x)) := by
    intro q
    rw [mem_foldl_from (fun j => some j != some i) (fun j => j) (fun _ => x), hints,
      mem_foldl_from' (fun j => j) (fun _ => i)]
    simp only [Core.from, List.mem_cons, mem_intsOf]
    constructor
    · rintro (((h | h | h) | ⟨j, hj, h⟩) | ⟨j, hj, hji, h⟩)
      · exact Or.inr (Or.inr (Or.inl h))
      · exact Or.inr (Or.inl h)
      · exact Or.inl h
      · exact Or.inr (Or.inr (Or.inr (Or.inl ⟨j, hj, h⟩)))
      · exact Or.inr (Or.inr (Or.inr (Or.inr ⟨j, hj, by simpa using hji, h⟩)))
    · rintro (h | h | h | ⟨j, hj, h⟩ | ⟨j, hj, hji, h⟩)
      · exact Or.inl (Or.inl (Or.inr (Or.inr h)))
      · exact Or.inl (Or.inl (Or.inr (Or.inl h)))
      · exact Or.inl (Or.inl (Or.inl h))
      · exact Or.inl (Or.inr ⟨j, hj, h⟩)
      · exact Or.inr ⟨j, hj, by simpa using hji, h⟩
  rw [hF]
  constructor
  · rintro (h | ⟨fin, hfin, hc, h⟩)
    · rcases h with h | h | h | h | h
      · exact Or.inl h
      · exact Or.inr (Or.inl h)
      · exact Or.inr (Or.inr (Or.inl h))
      · exact Or.inr (Or.inr (Or.inr (Or.inl h)))
      · exact Or.inr (Or.inr (Or.inr (Or.inr (Or.inl h))))
    · rw [List.mem_eraseDups, mem_objectsOf, hF] at hfin
      rcases hfin with h' | h' | h' | ⟨j, hj, h'⟩ | ⟨j, hj, _, h'⟩
      · exact Or.inr (Or.inr (Or.inr (Or.inr (Or.inr ⟨fin, h', h⟩))))
      · exact absurd (Prod.mk.inj h').1 hnx
      · have hfx : fin = x := (Prod.mk.inj h').2
        subst hfx
        have hr : rep = true := by simpa using hc
        exact Or.inr (Or.inr (Or.inr (Or.inr (Or.inr ⟨fin, hrep.1 hr, h⟩))))
      · have := (Prod.mk.inj h').1
        subst this
        exact absurd hj hxn
      · have := (Prod.mk.inj h').1
        subst this
        exact absurd hj hnn
  · rintro (h | h | h | h | h | ⟨fin, hfin, h⟩)
    · exact Or.inl (Or.inl h)
    · exact Or.inl (Or.inr (Or.inl h))
    · exact Or.inl (Or.inr (Or.inr (Or.inl h)))
    · exact Or.inl (Or.inr (Or.inr (Or.inr (Or.inl h))))
    · exact Or.inl (Or.inr (Or.inr (Or.inr (Or.inr h))))
    · refine Or.inr ⟨fin, ?_, ?_, h⟩
      · rw [List.mem_eraseDups, mem_objectsOf, hF]
        exact Or.inl hfin
      · by_cases hfx : fin = x
        · subst hfx
          simp [hrep.2 hfin]
        · have : (x != fin) = true := by simpa using fun h' => hfx h'.symm
          simp [this]

/-- a passed operation whose own node `x` carries no internal nodes -/
theorem wire_some_mem (k : Core) (n x i : Nat) (p : Nat × Nat)
    (hx : ∀ j, (x, j) ∉ k.ints) (hnx : n ≠ x) (hnn : (n, n) ∉ k.ints) :
    p ∈ (wire k n x (some i)).frm ↔
      p ∈ k.frm ∨ p = (x, i) ∨ p = (n, x) ∨ (∃ j, (n, j) ∈ k.ints ∧ j ≠ i ∧ p = (j, x)) ∨
      (∃ fin, (n, fin) ∈ k.frm ∧ p = (i, fin)) := by
  rw [wire_some_mem_all k n x i p hnx hnn (hx n)]
  constructor
  · rintro (h | h | h | ⟨j, hj, _⟩ | h | h)
    · exact Or.inl h
    · exact Or.inr (Or.inl h)
    · exact Or.inr (Or.inr (Or.inl h))
    · exact absurd hj (hx j)
    · exact Or.inr (Or.inr (Or.inr (Or.inl h)))
    · exact Or.inr (Or.inr (Or.inr (Or.inr h)))
  · rintro (h | h | h | h | h)
    · exact Or.inl h
    · exact Or.inr (Or.inl h)
    · exact Or.inr (Or.inr (Or.inl h))
    · exact Or.inr (Or.inr (Or.inr (Or.inr (Or.inl h))))
    · exact Or.inr (Or.inr (Or.inr (Or.inr (Or.inr h))))

end Tfv.C08P
