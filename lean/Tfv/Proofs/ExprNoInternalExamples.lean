import Tfv.Proofs.ExprNoInternalParse
import Tfv.Proofs.InferNoInternalExamples
import Tfv.Proofs.ExprConstrExamples
/-!
# Concrete runs for C17 (expression layer)

The invariant `FuelOk` is needed: on the store `σcyc` (two variables bound to each other, unreachable from
the empty store) the builder's operations do let an assertion of the engine escape, wrapped in
`ApplicationError` (the harness' observation class `E:ApplicationError:Internal(…)`) or as a bare
`TypingError`-position error.
-/
namespace Tfv.C17X
open Tfv Tfv.C03P Tfv.C03C Tfv.C04P Tfv.C04C Tfv.C17E

/-- a builder state over the cyclic store -/
def sCyc : XState := { store := σcyc, nsrc := 2 }

theorem sCyc_not_fuelOk : ¬ FuelOk sCyc.store := σcyc_not_fuelOk

/-- `Application(x0, x1)` on the cyclic store: `apply` binds the function variable, whose `follow()` came back
bound; the assertion of `bind` escapes inside `ApplicationError` -/
theorem sCyc_mkApp :
    mkAppT exL true sCyc (.src 0 none (.var 0)) (.src 1 none (.var 1))
      = .error (.application (.internal "bind:variable cannot be unified twice")) := by
  with_unfolding_all rfl

/-- the same through `Expr.__call__` -/
theorem sCyc_call :
    callT exL sCyc (.src 0 none (.var 0)) [.src 1 none (.var 1)]
      = .error (.application (.internal "bind:variable cannot be unified twice")) := by
  with_unfolding_all rfl

/-- the same through the parser: the two inputs `1 2` are applied to each other -/
theorem sCyc_parse :
    parseExprToks exPC (typedBuilder exL exOpsC true) [.src 0 none (.var 0), .src 1 none (.var 1)] sCyc ["1", "2"]
      = .error (.application (.internal "bind:variable cannot be unified twice")) := by
  unfold parseExprToks
  simp (config := {decide := true}) only [List.length, Nat.reduceAdd, parseExprLoop, typedBuilder,
    ↓reduceIte, lookupInput, (by decide : parseDecimal "1" = some 1), (by decide : parseDecimal "2" = some 2),
    Nat.reduceSub, List.getElem?_cons_zero, List.getElem?_cons_succ, sCyc_mkApp]

/-- `Expr.fix()` on the cyclic store with a bound on the variable `follow()` stops at: `fix` binds a bound
variable -/
def σcycU : Store :=
  { vars := [{ bound := some (.var 1) }, { bound := some (.var 0), upper := some 5, cset := 1 }],
    csets := [[], []], constrs := [] }

theorem σcycU_fix :
    fixExpr exL σcycU (.src 0 none (.var 0)) = .error (.internal "bind:variable cannot be unified twice") := by
  with_unfolding_all rfl

/-- an annotation on the cyclic store: the engine's assertion fires inside `unify`, and `annotateT` reports it
as `TypeAnnotationError` -/
theorem sCyc_annotateUnify :
    annotateUnify exL sCyc (.src 0 none (.var 0)) (.app 5 []) 0 false
      = .error (.internal "below:assert not self.bound") := by
  unfold annotateUnify
  show unify exL (3999+1) σcyc (.var 0) (.app 5 []) true false false = _
  rw [unify, followT_app, σcyc_f0]
  simp only []
  rw [if_neg (by decide), σcyc_occurs, if_neg (by decide), if_pos (by decide), if_neg (by decide), if_pos trivial]
  with_unfolding_all rfl

theorem sCyc_annotate :
    annotateT exL sCyc (.src 0 none (.var 0)) (.app 5 []) 0 false = .error .typeAnnotation := by
  rw [annotateT_eq, sCyc_annotateUnify]

/-! ## states reached by real runs satisfy the invariant -/

theorem sH_fuelOk : FuelOk sH.store := fuelOk_of_chainsB (by decide)
theorem sB_fuelOk : FuelOk sB.store := fuelOk_of_chainsB (by decide)
theorem sHB_fuelOk : FuelOk sHB.store := fuelOk_of_chainsB (by decide)
theorem s2_fuelOk : FuelOk s2.store := fuelOk_of_chainsB (by decide)
theorem s4_fuelOk : FuelOk s4.store := fuelOk_of_chainsB (by decide)

end Tfv.C17X
