import Tfv.Model
import Tfv.Spec.Sub
import Tfv.Spec.Fits
import Tfv.Spec.SatChain
import Tfv.Proofs.FitsApplyBase6
import Tfv.Proofs.FitsApplyBaseOwn6
import Tfv.Proofs.FitsApplyBaseRep3
import Tfv.Proofs.FitsApplyBaseOwn7
/-!
# C06 end to end, NULLARY argument: `x ** r(x) [x << {t₁, …, tₙ}]` instantiated and applied to a base type

`C06Apply.lean` covers a compound argument (the engine binds `x := a`). For a base type `a = A` the engine takes another path:
`unify(A, x)` → `above(x, A)` gives `x` the LOWER BOUND `A` and re-checks the constraint; the filter of `fulfill` works on the
bound (an alternative survives iff it is `Top` or a base type above `A`); a unique survivor `t` is unified with `x`
(`below(x, t)`: `x` gets the UPPER BOUND `t`; if `t = A` the bounds meet and `x := A`); the final `fix` of the result type binds
`x` to a bound — which one is decided by the FIRST occurrence of `x` that `fix` visits in the result type `r`: covariant → `x := A`
(the argument), contravariant → `x := t` (the ALTERNATIVE; nothing if `t = Top`).  `fixS` is that walk as a pure function,
`finS` the state of `x` at the end of the run (`none` unbound, `some b` bound to the base type `b`).

Setting as in `C06Apply.lean`: concrete pairwise incomparable alternatives (`antichain`), at least two, less than 64 deep; the fuel
`fuelFor r ts a` suffices.  Statements only; proofs in `Tfv/Proofs/FitsApplyBase1..5.lean`.

FINDINGS
* rejection is always the declared `constraintViolation` (from the filter); `subtypeMismatch` cannot arise on this path
  (antisymmetry of the declared order);
* under an antichain at most one alternative is above a base type (the ancestors of a base type form a chain), so "several fits"
  happens for `Bottom` only: there `unify` returns at once, nothing is recorded, the constraint stays pending with ALL alternatives;
* the record of the constraint keeps the reference `x` (a variable), it is not rewritten to the argument as in the compound case;
* `x ** r(x)` with `x` first met contravariantly in `r`: the result mentions the ALTERNATIVE, not the argument
  (`C06b_contravariant_result_is_alternative`).
-/
namespace Tfv.C06
open Tfv Tfv.C06A Tfv.C06B Tfv.C03R

/-! ## 1. a base type other than `Top`/`Bottom`: acceptance ⇔ fit -/

/-- **Acceptance iff fit** (base-type argument `A`, concrete pairwise incomparable alternatives): instantiating
`x ** r(x) [x << ts]` in the empty store and applying it to `A` succeeds iff `A` fits some alternative. -/
theorem C06b_accept_iff_fit (L : Lang) (wf : WF L) (N : Nat) (r : Term) (ts : List Ty) (ao : Nat) (fixFlag : Bool)
    (h0 : arityOf L ao = 0) (hb : ao ≠ BOT) (ht : ao ≠ TOP) (ha : antichain L ts = true) (h2 : 2 ≤ ts.length)
    (hd : ∀ t ∈ ts, Ty.depth t < 64) (hwa : wfTy L (.app ao []) = true) (hwt : ∀ t ∈ ts, wfTy L t = true)
    (hN : fuelFor r ts (.app ao []) ≤ N) :
    (∃ σ' res, runAll L N fixFlag (elimSchema r ts) [(Ty.app ao []).toTerm] = .ok (σ', res)) ↔
      ∃ t ∈ ts, Fits L (.app ao []) t.toTerm :=
  accept_iff_fit_base wf N r ts ao fixFlag h0 hb ht ha h2 hd hwa hwt hN

/-- … in the declared order of the operators: accepted iff some alternative has head `Top` or is a base type `T` with `A ≤ T`
(no well-formedness of the types needed) -/
theorem C06b_accept_iff_above (L : Lang) (wf : WF L) (N : Nat) (r : Term) (ts : List Ty) (ao : Nat) (fixFlag : Bool)
    (h0 : arityOf L ao = 0) (hb : ao ≠ BOT) (ht : ao ≠ TOP) (ha : antichain L ts = true) (h2 : 2 ≤ ts.length)
    (hd : ∀ t ∈ ts, Ty.depth t < 64) (hN : fuelFor r ts (.app ao []) ≤ N) :
    (∃ σ' res, runAll L N fixFlag (elimSchema r ts) [(Ty.app ao []).toTerm] = .ok (σ', res)) ↔
      ∃ t ∈ ts, C06B.hd t = TOP ∨ (arityOf L (C06B.hd t) = 0 ∧ opSub L ao (C06B.hd t) = true) :=
  accept_iff_above wf N r ts ao fixFlag h0 hb ht ha h2 hd hN

/-- when no alternative fits the base type, the error is the declared `constraintViolation` (never `subtypeMismatch`, never an
internal error, never `outOfFuel`) -/
theorem C06b_reject_is_violation (L : Lang) (wf : WF L) (N : Nat) (r : Term) (ts : List Ty) (ao : Nat) (fixFlag : Bool)
    (h0 : arityOf L ao = 0) (hb : ao ≠ BOT) (ht : ao ≠ TOP) (ha : antichain L ts = true) (h2 : 2 ≤ ts.length)
    (hd : ∀ t ∈ ts, Ty.depth t < 64) (hwa : wfTy L (.app ao []) = true) (hwt : ∀ t ∈ ts, wfTy L t = true)
    (hN : fuelFor r ts (.app ao []) ≤ N) (hno : ∀ t ∈ ts, ¬ Fits L (.app ao []) t.toTerm) :
    runAll L N fixFlag (elimSchema r ts) [(Ty.app ao []).toTerm] = .error .constraintViolation :=
  reject_is_violation_base wf N r ts ao fixFlag h0 hb ht ha h2 hd hwa hwt hN hno

/-- under an antichain at most one alternative is above a base type (other than `Bottom`): the ancestors of a base type form a
chain, `Top` is above everything. So for a base-type argument "several fits" does not happen. -/
theorem C06b_at_most_one (L : Lang) (wf : WF L) (ts : List Ty) (ao : Nat) (h0 : arityOf L ao = 0) (hb : ao ≠ BOT)
    (ha : antichain L ts = true) : (ts.filter (fun t => sub L (.app ao []) t)).length ≤ 1 :=
  at_most_one_base wf ts ao h0 hb ha

/-! ## 2. unique fit: the final store -/

/-- the run in one equation when exactly one alternative `t` is above the base type -/
theorem C06b_run_eq (L : Lang) (wf : WF L) (N : Nat) (r : Term) (ts : List Ty) (ao : Nat) (fixFlag : Bool) (t : Ty)
    (h0 : arityOf L ao = 0) (hb : ao ≠ BOT) (ht : ao ≠ TOP) (ha : antichain L ts = true) (h2 : 2 ≤ ts.length)
    (hd : ∀ t ∈ ts, Ty.depth t < 64) (hN : fuelFor r ts (.app ao []) ≤ N)
    (hk : ts.filter (fun t => sub L (.app ao []) t) = [t]) :
    runAll L N fixFlag (elimSchema r ts) [(Ty.app ao []).toTerm] =
      .ok (σFin L ao t r (fixFlag && !C06A.isFunT r),
        if fixFlag && !C06A.isFunT r then resTerm (σFin L ao t r (fixFlag && !C06A.isFunT r)) r else r) :=
  runAll_base_one L wf N r ts ao fixFlag t h0 hb ht ha h2 hd hN hk

/-- **Unique fit**: exactly one alternative `t` is above the base type `A`. The run succeeds; in the final store `x` has the
lower bound `A`, the upper bound `t` (none if `t = Top`) and the binding `finS …` (`some b`: bound to the base type `b`);
the record is `x << {t}` marked fulfilled and removed from the constraint set of `x`; `A ≤ t`; and if `x` ends bound to `b`
the result resolves to `r[x := b]`. -/
theorem C06b_unique_fit (L : Lang) (wf : WF L) (N : Nat) (r : Term) (ts : List Ty) (ao : Nat) (fixFlag : Bool) (t : Ty)
    (h0 : arityOf L ao = 0) (hb : ao ≠ BOT) (ht : ao ≠ TOP) (ha : antichain L ts = true) (h2 : 2 ≤ ts.length)
    (hd : ∀ t ∈ ts, Ty.depth t < 64) (hwa : wfTy L (.app ao []) = true) (hwt : ∀ t ∈ ts, wfTy L t = true)
    (hr : ∀ v ∈ r.vars, v = 0) (hN : fuelFor r ts (.app ao []) ≤ N)
    (hu : ts.filter (fun t => sub L (.app ao []) t) = [t]) :
    ∃ σ' res, runAll L N fixFlag (elimSchema r ts) [(Ty.app ao []).toTerm] = .ok (σ', res) ∧
      getVar σ' 0 = recS ao (upOf (C06B.hd t)) (finS L ao (C06B.hd t) r (fixFlag && !C06A.isFunT r)) ∧
      getConstr σ' 0 = .elim (.var 0) [t.toTerm] true ∧
      getCset σ' (getVar σ' 0).cset = [] ∧
      t ∈ ts ∧ Sub L (.app ao []) t ∧
      (∀ b, finS L ao (C06B.hd t) r (fixFlag && !C06A.isFunT r) = some b → Res σ' res (r.inst (fun _ => .app b []))) :=
  unique_fit_base wf N r ts ao fixFlag t h0 hb ht ha h2 hd hwa hwt hr hN hu

/-- `x` occurs in the result type, every occurrence `fix` visits is covariant, and `fix` runs: `x` ends bound to the ARGUMENT -/
theorem C06b_covariant_binds_argument (L : Lang) (ao bo : Nat) (r : Term) (hp : posB L true r = true)
    (hv : visB L r = true) : finS L ao bo r true = some ao :=
  finS_pos L ao bo r hp hv

/-- without `fix` (or when the result type is a function, which `apply` does not fix) `x` stays unbound between its bounds,
unless the alternative IS the argument (then the bounds meet and `x := A`) -/
theorem C06b_nofix_state (L : Lang) (ao bo : Nat) (r : Term) : finS L ao bo r false = if bo == ao then some ao else none := rfl

/-! ## 3. the argument `Bottom` (fits every alternative) -/

/-- **`Bottom`**: accepted whatever the alternatives; `unify(Bottom, x)` returns at once: the store is the one after `instantiate`
(`x` unbound, no bounds, the constraint PENDING with ALL alternatives), the result is `r` with `x` unresolved. -/
theorem C06b_bottom (L : Lang) (N : Nat) (r : Term) (ts : List Ty) (fixFlag : Bool)
    (ha : antichain L ts = true) (h2 : 2 ≤ ts.length) (hd : ∀ t ∈ ts, Ty.depth t < 64)
    (hN : fuelFor r ts (.app BOT []) ≤ N) :
    runAll L N fixFlag (elimSchema r ts) [(Ty.app BOT []).toTerm] = .ok (σ0 (Ty.toTermL ts), r) ∧
      (getVar (σ0 (Ty.toTermL ts)) 0).bound = none ∧
      getConstr (σ0 (Ty.toTermL ts)) 0 = .elim (.var 0) (Ty.toTermL ts) false ∧
      getCset (σ0 (Ty.toTermL ts)) (getVar (σ0 (Ty.toTermL ts)) 0).cset = [0] ∧
      ∀ t ∈ ts, sub L (.app BOT []) t = true :=
  ⟨runAll_bottom L N r ts fixFlag ha h2 hd hN, rfl, rfl, rfl, fun t _ => sub_bottom L t⟩

/-! ## 4. the argument `Top` -/

/-- **`Top`**: never accepted: no alternative of an antichain of two or more is above `Top`; the error is the declared
`constraintViolation` (the engine binds `x := Top` and re-checks the constraint on the concrete reference). -/
theorem C06b_top (L : Lang) (wf : WF L) (N : Nat) (r : Term) (ts : List Ty) (fixFlag : Bool)
    (ha : antichain L ts = true) (h2 : 2 ≤ ts.length) (hd : ∀ t ∈ ts, Ty.depth t < 64)
    (hN : fuelFor r ts (.app TOP []) ≤ N) :
    runAll L N fixFlag (elimSchema r ts) [(Ty.app TOP []).toTerm] = .error .constraintViolation ∧
      ts.filter (fun t => sub L (.app TOP []) t) = [] :=
  ⟨runAll_top L wf N r ts fixFlag ha h2 hd hN, top_no_fit wf ha h2⟩

/-! ## the strict declared order (used above, of independent use) -/

/-- the strict declared order on operators is irreflexive (off `Top`/`Bottom`, where `opSub … strict` answers `true`) -/
theorem C06b_strict_irrefl (L : Lang) (wf : WF L) (a : Nat) (hb : a ≠ BOT) (ht : a ≠ TOP) : opSub L a a true = false :=
  opSub_strict_irrefl wf hb ht

/-- antisymmetry: `a ≤ b` excludes `b < a` -/
theorem C06b_strict_antisymm (L : Lang) (wf : WF L) (a b : Nat) (h : opSub L a b = true) (ha : a ≠ BOT) (hb : b ≠ TOP) :
    opSub L b a true = false :=
  opSub_strict_antisymm wf h ha hb

/-- two operators above the same operator (not `Bottom`) are comparable -/
theorem C06b_above_comparable (L : Lang) (wf : WF L) (a b c : Nat) (ha : a ≠ BOT) (h1 : opSub L a b = true)
    (h2 : opSub L a c = true) : opSub L b c = true ∨ opSub L c b = true :=
  opSub_comparable wf ha h1 h2

/-- the store after `above(x, A)` on the instantiated signature, by the alternatives the filter keeps -/
theorem C06b_above (L : Lang) (wf : WF L) (m ao : Nat) (ts : List Ty)
    (hb : ao ≠ BOT) (ht : ao ≠ TOP) (ha : antichain L ts = true)
    (hd : ∀ t ∈ ts, Ty.depth t < 64) (hn : ts.length + 2 * Ty.sizeL ts + 1 ≤ m + 4) :
    above L (m+9) (σ0 (Ty.toTermL ts)) 0 ao = afterB ao (ts.filter (aboveB L ao)) :=
  above_lower L wf m ao ts hb ht ha hd hn

/-- `fix` on the one-variable store with bounds is the pure walk `fixS` -/
theorem C06b_fix_is_fixS (L : Lang) (ao : Nat) (up : Option Nat) (ok : OKB L ao up) (c : Constr) (n : Nat) (t : Term)
    (pl : Bool) (s : Option Nat) (h : 2 * tsz t + 3 ≤ n) :
    fix L n (σX (recS ao up s) [] c) t pl =
      .ok (σX (recS ao up (C06B.fixS L ao up pl t s)) [] c, resTerm (σX (recS ao up (C06B.fixS L ao up pl t s)) [] c) t) :=
  fix_S ok c n t pl s h

/-! ## 5. alternatives with their OWN variables: `x ** r(x) [x << {F(b), G(c, d)}]`, compound argument

`ownSchema r F G`: variables `x = 0`, `b = 1`, `c = 2`, `d = 3`; `F` unary, `G` binary, different operators of ANY variance
(`OwnOps L F G`), in any well-formed language; `r` mentions `x` only. The engine binds `x := a`, `minimize` leaves the two patterns
alone (different heads), the filter keeps the alternative whose head is the head of `a`, `unify(a, F(b))` hands each component
of `a` to the variable of the alternative: in a covariant position a base type becomes the LOWER bound of `b`, in a contravariant
position its UPPER bound, a compound component (and `Top` covariantly / `Bottom` contravariantly) is bound, `Bottom` covariantly /
`Top` contravariantly leaves `b` untouched (`argInfo`). -/

/-- a compound argument fits `F(b)` iff its head is `F` (fit of a linear flat pattern) -/
theorem C06b_fits_flat (L : Lang) (wf : WF L) (o1 o2 : Nat) (ops : OwnOps L o1 o2) (ao : Nat) (as : List Ty)
    (h0 : arityOf L ao ≠ 0) (hw : wfTy L (.app ao as) = true) :
    (Fits L (.app ao as) (P1 o1) ↔ ao = o1) ∧ (Fits L (.app ao as) (P2 o2) ↔ ao = o2) :=
  ⟨fits_P1_iff wf ops h0 hw, fits_P2_iff wf ops h0 hw⟩

/-- **Acceptance iff fit** (alternatives `F(b)`, `G(c, d)` with their own variables, compound argument): the run succeeds iff
the argument fits one of the two alternatives -/
theorem C06b_own_accept_iff_fit (L : Lang) (wf : WF L) (o1 o2 : Nat) (ops : OwnOps L o1 o2) (N : Nat) (r : Term)
    (ao : Nat) (as : List Ty) (fixFlag : Bool) (h0 : arityOf L ao ≠ 0) (hw : wfTy L (.app ao as) = true)
    (hda : Ty.depth (.app ao as) < 64) (hr : ∀ v ∈ r.vars, v = 0) (hN : ownFuel r (.app ao as) ≤ N) :
    (∃ σ' res, runAll L N fixFlag (ownSchema r o1 o2) [(Ty.app ao as).toTerm] = .ok (σ', res)) ↔
      ∃ p ∈ [P1 o1, P2 o2], Fits L (.app ao as) p :=
  own_accept_iff_fit wf o1 o2 ops N r ao as fixFlag h0 hw hda hr hN

/-- … iff the head of the argument is `F` or `G` -/
theorem C06b_own_accept_iff_head (L : Lang) (wf : WF L) (o1 o2 : Nat) (ops : OwnOps L o1 o2) (N : Nat) (r : Term)
    (ao : Nat) (as : List Ty) (fixFlag : Bool) (h0 : arityOf L ao ≠ 0) (hw : wfTy L (.app ao as) = true)
    (hda : Ty.depth (.app ao as) < 64) (hr : ∀ v ∈ r.vars, v = 0) (hN : ownFuel r (.app ao as) ≤ N) :
    (∃ σ' res, runAll L N fixFlag (ownSchema r o1 o2) [(Ty.app ao as).toTerm] = .ok (σ', res)) ↔ (ao = o1 ∨ ao = o2) :=
  own_accept_iff_head wf o1 o2 ops N r ao as fixFlag h0 hw hda hr hN

/-- when the argument fits neither alternative the error is the declared `constraintViolation` -/
theorem C06b_own_reject_is_violation (L : Lang) (wf : WF L) (o1 o2 : Nat) (ops : OwnOps L o1 o2) (N : Nat) (r : Term)
    (ao : Nat) (as : List Ty) (fixFlag : Bool) (h0 : arityOf L ao ≠ 0) (hw : wfTy L (.app ao as) = true)
    (hda : Ty.depth (.app ao as) < 64) (hr : ∀ v ∈ r.vars, v = 0) (hN : ownFuel r (.app ao as) ≤ N)
    (hno : ∀ p ∈ [P1 o1, P2 o2], ¬ Fits L (.app ao as) p) :
    runAll L N fixFlag (ownSchema r o1 o2) [(Ty.app ao as).toTerm] = .error .constraintViolation :=
  own_reject wf o1 o2 ops N r ao as fixFlag h0 hw hda hr hN hno

/-- **Acceptance iff fit for EVERY well-formed concrete argument** — compound, base type, `Top`, `Bottom`: a base type or `Top`
fits no compound pattern and is rejected (the filter eliminates a compound alternative as soon as `x` has a bound);
`Bottom` fits both and is accepted (nothing is recorded). -/
theorem C06b_own_accept_iff_fit_all (L : Lang) (wf : WF L) (o1 o2 : Nat) (ops : OwnOps L o1 o2) (N : Nat) (r : Term)
    (a : Ty) (fixFlag : Bool) (hw : wfTy L a = true) (hda : Ty.depth a < 64) (hr : ∀ v ∈ r.vars, v = 0)
    (hN : ownFuel r a ≤ N) :
    (∃ σ' res, runAll L N fixFlag (ownSchema r o1 o2) [a.toTerm] = .ok (σ', res)) ↔
      ∃ p ∈ [P1 o1, P2 o2], Fits L a p :=
  own_accept_iff_fit_all wf o1 o2 ops N r a fixFlag hw hda hr hN

/-- … and rejection is always the declared `constraintViolation` -/
theorem C06b_own_reject_all (L : Lang) (wf : WF L) (o1 o2 : Nat) (ops : OwnOps L o1 o2) (N : Nat) (r : Term)
    (a : Ty) (fixFlag : Bool) (hw : wfTy L a = true) (hda : Ty.depth a < 64) (hr : ∀ v ∈ r.vars, v = 0)
    (hN : ownFuel r a ≤ N) (hno : ∀ p ∈ [P1 o1, P2 o2], ¬ Fits L a p) :
    runAll L N fixFlag (ownSchema r o1 o2) [a.toTerm] = .error .constraintViolation :=
  own_reject_all wf o1 o2 ops N r a fixFlag hw hda hr hN hno

/-- `Bottom`: accepted, the store is the one after `instantiate` (constraint pending with both alternatives) -/
theorem C06b_own_bottom (L : Lang) (wf : WF L) (o1 o2 : Nat) (ops : OwnOps L o1 o2) (N : Nat) (r : Term)
    (fixFlag : Bool) (hN : ownFuel r (.app BOT []) ≤ N) :
    runAll L N fixFlag (ownSchema r o1 o2) [(Ty.app BOT []).toTerm] = .ok (σI o1 o2, r) :=
  runAll_own_bottom L wf o1 o2 ops N r fixFlag hN

/-- the run in one equation: the outcome is `ownAfter` (by the head of the argument) -/
theorem C06b_own_run_eq (L : Lang) (wf : WF L) (o1 o2 : Nat) (ops : OwnOps L o1 o2) (N : Nat) (r : Term) (ao : Nat)
    (as : List Ty) (fixFlag : Bool) (h0 : arityOf L ao ≠ 0) (hw : wfTy L (.app ao as) = true)
    (hda : Ty.depth (.app ao as) < 64) (hr : ∀ v ∈ r.vars, v = 0) (hN : ownFuel r (.app ao as) ≤ N) :
    runAll L N fixFlag (ownSchema r o1 o2) [(Ty.app ao as).toTerm] =
      (match ownAfter L o1 o2 (.app ao as) with
       | .error e => .error e
       | .ok σ1 => .ok (σ1, if fixFlag && !C06A.isFunT r then resTerm σ1 r else r)) :=
  runAll_own L wf o1 o2 ops N r ao as fixFlag h0 hw hda hr hN

/-- **Unique fit `F(b)`**: the argument is `F(a₁)`. Accepted; `x` is bound to the argument, the record is `F(a₁) << {F(b)}` marked
fulfilled and removed from the constraint set of `x`; `b` carries what `a₁` gave it (`argInfo`: bound / lower bound / upper
bound / untouched, by the variance `v1` of `F`); `c`, `d` are untouched; the result resolves to `r[x := F(a₁)]`. -/
theorem C06b_own_fit_F (L : Lang) (wf : WF L) (o1 o2 : Nat) (ops : OwnOps L o1 o2) (N : Nat) (r : Term) (a1 : Ty)
    (v1 : Bool) (fixFlag : Bool) (hv : varianceOf L o1 = [v1]) (hw : wfTy L (.app o1 [a1]) = true)
    (hda : Ty.depth (.app o1 [a1]) < 64) (hr : ∀ v ∈ r.vars, v = 0) (hN : ownFuel r (.app o1 [a1]) ≤ N) :
    ∃ σ' res, runAll L N fixFlag (ownSchema r o1 o2) [(Ty.app o1 [a1]).toTerm] = .ok (σ', res) ∧
      (getVar σ' 0).bound = some (Ty.app o1 [a1]).toTerm ∧
      getConstr σ' 0 = .elim (Ty.app o1 [a1]).toTerm [P1 o1] true ∧
      getCset σ' (getVar σ' 0).cset = [] ∧
      getVar σ' 1 = argInfo L v1 a1 1 ∧ getVar σ' 2 = { cset := 2 } ∧ getVar σ' 3 = { cset := 3 } ∧
      Res σ' res (r.inst (fun _ => .app o1 [a1])) :=
  own_fit_F wf o1 o2 ops N r a1 v1 fixFlag hv hw hda hr hN

/-- **Unique fit `G(c, d)`**: the argument is `G(a₁, a₂)`; as above, `c` and `d` carry what `a₁`, `a₂` gave them, `b` is untouched -/
theorem C06b_own_fit_G (L : Lang) (wf : WF L) (o1 o2 : Nat) (ops : OwnOps L o1 o2) (N : Nat) (r : Term) (a1 a2 : Ty)
    (v2 v3 : Bool) (fixFlag : Bool) (hv : varianceOf L o2 = [v2, v3]) (hw : wfTy L (.app o2 [a1, a2]) = true)
    (hda : Ty.depth (.app o2 [a1, a2]) < 64) (hr : ∀ v ∈ r.vars, v = 0) (hN : ownFuel r (.app o2 [a1, a2]) ≤ N) :
    ∃ σ' res, runAll L N fixFlag (ownSchema r o1 o2) [(Ty.app o2 [a1, a2]).toTerm] = .ok (σ', res) ∧
      (getVar σ' 0).bound = some (Ty.app o2 [a1, a2]).toTerm ∧
      getConstr σ' 0 = .elim (Ty.app o2 [a1, a2]).toTerm [P2 o2] true ∧
      getCset σ' (getVar σ' 0).cset = [] ∧
      getVar σ' 1 = { cset := 1 } ∧ getVar σ' 2 = argInfo L v2 a1 2 ∧ getVar σ' 3 = argInfo L v3 a2 3 ∧
      Res σ' res (r.inst (fun _ => .app o2 [a1, a2])) :=
  own_fit_G wf o1 o2 ops N r a1 a2 v2 v3 fixFlag hv hw hda hr hN

/-- one component handed to the variable of the alternative, in any store where that variable is fresh (free, in its own
constraint set, its only constraint already fulfilled): covariant position -/
theorem C06b_unify_component_co (L : Lang) (m : Nat) (σ : Store) (w c : Nat) (t : Ty) (hf : FreshAt σ w c) :
    unify L (m+6) σ t.toTerm (.var w) true false false = .ok (argStep L σ true t w) :=
  unify_co L m σ w c t hf

/-- … contravariant position -/
theorem C06b_unify_component_contra (L : Lang) (m : Nat) (σ : Store) (w c : Nat) (t : Ty) (hf : FreshAt σ w c) :
    unify L (m+6) σ (.var w) t.toTerm true false false = .ok (argStep L σ false t w) :=
  unify_contra L m σ w c t hf

/-- `instantiate` of the signature: four variables, the constraint pending with both alternatives, attached to all four -/
theorem C06b_own_instantiate (L : Lang) (wf : WF L) (o1 o2 : Nat) (ops : OwnOps L o1 o2) (r : Term) (n : Nat)
    (hn : 2 * tsz r + 6 ≤ n) :
    instantiate L (n+5) {} (ownSchema r o1 o2) = .ok (σI o1 o2, .app FUN [.var 0, r]) :=
  instantiate_ownSchema L wf o1 o2 ops r n hn

/-! ## 6. an alternative that REPEATS its variable in one polarity: `x ** r(x) [x << {G(b, b), F(c)}]` applied to `G(A₁, A₂)`

`repSchema r F G`: variables `x = 0`, `b = 1`, `c = 2`; `G` binary and covariant in both places, `F` unary (`RepOps L F G`);
`A₁`, `A₂` base types other than `Top`/`Bottom`. `G(A₁, A₂)` always FITS `G(b, b)` (`b := Top`), the filter keeps `G(b, b)` as the
unique alternative, and `unify` hands `A₁` and then `A₂` to the same `b`: the second `above` raises the lower bound, keeps it, or
FAILS when the two are incomparable (there are no joins). So "acceptance ⇔ fit" is FALSE here (`C06b_rep_counterexample`); what
holds: accepted ⇔ `A₁`, `A₂` comparable; otherwise the error is `subtypeMismatch`, not the declared `constraintViolation`. -/

/-- `G(A₁, A₂)` fits `G(b, b)` whatever `A₁`, `A₂` are (`b := Top`) -/
theorem C06b_rep_fits_always (L : Lang) (wf : WF L) (oF oG : Nat) (ops : RepOps L oF oG) (A1 A2 : Nat) :
    Fits L (aG oG A1 A2) (R1 oG) :=
  rep_fits wf oF oG ops A1 A2

/-- **accepted iff the two components are comparable** (`A₂ < A₁` or `A₁ ≤ A₂` in the declared order) -/
theorem C06b_rep_accept_iff_comparable (L : Lang) (wf : WF L) (oF oG : Nat) (ops : RepOps L oF oG) (N : Nat) (r : Term)
    (A1 A2 : Nat) (fixFlag : Bool) (h1 : arityOf L A1 = 0) (h2 : arityOf L A2 = 0) (b1 : A1 ≠ BOT) (t1 : A1 ≠ TOP)
    (b2 : A2 ≠ BOT) (t2 : A2 ≠ TOP) (hr : ∀ v ∈ r.vars, v = 0) (hN : repFuel r ≤ N) :
    (∃ σ' res, runAll L N fixFlag (repSchema r oF oG) [(aG oG A1 A2).toTerm] = .ok (σ', res)) ↔
      (opSub L A2 A1 true = true ∨ opSub L A1 A2 = true) :=
  rep_accept_iff wf oF oG ops N r A1 A2 fixFlag h1 h2 b1 t1 b2 t2 hr hN

/-- PARTIAL (the full "acceptance ⇔ some alternative fits" is false, `C06b_rep_counterexample`): it holds when the two
components are comparable -/
theorem C06b_rep_accept_iff_fit_partial (L : Lang) (wf : WF L) (oF oG : Nat) (ops : RepOps L oF oG) (N : Nat) (r : Term)
    (A1 A2 : Nat) (fixFlag : Bool) (h1 : arityOf L A1 = 0) (h2 : arityOf L A2 = 0) (b1 : A1 ≠ BOT) (t1 : A1 ≠ TOP)
    (b2 : A2 ≠ BOT) (t2 : A2 ≠ TOP) (hr : ∀ v ∈ r.vars, v = 0) (hN : repFuel r ≤ N)
    (hc : opSub L A2 A1 true = true ∨ opSub L A1 A2 = true) :
    (∃ σ' res, runAll L N fixFlag (repSchema r oF oG) [(aG oG A1 A2).toTerm] = .ok (σ', res)) ↔
      ∃ p ∈ [R1 oG, R2 oF], Fits L (aG oG A1 A2) p :=
  ⟨fun _ => ⟨R1 oG, List.mem_cons_self, rep_fits wf oF oG ops A1 A2⟩,
   fun _ => (rep_accept_iff wf oF oG ops N r A1 A2 fixFlag h1 h2 b1 t1 b2 t2 hr hN).mpr hc⟩

/-- incomparable components: rejected with `subtypeMismatch` (raised by `above`), although the argument fits -/
theorem C06b_rep_reject_is_mismatch (L : Lang) (wf : WF L) (oF oG : Nat) (ops : RepOps L oF oG) (N : Nat) (r : Term)
    (A1 A2 : Nat) (fixFlag : Bool) (h1 : arityOf L A1 = 0) (h2 : arityOf L A2 = 0) (b1 : A1 ≠ BOT) (t1 : A1 ≠ TOP)
    (b2 : A2 ≠ BOT) (t2 : A2 ≠ TOP) (hr : ∀ v ∈ r.vars, v = 0) (hN : repFuel r ≤ N)
    (hn1 : opSub L A2 A1 true = false) (hn2 : opSub L A1 A2 = false) :
    runAll L N fixFlag (repSchema r oF oG) [(aG oG A1 A2).toTerm] = .error .subtypeMismatch :=
  rep_reject wf oF oG ops N r A1 A2 fixFlag h1 h2 b1 t1 b2 t2 hr hN hn1 hn2

/-- comparable components: accepted; `x` is bound to the argument, `b` has the LARGER component as its lower bound (no upper
bound, unbound — `fix` does not reach it through `r(x)`), the record is `G(A₁, A₂) << {G(b, b)}` fulfilled, the constraint sets of
`x` and `b` are empty, the result resolves to `r[x := G(A₁, A₂)]` -/
theorem C06b_rep_accepted (L : Lang) (wf : WF L) (oF oG : Nat) (ops : RepOps L oF oG) (N : Nat) (r : Term)
    (A1 A2 : Nat) (fixFlag : Bool) (h1 : arityOf L A1 = 0) (h2 : arityOf L A2 = 0) (b1 : A1 ≠ BOT) (t1 : A1 ≠ TOP)
    (b2 : A2 ≠ BOT) (t2 : A2 ≠ TOP) (hr : ∀ v ∈ r.vars, v = 0) (hN : repFuel r ≤ N)
    (hc : opSub L A2 A1 true = true ∨ opSub L A1 A2 = true) :
    ∃ σ' res, runAll L N fixFlag (repSchema r oF oG) [(aG oG A1 A2).toTerm] = .ok (σ', res) ∧
      (getVar σ' 0).bound = some (aG oG A1 A2).toTerm ∧
      getVar σ' 1 = { lower := some (if opSub L A2 A1 true then A1 else A2), cset := 1 } ∧
      getConstr σ' 0 = .elim (aG oG A1 A2).toTerm [R1 oG] true ∧
      getCset σ' 0 = [] ∧ getCset σ' 1 = [] ∧
      Res σ' res (r.inst (fun _ => aG oG A1 A2)) :=
  rep_accepted wf oF oG ops N r A1 A2 fixFlag h1 h2 b1 t1 b2 t2 hr hN hc

/-! ## 7. findings and non-vacuity (`exL`: `A = 5 > B = 6`, `F = 7` unary, `G = 8` binary, `C = 9`) -/

open FitsEx

def bA : Ty := .app 5 []
def bB : Ty := .app 6 []
def bC : Ty := .app 9 []
/-- the alternatives `A`, `C` -/
def bTs : List Ty := [bA, bC]
/-- the result type `F(x)` -/
def bR : Term := .app 7 [.var 0]
/-- the result type `F(x ** x)`: `fix` meets `x` first in a contravariant position -/
def bRc : Term := .app 7 [.app FUN [.var 0, .var 0]]

example : WF exL := exL_wf
example : arityOf exL 6 = 0 ∧ (6 : Nat) ≠ BOT ∧ (6 : Nat) ≠ TOP := by decide
example : antichain exL bTs = true := by decide
example : 2 ≤ bTs.length := by decide
example : ∀ t ∈ bTs, Ty.depth t < 64 := by decide
example : ∀ t ∈ bTs, wfTy exL t = true := by decide
example : wfTy exL bB = true := by decide
example : ∀ v ∈ bR.vars, v = 0 := by decide
example : fuelFor bR bTs bB ≤ 100 := by decide
-- unique fit: `B` fits `A` only; `A` fits `A` only (the bounds meet); `Unit` fits nothing
example : bTs.filter (fun t => sub exL bB t) = [bA] := by rfl
example : bTs.filter (fun t => sub exL bA t) = [bA] := by rfl
example : bTs.filter (fun t => sub exL (.app 0 []) t) = [] := by rfl
example : posB exL true bR = true ∧ visB exL bR = true := by decide
example : posB exL true bRc = false := by decide

/-- `x ** F(x) [x << {A, C}]` applied to `B`: accepted, `x` ends with lower bound `B`, upper bound `A`, bound to `B`; the record
is `x << {A}` fulfilled; the result resolves to `F(B)` -/
example : ∃ σ' res, runAll exL 100 true (elimSchema bR bTs) [bB.toTerm] = .ok (σ', res) ∧
    getVar σ' 0 = { bound := some (.app 6 []), lower := some 6, upper := some 5, cset := 0 } ∧
    getConstr σ' 0 = .elim (.var 0) [bA.toTerm] true ∧ Res σ' res (.app 7 [bB]) := by
  obtain ⟨σ', res, h1, h2, h3, _, _, _, h7⟩ := C06b_unique_fit exL exL_wf 100 bR bTs 6 true bA (by decide) (by decide)
    (by decide) (by decide) (by decide) (by decide) (by decide) (by decide) (by decide) (by decide) (by rfl)
  have hs : finS exL 6 (C06B.hd bA) bR (true && !C06A.isFunT bR) = some 6 :=
    C06b_covariant_binds_argument exL 6 5 bR (by decide) (by decide)
  exact ⟨σ', res, h1, by rw [h2, hs]; rfl, h3, h7 6 hs⟩

/-- … applied to `A` (the alternative itself): the bounds meet, `x := A` already before `fix` -/
example : finS exL 5 (C06B.hd bA) bR false = some 5 := by rfl

/-- … applied to `Unit`: `constraintViolation`; the acceptance criterion says the same -/
example : runAll exL 100 true (elimSchema bR bTs) [(Ty.app 0 []).toTerm] = .error .constraintViolation :=
  C06b_reject_is_violation exL exL_wf 100 bR bTs 0 true (by decide) (by decide) (by decide) (by decide) (by decide)
    (by decide) (by decide) (by decide) (by decide)
    (fun t ht hf => by
      have hw : wfTy exL t = true := (by decide : ∀ t ∈ bTs, wfTy exL t = true) t ht
      have hs := (fits_toTerm_iff exL_wf (a := .app 0 []) (t := t) (by decide) hw).mp hf
      rw [(by decide : ∀ t ∈ bTs, sub exL (.app 0 []) t = false) t ht] at hs
      cases hs)

example : ∃ t ∈ bTs, Fits exL bB t.toTerm :=
  (C06b_accept_iff_fit exL exL_wf 100 bR bTs 6 true (by decide) (by decide) (by decide) (by decide) (by decide)
    (by decide) (by decide) (by decide) (by decide)).mp
    (by rw [C06b_run_eq exL exL_wf 100 bR bTs 6 true bA (by decide) (by decide) (by decide) (by decide) (by decide)
          (by decide) (by decide) (by rfl)]
        exact ⟨_, _, rfl⟩)

/-- `Bottom`: accepted, pending with both alternatives -/
example : runAll exL 100 true (elimSchema bR bTs) [(Ty.app BOT []).toTerm] = .ok (σ0 (Ty.toTermL bTs), bR) :=
  (C06b_bottom exL 100 bR bTs true (by decide) (by decide) (by decide) (by decide)).1

/-- `Top`: `constraintViolation` -/
example : runAll exL 100 true (elimSchema bR bTs) [(Ty.app TOP []).toTerm] = .error .constraintViolation :=
  (C06b_top exL exL_wf 100 bR bTs true (by decide) (by decide) (by decide) (by decide)).1

/-- FINDING (the result mentions the alternative, not the argument): `x ** F(x ** x) [x << {A, C}]` applied to `B`. `fix` walks
`F(x ** x)`, meets `x` first as the INPUT of `x ** x` (contravariant, so it prefers the upper bound) and binds `x := A`, the
alternative: the result resolves to `F(A ** A)`, although the argument was `B` (with the covariant `F(x)` the result is `F(B)`). -/
theorem C06b_contravariant_result_is_alternative :
    finS exL 6 5 bRc true = some 5 ∧
    (∃ σ' res, runAll exL 100 true (elimSchema bRc bTs) [bB.toTerm] = .ok (σ', res) ∧
      (getVar σ' 0).bound = some (.app 5 []) ∧ Res σ' res (.app 7 [.app FUN [bA, bA]])) := by
  refine ⟨by rfl, ?_⟩
  obtain ⟨σ', res, h1, h2, _, _, _, _, h7⟩ := C06b_unique_fit exL exL_wf 100 bRc bTs 6 true bA (by decide) (by decide)
    (by decide) (by decide) (by decide) (by decide) (by decide) (by decide) (by decide) (by decide) (by rfl)
  have hs : finS exL 6 (C06B.hd bA) bRc (true && !C06A.isFunT bRc) = some 5 := by rfl
  exact ⟨σ', res, h1, by rw [h2, hs]; rfl, h7 5 hs⟩

/-- the same run evaluated by the kernel on the structurally recursive copy of the engine (independent of the proofs above) -/
theorem C06b_contravariant_kernel :
    ∃ σ t, runAll exL 100 true (elimSchema bRc bTs) [bB.toTerm] = .ok (σ, t) ∧
      resB σ t (.app 7 [.app FUN [bA, bA]]) = true := by
  rw [runAll_eq_K]; exact succeedsWith_iff.mp (by decide +kernel)

/-! ### own variables: `x ** F(x) [x << {F(b), G(c, d)}]` over `exL` (`F = 7` unary covariant, `G = 8` binary covariant) -/

theorem exOwnOps : OwnOps exL 7 8 := ⟨by decide, by decide, by decide⟩
example : varianceOf exL 7 = [true] ∧ varianceOf exL 8 = [true, true] := by decide
example : wfTy exL (.app 7 [bB]) = true ∧ Ty.depth (.app 7 [bB]) < 64 ∧ ownFuel bR (.app 7 [bB]) ≤ 100 := by decide
example : wfTy exL (.app 8 [bA, .app 7 [bC]]) = true ∧ ownFuel bR (.app 8 [bA, .app 7 [bC]]) ≤ 100 := by decide

/-- applied to `F(B)`: accepted, `b` gets the lower bound `B`, the result resolves to `F(F(B))` -/
example : ∃ σ' res, runAll exL 100 true (ownSchema bR 7 8) [(Ty.app 7 [bB]).toTerm] = .ok (σ', res) ∧
    getVar σ' 1 = { lower := some 6, cset := 1 } ∧ Res σ' res (.app 7 [.app 7 [bB]]) := by
  obtain ⟨σ', res, h1, _, _, _, h5, _, _, h8⟩ := C06b_own_fit_F exL exL_wf 7 8 exOwnOps 100 bR bB true true (by decide)
    (by decide) (by decide) (by decide) (by decide)
  exact ⟨σ', res, h1, by rw [h5]; rfl, h8⟩

/-- applied to `G(A, F(C))`: accepted, `c` gets the lower bound `A`, `d` is bound to `F(C)` -/
example : ∃ σ' res, runAll exL 100 true (ownSchema bR 7 8) [(Ty.app 8 [bA, .app 7 [bC]]).toTerm] = .ok (σ', res) ∧
    getVar σ' 2 = { lower := some 5, cset := 2 } ∧
    getVar σ' 3 = { bound := some (.app 7 [.app 9 []]), cset := 3 } := by
  obtain ⟨σ', res, h1, _, _, _, _, h6, h7, _⟩ := C06b_own_fit_G exL exL_wf 7 8 exOwnOps 100 bR bA (.app 7 [bC]) true true
    true (by decide) (by decide) (by decide) (by decide) (by decide)
  exact ⟨σ', res, h1, by rw [h6]; rfl, by rw [h7]; rfl⟩

/-- applied to `A ** A` (head `Function`): fits neither alternative, `constraintViolation` -/
example : runAll exL 100 true (ownSchema bR 7 8) [(Ty.app FUN [bA, bA]).toTerm] = .error .constraintViolation := by
  have h := C06b_own_run_eq exL exL_wf 7 8 exOwnOps 100 bR FUN [bA, bA] true (by decide) (by decide) (by decide)
    (by decide) (by decide)
  exact h

/-- the acceptance criterion on the same data -/
example : ∃ p ∈ [P1 7, P2 8], Fits exL (.app 7 [bB]) p :=
  (C06b_own_accept_iff_fit exL exL_wf 7 8 exOwnOps 100 bR 7 [bB] true (by decide) (by decide) (by decide) (by decide)
    (by decide)).mp
    (by obtain ⟨σ', res, h1, _⟩ := C06b_own_fit_F exL exL_wf 7 8 exOwnOps 100 bR bB true true (by decide)
          (by decide) (by decide) (by decide) (by decide)
        exact ⟨σ', res, h1⟩)

/-- the run on `F(B)` evaluated by the kernel on the structurally recursive copy of the engine (independent check) -/
theorem C06b_own_kernel :
    ∃ σ t, runAll exL 100 true (ownSchema bR 7 8) [(Ty.app 7 [bB]).toTerm] = .ok (σ, t) ∧
      (resB σ t (.app 7 [.app 7 [bB]]) && ((getVar σ 1).lower == some 6) && (getVar σ 1).bound.isNone &&
        (match getConstr σ 0 with | .elim _ alts ful => ful && alts.length == 1 | _ => false)) = true := by
  rw [runAll_eq_K]; exact succeedsWith_iff.mp (by decide +kernel)

/-- the acceptance criterion for every argument, on a base type: `A` fits neither `F(b)` nor `G(c, d)` -/
example : ¬ ∃ σ' res, runAll exL 100 true (ownSchema bR 7 8) [bA.toTerm] = .ok (σ', res) := fun h =>
  let ⟨p, hp, hf⟩ := (C06b_own_accept_iff_fit_all exL exL_wf 7 8 exOwnOps 100 bR bA true (by decide) (by decide)
    (by decide) (by decide)).mp h
  no_fit_nullary exL_wf exOwnOps (A := 5) (by decide) (by decide) (by decide) p hp hf

/-- base-type / `Top` / `Bottom` arguments for the signature with own variables, evaluated by the kernel: `A` and `Top` fit no
compound pattern and are rejected with `constraintViolation`; `Bottom` is accepted and leaves the constraint pending -/
theorem C06b_own_nullary_kernel :
    runAll exL 100 true (ownSchema bR 7 8) [bA.toTerm] = .error .constraintViolation ∧
    runAll exL 100 true (ownSchema bR 7 8) [(Ty.app TOP []).toTerm] = .error .constraintViolation ∧
    (∃ σ t, runAll exL 100 true (ownSchema bR 7 8) [(Ty.app BOT []).toTerm] = .ok (σ, t) ∧
      ((getVar σ 0).bound.isNone &&
        (match getConstr σ 0 with | .elim _ alts ful => !ful && alts.length == 2 | _ => false)) = true) := by
  refine ⟨?_, ?_, ?_⟩
  · rw [runAll_eq_K]; exact failsWith_iff.mp (by decide +kernel)
  · rw [runAll_eq_K]; exact failsWith_iff.mp (by decide +kernel)
  · rw [runAll_eq_K]; exact succeedsWith_iff.mp (by decide +kernel)

/-! ### a repeated variable: `x ** F(x) [x << {G(b, b), F(c)}]` over `exL` -/

theorem exRepOps : RepOps exL 7 8 := ⟨by decide, by decide, by decide⟩
example : repFuel bR ≤ 100 := by decide
example : arityOf exL 5 = 0 ∧ arityOf exL 6 = 0 ∧ arityOf exL 9 = 0 := by decide

/-- COUNTEREXAMPLE to "acceptance ⇔ fit" with a repeated variable: `x ** F(x) [x << {G(b, b), F(c)}]` applied to `G(A, C)`
(`A`, `C` incomparable): `G(A, C)` fits `G(b, b)` (`b := Top`), yet the run fails with `subtypeMismatch` -/
theorem C06b_rep_counterexample :
    Fits exL (aG 8 5 9) (R1 8) ∧
    runAll exL 100 true (repSchema bR 7 8) [(aG 8 5 9).toTerm] = .error .subtypeMismatch :=
  ⟨C06b_rep_fits_always exL exL_wf 7 8 exRepOps 5 9,
   C06b_rep_reject_is_mismatch exL exL_wf 7 8 exRepOps 100 bR 5 9 true (by decide) (by decide) (by decide) (by decide)
     (by decide) (by decide) (by decide) (by decide) (by decide) (by decide)⟩

/-- the same run evaluated by the kernel (independent check) -/
theorem C06b_rep_counterexample_kernel :
    runAll exL 100 true (repSchema bR 7 8) [(aG 8 5 9).toTerm] = .error .subtypeMismatch := by
  rw [runAll_eq_K]; exact failsWith_iff.mp (by decide +kernel)

/-- `G(A, B)` and `G(B, A)` (`B < A`): both accepted, `b` ends with the lower bound `A` -/
example : ∃ σ' res, runAll exL 100 true (repSchema bR 7 8) [(aG 8 5 6).toTerm] = .ok (σ', res) ∧
    getVar σ' 1 = { lower := some 5, cset := 1 } := by
  obtain ⟨σ', res, h1, _, h3, _⟩ := C06b_rep_accepted exL exL_wf 7 8 exRepOps 100 bR 5 6 true (by decide) (by decide)
    (by decide) (by decide) (by decide) (by decide) (by decide) (by decide) (by decide)
  exact ⟨σ', res, h1, by rw [h3]; rfl⟩

example : ∃ σ' res, runAll exL 100 true (repSchema bR 7 8) [(aG 8 6 5).toTerm] = .ok (σ', res) ∧
    getVar σ' 1 = { lower := some 5, cset := 1 } := by
  obtain ⟨σ', res, h1, _, h3, _⟩ := C06b_rep_accepted exL exL_wf 7 8 exRepOps 100 bR 6 5 true (by decide) (by decide)
    (by decide) (by decide) (by decide) (by decide) (by decide) (by decide) (by decide)
  exact ⟨σ', res, h1, by rw [h3]; rfl⟩

end Tfv.C06
