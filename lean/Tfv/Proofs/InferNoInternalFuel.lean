import Tfv.Proofs.InferNoInternalStore
/-!
# The invariant `Chains` is the same as `FuelOk`

`FuelOk σ` (`Tfv/Spec/History.lean`): the fuel `σ.vars.length + 1` of `followT` suffices.
`Chains σ`: the fuel `nb σ` (number of bound variables) suffices. `Chains → FuelOk` is monotonicity
in the fuel; the converse is proved by induction on the number of bound variables: a store whose
chains all end has a bound variable whose binding is final; undo that binding, apply the induction
hypothesis, and redo it (`chains_bindSet`).
-/
namespace Tfv.C17E
open Tfv Tfv.C03P Tfv.C03C Tfv.C16P

/-- a bound variable whose chain ends leads to a bound variable whose binding is final -/
theorem exists_last_bound {σ : Store} : ∀ (k w : Nat) (b : Term), (getVar σ w).bound = some b →
    Final σ (follow σ k (.var w)) → ∃ v t, (getVar σ v).bound = some t ∧ Final σ t
  | 0, w, b, hb, h => by
    rw [follow_zero] at h
    have h' : (getVar σ w).bound = none := h
    rw [hb] at h'; cases h'
  | k+1, w, b, hb, h => by
    rw [follow_succ_var, hb] at h
    simp only [] at h
    cases b with
    | app o args => exact ⟨w, _, hb, trivial⟩
    | var u =>
      cases hu : (getVar σ u).bound with
      | none => exact ⟨w, _, hb, hu⟩
      | some b' => exact exists_last_bound k u b' hu h

/-- undoing a binding keeps every chain that ended -/
theorem final_unbind {σ : Store} {v : Nat} {j : VarInfo} (hj : j.bound = none) :
    ∀ (k : Nat) (t : Term), Final σ (follow σ k t) → Final (setVar σ v j) (follow (setVar σ v j) k t)
  | k, .app o args, _ => by rw [follow_app]; trivial
  | 0, .var w, h => by
    rw [follow_zero] at h ⊢
    show (getVar (setVar σ v j) w).bound = none
    rw [getVar_setVar]
    split
    · exact hj
    · exact h
  | k+1, .var w, h => by
    rw [follow_succ_var] at h
    rw [follow_succ_var]
    by_cases e : v = w ∧ v < σ.vars.length
    · have hb' : (getVar (setVar σ v j) w).bound = none := by rw [getVar_setVar, if_pos e]; exact hj
      rw [hb']
      exact hb'
    · have hb' : (getVar (setVar σ v j) w).bound = (getVar σ w).bound := by rw [getVar_setVar, if_neg e]
      rw [hb']
      cases hb : (getVar σ w).bound with
      | none =>
        show (getVar (setVar σ v j) w).bound = none
        rw [hb', hb]
      | some b =>
        rw [hb] at h
        exact final_unbind hj k b h

theorem setVar_setVar_self {σ : Store} {v : Nat} (j : VarInfo) (h : v < σ.vars.length) :
    setVar (setVar σ v j) v (getVar σ v) = σ := by
  unfold setVar
  simp only [List.set_set]
  rw [getVar_eq_getElem h, List.set_getElem_self]

theorem unbound_of_nb_zero {σ : Store} (h : nb σ = 0) (w : Nat) : (getVar σ w).bound = none := by
  by_cases hw : w < σ.vars.length
  · unfold nb at h
    have := List.countP_eq_zero.mp h σ.vars[w] (List.getElem_mem hw)
    rw [getVar_eq_getElem hw]
    simpa using this
  · rw [getVar_oor hw]

theorem chains_of_fuelOk_aux : ∀ (m : Nat) (σ : Store), nb σ = m → FuelOk σ → Chains σ
  | 0, σ, hm, _ => chains_of_unbound (unbound_of_nb_zero hm)
  | m+1, σ, hm, hf => by
    -- some variable is bound
    have hex : ∃ w b, (getVar σ w).bound = some b := by
      apply Classical.byContradiction
      intro hn
      have hall : ∀ w, (getVar σ w).bound = none := by
        intro w
        cases hb : (getVar σ w).bound with
        | none => rfl
        | some b => exact absurd ⟨w, b, hb⟩ hn
      have h0 : nb σ = 0 := by
        unfold nb
        apply List.countP_eq_zero.mpr
        intro i hi
        obtain ⟨k, hk, e⟩ := List.getElem_of_mem hi
        have := hall k
        rw [getVar_eq_getElem hk, e] at this
        simp [this]
      omega
    obtain ⟨w, b, hb⟩ := hex
    obtain ⟨v, t, hv, ht⟩ := exists_last_bound (σ.vars.length + 1) w b hb (hf (.var w))
    have hlt : v < σ.vars.length := by
      apply Classical.byContradiction
      intro hn
      rw [getVar_oor hn] at hv
      cases hv
    have hne : t ≠ .var v := by
      intro e
      subst e
      have ht' : (getVar σ v).bound = none := ht
      rw [hv] at ht'; cases ht'
    -- undo the binding of `v`
    let j : VarInfo := { (getVar σ v) with bound := none }
    have hj : j.bound = none := rfl
    have hnb : nb (setVar σ v j) = m := by
      rw [nb_setVar j hlt, hv]
      simp only [Option.isSome_some, if_true, hj, Option.isSome_none, Bool.false_eq_true, if_false]
      omega
    have hf' : FuelOk (setVar σ v j) := by
      intro x
      have := final_unbind (v := v) hj (σ.vars.length + 1) x (hf x)
      unfold followT
      rw [length_setVar]
      exact this
    have hc' := chains_of_fuelOk_aux m (setVar σ v j) hnb hf'
    have hvj : (getVar (setVar σ v j) v).bound = none := by rw [getVar_setVar_eq j hlt]
    have htj : Final (setVar σ v j) t := by
      cases t with
      | app o args => trivial
      | var u =>
        have hu : v ≠ u := fun e => hne (by rw [e])
        show (getVar (setVar σ v j) u).bound = none
        rw [getVar_setVar_ne j hu]
        exact ht
    have := chains_bindSet (i := getVar σ v) hc' hvj hv htj hne
    rw [setVar_setVar_self j hlt] at this
    exact this

theorem chains_of_fuelOk {σ : Store} (h : FuelOk σ) : Chains σ := chains_of_fuelOk_aux _ σ rfl h

theorem chains_iff_fuelOk (σ : Store) : Chains σ ↔ FuelOk σ := ⟨Chains.fuelOk, chains_of_fuelOk⟩

end Tfv.C17E
