import Tfv.Proofs.AgreeConstr
/-!
# The engine WITH pending constraints reads only its region (C16), part 2: the engine block in lockstep
-/
namespace Tfv.C16C
open Tfv Tfv.C03P Tfv.C16P Tfv.C03C

/-! ## 1. the statements proved by induction on the fuel -/

def UnifyA (L : Lang) (n : Nat) : Prop :=
  ∀ (R : Region) τ τ' a b st sb sw, AgreeC R τ τ' → TermInR τ R.S a → TermInR τ R.S b →
    RelS R (unify L n τ a b st sb sw) (unify L n τ' a b st sb sw)

def UnifyListA (L : Lang) (n : Nat) : Prop :=
  ∀ (R : Region) τ τ' vs xs ys st sb sw, AgreeC R τ τ' → TermsInR τ R.S xs → TermsInR τ R.S ys →
    RelS R (unifyList L n τ vs xs ys st sb sw) (unifyList L n τ' vs xs ys st sb sw)

def BindA (L : Lang) (n : Nat) : Prop :=
  ∀ (R : Region) τ τ' v t, AgreeC R τ τ' → InStore τ R.S v → TermInR τ R.S t →
    RelS R (bind L n τ v t) (bind L n τ' v t)

def AboveA (L : Lang) (n : Nat) : Prop :=
  ∀ (R : Region) τ τ' v new, AgreeC R τ τ' → InStore τ R.S v → RelS R (above L n τ v new) (above L n τ' v new)

def BelowA (L : Lang) (n : Nat) : Prop :=
  ∀ (R : Region) τ τ' v new, AgreeC R τ τ' → InStore τ R.S v → RelS R (below L n τ v new) (below L n τ' v new)

def FixA (L : Lang) (n : Nat) : Prop :=
  ∀ (R : Region) τ τ' t pl, AgreeC R τ τ' → TermInR τ R.S t → RelP R (fix L n τ t pl) (fix L n τ' t pl)

def FixListA (L : Lang) (n : Nat) : Prop :=
  ∀ (R : Region) τ τ' vs ps pl, AgreeC R τ τ' → TermsInR τ R.S ps →
    RelS R (fixList L n τ vs ps pl) (fixList L n τ' vs ps pl)

def CheckA (L : Lang) (n : Nat) : Prop :=
  ∀ (R : Region) τ τ' v, AgreeC R τ τ' → InStore τ R.S v →
    RelS R (checkConstraints L n τ v) (checkConstraints L n τ' v)

def CheckListA (L : Lang) (n : Nat) : Prop :=
  ∀ (R : Region) τ τ' v cs, AgreeC R τ τ' → InStore τ R.S v →
    (∀ c, c ∈ cs → R.C c ∧ c < τ.constrs.length) → RelS R (checkList L n τ v cs) (checkList L n τ' v cs)

def FulfillA (L : Lang) (n : Nat) : Prop :=
  ∀ (R : Region) τ τ' c, AgreeC R τ τ' → R.C c → c < τ.constrs.length →
    RelP R (fulfill L n τ c) (fulfill L n τ' c)

def MinimizeA (L : Lang) (n : Nat) : Prop :=
  ∀ (R : Region) τ τ' c, AgreeC R τ τ' → R.C c → c < τ.constrs.length →
    RelS R (minimize L n τ c) (minimize L n τ' c)

def MinLoopA (L : Lang) (n : Nat) : Prop :=
  ∀ (R : Region) τ τ' alts mins, AgreeC R τ τ' → TermsInR τ R.S alts → TermsInR τ R.S mins →
    RelP R (minLoop L n τ alts mins) (minLoop L n τ' alts mins)

/-! ## 2. `above`, `below` -/

theorem above_stepA {L : Lang} {n : Nat} (hbind : BindA L n) (hcheck : CheckA L n) : AboveA L (n+1) := by
  intro R τ τ' v new a hv
  rw [above, above]
  split
  · exact hbind R τ τ' v _ a hv (termInR_base _)
  · simp only [a.vs v hv]
    split
    · exact RelX.err _ _
    · have a1 : AgreeC R (setVar τ v { (getVar τ v) with wildcard := false })
          (setVar τ' v { (getVar τ v) with wildcard := false }) := a.put_same hv _ rfl rfl
      have hv1 : InStore (setVar τ v { (getVar τ v) with wildcard := false }) R.S v :=
        ⟨hv.1, by rw [length_setVar]; exact hv.2⟩
      apply RelX.bindS
      · split
        · exact RelX.err _ _
        · split
          · exact RelX.err _ _
          · split
            · exact RelX.ok a1
            · split
              · refine hcheck R _ _ v (a1.put hv.1 _ ?_ (a.closed.cs v hv.2 hv.1))
                  ⟨hv.1, by rw [length_setVar]; exact hv1.2⟩
                intro b hb
                exact termInR_mono (Nat.le_of_eq (length_setVar _ _ _).symm) (a.closed.bnd v b hv.1 hb)
              · exact RelX.err _ _
      · intro τ1 τ1' e1 a2
        have hlen : τ.vars.length ≤ τ1.vars.length := by
          split at e1
          · cases e1
          · split at e1
            · cases e1
            · split at e1
              · injection e1 with e1; subst e1; rw [length_setVar]; exact Nat.le_refl _
              · split at e1
                · have f1 : FrC R τ (setVar τ v { (getVar τ v) with wildcard := false }) :=
                    (FrC.refl a.closed).put_same hv _ rfl rfl
                  have f : FrC R τ τ1 := by
                    refine check_after_put (all_frameC L n).2.2.2.2.2.2.2.1 f1 hv1 _ ?_ ?_ e1
                    · exact fun b hb => f1.tin (a.closed.bnd v b hv.1 hb)
                    · exact a.closed.cs v hv.2 hv.1
                  exact f.len
                · cases e1
        have hv2 : InStore τ1 R.S v := ⟨hv.1, Nat.lt_of_lt_of_le hv.2 hlen⟩
        simp only [a2.vs v hv2]
        split
        · split
          · exact hbind R τ1 τ1' v _ a2 hv2 (termInR_base _)
          · exact RelX.ok a2
        · exact RelX.ok a2


theorem below_stepA {L : Lang} {n : Nat} (hbind : BindA L n) (hcheck : CheckA L n) : BelowA L (n+1) := by
  intro R τ τ' v new a hv
  rw [below, below]
  split
  · exact hbind R τ τ' v _ a hv (termInR_base _)
  · simp only [a.vs v hv]
    split
    · exact RelX.err _ _
    · have a1 : AgreeC R (setVar τ v { (getVar τ v) with wildcard := false })
          (setVar τ' v { (getVar τ v) with wildcard := false }) := a.put_same hv _ rfl rfl
      have hv1 : InStore (setVar τ v { (getVar τ v) with wildcard := false }) R.S v :=
        ⟨hv.1, by rw [length_setVar]; exact hv.2⟩
      apply RelX.bindS
      · split
        · exact RelX.err _ _
        · split
          · exact RelX.err _ _
          · split
            · exact RelX.ok a1
            · split
              · refine hcheck R _ _ v (a1.put hv.1 _ ?_ (a.closed.cs v hv.2 hv.1))
                  ⟨hv.1, by rw [length_setVar]; exact hv1.2⟩
                intro b hb
                exact termInR_mono (Nat.le_of_eq (length_setVar _ _ _).symm) (a.closed.bnd v b hv.1 hb)
              · exact RelX.err _ _
      · intro τ1 τ1' e1 a2
        have hlen : τ.vars.length ≤ τ1.vars.length := by
          split at e1
          · cases e1
          · split at e1
            · cases e1
            · split at e1
              · injection e1 with e1; subst e1; rw [length_setVar]; exact Nat.le_refl _
              · split at e1
                · have f1 : FrC R τ (setVar τ v { (getVar τ v) with wildcard := false }) :=
                    (FrC.refl a.closed).put_same hv _ rfl rfl
                  have f : FrC R τ τ1 := by
                    refine check_after_put (all_frameC L n).2.2.2.2.2.2.2.1 f1 hv1 _ ?_ ?_ e1
                    · exact fun b hb => f1.tin (a.closed.bnd v b hv.1 hb)
                    · exact a.closed.cs v hv.2 hv.1
                  exact f.len
                · cases e1
        have hv2 : InStore τ1 R.S v := ⟨hv.1, Nat.lt_of_lt_of_le hv.2 hlen⟩
        simp only [a2.vs v hv2]
        split
        · split
          · exact hbind R τ1 τ1' v _ a2 hv2 (termInR_base _)
          · exact RelX.ok a2
        · exact RelX.ok a2

/-! ## 3. `bind` -/

theorem bind_stepA {L : Lang} {n : Nat} (hunify : UnifyA L n) (hcheck : CheckA L n) : BindA L (n+1) := by
  intro R τ τ' v t a hv ht
  cases t with
  | var tv =>
    have htv := termInR_var.mp ht
    rw [bind_var_eq, bind_var_eq]
    simp only [a.vs v hv, clearW_congr (a.vs v hv)]
    split
    · exact RelX.err _ _
    · split
      · exact RelX.ok (a.put_same hv _ rfl rfl)
      · have aB := agreeC_bindVarStore a hv htv
        have fB := frC_bindVarStore a.closed hv htv
        apply RelX.bindS
        · split
          · exact hunify R _ _ _ _ _ _ _ aB (termInR_base _) (fB.tin ht)
          · exact RelX.ok aB
        · intro τ1 τ1' e1 a1
          have f1 : FrC R τ τ1 := by
            split at e1
            · exact fB.trans ((all_frameC L n).1 R _ _ _ _ _ _ τ1 fB.closed (termInR_base _) (fB.tin ht) e1)
            · injection e1 with e1; subst e1; exact fB
          apply RelX.bindS
          · split
            · exact hunify R _ _ _ _ _ _ _ a1 (f1.tin ht) (termInR_base _)
            · exact RelX.ok a1
          · intro τ2 τ2' e2 a2
            have f2 : FrC R τ τ2 := by
              split at e2
              · exact f1.trans ((all_frameC L n).1 R _ _ _ _ _ _ τ2 f1.closed (f1.tin ht) (termInR_base _) e2)
              · injection e2 with e2; subst e2; exact f1
            exact hcheck R τ2 τ2' v a2 (f2.ins hv)
  | app o args =>
    rw [bind_app_eq, bind_app_eq]
    simp only [a.vs v hv]
    split
    · exact RelX.err _ _
    · split
      · split
        · exact RelX.err _ _
        · split
          · exact RelX.err _ _
          · exact hcheck R _ _ v (agreeC_bindBaseStore a hv ht) ((frC_bindBaseStore a.closed hv ht).ins hv)
      · split
        · exact RelX.err _ _
        · exact hcheck R _ _ v (agreeC_bindAppStore a hv ht) ((frC_bindAppStore a.closed hv ht).ins hv)

/-! ## 4. `unify`, `unifyList` -/

theorem newVars_eta (σ : Store) (k : Nat) : newVars σ k = ((newVars σ k).1, (newVars σ k).2) := rfl

theorem unify_stepA {L : Lang} {n : Nat} (hunify : UnifyA L n) (hlist : UnifyListA L n) (hbind : BindA L n)
    (habove : AboveA L n) (hbelow : BelowA L n) : UnifyA L (n+1) := by
  intro R τ τ' x y st sb sw a hx hy
  have hx' := followT_inR a.closed hx
  have hy' := followT_inR a.closed hy
  rw [unify, unify, a.followT hx, a.followT hy, a.termFuel]
  cases ex : followT τ x with
  | var av =>
    rw [ex] at hx'
    have hav := termInR_var.mp hx'
    cases ey : followT τ y with
    | var bv =>
      rw [ey] at hy'
      have hbv := termInR_var.mp hy'
      simp only [a.vs av hav, a.vs bv hbv]
      split
      · exact hbind R τ τ' av _ a hav hy'
      · exact RelX.ok a
    | app bo bs =>
      rw [ey] at hy'
      simp only [a.occurs L _ hy' hx', a.vs av hav]
      split
      · exact RelX.ok a
      · split
        · exact RelX.err _ _
        · split
          · split
            · exact RelX.ok a
            · split
              · exact hbelow R τ τ' av bo a hav
              · exact hbind R τ τ' av _ a hav hy'
          · split
            · obtain ⟨aN, eN⟩ := AgreeC.newVars bs.length a
              obtain ⟨fN, hfresh⟩ := frC_newVars (R := R) bs.length a.closed
              rw [newVars_eta τ, newVars_eta τ', eN]
              simp only []
              apply RelX.bindS
              · exact hbind R _ _ av _ aN (fN.ins hav) (termInR_app.mpr hfresh)
              · intro τ2 τ2' e2 a2
                have f2 := (all_frameC L n).2.2.1 R _ av _ τ2 fN.closed (fN.ins hav) (termInR_app.mpr hfresh) e2
                have f12 := fN.trans f2
                exact hunify R τ2 τ2' _ _ st sb sw a2 (f12.tin hx') (f12.tin hy')
            · exact hbind R τ τ' av _ a hav hy'
  | app ao as =>
    rw [ex] at hx'
    cases ey : followT τ y with
    | var bv =>
      rw [ey] at hy'
      have hbv := termInR_var.mp hy'
      simp only [a.occurs L _ hx' hy', a.vs bv hbv]
      split
      · exact RelX.ok a
      · split
        · exact RelX.err _ _
        · split
          · split
            · exact RelX.ok a
            · split
              · exact habove R τ τ' bv ao a hbv
              · exact hbind R τ τ' bv _ a hbv hx'
          · split
            · obtain ⟨aN, eN⟩ := AgreeC.newVars as.length a
              obtain ⟨fN, hfresh⟩ := frC_newVars (R := R) as.length a.closed
              rw [newVars_eta τ, newVars_eta τ', eN]
              simp only []
              apply RelX.bindS
              · exact hbind R _ _ bv _ aN (fN.ins hbv) (termInR_app.mpr hfresh)
              · intro τ2 τ2' e2 a2
                have f2 := (all_frameC L n).2.2.1 R _ bv _ τ2 fN.closed (fN.ins hbv) (termInR_app.mpr hfresh) e2
                have f12 := fN.trans f2
                exact hunify R τ2 τ2' _ _ st sb sw a2 (f12.tin hy') (f12.tin hy')
            · exact hbind R τ τ' bv _ a hbv hx'
    | app bo bs =>
      rw [ey] at hy'
      simp only []
      split
      · exact RelX.ok a
      · split
        · split
          · exact RelX.ok a
          · split
            · exact RelX.err _ _
            · split
              · exact RelX.err _ _
              · exact RelX.ok a
        · split
          · exact hlist R τ τ' _ as bs st sb sw a (termInR_app.mp hx') (termInR_app.mp hy')
          · exact RelX.err _ _

theorem unifyList_stepA {L : Lang} {n : Nat} (hunify : UnifyA L n) (hlist : UnifyListA L n) :
    UnifyListA L (n+1) := by
  intro R τ τ' vs xs ys st sb sw a hxs hys
  by_cases hc : ∃ v vs' x xs' y ys', vs = v :: vs' ∧ xs = x :: xs' ∧ ys = y :: ys'
  · obtain ⟨v, vs, x, xs, y, ys, rfl, rfl, rfl⟩ := hc
    obtain ⟨hx, hxs'⟩ := termsInR_cons.mp hxs
    obtain ⟨hy, hys'⟩ := termsInR_cons.mp hys
    rw [unifyList_cons, unifyList_cons]
    cases v with
    | true =>
      simp only [if_true]
      apply RelX.bindS (hunify R τ τ' x y st sb sw a hx hy)
      intro τ1 τ1' e1 a1
      have f1 := (all_frameC L n).1 R τ x y st sb sw τ1 a.closed hx hy e1
      exact hlist R τ1 τ1' vs xs ys st sb sw a1 (f1.tins hxs') (f1.tins hys')
    | false =>
      simp only [Bool.false_eq_true, if_false]
      apply RelX.bindS (hunify R τ τ' y x st sb sw a hy hx)
      intro τ1 τ1' e1 a1
      have f1 := (all_frameC L n).1 R τ y x st sb sw τ1 a.closed hy hx e1
      exact hlist R τ1 τ1' vs xs ys st sb sw a1 (f1.tins hxs') (f1.tins hys')
  · rcases unifyList_cases L n τ vs xs ys st sb sw with h | e1
    · exact absurd h hc
    · rcases unifyList_cases L n τ' vs xs ys st sb sw with h | e2
      · exact absurd h hc
      · rw [e1, e2]; exact RelX.ok a

/-! ## 5. `fix`, `fixList` -/

theorem fix_stepA {L : Lang} {n : Nat} (hbind : BindA L n) (hlist : FixListA L n) : FixA L (n+1) := by
  intro R τ τ' t pl a ht
  have ht' := followT_inR a.closed ht
  rw [fix, fix, a.followT ht]
  cases et : followT τ t with
  | app o args =>
    rw [et] at ht'
    simp only []
    apply RelX.bindS (hlist R τ τ' _ args pl a (termInR_app.mp ht'))
    intro τ1 τ1' _ a1
    exact RelP.ok a1 _
  | var v =>
    rw [et] at ht'
    have hv := termInR_var.mp ht'
    simp only [a.vs v hv]
    apply RelX.bindS
    · split
      · split
        · exact hbind R τ τ' v _ a hv (termInR_base _)
        · exact RelX.ok a
      · split
        · split
          · exact hbind R τ τ' v _ a hv (termInR_base _)
          · exact RelX.ok a
        · exact RelX.ok a
    · intro τ1 τ1' e1 a1
      have f1 : FrC R τ τ1 := by
        split at e1
        · split at e1
          · exact (all_frameC L n).2.2.1 R τ v _ τ1 a.closed hv (termInR_base _) e1
          · injection e1 with e1; subst e1; exact FrC.refl a.closed
        · split at e1
          · split at e1
            · exact (all_frameC L n).2.2.1 R τ v _ τ1 a.closed hv (termInR_base _) e1
            · injection e1 with e1; subst e1; exact FrC.refl a.closed
          · injection e1 with e1; subst e1; exact FrC.refl a.closed
      rw [a1.followT (f1.tin ht')]
      exact RelP.ok a1 _

theorem fixList_stepA {L : Lang} {n : Nat} (hfix : FixA L n) (hlist : FixListA L n) :
    FixListA L (n+1) := by
  intro R τ τ' vs ps pl a hps
  match vs, ps with
  | [], ps => rw [fixList_nil_left, fixList_nil_left]; exact RelX.ok a
  | vs, [] => rw [fixList_nil_right, fixList_nil_right]; exact RelX.ok a
  | v :: vs, p :: ps =>
    obtain ⟨hp, hps'⟩ := termsInR_cons.mp hps
    rw [fixList_cons, fixList_cons]
    rcases RelP.cases (hfix R τ τ' p (if v then pl else !pl) a hp) with ⟨e, h1, h2⟩ | ⟨τ1, τ1', t1, e1, e2, a1⟩
    · rw [h1, h2]; exact RelX.err _ _
    rw [e1, e2]
    simp only []
    obtain ⟨f1, _⟩ := (all_frameC L n).2.2.2.2.2.1 R τ p _ τ1 t1 a.closed hp e1
    exact hlist R τ1 τ1' vs ps pl a1 (f1.tins hps')

/-! ## 6. `checkConstraints`, `checkList` -/

theorem checkList_cons' (L : Lang) (n : Nat) (σ : Store) (v c : Nat) (cs : List Nat) :
    checkList L (n+1) σ v (c :: cs) =
      match fulfill L n σ c with
      | .error e => .error e
      | .ok (σ1, done) =>
        checkList L n (if done then setCset σ1 (getVar σ1 v).cset ((getCset σ1 (getVar σ1 v).cset).filter (· != c))
          else σ1) v cs := by
  rw [checkList]
  rfl

theorem checkList_nil' (L : Lang) (n : Nat) (σ : Store) (v : Nat) : checkList L (n+1) σ v [] = .ok σ := by
  rw [checkList]

theorem check_stepA {L : Lang} {n : Nat} (hlist : CheckListA L n) : CheckA L (n+1) := by
  intro R τ τ' v a hv
  rw [checkConstraints, checkConstraints, a.csetOf hv]
  exact hlist R τ τ' v _ a hv (fun c hm => a.closed.mem _ c (a.closed.cs v hv.2 hv.1) hm)

theorem checkList_stepA {L : Lang} {n : Nat} (hful : FulfillA L n) (hlist : CheckListA L n) :
    CheckListA L (n+1) := by
  intro R τ τ' v cs a hv hcs
  cases cs with
  | nil => rw [checkList_nil', checkList_nil']; exact RelX.ok a
  | cons c cs =>
    rw [checkList_cons', checkList_cons']
    have hcc := hcs c List.mem_cons_self
    rcases RelP.cases (hful R τ τ' c a hcc.1 hcc.2) with ⟨e, h1, h2⟩ | ⟨τ1, τ1', done, e1, e2, a1⟩
    · rw [h1, h2]; exact RelX.err _ _
    rw [e1, e2]
    simp only []
    have f1 := (all_frameC L n).2.2.2.2.2.2.2.2.2.1 R τ c τ1 done a.closed hcc.1 hcc.2 e1
    have hv1 := f1.ins hv
    have hcs1 : ∀ d, d ∈ cs → R.C d ∧ d < τ1.constrs.length := fun d hd =>
      ⟨(hcs d (List.mem_cons_of_mem _ hd)).1,
       Nat.lt_of_lt_of_le (hcs d (List.mem_cons_of_mem _ hd)).2 f1.clen⟩
    cases done with
    | false =>
      simp only [Bool.false_eq_true, if_false]
      exact hlist R τ1 τ1' v cs a1 hv1 hcs1
    | true =>
      simp only [if_true]
      have hk := f1.closed.cs v hv1.2 hv1.1
      rw [a1.vs v hv1, a1.same.ksame _ hk]
      have a2 := a1.set_cs hk (cs := (getCset τ1 (getVar τ1 v).cset).filter (· != c))
        (fun d hd => f1.closed.mem _ d hk (List.mem_filter.mp hd).1)
      exact hlist R _ _ v cs a2 ⟨hv1.1, hv1.2⟩ hcs1


/-! ## 7. `fulfill` -/

/-- `normalized` of `fulfill`: a variable is unresolved -/
def normalizedIn (σ : Store) (t : Term) : Bool :=
  match t with
  | .var v => (getVar σ v).bound.isNone
  | _ => true

theorem fulfill_sub_eq' (L : Lang) (n : Nat) (σ : Store) (c : Nat) {ref tgt : Term} {s f : Bool}
    (h : getConstr σ c = .sub ref tgt s f) :
    fulfill L (n+1) σ c =
      match unify L n σ ref tgt true true false with
      | .error e => .error e
      | .ok σ1 =>
        match match3 L σ1 (matchFuel σ1) true false ref tgt with
        | some true =>
          (match getConstr σ1 c with
           | .sub r t s _ => .ok (setConstr σ1 c (.sub r t s true), true)
           | _ => .ok (σ1, true))
        | some false => .error .constraintViolation
        | none =>
          (match getConstr σ1 c with
           | .sub _ _ _ f => .ok (σ1, f)
           | _ => .ok (σ1, false)) := by
  rw [fulfill, h]
  rfl

theorem fulfill_elim_true_eq (L : Lang) (n : Nat) (σ : Store) (c : Nat) {ref : Term} {alts : List Term}
    (h : getConstr σ c = .elim ref alts true) : fulfill L (n+1) σ c = .ok (σ, true) := by
  rw [fulfill, h]

theorem fulfill_elim_eq (L : Lang) (n : Nat) (σ : Store) (c : Nat) {r0 : Term} {a0 : List Term}
    (h : getConstr σ c = .elim r0 a0 false) :
    fulfill L (n+1) σ c =
      match minimize L n σ c with
      | .error e => .error e
      | .ok σ1 =>
        match getConstr σ1 c with
        | .elim ref alts ful =>
          if !(normalizedIn σ1 ref && alts.all (normalizedIn σ1)) then
            .error (.internal "fulfill:assert normalized")
          else
            match alts.filter (fun t => match3 L σ1 (matchFuel σ1) true true ref t != some false) with
            | [] => .error .constraintViolation
            | [only] =>
              (match unify L n (setConstr σ1 c (.elim ref
                  (alts.filter (fun t => match3 L σ1 (matchFuel σ1) true true ref t != some false)) true))
                  ref only true false false with
               | .error e => .error e
               | .ok σ3 => .ok (σ3, true))
            | _ => .ok (setConstr σ1 c (.elim ref
                (alts.filter (fun t => match3 L σ1 (matchFuel σ1) true true ref t != some false)) ful), ful)
        | _ => .error (.internal "fulfill:constraint changed kind") := by
  rw [fulfill, h]
  rfl

theorem normalizedIn_congr {R : Region} {τ τ' : Store} (a : AgreeC R τ τ') {t : Term} (ht : TermInR τ R.S t) :
    normalizedIn τ' t = normalizedIn τ t := by
  cases t with
  | var v =>
    show (getVar τ' v).bound.isNone = (getVar τ v).bound.isNone
    rw [a.vs v (termInR_var.mp ht)]
  | app o args => rfl

theorem all_congr' {α : Type} {f g : α → Bool} : ∀ (l : List α), (∀ t, t ∈ l → f t = g t) → l.all f = l.all g
  | [], _ => rfl
  | x :: xs, h => by
    simp only [List.all_cons]
    rw [h x List.mem_cons_self, all_congr' xs (fun t ht => h t (List.mem_cons_of_mem _ ht))]

theorem filter_congr' {α : Type} {f g : α → Bool} : ∀ (l : List α), (∀ t, t ∈ l → f t = g t) →
    l.filter f = l.filter g
  | [], _ => rfl
  | x :: xs, h => by
    simp only [List.filter_cons]
    rw [h x List.mem_cons_self, filter_congr' xs (fun t ht => h t (List.mem_cons_of_mem _ ht))]

theorem fulfill_stepA {L : Lang} {n : Nat} (hunify : UnifyA L n) (hmin : MinimizeA L n) :
    FulfillA L (n+1) := by
  intro R τ τ' c a hC hlt
  have hcs := a.same.csame c hC
  cases e0 : getConstr τ c with
  | sub ref tgt s0 f0 =>
    obtain ⟨hr, htg⟩ := ctm_sub a.closed hC hlt e0
    rw [fulfill_sub_eq' L n τ c e0, fulfill_sub_eq' L n τ' c (hcs.trans e0)]
    rcases RelS.cases (hunify R τ τ' ref tgt true true false a hr htg) with ⟨e, h1, h2⟩ | ⟨τ1, τ1', e1, e2, a1⟩
    · rw [h1, h2]; exact RelX.err _ _
    rw [e1, e2]
    simp only []
    have f1 := (all_frameC L n).1 R τ ref tgt true true false τ1 a.closed hr htg e1
    have hlt1 : c < τ1.constrs.length := Nat.lt_of_lt_of_le hlt f1.clen
    rw [a1.matchFuel, a1.match3 L _ true false (f1.tin hr) (f1.tin htg), a1.same.csame c hC]
    split
    · split
      · next r t s f e1' =>
        obtain ⟨hr1, ht1⟩ := ctm_sub f1.closed hC hlt1 e1'
        exact RelP.ok (a1.set_constr hC _ (termsInR_sub s true hr1 ht1)) true
      · exact RelP.ok a1 true
    · exact RelX.err _ _
    · split
      · exact RelP.ok a1 _
      · exact RelP.ok a1 false
  | elim r0 a0 ful0 =>
    cases ful0 with
    | true =>
      rw [fulfill_elim_true_eq L n τ c e0, fulfill_elim_true_eq L n τ' c (hcs.trans e0)]
      exact RelP.ok a true
    | false =>
      rw [fulfill_elim_eq L n τ c e0, fulfill_elim_eq L n τ' c (hcs.trans e0)]
      rcases RelS.cases (hmin R τ τ' c a hC hlt) with ⟨e, h1, h2⟩ | ⟨τ1, τ1', e1, e2, a1⟩
      · rw [h1, h2]; exact RelX.err _ _
      rw [e1, e2]
      simp only []
      have f1 := (all_frameC L n).2.2.2.2.2.2.2.2.2.2.1 R τ c τ1 a.closed hC hlt e1
      have hlt1 : c < τ1.constrs.length := Nat.lt_of_lt_of_le hlt f1.clen
      rw [a1.same.csame c hC]
      split
      · next ref alts ful e1' =>
        obtain ⟨hr, halts⟩ := ctm_elim f1.closed hC hlt1 e1'
        have hf : alts.filter (fun t => match3 L τ1' (matchFuel τ1') true true ref t != some false) =
            alts.filter (fun t => match3 L τ1 (matchFuel τ1) true true ref t != some false) :=
          filter_congr' alts (fun t ht => by rw [a1.matchFuel, a1.match3 L _ true true hr (halts t ht)])
        rw [normalizedIn_congr a1 hr, all_congr' alts (fun t ht => normalizedIn_congr a1 (halts t ht)), hf]
        split
        · exact RelX.err _ _
        · split
          · exact RelX.err _ _
          · next only e2' =>
            have honly : TermInR τ1 R.S only := by
              have hm : only ∈ [only] := List.mem_cons_self
              rw [← e2'] at hm
              exact halts only (List.mem_filter.mp hm).1
            have hx := termsInR_elim (S := R.S) (σ := τ1) true hr
              (termsInR_filter (fun t => match3 L τ1 (matchFuel τ1) true true ref t != some false) halts)
            have a2 := a1.set_constr hC _ hx
            have f2 := frC_setConstr f1.closed hC _ hx
            rcases RelS.cases (hunify R _ _ ref only true false false a2 (f2.tin hr) (f2.tin honly)) with
              ⟨e, h1, h2⟩ | ⟨τ3, τ3', e3, e4, a3⟩
            · rw [h1, h2]; exact RelX.err _ _
            · rw [e3, e4]; exact RelP.ok a3 true
          · exact RelP.ok (a1.set_constr hC _ (termsInR_elim ful hr (termsInR_filter _ halts))) ful
      · exact RelX.err _ _

/-! ## 8. `minimize`, `minLoop` -/

theorem minimize_elim_eq (L : Lang) (n : Nat) (σ : Store) (c : Nat) {ref : Term} {alts : List Term} {f0 : Bool}
    (h : getConstr σ c = .elim ref alts f0) :
    minimize L (n+1) σ c =
      match minLoop L n σ alts [] with
      | .error e => .error e
      | .ok (σ1, minimized) =>
        (match getConstr σ1 c with
         | .elim _ _ ful => .ok (setConstr σ1 c (.elim (followT σ1 ref) (minimized.map (followT σ1)) ful))
         | _ => .ok σ1) := by
  rw [minimize, h]
  rfl

theorem minimize_sub_eq (L : Lang) (n : Nat) (σ : Store) (c : Nat) {r t : Term} {s f : Bool}
    (h : getConstr σ c = .sub r t s f) : minimize L (n+1) σ c = .ok σ := by
  rw [minimize, h]

theorem map_congr' {α β : Type} {f g : α → β} : ∀ (l : List α), (∀ t, t ∈ l → f t = g t) → l.map f = l.map g
  | [], _ => rfl
  | x :: xs, h => by
    simp only [List.map_cons]
    rw [h x List.mem_cons_self, map_congr' xs (fun t ht => h t (List.mem_cons_of_mem _ ht))]

theorem minimize_stepA {L : Lang} {n : Nat} (hloop : MinLoopA L n) : MinimizeA L (n+1) := by
  intro R τ τ' c a hC hlt
  have hcs := a.same.csame c hC
  cases e0 : getConstr τ c with
  | sub r t s f =>
    rw [minimize_sub_eq L n τ c e0, minimize_sub_eq L n τ' c (hcs.trans e0)]
    exact RelX.ok a
  | elim ref alts f0 =>
    obtain ⟨hr, halts⟩ := ctm_elim a.closed hC hlt e0
    rw [minimize_elim_eq L n τ c e0, minimize_elim_eq L n τ' c (hcs.trans e0)]
    rcases RelP.cases (hloop R τ τ' alts [] a halts termsInR_nil) with ⟨e, h1, h2⟩ | ⟨τ1, τ1', mins, e1, e2, a1⟩
    · rw [h1, h2]; exact RelX.err _ _
    rw [e1, e2]
    simp only []
    obtain ⟨f1, hmins⟩ := (all_frameC L n).2.2.2.2.2.2.2.2.2.2.2 R τ alts [] τ1 mins a.closed halts termsInR_nil e1
    rw [a1.same.csame c hC]
    split
    · next r1 a1' ful e1' =>
      rw [a1.followT (f1.tin hr), map_congr' mins (fun t ht => a1.followT (hmins t ht))]
      exact RelX.ok (a1.set_constr hC _ (termsInR_elim ful (followT_inR f1.closed (f1.tin hr))
        (termsInR_map_followT f1.closed hmins)))
    · exact RelX.ok a1

/-- one step of the inner loop of `minLoop` -/
def minStep (L : Lang) (σ : Store) (obj : Term) (acc : List Term × Bool) (m : Term) : List Term × Bool :=
  let m' := if match3 L σ (matchFuel σ) true false m obj == some true then followT σ obj else m
  let add' := if match3 L σ (matchFuel σ) true false obj m' == some true then false else acc.2
  (acc.1 ++ [m'], add')

theorem minLoop_nil_eq (L : Lang) (n : Nat) (σ : Store) (mins : List Term) :
    minLoop L (n+1) σ [] mins = .ok (σ, mins) := by
  rw [minLoop]

theorem minLoop_cons_eq (L : Lang) (n : Nat) (σ : Store) (obj : Term) (rest mins : List Term) :
    minLoop L (n+1) σ (obj :: rest) mins =
      if (mins.foldl (minStep L σ obj) ([], true)).2 then
        match fix L n σ (followT σ obj) true with
        | .error e => .error e
        | .ok (σ1, t) => minLoop L n σ1 rest ((mins.foldl (minStep L σ obj) ([], true)).1 ++ [t])
      else minLoop L n σ rest (mins.foldl (minStep L σ obj) ([], true)).1 := by
  rw [minLoop]
  rfl

theorem minStep_congr {R : Region} {τ τ' : Store} (a : AgreeC R τ τ') (L : Lang) {obj m : Term}
    (hobj : TermInR τ R.S obj) (hm : TermInR τ R.S m) (acc : List Term × Bool) :
    minStep L τ' obj acc m = minStep L τ obj acc m := by
  unfold minStep
  simp only []
  rw [a.matchFuel, a.match3 L _ true false hm hobj, a.followT hobj]
  have hm' : TermInR τ R.S (if match3 L τ (matchFuel τ) true false m obj == some true then followT τ obj else m) := by
    split
    · exact followT_inR a.closed hobj
    · exact hm
  rw [a.match3 L _ true false hobj hm']

theorem minStep_in {R : Region} {σ : Store} (hc : ClosedC σ R) (L : Lang) {obj : Term} (hobj : TermInR σ R.S obj)
    (mins : List Term) (hmins : TermsInR σ R.S mins) :
    TermsInR σ R.S (mins.foldl (minStep L σ obj) ([], true)).1 := by
  apply foldl_termsInR _ _ mins _ termsInR_nil hmins
  intro acc m h1 h2
  unfold minStep
  simp only []
  apply termsInR_append h1 (termsInR_single _)
  split
  · exact followT_inR hc hobj
  · exact h2

theorem minLoop_stepA {L : Lang} {n : Nat} (hfix : FixA L n) (hloop : MinLoopA L n) : MinLoopA L (n+1) := by
  intro R τ τ' alts mins a halts hmins
  cases alts with
  | nil =>
    rw [minLoop_nil_eq, minLoop_nil_eq]
    exact RelP.ok a mins
  | cons obj rest =>
    obtain ⟨hobj, hrest⟩ := termsInR_cons.mp halts
    have hobj' := followT_inR a.closed hobj
    have hfold : mins.foldl (minStep L τ' obj) ([], true) = mins.foldl (minStep L τ obj) ([], true) :=
      foldl_congr mins _ (fun acc m hm => minStep_congr a L hobj (hmins m hm) acc)
    have hin := minStep_in a.closed L hobj mins hmins
    rw [minLoop_cons_eq, minLoop_cons_eq, hfold, a.followT hobj]
    split
    · rcases RelP.cases (hfix R τ τ' (followT τ obj) true a hobj') with ⟨e, h1, h2⟩ | ⟨τ1, τ1', t, e1, e2, a1⟩
      · rw [h1, h2]; exact RelX.err _ _
      rw [e1, e2]
      simp only []
      obtain ⟨f1, ht⟩ := (all_frameC L n).2.2.2.2.2.1 R τ _ true τ1 t a.closed hobj' e1
      exact hloop R τ1 τ1' rest _ a1 (f1.tins hrest) (termsInR_append (f1.tins hin) (termsInR_single ht))
    · exact hloop R τ τ' rest _ a hrest hin

/-! ## 9. the induction on the fuel -/

theorem all_agreeC (L : Lang) : ∀ n,
    UnifyA L n ∧ UnifyListA L n ∧ BindA L n ∧ AboveA L n ∧ BelowA L n ∧ FixA L n ∧ FixListA L n ∧
    CheckA L n ∧ CheckListA L n ∧ FulfillA L n ∧ MinimizeA L n ∧ MinLoopA L n
  | 0 => by
    refine ⟨?_, ?_, ?_, ?_, ?_, ?_, ?_, ?_, ?_, ?_, ?_, ?_⟩
    · intro R τ τ' a b st sb sw _ _ _; rw [unify, unify]; exact RelX.err _ _
    · intro R τ τ' vs xs ys st sb sw _ _ _; rw [unifyList, unifyList]; exact RelX.err _ _
    · intro R τ τ' v t _ _ _; rw [bind, bind]; exact RelX.err _ _
    · intro R τ τ' v new _ _; rw [above, above]; exact RelX.err _ _
    · intro R τ τ' v new _ _; rw [below, below]; exact RelX.err _ _
    · intro R τ τ' t pl _ _; rw [fix, fix]; exact RelX.err _ _
    · intro R τ τ' vs ps pl _ _; rw [fixList, fixList]; exact RelX.err _ _
    · intro R τ τ' v _ _; rw [checkConstraints, checkConstraints]; exact RelX.err _ _
    · intro R τ τ' v cs _ _ _; rw [checkList, checkList]; exact RelX.err _ _
    · intro R τ τ' c _ _ _; rw [fulfill, fulfill]; exact RelX.err _ _
    · intro R τ τ' c _ _ _; rw [minimize, minimize]; exact RelX.err _ _
    · intro R τ τ' alts mins _ _ _; rw [minLoop, minLoop]; exact RelX.err _ _
  | n+1 => by
    obtain ⟨h1, h2, h3, h4, h5, h6, h7, h8, h9, h10, h11, h12⟩ := all_agreeC L n
    exact ⟨unify_stepA h1 h2 h3 h4 h5, unifyList_stepA h1 h2, bind_stepA h1 h8,
      above_stepA h3 h8, below_stepA h3 h8, fix_stepA h3 h7, fixList_stepA h6 h7,
      check_stepA h9, checkList_stepA h10 h9, fulfill_stepA h1 h11, minimize_stepA h12,
      minLoop_stepA h6 h12⟩

end Tfv.C16C
