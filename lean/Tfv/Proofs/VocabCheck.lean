import Tfv.Proofs.VocabTypes
/-!
# Boolean checks of the two URI hypotheses on a concrete language
-/
namespace Tfv.Voc
open Tfv Tfv.Tax

/-- the URIs tell the canonical types apart -/
def uriInjB (G : GLang) : Bool := G.canon.all fun t => G.canon.all fun u =>
  match typeUri G t.toTerm, typeUri G u.toTerm with
  | .ok a, .ok b => !(a == b) || Ty.beq t u
  | _, _ => true

/-- no canonical type has the URI of an operator of arity `> 0` -/
def opSepB (G : GLang) : Bool := (List.range G.types.length).all fun op =>
  arityOf G.types op == 0 || G.canon.all fun t =>
    match typeUri G t.toTerm with
    | .ok a => !(a == opUri G op)
    | .error _ => true

theorem uriInj_of_check {G : GLang} (h : uriInjB G = true) : UriInj G := by
  intro t ht u hu a ha hb
  unfold uriInjB at h
  rw [List.all_eq_true] at h
  have h1 := h t ht
  rw [List.all_eq_true] at h1
  have h2 := h1 u hu
  rw [ha, hb] at h2
  simp only [beq_self_eq_true, Bool.not_true, Bool.false_or] at h2
  exact (ty_beq_iff t u).1 h2

theorem arity_pos_lt {L : Lang} {op : Nat} (h : arityOf L op > 0) : op < L.length := by
  apply Classical.byContradiction
  intro hn
  have : L[op]? = none := List.getElem?_eq_none (Nat.le_of_not_lt hn)
  unfold arityOf varianceOf at h
  rw [this] at h
  simp at h

theorem opSep_of_check {G : GLang} (h : opSepB G = true) : OpSep G := by
  intro op ha t ht hu
  unfold opSepB at h
  rw [List.all_eq_true] at h
  have h1 := h op (List.mem_range.2 (arity_pos_lt ha))
  have h0 : (arityOf G.types op == 0) = false := by
    simp only [beq_eq_false_iff_ne, ne_eq]; omega
  rw [h0, Bool.false_or, List.all_eq_true] at h1
  have h2 := h1 t ht
  rw [hu] at h2
  simp at h2

end Tfv.Voc
