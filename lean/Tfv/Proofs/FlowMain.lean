import Tfv.Proofs.FlowTree
/-!
# C08 proofs, part 5: the first-order theorem on the graph itself
-/
namespace Tfv.C08P
open Tfv

theorem pre_of_fresh {g : GState} {cur : Option Nat} (hg : GFresh g) (hcur : ∀ m, cur = some m → CurFree g m) :
    FlowPre g.nextB g.srcNodes cur ∧ (∀ p ∈ g.internals, p.1 < g.nextB ∧ ∀ m, cur = some m → p.1 ≠ m) :=
  ⟨⟨hg.src_lt, fun m hm => (hcur m hm).lt, fun m hm => (hcur m hm).no_src⟩,
    fun p hp => ⟨(hg.int_lt p hp).1, fun m hm => ((hcur m hm).no_int p hp).1⟩⟩

/-- the declarative form of the first-order theorem, without reference to the layout function -/
theorem addExpr_first_order_tree {G : GLang} {c : GCfg} {root : Node} {origin : Option Node} (hc : c.withTypes = false)
    {g g' : GState} {e : TExpr} {cur : Option Nat} {im : Bool} {n : Nat} (hfo : FirstOrder e)
    (hg : GFresh g) (hcur : ∀ m, cur = some m → CurFree g m)
    (h : addExpr G c root origin g e cur im = .ok (g', n)) :
    ∃ (newEdges : List (Nat × Nat)) (ops : List (Nat × TExpr)) (newSrc : List (Nat × Nat)),
      g'.fd.frm = newEdges ++ g.fd.frm ∧ g'.srcNodes = g.srcNodes ++ newSrc ∧ g'.internals = g.internals ∧
      g'.sharedNodes = g.sharedNodes ∧ g.nextB ≤ g'.nextB ∧
      ops.map Prod.snd = subSpines e ∧
      (ops.map Prod.fst ++ newSrc.map Prod.snd).Nodup ∧
      (∀ m ∈ ops.map Prod.fst ++ newSrc.map Prod.snd, (cur = some m ∨ g.nextB ≤ m) ∧ m < g'.nextB) ∧
      (newSrc.map Prod.fst).Nodup ∧ (∀ p ∈ newSrc, p.1 ∉ g.srcNodes.map Prod.fst) ∧
      (∀ p ∈ newEdges, p.1 ∈ ops.map Prod.fst ∧ (p.2 ∈ ops.map Prod.fst ∨ p.2 ∈ g'.srcNodes.map Prod.snd)) ∧
      (∀ q ∈ ops, (objectsOf newEdges q.1).length = (argsOf q.2).length) ∧
      newEdges.length = numArgs e ∧
      (n ∈ ops.map Prod.fst ∨ n ∈ g'.srcNodes.map Prod.snd) := by
  obtain ⟨hpre, hints⟩ := pre_of_fresh hg hcur
  obtain ⟨h1, h2, h3, h4, h5, h6⟩ := addExpr_first_order hc hfo hints h
  have good := flowFO_good hfo g.nextB g.srcNodes cur hpre
  generalize flowFO g.nextB g.srcNodes e cur = r at h1 h2 h3 h4 good
  obtain ⟨new, hnew, hn1, hn2, hn3⟩ := good.memo_ext
  refine ⟨r.edges, r.ops, new, h4, by rw [h3, hnew], h5, h6, by rw [h2]; exact good.le, good.ops_spines, ?_, ?_,
    hn2, ?_, ?_, good.deg, good.edges_len, ?_⟩
  · rw [List.nodup_append]
    refine ⟨good.ops_nodup, hn3, ?_⟩
    intro x hx y hy hxy
    subst hxy
    obtain ⟨q, hq, rfl⟩ := List.mem_map.1 hx
    obtain ⟨p, hp, hpq⟩ := List.mem_map.1 hy
    exact good.ops_not_src q hq p (by rw [hnew]; exact List.mem_append_right _ hp) hpq
  · intro m hm
    rw [h2]
    rw [List.mem_append] at hm
    rcases hm with hm | hm
    · obtain ⟨q, hq, rfl⟩ := List.mem_map.1 hm
      exact good.ops_new q hq
    · obtain ⟨p, hp, rfl⟩ := List.mem_map.1 hm
      exact (hn1 p hp).1
  · intro p hp
    exact (find_none_iff _ _).1 (hn1 p hp).2
  · intro p hp
    obtain ⟨⟨q, hq, hq2⟩, h'⟩ := good.edges_ends p hp
    refine ⟨List.mem_map.2 ⟨q, hq, hq2⟩, ?_⟩
    rcases h' with ⟨q', hq', hq2'⟩ | ⟨s, hs, hs2⟩
    · exact Or.inl (List.mem_map.2 ⟨q', hq', hq2'⟩)
    · exact Or.inr (List.mem_map.2 ⟨s, by rw [h3]; exact hs, hs2⟩)
  · rw [h1, h3]
    rcases good.node_is with ⟨q, hq, hq2⟩ | ⟨s, hs, hs2⟩
    · exact Or.inl (List.mem_map.2 ⟨q, hq, hq2⟩)
    · exact Or.inr (List.mem_map.2 ⟨s, hs, hs2⟩)

/-- adding a first-order expression keeps the state consistent -/
theorem addExpr_first_order_fresh {G : GLang} {c : GCfg} {root : Node} {origin : Option Node} (hc : c.withTypes = false)
    {g g' : GState} {e : TExpr} {cur : Option Nat} {im : Bool} {n : Nat} (hfo : FirstOrder e)
    (hg : GFresh g) (hcur : ∀ m, cur = some m → CurFree g m)
    (h : addExpr G c root origin g e cur im = .ok (g', n)) : GFresh g' := by
  obtain ⟨ne, ops, ns, h1, h2, h3, _, h5, _, _, h8, _, _, h11, _, _, _⟩ :=
    addExpr_first_order_tree hc hfo hg hcur h
  have hnew : ∀ m ∈ ops.map Prod.fst ++ ns.map Prod.snd, m < g'.nextB := by
    intro m hm
    have hm' := h8 m hm
    exact hm'.2
  have hsrc : ∀ p ∈ g'.srcNodes, p.2 < g'.nextB := by
    intro p hp
    rw [h2, List.mem_append] at hp
    rcases hp with hp | hp
    · have := hg.src_lt p hp; omega
    · exact hnew _ (List.mem_append_right _ (List.mem_map.2 ⟨p, hp, rfl⟩))
  refine ⟨hsrc, ?_, ?_⟩
  · intro p hp
    rw [h3] at hp
    have := hg.int_lt p hp
    omega
  · intro p hp
    rw [h1, List.mem_append] at hp
    rcases hp with hp | hp
    · obtain ⟨ha, hb⟩ := h11 p hp
      refine ⟨hnew _ (List.mem_append_left _ ha), ?_⟩
      rcases hb with hb | hb
      · exact hnew _ (List.mem_append_left _ hb)
      · obtain ⟨s, hs, hs2⟩ := List.mem_map.1 hb
        rw [← hs2]; exact hsrc s hs
    · have := hg.frm_lt p hp
      omega

/-- the concept nodes and `from` edges do not depend on the language, the configuration (beyond
`withTypes = false`), the root, the origin or the `intermediate` flag -/
theorem addExpr_config_independent {G1 G2 : GLang} {c1 c2 : GCfg} {root1 root2 : Node} {origin1 origin2 : Option Node}
    (hc1 : c1.withTypes = false) (hc2 : c2.withTypes = false) {g1 g2 g1' g2' : GState} {e : TExpr} {cur : Option Nat}
    {im1 im2 : Bool} {n1 n2 : Nat}
    (hcore : g1.nextB = g2.nextB ∧ g1.srcNodes = g2.srcNodes ∧ g1.sharedNodes = g2.sharedNodes ∧
      g1.internals = g2.internals ∧ g1.fd.frm = g2.fd.frm)
    (h1 : addExpr G1 c1 root1 origin1 g1 e cur im1 = .ok (g1', n1))
    (h2 : addExpr G2 c2 root2 origin2 g2 e cur im2 = .ok (g2', n2)) :
    n1 = n2 ∧ g1'.nextB = g2'.nextB ∧ g1'.srcNodes = g2'.srcNodes ∧ g1'.sharedNodes = g2'.sharedNodes ∧
      g1'.internals = g2'.internals ∧ g1'.fd.frm = g2'.fd.frm := by
  have hk : coreOf g1 = coreOf g2 := by
    obtain ⟨a, b, c, d, e'⟩ := hcore
    simp only [coreOf, a, b, c, d, e']
  obtain ⟨x1, a1, b1⟩ := addExpr_core (G := G1) (root := root1) (origin := origin1) hc1 e g1 cur im1
  obtain ⟨x2, a2, b2⟩ := addExpr_core (G := G2) (root := root2) (origin := origin2) hc2 e g2 cur im2
  rw [a1] at h1; rw [a2] at h2
  cases h1; cases h2
  rw [hk] at b1
  have hb : coreOf g1' = coreOf g2' := by rw [b1, b2]
  refine ⟨by rw [hk], ?_, ?_, ?_, ?_, ?_⟩
  · exact congrArg Core.nextB hb
  · exact congrArg Core.src hb
  · exact congrArg Core.shared hb
  · exact congrArg Core.ints hb
  · exact congrArg Core.frm hb

theorem addExpr_node_cases {G : GLang} {c : GCfg} {root : Node} {origin : Option Node} {g g' : GState}
    {e : TExpr} {cur : Option Nat} {im : Bool} {n : Nat} (he : e.isLeafData = false)
    (h : addExpr G c root origin g e cur im = .ok (g', n)) :
    n = (allocNode g.nextB cur).1 := by
  have := addExpr_node_of_not_leaf he h
  cases cur <;> exact this

theorem flowFO_counts {next : Nat} {memo : List (Nat × Nat)} {e : TExpr} {cur : Option Nat}
    (hfo : FirstOrder e) (hm : ∀ p ∈ memo, p.2 < next)
    (hc : ∀ m, cur = some m → m < next ∧ ∀ p ∈ memo, p.2 ≠ m) :
    (flowFO next memo e cur).ops.length = numSpines e ∧
    (flowFO next memo e cur).edges.length = numArgs e := by
  have good := flowFO_good hfo next memo cur ⟨hm, fun m h => (hc m h).1, fun m h => (hc m h).2⟩
  refine ⟨?_, good.edges_len⟩
  have := congrArg List.length good.ops_spines
  simpa [numSpines] using this

end Tfv.C08P
