import Tfv.Proofs.ResolvedElimCheck
/-!
# `match3` never refutes two terms that follow to the same term

A building block for the open case of C03: after `unify ref only` bound a variable (`var/var`, `var/compound`), reference
and alternative follow to the same term, in that store and in every later one; the filter of `fulfill`
(`match3 … ref a != some false`) then keeps the alternative.
-/
namespace Tfv.C03E
open Tfv Tfv.C03P Tfv.C03C Tfv.C03R Tfv.C16P Tfv.C17E

theorem loop_same_ne_false (L : Lang) (σ : Store) (n : Nat) (st aw : Bool)
    (ih : ∀ s, match3 L σ n st aw s s ≠ some false) :
    ∀ (vs : List Bool) (ss : List Term) (acc : Option Bool), acc ≠ some false →
      match3.loop L σ n st aw vs ss ss acc ≠ some false
  | [], ss, acc, h => by
    rw [loop_not_cons]
    · exact h
    · rintro ⟨_, _, _, _, _, _, h, _, _⟩; cases h
  | v :: vs, [], acc, h => by
    rw [loop_not_cons]
    · exact h
    · rintro ⟨_, _, _, _, _, _, _, h, _⟩; cases h
  | v :: vs, s :: ss, acc, h => by
    rw [match3.loop.eq_1]
    have hs : (if v = true then match3 L σ n st aw s s else match3 L σ n st aw s s) = match3 L σ n st aw s s := by
      split <;> rfl
    rw [hs]
    have := ih s
    cases hm : match3 L σ n st aw s s with
    | none => exact loop_same_ne_false L σ n st aw ih vs ss none (by simp)
    | some b =>
      cases b with
      | false => exact absurd hm this
      | true => exact loop_same_ne_false L σ n st aw ih vs ss acc h

/-- two terms that follow to the same term are never refuted by `match3` -/
theorem match3_same_ne_false (L : Lang) (σ : Store) : ∀ (n : Nat) (st aw : Bool) (a b : Term),
    followT σ a = followT σ b → match3 L σ n st aw a b ≠ some false
  | 0, st, aw, a, b, _ => by rw [match3_zero]; simp
  | n+1, st, aw, a, b, e => by
    have ih : ∀ s, match3 L σ n st aw s s ≠ some false := fun s => match3_same_ne_false L σ n st aw s s rfl
    rw [match3, e]
    cases hb : followT σ b with
    | var v => simp
    | app o args =>
      simp only []
      split
      · simp
      · split
        · simp
        · split
          · next h => simp at h
          · exact loop_same_ne_false L σ n st aw ih (varianceOf L o) args (some true) (by simp)

/-- … nor in any later store, if they follow to the same term from now on -/
theorem match3_Same_ne_false (L : Lang) {σ σ' : Store} {a b : Term} (h : Same σ a b) (e : Ext σ σ')
    (hc : Chains σ') (n : Nat) (st aw : Bool) : match3 L σ' n st aw a b ≠ some false :=
  match3_same_ne_false L σ' n st aw a b (h σ' e hc)

/-- the filter of `fulfill` on a record one of whose alternatives follows to the same term as the reference: the
alternative is kept and the filtered record satisfies the witness clause -/
theorem elimWit_filter_same {L : Lang} {σ : Store} (okc : OkStoreC L σ) {c : Nat} {r a : Term} {as : List Term}
    {f f' : Bool} (hc : c < σ.constrs.length) (hg : getConstr σ c = .elim r as f) (ha : a ∈ as)
    (he : followT σ r = followT σ a) :
    a ∈ as.filter (fun t => match3 L σ (matchFuel σ) true true r t != some false) ∧
    ElimWit L (setConstr σ c (.elim r (as.filter (fun t => match3 L σ (matchFuel σ) true true r t != some false)) f')) c := by
  have hk : (match3 L σ (matchFuel σ) true true r a != some false) = true := by
    have := match3_same_ne_false L σ (matchFuel σ) true true r a he
    simpa using this
  refine ⟨List.mem_filter.mpr ⟨ha, hk⟩, ElimWit.filter hc (fun ρ hρ => ⟨a, ha, hk, ?_⟩)⟩
  rw [← den_followT hρ r, he, den_followT hρ a]
  exact sub_refl _ (C03P.wfTy_den hρ.wf a (okTermL_iff.mp (okTermL_cons.mp (okc_elim_terms okc hc hg)).2 a ha))

end Tfv.C03E
