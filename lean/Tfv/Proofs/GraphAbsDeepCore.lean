import Tfv.Proofs.GraphAbsDeepSpec
import Tfv.Proofs.GraphAbsLam
/-!
# C08 on expanded composite operators at any depth: the edge-only core of `addExprA`

`addExprAC` is `addExprA` on the five fields of `Core` and the parameter table, with `none` for failure
(`addExprA_core`: the simulation, for `withTypes = false`). On a spine with an operator at its head it is a fold over
the arguments (`addExprAC_spine`).
-/
namespace Tfv.C08P
open Tfv

abbrev Params := List (Nat × Nat)

/-- the wiring of an argument with internal node `i`: a passed operation (`fed`) or the body of an abstraction -/
def wireFed (fed : Bool) (k : Core) (n x i : Nat) : Core :=
  if fed then wire k n x (some i) else wireP k n x (some i)

/-- `addExprA` on the core; `none` where `addExprA` fails its assertion -/
def addExprAC : Core → Params → AExpr → Option Nat → Option (Core × Params × Nat)
  | k, ps, .src id _ _, cur =>
    match k.src.find? (fun p => p.1 == id) with
    | some p => some (k, ps, p.2)
    | none => some ({ (k.cur cur).1 with src := (k.cur cur).1.src ++ [(id, (k.cur cur).2)] }, ps, (k.cur cur).2)
  | k, ps, .op _ _, cur => some ((k.cur cur).1, ps, (k.cur cur).2)
  | k, ps, .pvar id _, _ =>
    match ps.find? (fun p => p.1 == id) with
    | some p => some (k, ps, p.2)
    | none => none
  | _, _, .lam _ _ _, _ => none
  | k, ps, .app f (.lam qs body t) _, cur =>
    match addExprAC (k.cur cur).1 ps f (some (k.cur cur).2) with
    | none => none
    | some (kf, pf, fnode) =>
      if t.isFunction then
        match addExprAC (funCore2 kf fnode) (pf ++ qs.map (fun q => (q, kf.nextB + 1))) body (some kf.nextB) with
        | none => none
        | some (kb, pb, bnode) => some (wireP kb fnode bnode (some (kf.nextB + 1)), pb, (k.cur cur).2)
      else none
  | k, ps, .app f x _, cur =>
    match addExprAC (k.cur cur).1 ps f (some (k.cur cur).2) with
    | none => none
    | some (kf, pf, fnode) =>
      match addExprAC (mkInternal kf.fresh.1 fnode x.ty.isFunction).1 pf x (some kf.nextB) with
      | none => none
      | some (ka, pa, xnode) =>
        some (wire ka fnode xnode (mkInternal kf.fresh.1 fnode x.ty.isFunction).2, pa, (k.cur cur).2)

/-- what `addExprAC` does for one argument `x` of the spine whose node is `n` -/
def argStepAC (n : Nat) (s : Core × Params) (x : AExpr) : Option (Core × Params) :=
  match x with
  | .lam qs body t =>
    if t.isFunction then
      match addExprAC (funCore2 s.1 n) (s.2 ++ qs.map (fun q => (q, s.1.nextB + 1))) body (some s.1.nextB) with
      | none => none
      | some (kb, pb, bnode) => some (wireP kb n bnode (some (s.1.nextB + 1)), pb)
    else none
  | x =>
    match addExprAC (mkInternal s.1.fresh.1 n x.ty.isFunction).1 s.2 x (some s.1.nextB) with
    | none => none
    | some (ka, pa, xnode) => some (wire ka n xnode (mkInternal s.1.fresh.1 n x.ty.isFunction).2, pa)

theorem addExprAC_app (k : Core) (ps : Params) (f x : AExpr) (ty : Term) (cur : Option Nat) :
    addExprAC k ps (.app f x ty) cur =
      match addExprAC (k.cur cur).1 ps f (some (k.cur cur).2) with
      | none => none
      | some (kf, pf, fnode) =>
        match argStepAC fnode (kf, pf) x with
        | none => none
        | some (k', ps') => some (k', ps', (k.cur cur).2) := by
  cases x with
  | lam qs body t =>
    rw [addExprAC]
    cases addExprAC (k.cur cur).1 ps f (some (k.cur cur).2) with
    | none => rfl
    | some r =>
      obtain ⟨kf, pf, fnode⟩ := r
      simp only [argStepAC]
      cases t.isFunction with
      | false => rfl
      | true =>
        simp only [if_true]
        cases addExprAC (funCore2 kf fnode) (pf ++ qs.map (fun q => (q, kf.nextB + 1))) body (some kf.nextB) <;> rfl
  | src id l t =>
    rw [addExprAC] <;> first | (intro _ _ _ hh; cases hh) | skip
    cases addExprAC (k.cur cur).1 ps f (some (k.cur cur).2) with
    | none => rfl
    | some r =>
      obtain ⟨kf, pf, fnode⟩ := r
      simp only [argStepAC]
      cases addExprAC (mkInternal kf.fresh.1 fnode (AExpr.src id l t).ty.isFunction).1 pf (.src id l t) (some kf.nextB) <;> rfl
  | op name t =>
    rw [addExprAC] <;> first | (intro _ _ _ hh; cases hh) | skip
    cases addExprAC (k.cur cur).1 ps f (some (k.cur cur).2) with
    | none => rfl
    | some r =>
      obtain ⟨kf, pf, fnode⟩ := r
      simp only [argStepAC]
      cases addExprAC (mkInternal kf.fresh.1 fnode (AExpr.op name t).ty.isFunction).1 pf (.op name t) (some kf.nextB) <;> rfl
  | pvar id t =>
    rw [addExprAC] <;> first | (intro _ _ _ hh; cases hh) | skip
    cases addExprAC (k.cur cur).1 ps f (some (k.cur cur).2) with
    | none => rfl
    | some r =>
      obtain ⟨kf, pf, fnode⟩ := r
      simp only [argStepAC]
      cases addExprAC (mkInternal kf.fresh.1 fnode (AExpr.pvar id t).ty.isFunction).1 pf (.pvar id t) (some kf.nextB) <;> rfl
  | app f' x' t =>
    rw [addExprAC] <;> first | (intro _ _ _ hh; cases hh) | skip
    cases addExprAC (k.cur cur).1 ps f (some (k.cur cur).2) with
    | none => rfl
    | some r =>
      obtain ⟨kf, pf, fnode⟩ := r
      simp only [argStepAC]
      cases addExprAC (mkInternal kf.fresh.1 fnode (AExpr.app f' x' t).ty.isFunction).1 pf (.app f' x' t) (some kf.nextB) <;> rfl

/-- folding the argument steps, with failure -/
def foldArgs (n : Nat) : List AExpr → Core × Params → Option (Core × Params)
  | [], s => some s
  | a :: as, s =>
    match argStepAC n s a with
    | none => none
    | some s' => foldArgs n as s'

theorem foldArgs_snoc (n : Nat) (l : List AExpr) (a : AExpr) (s : Core × Params) :
    foldArgs n (l ++ [a]) s =
      match foldArgs n l s with
      | none => none
      | some s' => argStepAC n s' a := by
  induction l generalizing s with
  | nil =>
    simp only [List.nil_append, foldArgs]
    cases argStepAC n s a <;> rfl
  | cons b bs ih =>
    simp only [List.cons_append, foldArgs]
    cases argStepAC n s b with
    | none => rfl
    | some s' => exact ih s'

/-- the spine lemma: a spine with an operator at its head is the current node plus a fold over its arguments -/
theorem addExprAC_spine : ∀ (e : AExpr) (name : String) (ty : Term) (k : Core) (ps : Params) (cur : Option Nat),
    headOfA e = .op name ty →
    addExprAC k ps e cur =
      match foldArgs (k.cur cur).2 (argsOfA e) ((k.cur cur).1, ps) with
      | none => none
      | some (k', ps') => some (k', ps', (k.cur cur).2)
  | .src _ _ _, _, _, _, _, _, h => by cases h
  | .pvar _ _, _, _, _, _, _, h => by cases h
  | .lam _ _ _, _, _, _, _, _, h => by cases h
  | .op _ _, _, _, _, _, _, _ => by rw [addExprAC]; rfl
  | .app f x t, name, ty, k, ps, cur, h => by
    have ih := addExprAC_spine f name ty (k.cur cur).1 ps (some (k.cur cur).2) h
    rw [addExprAC_app, ih]
    simp only [cur_some, argsOfA, foldArgs_snoc]
    cases foldArgs (k.cur cur).2 (argsOfA f) ((k.cur cur).1, ps) with
    | none => rfl
    | some s' =>
      obtain ⟨k1, p1⟩ := s'
      rfl

/-! ## the simulation -/

theorem coreOf_mkInternalG_true (g : GState) (fnode : Nat) :
    coreOf (mkInternalG g.fresh.1 fnode true).1 = funCore2 (coreOf g) fnode := by
  rw [coreOf_mkInternalG]; rfl

/-- with `withTypes = false`, a successful run of `addExprA` is a successful run of `addExprAC` on the core -/
theorem addExprA_core {G : GLang} {c : GCfg} {root : Node} (hc : c.withTypes = false) :
    ∀ (e : AExpr) (origin : Option Node) (s : AState) (cur : Option Nat) (im : Bool) (s' : AState) (n : Nat),
      addExprA G c root origin s e cur im = .ok (s', n) →
      addExprAC (coreOf s.g) s.params e cur = some (coreOf s'.g, s'.params, n) := by
  intro e
  refine AExpr.ind (P := fun e => ∀ (origin : Option Node) (s : AState) (cur : Option Nat) (im : Bool) (s' : AState) (n : Nat),
    addExprA G c root origin s e cur im = .ok (s', n) →
      addExprAC (coreOf s.g) s.params e cur = some (coreOf s'.g, s'.params, n)) ?_ ?_ ?_ ?_ ?_ ?_ e
  · intro id l t origin s cur im s' n h
    rw [addExprA_src] at h
    obtain ⟨g1, h1, h2⟩ := addExpr_core (G := G) (root := root) (origin := origin) hc (.src id l t) s.g cur im
    rw [h1] at h
    cases h
    rw [addExprC] at h2
    rw [addExprC, addExprAC]
    show _ = some (coreOf g1, s.params, _)
    rw [h2]
    cases (coreOf s.g).src.find? (fun p => p.1 == id) <;> rfl
  · intro name t origin s cur im s' n h
    rw [addExprA_op] at h
    obtain ⟨g1, h1, h2⟩ := addExpr_core (G := G) (root := root) (origin := origin) hc (.op name t) s.g cur im
    rw [h1] at h
    cases h
    rw [addExprC] at h2
    rw [addExprC, addExprAC]
    show _ = some (coreOf g1, s.params, _)
    rw [h2]
  · intro id t origin s cur im s' n h
    rw [addExprA_pvar] at h
    rw [addExprAC]
    cases hr : s.params.find? (fun p => p.1 == id) with
    | none => rw [hr] at h; cases h
    | some p => rw [hr] at h; cases h; rfl
  · intro ps b t origin s cur im s' n h
    rw [addExprA_lam] at h; cases h
  · intro f ps b t ty ihf ihb origin s cur im s' n h
    cases ht : t.isFunction with
    | false => exact absurd h (addExprA_lam_nofun_fails s f ps b t ty cur im ht s' n)
    | true =>
      rw [addExprA_app_lam _ _ _ _ _ _ _ _ _ _ _ _ ht] at h
      cases hf : addExprA G c root origin { s with g := (curG s.g cur).1 } f (some (curG s.g cur).2) im with
      | error e => rw [hf] at h; cases h
      | ok r1 =>
        obtain ⟨s1, fnode⟩ := r1
        rw [hf] at h
        simp only [] at h
        cases hb : addExprA G c root none
            { g := (mkInternalG s1.g.fresh.1 fnode true).1,
              params := s1.params ++ ps.map (fun p => (p, s1.g.nextB + 1)) } b (some s1.g.nextB) true with
        | error e => rw [hb] at h; cases h
        | ok r2 =>
          obtain ⟨s2, bnode⟩ := r2
          rw [hb] at h
          cases h
          have h1 := ihf _ _ _ _ _ _ hf
          have h2 := ihb _ _ _ _ _ _ hb
          simp only [coreOf_curG, curG_snd] at h1
          simp only [coreOf_mkInternalG_true] at h2
          rw [addExprAC_app, h1]
          simp only [argStepAC, ht, if_true]
          have e1 : (coreOf s1.g).nextB = s1.g.nextB := rfl
          rw [e1, h2]
          simp only [curG_snd]
          show some (_, s2.params, _) = some (coreOf (wirePostG c origin s2.g _ fnode bnode (some (s1.g.nextB + 1))), s2.params, _)
          rw [coreOf_wirePostG]
  · intro f x ty hx ihf ihx origin s cur im s' n h
    rw [addExprA_app _ _ _ _ _ _ _ _ _ _ hx] at h
    cases hf : addExprA G c root origin { s with g := (curG s.g cur).1 } f (some (curG s.g cur).2) im with
    | error e => rw [hf] at h; cases h
    | ok r1 =>
      obtain ⟨s1, fnode⟩ := r1
      rw [hf] at h
      simp only [] at h
      cases hb : addExprA G c root origin { s1 with g := (mkInternalG s1.g.fresh.1 fnode x.ty.isFunction).1 } x
          (some s1.g.fresh.2) true with
      | error e => rw [hb] at h; cases h
      | ok r2 =>
        obtain ⟨s2, xnode⟩ := r2
        rw [hb] at h
        cases h
        have h1 := ihf _ _ _ _ _ _ hf
        have h2 := ihx _ _ _ _ _ _ hb
        simp only [coreOf_curG, curG_snd] at h1
        simp only [coreOf_mkInternalG, coreOf_fresh, fresh_snd] at h2
        rw [addExprAC_app, h1]
        have hstep : argStepAC fnode (coreOf s1.g, s1.params) x =
            match addExprAC (mkInternal (coreOf s1.g).fresh.1 fnode x.ty.isFunction).1 s1.params x (some (coreOf s1.g).nextB) with
            | none => none
            | some (ka, pa, xnode) => some (wire ka fnode xnode (mkInternal (coreOf s1.g).fresh.1 fnode x.ty.isFunction).2, pa) := by
          cases x with
          | lam qs b t => cases hx
          | src id l t => rfl
          | op name t => rfl
          | pvar id t => rfl
          | app f' x' t => rfl
        simp only []
        rw [hstep]
        have e2 : (coreOf s1.g).fresh.2 = (coreOf s1.g).nextB := rfl
        rw [e2] at h2
        rw [h2]
        simp only [curG_snd]
        show some (_, s2.params, _) = some (coreOf (wireG c origin s2.g _ fnode xnode _), s2.params, _)
        rw [coreOf_wireG, mkInternalG_snd, coreOf_fresh]

end Tfv.C08P
