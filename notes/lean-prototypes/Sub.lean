import Proto.Basic
namespace P

def baseSub (L : Lang) (a b : Nat) : Bool :=
  a == BOT || b == TOP || isAnc L (a+1) a b

def varianceOf (L : Lang) (a : Nat) : List Bool := ((L[a]?).map (·.variance)).getD []

mutual
/-- `sub L pol s t`: `s ≤ t` when `pol`, `t ≤ s` otherwise (arguments never swap). -/
def sub (L : Lang) (pol : Bool) : Ty → Ty → Bool
  | .app a as, .app b bs =>
    let lo := if pol then a else b
    let hi := if pol then b else a
    if lo == BOT || hi == TOP then true
    else if as.isEmpty || bs.isEmpty then as.isEmpty && bs.isEmpty && isAnc L (lo+1) lo hi
    else if a != b then false
    else subs L pol (varianceOf L a) as bs
def subs (L : Lang) (pol : Bool) : List Bool → List Ty → List Ty → Bool
  | v :: vs, s :: ss, t :: ts => sub L (pol == v) s t && subs L pol vs ss ts
  | _, _, _ => true
end

mutual
/-- Declarative subtyping on concrete types, polarity-indexed:
`Sub L true s t` is `s ≤ t`, `Sub L false s t` is `t ≤ s`. -/
inductive Sub (L : Lang) : Bool → Ty → Ty → Prop
  | botL {as} (t) : Sub L true (.app BOT as) t
  | topR (s) {bs} : Sub L true s (.app TOP bs)
  | botR (s) {bs} : Sub L false s (.app BOT bs)
  | topL {as} (t) : Sub L false (.app TOP as) t
  | baseT {a b} : Anc L a b → Sub L true (.app a []) (.app b [])
  | baseF {a b} : Anc L b a → Sub L false (.app a []) (.app b [])
  | cong {pol a as bs} : as ≠ [] → bs ≠ [] → SubList L pol (varianceOf L a) as bs → Sub L pol (.app a as) (.app a bs)
inductive SubList (L : Lang) : Bool → List Bool → List Ty → List Ty → Prop
  | done {pol vs ss ts} : (vs = [] ∨ ss = [] ∨ ts = []) → SubList L pol vs ss ts
  | cons {pol v vs s ss t ts} : Sub L (pol == v) s t → SubList L pol vs ss ts → SubList L pol (v::vs) (s::ss) (t::ts)
end

mutual
theorem sub_sound (L : Lang) : ∀ (pol : Bool) (s t : Ty), sub L pol s t = true → Sub L pol s t
  | pol, .app a as, .app b bs, h => by
    unfold sub at h
    simp only at h
    by_cases hc : ((if pol then a else b) == BOT || (if pol then b else a) == TOP) = true
    · cases pol <;> simp at hc
      · rcases hc with hc | hc
        · subst hc; exact .botR _
        · subst hc; exact .topL _
      · rcases hc with hc | hc
        · subst hc; exact .botL _
        · subst hc; exact .topR _
    · rw [if_neg hc] at h
      by_cases he : (as.isEmpty || bs.isEmpty) = true
      · rw [if_pos he] at h
        simp only [Bool.and_eq_true, List.isEmpty_iff] at h
        obtain ⟨⟨h1, h2⟩, h3⟩ := h
        subst h1 h2
        cases pol
        · exact .baseF (isAnc_sound _ _ _ h3)
        · exact .baseT (isAnc_sound _ _ _ h3)
      · rw [if_neg he] at h
        simp only [Bool.or_eq_true, List.isEmpty_iff, not_or] at he
        by_cases hab : (a != b) = true
        · rw [if_pos hab] at h; simp at h
        · rw [if_neg hab] at h
          simp at hab; subst hab
          exact .cong he.1 he.2 (subs_sound L pol _ as bs h)
theorem subs_sound (L : Lang) : ∀ (pol : Bool) (vs : List Bool) (ss ts : List Ty), subs L pol vs ss ts = true → SubList L pol vs ss ts
  | pol, v :: vs, s :: ss, t :: ts, h => by
    unfold subs at h
    simp only [Bool.and_eq_true] at h
    exact .cons (sub_sound L _ s t h.1) (subs_sound L pol vs ss ts h.2)
  | pol, [], ss, ts, h => .done (.inl rfl)
  | pol, _ :: _, [], ts, h => .done (.inr (.inl rfl))
  | pol, _ :: _, _ :: _, [], h => .done (.inr (.inr rfl))
end

#print axioms sub_sound
end P
