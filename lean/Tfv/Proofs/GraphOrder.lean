import Tfv.Proofs.GraphCanonNode
/-!
# Order independence of triple emission
-/
namespace Tfv

theorem add_comm_mem (g : GState) (t1 t2 t : Triple) :
    t ∈ ((g.add t1).add t2).triples ↔ t ∈ ((g.add t2).add t1).triples := by
  simp only [mem_add]
  constructor
  · rintro ((h | h) | h)
    · exact .inl (.inl h)
    · exact .inr h
    · exact .inl (.inr h)
  · rintro ((h | h) | h)
    · exact .inl (.inl h)
    · exact .inr h
    · exact .inl (.inr h)

theorem mem_foldl_add (l : List Triple) : ∀ (g : GState) (t : Triple),
    t ∈ (l.foldl GState.add g).triples ↔ (t ∈ g.triples ∨ t ∈ l) := by
  induction l with
  | nil => intro g t; simp
  | cons u l ih =>
    intro g t
    rw [List.foldl_cons, ih, mem_add, List.mem_cons, or_assoc]

theorem foldl_add_sameBut (l : List Triple) : ∀ (g : GState), SameBut g (l.foldl GState.add g) := by
  induction l with
  | nil => intro g; exact .refl g
  | cons u l ih => intro g; exact (SameBut.add g u).trans (ih _)

theorem foldl_add_same (l1 l2 : List Triple) (h : ∀ t, t ∈ l1 ↔ t ∈ l2) (g : GState) (t : Triple) :
    t ∈ (l1.foldl GState.add g).triples ↔ t ∈ (l2.foldl GState.add g).triples := by
  rw [mem_foldl_add, mem_foldl_add, h t]

/-- `annotateType` in a graph extending the initial one: every supertype is pre-registered -/
theorem supsOf_registered (G : GLang) (c : GCfg) (hc : c.withCanonicalTypes = false) (g : GState)
    (l : List (Term × Node)) (hg : g.typeNodes = (initGraph G c).typeNodes ++ l) (ty : Term) :
    ∀ s ∈ supsOf G ty, ∃ n, lookupType g.typeNodes s.toTerm = some n := by
  intro s hs
  have hm := supsOf_canon G ty s hs
  obtain ⟨uri, hu⟩ := typeUri_canonical G s hm
  exact ⟨uri, by rw [hg]; exact lookupType_append_some (initGraph_lookup G c hc s hm uri hu)⟩

/-- the same whoever decides `canonical` (`ov = some b`: the source branch of `addExpr`) -/
theorem annotateType_perm_canonical_ov (G : GLang) (c : GCfg) (hc : c.withCanonicalTypes = false) (g : GState)
    (l : List (Term × Node)) (hg : g.typeNodes = (initGraph G c).typeNodes ++ l) (root : Node) (cur : Nat)
    (ty : Term) (mf : Bool) (ov : Option Bool) (sups : List Ty) (hp : sups.Perm (supsOf G ty)) (g1 : GState)
    (h : annotateType G c g root cur ty mf ov = .ok g1) :
    ∃ g2, annotateTypeWith G c g root cur ty sups ov = .ok g2 ∧ SameBut g1 g2 ∧
      ∀ t, t ∈ g1.triples ↔ t ∈ g2.triples := by
  rw [annotateType_eq_ov] at h
  exact annotateTypeWith_perm_ov G c g root cur ty (supsOf G ty) sups ov (fun s => (hp.mem_iff).symm)
    (supsOf_registered G c hc g l hg ty) g1 h

theorem annotateType_perm_canonical (G : GLang) (c : GCfg) (hc : c.withCanonicalTypes = false) (g : GState)
    (l : List (Term × Node)) (hg : g.typeNodes = (initGraph G c).typeNodes ++ l) (root : Node) (cur : Nat)
    (ty : Term) (mf : Bool) (sups : List Ty) (hp : sups.Perm (supsOf G ty)) (g1 : GState)
    (h : annotateType G c g root cur ty mf = .ok g1) :
    ∃ g2, annotateTypeWith G c g root cur ty sups = .ok g2 ∧ SameBut g1 g2 ∧
      ∀ t, t ∈ g1.triples ↔ t ∈ g2.triples := by
  rw [annotateType_eq] at h
  exact annotateTypeWith_perm G c g root cur ty (supsOf G ty) sups (fun s => (hp.mem_iff).symm)
    (supsOf_registered G c hc g l hg ty) g1 h

end Tfv
