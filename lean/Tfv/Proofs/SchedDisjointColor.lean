import Tfv.Proofs.SchedDisjointEngine
import Tfv.Proofs.History
import Tfv.Proofs.FrameConstrMain
/-!
# C18 — constraints over disjoint variables, part 3: stores partitioned into one-constraint regions

A *colouring* assigns a colour to every variable, constraint-set object and constraint. A store is `Colored` when,
for every colour `i`, the members of colour `i` (together with everything not yet allocated) form a closed region
whose constraint sets hold ONE constraint only. An engine call that works inside the region of one colour keeps the
store coloured (`colored_step`): what it allocates gets that colour, the other regions are untouched.
-/
namespace Tfv.C18D
open Tfv Tfv.C03P Tfv.C16P Tfv.C03C Tfv.C18P Tfv.C16C Tfv.C18S

/-- a colour for every variable, constraint-set object and constraint -/
structure Coloring where
  col : Nat → Nat
  kcol : Nat → Nat
  ccol : Nat → Nat

/-- the region of colour `i`: its members and everything not yet allocated -/
def regOf (κ : Coloring) (σ : Store) (i : Nat) : Region where
  S := fun v => κ.col v = i ∨ σ.vars.length ≤ v
  K := fun k => κ.kcol k = i ∨ σ.csets.length ≤ k
  C := fun c => κ.ccol c = i ∨ σ.constrs.length ≤ c

/-- every colour is a closed region whose constraint sets hold one constraint only -/
structure Colored (κ : Coloring) (σ : Store) : Prop where
  closed : ∀ i, ClosedC σ (regOf κ σ i)
  only : ∀ i, ∃ c0, ∀ k, (regOf κ σ i).K k → AllEq c0 (getCset σ k)
  kal : KAlloc σ

/-- what is allocated beyond `σ` gets the colour `i` -/
def Coloring.extend (κ : Coloring) (σ : Store) (i : Nat) : Coloring where
  col := fun v => if v < σ.vars.length then κ.col v else i
  kcol := fun k => if k < σ.csets.length then κ.kcol k else i
  ccol := fun c => if c < σ.constrs.length then κ.ccol c else i

theorem ext_iff_aux (f : Nat → Nat) (i a a' x : Nat) (_h : a ≤ a') :
    ((if x < a then f x else i) = i ∨ a' ≤ x) ↔ (f x = i ∨ a ≤ x) := by
  by_cases hx : x < a
  · rw [if_pos hx]
    constructor
    · intro h1; rcases h1 with h1 | h1
      · exact Or.inl h1
      · omega
    · intro h1; rcases h1 with h1 | h1
      · exact Or.inl h1
      · omega
  · rw [if_neg hx]
    exact ⟨fun _ => Or.inr (by omega), fun _ => Or.inl rfl⟩

/-- the region of the colour that worked is the same set as before -/
theorem regOf_extend_self (κ : Coloring) {σ σ' : Store} (i : Nat) (hv : σ.vars.length ≤ σ'.vars.length)
    (hk : σ.csets.length ≤ σ'.csets.length) (hcn : σ.constrs.length ≤ σ'.constrs.length) :
    regOf (κ.extend σ i) σ' i = regOf κ σ i := by
  unfold regOf Coloring.extend
  congr 1
  · funext x; exact propext (ext_iff_aux κ.col i _ _ x hv)
  · funext x; exact propext (ext_iff_aux κ.kcol i _ _ x hk)
  · funext x; exact propext (ext_iff_aux κ.ccol i _ _ x hcn)

theorem ext_other_aux {f : Nat → Nat} {i j a a' x : Nat} (hij : j ≠ i)
    (hx : (if x < a then f x else i) = j ∨ a' ≤ x) : (x < a ∧ f x = j) ∨ a' ≤ x := by
  rcases hx with hx | hx
  · by_cases hlt : x < a
    · rw [if_pos hlt] at hx; exact Or.inl ⟨hlt, hx⟩
    · rw [if_neg hlt] at hx; exact absurd hx.symm hij
  · exact Or.inr hx

/-- THE STEP: an operation that stays inside the region of colour `i` keeps the store coloured -/
theorem colored_step {κ : Coloring} {σ σ' : Store} {i c0 : Nat} (h : Colored κ σ)
    (f : FrC (regOf κ σ i) σ σ') (o : OnlyC c0 (regOf κ σ i) σ') : Colored (κ.extend σ i) σ' := by
  have selfEq := regOf_extend_self κ i f.len f.klen f.clen
  -- facts about members of another colour
  have var_other : ∀ {j w}, j ≠ i → w < σ.vars.length → κ.col w = j → getVar σ' w = getVar σ w :=
    fun {j w} hij hw hcol => f.vfr w (fun hS => by
      rcases hS with hS | hS
      · exact hij (hcol ▸ hS)
      · omega)
  have cs_other : ∀ {j k}, j ≠ i → k < σ.csets.length → κ.kcol k = j → getCset σ' k = getCset σ k :=
    fun {j k} hij hk hcol => f.kfr k (fun hK => by
      rcases hK with hK | hK
      · exact hij (hcol ▸ hK)
      · omega)
  have cn_other : ∀ {j c}, j ≠ i → c < σ.constrs.length → κ.ccol c = j → getConstr σ' c = getConstr σ c :=
    fun {j c} hij hc hcol => f.cfr c (fun hC => by
      rcases hC with hC | hC
      · exact hij (hcol ▸ hC)
      · omega)
  -- terms over colour `j` in `σ` are terms over colour `j` in `σ'`
  have tin_other : ∀ {j : Nat} {b : Term}, j ≠ i → TermInR σ (regOf κ σ j).S b →
      TermInR σ' (regOf (κ.extend σ i) σ' j).S b := by
    intro j b hij hb v hv
    obtain ⟨hS, hlt⟩ := hb v hv
    refine ⟨Or.inl ?_, Nat.lt_of_lt_of_le hlt f.len⟩
    show (if v < σ.vars.length then κ.col v else i) = j
    rw [if_pos hlt]
    rcases hS with hS | hS
    · exact hS
    · exact absurd hlt (by omega)
  refine ⟨fun j => ?_, fun j => ?_, o.kal⟩
  · by_cases hij : j = i
    · subst hij; rw [selfEq]; exact f.closed
    · have hcj := h.closed j
      refine ⟨fun w b hw hb => ?_, fun w hw hS => ?_, fun k c hk hm => ?_, fun c u hlt hC hu => ?_,
        fun v hv => Or.inr hv, fun k hk => Or.inr hk, fun c hc => Or.inr hc⟩
      · rcases ext_other_aux hij hw with ⟨hlt, hcol⟩ | hge
        · rw [var_other hij hlt hcol] at hb
          exact tin_other hij (hcj.bnd w b (Or.inl hcol) hb)
        · rw [getVar_oor (by omega)] at hb; cases hb
      · rcases ext_other_aux hij hS with ⟨hlt, hcol⟩ | hge
        · rw [var_other hij hlt hcol]
          have hk := h.kal w hlt
          refine Or.inl ?_
          show (if (getVar σ w).cset < σ.csets.length then κ.kcol (getVar σ w).cset else i) = j
          rw [if_pos hk]
          rcases hcj.cs w hlt (Or.inl hcol) with h1 | h1
          · exact h1
          · exact absurd hk (by omega)
        · omega
      · rcases ext_other_aux hij hk with ⟨hlt, hcol⟩ | hge
        · rw [cs_other hij hlt hcol] at hm
          obtain ⟨hC, hclt⟩ := hcj.mem k c (Or.inl hcol) hm
          refine ⟨Or.inl ?_, Nat.lt_of_lt_of_le hclt f.clen⟩
          show (if c < σ.constrs.length then κ.ccol c else i) = j
          rw [if_pos hclt]
          rcases hC with hC | hC
          · exact hC
          · exact absurd hclt (by omega)
        · rw [getCset_oor hge] at hm; cases hm
      · rcases ext_other_aux hij hC with ⟨hclt, hcol⟩ | hge
        · rw [cn_other hij hclt hcol] at hu
          exact tin_other hij (hcj.ctm c u hclt (Or.inl hcol) hu)
        · omega
  · by_cases hij : j = i
    · subst hij; rw [selfEq]; exact ⟨c0, o.only⟩
    · obtain ⟨cj, hcj⟩ := h.only j
      refine ⟨cj, fun k hk => ?_⟩
      rcases ext_other_aux hij hk with ⟨hlt, hcol⟩ | hge
      · rw [cs_other hij hlt hcol]; exact hcj k (Or.inl hcol)
      · rw [getCset_oor hge]; exact allEq_nil _

/-- the store is partitioned into one-constraint regions by some colouring -/
def Col (σ : Store) : Prop := ∃ κ, Colored κ σ

theorem Colored.onlyC {κ : Coloring} {σ : Store} (h : Colored κ σ) (i : Nat) :
    ∃ c0, OnlyC c0 (regOf κ σ i) σ := by
  obtain ⟨c0, hc0⟩ := h.only i
  exact ⟨c0, hc0, h.kal⟩

/-- every binding of a coloured store mentions allocated variables only -/
theorem Colored.closedAll {κ : Coloring} {σ : Store} (h : Colored κ σ) :
    Closed σ (fun v => v < σ.vars.length) := by
  intro w b hw hb v hv
  exact ((h.closed (κ.col w)).bnd w b (Or.inl rfl) hb v hv).2

/-- the scheduled call and the model call give the same result; a successful result is coloured again and nothing
was de-allocated -/
def GoodC (σ : Store) (r₁ r₂ : Except Err Store) : Prop :=
  r₁ = r₂ ∧ ∀ σ', r₂ = .ok σ' → Col σ' ∧ σ.vars.length ≤ σ'.vars.length

def GoodCP {α : Type} (σ : Store) (P : Store → α → Prop) (r₁ r₂ : Except Err (Store × α)) : Prop :=
  r₁ = r₂ ∧ ∀ σ' x, r₂ = .ok (σ', x) → Col σ' ∧ σ.vars.length ≤ σ'.vars.length ∧ P σ' x

theorem goodC_of_goodE {κ : Coloring} {σ : Store} {i c0 : Nat} (h : Colored κ σ)
    {r₁ r₂ : Except Err Store} (g : GoodE c0 (regOf κ σ i) σ r₁ r₂) : GoodC σ r₁ r₂ :=
  ⟨g.1, fun σ' e => ⟨⟨_, colored_step h (g.2 σ' e).1 (g.2 σ' e).2⟩, (g.2 σ' e).1.len⟩⟩

theorem goodCP_of_goodEP {α : Type} {κ : Coloring} {σ : Store} {i c0 : Nat} (h : Colored κ σ)
    {P : Store → α → Prop} {Q : Store → α → Prop} {r₁ r₂ : Except Err (Store × α)}
    (g : GoodEP c0 (regOf κ σ i) σ P r₁ r₂) (hPQ : ∀ σ' x, P σ' x → Q σ' x) : GoodCP σ Q r₁ r₂ :=
  ⟨g.1, fun σ' x e => ⟨⟨_, colored_step h (g.2 σ' x e).1 (g.2 σ' x e).2.1⟩, (g.2 σ' x e).1.len,
    hPQ σ' x (g.2 σ' x e).2.2⟩⟩

theorem goodC_error {σ : Store} (e : Err) : GoodC σ (.error e) (.error e) := ⟨rfl, fun _ h => by cases h⟩

theorem goodC_ok {σ σ1 : Store} (h : Col σ1) (hl : σ.vars.length ≤ σ1.vars.length) :
    GoodC σ (.ok σ1) (.ok σ1) :=
  ⟨rfl, fun σ' e => by injection e with e; subst e; exact ⟨h, hl⟩⟩

theorem goodC_ite {σ : Store} {c : Prop} [Decidable c] {a₁ a₂ b₁ b₂ : Except Err Store}
    (ha : c → GoodC σ a₁ a₂) (hb : ¬ c → GoodC σ b₁ b₂) :
    GoodC σ (if c then a₁ else b₁) (if c then a₂ else b₂) := by
  by_cases h : c
  · rw [if_pos h, if_pos h]; exact ha h
  · rw [if_neg h, if_neg h]; exact hb h

theorem goodC_seq {σ : Store} {r₁ r₂ : Except Err Store} {k₁ k₂ : Store → Except Err Store} :
    GoodC σ r₁ r₂ →
    (∀ σ1, Col σ1 → σ.vars.length ≤ σ1.vars.length → GoodC σ1 (k₁ σ1) (k₂ σ1)) →
    GoodC σ (match r₁ with | .error e => .error e | .ok σ => k₁ σ)
      (match r₂ with | .error e => .error e | .ok σ => k₂ σ) := by
  intro h hk
  rw [h.1]
  split
  · exact goodC_error _
  · next σ1 =>
    obtain ⟨c1, l1⟩ := h.2 σ1 rfl
    have g := hk σ1 c1 l1
    exact ⟨g.1, fun σ' e => ⟨(g.2 σ' e).1, Nat.le_trans l1 (g.2 σ' e).2⟩⟩

theorem goodCP_error {α : Type} {σ : Store} {P : Store → α → Prop} (e : Err) :
    GoodCP σ P (.error e) (.error e) := ⟨rfl, fun _ _ h => by cases h⟩

theorem goodCP_ok {α : Type} {σ σ1 : Store} {P : Store → α → Prop} {x : α} (h : Col σ1)
    (hl : σ.vars.length ≤ σ1.vars.length) (p : P σ1 x) : GoodCP σ P (.ok (σ1, x)) (.ok (σ1, x)) :=
  ⟨rfl, fun σ' y e => by
    injection e with e; injection e with e1 e2; subst e1; subst e2; exact ⟨h, hl, p⟩⟩

theorem goodCP_ite {α : Type} {σ : Store} {P : Store → α → Prop} {c : Prop} [Decidable c]
    {a₁ a₂ b₁ b₂ : Except Err (Store × α)}
    (ha : c → GoodCP σ P a₁ a₂) (hb : ¬ c → GoodCP σ P b₁ b₂) :
    GoodCP σ P (if c then a₁ else b₁) (if c then a₂ else b₂) := by
  by_cases h : c
  · rw [if_pos h, if_pos h]; exact ha h
  · rw [if_neg h, if_neg h]; exact hb h

theorem goodCP_seq {α : Type} {σ : Store} {P : Store → α → Prop} {r₁ r₂ : Except Err Store}
    {k₁ k₂ : Store → Except Err (Store × α)} : GoodC σ r₁ r₂ →
    (∀ σ1, Col σ1 → σ.vars.length ≤ σ1.vars.length → GoodCP σ1 P (k₁ σ1) (k₂ σ1)) →
    GoodCP σ P (match r₁ with | .error e => .error e | .ok σ => k₁ σ)
      (match r₂ with | .error e => .error e | .ok σ => k₂ σ) := by
  intro h hk
  rw [h.1]
  split
  · exact goodCP_error _
  · next σ1 =>
    obtain ⟨c1, l1⟩ := h.2 σ1 rfl
    have g := hk σ1 c1 l1
    exact ⟨g.1, fun σ' x e => ⟨(g.2 σ' x e).1, Nat.le_trans l1 (g.2 σ' x e).2.1, (g.2 σ' x e).2.2⟩⟩

end Tfv.C18D
