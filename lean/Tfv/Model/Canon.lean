import Tfv.Model.Sub
/-!
# M7 — direct successors of types, the canonical set and the canonical taxonomy
(type.py:261-282 `floor`/`ceiling`, 712-773 `TypeOperation.successors`; lang.py:108-166 `expand_canon`, `Language.successors`)

Python iterates `TypeOperator.children` (a set) and a `set` of canonical types; the model lists them in
index order — every result is used as a *set* (membership by structural equality `Ty.beq`).
-/
namespace Tfv

def childrenOf (L : Lang) (o : Nat) : List Nat :=
  (List.range L.length).filter (fun c => parentOf L c == some o)

/-- `TypeOperator.floor()` -/
def floorOp (L : Lang) : Nat → Nat → List Ty
  | 0, _ => []
  | n+1, o =>
    if arityOf L o == 0 then
      let cs := childrenOf L o
      if cs.isEmpty then [.app o []] else cs.flatMap (floorOp L n)
    else [.app o ((varianceOf L o).map (fun v => if v then .app BOT [] else .app TOP []))]

/-- `TypeOperator.ceiling()` -/
def ceilingOp (L : Lang) : Nat → Nat → List Ty
  | 0, _ => []
  | n+1, o =>
    if arityOf L o == 0 then
      match parentOf L o with
      | some p => ceilingOp L n p
      | none => [.app o []]
    else [.app o ((varianceOf L o).map (fun v => if v then .app TOP [] else .app BOT []))]

structure SOpts where
  custom : Bool := true      -- include_custom
  bottom : Bool := false     -- include_bottom
  top : Bool := false        -- include_top
  univ : List Nat := []  -- `univ` (operator indices); empty = not given
  deriving Repr, Inhabited

/-- successors of a base type (`op.arity == 0` branch); `up` = `Direction.UP` -/
def baseSucc (L : Lang) (o : SOpts) (up : Bool) (op : Nat) : List Ty :=
  if !up then
    if op == TOP then
      if !o.univ.isEmpty then o.univ.flatMap (ceilingOp L (L.length + 1))
      else if o.bottom then [.app BOT []] else []
    else if o.custom && !(childrenOf L op).isEmpty then (childrenOf L op).map (fun c => .app c [])
    else if o.bottom && op != BOT then [.app BOT []]
    else []
  else
    if op == BOT then
      if !o.univ.isEmpty then o.univ.flatMap (floorOp L (L.length + 1))
      else if o.top then [.app TOP []] else []
    else if o.custom && (parentOf L op).isSome then
      match parentOf L op with
      | some p => [.app p []]
      | none => []
    else if o.top && op != TOP then [.app TOP []]
    else []

mutual
/-- `TypeOperation.successors(dir, …)` -/
def succT (L : Lang) (o : SOpts) : Bool → Ty → List Ty
  | up, .app op args =>
    if arityOf L op == 0 then baseSucc L o up op
    else
      let alts := succArgs L o up (varianceOf L op) args
      if alts.isEmpty then
        (if o.bottom && !up then [.app BOT []] else if o.top && up then [.app TOP []] else [])
      else alts.map (fun as => .app op as)
/-- the argument lists in which exactly one parameter is replaced by one of its successors -/
def succArgs (L : Lang) (o : SOpts) : Bool → List Bool → List Ty → List (List Ty)
  | up, v :: vs, p :: ps =>
    ((succT L o (up == v) p).map (fun q => q :: ps)) ++ ((succArgs L o up vs ps).map (fun qs => p :: qs))
  | _, _, _ => []
end

def memTy (t : Ty) (ts : List Ty) : Bool := ts.any (fun s => Ty.beq s t)

def insertTy (t : Ty) (ts : List Ty) : List Ty := if memTy t ts then ts else ts ++ [t]

structure CanonCfg where
  includeTop : Bool := false
  includeBottom : Bool := false
  deriving Repr, Inhabited

/-- `Language.expand_canon()`: worklist (the Python `stack.pop()` takes the last element) -/
def expandCanon (L : Lang) (c : CanonCfg) : Nat → List Ty → List Ty → List Ty
  | 0, _, canon => canon
  | _, [], canon => canon
  | n+1, stack, canon =>
    match stack.getLast?, stack.dropLast with
    | none, _ => canon
    | some cur, rest =>
      let canon := insertTy cur canon
      let ups := succT L { custom := false, top := c.includeTop, bottom := c.includeBottom } true cur
      let downs := succT L { custom := true, top := c.includeTop, bottom := c.includeBottom } false cur
      let new := (ups ++ downs).filter (fun s => !memTy s canon)
      expandCanon L c n (rest ++ new) canon

def canonFuel : Nat := 200000

/-- `Language.__init__` canon handling: listed types (Top/Bottom switch the flags and are not added) -/
def mkCanon (L : Lang) (c : CanonCfg) (listed : List Ty) : List Ty :=
  let init := listed.foldl (fun acc t => insertTy t acc) []
  expandCanon L c canonFuel init init

/-- operators of the language proper (`self.types.values()`) -/
def typeUniverse (L : Lang) : List Nat := (List.range L.length).filter (fun i => 5 ≤ i)

def langOpts (L : Lang) (c : CanonCfg) : SOpts :=
  { custom := true, top := c.includeTop, bottom := c.includeBottom, univ := typeUniverse L }

/-- `Language.successors(d, t, transitive)`: canonical successors with a one-level look-through -/
def langSucc (L : Lang) (c : CanonCfg) (canon : List Ty) : Nat → Bool → Ty → Bool → List Ty
  | 0, _, _, _ => []
  | n+1, up, t, transitive =>
    (succT L (langOpts L c) up t).flatMap (fun s =>
      if memTy s canon then
        s :: (if transitive then langSucc L c canon n up s true else [])
      else
        (succT L (langOpts L c) up s).flatMap (fun u =>
          if memTy u canon then u :: (if transitive then langSucc L c canon n up u true else [])
          else []))

def dedupTy (ts : List Ty) : List Ty := ts.foldl (fun acc t => insertTy t acc) []

end Tfv
