import Tfv.Proofs.GraphAbsDeepStep
import Tfv.Proofs.GraphAbsDeepTop
import Tfv.Proofs.GraphAbsExamples
/-!
# C09 / C08 on expanded composite operators at any depth: concrete runs
-/
namespace Tfv.C08P
open Tfv

/-- `from`, `depends`, internal pairs, result node -/
def fdOfA (r : Except GErr (AState × Nat)) : Option (List (Nat × Nat) × List (Nat × Nat) × List (Nat × Nat) × Nat) :=
  r.toOption.map (fun p => (p.1.g.fd.frm, p.1.g.fd.dep, p.1.g.internals, p.2))

/-- `h (λx. g x) s` with dependencies: four `from` edges, six `depends` edges -/
theorem exLamG_fd :
    fdOfA (addExprA exG exCfg (.res "w") none sA0 exLamG none false) =
      some ([(2, 4), (0, 4), (0, 1), (1, 2)], [(1, 2), (0, 1), (0, 2), (0, 4), (2, 4), (1, 4)], [(0, 2)], 0) := by
  decide +kernel

/-- `h (λx. k (λy. g y) x) s` with dependencies -/
theorem exLamNested_fd :
    fdOfA (addExprA exG exCfg (.res "w") none sA0 exLamNested none false) =
      some ([(2, 7), (0, 7), (4, 2), (0, 1), (4, 2), (1, 2), (1, 3), (3, 4)],
        [(3, 4), (1, 3), (1, 4), (1, 2), (4, 2), (3, 2), (0, 1), (0, 3), (0, 4), (0, 2), (0, 7), (2, 7), (1, 7),
          (4, 7), (3, 7)], [(0, 2), (1, 4)], 0) := by
  decide +kernel

/-- the same without dependencies: no `depends` edge -/
theorem exLamNested_fd_nodep :
    fdOfA (addExprA exG exCfgOps (.res "w") none sA0 exLamNested none false) =
      some ([(2, 7), (0, 7), (4, 2), (0, 1), (4, 2), (1, 2), (1, 3), (3, 4)], [], [(0, 2), (1, 4)], 0) := by
  decide +kernel

theorem ok_of_fdOfA {r : Except GErr (AState × Nat)} {x} (h : fdOfA r = some x) : ∃ s n, r = .ok (s, n) := by
  cases r with
  | error e => cases h
  | ok v => exact ⟨v.1, v.2, rfl⟩


/-! ## abstractions at any depth: the layout against the graph code -/

/-- `h (λx. g (f x)) s` -/
def exDeep1 : AExpr :=
  .app (.app (.op "h" tFAA) (.lam [7] (.app (.op "g" tAA) (.app (.op "f" tAA) (.pvar 7 tA) tA) tA) tAA) tAA) exXA tA
/-- `h (λx. k (λy. g2 y x) x) s`: the inner abstraction uses the parameter of the outer one -/
def exDeep2 : AExpr := .app (.app (.op "h" tFAA)
    (.lam [7] (.app (.app (.op "k" tFAA) (.lam [8] (.app (.app (.op "g2" tAAA) (.pvar 8 tA) tAA) (.pvar 7 tA) tA) tAA) tAA)
      (.pvar 7 tA) tA) tAA) tAA) exXA tA
/-- `hh (λf. k f s)`: a parameter of function type passed on as an operation -/
def exDeep3 : AExpr := .app (.op "hh" tFAA) (.lam [7] (.app (.app (.op "k" tFAA) (.pvar 7 tAA) tAA) exXA tA) tAA) tAA
/-- `k s (λx. g x) s` with the source `s : A ** A` passed twice, around an abstraction -/
def exDeep4 : AExpr :=
  .app (.app (.app (.op "k" tFFA) (.src 3 none tAA) tFA) (.lam [7] (.app (.op "g" tAA) (.pvar 7 tA) tA) tAA) tA)
    (.src 3 none tAA) tA
/-- `hh (λf. f s)`: a parameter at the head of a spine (not in the class) -/
def exParamHead : AExpr := .app (.op "hh" tFAA) (.lam [7] (.app (.pvar 7 tAA) exXA tA) tAA) tAA

/-- two edge lists denote the same set -/
def sameSet (l1 l2 : List (Nat × Nat)) : Bool := l1.all (fun p => l2.contains p) && l2.all (fun p => l1.contains p)

theorem exDeep_class : hofA exDeep1 = true ∧ hofA exDeep2 = true ∧ hofA exDeep3 = true ∧ hofA exDeep4 = true ∧
    hofA exLamG = true ∧ hofA exLamNested = true ∧ hofA exLamId = true ∧ hofA exLamTwice = true ∧
    hofA exParamHead = false := by
  decide +kernel

/-- `h (λx. g (f x)) s`: 0 = `h …`, 1 = `g (f x)` (the body: node of the argument), 2 = the internal node = `x`,
3 = `f x` (4 was reserved for `x` and not used), 5 = `s`. `3 → 2`: `f` takes `x`; no edge `1 → 2`. -/
theorem exDeep1_layout :
    flowHATop 0 [] [] exDeep1 none =
      ⟨0, 6, [(0, 5)], [(7, 2)], [(0, 2)], [(3, 2), (1, 3), (0, 1), (0, 5), (2, 5)]⟩ := by
  decide +kernel

theorem exDeep1_run :
    summaryA (addExprA exG exCfg (.res "w") none sA0 exDeep1 none false) =
      some ⟨[(2, 5), (0, 5), (0, 1), (1, 3), (3, 2)], [(0, 2)], [(0, 5)], 6, 0, [(7, 2)]⟩ := by
  decide +kernel

/-- `h (λx. k (λy. g2 y x) x) s`: 0 = `h …`, 1 = `k … x` (outer body), 2 = internal node of `h` = `x`, 3 = `g2 y x` (inner
body), 4 = internal node of `k` = `y`, 8 = `s`. `3 → 4` and `3 → 2`: `g2` takes `y` and the outer `x`; `4 → 2` twice:
`x` is the other argument of `k`, and the nested rule (4 hangs off node 1, the argument in front of which 2 stands). -/
theorem exDeep2_layout :
    flowHATop 0 [] [] exDeep2 none =
      ⟨0, 9, [(0, 8)], [(7, 2), (8, 4)], [(0, 2), (1, 4)],
        [(3, 4), (3, 2), (1, 3), (1, 2), (4, 2), (0, 1), (0, 8), (2, 8), (4, 2)]⟩ := by
  decide +kernel

theorem exDeep2_run :
    summaryA (addExprA exG exCfg (.res "w") none sA0 exDeep2 none false) =
      some ⟨[(2, 8), (0, 8), (4, 2), (0, 1), (4, 2), (1, 2), (1, 3), (3, 2), (3, 4)], [(0, 2), (1, 4)], [(0, 8)], 9, 0,
        [(7, 2), (8, 4)]⟩ := by
  decide +kernel

/-- `hh (λf. k f s)`: the parameter `f` (node 2) is passed on to `k`, whose internal node 4 feeds it: `2 → 4` -/
theorem exDeep3_layout :
    flowHATop 0 [] [] exDeep3 none =
      ⟨0, 6, [(0, 5)], [(7, 2)], [(0, 2), (1, 4)], [(1, 2), (1, 5), (2, 4), (4, 5), (0, 1), (4, 2)]⟩ := by
  decide +kernel

theorem exDeep3_run :
    summaryA (addExprA exG exCfg (.res "w") none sA0 exDeep3 none false) =
      some ⟨[(4, 2), (0, 1), (4, 5), (1, 5), (1, 2), (2, 4)], [(0, 2), (1, 4)], [(0, 5)], 6, 0, [(7, 2)]⟩ := by
  decide +kernel

theorem exDeep4_layout :
    flowHATop 0 [] [] exDeep4 none =
      ⟨0, 8, [(3, 1)], [(7, 4)], [(0, 2), (0, 4), (0, 7)],
        [(3, 4), (0, 1), (0, 3), (0, 1), (1, 2), (1, 7), (2, 3), (2, 1), (4, 1), (4, 1), (7, 1), (7, 3)]⟩ := by
  decide +kernel

theorem exDeep4_run :
    summaryA (addExprA exG exCfg (.res "w") none sA0 exDeep4 none false) =
      some ⟨[(7, 3), (7, 1), (4, 1), (2, 1), (0, 1), (1, 7), (4, 1), (2, 3), (0, 3), (3, 4), (0, 1), (1, 2)],
        [(0, 2), (0, 4), (0, 7)], [(3, 1)], 8, 0, [(7, 4)]⟩ := by
  decide +kernel

/-- layout and graph code give the same edge sets (checked by evaluation, independently of the theorem) -/
theorem exDeep_sameSet :
    sameSet (flowHATop 0 [] [] exDeep1 none).edges [(2, 5), (0, 5), (0, 1), (1, 3), (3, 2)] = true ∧
    sameSet (flowHATop 0 [] [] exDeep2 none).edges [(2, 8), (0, 8), (4, 2), (0, 1), (4, 2), (1, 2), (1, 3), (3, 2), (3, 4)] = true ∧
    sameSet (flowHATop 0 [] [] exDeep3 none).edges [(4, 2), (0, 1), (4, 5), (1, 5), (1, 2), (2, 4)] = true ∧
    sameSet (flowHATop 0 [] [] exDeep4 none).edges
      [(7, 3), (7, 1), (4, 1), (2, 1), (0, 1), (1, 7), (4, 1), (2, 3), (0, 3), (3, 4), (0, 1), (1, 2)] = true := by
  decide +kernel

/-- the layouts of the earlier examples: `h (λx. x)`, and `k (λx. x) (λx. x)` with the reused parameter number (the
layout follows the parameter table, so it has the self-edge `2 → 2` of the model) -/
theorem exLam_layouts :
    flowHATop 0 [] [] exLamId none = ⟨0, 3, [], [(7, 2)], [(0, 2)], [(0, 2)]⟩ ∧
    flowHATop 0 [] [] exLamTwice none =
      ⟨0, 5, [], [(7, 2), (7, 4)], [(0, 2), (0, 4)], [(0, 2), (0, 2), (2, 2), (4, 2)]⟩ := by
  decide +kernel

/-- model oddity: a parameter at the head of a spine. The argument `s` is attached to the node the parameter
denotes (the internal node 2: `2 → 3`), but the node of the application `f s` is the reserved node 1, which gets no
edge at all; the layout (which would give `1 → 3`) does not describe this graph. -/
theorem exParamHead_run :
    summaryA (addExprA exG exCfg (.res "w") none sA0 exParamHead none false) =
      some ⟨[(0, 1), (2, 3)], [(0, 2)], [(0, 3)], 4, 0, [(7, 2)]⟩ ∧
    (flowHATop 0 [] [] exParamHead none).edges = [(1, 3), (0, 1)] := by
  decide +kernel

end Tfv.C08P
