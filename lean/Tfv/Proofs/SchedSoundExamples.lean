import Tfv.Proofs.SchedSoundRun
/-!
# C18 (soundness under every schedule): concrete runs for the non-vacuity examples

`σTwo` is the instance of the schema `x ** x [x << [A, B], x <= A]` (`schemaTwo`, language `langAB`): one
variable whose constraint set holds TWO pending constraints, so the schedules `priorityOrd [0, 1]` and
`priorityOrd [1, 0]` really walk them in different orders. The runs are evaluated by the kernel through the
structurally recursive form of the scheduled engine (`Tfv/Proofs/SchedKernel.lean`).
-/
namespace Tfv.C18S
open Tfv Tfv.C03P Tfv.C03C
open Tfv.C18P (langAB langABC schemaTwo schemaType argsType isOk errOf resultIs runS insOrd match3K occursK
  unifyP fixP applyTP instantiateP)

/-! ## 1. the kernel-evaluable forms -/

theorem unifyS_eq_K (L : Lang) (perm : List Nat) (n : Nat) (σ : Store) (a b : Term) (st sb sw : Bool) :
    unifyS L (priorityOrd perm) n σ a b st sb sw =
      unifyP L (insOrd perm) (match3K L) (occursK L) n σ a b st sb sw := by
  rw [← (Tfv.C18P.blockP L (priorityOrd perm) n).unify, Tfv.C18P.match3K_funext, Tfv.C18P.occursK_funext,
    Tfv.C18P.priorityOrd_funext]

theorem fixS_eq_K (L : Lang) (perm : List Nat) (n : Nat) (σ : Store) (t : Term) (pl : Bool) :
    fixS L (priorityOrd perm) n σ t pl = fixP L (insOrd perm) (match3K L) (occursK L) n σ t pl := by
  rw [← (Tfv.C18P.blockP L (priorityOrd perm) n).fix, Tfv.C18P.match3K_funext, Tfv.C18P.occursK_funext,
    Tfv.C18P.priorityOrd_funext]

theorem checkConstraintsS_eq_K (L : Lang) (perm : List Nat) (n : Nat) (σ : Store) (v : Nat) :
    checkConstraintsS L (priorityOrd perm) n σ v =
      Tfv.C18P.checkConstraintsP L (insOrd perm) (match3K L) (occursK L) n σ v := by
  rw [← (Tfv.C18P.blockP L (priorityOrd perm) n).checkConstraints, Tfv.C18P.match3K_funext,
    Tfv.C18P.occursK_funext, Tfv.C18P.priorityOrd_funext]

theorem ok_of_isOk {α : Type} {r : Except Err α} (h : isOk r = true) : ∃ x, r = .ok x := by
  cases r with
  | error e => cases h
  | ok x => exact ⟨x, rfl⟩

theorem ok_of_resultIs {r : Except Err (Store × Term)} {t : Term} (h : resultIs r t = true) :
    ∃ σ u, r = .ok (σ, u) := by
  cases r with
  | error e => cases h
  | ok p => exact ⟨p.1, p.2, rfl⟩

/-- the run succeeds and its store and result pass the test `p` -/
def okAnd {α : Type} (r : Except Err (Store × α)) (p : Store → α → Bool) : Bool :=
  match r with
  | .ok (σ, x) => p σ x
  | .error _ => false

theorem okAnd_elim {α : Type} {r : Except Err (Store × α)} {p : Store → α → Bool} (h : okAnd r p = true) :
    ∃ σ x, r = .ok (σ, x) ∧ p σ x = true := by
  cases r with
  | error e => cases h
  | ok q => exact ⟨q.1, q.2, rfl, h⟩

theorem isOk_applyAllS_single (L : Lang) (ord : List Nat → List Nat) (fuel : Nat) (ff : Bool) (σ : Store)
    (f x : Term) : isOk (applyAllS L ord fuel ff σ f [x]) = isOk (applyTS L ord fuel σ f x ff) := by
  simp only [applyAllS]
  cases applyTS L ord fuel σ f x ff with
  | error e => rfl
  | ok p => rfl

/-! ## 2. the languages and schemas -/

theorem langAB_wf : WF langAB := wf_of_wfLangB langAB (by decide)
theorem langABC_wf : WF langABC := wf_of_wfLangB langABC (by decide)

theorem schemaTwo_ok : (∀ c, c ∈ schemaTwo.constraints → okCAstN langAB (schemaTwo.nvars + schemaTwo.nwild) c = true) ∧
    okTermN langAB (schemaTwo.nvars + schemaTwo.nwild) schemaTwo.body = true := by
  refine ⟨?_, by decide⟩
  intro c hc
  simp only [schemaTwo, List.mem_cons, List.not_mem_nil, or_false] at hc
  rcases hc with rfl | rfl <;> decide

theorem schemaType_ok : (∀ c, c ∈ schemaType.constraints → okCAstN langABC (schemaType.nvars + schemaType.nwild) c = true) ∧
    okTermN langABC (schemaType.nvars + schemaType.nwild) schemaType.body = true := by
  refine ⟨?_, by decide⟩
  intro c hc
  simp only [schemaType, List.mem_cons, List.not_mem_nil, or_false] at hc
  rcases hc with rfl | rfl | rfl <;> decide

theorem argsType_ok : okTermL langABC {} argsType = true := by decide

/-! ## 3. a store with two pending constraints on one variable -/

/-- the instance of `x ** x [x << [A, B], x <= A]`: `x0` with the pending constraints 0 and 1 -/
def σTwo : Store :=
  { vars := [{}], csets := [[0, 1]],
    constrs := [.elim (.var 0) [.app 5 [], .app 6 []] false, .sub (.var 0) (.app 5 []) false false] }

/-- the same with the lower bound `A` on `x0` -/
def σTwoL : Store :=
  { vars := [{ lower := some 5 }], csets := [[0, 1]],
    constrs := [.elim (.var 0) [.app 5 [], .app 6 []] false, .sub (.var 0) (.app 5 []) false false] }

theorem σTwo_okc : OkStoreC langAB σTwo := okStoreCB_sound (by decide)
theorem σTwoL_okc : OkStoreC langAB σTwoL := okStoreCB_sound (by decide)
theorem σTwo_pending : getCset σTwo (getVar σTwo 0).cset = [0, 1] := rfl
theorem σTwoL_pending : getCset σTwoL (getVar σTwoL 0).cset = [0, 1] := rfl
theorem σTwo_fuelOk : FuelOk σTwo := Tfv.C17E.fuelOk_of_chainsB (by decide)
theorem σTwoL_fuelOk : FuelOk σTwoL := Tfv.C17E.fuelOk_of_chainsB (by decide)

/-- the two schedules order the two pending constraints differently -/
theorem two_orders : priorityOrd [0, 1] [0, 1] = [0, 1] ∧ priorityOrd [1, 0] [0, 1] = [1, 0] := by
  rw [Tfv.C18P.priorityOrd_eq_insOrd, Tfv.C18P.priorityOrd_eq_insOrd]
  decide

/-! ## 4. runs under the two orders -/

theorem exTwo_unify_01 : isOk (unifyS langAB (priorityOrd [0, 1]) 4000 σTwo (.app 5 []) (.var 0) true false false) = true := by
  rw [unifyS_eq_K]; decide +kernel
theorem exTwo_unify_10 : isOk (unifyS langAB (priorityOrd [1, 0]) 4000 σTwo (.app 5 []) (.var 0) true false false) = true := by
  rw [unifyS_eq_K]; decide +kernel

theorem exTwo_check_01 : isOk (checkConstraintsS langAB (priorityOrd [0, 1]) 4000 σTwoL 0) = true := by
  rw [checkConstraintsS_eq_K]; decide +kernel
theorem exTwo_check_10 : isOk (checkConstraintsS langAB (priorityOrd [1, 0]) 4000 σTwoL 0) = true := by
  rw [checkConstraintsS_eq_K]; decide +kernel

theorem exTwo_fix_01 : isOk (fixS langAB (priorityOrd [0, 1]) 4000 σTwoL (.var 0) true) = true := by
  rw [fixS_eq_K]; decide +kernel
theorem exTwo_fix_10 : isOk (fixS langAB (priorityOrd [1, 0]) 4000 σTwoL (.var 0) true) = true := by
  rw [fixS_eq_K]; decide +kernel

/-- instantiating the schema leaves both constraints pending on `x0`, under either order -/
theorem exTwo_inst_01 : okAnd (instantiateS langAB (priorityOrd [0, 1]) 4000 {} schemaTwo)
    (fun σ _ => decide (getCset σ (getVar σ 0).cset = [0, 1])) = true := by
  rw [Tfv.C18P.instantiateS_eq_K]; decide +kernel
theorem exTwo_inst_10 : okAnd (instantiateS langAB (priorityOrd [1, 0]) 4000 {} schemaTwo)
    (fun σ _ => decide (getCset σ (getVar σ 0).cset = [0, 1])) = true := by
  rw [Tfv.C18P.instantiateS_eq_K]; decide +kernel

theorem exTwo_apply_01 : isOk (applyTS langAB (priorityOrd [0, 1]) 4000 σTwo (.app 4 [.var 0, .var 0]) (.app 5 []) true) = true := by
  rw [Tfv.C18P.applyTS_eq_K]; decide +kernel
theorem exTwo_apply_10 : isOk (applyTS langAB (priorityOrd [1, 0]) 4000 σTwo (.app 4 [.var 0, .var 0]) (.app 5 []) true) = true := by
  rw [Tfv.C18P.applyTS_eq_K]; decide +kernel

theorem exTwo_chain_01 : isOk (applyAllS langAB (priorityOrd [0, 1]) 4000 true σTwo (.app 4 [.var 0, .var 0]) [.app 5 []]) = true := by
  rw [isOk_applyAllS_single]; exact exTwo_apply_01
theorem exTwo_chain_10 : isOk (applyAllS langAB (priorityOrd [1, 0]) 4000 true σTwo (.app 4 [.var 0, .var 0]) [.app 5 []]) = true := by
  rw [isOk_applyAllS_single]; exact exTwo_apply_10

/-- `x ** x [x << [A, B], x <= A]` applied to `A` is accepted under either order … -/
theorem exTwo_run_01 : isOk (runS langAB (priorityOrd [0, 1]) 4000 schemaTwo [.app 5 []]) = true := by
  rw [Tfv.C18P.runS_eq_runK]; decide +kernel
theorem exTwo_run_10 : isOk (runS langAB (priorityOrd [1, 0]) 4000 schemaTwo [.app 5 []]) = true := by
  rw [Tfv.C18P.runS_eq_runK]; decide +kernel

end Tfv.C18S
