import Tfv.Proofs.SchedSoundMain
import Tfv.Proofs.SchedSoundNoIntTop
import Tfv.Proofs.SchedRun
import Tfv.Proofs.History
/-!
# C18 (soundness under every schedule): whole runs

`useSchemaS` (instantiate a schema, apply the instance to the arguments in turn) and the run of the
differential harness `runS` (the same from the empty store): an accepted run is sound whatever the
schedule, and no schedule makes it fail with an internal error.
-/
namespace Tfv.C18S
open Tfv Tfv.C03P Tfv.C03C Tfv.C16P Tfv.C17E

variable {ord : List Nat → List Nat}

/-! ## 1. schedules -/

theorem ordSub_id : OrdSub (fun cs => cs) := fun _ _ h => h

theorem ordSub_of_perm (h : ∀ l, (ord l).Perm l) : OrdSub ord := fun l _ hx => (h l).mem_iff.mp hx

theorem ordSub_priorityOrd (perm : List Nat) : OrdSub (priorityOrd perm) :=
  ordSub_of_perm (fun l => Tfv.C18P.priorityOrd_perm perm l)

/-- a schedule may also drop pending constraints (re-examine only some of them) -/
theorem ordSub_filter (p : Nat → Bool) : OrdSub (fun cs => cs.filter p) :=
  fun _ _ h => (List.mem_filter.mp h).1

/-! ## 2. the use of a schema -/

theorem useSchemaS_sound {L : Lang} (wf : WF L) (hord : OrdSub ord) {n : Nat} {fixFlag : Bool}
    {σ σ' : Store} {s : Schema} {xs : List Term} {r : Term} (okc : OkStoreC L σ)
    (hcs : ∀ c, c ∈ s.constraints → okCAstN L (s.nvars + s.nwild) c = true)
    (hbody : okTermN L (s.nvars + s.nwild) s.body = true)
    (hxs : okTermL L σ xs = true)
    (h : useSchemaS L ord n fixFlag σ s xs = .ok (σ', r)) :
    OkStoreC L σ' ∧ σ.vars.length + s.nvars + s.nwild ≤ σ'.vars.length ∧
    (∀ t, okTerm L σ t = true → okTerm L σ' t = true) ∧ okTerm L σ' r = true ∧
    ∀ ρ, Sat L ρ σ' → Sat L ρ σ ∧
      Accepts L (den ρ (s.body.shift σ.vars.length)) (denL ρ xs) (den ρ r) := by
  unfold useSchemaS at h
  split at h
  · cases h
  · next σ1 f h1 =>
    obtain ⟨st, hlen, hf, hd⟩ := instantiate_soundCO wf hord okc hcs hbody h1
    obtain ⟨s2, hr, hs⟩ := applyAll_soundCO wf hord n fixFlag xs σ1 σ' f r st.ok hf
      (okTermL_mono st.len _ hxs) h
    refine ⟨s2.ok, Nat.le_trans hlen s2.len, fun t ht => s2.okTerm (okTerm_mono st.len t ht), hr,
      fun ρ hρ => ⟨st.sat ρ (s2.sat ρ hρ), ?_⟩⟩
    have := hs ρ hρ
    rw [hd ρ (s2.sat ρ hρ)] at this
    exact this

/-! ## 3. the run of the harness -/

theorem applyArgsG_eq_applyAllS (L : Lang) (ord : List Nat → List Nat) (fuel : Nat) :
    ∀ (args : List Term) (σ : Store) (f : Term),
      Tfv.C18P.applyArgsG (fun σ f x => applyTS L ord fuel σ f x) σ f args = applyAllS L ord fuel true σ f args
  | [], σ, f => by simp only [Tfv.C18P.applyArgsG, applyAllS]
  | a :: as, σ, f => by
    simp only [Tfv.C18P.applyArgsG, applyAllS]
    split
    · next e he => rw [he]
    · next σ1 r he =>
      rw [he]
      exact applyArgsG_eq_applyAllS L ord fuel as σ1 r

/-- the run of the harness is the use of the schema from the empty store (with `fix`) -/
theorem runS_eq_useSchemaS (L : Lang) (ord : List Nat → List Nat) (fuel : Nat) (s : Schema) (args : List Term) :
    Tfv.C18P.runS L ord fuel s args = useSchemaS L ord fuel true {} s args := by
  unfold Tfv.C18P.runS Tfv.C18P.runG useSchemaS
  split
  · next e he => rw [he]
  · next σ1 f he =>
    rw [he]
    exact applyArgsG_eq_applyAllS L ord fuel args σ1 f

theorem okStoreC_empty (L : Lang) : OkStoreC L {} := okStoreCB_sound (by rfl)

theorem runS_sound {L : Lang} (wf : WF L) (hord : OrdSub ord) {fuel : Nat} {s : Schema} {args : List Term}
    {σ' : Store} {r : Term}
    (hcs : ∀ c, c ∈ s.constraints → okCAstN L (s.nvars + s.nwild) c = true)
    (hbody : okTermN L (s.nvars + s.nwild) s.body = true)
    (hargs : okTermL L {} args = true)
    (h : Tfv.C18P.runS L ord fuel s args = .ok (σ', r)) :
    OkStoreC L σ' ∧ okTerm L σ' r = true ∧
    ∀ ρ, Sat L ρ σ' → Accepts L (den ρ s.body) (denL ρ args) (den ρ r) := by
  rw [runS_eq_useSchemaS] at h
  obtain ⟨h1, _, _, h4, h5⟩ := useSchemaS_sound wf hord (okStoreC_empty L) hcs hbody hargs h
  refine ⟨h1, h4, fun ρ hρ => ?_⟩
  have := (h5 ρ hρ).2
  have e : ({} : Store).vars.length = 0 := rfl
  rw [e, shift_zero] at this
  exact this

theorem runS_good (L : Lang) (ord : List Nat → List Nat) (fuel : Nat) (s : Schema) (args : List Term) :
    GoodTP (Tfv.C18P.runS L ord fuel s args) := by
  rw [runS_eq_useSchemaS]
  exact useSchema_goodO L ord fuel true s args chains_empty

/-- with a witness: the final store of an accepted run, if acyclic, has solutions, and each of them makes
every argument a subtype of its parameter -/
theorem runS_instantiation {L : Lang} (wf : WF L) (hord : OrdSub ord) {fuel : Nat} {s : Schema}
    {args : List Term} {σ' : Store} {r : Term}
    (hcs : ∀ c, c ∈ s.constraints → okCAstN L (s.nvars + s.nwild) c = true)
    (hbody : okTermN L (s.nvars + s.nwild) s.body = true)
    (hargs : okTermL L {} args = true)
    (h : Tfv.C18P.runS L ord fuel s args = .ok (σ', r)) (hac : Acyclic σ') (θ : Val) (hθ : Choice L θ σ') :
    ∃ ρ, Sat L ρ σ' ∧ (∀ v, (getVar σ' v).bound = none → ρ v = θ v) ∧
      Accepts L (den ρ s.body) (denL ρ args) (den ρ r) := by
  obtain ⟨ok', _, hs⟩ := runS_sound wf hord hcs hbody hargs h
  obtain ⟨ρ, hρ, hθ'⟩ := witness_exists ok'.ok hac θ hθ
  exact ⟨ρ, hρ, hθ', hs ρ hρ⟩

end Tfv.C18S
