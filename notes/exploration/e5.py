import sys
sys.path.insert(0,'/repo')
from transforge.type import *
from transforge.type import _
def tryit(label, fn):
    try:
        r=fn(); print(label,'=>',r)
    except Exception as e:
        print(label,'!!',type(e).__name__, e)
A=TypeOperator('A'); A1=TypeOperator('A1',supertype=A); B=TypeOperator('B'); C=TypeOperator('C')
F=TypeOperator('F',params=1); G=TypeOperator('G',params=2)
s=TypeSchema(lambda a: a ** Unit [a << {A, B}])
tryit('a**Unit[a<<{A,B}] C', lambda: s.apply(C))
tryit('a**Unit[a<<{A,B}] A1', lambda: s.apply(A1))
tryit('a**Unit[a<<{A,B}] F(A)', lambda: s.apply(F(A)))
s=TypeSchema(lambda a: a ** a [a << {A, B}])
tryit('a**a[a<<{A,B}] C', lambda: s.apply(C))
s=TypeSchema(lambda a,b: a ** F(b) [a << [F(b), G(b,_)]])
tryit('a**F(b)[a<<{F(b),G(b,_)}] C', lambda: s.apply(C))
tryit('.. F(C)', lambda: s.apply(F(C)))
tryit('.. G(C,A)', lambda: s.apply(G(C,A)))
tryit('.. F(F(C))', lambda: s.apply(F(F(C))))
s=TypeSchema(lambda a,b: a ** F(b) [a << [F(A), G(B,_)]])
tryit('a**F(b)[a<<{F(A),G(B,_)}] F(A1)', lambda: s.apply(F(A1)))
tryit('.. F(B)', lambda: s.apply(F(B)))
tryit('.. G(B,B)', lambda: s.apply(G(B,B)))
tryit('.. G(A,B)', lambda: s.apply(G(A,B)))
s=TypeSchema(lambda a: a ** Unit [a << [A]])
tryit('a**Unit[a<<[A]] C', lambda: s.apply(C))
tryit('a**Unit[a<<[A]] A1', lambda: s.apply(A1))
tryit('a**Unit[a<<[A]] Top', lambda: s.apply(Top))
tryit('a**Unit[a<<[A]] Bottom', lambda: s.apply(Bottom))
