import Tfv.Model
import Tfv.Generated
import Tfv.Spec.Notation
import Tfv.Proofs.Notation
/-!
# C13 — all surface notations of an expression are interchangeable

`f(x, y)`, `f x y`, `(f x) y`, redundant parentheses, any whitespace and `#`
comments denote the same expression; a number refers to the supplied input; `-`
is a fresh anonymous source.  Statements only; the proofs are in
`Tfv/Proofs/Notation.lean`, the abstract syntax (`Item`, `Spine`), its rendering
`toks` and its meaning `den`/`denote` in `Tfv/Spec/Notation.lean`.
Type annotations `e : T` are not covered here (see `C13Ann.lean`).
-/
namespace Tfv.C13
open Tfv Tfv.Notation

/-! ## the parser computes the fold the property describes -/

/-- The stack machine, started anywhere (any stack `k :: S`, any tokens `rest` behind, any previous token), consumes
the rendering of a spine and leaves exactly the spine's denotation from accumulator `k` on top of the untouched stack `S`.
Holds for every spine whose operator names are name tokens, including empty groups and empty sub-spines. -/
theorem C13_parse_spine (P : PLang) (opNames : List String) (inputs : List PExpr) (sp : Spine)
    (st : FreeState) (k : Option PExpr) (st' : FreeState) (k' : Option PExpr)
    (hn : namesOkS sp = true) (hd : den opNames inputs st k sp = .ok (st', k'))
    (n : Nat) (S : List (Option PExpr)) (p : String) (rest : List String) :
    parseExprLoop P (freeBuilder opNames) inputs false (n + (toks sp).length)
      { st := st, stack := k :: S, comment := false, prevTok := p } (toks sp ++ rest)
    = parseExprLoop P (freeBuilder opNames) inputs false n
      { st := st', stack := k' :: S, comment := false, prevTok := lastTok p (toks sp) } rest :=
  parse_items P opNames inputs sp st k st' k' hn hd n S p rest

/-- The same for a well-formed spine (declared operators, supplied inputs, nothing empty): the denotation exists,
is an expression `e`, and `some e` replaces the accumulator. -/
theorem C13_parse_spine_wf (P : PLang) (opNames : List String) (inputs : List PExpr) (sp : Spine)
    (hwf : WF opNames inputs.length sp) (st : FreeState) (k : Option PExpr) :
    ∃ st' e, den opNames inputs st k sp = .ok (st', some e) ∧
      ∀ (n : Nat) (S : List (Option PExpr)) (p : String) (rest : List String),
        parseExprLoop P (freeBuilder opNames) inputs false (n + (toks sp).length)
          { st := st, stack := k :: S, comment := false, prevTok := p } (toks sp ++ rest)
        = parseExprLoop P (freeBuilder opNames) inputs false n
          { st := st', stack := some e :: S, comment := false, prevTok := lastTok p (toks sp) } rest :=
  parse_spine_wf P opNames inputs sp hwf st k

/-- If the denotation is an error (undeclared operator, missing input), the parser stops with the same error,
whatever follows. -/
theorem C13_parse_spine_error (P : PLang) (opNames : List String) (inputs : List PExpr) (sp : Spine)
    (st : FreeState) (k : Option PExpr) (e : PErr)
    (hn : namesOkS sp = true) (hd : den opNames inputs st k sp = .error e)
    (n : Nat) (S : List (Option PExpr)) (p : String) (rest : List String) :
    parseExprLoop P (freeBuilder opNames) inputs false (n + (toks sp).length)
      { st := st, stack := k :: S, comment := false, prevTok := p } (toks sp ++ rest)
    = .error e :=
  parse_items_err P opNames inputs sp st k e hn hd n S p rest

/-- Parsing the rendering of an annotation-free spine gives its denotation — value, final builder state, or error
(`EmptyParse` when the spine has no content). Covers annotation-free renderings only. -/
theorem C13_parse_render (P : PLang) (opNames : List String) (inputs : List PExpr) (st0 : FreeState) (sp : Spine)
    (hn : namesOkS sp = true) :
    parseExprToks P (freeBuilder opNames) inputs st0 (toks sp) = denote opNames inputs st0 sp :=
  parseExprToks_toks P opNames inputs st0 sp hn

/-- A well-formed spine parses successfully. -/
theorem C13_parse_render_wf (P : PLang) (opNames : List String) (inputs : List PExpr) (sp : Spine)
    (hwf : WF opNames inputs.length sp) (st0 : FreeState) :
    ∃ st' e, parseExprToks P (freeBuilder opNames) inputs st0 (toks sp) = .ok (st', e) ∧
      den opNames inputs st0 none sp = .ok (st', some e) :=
  parse_render_wf P opNames inputs sp hwf st0

/-! ## interchangeable notations -/

/-- Redundant parentheses around an expression change nothing: `(e)` parses as `e`. -/
theorem C13_redundant_parens (P : PLang) (opNames : List String) (inputs : List PExpr) (sp : Spine)
    (hn : namesOkS sp = true) (st0 : FreeState) :
    parseExprToks P (freeBuilder opNames) inputs st0 (toks [.group [sp]])
    = parseExprToks P (freeBuilder opNames) inputs st0 (toks sp) :=
  parse_parens P opNames inputs sp hn st0

/-- Application associates to the left: `(i₁ … iⱼ) iⱼ₊₁ … iₙ` parses as `i₁ … iₙ`. -/
theorem C13_paren_prefix (P : PLang) (opNames : List String) (inputs : List PExpr) (sp : Spine) (j : Nat)
    (hn : namesOkS sp = true) (st0 : FreeState) :
    parseExprToks P (freeBuilder opNames) inputs st0 (toks (.group [sp.take j] :: sp.drop j))
    = parseExprToks P (freeBuilder opNames) inputs st0 (toks sp) :=
  parse_paren_prefix P opNames inputs sp j hn st0

/-- Call notation with atomic arguments: `f(a₁, …, aₙ)` parses as `f a₁ … aₙ`. -/
theorem C13_call_atoms (P : PLang) (opNames : List String) (inputs : List PExpr) (f : Item) (as : List Item)
    (ha : ∀ a ∈ as, isAtom a = true) (hn : namesOkS (f :: as) = true) (st0 : FreeState) :
    parseExprToks P (freeBuilder opNames) inputs st0 (toks [f, .group (as.map fun a => [a])])
    = parseExprToks P (freeBuilder opNames) inputs st0 (toks (f :: as)) :=
  parse_call_atoms P opNames inputs f as ha hn st0

/-- Every rendering style of an application tree — `f x (g y)`, `(f x) (g y)`, `((f)(x))((g)(y))`, `f(x, g(y))` —
parses to the expression the tree stands for (or to its error). -/
theorem C13_render_tree (P : PLang) (opNames : List String) (inputs : List PExpr) (s : Style) (t : Tree)
    (ht : namesOkT t = true) (st0 : FreeState) :
    parseExprToks P (freeBuilder opNames) inputs st0 (toks (render s t)) = evalTree opNames inputs st0 t :=
  parse_render_tree P opNames inputs s t ht st0

/-- Hence any two styles are interchangeable. -/
theorem C13_call_eq_juxtaposition (P : PLang) (opNames : List String) (inputs : List PExpr) (s₁ s₂ : Style) (t : Tree)
    (ht : namesOkT t = true) (st0 : FreeState) :
    parseExprToks P (freeBuilder opNames) inputs st0 (toks (render s₁ t))
    = parseExprToks P (freeBuilder opNames) inputs st0 (toks (render s₂ t)) :=
  (parse_render_tree P opNames inputs s₁ t ht st0).trans (parse_render_tree P opNames inputs s₂ t ht st0).symm

/-! ## inputs and sources -/

/-- A number denotes the supplied input of that number, wherever it occurs and whatever the builder state,
which it leaves unchanged. -/
theorem C13_inputs (P : PLang) (opNames : List String) (inputs : List PExpr) (i : Nat)
    (h1 : 1 ≤ i) (h2 : i ≤ inputs.length) (st0 : FreeState) :
    ∃ e, inputs[i - 1]? = some e ∧
      parseExprToks P (freeBuilder opNames) inputs st0 [toString i] = .ok (st0, e) ∧
      ∀ st k, denItem opNames inputs st k (.input i) = .ok (st, some (papp k e)) :=
  parse_input P opNames inputs i h1 h2 st0

/-- `-` alone is a source numbered by the counter, which it increments. -/
theorem C13_source (P : PLang) (opNames : List String) (inputs : List PExpr) (st0 : FreeState) :
    parseExprToks P (freeBuilder opNames) inputs st0 ["-"]
    = .ok ({ st0 with nsrc := st0.nsrc + 1 }, .src st0.nsrc) :=
  parse_src P opNames inputs st0

/-- Sources are numbered from left to right: after a prefix `sp₁` containing `c` tokens `-` (at any depth) the next `-`
becomes source number `nsrc + c` — never a number used before. -/
theorem C13_source_fresh (opNames : List String) (inputs : List PExpr) (sp₁ sp₂ : Spine)
    (st st₁ : FreeState) (k k₁ : Option PExpr) (h1 : den opNames inputs st k sp₁ = .ok (st₁, k₁)) :
    st₁.nsrc = st.nsrc + countSrcS sp₁ ∧
    den opNames inputs st k (sp₁ ++ .src :: sp₂) =
      den opNames inputs { st₁ with nsrc := st₁.nsrc + 1 }
        (some (papp k₁ (.src (st.nsrc + countSrcS sp₁)))) sp₂ :=
  ⟨(nsrc_items opNames inputs sp₁ st k st₁ k₁ h1).1, den_src_after opNames inputs sp₁ sp₂ st st₁ k k₁ h1⟩

/-! ## white space and comments -/

/-- The tokenizer returns the tokens of any layout: blanks before the first token and after every token, where only
two adjacent ordinary tokens need a blank between them. -/
theorem C13_tokens (specials blanks : String) (lead : List Char) (items : List (String × List Char))
    (hlead : ∀ c ∈ lead, c ∈ blanks.toList) (h : LayoutOk specials.toList blanks.toList items) :
    tokenize specials blanks (layout lead items) = items.map Prod.fst :=
  tokenize_layout specials blanks lead items hlead h

/-- In the expression parser (any builder), the tokens from `#` to the end of the line are ignored: the loop
continues in exactly the state it was in — builder state, stack and "previous token" (comment and layout tokens do
not count as the previous token). -/
theorem C13_comments {S E : Type} (P : PLang) (B : Builder S E) (inputs : List E) (defaults : Bool)
    (junk : List String) (hj : "\n" ∉ junk) (n : Nat) (s : EState S E) (hc : s.comment = false)
    (rest : List String) :
    parseExprLoop P B inputs defaults (n + junk.length + 2) s ("#" :: junk ++ "\n" :: rest)
    = parseExprLoop P B inputs defaults n s rest :=
  comment_skip P B inputs defaults junk hj n s hc rest

/-- Comments and line breaks anywhere (any builder): a token list without type annotations parses like the list
with every comment (`#` up to the line break) and every line break removed. (`C13a_trivia_ann` in `C13Ann.lean`
removes the side condition.) -/
theorem C13_trivia {S E : Type} (P : PLang) (B : Builder S E) (inputs : List E) (st0 : S) (ts : List String)
    (hcol : ":" ∉ stripTrivia false ts) :
    parseExprToks P B inputs st0 ts = parseExprToks P B inputs st0 (stripTrivia false ts) :=
  parseExprToks_strip P B inputs st0 ts hcol

/-- Hence any token list that is the rendering of a spine up to comments and line breaks parses to the spine's
denotation. -/
theorem C13_trivia_render (P : PLang) (opNames : List String) (inputs : List PExpr) (st0 : FreeState)
    (ts : List String) (sp : Spine) (hn : namesOkS sp = true) (hts : stripTrivia false ts = toks sp) :
    parseExprToks P (freeBuilder opNames) inputs st0 ts = denote opNames inputs st0 sp :=
  parse_trivia P opNames inputs st0 ts sp hn hts

/-- From text to expression: any layout of the rendering of a spine parses to the spine's denotation. -/
theorem C13_text (P : PLang) (opNames : List String) (inputs : List PExpr) (specials blanks : String)
    (lead : List Char) (items : List (String × List Char))
    (hlead : ∀ c ∈ lead, c ∈ blanks.toList) (h : LayoutOk specials.toList blanks.toList items)
    (sp : Spine) (hn : namesOkS sp = true) (htoks : items.map Prod.fst = toks sp) (st0 : FreeState) :
    parseExprToks P (freeBuilder opNames) inputs st0 (tokenize specials blanks (layout lead items))
    = denote opNames inputs st0 sp :=
  parse_text P opNames inputs specials blanks lead items hlead h sp hn htoks st0

/-- … and with comments and line breaks among the tokens: any layout of any token list that is the rendering of a
spine up to comments and line breaks parses to the spine's denotation. -/
theorem C13_text_trivia (P : PLang) (opNames : List String) (inputs : List PExpr) (specials blanks : String)
    (lead : List Char) (items : List (String × List Char))
    (hlead : ∀ c ∈ lead, c ∈ blanks.toList) (h : LayoutOk specials.toList blanks.toList items)
    (sp : Spine) (hn : namesOkS sp = true) (htoks : stripTrivia false (items.map Prod.fst) = toks sp)
    (st0 : FreeState) :
    parseExprToks P (freeBuilder opNames) inputs st0 (tokenize specials blanks (layout lead items))
    = denote opNames inputs st0 sp :=
  parse_text_trivia P opNames inputs specials blanks lead items hlead h sp hn htoks st0

/-! ## non-vacuity -/

def exOps : List String := ["f", "g", "x"]
def exInputs : List PExpr := [.input 1, .input 2]
/-- `f ( g 2 , - ) x` -/
def exSpine : Spine := [.op "f", .group [[.op "g", .input 2], [.src]], .op "x"]

example : WF exOps exInputs.length exSpine := by decide
example : toks exSpine = ["f", "(", "g", "2", ",", "-", ")", "x"] := by decide
example : denote exOps exInputs {} exSpine
    = .ok ({ nsrc := 1 }, .app (.app (.app (.op "f") (.app (.op "g") (.input 2))) (.src 0)) (.op "x")) := by rfl
example : parseExprToks {types := []} (freeBuilder exOps) exInputs {} ["f", "(", "g", "2", ",", "-", ")", "x"]
    = .ok ({ nsrc := 1 }, .app (.app (.app (.op "f") (.app (.op "g") (.input 2))) (.src 0)) (.op "x")) := by rfl

/-- `f x (g 1 -)` -/
def exTree : Tree := .app (.app (.op "f") (.op "x")) (.app (.app (.op "g") (.input 1)) .src)
example : namesOkT exTree = true := by decide
example : toks (render .juxta exTree) = ["f", "x", "(", "g", "1", "-", ")"] := by decide
example : toks (render .binary exTree) = ["(", "f", "x", ")", "(", "(", "g", "1", ")", "-", ")"] := by decide
example : toks (render .call exTree) = ["f", "(", "x", ",", "g", "(", "1", ",", "-", ")", ")"] := by decide
example : toks (render .paren exTree)
    = ["(", "(", "f", ")", "(", "x", ")", ")", "(", "(", "(", "g", ")", "(", "1", ")", ")", "(", "-", ")", ")"] := by decide
example : evalTree exOps exInputs {} exTree
    = .ok ({ nsrc := 1 }, .app (.app (.op "f") (.op "x")) (.app (.app (.op "g") (.input 1)) (.src 0))) := by rfl

/-- an undeclared operator and a missing input are errors of the denotation too -/
example : denote exOps exInputs {} [.op "f", .op "h"] = .error (.undefinedToken "h") := by rfl
example : denote exOps exInputs {} [.op "f", .input 3] = .error (.missingInput 3) := by rfl
example : denote exOps exInputs {} [.group [[]]] = .error .emptyParse := by rfl

/-- a layout of `f ( g 2 , - ) x` with irregular blanks: `  f(g \t2,- )x ` -/
def exLayout : List (String × List Char) :=
  [("f", []), ("(", []), ("g", [' ', '\t']), ("2", []), (",", []), ("-", [' ']), (")", []), ("x", [' '])]
example : LayoutOk Generated.exprSpecials.toList Generated.blanks.toList exLayout := by
  simp [LayoutOk, exLayout, IsToken, IsWord, Generated.exprSpecials, Generated.blanks]
example : layout [' ', ' '] exLayout = "  f(g \t2,- )x " := by decide
example : exLayout.map Prod.fst = toks exSpine := by decide

/-- the same with a comment and line breaks: `f(g 2, # c (` ⏎ `- )` ⏎ `x` -/
def exLayout2 : List (String × List Char) :=
  [("f", []), ("(", []), ("g", [' ']), ("2", []), (",", [' ']), ("#", [' ']), ("c", [' ']), ("(", []), ("\n", []),
   ("-", [' ']), (")", []), ("\n", []), ("x", [])]
example : LayoutOk Generated.exprSpecials.toList Generated.blanks.toList exLayout2 := by
  simp [LayoutOk, exLayout2, IsToken, IsWord, Generated.exprSpecials, Generated.blanks]
example : layout [] exLayout2 = "f(g 2, # c (\n- )\nx" := by decide
example : stripTrivia false (exLayout2.map Prod.fst) = toks exSpine := by decide

/-- a comment: `f # anything ( \n x` is `f x` -/
example : stripTrivia false ["f", "#", "anything", "(", ":", "\n", "\n", "x", "#", "end"] = ["f", "x"] := by decide
example : parseExprToks {types := []} (freeBuilder exOps) exInputs {} ["f", "#", "anything", "(", "\n", "x"]
    = .ok ({}, .app (.op "f") (.op "x")) := by rfl

/-! ## behaviours of the model worth knowing (all covered by the theorems above or outside their scope) -/

/-- empty groups and empty sub-spines are skipped: `f ()` is `f`, `f(,x)` and `f(x,)` are `f x` -/
example : parseExprToks {types := []} (freeBuilder exOps) exInputs {} ["f", "(", ")"] = .ok ({}, .op "f") := by rfl
example : parseExprToks {types := []} (freeBuilder exOps) exInputs {} ["f", "(", ",", "x", ")"]
    = .ok ({}, .app (.op "f") (.op "x")) := by rfl
example : parseExprToks {types := []} (freeBuilder exOps) exInputs {} ["f", "(", "x", ",", ")"]
    = .ok ({}, .app (.op "f") (.op "x")) := by rfl
/-- a leading comma outside any parenthesis is accepted: `, f` is `f` (a trailing one is a bracket mismatch) -/
example : parseExprToks {types := []} (freeBuilder exOps) exInputs {} [",", "f"] = .ok ({}, .op "f") := by rfl
example : parseExprToks {types := []} (freeBuilder exOps) exInputs {} ["f", ","] = .error .bracketMismatch := by rfl
/-- `0` is the last input (Python's index -1); leading zeros and non-ASCII decimal digits are numbers too -/
example : parseExprToks {types := []} (freeBuilder exOps) exInputs {} ["0"] = .ok ({}, .input 2) := by rfl
example : parseExprToks {types := []} (freeBuilder exOps) exInputs {} ["0002"] = .ok ({}, .input 2) := by rfl
example : parseExprToks {types := []} (freeBuilder exOps) exInputs {} ["٢"] = .ok ({}, .input 2) := by rfl
/-- `;` discards everything before it, open parentheses included -/
example : parseExprToks {types := []} (freeBuilder exOps) exInputs {} ["f", "(", "x", ";", "g"] = .ok ({}, .op "g") := by rfl
/-- `-` is not a special character of the tokenizer: `-x` is one (undeclared) name -/
example : tokenize Generated.exprSpecials Generated.blanks "f -x - (-)" = ["f", "-x", "-", "(", "-", ")"] := by decide

end Tfv.C13
