import Tfv.Proofs.SchedDisjointExamples
/-!
# C18 — a new order-independent fragment: constraints over disjoint variables

`Tfv/Props/C18.lean` shows that the outcome of inference depends on the order in which pending constraints are
re-checked, and proves order-independence when the whole store carries at most ONE constraint
(`C18_single_constraint`). Here that is generalised from "the store has one constraint" to "no variable ever
carries two pending constraints": the store may hold any number of constraints as long as they live in separate
*regions*.

The pending list a scheduled `check_constraints` hands to the schedule is the constraint set of ONE variable. A
*region* (Spec/HistoryConstr.lean) is a set of variables, constraint-set objects and constraints closed under
bindings and under the constraints attached to its variables.

1. **Engine level** (`C18_one_constraint_region`, `…_unify`, `…_fix`, `…_check`): on arguments over a closed region all
   of whose constraint sets hold copies of ONE constraint, each of the twelve functions of the scheduled engine is the
   model's function, under every schedule that leaves constant lists alone (`OrdConst`: every schedule that only
   rearranges its argument, every `priorityOrd perm`); the call stays inside the region and keeps the invariant.
2. **Partitioned stores** (`Col σ`, `C18_colored_*`): a store partitioned ("coloured") into such regions stays
   partitioned under every engine call that works inside one region; unification with a CONCRETE type, `fix` and
   `Type.apply` to a concrete argument work region by region even on types that mention variables of several regions.
3. **Checkable on the schema** (`C18_disjoint_run`, `C18_disjoint_order_independent`): if the constraints of a schema
   are pairwise variable-disjoint — alternatives included; decidable: `disjointSchemaB s`, or `disjointByB sc s` for
   any colouring `sc` of the schema variables — then instantiating it in the empty store and applying the instance to
   CONCRETE argument types gives the model's run under every such schedule: the run never merges the constraint
   sets of two constraints. No condition on the parameter types is needed (a variable may occur in several
   parameters): a concrete argument never identifies two variables.
4. **The condition on the arguments cannot be dropped** (`C18_disjoint_needs_concrete_arguments`): applied to a
   non-concrete argument that identifies variables of two constraints, a disjoint schema gives different errors under
   the two orders. **Nor can disjointness** (`C18_disjoint_needs_disjoint_variables`).
5. **Finding** (`C18_fulfilled_members_not_exact`): with fulfilled constraints lingering beside one pending constraint in
   the same set, the two orders give stores that differ (in an abandoned constraint set); so "at most one UNFULFILLED
   constraint per set" cannot give equality of stores, only the fragment "one constraint per set" does.
Statements only; proofs in `Tfv/Proofs/SchedDisjoint*.lean` (namespace `Tfv.C18D`).
-/
namespace Tfv.C18
open Tfv Tfv.C03P Tfv.C16P Tfv.C03C Tfv.C18P Tfv.C16C Tfv.C18S Tfv.C18D

/-! ## 0. the schedules covered -/

/-- Every schedule that only rearranges the list it is given leaves a list of copies of one constraint alone. -/
theorem C18_perm_ordConst {ord : List Nat → List Nat} (h : ∀ l, (ord l).Perm l) : OrdConst ord :=
  ordConst_of_perm h

/-- In particular every priority schedule of the harness. -/
theorem C18_priority_ordConst (perm : List Nat) : OrdConst (priorityOrd perm) := ordConst_priorityOrd perm

example : OrdConst (priorityOrd [1, 0]) ∧ priorityOrd [1, 0] [0, 1] = [1, 0] :=
  ⟨ordConst_priorityOrd _, by rw [priorityOrd_eq_insOrd]; decide⟩

/-! ## 1. the engine inside a region that holds one constraint -/

/-- THE BLOCK THEOREM. Let `R` be a closed region of the store all of whose constraint sets hold (copies of) the one
constraint `c0` (`OnlyC c0 R σ`; the store may carry any other constraints outside `R`). Under a schedule that leaves
constant lists alone each of the twelve functions of the scheduled engine, run on arguments over `R`, returns exactly
what the model returns; a successful call changes nothing outside `R`, leaves `R` closed and keeps `OnlyC c0 R`
(`BlockOne` lists the twelve statements, `GoodE` is this conclusion). -/
theorem C18_one_constraint_region {L : Lang} {ord : List Nat → List Nat} (hord : OrdConst ord) (c0 n : Nat) :
    BlockOne L ord c0 n := blockOne hord c0 n

/-- The instance for `unify`, any flags. -/
theorem C18_one_constraint_region_unify {L : Lang} {ord : List Nat → List Nat} (hord : OrdConst ord) (c0 n : Nat)
    (R : Region) (σ : Store) (a b : Term) (st sb sw : Bool) (hc : ClosedC σ R) (ho : OnlyC c0 R σ)
    (ha : TermInR σ R.S a) (hb : TermInR σ R.S b) :
    unifyS L ord n σ a b st sb sw = unify L n σ a b st sb sw ∧
      ∀ σ', unify L n σ a b st sb sw = .ok σ' → FrC R σ σ' ∧ OnlyC c0 R σ' :=
  (blockOne hord c0 n).unify R σ a b st sb sw hc ho ha hb

/-- non-vacuity: in the store `σCC` (two variables, each with its own pending constraint) the region reachable from
`B` and `x0` is closed and holds the constraint `0` only, while the store carries the constraint `1` as well -/
example : ClosedC σCC (rootsRegion σCC (fun t => t = .app 6 [] ∨ t = .var 0)) ∧
    OnlyC 0 (rootsRegion σCC (fun t => t = .app 6 [] ∨ t = .var 0)) σCC ∧
    TermInR σCC (rootsRegion σCC (fun t => t = .app 6 [] ∨ t = .var 0)).S (.var 0) ∧
    getCset σCC 1 = [1] :=
  ⟨closedC_roots σCC_okc _,
   onlyC_roots σCC_kAlloc (by
     rintro t c (rfl | rfl) hr
     · exact σCC_one_reachable c (Or.inl hr)
     · exact σCC_one_reachable c (Or.inr hr)),
   termInR_root (L := exL) (Or.inr rfl) (by decide), rfl⟩

/-- In terms of reachability (generalises `C18_single_constraint`): on a store satisfying `OkStoreC` whose variables
point to allocated constraint sets, if at most ONE constraint `c0` is reachable from the two types (through bindings and
through the constraints attached to reachable variables), `unify` under any schedule that leaves constant lists alone
is the model's `unify` — however many other constraints are pending elsewhere in the store. -/
theorem C18_one_reachable_unify {L : Lang} {ord : List Nat → List Nat} (hord : OrdConst ord) {σ : Store}
    (okc : OkStoreC L σ) (hk : KAlloc σ) {a b : Term} (ha : okTerm L σ a = true) (hb : okTerm L σ b = true)
    {c0 : Nat} (h : ∀ c, ReachConstr σ a c ∨ ReachConstr σ b c → c = c0) (n : Nat) (st sb sw : Bool) :
    unifyS L ord n σ a b st sb sw = unify L n σ a b st sb sw :=
  unifyS_one hord okc hk ha hb h n st sb sw

/-- non-vacuity: `B ≤ x0` in `σCC`; the constraint `x1 ≤ A` of the other variable is pending but not reachable -/
example : OkStoreC exL σCC ∧ KAlloc σCC ∧ okTerm exL σCC (.app 6 []) = true ∧ okTerm exL σCC (.var 0) = true ∧
    (∀ c, ReachConstr σCC (.app 6 []) c ∨ ReachConstr σCC (.var 0) c → c = 0) ∧
    σCC.constrs.length = 2 ∧ unify exL 11 σCC (.app 6 []) (.var 0) true false false = .ok σCC1 :=
  ⟨σCC_okc, σCC_kAlloc, by decide, by decide, σCC_one_reachable, rfl, exCC_unify⟩

/-- The same for `fix`. -/
theorem C18_one_reachable_fix {L : Lang} {ord : List Nat → List Nat} (hord : OrdConst ord) {σ : Store}
    (okc : OkStoreC L σ) (hk : KAlloc σ) {t : Term} (ht : okTerm L σ t = true) {c0 : Nat}
    (h : ∀ c, ReachConstr σ t c → c = c0) (n : Nat) (pl : Bool) :
    fixS L ord n σ t pl = fix L n σ t pl := fixS_one hord okc hk ht h n pl

example : OkStoreC exL σCC ∧ KAlloc σCC ∧ okTerm exL σCC (.var 0) = true ∧
    (∀ c, ReachConstr σCC (.var 0) c → c = 0) :=
  ⟨σCC_okc, σCC_kAlloc, by decide, fun c h => σCC_one_reachable c (Or.inr h)⟩

/-- The same for re-checking the constraints of a variable (`check_constraints`, the only function that consults the
schedule). -/
theorem C18_one_reachable_check {L : Lang} {ord : List Nat → List Nat} (hord : OrdConst ord) {σ : Store}
    (okc : OkStoreC L σ) (hk : KAlloc σ) {v : Nat} (hv : v < σ.vars.length) {c0 : Nat}
    (h : ∀ c, ReachConstr σ (.var v) c → c = c0) (n : Nat) :
    checkConstraintsS L ord n σ v = checkConstraints L n σ v := checkConstraintsS_one hord okc hk hv h n

example : OkStoreC exL σCC ∧ KAlloc σCC ∧ 0 < σCC.vars.length ∧ (∀ c, ReachConstr σCC (.var 0) c → c = 0) :=
  ⟨σCC_okc, σCC_kAlloc, by decide, fun c h => σCC_one_reachable c (Or.inr h)⟩

/-! ## 2. stores partitioned into one-constraint regions -/

/-- An engine call that stays inside the region of ONE colour keeps the store partitioned: what it allocated gets that
colour, every other colour is exactly as before. (`Colored κ σ`: for every colour `i` the variables, constraint sets
and constraints of colour `i`, with everything not yet allocated, form a closed region whose constraint sets hold one
constraint only; every allocated variable points to an allocated constraint set.) -/
theorem C18_colored_step {κ : Coloring} {σ σ' : Store} {i c0 : Nat} (h : Colored κ σ)
    (f : FrC (regOf κ σ i) σ σ') (o : OnlyC c0 (regOf κ σ i) σ') : Colored (κ.extend σ i) σ' :=
  colored_step h f o

/-- the freshly allocated variables of a schema, coloured in any way, are a partitioned store -/
example : Colored ⟨fun v => v % 2, fun v => v % 2, fun _ => 0⟩ (allocVars {} 4 0) :=
  colored_fresh (freshS_allocVars freshS_empty 4 0) _ _

/-- Unifying a type over a partitioned store with a CONCRETE type (either side, any flags): the schedule does not
matter, and the store stays partitioned. The type may mention variables of several regions. -/
theorem C18_colored_unify_concrete {L : Lang} {ord : List Nat → List Nat} (hord : OrdConst ord) (n : Nat) {σ : Store}
    (hcol : Col σ) {a b : Term} (ha : AllocT σ a) (hb : AllocT σ b) (hcl : a.closed = true ∨ b.closed = true)
    (st sb sw : Bool) :
    unifyS L ord n σ a b st sb sw = unify L n σ a b st sb sw ∧
      ∀ σ', unify L n σ a b st sb sw = .ok σ' → Col σ' ∧ σ.vars.length ≤ σ'.vars.length :=
  (blockCol hord n).unify σ a b st sb sw hcol ha hb hcl

/-- `fix` on a partitioned store. -/
theorem C18_colored_fix {L : Lang} {ord : List Nat → List Nat} (hord : OrdConst ord) (n : Nat) {σ : Store}
    (hcol : Col σ) {t : Term} (ht : AllocT σ t) (pl : Bool) :
    fixS L ord n σ t pl = fix L n σ t pl ∧
      ∀ σ' t', fix L n σ t pl = .ok (σ', t') → Col σ' ∧ σ.vars.length ≤ σ'.vars.length ∧ AllocT σ' t' :=
  (blockCol hord n).fix σ t pl hcol ht

/-- `Type.apply` of a type over a partitioned store to a CONCRETE argument type. -/
theorem C18_colored_apply {L : Lang} {ord : List Nat → List Nat} (hord : OrdConst ord) (fuel : Nat) {σ : Store}
    (hcol : Col σ) {f x : Term} (hf : AllocT σ f) (hx : x.closed = true) (fixFlag : Bool) :
    applyTS L ord fuel σ f x fixFlag = applyT L fuel σ f x fixFlag ∧
      ∀ σ' r, applyT L fuel σ f x fixFlag = .ok (σ', r) →
        Col σ' ∧ σ.vars.length ≤ σ'.vars.length ∧ AllocT σ' r :=
  applyTS_col hord fuel σ f x fixFlag hcol hf hx

/-- non-vacuity of `Col`: the instance of `x ** y ** G(x, y) [x << [A, F(w)], y << [B, F(u)]]` — a store with TWO pending
constraints — is partitioned, and the instance is a type over it -/
example : ∃ σ f, instantiateS langAB (priorityOrd [1, 0]) 4000 {} schemaDisj = .ok (σ, f) ∧ Col σ ∧ AllocT σ f := by
  have g := instantiateS_col (L := langAB) (ordConst_priorityOrd [1, 0]) 4000 schemaDisj _ schemaDisj_disjoint
  have hok := exDisj_inst_ok
  rw [g.1] at hok ⊢
  cases e : instantiate langAB 4000 {} schemaDisj with
  | error err => rw [e] at hok; cases hok
  | ok p => exact ⟨p.1, p.2, rfl, (g.2 p.1 p.2 e).1, (g.2 p.1 p.2 e).2.2⟩

/-! ## 3. checkable on the schema -/

/-- Instantiating, in the empty store, a schema whose constraints are pairwise variable-disjoint (`disjointByB sc s`: the
`i`-th constraint, alternatives included, mentions variables of colour `i` only): the schedule does not matter, the
resulting store is partitioned — the `i`-th constraint is alone in the region of colour `i`. -/
theorem C18_disjoint_instantiate {L : Lang} {ord : List Nat → List Nat} (hord : OrdConst ord) (fuel : Nat)
    (s : Schema) (sc : Nat → Nat) (hs : disjointByB sc s = true) :
    instantiateS L ord fuel {} s = instantiate L fuel {} s ∧
      ∀ σ' f, instantiate L fuel {} s = .ok (σ', f) → Col σ' ∧ AllocT σ' f := by
  have g := instantiateS_col (L := L) hord fuel s sc hs
  exact ⟨g.1, fun σ' f e => ⟨(g.2 σ' f e).1, (g.2 σ' f e).2.2⟩⟩

example : disjointByB (fun v => v % 2) schemaDisj = true ∧ schemaDisj.constraints.length = 2 :=
  ⟨schemaDisj_by_parity, rfl⟩

/-- THE RUN THEOREM. A schema whose constraints are pairwise variable-disjoint, instantiated in the empty store and
applied to CONCRETE argument types in turn, gives the run of the model under every schedule that leaves constant lists
alone: outcome, resulting type and store. The run never merges the constraint sets of two constraints. -/
theorem C18_disjoint_run {L : Lang} {ord : List Nat → List Nat} (hord : OrdConst ord) (fuel : Nat) (s : Schema)
    (sc : Nat → Nat) (hs : disjointByB sc s = true) (args : List Term) (hargs : Term.closedL args = true) :
    runS L ord fuel s args = run L fuel s args := runS_disjoint hord fuel s sc hs args hargs

example : OrdConst (priorityOrd [1, 0]) ∧ disjointByB (fun v => v % 2) schemaDisj = true ∧
    Term.closedL [.app 7 [.app 5 []], .app 7 [.app 6 []]] = true :=
  ⟨ordConst_priorityOrd _, schemaDisj_by_parity, by decide⟩

/-- With the canonical colouring (a variable gets the number of the first constraint that mentions it): the decidable
check `disjointSchemaB s`. -/
theorem C18_disjoint_run_checked {L : Lang} {ord : List Nat → List Nat} (hord : OrdConst ord) (fuel : Nat)
    (s : Schema) (hs : disjointSchemaB s = true) (args : List Term) (hargs : Term.closedL args = true) :
    runS L ord fuel s args = run L fuel s args := runS_disjoint hord fuel s _ hs args hargs

example : disjointSchemaB schemaDisj = true := schemaDisj_disjoint

/-- ORDER INDEPENDENCE on the fragment: any two schedules that only rearrange the pending constraints give the same
run (compare `C18_general_false`). -/
theorem C18_disjoint_order_independent {L : Lang} {ord₁ ord₂ : List Nat → List Nat}
    (h₁ : ∀ l, (ord₁ l).Perm l) (h₂ : ∀ l, (ord₂ l).Perm l) (fuel : Nat) (s : Schema)
    (hs : disjointSchemaB s = true) (args : List Term) (hargs : Term.closedL args = true) :
    runS L ord₁ fuel s args = runS L ord₂ fuel s args :=
  (runS_disjoint (ordConst_of_perm h₁) fuel s _ hs args hargs).trans
    (runS_disjoint (ordConst_of_perm h₂) fuel s _ hs args hargs).symm

example : (∀ l, (priorityOrd [0, 1] l).Perm l) ∧ (∀ l, (priorityOrd [1, 0] l).Perm l) :=
  ⟨priorityOrd_perm _, priorityOrd_perm _⟩

/-- … in particular any two priority orders of the harness. -/
theorem C18_disjoint_priority (L : Lang) (perm₁ perm₂ : List Nat) (fuel : Nat) (s : Schema)
    (hs : disjointSchemaB s = true) (args : List Term) (hargs : Term.closedL args = true) :
    runS L (priorityOrd perm₁) fuel s args = runS L (priorityOrd perm₂) fuel s args :=
  C18_disjoint_order_independent (priorityOrd_perm _) (priorityOrd_perm _) fuel s hs args hargs

/-- such runs do real work (kernel-checked): `x ** y ** G(x, y) [x << [A, F(w)], y << [B, F(u)]]` applied to `F(A)`, `F(B)`
gives `G(F(A), F(B))` under both orders; applied to `F(A)`, `A` it violates the second constraint under both orders -/
example :
    resultIs (runS langAB (priorityOrd [0, 1]) 4000 schemaDisj [.app 7 [.app 5 []], .app 7 [.app 6 []]])
      (.app 8 [.app 7 [.app 5 []], .app 7 [.app 6 []]]) = true ∧
    resultIs (runS langAB (priorityOrd [1, 0]) 4000 schemaDisj [.app 7 [.app 5 []], .app 7 [.app 6 []]])
      (.app 8 [.app 7 [.app 5 []], .app 7 [.app 6 []]]) = true ∧
    errOf (runS langAB (priorityOrd [0, 1]) 4000 schemaDisj [.app 7 [.app 5 []], .app 5 []])
      = some .constraintViolation ∧
    errOf (runS langAB (priorityOrd [1, 0]) 4000 schemaDisj [.app 7 [.app 5 []], .app 5 []])
      = some .constraintViolation :=
  ⟨exDisj_ok_01, exDisj_ok_10, exDisj_err_01, exDisj_err_10⟩

/-! ## 4. just outside the fragment -/

/-- THE ARGUMENTS MUST BE CONCRETE. `x ** y ** y [x << [A, B], y <= A]` passes the check (two constraints over the disjoint
variables `x`, `y`), but applied to the NON-concrete argument `y` (its own second variable) the first application binds
`y := x` and merges the two constraint sets; the second argument `F(B)` then violates both constraints, and which error is
reported depends on the order. With the concrete arguments `B`, `F(B)` both orders report the same error. -/
theorem C18_disjoint_needs_concrete_arguments :
    disjointSchemaB schemaId = true ∧ Term.closedL [.var 1, .app 7 [.app 6 []]] = false ∧
    errOf (runS langAB (priorityOrd [0, 1]) 4000 schemaId [.var 1, .app 7 [.app 6 []]])
      = some .constraintViolation ∧
    errOf (runS langAB (priorityOrd [1, 0]) 4000 schemaId [.var 1, .app 7 [.app 6 []]]) = some .typeMismatch ∧
    errOf (runS langAB (priorityOrd [0, 1]) 4000 schemaId [.app 6 [], .app 7 [.app 6 []]]) = some .typeMismatch ∧
    errOf (runS langAB (priorityOrd [1, 0]) 4000 schemaId [.app 6 [], .app 7 [.app 6 []]]) = some .typeMismatch :=
  ⟨schemaId_disjoint, by decide, exId_01, exId_10, exId_closed.1, exId_closed.2⟩

/-- THE CONSTRAINTS MUST BE VARIABLE-DISJOINT. `x ** x [x << [A, B], x <= A]` (`schemaTwo`) applied to the concrete type
`F(B)`: no colouring passes the check, and the error depends on the order (`C18_counterexample_error_kind`). -/
theorem C18_disjoint_needs_disjoint_variables :
    (∀ sc, disjointByB sc schemaTwo = false) ∧ Term.closedL [.app 7 [.app 6 []]] = true ∧
    errOf (runS langAB (priorityOrd [0, 1]) 4000 schemaTwo [.app 7 [.app 6 []]]) = some .constraintViolation ∧
    errOf (runS langAB (priorityOrd [1, 0]) 4000 schemaTwo [.app 7 [.app 6 []]]) = some .typeMismatch :=
  ⟨schemaTwo_not_disjoint, by decide, cex_two_01, cex_two_10⟩

/-- FINDING: "at most one UNFULFILLED constraint per constraint set, the others fulfilled" does NOT give equal stores. A
fulfilled elimination constraint is a no-op when re-checked (`C18_fulfilled_noop`), but it is then REMOVED from the set
its variable points to at that moment, and the pending constraint may have moved the variable to another set in between.
In `σLinger` (`x0` carries the fulfilled constraint `0` and the pending `1 : x0 <= x1`) the two orders give stores that
differ in the abandoned constraint set of `x0`. So for such stores order-independence can only hold up to the content
of constraint sets; the fragment above (every set holds ONE constraint) is the one with equal stores. -/
theorem C18_fulfilled_members_not_exact :
    csetsOf (checkConstraintsS langAB (priorityOrd [0, 1]) 100 σLinger 0) = some [[1], []] ∧
    csetsOf (checkConstraintsS langAB (priorityOrd [1, 0]) 100 σLinger 0) = some [[0, 1], []] :=
  ⟨exLinger_01, exLinger_10⟩

end Tfv.C18
