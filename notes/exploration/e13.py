import sys, random, itertools
sys.path.insert(0,'/repo')
from transforge.type import *
from transforge.expr import *
from transforge.lang import *
from transforge.graph import *
from transforge.workflow import *
from rdflib import BNode, Graph, URIRef
from rdflib.compare import isomorphic, to_isomorphic, graph_diff
A=TypeOperator('A'); B=TypeOperator('B',supertype=A); C=TypeOperator('C',supertype=B)
F=TypeOperator('F',params=1)
ops=dict(
 f=Operator(type=A**A,name='f'),
 g=Operator(type=lambda x: x**x,name='g'),
 h=Operator(type=lambda x: x**x**x,name='h'),
 w=Operator(type=lambda x: x**F(x),name='w'),
 u=Operator(type=lambda x: F(x)**x,name='u'),
 k=Operator(type=B**A**B,name='k'),
)
def mklang(): return Language(dict(A=A,B=B,C=C,F=F,**ops), namespace=TEST, canon={A,F(A),F(F(A))})
lang=mklang()
random.seed(int(sys.argv[1]) if len(sys.argv)>1 else 1)
def rand_tool_expr(nin):
    # expression text using inputs 1..nin, each at least once
    def gen(d, avail):
        r=random.random()
        if d==0 or r<0.3:
            i=random.choice(avail)
            ann=random.choice(['','','A','B','C'])
            return f'({i}: {ann})' if ann else f'{i}'
        op=random.choice(['f','g','h','k','w','u'])
        if op in('f','g','w','u'): return f'{op} ({gen(d-1,avail)})'
        return f'{op} ({gen(d-1,avail)}) ({gen(d-1,avail)})'
    for _ in range(50):
        s=gen(2,list(range(1,nin+1))+['-: B','-: C'] )
        if all(str(i) in s for i in range(1,nin+1)): return s
    return s
def rand_wf():
    nsrc=random.randint(1,2); srcs=[TEST[f's{i}'] for i in range(nsrc)]
    res=list(srcs); apps={}
    for t in range(random.randint(1,4)):
        nin=random.randint(1,2)
        ins=[random.choice(res) for _ in range(nin)]
        out=TEST[f't{t}']
        apps[out]=(rand_tool_expr(nin), ins)
        res.append(out)
    return srcs, apps
def build(apps, srcs, order, passthrough=True):
    lang=mklang()
    g=TransformationGraph(lang, minimal=True, with_operators=True, with_types=True, with_noncanonical_types=True, with_inputs=True, with_output=True, passthrough=passthrough)
    d={k:apps[k] for k in order}
    wf=WorkflowDict(TEST.root, d, set(srcs))
    m=g.add_workflow(wf)
    return g
stats={'ok':0,'err':0,'orderdiff':0,'targeterr':0}
for it in range(300):
    srcs,apps=rand_wf()
    keys=list(apps)
    outs=[]
    for order in itertools.islice(itertools.permutations(keys),6):
        try:
            g=build(apps,srcs,order)
            outs.append(('ok',g))
        except ValueError as e:
            outs.append(('valueerror',None))
        except Exception as e:
            outs.append((type(e).__name__+':'+type(e.__cause__).__name__,None))
    kinds=set(o[0] for o in outs)
    if len(kinds)>1:
        stats['orderdiff']+=1; print('ORDER-KIND', kinds, apps); continue
    if outs[0][0]!='ok': stats['err']+=1; continue
    base=outs[0][1]
    if not all(isomorphic(base,o[1]) for o in outs[1:]):
        stats['orderdiff']+=1; print('ORDER-GRAPH', apps)
    else: stats['ok']+=1
print(stats)
