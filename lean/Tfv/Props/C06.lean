import Tfv.Model
namespace Tfv.C06
theorem placeholder : True := trivial
end Tfv.C06
