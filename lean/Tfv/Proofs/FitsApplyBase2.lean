import Tfv.Proofs.FitsApplyBase1
/-!
# C06 end to end, nullary argument, part 2: `above` / `below` / `bind` on the one-variable store
-/
namespace Tfv.C06B
open Tfv Tfv.C03P Tfv.C03C Tfv.C16P Tfv.C17E Tfv.C03R Tfv.C06A Tfv.C05P

/-- a store with one variable, one constraint set and one constraint -/
def σX (i : VarInfo) (cs : List Nat) (c : Constr) : Store := { vars := [i], csets := [cs], constrs := [c] }

@[simp] theorem getVar_σX (i : VarInfo) (cs : List Nat) (c : Constr) : getVar (σX i cs c) 0 = i := rfl
@[simp] theorem setVar_σX (i j : VarInfo) (cs : List Nat) (c : Constr) : setVar (σX i cs c) 0 j = σX j cs c := rfl
@[simp] theorem getCset_σX (i : VarInfo) (cs : List Nat) (c : Constr) : getCset (σX i cs c) 0 = cs := rfl
@[simp] theorem setCset_σX (i : VarInfo) (cs cs' : List Nat) (c : Constr) : setCset (σX i cs c) 0 cs' = σX i cs' c := rfl
@[simp] theorem getConstr_σX (i : VarInfo) (cs : List Nat) (c : Constr) : getConstr (σX i cs c) 0 = c := rfl
@[simp] theorem setConstr_σX (i : VarInfo) (cs : List Nat) (c c' : Constr) : setConstr (σX i cs c) 0 c' = σX i cs c' := rfl

/-- the record of `x` after the unique alternative with head `bo` has been unified with it -/
def infoB (ao bo : Nat) : VarInfo :=
  if bo == TOP then { lower := some ao, cset := 0 }
  else if bo == ao then { bound := some (.app ao []), lower := some ao, upper := some ao, cset := 0 }
  else { lower := some ao, upper := some bo, cset := 0 }

theorem checkConstraints_fulfilled (L : Lang) (m : Nat) (i : VarInfo) (hi : i.cset = 0) (ref : Term) (alts : List Term) :
    checkConstraints L (m+3) (σX i [0] (.elim ref alts true)) 0 = .ok (σX i [] (.elim ref alts true)) := by
  rw [checkConstraints]
  simp only [getVar_σX, hi, getCset_σX]
  rw [checkList, fulfill]
  simp only [getConstr_σX, if_true, getVar_σX, hi, getCset_σX, setCset_σX]
  rw [checkList]
  rfl

theorem checkConstraints_empty (L : Lang) (m : Nat) (i : VarInfo) (hi : i.cset = 0) (c : Constr) :
    checkConstraints L (m+2) (σX i [] c) 0 = .ok (σX i [] c) := by
  rw [checkConstraints]
  simp only [getVar_σX, hi, getCset_σX]
  rw [checkList]

theorem below_lower (L : Lang) (m ao bo : Nat) (ref : Term) (alts : List Term)
    (hb : bo ≠ BOT) (ht : bo ≠ TOP) (h : opSub L ao bo = true) (hs : opSub L bo ao true = false)
    (hirr : opSub L ao ao true = false) (h0 : arityOf L bo = 0) :
    below L (m+4) (σX { lower := some ao, cset := 0 } [0] (.elim ref alts true)) 0 bo =
      .ok (σX (infoB ao bo) [] (.elim ref alts true)) := by
  rw [below]
  have hb' : (bo == BOT) = false := by simpa using hb
  have ht' : (bo == TOP) = false := by simpa using ht
  simp only [hb', Bool.false_eq_true, if_false, getVar_σX, setVar_σX, Option.isSome_none, Option.any_some, hs, h,
    Bool.not_true, Option.any_none, Option.all_none, if_true]
  rw [checkConstraints_fulfilled L m _ rfl]
  simp only [getVar_σX, Option.isNone_none, Option.isSome_some, Bool.true_and]
  unfold infoB
  simp only [ht', Bool.false_eq_true, if_false]
  by_cases e : bo = ao
  · subst e
    simp only [beq_self_eq_true, if_true]
    rw [bind]
    simp only [getVar_σX, Option.isSome_none, Bool.false_eq_true, if_false, setVar_σX]
    simp only [h0, beq_self_eq_true, if_true, Option.any_some, hirr, Bool.false_eq_true, if_false]
    exact checkConstraints_empty L m _ rfl _
  · have e1 : (some bo == some ao) = false := by simpa using e
    have e2 : (bo == ao) = false := by simpa using e
    simp only [e1, e2, Bool.false_eq_true, if_false]


/-- the unique kept alternative `t` (head `Top`, or a base type above `ao`) is unified with `x` -/
theorem unify_only (L : Lang) (wf : WF L) (m ao : Nat) (t : Ty) (ref : Term) (alts : List Term)
    (hb : ao ≠ BOT) (ht : ao ≠ TOP) (hk : aboveB L ao t = true) :
    unify L (m+5) (σX { lower := some ao, cset := 0 } [0] (.elim ref alts true)) (.var 0) t.toTerm true false false =
      .ok (σX (infoB ao (hd t)) (if hd t == TOP then [0] else []) (.elim ref alts true)) := by
  cases t with
  | app bo bs =>
    rw [Tfv.toTerm_app, unify, Tfv.followT_app, C16P.followT_unbound rfl]
    simp only [hd]
    by_cases e : bo = TOP
    · subst e
      simp [infoB]
    · have e' : (bo == TOP) = false := by simpa using e
      simp only [aboveB, hd, e', Bool.false_or, Bool.and_eq_true, beq_iff_eq] at hk
      obtain ⟨hk0, hk1⟩ := hk
      have hocc := occurs_closed_var (L := L) (σ := σX { lower := some ao, cset := 0 } [0] (.elim ref alts true))
        (w := 0) rfl (termFuel (σX { lower := some ao, cset := 0 } [0] (.elim ref alts true))) (.app bo (Ty.toTermL bs))
        (by rw [closed_app]; exact closedL_toTermL bs)
      have hbb : bo ≠ BOT := fun e2 => by
        rw [e2, not_opSub_bot wf hb] at hk1; cases hk1
      simp only [e', Bool.false_eq_true, if_false, hocc, hk0, beq_self_eq_true, if_true, Bool.false_and,
        Bool.or_self]
      exact below_lower L m ao bo ref alts hbb e hk1 (opSub_strict_antisymm wf hk1 hb e)
        (opSub_strict_irrefl wf hb ht) hk0


theorem infoB_cset (ao bo : Nat) : (infoB ao bo).cset = 0 := by
  unfold infoB; split
  · rfl
  · split <;> rfl

/-- `x` has the lower bound `ao`, the constraint is pending with `alts` -/
def σL (ao : Nat) (alts : List Term) : Store := σX { lower := some ao, cset := 0 } [0] (.elim (.var 0) alts false)

/-- the store after `above x ao`, by the alternatives kept by the filter -/
def afterB (ao : Nat) : List Ty → Except Err Store
  | [] => .error .constraintViolation
  | [t] => .ok (σX (infoB ao (hd t)) [] (.elim (.var 0) [t.toTerm] true))
  | kept => .ok (σL ao (Ty.toTermL kept))

theorem fulfill_lower (L : Lang) (wf : WF L) (m ao : Nat) (ts : List Ty)
    (hb : ao ≠ BOT) (ht : ao ≠ TOP) (ha : antichain L ts = true)
    (hd : ∀ t ∈ ts, Ty.depth t < 64) (hn : ts.length + 2 * Ty.sizeL ts + 1 ≤ m + 4) :
    fulfill L (m+6) (σL ao (Ty.toTermL ts)) 0 =
      (match ts.filter (aboveB L ao) with
       | [] => .error .constraintViolation
       | [t] => .ok (σX (infoB ao (C06B.hd t)) (if C06B.hd t == TOP then [0] else []) (.elim (.var 0) [t.toTerm] true), true)
       | kept => .ok (σL ao (Ty.toTermL kept), false)) := by
  rw [fulfill_closed_core L (σL ao (Ty.toTermL ts)) (m+4) 0 (.var 0) (.var 0) ts rfl (Nat.zero_lt_one) ha hd hn
    (C16P.followT_unbound rfl) (fun v e => by cases e; rfl)]
  have hf := filter_var_lower L (σL ao (Ty.toTermL ts)) 67 0 ao rfl rfl rfl rfl ts
  have e1 : setConstr (σL ao (Ty.toTermL ts)) 0 (Constr.elim (Term.var 0) (Ty.toTermL ts) false) = σL ao (Ty.toTermL ts) := rfl
  have e2 : matchFuel (σL ao (Ty.toTermL ts)) = 67 + 1 := rfl
  rw [e1, e2, hf]
  generalize hk : ts.filter (aboveB L ao) = kept
  match kept, hk with
  | [], _ => rw [Ty.toTermL]
  | [t], hk =>
    have hkt : aboveB L ao t = true := (List.mem_filter.mp (by rw [hk]; exact List.mem_cons_self : t ∈ ts.filter (aboveB L ao))).2
    rw [Tfv.toTermL_cons, Ty.toTermL]
    simp only [σL, setConstr_σX]
    rw [unify_only L wf m ao t _ _ hb ht hkt]
  | t1 :: t2 :: rest, _ =>
    simp only [Tfv.toTermL_cons]
    rfl

theorem above_lower (L : Lang) (wf : WF L) (m ao : Nat) (ts : List Ty)
    (hb : ao ≠ BOT) (ht : ao ≠ TOP) (ha : antichain L ts = true)
    (hd : ∀ t ∈ ts, Ty.depth t < 64) (hn : ts.length + 2 * Ty.sizeL ts + 1 ≤ m + 4) :
    above L (m+9) (σ0 (Ty.toTermL ts)) 0 ao = afterB ao (ts.filter (aboveB L ao)) := by
  rw [above]
  have ht' : (ao == TOP) = false := by simpa using ht
  have e0 : σ0 (Ty.toTermL ts) = σX { cset := 0 } [0] (.elim (.var 0) (Ty.toTermL ts) false) := rfl
  simp only [ht', Bool.false_eq_true, if_false, e0, getVar_σX, setVar_σX, Option.isSome_none, Option.any_none,
    Option.all_none, if_true]
  rw [checkConstraints]
  simp only [getVar_σX, getCset_σX]
  rw [checkList]
  have e1 : σX { lower := some ao, cset := 0 } [0] (.elim (.var 0) (Ty.toTermL ts) false) = σL ao (Ty.toTermL ts) := rfl
  rw [e1, fulfill_lower L wf m ao ts hb ht ha hd hn]
  generalize ts.filter (aboveB L ao) = kept
  match kept with
  | [] => rfl
  | [t] =>
    simp only [getVar_σX, infoB_cset, getCset_σX, setCset_σX, if_true]
    have e2 : (if C06B.hd t == TOP then [0] else ([] : List Nat)).filter (· != 0) = [] := by split <;> rfl
    rw [e2, checkList]
    simp only [getVar_σX, afterB]
    have e3 : ((infoB ao (C06B.hd t)).bound.isNone && (infoB ao (C06B.hd t)).lower.isSome &&
        ((infoB ao (C06B.hd t)).lower == (infoB ao (C06B.hd t)).upper)) = false := by
      unfold infoB
      split
      · rfl
      · split
        · rfl
        · next h1 h2 =>
          have : (ao == C06B.hd t) = false := by
            cases h : (ao == C06B.hd t) with
            | false => rfl
            | true => rw [eq_of_beq h] at h2; simp at h2
          simp [this]
    exact if_neg (by rw [e3]; decide)
  | t1 :: t2 :: rest =>
    simp only [Bool.false_eq_true, if_false]
    rw [checkList]
    rfl

end Tfv.C06B
