import Tfv.Proofs.QueryCorollaries
import Tfv.Proofs.QueryUnfoldTask
/-!
# Part C for `unfold_tree = True`: consequences of `MatchesUnfolded`

Sub-tasks, dropped links, generalised types, absent operators/types, tasks read off a graph, and the
monotonicity of both readings in the flags. Everything is proved directly on `MatchesUnfoldedBy` (the same
assignment of paths to nodes serves), because `unfoldTask` numbers the paths in creation order and so does
NOT commute syntactically with taking a sub-task (see `Props/C11UnfoldCor.lean` for the counterexample);
the statements about `unfoldTask` are then derived through `matchesUnfolded_iff_unfoldTask`.
-/
namespace Tfv

variable {g : List Triple} {wf : Node}

/-! ## sub-tasks -/

theorem SubTask.pathTo {t' t : QTask} (h : SubTask t' t) : ∀ p k, PathTo t' p k → PathTo t p k := by
  intro p k hp
  induction hp with
  | out ho => exact .out (h.outputs _ ho)
  | step _ hb ih => exact .step ih (h.from_ _ _ hb)

theorem SubTask.relaxed {t' t : QTask} (h : SubTask t' t) {c b : Nat} (hc : StepReach t' c)
    (hb : b ∈ (t'.step c).from_) : relaxedLink t' c b = relaxedLink t c b := by
  have hrb : StepReach t' b := .step hc hb
  unfold relaxedLink
  simp only [h.ops c hc, h.types c hc, h.ops b hrb, h.types b hrb]

theorem SubTask.matchesUnfoldedBy {G : GLang} {t' t : QTask} {f : QFlags} {hh : List Nat → Node} (h : SubTask t' t)
    (hm : MatchesUnfoldedBy G t f g wf hh) : MatchesUnfoldedBy G t' f g wf hh := by
  refine ⟨?_, ?_, ?_, ?_, ?_, ?_⟩
  · intro p o hp ho
    rw [h.types o (.out ho)]
    exact hm.output p o (h.pathTo p o hp) (h.outputs o ho)
  · intro hch p k hp
    rw [h.ops k hp.reach, h.types k hp.reach]
    exact hm.step hch p k (h.pathTo p k hp)
  · intro hch p c b hp hb
    rw [h.relaxed hp.reach hb]
    exact hm.link hch p c b (h.pathTo p c hp) (h.from_ c b hb)
  · intro hio p i hp hi
    rw [h.types i hp.reach]
    exact hm.input hio p i (h.pathTo p i hp) (h.inputs i hi)
  · intro hop k o hk hops
    rw [h.ops k hk] at hops
    exact hm.preOps hop k o (h.reach k hk) hops
  · intro hty k hk hne
    rw [h.types k hk] at hne ⊢
    exact hm.preTypes hty k (h.reach k hk) hne

theorem SubTask.matchesUnfolded {G : GLang} {t' t : QTask} {f : QFlags} (h : SubTask t' t)
    (hm : MatchesUnfolded G t f g wf) : MatchesUnfolded G t' f g wf := by
  obtain ⟨hh, hm⟩ := hm
  exact ⟨hh, h.matchesUnfoldedBy hm⟩

theorem SubTask.reachFrom {t' t : QTask} (h : SubTask t' t) : ∀ k j, ReachFrom t' k j → ReachFrom t k j := by
  intro k j hr
  induction hr with
  | refl k => exact .refl k
  | step hb _ ih => exact .step (h.from_ _ _ hb) ih

/-- a sub-task of an acyclic task is acyclic -/
theorem SubTask.noCycle {t' t : QTask} (h : SubTask t' t) (hnc : NoCycle t) : NoCycle t' := by
  intro k hk ⟨b, hb, hr⟩
  exact hnc k (h.reach k hk) ⟨b, h.from_ k b hb, h.reachFrom b k hr⟩

/-- the unfolded sub-task (as a task) matches whatever the unfolded task matches -/
theorem SubTask.matches_unfoldTask {G : GLang} {t' t : QTask} {f : QFlags} (h : SubTask t' t) (hnc : NoCycle t)
    (hm : Matches G (unfoldTask t) f g wf) : Matches G (unfoldTask t') f g wf :=
  (matchesUnfolded_iff_unfoldTask (h.noCycle hnc)).1 (h.matchesUnfolded ((matchesUnfolded_iff_unfoldTask hnc).2 hm))

/-- the steps of a sub-task that its query talks about have types of the task -/
theorem SubTask.bagExact {G : GLang} {t' t : QTask} (h : SubTask t' t) (hb : BagExact G t g wf) : BagExact G t' g wf := by
  intro reqs hreqs
  refine hb reqs (fun r hr => ?_)
  obtain ⟨k, hk, rfl⟩ := hreqs r hr
  exact ⟨k, h.reach k hk, h.types k hk⟩

/-- the unfolded query of a sub-task accepts whatever the unfolded query of the task accepts -/
theorem SubTask.evalU {G : GLang} {t' t : QTask} {f : QFlags} {q q' : Query} (h : SubTask t' t)
    (hf : f.unfoldTree = true) (hq : genQuery G t f = .ok q) (hq' : genQuery G t' f = .ok q')
    (hbag : f.byTypes = true → BagExact G t g wf) (he : evalQuery q g wf = true) : evalQuery q' g wf = true :=
  (query_iffU hf hq' g wf (fun hty => h.bagExact (hbag hty))).2
    (h.matchesUnfolded ((query_iffU hf hq g wf hbag).1 he))

/-! ## generalising types -/

theorem GeneralisedTask.pathTo {le : Ty → Ty → Bool} {t t' : QTask} (h : GeneralisedTask le t t') :
    ∀ p k, PathTo t' p k ↔ PathTo t p k := by
  intro p k
  constructor
  · intro hp
    induction hp with
    | out ho => exact .out (h.outputs ▸ ho)
    | step _ hb ih => exact .step ih (h.from_ _ ▸ hb)
  · intro hp
    induction hp with
    | out ho => exact .out (h.outputs.symm ▸ ho)
    | step _ hb ih => exact .step ih ((h.from_ _).symm ▸ hb)

theorem GeneralisedTask.relaxed {le : Ty → Ty → Bool} {t t' : QTask} (h : GeneralisedTask le t t') (c b : Nat) :
    relaxedLink t' c b = relaxedLink t c b := by
  have he : ∀ k, (t'.step k).types.isEmpty = (t.step k).types.isEmpty := by
    intro k
    have := (h.types k).1
    cases h1 : (t.step k).types <;> cases h2 : (t'.step k).types <;> simp_all
  unfold relaxedLink
  simp only [h.ops, he]

section
variable (G : GLang) (D : Ty → Prop)
  (hrefl : ∀ x, D x → leTyB G.types x x = true)
  (htrans : ∀ x y z, D x → D y → D z → leTyB G.types x y = true → leTyB G.types y z = true → leTyB G.types x z = true)
  (hanti : ∀ x y, D x → D y → leTyB G.types x y = true → leTyB G.types y x = true → x = y)
include hrefl htrans hanti

theorem GeneralisedTask.matchesUnfoldedBy {t t' : QTask} {f : QFlags} {hh : List Nat → Node}
    (h : GeneralisedTask (leTyB G.types) t t')
    (hD : ∀ k, ∀ T ∈ (t.step k).types, D T) (hD' : ∀ k, ∀ T ∈ (t'.step k).types, D T)
    (hup : UpClosedSubtypeOf G D g)
    (hupc : ∀ x y, D x → D y → HasType G g wf x → leTyB G.types x y = true → HasType G g wf y)
    (hm : MatchesUnfoldedBy G t f g wf hh) : MatchesUnfoldedBy G t' f g wf hh := by
  have hty : ∀ k n, TypeOk G g n (t.step k).types → TypeOk G g n (t'.step k).types :=
    fun k n => typeOk_generalise G D hrefl htrans hanti hup (hD k) (hD' k) (h.types k)
  refine ⟨?_, ?_, ?_, ?_, ?_, ?_⟩
  · intro p o hp ho
    rw [h.outputs] at ho
    obtain ⟨h1, h2⟩ := hm.output p o ((h.pathTo p o).1 hp) ho
    exact ⟨h1, hty o _ h2⟩
  · intro hch p k hp
    obtain ⟨h1, h2⟩ := hm.step hch p k ((h.pathTo p k).1 hp)
    rw [h.ops k]
    exact ⟨h1, hty k _ h2⟩
  · intro hch p c b hp hb
    rw [h.from_ c] at hb
    rw [h.relaxed c b]
    exact hm.link hch p c b ((h.pathTo p c).1 hp) hb
  · intro hio p i hp hi
    rw [h.inputs] at hi
    obtain ⟨h1, h2⟩ := hm.input hio p i ((h.pathTo p i).1 hp) hi
    exact ⟨h1, hty i _ h2⟩
  · intro hop k o hk hops
    rw [h.ops k] at hops
    exact hm.preOps hop k o ((h.reach k).1 hk) hops
  · intro htyp k hk hne
    have hne' : (t.step k).types ≠ [] := fun he => hne ((h.types k).1.1 he)
    obtain ⟨T, hT, hHas⟩ := hm.preTypes htyp k ((h.reach k).1 hk) hne'
    obtain ⟨T', hT', hle⟩ := (h.types k).2 T hT
    exact ⟨T', hT', hupc T T' (hD k T hT) (hD' k T' hT') hHas hle⟩

end

theorem GeneralisedTask.reachFrom {le : Ty → Ty → Bool} {t t' : QTask} (h : GeneralisedTask le t t') :
    ∀ k j, ReachFrom t' k j → ReachFrom t k j := by
  intro k j hr
  induction hr with
  | refl k => exact .refl k
  | step hb _ ih => exact .step (h.from_ _ ▸ hb) ih

/-- generalising types does not change the shape: the generalised task of an acyclic task is acyclic -/
theorem GeneralisedTask.noCycle {le : Ty → Ty → Bool} {t t' : QTask} (h : GeneralisedTask le t t')
    (hnc : NoCycle t) : NoCycle t' := by
  intro k hk ⟨b, hb, hr⟩
  exact hnc k ((h.reach k).1 hk) ⟨b, h.from_ k ▸ hb, h.reachFrom b k hr⟩

/-! ## absent operators and types -/

theorem not_matchesUnfolded_absent_operator {G : GLang} {t : QTask} {f : QFlags} {k : Nat} {o : String}
    (hk : StepReach t k) (hops : (t.step k).ops = [o])
    (habs : (f.byOperators = true ∧ (wf, Node.tf "containsOperation", Node.ns o) ∉ g) ∨
            (f.byChronology = true ∧ ∀ n, (n, Node.tf "via", Node.ns o) ∉ g)) :
    ¬ MatchesUnfolded G t f g wf := by
  rintro ⟨h, hm⟩
  rcases habs with ⟨hop, hno⟩ | ⟨hch, hno⟩
  · exact hno (hm.preOps hop k o hk hops)
  · obtain ⟨p, hp⟩ := reach_pathTo hk
    rcases (hm.step hch p k hp).1 with h1 | ⟨o', ho', hg⟩
    · rw [hops] at h1
      cases h1
    · rw [hops] at ho'
      simp only [List.mem_singleton] at ho'
      subst ho'
      exact hno _ hg

theorem not_matchesUnfolded_absent_type {G : GLang} {t : QTask} {f : QFlags} {k : Nat}
    (hk : StepReach t k) (hne : (t.step k).types ≠ [])
    (habs : (f.byTypes = true ∧ ∀ T ∈ (t.step k).types, ¬ HasType G g wf T) ∨
            (f.byChronology = true ∧ ∀ n, ∀ T ∈ unionOf (leTyB G.types) false (t.step k).types, ∀ u,
              typeUri G T.toTerm = .ok u → (n, Node.tf "subtypeOf", u) ∉ g)) :
    ¬ MatchesUnfolded G t f g wf := by
  rintro ⟨h, hm⟩
  rcases habs with ⟨hty, hno⟩ | ⟨hch, hno⟩
  · obtain ⟨T, hT, hHas⟩ := hm.preTypes hty k hk hne
    exact hno T hT hHas
  · obtain ⟨p, hp⟩ := reach_pathTo hk
    rcases (hm.step hch p k hp).2 with h1 | ⟨T, hT, u, hu, hg⟩
    · exact hne h1
    · exact hno _ T hT u hu hg

/-! ## a task read off the graph: one node per PATH -/

/-- the copies of the task's steps (one per path from an output) are nodes of the graph (through `h`) and everything
the unfolded task says is a triple of the graph; two copies of a step may be different nodes -/
structure ReadOffU (G : GLang) (t : QTask) (g : List Triple) (wf : Node) (h : List Nat → Node) : Prop where
  outputs : ∀ p o, PathTo t p o → o ∈ t.outputs → (wf, Node.tf "output", h p) ∈ g
  inputs : ∀ p i, PathTo t p i → i ∈ t.inputs → (wf, Node.tf "input", h p) ∈ g
  ops : ∀ p k, PathTo t p k → ∀ o ∈ (t.step k).ops, (h p, Node.tf "via", Node.ns o) ∈ g
  types : ∀ p k, PathTo t p k → ∀ T ∈ (t.step k).types, ∃ u, typeUri G T.toTerm = .ok u ∧ (h p, Node.tf "subtypeOf", u) ∈ g
  links : ∀ p c b, PathTo t p c → b ∈ (t.step c).from_ → (h p, Node.tf "depends", h (p ++ [b])) ∈ g
  memberOps : ∀ n o, (n, Node.tf "via", o) ∈ g → (wf, Node.tf "containsOperation", o) ∈ g
  memberTypes : ∀ n u, (n, Node.tf "subtypeOf", u) ∈ g → (wf, Node.tf "containsType", u) ∈ g

/-- a task read off with one node per step is read off with one node per path -/
theorem ReadOff.unfolded {G : GLang} {t : QTask} {h : Nat → Node} (hr : ReadOff G t g wf h) :
    ReadOffU G t g wf (fun p => h (lastStep p)) := by
  refine ⟨?_, ?_, ?_, ?_, ?_, hr.memberOps, hr.memberTypes⟩
  · intro p o hp ho
    simp only [hp.lastStep]
    exact hr.outputs o ho
  · intro p i hp hi
    simp only [hp.lastStep]
    exact hr.inputs i hi hp.reach
  · intro p k hp
    simp only [hp.lastStep]
    exact hr.ops k hp.reach
  · intro p k hp
    simp only [hp.lastStep]
    exact hr.types k hp.reach
  · intro p c b hp hb
    simp only [hp.lastStep, (PathTo.step hp hb).lastStep]
    exact hr.links c b hp.reach hb

theorem typeOk_of_all {G : GLang} {n : Node} {ts : List Ty}
    (h : ∀ T ∈ ts, ∃ u, typeUri G T.toTerm = .ok u ∧ (n, Node.tf "subtypeOf", u) ∈ g) : TypeOk G g n ts := by
  cases hx : ts with
  | nil => exact Or.inl rfl
  | cons T Ts =>
    right
    rw [← hx]
    cases hu : unionOf (leTyB G.types) false ts with
    | nil =>
      rw [unionOf_eq_nil, hx] at hu
      cases hu
    | cons M Ms =>
      have hM : M ∈ unionOf (leTyB G.types) false ts := by rw [hu]; simp
      obtain ⟨u, h1, h2⟩ := h M (unionOf_subset _ _ _ M hM)
      rw [← hu]
      exact ⟨M, hM, u, h1, h2⟩

theorem opOk_of_all {n : Node} {ops : List String} (h : ∀ o ∈ ops, (n, Node.tf "via", Node.ns o) ∈ g) : OpOk g n ops := by
  cases hx : ops with
  | nil => exact Or.inl rfl
  | cons o os =>
    right
    exact ⟨o, by simp, h o (by rw [hx]; simp)⟩

theorem ReadOffU.matchesUnfoldedBy {G : GLang} {t : QTask} {h : List Nat → Node} (hr : ReadOffU G t g wf h) (f : QFlags) :
    MatchesUnfoldedBy G t f g wf h := by
  have hty : ∀ p k, PathTo t p k → TypeOk G g (h p) (t.step k).types := fun p k hp => typeOk_of_all (hr.types p k hp)
  have hop : ∀ p k, PathTo t p k → OpOk g (h p) (t.step k).ops := fun p k hp => opOk_of_all (hr.ops p k hp)
  refine ⟨?_, ?_, ?_, ?_, ?_, ?_⟩
  · intro p o hp ho
    exact ⟨Or.inl (hr.outputs p o hp ho), hty p o hp⟩
  · intro _ p k hp
    exact ⟨hop p k hp, hty p k hp⟩
  · intro _ p c b hp hb
    exact Or.inl (hr.links p c b hp hb)
  · intro _ p i hp hi
    exact ⟨Or.inl (hr.inputs p i hp hi), hty p i hp⟩
  · intro _ k o hk hops
    obtain ⟨p, hp⟩ := reach_pathTo hk
    exact hr.memberOps _ _ (hr.ops p k hp o (by rw [hops]; simp))
  · intro _ k hk hne
    obtain ⟨p, hp⟩ := reach_pathTo hk
    cases hx : (t.step k).types with
    | nil => exact absurd hx hne
    | cons T Ts =>
      obtain ⟨u, h1, h2⟩ := hr.types p k hp T (by rw [hx]; simp)
      exact ⟨T, by simp, u, h1, hr.memberTypes _ _ h2⟩

/-! ## monotone in the flags -/

/-- `f'` asks at most what `f` asks: the four filters `by_io`, `by_types`, `by_operators`, `by_chronology` may be
switched OFF, the two relaxations `by_penultimate_output`, `by_second_input` may be switched ON
(`unfold_tree` does not occur in either reading) -/
structure FlagsWeaker (f' f : QFlags) : Prop where
  byIo : f'.byIo = true → f.byIo = true
  byTypes : f'.byTypes = true → f.byTypes = true
  byOperators : f'.byOperators = true → f.byOperators = true
  byChronology : f'.byChronology = true → f.byChronology = true
  byPenultimateOutput : f.byPenultimateOutput = true → f'.byPenultimateOutput = true
  bySecondInput : f.bySecondInput = true → f'.bySecondInput = true

theorem FlagsWeaker.refl (f : QFlags) : FlagsWeaker f f := ⟨id, id, id, id, id, id⟩

theorem FlagsWeaker.trans {f1 f2 f3 : QFlags} (h12 : FlagsWeaker f1 f2) (h23 : FlagsWeaker f2 f3) : FlagsWeaker f1 f3 :=
  ⟨fun h => h23.byIo (h12.byIo h), fun h => h23.byTypes (h12.byTypes h), fun h => h23.byOperators (h12.byOperators h),
   fun h => h23.byChronology (h12.byChronology h), fun h => h12.byPenultimateOutput (h23.byPenultimateOutput h),
   fun h => h12.bySecondInput (h23.bySecondInput h)⟩

theorem FlagsWeaker.matchesBy {G : GLang} {t : QTask} {f' f : QFlags} {h : Nat → Node} (hw : FlagsWeaker f' f)
    (hm : MatchesBy G t f g wf h) : MatchesBy G t f' g wf h := by
  refine ⟨?_, fun hch => hm.step (hw.byChronology hch), fun hch => hm.link (hw.byChronology hch), ?_,
    fun hop => hm.preOps (hw.byOperators hop), fun hty => hm.preTypes (hw.byTypes hty)⟩
  · intro o ho
    obtain ⟨h1, h2⟩ := hm.output o ho
    refine ⟨?_, h2⟩
    rcases h1 with h1 | ⟨hp, h1⟩
    · exact Or.inl h1
    · exact Or.inr ⟨hw.byPenultimateOutput hp, h1⟩
  · intro hio i hi hr
    obtain ⟨h1, h2⟩ := hm.input (hw.byIo hio) i hi hr
    refine ⟨?_, h2⟩
    rcases h1 with h1 | ⟨hp, h1⟩
    · exact Or.inl h1
    · exact Or.inr ⟨hw.bySecondInput hp, h1⟩

theorem FlagsWeaker.matchesUnfoldedBy {G : GLang} {t : QTask} {f' f : QFlags} {h : List Nat → Node} (hw : FlagsWeaker f' f)
    (hm : MatchesUnfoldedBy G t f g wf h) : MatchesUnfoldedBy G t f' g wf h := by
  refine ⟨?_, fun hch => hm.step (hw.byChronology hch), fun hch => hm.link (hw.byChronology hch), ?_,
    fun hop => hm.preOps (hw.byOperators hop), fun hty => hm.preTypes (hw.byTypes hty)⟩
  · intro p o hp ho
    obtain ⟨h1, h2⟩ := hm.output p o hp ho
    refine ⟨?_, h2⟩
    rcases h1 with h1 | ⟨hpe, h1⟩
    · exact Or.inl h1
    · exact Or.inr ⟨hw.byPenultimateOutput hpe, h1⟩
  · intro hio p i hp hi
    obtain ⟨h1, h2⟩ := hm.input (hw.byIo hio) p i hp hi
    refine ⟨?_, h2⟩
    rcases h1 with h1 | ⟨hpe, h1⟩
    · exact Or.inl h1
    · exact Or.inr ⟨hw.bySecondInput hpe, h1⟩

theorem FlagsWeaker.matches {G : GLang} {t : QTask} {f' f : QFlags} (hw : FlagsWeaker f' f)
    (hm : Matches G t f g wf) : Matches G t f' g wf := by
  obtain ⟨h, hm⟩ := hm
  exact ⟨h, hw.matchesBy hm⟩

theorem FlagsWeaker.matchesUnfolded {G : GLang} {t : QTask} {f' f : QFlags} (hw : FlagsWeaker f' f)
    (hm : MatchesUnfolded G t f g wf) : MatchesUnfolded G t f' g wf := by
  obtain ⟨h, hm⟩ := hm
  exact ⟨h, hw.matchesUnfoldedBy hm⟩

/-- for the generated queries, in either mode: the query with the weaker flags accepts whatever the other accepts -/
theorem FlagsWeaker.eval {G : GLang} {t : QTask} {f' f : QFlags} {q q' : Query} (hw : FlagsWeaker f' f)
    (hu : f'.unfoldTree = f.unfoldTree) (hq : genQuery G t f = .ok q) (hq' : genQuery G t f' = .ok q')
    (hbag : f.byTypes = true → BagExact G t g wf) (he : evalQuery q g wf = true) : evalQuery q' g wf = true := by
  cases hf : f.unfoldTree with
  | false =>
    exact (query_iff (hu.trans hf) hq' g wf (fun h => hbag (hw.byTypes h))).2
      (hw.matches ((query_iff hf hq g wf hbag).1 he))
  | true =>
    exact (query_iffU (hu.trans hf) hq' g wf (fun h => hbag (hw.byTypes h))).2
      (hw.matchesUnfolded ((query_iffU hf hq g wf hbag).1 he))

end Tfv
