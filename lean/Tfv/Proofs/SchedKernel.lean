import Tfv.Proofs.SchedMatchK
import Tfv.Proofs.SchedOrd
/-!
# C18 — the scheduled engine over an abstract `match3`/`occurs` (kernel evaluation)

GENERATED from `Tfv/Model/InferSched.lean` (text substitution: suffix `S` becomes `P`, `match3 L` becomes the
parameter `m3`, `occurs L` the parameter `occ`). With `m3 = match3 L`, `occ = occurs L` this is the scheduled
engine (`blockP_eq`); with `m3 = match3K L`, `occ = occursK L` every function is structurally recursive, so
`decide +kernel` evaluates it. Nothing but the counterexamples depends on this file.
-/
namespace Tfv.C18P

mutual
/-- `unify(self=a, other=b, subtype=st, skip_basic=sb, skip_wildcard=sw)` (type.py:556-630) -/
def unifyP (L : Lang) (ord : List Nat → List Nat) (m3 : Store → Nat → Bool → Bool → Term → Term → Option Bool) (occ : Store → Nat → Term → Term → Bool) : Nat → Store → Term → Term → Bool → Bool → Bool → R
  | 0, _, _, _, _, _, _ => .error .outOfFuel
  | n+1, σ, a, b, st, sb, sw =>
    match followT σ a, followT σ b with
    | .var av, .var bv =>
      if !sw || !((getVar σ av).wildcard && (getVar σ bv).wildcard) then bindP L ord m3 occ n σ av (.var bv)
      else .ok σ
    | .app ao as, .app bo bs =>
      if ao == BOT || bo == TOP then .ok σ
      else if arityOf L ao == 0 then
        if sb then .ok σ
        else if st && !opSub L ao bo then .error .subtypeMismatch
        else if !st && ao != bo then .error .typeMismatch
        else .ok σ
      else if ao == bo then unifyListP L ord m3 occ n σ (varianceOf L ao) as bs st sb sw
      else .error .typeMismatch
    | .var av, .app bo bs =>
      if bo == TOP then .ok σ
      else if occ σ (termFuel σ) (.app bo bs) (.var av) then .error .recursiveType
      else if arityOf L bo == 0 then
        if sb || (sw && (getVar σ av).wildcard) then .ok σ
        else if st then belowP L ord m3 occ n σ av bo
        else bindP L ord m3 occ n σ av (.app bo bs)
      else
        if sw || sb then
          let (σ1, fresh) := newVars σ bs.length
          match bindP L ord m3 occ n σ1 av (.app bo fresh) with
          | .error e => .error e
          | .ok σ2 => unifyP L ord m3 occ n σ2 (.var av) (.app bo bs) st sb sw
        else bindP L ord m3 occ n σ av (.app bo bs)
    | .app ao as, .var bv =>
      if ao == BOT then .ok σ
      else if occ σ (termFuel σ) (.app ao as) (.var bv) then .error .recursiveType
      else if arityOf L ao == 0 then
        if sb || (sw && (getVar σ bv).wildcard) then .ok σ
        else if st then aboveP L ord m3 occ n σ bv ao
        else bindP L ord m3 occ n σ bv (.app ao as)
      else
        if sw || sb then
          let (σ1, fresh) := newVars σ as.length
          match bindP L ord m3 occ n σ1 bv (.app ao fresh) with
          | .error e => .error e
          -- `b.unify(b, …)` in the source (type.py:627): unifies the new skeleton with itself
          | .ok σ2 => unifyP L ord m3 occ n σ2 (.var bv) (.var bv) st sb sw
        else bindP L ord m3 occ n σ bv (.app ao as)

def unifyListP (L : Lang) (ord : List Nat → List Nat) (m3 : Store → Nat → Bool → Bool → Term → Term → Option Bool) (occ : Store → Nat → Term → Term → Bool) : Nat → Store → List Bool → List Term → List Term → Bool → Bool → Bool → R
  | 0, _, _, _, _, _, _, _ => .error .outOfFuel
  | n+1, σ, v :: vs, x :: xs, y :: ys, st, sb, sw =>
    match (if v then unifyP L ord m3 occ n σ x y st sb sw else unifyP L ord m3 occ n σ y x st sb sw) with
    | .error e => .error e
    | .ok σ1 => unifyListP L ord m3 occ n σ1 vs xs ys st sb sw
  | _+1, σ, _, _, _, _, _, _ => .ok σ

/-- `TypeVariable.bind(self=v, t)` (type.py:797-830) -/
def bindP (L : Lang) (ord : List Nat → List Nat) (m3 : Store → Nat → Bool → Bool → Term → Term → Option Bool) (occ : Store → Nat → Term → Term → Bool) : Nat → Store → Nat → Term → R
  | 0, _, _, _ => .error .outOfFuel
  | n+1, σ, v, t =>
    let i := getVar σ v
    if i.bound.isSome then .error (.internal "bind:variable cannot be unified twice")
    else
      let i := { i with wildcard := false }
      let σ := setVar σ v i
      match t with
      | .var tv =>
        if tv == v then .ok σ
        else
          let σ := setVar σ v { i with bound := some t }
          let ti := getVar σ tv
          let σ := setCset σ ti.cset (unionSorted (getCset σ ti.cset) (getCset σ i.cset))
          let σ := setVar σ v { (getVar σ v) with cset := ti.cset }
          let σ := setVar σ tv { (getVar σ tv) with wildcard := false }
          -- fix: the bounds are handed over through `unify`, which follows `t` (a constraint re-check
          -- triggered by the first bound may already have resolved it)
          match (match i.lower with | some l => unifyP L ord m3 occ n σ (.app l []) (.var tv) true false false | none => .ok σ) with
          | .error e => .error e
          | .ok σ =>
            match (match i.upper with | some u => unifyP L ord m3 occ n σ (.var tv) (.app u []) true false false | none => .ok σ) with
            | .error e => .error e
            | .ok σ => checkConstraintsP L ord m3 occ n σ v
      | .app o args =>
        let σ := setVar σ v { i with bound := some t }
        if arityOf L o == 0 then
          if i.lower.any (fun l => opSub L o l true) then .error .subtypeMismatch
          else if i.upper.any (fun u => opSub L u o true) then .error .subtypeMismatch
          else checkConstraintsP L ord m3 occ n σ v
        else
          if i.lower.isSome || i.upper.isSome then .error .subtypeMismatch
          else
            let vars := directVars σ (termFuel σ) (.app o args) []
            let merged := vars.foldl (fun acc w => unionSorted acc (getCset σ (getVar σ w).cset)) (getCset σ i.cset)
            let σ := setCset σ i.cset merged
            let σ := vars.foldl (fun σ w => setVar σ w { (getVar σ w) with cset := i.cset }) σ
            checkConstraintsP L ord m3 occ n σ v

/-- `above(self=v, new)` (type.py:832-861) -/
def aboveP (L : Lang) (ord : List Nat → List Nat) (m3 : Store → Nat → Bool → Bool → Term → Term → Option Bool) (occ : Store → Nat → Term → Term → Bool) : Nat → Store → Nat → Nat → R
  | 0, _, _, _ => .error .outOfFuel
  | n+1, σ, v, new =>
    if new == TOP then bindP L ord m3 occ n σ v (.app TOP [])
    else
      let i := { (getVar σ v) with wildcard := false }
      let σ := setVar σ v i
      if i.bound.isSome then .error (.internal "above:assert not self.bound")
      else
        let r : R :=
          if i.upper.any (fun u => opSub L u new true) then .error .subtypeMismatch
          else if i.upper.any (fun u => !opSub L new u) then .error .subtypeMismatch
          else if i.lower.any (fun l => opSub L new l true) then .ok σ
          else if i.lower.all (fun l => opSub L l new) then
            checkConstraintsP L ord m3 occ n (setVar σ v { i with lower := some new }) v
          else .error .subtypeMismatch
        match r with
        | .error e => .error e
        | .ok σ =>
          let i := getVar σ v
          if i.bound.isNone && i.lower.isSome && i.lower == i.upper then
            match i.lower with
            | some l => bindP L ord m3 occ n σ v (.app l [])
            | none => .ok σ
          else .ok σ

/-- `below(self=v, new)` (type.py:863-887) -/
def belowP (L : Lang) (ord : List Nat → List Nat) (m3 : Store → Nat → Bool → Bool → Term → Term → Option Bool) (occ : Store → Nat → Term → Term → Bool) : Nat → Store → Nat → Nat → R
  | 0, _, _, _ => .error .outOfFuel
  | n+1, σ, v, new =>
    if new == BOT then bindP L ord m3 occ n σ v (.app BOT [])
    else
      let i := { (getVar σ v) with wildcard := false }
      let σ := setVar σ v i
      if i.bound.isSome then .error (.internal "below:assert not self.bound")
      else
        let r : R :=
          if i.lower.any (fun l => opSub L new l true) then .error .subtypeMismatch
          else if i.lower.any (fun l => !opSub L l new) then .error .subtypeMismatch
          else if i.upper.any (fun u => opSub L u new true) then .ok σ
          else if i.upper.all (fun u => opSub L new u) then
            checkConstraintsP L ord m3 occ n (setVar σ v { i with upper := some new }) v
          else .error .subtypeMismatch
        match r with
        | .error e => .error e
        | .ok σ =>
          let i := getVar σ v
          if i.bound.isNone && i.upper.isSome && i.upper == i.lower then
            match i.upper with
            | some u => bindP L ord m3 occ n σ v (.app u [])
            | none => .ok σ
          else .ok σ

/-- `check_constraints(self=v)`: snapshot of the set, creation order -/
def checkConstraintsP (L : Lang) (ord : List Nat → List Nat) (m3 : Store → Nat → Bool → Bool → Term → Term → Option Bool) (occ : Store → Nat → Term → Term → Bool) : Nat → Store → Nat → R
  | 0, _, _ => .error .outOfFuel
  | n+1, σ, v => checkListP L ord m3 occ n σ v (ord (getCset σ (getVar σ v).cset))

def checkListP (L : Lang) (ord : List Nat → List Nat) (m3 : Store → Nat → Bool → Bool → Term → Term → Option Bool) (occ : Store → Nat → Term → Term → Bool) : Nat → Store → Nat → List Nat → R
  | 0, _, _, _ => .error .outOfFuel
  | _+1, σ, _, [] => .ok σ
  | n+1, σ, v, c :: cs =>
    match fulfillP L ord m3 occ n σ c with
    | .error e => .error e
    | .ok (σ1, done) =>
      let σ2 := if done then
          let k := (getVar σ1 v).cset
          setCset σ1 k ((getCset σ1 k).filter (· != c))
        else σ1
      checkListP L ord m3 occ n σ2 v cs

/-- `Constraint.fulfill()` for both kinds (type.py:997-1004, 1051-1086) -/
def fulfillP (L : Lang) (ord : List Nat → List Nat) (m3 : Store → Nat → Bool → Bool → Term → Term → Option Bool) (occ : Store → Nat → Term → Term → Bool) : Nat → Store → Nat → Except Err (Store × Bool)
  | 0, _, _ => .error .outOfFuel
  | n+1, σ, c =>
    match getConstr σ c with
    | .sub ref tgt _ _ =>
      match unifyP L ord m3 occ n σ ref tgt true true false with
      | .error e => .error e
      | .ok σ1 =>
        match m3 σ1 (matchFuel σ1) true false ref tgt with
        | some true =>
          (match getConstr σ1 c with
           | .sub r t s _ => .ok (setConstr σ1 c (.sub r t s true), true)
           | _ => .ok (σ1, true))
        | some false => .error .constraintViolation
        | none =>
          (match getConstr σ1 c with
           | .sub _ _ _ f => .ok (σ1, f)
           | _ => .ok (σ1, false))
    | .elim _ _ true => .ok (σ, true)
    | .elim _ _ false =>
      match minimizeP L ord m3 occ n σ c with
      | .error e => .error e
      | .ok σ1 =>
        match getConstr σ1 c with
        | .elim ref alts ful =>
          let normalized (t : Term) : Bool := match t with
            | .var v => (getVar σ1 v).bound.isNone
            | _ => true
          if !(normalized ref && alts.all normalized) then
            .error (.internal "fulfill:assert normalized")
          else
            let alts' := alts.filter (fun t => m3 σ1 (matchFuel σ1) true true ref t != some false)
            match alts' with
            | [] => .error .constraintViolation
            | [only] =>
              let σ2 := setConstr σ1 c (.elim ref alts' true)
              (match unifyP L ord m3 occ n σ2 ref only true false false with
               | .error e => .error e
               | .ok σ3 => .ok (σ3, true))
            | _ => .ok (setConstr σ1 c (.elim ref alts' ful), ful)
        | _ => .error (.internal "fulfill:constraint changed kind")

/-- `EliminationConstraint.minimize()` (type.py:1031-1049); the kept alternatives are followed once more at the end: fixing a
later alternative may have bound a variable that is an earlier alternative -/
def minimizeP (L : Lang) (ord : List Nat → List Nat) (m3 : Store → Nat → Bool → Bool → Term → Term → Option Bool) (occ : Store → Nat → Term → Term → Bool) : Nat → Store → Nat → R
  | 0, _, _ => .error .outOfFuel
  | n+1, σ, c =>
    match getConstr σ c with
    | .elim ref alts _ =>
      match minLoopP L ord m3 occ n σ alts [] with
      | .error e => .error e
      | .ok (σ1, minimized) =>
        (match getConstr σ1 c with
         | .elim _ _ ful => .ok (setConstr σ1 c (.elim (followT σ1 ref) (minimized.map (followT σ1)) ful))
         | _ => .ok σ1)
    | _ => .ok σ

def minLoopP (L : Lang) (ord : List Nat → List Nat) (m3 : Store → Nat → Bool → Bool → Term → Term → Option Bool) (occ : Store → Nat → Term → Term → Bool) : Nat → Store → List Term → List Term → Except Err (Store × List Term)
  | 0, _, _, _ => .error .outOfFuel
  | _+1, σ, [], minimized => .ok (σ, minimized)
  | n+1, σ, obj :: rest, minimized =>
    -- for i in range(len(minimized)): …
    let step (acc : List Term × Bool) (m : Term) : List Term × Bool :=
      let m' := if m3 σ (matchFuel σ) true false m obj == some true then followT σ obj else m
      let add' := if m3 σ (matchFuel σ) true false obj m' == some true then false else acc.2
      (acc.1 ++ [m'], add')
    let (minimized', add) := minimized.foldl step ([], true)
    if add then
      match fixP L ord m3 occ n σ (followT σ obj) true with
      | .error e => .error e
      | .ok (σ1, t) => minLoopP L ord m3 occ n σ1 rest (minimized' ++ [t])
    else minLoopP L ord m3 occ n σ rest minimized'

/-- `fix(self=t, prefer_lower)` (type.py:394-409) -/
def fixP (L : Lang) (ord : List Nat → List Nat) (m3 : Store → Nat → Bool → Bool → Term → Term → Option Bool) (occ : Store → Nat → Term → Term → Bool) : Nat → Store → Term → Bool → Except Err (Store × Term)
  | 0, _, _, _ => .error .outOfFuel
  | n+1, σ, t, pl =>
    match followT σ t with
    | .app o args =>
      match fixListP L ord m3 occ n σ (varianceOf L o) args pl with
      | .error e => .error e
      | .ok σ1 => .ok (σ1, .app o args)
    | .var v =>
      let i := getVar σ v
      let r : R :=
        if pl && i.lower.isSome then
          match i.lower with
          | some l => bindP L ord m3 occ n σ v (.app l [])
          | none => .ok σ
        else if !pl && i.upper.isSome then
          match i.upper with
          | some u => bindP L ord m3 occ n σ v (.app u [])
          | none => .ok σ
        else .ok σ
      match r with
      | .error e => .error e
      | .ok σ1 => .ok (σ1, followT σ1 (.var v))

def fixListP (L : Lang) (ord : List Nat → List Nat) (m3 : Store → Nat → Bool → Bool → Term → Term → Option Bool) (occ : Store → Nat → Term → Term → Bool) : Nat → Store → List Bool → List Term → Bool → R
  | 0, _, _, _, _ => .error .outOfFuel
  | n+1, σ, v :: vs, p :: ps, pl =>
    -- prefer_lower ^ (v == Variance.CONTRA)
    match fixP L ord m3 occ n σ p (if v then pl else !pl) with
    | .error e => .error e
    | .ok (σ1, _) => fixListP L ord m3 occ n σ1 vs ps pl
  | _+1, σ, _, _, _ => .ok σ
end

/-! ### Schemas, constraint creation, application -/




/-- `Constraint.__init__`: register, `inform()`, first `fulfill()` -/
def addConstraintP (L : Lang) (ord : List Nat → List Nat) (m3 : Store → Nat → Bool → Bool → Term → Term → Option Bool) (occ : Store → Nat → Term → Term → Bool) (fuel : Nat) (σ : Store) (c : Constr) : R :=
  let id := σ.constrs.length
  -- `reference.instance()` / `target.instance()` follow their argument
  let c := match c with
    | .sub r t s f => Constr.sub (followT σ r) (followT σ t) s f
    | .elim r alts f => Constr.elim r (alts.map (followT σ)) f
  let σ := { σ with constrs := σ.constrs ++ [c] }
  let vars := varsOfTerms σ (constrTerms c)
  if vars.any (fun v => (getVar σ v).bound.isSome) then .error (.internal "inform:assert not v.bound")
  else
    let σ := vars.foldl (fun σ v =>
      let k := (getVar σ v).cset
      setCset σ k (insertSorted id (getCset σ k))) σ
    match fulfillP L ord m3 occ fuel σ id with
    | .error e => .error e
    | .ok (σ1, _) => .ok σ1

def addConstraintsP (L : Lang) (ord : List Nat → List Nat) (m3 : Store → Nat → Bool → Bool → Term → Term → Option Bool) (occ : Store → Nat → Term → Term → Bool) (fuel : Nat) (base : Nat) : Store → List CAst → R
  | σ, [] => .ok σ
  | σ, c :: cs =>
    let c' := match c with
      | .sub r t s => Constr.sub (r.shift base) (t.shift base) s false
      | .elim r alts => Constr.elim (followT σ (r.shift base)) (Term.shiftL base alts) false
    match addConstraintP L ord m3 occ fuel σ c' with
    | .error e => .error e
    | .ok σ1 => addConstraintsP L ord m3 occ fuel base σ1 cs

/-- `TypeSchema.instance()`: fresh variables, constraints in source order, `fix(prefer_lower=True)` -/
def instantiateP (L : Lang) (ord : List Nat → List Nat) (m3 : Store → Nat → Bool → Bool → Term → Term → Option Bool) (occ : Store → Nat → Term → Term → Bool) (fuel : Nat) (σ : Store) (s : Schema) : Except Err (Store × Term) :=
  let base := σ.vars.length
  let σ := allocVars σ s.nvars s.nwild
  match addConstraintsP L ord m3 occ fuel base σ s.constraints with
  | .error e => .error e
  | .ok σ1 => fixP L ord m3 occ fuel σ1 (spineFollow σ1 (s.body.shift base)) true

/-- `Type.apply(self=f, arg=x, fix)` (type.py:134-157) -/
def applyTP (L : Lang) (ord : List Nat → List Nat) (m3 : Store → Nat → Bool → Bool → Term → Term → Option Bool) (occ : Store → Nat → Term → Term → Bool) (fuel : Nat) (σ : Store) (f x : Term) (fixFlag : Bool := true) : Except Err (Store × Term) :=
  let f0 := followT σ f
  let x0 := followT σ x
  let pre : Except Err (Store × Term) :=
    match f0 with
    | .var fv =>
      let (σ1, a) := newVar σ
      let (σ2, b) := newVar σ1
      match bindP L ord m3 occ fuel σ2 fv (.app FUN [.var a, .var b]) with
      | .error e => .error e
      | .ok σ3 => .ok (σ3, followT σ3 (.var fv))
    | t => .ok (σ, t)
  match pre with
  | .error e => .error e
  | .ok (σ, f1) =>
    match f1 with
    | .app o [l, r] =>
      if o == FUN then
        match unifyP L ord m3 occ fuel σ x0 l true false false with
        | .error e => .error e
        | .ok σ1 =>
          let isFun := match r with
            | .app o' _ => o' == FUN
            | _ => false
          if fixFlag && !isFun then fixP L ord m3 occ fuel σ1 r true else .ok (σ1, r)
      else if o == TOP then .ok (σ, .app TOP []) else .error .functionApplication
    | .app o _ => if o == TOP then .ok (σ, .app TOP []) else .error .functionApplication
    | .var _ => .error .functionApplication

/-! ## the abstract engine at `match3`/`occurs` is the scheduled engine -/

/-- all twelve functions of the block agree at fuel `n` -/
structure BlockP (L : Lang) (ord : List Nat → List Nat) (n : Nat) : Prop where
  unify : ∀ σ a b st sb sw, unifyP L ord (match3 L) (occurs L) n σ a b st sb sw = unifyS L ord n σ a b st sb sw
  unifyList : ∀ σ vs xs ys st sb sw, unifyListP L ord (match3 L) (occurs L) n σ vs xs ys st sb sw = unifyListS L ord n σ vs xs ys st sb sw
  bind : ∀ σ v t, bindP L ord (match3 L) (occurs L) n σ v t = bindS L ord n σ v t
  above : ∀ σ v o, aboveP L ord (match3 L) (occurs L) n σ v o = aboveS L ord n σ v o
  below : ∀ σ v o, belowP L ord (match3 L) (occurs L) n σ v o = belowS L ord n σ v o
  checkConstraints : ∀ σ v, checkConstraintsP L ord (match3 L) (occurs L) n σ v = checkConstraintsS L ord n σ v
  checkList : ∀ σ v cs, checkListP L ord (match3 L) (occurs L) n σ v cs = checkListS L ord n σ v cs
  fulfill : ∀ σ c, fulfillP L ord (match3 L) (occurs L) n σ c = fulfillS L ord n σ c
  minimize : ∀ σ c, minimizeP L ord (match3 L) (occurs L) n σ c = minimizeS L ord n σ c
  minLoop : ∀ σ alts acc, minLoopP L ord (match3 L) (occurs L) n σ alts acc = minLoopS L ord n σ alts acc
  fix : ∀ σ t pl, fixP L ord (match3 L) (occurs L) n σ t pl = fixS L ord n σ t pl
  fixList : ∀ σ vs ps pl, fixListP L ord (match3 L) (occurs L) n σ vs ps pl = fixListS L ord n σ vs ps pl

theorem blockP_zero (L : Lang) (ord : List Nat → List Nat) : BlockP L ord 0 where
  unify := by intros; simp only [unifyP, unifyS]
  unifyList := by intros; simp only [unifyListP, unifyListS]
  bind := by intros; simp only [bindP, bindS]
  above := by intros; simp only [aboveP, aboveS]
  below := by intros; simp only [belowP, belowS]
  checkConstraints := by intros; simp only [checkConstraintsP, checkConstraintsS]
  checkList := by intros; simp only [checkListP, checkListS]
  fulfill := by intros; simp only [fulfillP, fulfillS]
  minimize := by intros; simp only [minimizeP, minimizeS]
  minLoop := by intros; simp only [minLoopP, minLoopS]
  fix := by intros; simp only [fixP, fixS]
  fixList := by intros; simp only [fixListP, fixListS]

theorem blockP_succ {L : Lang} {ord : List Nat → List Nat} {n : Nat} (ih : BlockP L ord n) : BlockP L ord (n+1) where
  unify := by intros; (simp only [unifyP, unifyS, ih.bind, ih.unify, ih.unifyList, ih.above, ih.below]; try rfl)
  unifyList := by
    intro σ vs xs ys st sb sw
    cases vs <;> cases xs <;> cases ys <;> (simp only [unifyListP, unifyListS, ih.unify, ih.unifyList]; try rfl)
  bind := by intros; (simp only [bindP, bindS, ih.unify, ih.checkConstraints]; try rfl)
  above := by intros; (simp only [aboveP, aboveS, ih.bind, ih.checkConstraints]; try rfl)
  below := by intros; (simp only [belowP, belowS, ih.bind, ih.checkConstraints]; try rfl)
  checkConstraints := by intros; (simp only [checkConstraintsP, checkConstraintsS, ih.checkList]; try rfl)
  checkList := by
    intro σ v cs
    cases cs <;> (simp only [checkListP, checkListS, ih.fulfill, ih.checkList]; try rfl)
  fulfill := by intros; (simp only [fulfillP, fulfillS, ih.unify, ih.minimize]; try rfl)
  minimize := by intros; (simp only [minimizeP, minimizeS, ih.minLoop]; try rfl)
  minLoop := by
    intro σ alts acc
    cases alts <;> (simp only [minLoopP, minLoopS, ih.fix, ih.minLoop]; try rfl)
  fix := by intros; (simp only [fixP, fixS, ih.bind, ih.fixList]; try rfl)
  fixList := by
    intro σ vs ps pl
    cases vs <;> cases ps <;> (simp only [fixListP, fixListS, ih.fix, ih.fixList]; try rfl)

theorem blockP (L : Lang) (ord : List Nat → List Nat) : ∀ n, BlockP L ord n
  | 0 => blockP_zero L ord
  | n+1 => blockP_succ (blockP L ord n)

theorem addConstraintP_eq (L : Lang) (ord : List Nat → List Nat) (fuel : Nat) (σ : Store) (c : Constr) :
    addConstraintP L ord (match3 L) (occurs L) fuel σ c = addConstraintS L ord fuel σ c := by
  simp only [addConstraintP, addConstraintS, (blockP L ord fuel).fulfill]
  try rfl

theorem addConstraintsP_eq (L : Lang) (ord : List Nat → List Nat) (fuel base : Nat) : ∀ (σ : Store) (cs : List CAst),
    addConstraintsP L ord (match3 L) (occurs L) fuel base σ cs = addConstraintsS L ord fuel base σ cs
  | σ, [] => by simp only [addConstraintsP, addConstraintsS]
  | σ, c :: cs => by
    simp only [addConstraintsP, addConstraintsS, addConstraintP_eq]
    cases addConstraintS L ord fuel σ _ with
    | error e => rfl
    | ok σ1 => exact addConstraintsP_eq L ord fuel base σ1 cs

theorem instantiateP_eq (L : Lang) (ord : List Nat → List Nat) (fuel : Nat) (σ : Store) (s : Schema) :
    instantiateP L ord (match3 L) (occurs L) fuel σ s = instantiateS L ord fuel σ s := by
  simp only [instantiateP, instantiateS, addConstraintsP_eq, (blockP L ord fuel).fix]
  try rfl

theorem applyTP_eq (L : Lang) (ord : List Nat → List Nat) (fuel : Nat) (σ : Store) (f x : Term) (fixFlag : Bool) :
    applyTP L ord (match3 L) (occurs L) fuel σ f x fixFlag = applyTS L ord fuel σ f x fixFlag := by
  simp only [applyTP, applyTS, (blockP L ord fuel).bind, (blockP L ord fuel).unify, (blockP L ord fuel).fix]
  try rfl

/-- the kernel-evaluable instance -/
theorem instantiateS_eq_K (L : Lang) (perm : List Nat) (fuel : Nat) (σ : Store) (s : Schema) :
    instantiateS L (priorityOrd perm) fuel σ s = instantiateP L (insOrd perm) (match3K L) (occursK L) fuel σ s := by
  rw [← instantiateP_eq, match3K_funext, occursK_funext, priorityOrd_funext]

theorem applyTS_eq_K (L : Lang) (perm : List Nat) (fuel : Nat) (σ : Store) (f x : Term) (fixFlag : Bool) :
    applyTS L (priorityOrd perm) fuel σ f x fixFlag = applyTP L (insOrd perm) (match3K L) (occursK L) fuel σ f x fixFlag := by
  rw [← applyTP_eq, match3K_funext, occursK_funext, priorityOrd_funext]

end Tfv.C18P
