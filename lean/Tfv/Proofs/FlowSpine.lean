import Tfv.Proofs.FlowCore
/-!
# C08 proofs, part 2: one node per spine

`addExpr` recurses through the binary applications of a spine `h a₁ … aₙ` with the *same*
current node, so the whole spine becomes one node; on the edge-only core this turns the binary
recursion into a left fold over the arguments (`addExprC_spine`).
-/
namespace Tfv.C08P
open Tfv

/-! ## on the model itself, any configuration -/

theorem addExpr_app_node {G : GLang} {c : GCfg} {root : Node} {origin : Option Node} {g g' : GState}
    {f x : TExpr} {ty : Term} {cur : Option Nat} {im : Bool} {n : Nat}
    (h : addExpr G c root origin g (.app f x ty) cur im = .ok (g', n)) :
    n = (curG g cur).2 ∧
    ∃ g1 fnode, addExpr G c root origin (curG g cur).1 f (some (curG g cur).2) im = .ok (g1, fnode) := by
  rw [addExpr_app] at h
  cases hf : addExpr G c root origin (curG g cur).1 f (some (curG g cur).2) im with
  | error e => rw [hf] at h; cases h
  | ok p =>
    obtain ⟨g1, fnode⟩ := p
    rw [hf] at h
    simp only [] at h
    split at h
    · cases h
    · cases h
      exact ⟨rfl, g1, fnode, rfl⟩

/-- an expression that is an application or an operator (not a source, not a shared object) is
given the node the caller reserved -/
theorem addExpr_node_of_not_leaf {G : GLang} {c : GCfg} {root : Node} {origin : Option Node} {g g' : GState}
    {e : TExpr} {cur : Option Nat} {im : Bool} {n : Nat}
    (he : e.isLeafData = false)
    (h : addExpr G c root origin g e cur im = .ok (g', n)) : n = (curG g cur).2 := by
  cases e with
  | src id l ty => cases he
  | shared k e => cases he
  | app f x ty => exact (addExpr_app_node h).1
  | op name ty =>
    rw [addExpr_op] at h
    simp only [] at h
    split at h
    · cases h
    · cases h; rfl

/-- every function part of a spine is added with the same reserved node, and answers with it -/
theorem addExpr_spine_prefixes {G : GLang} {c : GCfg} {root : Node} {origin : Option Node} {im : Bool} {cur : Nat} :
    ∀ (e : TExpr) (g g' : GState) (n : Nat), addExpr G c root origin g e (some cur) im = .ok (g', n) →
      ∀ s ∈ spinePrefixes e, ∃ g1 m, addExpr G c root origin g s (some cur) im = .ok (g1, m) ∧
        (s.isLeafData = false → m = cur)
  | .src id l ty, g, g', n, h, s, hs => by
    simp only [spinePrefixes, List.mem_singleton] at hs
    subst hs
    exact ⟨g', n, h, fun hl => by cases hl⟩
  | .shared k e, g, g', n, h, s, hs => by
    simp only [spinePrefixes, List.mem_singleton] at hs
    subst hs
    exact ⟨g', n, h, fun hl => by cases hl⟩
  | .op name ty, g, g', n, h, s, hs => by
    simp only [spinePrefixes, List.mem_singleton] at hs
    subst hs
    exact ⟨g', n, h, fun hl => addExpr_node_of_not_leaf hl h⟩
  | .app f x ty, g, g', n, h, s, hs => by
    simp only [spinePrefixes, List.mem_cons] at hs
    rcases hs with rfl | hs
    · exact ⟨g', n, h, fun hl => addExpr_node_of_not_leaf hl h⟩
    · obtain ⟨_, g1, fnode, hf⟩ := addExpr_app_node h
      exact addExpr_spine_prefixes f g g1 fnode hf s hs

/-! ## on the core: the spine as a fold over the arguments -/

/-- what `addExprC` does for one argument `x` of the spine whose node is `fnode` -/
def argStepC (fnode : Nat) (k : Core) (x : TExpr) : Core :=
  let kx := k.fresh
  let ki := mkInternal kx.1 fnode x.ty.isFunction
  let ka := addExprC ki.1 x (some kx.2)
  wire ka.1 fnode ka.2 ki.2

theorem addExprC_app (k : Core) (f x : TExpr) (ty : Term) (cur : Option Nat) :
    addExprC k (.app f x ty) cur =
      (argStepC (addExprC (k.cur cur).1 f (some (k.cur cur).2)).2 (addExprC (k.cur cur).1 f (some (k.cur cur).2)).1 x,
        (k.cur cur).2) := by
  rw [addExprC]; rfl

@[simp] theorem cur_some (k : Core) (n : Nat) : k.cur (some n) = (k, n) := rfl

/-- the spine lemma: a spine with an operator at its head is the current node plus a left fold
over its arguments -/
theorem addExprC_spine : ∀ (e : TExpr) (name : String) (ty : Term) (k : Core) (cur : Option Nat),
    headOf e = .op name ty →
    addExprC k e cur = ((argsOf e).foldl (argStepC (k.cur cur).2) (k.cur cur).1, (k.cur cur).2)
  | .src _ _ _, _, _, _, _, h => by cases h
  | .shared _ _, _, _, _, _, h => by cases h
  | .op _ _, _, _, _, _, _ => rfl
  | .app f x t, name, ty, k, cur, h => by
    have ih := addExprC_spine f name ty (k.cur cur).1 (some (k.cur cur).2) h
    rw [addExprC_app, ih]
    simp only [cur_some, argsOf, List.foldl_append, List.foldl_cons, List.foldl_nil]

end Tfv.C08P
