"""C19 - graph generation is deterministic up to blank-node renaming."""
from __future__ import annotations
import json, os, subprocess, sys

RULE = ("for seeded, deterministically generated languages (constraint alternatives as lists), expressions and workflows: the vocabulary (with and without "
        "closure; labels and printed signatures on), expression graphs and workflow graphs (random with_* switches, labels on) are generated in fresh "
        "interpreters with PYTHONHASHSEED 0, 1, 2, 3 and 'random', and once more after unrelated graphs and junk allocations from the same language with the "
        "tool applications listed in reverse; of each graph (running numbers of printed variable names removed, nothing else) an isomorphism-invariant digest is taken (harness/iso.py, colour refinement) "
        "and compared across all runs, equal digests are confirmed by an exact isomorphism test; non-trivial = the graph has at least 10 triples; distinct by graph identity")
ASSUMPTIONS = ["hash-seed and allocation-history dependence is runtime behaviour the Lean model cannot exhibit: the theorems cover order-independence of the "
               "model's set-iterating steps (canon work list, emission order), the runtime part is exercised here"]
TRUSTED = ["harness/workers/c19_worker.py", "harness/iso.py (invariant digest, exact isomorphism)"]

HERE = os.path.dirname(os.path.dirname(os.path.abspath(__file__)))


def worker(seed, nlang, hashseed, unrelated):
    env = dict(os.environ)
    env["PYTHONHASHSEED"] = str(hashseed)
    env["TRANSFORGE_VERIF"] = "1"
    p = subprocess.run([sys.executable, os.path.join(HERE, "workers", "c19_worker.py"), str(seed), str(nlang), "1" if unrelated else "0"],
        stdout=subprocess.PIPE, stderr=subprocess.PIPE, text=True, env=env, timeout=1200)
    if p.returncode != 0:
        raise RuntimeError("worker failed: " + p.stderr[-800:])
    return json.loads(p.stdout.strip().splitlines()[-1])


def exact_same(a, b):
    """the digest is isomorphism-invariant but not complete: confirm by an exact isomorphism test (harness/iso.py)"""
    import iso
    return iso.isomorphic_triples([tuple(t) for t in a.get("triples", [])], [tuple(t) for t in b.get("triples", [])])


def run(ctx):
    nlang = 10 if ctx.tier == "quick" else 30
    seeds = [ctx.seed * 7 + 1] if ctx.tier == "quick" else [ctx.seed * 7 + k for k in range(1, 4)]
    for seed in seeds:
        configs = [("0", False), ("1", False), ("2", False), ("random", False), ("3", True)]
        if ctx.tier == "thorough":
            configs += [("4", False), ("random", True), ("5", True)]
        from concurrent.futures import ThreadPoolExecutor
        with ThreadPoolExecutor(max_workers=8) as ex:
            runs = list(ex.map(lambda c: worker(seed, nlang, c[0], c[1]), configs))
        base = runs[0]
        for i, item in enumerate(base):
            ctx.evaluations += 1
            if item.get("n", 0) >= 10:
                ctx.distinct.add((seed, item["what"]))
            kind = item["what"].split("/")[1] if "/" in item["what"] else "lang"
            ctx.count("graphs_" + kind)
            digests = {}
            for (hs, unrel), r in zip(configs, runs):
                d = r[i]["digest"] if i < len(r) and r[i]["what"] == item["what"] else "missing/" + (r[i]["what"] if i < len(r) else "-")
                if d == item["digest"] and r is not base and not d.startswith("E:") and not exact_same(item, r[i]):
                    d += "!not-isomorphic"     # equal colour-refinement digests, yet no isomorphism exists
                digests[f"hashseed={hs}{',after-unrelated' if unrel else ''}"] = d
            # the literal text with the running numbers removed must agree in every run, printed order included
            same_history = {v for k, v in digests.items() if "after" not in k}
            # the after-unrelated runs list the tool applications in reverse: when the workflow is rejected, WHICH error comes
            # first may follow that order (C12, known finding D26); there is no graph to compare then
            across = {("E" if v.startswith("E:") else v) for v in digests.values()}
            if len(same_history) > 1 or len(across) > 1:
                ctx.fail(f"{item['what']}: canonical graph differs between runs: {digests}",
                    {"check": "nondeterminism", "kind": kind, "only_after_unrelated": len(same_history) == 1},
                    {"seed": seed, "nlang": nlang, "what": item["what"], "digests": digests})
        if len(ctx.samples) < 3:
            ctx.samples.append({"case": base[0]["what"], "impl": base[0]["digest"]})


def replay(ctx, payload):
    inp = payload["input"]
    runs = [worker(inp["seed"], inp["nlang"], hs, un) for hs, un in (("0", False), ("1", False), ("random", False), ("3", True))]
    ok = True
    for i, item in enumerate(runs[0]):
        if item["what"] == inp["what"]:
            ds = [r[i]["digest"] for r in runs]
            print(item["what"], ds)
            ok = len(set(ds)) == 1
    return ok
