import Tfv.Proofs.QueryUnfoldModes
/-!
# The unfolded task as a task: one step per path, `MatchesUnfolded t ↔ Matches (unfoldTask t)`

The steps of `unfoldTask t` are the paths of `t` from an output (numbered in the order in which the generator
creates their variables); the copy `p` of step `k` has the types and operators of `k`, and as predecessors the
copies `p ++ [b]` of the predecessors `b` of `k`.
-/
namespace Tfv

variable {g : List Triple} {wf : Node}

/-- the number of path `p` -/
def pathIdx (a : QAssign) (p : List Nat) : Nat := (a.vars.map (·.1)).idxOf p

/-- the task with one step per path variable of `a` -/
def unfoldWith (t : QTask) (a : QAssign) : QTask :=
  { steps := a.vars.map (fun x =>
      { types := (t.step x.2).types, ops := (t.step x.2).ops,
        from_ := (t.step x.2).from_.map (fun b => pathIdx a (x.1 ++ [b])) }),
    outputs := a.outs.map (pathIdx a),
    inputs := a.ins.map (pathIdx a) }

/-- the tree obtained from `t` by duplicating shared steps (`t` itself if `t` is cyclic: no query then) -/
def unfoldTask (t : QTask) : QTask :=
  match assignAll t { unfoldTree := true } with
  | .ok a => unfoldWith t a
  | .error _ => t

theorem pathIdx_lt {t : QTask} {a : QAssign} (ha : AssignOkU t a) {p : List Nat} {k : Nat} (hp : PathTo t p k) :
    pathIdx a p < a.vars.length := by
  have : p ∈ a.vars.map (·.1) := List.mem_map.2 ⟨(p, k), (ha.vars p k).2 hp, rfl⟩
  have := List.idxOf_lt_length_iff.2 this
  simpa [pathIdx] using this

theorem vars_pathIdx {t : QTask} {a : QAssign} (ha : AssignOkU t a) {p : List Nat} {k : Nat} (hp : PathTo t p k) :
    a.vars[pathIdx a p]'(pathIdx_lt ha hp) = (p, k) := by
  have hlt := pathIdx_lt ha hp
  have h1 : (a.vars.map (·.1))[pathIdx a p]'(by simpa using hlt) = p :=
    List.getElem_idxOf (by simpa [pathIdx] using hlt)
  rw [List.getElem_map] at h1
  have hm : a.vars[pathIdx a p] ∈ a.vars := List.getElem_mem _
  generalize a.vars[pathIdx a p] = x at h1 hm
  obtain ⟨p', k'⟩ := x
  simp only at h1
  subst h1
  have := ((ha.vars p' k').1 hm).getLast
  rw [hp.getLast] at this
  simp only [Option.some.injEq] at this
  rw [this]

theorem pathIdx_inj {t : QTask} {a : QAssign} (ha : AssignOkU t a) {p p' : List Nat} {k k' : Nat}
    (hp : PathTo t p k) (hp' : PathTo t p' k') (h : pathIdx a p = pathIdx a p') : p = p' := by
  have h1 := vars_pathIdx ha hp
  have h2 := vars_pathIdx ha hp'
  simp only [h] at h1
  rw [h1] at h2
  exact (Prod.mk.inj h2).1

theorem unfoldWith_step {t : QTask} {a : QAssign} (ha : AssignOkU t a) {p : List Nat} {k : Nat} (hp : PathTo t p k) :
    (unfoldWith t a).step (pathIdx a p) =
      { types := (t.step k).types, ops := (t.step k).ops,
        from_ := (t.step k).from_.map (fun b => pathIdx a (p ++ [b])) } := by
  have hlt := pathIdx_lt ha hp
  unfold QTask.step unfoldWith
  simp only [List.getD_eq_getElem?_getD, List.getElem?_map]
  rw [List.getElem?_eq_getElem hlt, vars_pathIdx ha hp]
  rfl

theorem unfoldWith_outputs {t : QTask} {a : QAssign} (ha : AssignOkU t a) (i : Nat) :
    i ∈ (unfoldWith t a).outputs ↔ ∃ p o, PathTo t p o ∧ o ∈ t.outputs ∧ i = pathIdx a p := by
  unfold unfoldWith
  simp only [List.mem_map]
  constructor
  · rintro ⟨p, hp, rfl⟩
    obtain ⟨o, hpo, ho⟩ := (ha.outs p).1 hp
    exact ⟨p, o, hpo, ho, rfl⟩
  · rintro ⟨p, o, hpo, ho, rfl⟩
    exact ⟨p, (ha.outs p).2 ⟨o, hpo, ho⟩, rfl⟩

theorem unfoldWith_inputs {t : QTask} {a : QAssign} (ha : AssignOkU t a) (i : Nat) :
    i ∈ (unfoldWith t a).inputs ↔ ∃ p o, PathTo t p o ∧ o ∈ t.inputs ∧ i = pathIdx a p := by
  unfold unfoldWith
  simp only [List.mem_map]
  constructor
  · rintro ⟨p, hp, rfl⟩
    obtain ⟨o, hpo, ho⟩ := (ha.ins p).1 hp
    exact ⟨p, o, hpo, ho, rfl⟩
  · rintro ⟨p, o, hpo, ho, rfl⟩
    exact ⟨p, (ha.ins p).2 ⟨o, hpo, ho⟩, rfl⟩

theorem unfoldWith_from {t : QTask} {a : QAssign} (ha : AssignOkU t a) {p : List Nat} {k : Nat} (hp : PathTo t p k)
    (i : Nat) : i ∈ ((unfoldWith t a).step (pathIdx a p)).from_ ↔ ∃ b ∈ (t.step k).from_, i = pathIdx a (p ++ [b]) := by
  rw [unfoldWith_step ha hp]
  simp only [List.mem_map]
  constructor
  · rintro ⟨b, hb, rfl⟩
    exact ⟨b, hb, rfl⟩
  · rintro ⟨b, hb, rfl⟩
    exact ⟨b, hb, rfl⟩

/-- the reachable steps of the unfolded task are the paths of the task -/
theorem unfoldWith_reach {t : QTask} {a : QAssign} (ha : AssignOkU t a) (i : Nat) :
    StepReach (unfoldWith t a) i ↔ ∃ p k, PathTo t p k ∧ i = pathIdx a p := by
  constructor
  · intro h
    induction h with
    | out ho =>
      obtain ⟨p, o, hp, _, rfl⟩ := (unfoldWith_outputs ha _).1 ho
      exact ⟨p, o, hp, rfl⟩
    | step _ hb ih =>
      obtain ⟨p, k, hp, rfl⟩ := ih
      obtain ⟨b, hb', rfl⟩ := (unfoldWith_from ha hp _).1 hb
      exact ⟨_, b, .step hp hb', rfl⟩
  · rintro ⟨p, k, hp, rfl⟩
    induction hp with
    | out ho => exact .out ((unfoldWith_outputs ha _).2 ⟨_, _, .out ho, ho, rfl⟩)
    | step hc hb ih => exact .step ih ((unfoldWith_from ha hc _).2 ⟨_, hb, rfl⟩)

theorem unfoldWith_relaxed {t : QTask} {a : QAssign} (ha : AssignOkU t a) {p : List Nat} {c b : Nat}
    (hp : PathTo t p c) (hb : b ∈ (t.step c).from_) :
    relaxedLink (unfoldWith t a) (pathIdx a p) (pathIdx a (p ++ [b])) = relaxedLink t c b := by
  unfold relaxedLink
  simp only [unfoldWith_step ha hp, unfoldWith_step ha (.step hp hb)]

/-- no sharing in the unfolded task: a reachable step has one parent only -/
theorem unfoldWith_unshared {t : QTask} {a : QAssign} (ha : AssignOkU t a) {c c' i : Nat}
    (hc : StepReach (unfoldWith t a) c) (hc' : StepReach (unfoldWith t a) c')
    (hi : i ∈ ((unfoldWith t a).step c).from_) (hi' : i ∈ ((unfoldWith t a).step c').from_) : c = c' := by
  obtain ⟨p, k, hp, rfl⟩ := (unfoldWith_reach ha c).1 hc
  obtain ⟨p', k', hp', rfl⟩ := (unfoldWith_reach ha c').1 hc'
  obtain ⟨b, hb, rfl⟩ := (unfoldWith_from ha hp _).1 hi
  obtain ⟨b', hb', hi'⟩ := (unfoldWith_from ha hp' _).1 hi'
  have := pathIdx_inj ha (.step hp hb) (.step hp' hb') hi'
  have := List.append_inj_left' this rfl
  rw [this]

theorem matchesBy_unfoldWith_of {G : GLang} {t : QTask} {f : QFlags} {a : QAssign} (ha : AssignOkU t a)
    {h : List Nat → Node} (hm : MatchesUnfoldedBy G t f g wf h) :
    MatchesBy G (unfoldWith t a) f g wf (fun i => h ((a.vars.map (·.1)).getD i [])) := by
  have key : ∀ p k, PathTo t p k → (a.vars.map (·.1)).getD (pathIdx a p) [] = p := by
    intro p k hp
    have hlt := pathIdx_lt ha hp
    rw [List.getD_eq_getElem?_getD, List.getElem?_map, List.getElem?_eq_getElem hlt, vars_pathIdx ha hp]
    rfl
  refine ⟨?_, ?_, ?_, ?_, ?_, ?_⟩
  · intro i hi
    obtain ⟨p, o, hp, ho, rfl⟩ := (unfoldWith_outputs ha i).1 hi
    simp only [key p o hp, unfoldWith_step ha hp]
    exact hm.output p o hp ho
  · intro hch i hi
    obtain ⟨p, k, hp, rfl⟩ := (unfoldWith_reach ha i).1 hi
    simp only [key p k hp, unfoldWith_step ha hp]
    exact hm.step hch p k hp
  · intro hch c i hc hi
    obtain ⟨p, k, hp, rfl⟩ := (unfoldWith_reach ha c).1 hc
    obtain ⟨b, hb, rfl⟩ := (unfoldWith_from ha hp _).1 hi
    simp only [key p k hp, key _ b (.step hp hb), unfoldWith_relaxed ha hp hb]
    exact hm.link hch p k b hp hb
  · intro hio i hi _
    obtain ⟨p, o, hp, ho, rfl⟩ := (unfoldWith_inputs ha i).1 hi
    simp only [key p o hp, unfoldWith_step ha hp]
    exact hm.input hio p o hp ho
  · intro hop i o hi hops
    obtain ⟨p, k, hp, rfl⟩ := (unfoldWith_reach ha i).1 hi
    rw [unfoldWith_step ha hp] at hops
    exact hm.preOps hop k o hp.reach hops
  · intro hty i hi hne
    obtain ⟨p, k, hp, rfl⟩ := (unfoldWith_reach ha i).1 hi
    rw [unfoldWith_step ha hp] at hne ⊢
    exact hm.preTypes hty k hp.reach hne

theorem matchesUnfoldedBy_of_unfoldWith {G : GLang} {t : QTask} {f : QFlags} {a : QAssign} (ha : AssignOkU t a)
    {h : Nat → Node} (hm : MatchesBy G (unfoldWith t a) f g wf h) :
    MatchesUnfoldedBy G t f g wf (fun p => h (pathIdx a p)) := by
  have hr : ∀ p k, PathTo t p k → StepReach (unfoldWith t a) (pathIdx a p) :=
    fun p k hp => (unfoldWith_reach ha _).2 ⟨p, k, hp, rfl⟩
  refine ⟨?_, ?_, ?_, ?_, ?_, ?_⟩
  · intro p o hp ho
    have := hm.output _ ((unfoldWith_outputs ha _).2 ⟨p, o, hp, ho, rfl⟩)
    rw [unfoldWith_step ha hp] at this
    exact this
  · intro hch p k hp
    have := hm.step hch _ (hr p k hp)
    rw [unfoldWith_step ha hp] at this
    exact this
  · intro hch p c b hp hb
    have := hm.link hch _ _ (hr p c hp) ((unfoldWith_from ha hp _).2 ⟨b, hb, rfl⟩)
    rw [unfoldWith_relaxed ha hp hb] at this
    exact this
  · intro hio p i hp hi
    have := hm.input hio _ ((unfoldWith_inputs ha _).2 ⟨p, i, hp, hi, rfl⟩) (hr p i hp)
    rw [unfoldWith_step ha hp] at this
    exact this
  · intro hop k o hk hops
    obtain ⟨p, hp⟩ := reach_pathTo hk
    apply hm.preOps hop _ o (hr p k hp)
    rw [unfoldWith_step ha hp]
    exact hops
  · intro hty k hk hne
    obtain ⟨p, hp⟩ := reach_pathTo hk
    have := hm.preTypes hty _ (hr p k hp)
    rw [unfoldWith_step ha hp] at this
    exact this hne

theorem unfoldTask_eq {t : QTask} (hnc : NoCycle t) :
    ∃ a, AssignOkU t a ∧ unfoldTask t = unfoldWith t a := by
  obtain ⟨a, ha⟩ := (assignAll_ok_iff_any t { unfoldTree := true }).2 hnc
  refine ⟨a, assignAll_okU t _ rfl a ha, ?_⟩
  unfold unfoldTask
  rw [ha]

/-- the unfolded reading of a task is the plain reading of the unfolded task -/
theorem matchesUnfolded_iff_unfoldTask {G : GLang} {t : QTask} {f : QFlags} (hnc : NoCycle t) :
    MatchesUnfolded G t f g wf ↔ Matches G (unfoldTask t) f g wf := by
  obtain ⟨a, ha, he⟩ := unfoldTask_eq hnc
  rw [he]
  constructor
  · rintro ⟨h, hm⟩
    exact ⟨_, matchesBy_unfoldWith_of ha hm⟩
  · rintro ⟨h, hm⟩
    exact ⟨_, matchesUnfoldedBy_of_unfoldWith ha hm⟩

/-- the types of the reachable steps of the unfolded task are types of reachable steps of the task -/
theorem unfoldTask_types {t : QTask} (hnc : NoCycle t) {i : Nat} (hi : StepReach (unfoldTask t) i) :
    ∃ k, StepReach t k ∧ ((unfoldTask t).step i).types = (t.step k).types := by
  obtain ⟨a, ha, he⟩ := unfoldTask_eq hnc
  rw [he] at hi ⊢
  obtain ⟨p, k, hp, rfl⟩ := (unfoldWith_reach ha i).1 hi
  exact ⟨k, hp.reach, by rw [unfoldWith_step ha hp]⟩

theorem unfoldTask_unshared {t : QTask} (hnc : NoCycle t) {c c' i : Nat}
    (hc : StepReach (unfoldTask t) c) (hc' : StepReach (unfoldTask t) c')
    (hi : i ∈ ((unfoldTask t).step c).from_) (hi' : i ∈ ((unfoldTask t).step c').from_) : c = c' := by
  obtain ⟨a, ha, he⟩ := unfoldTask_eq hnc
  rw [he] at hc hc' hi hi'
  exact unfoldWith_unshared ha hc hc' hi hi'

/-- generating with `unfold_tree` is, as far as acceptance goes, generating plainly for the unfolded task -/
theorem eval_unfold_eq_unfoldTask {G : GLang} {t : QTask} {f : QFlags} {q' qU : Query}
    (hqU : genQuery G t { f with unfoldTree := true } = .ok qU)
    (hq' : genQuery G (unfoldTask t) { f with unfoldTree := false } = .ok q')
    (g : List Triple) (wf : Node) (hbag : f.byTypes = true → BagExact G t g wf)
    (hbag' : f.byTypes = true → BagExact G (unfoldTask t) g wf) :
    evalQuery qU g wf = evalQuery q' g wf := by
  have hnc : NoCycle t := genQuery_ok_nocycle_any hqU
  have h1 := query_iff (f := { f with unfoldTree := false }) rfl hq' g wf hbag'
  have h2 := query_iffU (f := { f with unfoldTree := true }) rfl hqU g wf hbag
  rw [matches_flag false] at h1
  rw [matchesUnfolded_flag true, matchesUnfolded_iff_unfoldTask hnc] at h2
  rw [Bool.eq_iff_iff, h1, h2]

end Tfv
