import Tfv.Model
import Tfv.Spec.Sub
import Tfv.Spec.Taxonomy
import Tfv.Proofs.SubOrder
import Tfv.Proofs.Canon
import Tfv.Proofs.CanonComplete
import Tfv.Proofs.CanonClosed
import Tfv.Proofs.CanonLinks
import Tfv.Proofs.CanonMirror
import Tfv.Proofs.CanonPlain
import Tfv.Proofs.CanonAvoid
import Tfv.Proofs.CanonExamples
/-!
# C10 — the type taxonomy: direct successors, the canonical set, reported direct sub/supertype links

Statements only; proofs are one-liners calling lemmas of `Tfv/Proofs/Canon*.lean`.

Vocabulary (`Tfv/Spec/Taxonomy.lean`, `namespace Tfv.Tax`):
* `tbFree t`: neither `Top` nor `Bottom` occurs in `t`;
* `Le L up x y`: `Sub L x y` if `up`, `Sub L y x` otherwise;
* `UnivOK L o`: every member of `o.univ` is an operator of `L` other than `Top`/`Bottom`
  (`C10_univOK_of_ge5`: index ≥ 5 and `< L.length` suffices; `C10_univ_needed`: it cannot be dropped);
* `Reach R`: reflexive-transitive closure of `R`;
* `Step L o up t s`: `s ∈ succT L o up t`; `StepTo L o up goal t u`: such a step to a `Top`/`Bottom`-free,
  well-formed `u ≠ t` with `Le L up t u` and `Le L up u goal`;
* `Link L c canon n up t s`: `s ∈ langSucc L c canon n up t false` (a reported direct link);
* `canonOpts c custom`, `canonSucc L c t`: the options/successors `expandCanon` uses;
* `Closed L c R`: `R` contains `canonSucc L c t` for each of its members `t`;
* `expandRun` = `expandCanon` that also returns the remaining work list, `Terminates … ` = that list is empty;
* `WorkInv L c stack canon`: every member of `canon` is on the stack or has all its successors in
  `canon ∪ stack` (true at the start of `mkCanon`, where `stack = canon`);
* `initOf listed`: the start set of `mkCanon` (`Tfv/Proofs/CanonLinks.lean`).

Scope. Soundness (part 1) and the closure of the canon (part 3) hold for all configurations.
Completeness (parts 2, 4) and mirroring are proved between `Top`/`Bottom`-free types; when neither `Top`
nor `Bottom` was requested this is the whole canon (`C10_canon_plain_iff`, `C10_reach_iff_plain`,
`C10_mirror_plain`). With `Top` in the canon completeness fails: `C10_counterexample_reach`.

Running example (`Tfv/Proofs/CanonExamples.lean`, `namespace Tfv.C10Ex`): `exL` = builtins, `A` (5),
`B < A` (6), `C < B` (7), covariant unary `F` (8); `canonA = mkCanon exL {} [A, F(A)]`,
`canonT = mkCanon exL {includeTop} [C, F(C)]`.
-/
namespace Tfv.C10
open Tfv Tfv.Tax Tfv.C10Ex

/-! ## 1. soundness of direct successors and reported links -/

/-- Indices `≥ 5` below `L.length` are acceptable `univ` members. -/
theorem C10_univOK_of_ge5 {L : Lang} {o : SOpts} (h : ∀ u ∈ o.univ, 5 ≤ u ∧ u < L.length) : UnivOK L o :=
  univOK_of_ge5 h

/-- The options used by `Language.successors` satisfy the `univ` condition. -/
theorem C10_univOK_langOpts (L : Lang) (c : CanonCfg) : UnivOK L (langOpts L c) :=
  univOK_langOpts L c

/-- **Direct subtypes are strict subtypes.** In a well-formed language, every type returned by
`successors(DOWN)` for a well-formed type `t` is a well-formed subtype of `t` different from `t`. -/
theorem C10_succ_sound_down {L : Lang} (wf : WF L) {o : SOpts} (ok : UnivOK L o) {t s : Ty}
    (ht : wfTy L t = true) (h : s ∈ succT L o false t) : Sub L s t ∧ s ≠ t ∧ wfTy L s = true :=
  succT_sound_down wf ok ht h

example : tF tB ∈ succT exL {} false (tF tA) ∧ UnivOK exL {} ∧ wfTy exL (tF tA) = true :=
  ⟨by simp [show succT exL {} false (tF tA) = [tF tB] from rfl], univOK_nil rfl, wf_tFA⟩

/-- **Direct supertypes are strict supertypes.** -/
theorem C10_succ_sound_up {L : Lang} (wf : WF L) {o : SOpts} (ok : UnivOK L o) {t s : Ty}
    (ht : wfTy L t = true) (h : s ∈ succT L o true t) : Sub L t s ∧ s ≠ t ∧ wfTy L s = true :=
  succT_sound_up wf ok ht h

example : tF tB ∈ succT exL {} true (tF tC) ∧ UnivOK exL {} ∧ wfTy exL (tF tC) = true :=
  ⟨by simp [show succT exL {} true (tF tC) = [tF tB] from rfl], univOK_nil rfl, wf_tFC⟩

/-- The condition on `univ` cannot be dropped: with `Top` in `univ`, `Top` is returned as a direct
subtype of itself. -/
theorem C10_univ_needed : succT exL { univ := [TOP] } false tTop = [tTop] := univ_needed

/-- **Reported links are sound.** Every type reported by `Language.successors` (transitive or not, any
fuel) for a well-formed `t` is a well-formed canonical type strictly above (`up`) resp. below `t`. -/
theorem C10_links_sound {L : Lang} (wf : WF L) (c : CanonCfg) (canon : List Ty) (n : Nat) (up : Bool)
    (t : Ty) (tr : Bool) (r : Ty) (ht : wfTy L t = true) (h : r ∈ langSucc L c canon n up t tr) :
    Le L up t r ∧ r ≠ t ∧ wfTy L r = true ∧ r ∈ canon :=
  langSucc_sound wf c canon n up t tr r ht h

example : tF tB ∈ langSucc exL cfg0 canonA 3 false (tF tA) true ∧ wfTy exL (tF tA) = true :=
  ⟨by simp [show langSucc exL cfg0 canonA 3 false (tF tA) true = [tF tB, tF tC] from rfl], wf_tFA⟩

/-- the same for direct-subtype links, spelled out with `Sub` -/
theorem C10_links_sound_down {L : Lang} (wf : WF L) (c : CanonCfg) (canon : List Ty) (n : Nat)
    (t : Ty) (tr : Bool) (r : Ty) (ht : wfTy L t = true) (h : r ∈ langSucc L c canon n false t tr) :
    Sub L r t ∧ r ≠ t ∧ wfTy L r = true ∧ r ∈ canon :=
  langSucc_sound_down wf c canon n t tr r ht h

/-- **Reachability is sound.** Whatever is reachable from a well-formed `t` through reported direct links
lies in the direction of the links; it is `t` itself or a different, canonical type. -/
theorem C10_reach_sound {L : Lang} (wf : WF L) (c : CanonCfg) (canon : List Ty) (n : Nat) (up : Bool)
    {t s : Ty} (h : Reach (Link L c canon n up) t s) (ht : wfTy L t = true) :
    Le L up t s ∧ wfTy L s = true ∧ (s = t ∨ (s ≠ t ∧ s ∈ canon)) :=
  reach_link_sound wf c canon n up h ht

/-- With at least one link the reached type is a strict sub/supertype. -/
theorem C10_reach_strict {L : Lang} (wf : WF L) (c : CanonCfg) (canon : List Ty) (n : Nat) (up : Bool)
    {t u s : Ty} (h1 : Link L c canon n up t u) (h : Reach (Link L c canon n up) u s)
    (ht : wfTy L t = true) : Le L up t s ∧ s ≠ t ∧ wfTy L s = true ∧ s ∈ canon :=
  reach_link_strict wf c canon n up h1 h ht

example : Link exL cfg0 canonA 1 false (tF tA) (tF tB) ∧
    Reach (Link exL cfg0 canonA 1 false) (tF tB) (tF tC) := by
  refine ⟨?_, reach_one ?_⟩
  · unfold Link; simp [show langSucc exL cfg0 canonA 1 false (tF tA) false = [tF tB] from rfl]
  · unfold Link; simp [show langSucc exL cfg0 canonA 1 false (tF tB) false = [tF tC] from rfl]

/-! ## 2. covering steps are complete between `Top`/`Bottom`-free types -/

/-- `childrenOf L p` lists exactly the operators whose declared parent is `p`. -/
theorem C10_children_iff {L : Lang} {p c : Nat} : c ∈ childrenOf L p ↔ parentOf L c = some p :=
  mem_childrenOf

/-- **Base types, upwards.** If `b` is a declared ancestor of `a`, then `b` is reachable from `a` by
`successors(UP)` steps (with `include_custom`). -/
theorem C10_base_cover_up {L : Lang} (wf : WF L) {o : SOpts} (hc : o.custom = true) {a b : Nat}
    (h : Anc L a b) : Reach (Step L o true) (.app a []) (.app b []) :=
  base_cover_up wf hc h

/-- **Base types, downwards.** If `b` is a declared ancestor of `a`, then `a` is reachable from `b` by
`successors(DOWN)` steps (with `include_custom`). -/
theorem C10_base_cover_down {L : Lang} (wf : WF L) {o : SOpts} (hc : o.custom = true) {a b : Nat}
    (h : Anc L a b) : Reach (Step L o false) (.app b []) (.app a []) :=
  base_cover_down wf hc h

example : Reach (Step exL {} true) tC tA := C10_base_cover_up exWF rfl anc_C_A

/-- **A first covering step exists** (either direction). Between `Top`/`Bottom`-free types `t ≠ s` with
`s` in direction `up` from `t`, some direct successor `u` of `t` (with `include_custom`) is still on the way
to `s`, is `Top`/`Bottom`-free and strictly closer to `s` in the measure `gap`. -/
theorem C10_succ_complete_step_dir {L : Lang} (wf : WF L) {o : SOpts} (hc : o.custom = true) (up : Bool)
    {t s : Ty} (ht : tbFree t = true) (hs : tbFree s = true) (hle : Le L up t s) (hne : s ≠ t) :
    ∃ u, u ∈ succT L o up t ∧ Le L up u s ∧ tbFree u = true ∧ gap u s < gap t s :=
  step_complete wf hc up t s ht hs hle hne

/-- **A first covering step towards a strict subtype exists.** -/
theorem C10_succ_complete_step {L : Lang} (wf : WF L) {o : SOpts} (hc : o.custom = true)
    {t s : Ty} (ht : tbFree t = true) (hs : tbFree s = true) (hsub : Sub L s t) (hne : s ≠ t) :
    ∃ u, u ∈ succT L o false t ∧ Sub L s u ∧ tbFree u = true :=
  step_complete_down wf hc ht hs hsub hne

example : tbFree (tF tA) = true ∧ tbFree (tF tC) = true ∧ Sub exL (tF tC) (tF tA) ∧ tF tC ≠ tF tA := by
  refine ⟨tb_tFA, tb_tFC, sub_FC_FA, ?_⟩
  intro e; injection e with _ e; injection e with e _; injection e with e _; simp at e

/-- **Every `Top`/`Bottom`-free type in direction `up` is reachable by covering steps**, through
`Top`/`Bottom`-free, well-formed types that all lie between `t` and `s` (see `StepTo`). -/
theorem C10_reach_complete_tbfree_universe {L : Lang} (wf : WF L) {o : SOpts} (ok : UnivOK L o)
    (hc : o.custom = true) (up : Bool) {t s : Ty} (hw : wfTy L t = true) (ht : tbFree t = true)
    (hs : tbFree s = true) (hle : Le L up t s) : Reach (StepTo L o up s) t s :=
  reach_complete wf ok hc up hw ht hs hle

/-- the downward instance: every `Top`/`Bottom`-free subtype `s` of `t` is reachable from `t` by
`successors(DOWN)` steps, every intermediate `u` satisfying `Sub L s u`, `Sub L u t`, `tbFree u` -/
theorem C10_reach_complete_down {L : Lang} (wf : WF L) {o : SOpts} (ok : UnivOK L o)
    (hc : o.custom = true) {t s : Ty} (hw : wfTy L t = true) (ht : tbFree t = true)
    (hs : tbFree s = true) (hsub : Sub L s t) : Reach (StepTo L o false s) t s :=
  reach_complete wf ok hc false hw ht hs (le_down.mpr hsub)

/-- every type on such a path lies between start and goal, is `Top`/`Bottom`-free and well formed -/
theorem C10_reach_between {L : Lang} (wf : WF L) {o : SOpts} {up : Bool} {goal t x : Ty}
    (h : Reach (StepTo L o up goal) t x) (hw : wfTy L t = true) (ht : tbFree t = true)
    (hle : Le L up t goal) : Le L up t x ∧ Le L up x goal ∧ tbFree x = true ∧ wfTy L x = true :=
  reach_stepTo_between wf h hw ht hle

/-- a type between two `Top`/`Bottom`-free types is `Top`/`Bottom`-free -/
theorem C10_between_tbFree {L : Lang} (wf : WF L) {m s t : Ty} (hs : tbFree s = true) (ht : tbFree t = true)
    (h1 : Sub L s m) (h2 : Sub L m t) : tbFree m = true :=
  between_tbFree wf m s t hs ht h1 h2

/-! ## 3. the canon is closed -/

/-- `expandRun` computes `expandCanon` (and the remaining work list). -/
theorem C10_expandRun_snd (L : Lang) (c : CanonCfg) (n : Nat) (stack canon : List Ty) :
    (expandRun L c n stack canon).2 = expandCanon L c n stack canon :=
  expandRun_snd L c n stack canon

/-- **The expanded canon is closed.** If the fuel sufficed (the work list emptied) and the work-list
invariant holds at the start, the result contains the start sets and all direct successors
(`UP` without, `DOWN` with `include_custom`) of each of its members. -/
theorem C10_expandCanon_closed {L : Lang} {c : CanonCfg} {n : Nat} {stack canon : List Ty}
    (h : Terminates L c n stack canon) (inv : WorkInv L c stack canon) :
    (∀ t ∈ canon, t ∈ expandCanon L c n stack canon) ∧ (∀ t ∈ stack, t ∈ expandCanon L c n stack canon) ∧
      Closed L c (expandCanon L c n stack canon) :=
  expandCanon_closed h inv

/-- **Fuel independence**: once the work list has emptied, more fuel gives the same canon. -/
theorem C10_expandCanon_fuel {L : Lang} {c : CanonCfg} {n : Nat} {stack canon : List Ty}
    (h : Terminates L c n stack canon) (k : Nat) :
    Terminates L c (n + k) stack canon ∧
      expandCanon L c (n + k) stack canon = expandCanon L c n stack canon :=
  expandCanon_fuel h k

/-- closedness, spelled out: downward successors with `include_custom`, upward ones without;
membership as decided by `memTy` -/
theorem C10_closed_spelled {L : Lang} {c : CanonCfg} {R : List Ty} (h : Closed L c R) {t s : Ty}
    (ht : memTy t R = true) :
    (s ∈ succT L { custom := true, top := c.includeTop, bottom := c.includeBottom } false t →
      memTy s R = true) ∧
    (s ∈ succT L { custom := false, top := c.includeTop, bottom := c.includeBottom } true t →
      memTy s R = true) :=
  closed_spelled h ht

/-- the invariant holds when `stack = canon` (as in `mkCanon`) … -/
theorem C10_workInv_self (L : Lang) (c : CanonCfg) (init : List Ty) : WorkInv L c init init :=
  workInv_self L c init

/-- … and when `canon` is already closed -/
theorem C10_workInv_of_closed {L : Lang} {c : CanonCfg} {canon : List Ty} (h : Closed L c canon)
    (stack : List Ty) : WorkInv L c stack canon :=
  workInv_nil_of_closed h stack

/-- **`mkCanon` is closed and contains the listed types**, provided the fuel sufficed. -/
theorem C10_mkCanon_closed {L : Lang} {c : CanonCfg} {listed : List Ty}
    (h : Terminates L c canonFuel (initOf listed) (initOf listed)) :
    (∀ t ∈ listed, t ∈ mkCanon L c listed) ∧ Closed L c (mkCanon L c listed) :=
  mkCanon_closed h

example : Terminates exL cfg0 canonFuel (initOf [tA, tF tA]) (initOf [tA, tF tA]) ∧
    canonA = [tA, tF tA, tF tB, tF tC, tB, tC] := ⟨termA, canonA_eq⟩

/-- **The canon contains every subtype** (first sentence of C10, `Top`/`Bottom`-free part): a closed set
contains every `Top`/`Bottom`-free subtype of each of its `Top`/`Bottom`-free well-formed members. -/
theorem C10_canon_contains_subtypes {L : Lang} (wf : WF L) {c : CanonCfg} {R : List Ty} (h : Closed L c R)
    {t s : Ty} (ht : t ∈ R) (hw : wfTy L t = true) (htb : tbFree t = true) (hsb : tbFree s = true)
    (hsub : Sub L s t) : s ∈ R :=
  closed_contains_subtypes wf h ht hw htb hsb hsub

example : tF tC ∈ canonA :=
  C10_canon_contains_subtypes exWF closedA mem_canonA_FA wf_tFA tb_tFA tb_tFC sub_FC_FA

/-- for `mkCanon`: every `Top`/`Bottom`-free subtype of a listed `Top`/`Bottom`-free type is canonical -/
theorem C10_mkCanon_contains_subtypes {L : Lang} (wf : WF L) {c : CanonCfg} {listed : List Ty}
    (term : Terminates L c canonFuel (initOf listed) (initOf listed)) {t s : Ty} (ht : t ∈ listed)
    (hw : wfTy L t = true) (htb : tbFree t = true) (hsb : tbFree s = true) (hsub : Sub L s t) :
    s ∈ mkCanon L c listed :=
  mkCanon_contains_subtypes wf term ht hw htb hsb hsub

/-- **Exact canon without `Top`/`Bottom`.** If neither was requested and the listed types are well-formed
and `Top`/`Bottom`-free, the canon is exactly the set of `Top`/`Bottom`-free subtypes of listed types:
no `Bottom`-variants, no `Top`-generalisations. -/
theorem C10_canon_plain_iff {L : Lang} (wf : WF L) {c : CanonCfg} (hT : c.includeTop = false)
    (hB : c.includeBottom = false) {listed : List Ty}
    (hl : ∀ t ∈ listed, wfTy L t = true ∧ tbFree t = true)
    (term : Terminates L c canonFuel (initOf listed) (initOf listed)) (s : Ty) :
    s ∈ mkCanon L c listed ↔ (tbFree s = true ∧ ∃ t ∈ listed, Sub L s t) :=
  mkCanon_plain_iff wf hT hB hl term s

example : ∀ t ∈ [tA, tF tA], wfTy exL t = true ∧ tbFree t = true := by
  intro t ht
  simp only [List.mem_cons, List.not_mem_nil, or_false] at ht
  rcases ht with rfl | rfl
  · exact ⟨wf_tA, by decide⟩
  · exact ⟨wf_tFA, tb_tFA⟩

/-- `tbFree` means: avoids `Top` and avoids `Bottom`. -/
theorem C10_tbFree_iff_avoids (t : Ty) : tbFree t = true ↔ (avoids TOP t = true ∧ avoids BOT t = true) :=
  tbFree_iff_avoids t

/-- **`Bottom`-variants only when requested**: if `Bottom` was not requested and occurs in no listed type,
it occurs in no canonical type (any fuel). -/
theorem C10_canon_no_bottom {L : Lang} (wf : WF L) {c : CanonCfg} (hB : c.includeBottom = false)
    {listed : List Ty} (hl : ∀ t ∈ listed, avoids BOT t = true) :
    ∀ s ∈ mkCanon L c listed, avoids BOT s = true :=
  mkCanon_avoids_bot wf hB hl

example : cfgT.includeBottom = false ∧ (∀ t ∈ [tC, tF tC], avoids BOT t = true) ∧
    mkCanon exL cfgT [tC, tF tC] = [tC, tF tC, tF tTop, tTop] := by
  refine ⟨rfl, ?_, rfl⟩
  intro t ht
  simp only [List.mem_cons, List.not_mem_nil, or_false] at ht
  rcases ht with rfl | rfl <;> decide

/-- **`Top`-generalisations only when requested**: if `Top` was not requested and occurs in no listed type,
it occurs in no canonical type (any fuel). -/
theorem C10_canon_no_top {L : Lang} (wf : WF L) {c : CanonCfg} (hT : c.includeTop = false)
    {listed : List Ty} (hl : ∀ t ∈ listed, avoids TOP t = true) :
    ∀ s ∈ mkCanon L c listed, avoids TOP s = true :=
  mkCanon_avoids_top wf hT hl

/-- **The result is the least closed set**: any run (terminated or not) stays inside every set that is
closed under the pushed successors and contains the start sets. -/
theorem C10_expandCanon_least {L : Lang} {c : CanonCfg} (S : Ty → Prop)
    (hS : ∀ t, S t → ∀ s ∈ canonSucc L c t, S s) (n : Nat) (stack canon : List Ty)
    (h1 : ∀ t ∈ canon, S t) (h2 : ∀ t ∈ stack, S t) : ∀ t ∈ expandCanon L c n stack canon, S t :=
  expandCanon_least S hS n stack canon h1 h2

/-- **The order of the work list is irrelevant**: two terminated runs whose start sets have the same
members return sets with the same members. -/
theorem C10_expandCanon_order_irrelevant {L : Lang} {c : CanonCfg} {n1 n2 : Nat}
    {stack1 canon1 stack2 canon2 : List Ty}
    (t1 : Terminates L c n1 stack1 canon1) (t2 : Terminates L c n2 stack2 canon2)
    (i1 : WorkInv L c stack1 canon1) (i2 : WorkInv L c stack2 canon2)
    (hsame : ∀ t, (t ∈ stack1 ∨ t ∈ canon1) ↔ (t ∈ stack2 ∨ t ∈ canon2)) (t : Ty) :
    t ∈ expandCanon L c n1 stack1 canon1 ↔ t ∈ expandCanon L c n2 stack2 canon2 :=
  expandCanon_order_irrelevant t1 t2 i1 i2 hsame t

/-- for `mkCanon`: the order (and multiplicity) of the listed types is irrelevant -/
theorem C10_mkCanon_order_irrelevant {L : Lang} {c : CanonCfg} {l1 l2 : List Ty}
    (t1 : Terminates L c canonFuel (initOf l1) (initOf l1))
    (t2 : Terminates L c canonFuel (initOf l2) (initOf l2))
    (hsame : ∀ t, t ∈ l1 ↔ t ∈ l2) (t : Ty) : t ∈ mkCanon L c l1 ↔ t ∈ mkCanon L c l2 :=
  mkCanon_order_irrelevant t1 t2 hsame t

example : Terminates exL cfg0 canonFuel (initOf [tA, tF tA]) (initOf [tA, tF tA]) ∧
    Terminates exL cfg0 canonFuel (initOf [tF tA, tA]) (initOf [tF tA, tA]) ∧
    mkCanon exL cfg0 [tF tA, tA] = [tF tA, tA, tB, tC, tF tB, tF tC] := ⟨termA, termA', rfl⟩

/-! ## 4. completeness of links between `Top`/`Bottom`-free canonical types, mirroring -/

/-- **Links are complete** between `Top`/`Bottom`-free types of a closed canon: every `Top`/`Bottom`-free
subtype `s` of a canonical, well-formed, `Top`/`Bottom`-free `t` is reachable from `t` through reported
direct-subtype links (`s` is then canonical by `C10_canon_contains_subtypes`). -/
theorem C10_complete_tbfree {L : Lang} (wf : WF L) {c : CanonCfg} {R : List Ty} (h : Closed L c R) (n : Nat)
    {t s : Ty} (ht : t ∈ R) (hw : wfTy L t = true) (htb : tbFree t = true) (hsb : tbFree s = true)
    (hsub : Sub L s t) : Reach (Link L c R (n+1) false) t s :=
  complete_tbfree wf h n ht hw htb hsb hsub

example : Reach (Link exL cfg0 canonA 1 false) (tF tA) (tF tC) :=
  C10_complete_tbfree exWF closedA 0 mem_canonA_FA wf_tFA tb_tFA tb_tFC sub_FC_FA

/-- **Reachability = subtyping** between `Top`/`Bottom`-free types of a closed canon. -/
theorem C10_reach_iff_tbfree {L : Lang} (wf : WF L) {c : CanonCfg} {R : List Ty} (h : Closed L c R) (n : Nat)
    {t s : Ty} (ht : t ∈ R) (hw : wfTy L t = true) (htb : tbFree t = true) (hsb : tbFree s = true) :
    Reach (Link L c R (n+1) false) t s ↔ Sub L s t :=
  reach_iff_tbfree wf h n ht hw htb hsb

/-- **Second sentence of C10 when neither `Top` nor `Bottom` was requested**: among canonical types,
`s` is reachable from `t` through reported direct-subtype links iff `s` is a subtype of `t`
(strictly, iff at least one link is used: `C10_reach_strict`). -/
theorem C10_reach_iff_plain {L : Lang} (wf : WF L) {c : CanonCfg} (hT : c.includeTop = false)
    (hB : c.includeBottom = false) {listed : List Ty}
    (hl : ∀ t ∈ listed, wfTy L t = true ∧ tbFree t = true)
    (term : Terminates L c canonFuel (initOf listed) (initOf listed)) (n : Nat) {s t : Ty}
    (hs : s ∈ mkCanon L c listed) (ht : t ∈ mkCanon L c listed) :
    Reach (Link L c (mkCanon L c listed) (n+1) false) t s ↔ Sub L s t :=
  reach_iff_plain wf hT hB hl term n hs ht

/-- Direct successors mirror each other on `Top`/`Bottom`-free well-formed types (with `include_custom`). -/
theorem C10_succ_mirror {L : Lang} (wf : WF L) {o : SOpts} (hc : o.custom = true) {t s : Ty}
    (hwt : wfTy L t = true) (hws : wfTy L s = true) (ht : tbFree t = true) (hs : tbFree s = true) :
    s ∈ succT L o false t ↔ t ∈ succT L o true s :=
  succT_mirror_iff wf hc hwt hws ht hs

/-- In a closed canon the direct-subtype links of a `Top`/`Bottom`-free member are exactly its direct
successors; the one-level look-through is never used. -/
theorem C10_link_down_iff {L : Lang} {c : CanonCfg} {R : List Ty} (h : Closed L c R) (n : Nat) {t s : Ty}
    (ht : t ∈ R) (htb : tbFree t = true) :
    Link L c R (n+1) false t s ↔ s ∈ succT L (canonOpts c true) false t :=
  link_down_iff h n ht htb

/-- **Links mirror each other** between `Top`/`Bottom`-free well-formed types of a closed canon. -/
theorem C10_mirror_tbfree {L : Lang} (wf : WF L) {c : CanonCfg} {R : List Ty} (h : Closed L c R) (n k : Nat)
    {s t : Ty} (ht : t ∈ R) (hwt : wfTy L t = true) (hws : wfTy L s = true)
    (htb : tbFree t = true) (hsb : tbFree s = true) :
    Link L c R (n+1) false t s ↔ Link L c R (k+1) true s t :=
  link_mirror wf h n k ht hwt hws htb hsb

/-- **Mirroring on the whole canon** when neither `Top` nor `Bottom` was requested. -/
theorem C10_mirror_plain {L : Lang} (wf : WF L) {c : CanonCfg} (hT : c.includeTop = false)
    (hB : c.includeBottom = false) {listed : List Ty}
    (hl : ∀ t ∈ listed, wfTy L t = true ∧ tbFree t = true)
    (term : Terminates L c canonFuel (initOf listed) (initOf listed)) (n k : Nat) {s t : Ty}
    (hs : s ∈ mkCanon L c listed) (ht : t ∈ mkCanon L c listed) :
    Link L c (mkCanon L c listed) (n+1) false t s ↔ Link L c (mkCanon L c listed) (k+1) true s t :=
  mirror_plain wf hT hB hl term n k hs ht

example : Link exL cfg0 canonA 1 false (tF tA) (tF tB) ∧ Link exL cfg0 canonA 1 true (tF tB) (tF tA) := by
  constructor
  · unfold Link; simp [show langSucc exL cfg0 canonA 1 false (tF tA) false = [tF tB] from rfl]
  · unfold Link; simp [show langSucc exL cfg0 canonA 1 true (tF tB) false = [tF tA] from rfl]

/-! ## 5. the known defect: `Top` in the canon -/

/-- **Counterexample to the general statement.** Language `A > B > C`, covariant `F`; `Top` requested;
listed `[C, F(C)]`. The canon is `{C, F(C), F(Top), Top}` and is closed; `C` is a canonical strict subtype
of the canonical `Top`, yet `C` is not reachable from `Top` through reported direct-subtype links (with any
fuel): the only link from `Top` goes to `F(Top)`, which has none. -/
theorem C10_counterexample_reach (n : Nat) :
    canonT = [tC, tF tC, tF tTop, tTop] ∧
    tC ∈ canonT ∧ tTop ∈ canonT ∧ Closed exL cfgT canonT ∧ Sub exL tC tTop ∧ tC ≠ tTop ∧
      ¬ Reach (Link exL cfgT canonT n false) tTop tC :=
  ⟨canonT_eq, counterexample_reach n⟩

end Tfv.C10
