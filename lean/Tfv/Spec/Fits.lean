import Tfv.Model.Basic
import Tfv.Model.Infer
import Tfv.Spec.Sub
/-!
# Specification: a concrete type *fits* a pattern

A *pattern* is a `Term` whose variables stand for arbitrary types (the free,
unbounded variables and wildcards of a signature). `Fits L x p` says that some
instance of `p` is a supertype of the concrete type `x`; `fitsB` is the
executable reading, written in the shape of `matchC` (a polarity flag instead of
swapping the arguments in contravariant positions).
-/
namespace Tfv

mutual
/-- `fitsB L true x p`: some instance of `p` is a supertype of `x`;
`fitsB L false x p`: some instance of `p` is a subtype of `x`. -/
def fitsB (L : Lang) : Bool → Ty → Term → Bool
  | _, _, .var _ => true
  | pol, .app xo xs, .app po ps =>
    let lo := if pol then xo else po
    let hi := if pol then po else xo
    if lo == BOT || hi == TOP then true
    else if arityOf L lo == 0 then lo == hi || opSub L lo hi
    else if lo != hi then false
    else fitsBs L pol (varianceOf L lo) xs ps
def fitsBs (L : Lang) : Bool → List Bool → List Ty → List Term → Bool
  | pol, v :: vs, x :: xs, p :: ps => fitsB L (pol == v) x p && fitsBs L pol vs xs ps
  | _, _, _, _ => true
end

mutual
/-- `p[θ]`: substitute the variables of a pattern -/
def Term.inst (θ : Nat → Ty) : Term → Ty
  | .var v => θ v
  | .app o args => .app o (Term.instL θ args)
def Term.instL (θ : Nat → Ty) : List Term → List Ty
  | [] => []
  | t :: ts => Term.inst θ t :: Term.instL θ ts
end

mutual
/-- the variable occurrences of a pattern, left to right -/
def Term.vars : Term → List Nat
  | .var v => [v]
  | .app _ args => Term.varsL args
def Term.varsL : List Term → List Nat
  | [] => []
  | t :: ts => Term.vars t ++ Term.varsL ts
end

/-- every variable occurs at most once -/
def linear (p : Term) : Prop := (Term.vars p).Nodup

instance (p : Term) : Decidable (linear p) := by unfold linear; infer_instance

mutual
/-- every operator node of the pattern has as many arguments as its arity -/
def wfTm (L : Lang) : Term → Bool
  | .var _ => true
  | .app o args => o < L.length && args.length == arityOf L o && wfTmL L args
def wfTmL (L : Lang) : List Term → Bool
  | [] => true
  | t :: ts => wfTm L t && wfTmL L ts
end

/-- `x` is a subtype of some well-formed instance of `p` -/
def Fits (L : Lang) (x : Ty) (p : Term) : Prop :=
  ∃ θ : Nat → Ty, (∀ v, wfTy L (θ v) = true) ∧ Sub L x (p.inst θ)

/-- some well-formed instance of `p` is a subtype of `x` (the contravariant reading) -/
def FitsBelow (L : Lang) (x : Ty) (p : Term) : Prop :=
  ∃ θ : Nat → Ty, (∀ v, wfTy L (θ v) = true) ∧ Sub L (p.inst θ) x

/-- the variables of a pattern are free in the store: unbound and without bounds -/
def PatFree (σ : Store) (p : Term) : Prop :=
  ∀ v ∈ p.vars, (getVar σ v).bound = none ∧ (getVar σ v).lower = none ∧ (getVar σ v).upper = none

instance (σ : Store) (p : Term) : Decidable (PatFree σ p) := by unfold PatFree; infer_instance

end Tfv
