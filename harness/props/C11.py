"""C11 - a task query matches exactly the workflows that contain the described flow."""
from __future__ import annotations
import itertools
import langgen as G
import infer as I
import exprgen as X
import querygen as Q
from refsub import ref_sub

RULE = ("workflows = graphs of well-typed expressions over generated languages (canon = all base types plus listed compound types, with and without Top); tasks "
        "derived from a workflow's own graph by sub-sampling its concept nodes (tree- and DAG-shaped), generalising step types to canonical supertypes or wildcard "
        "forms, dropping operators/types, and corrupted variants (absent operator, non-supertype, reversed link); written with URIs, with the nested-list constructor "
        "and with string shortcuts; flag combinations of by_io / by_types / by_operators / by_chronology / by_penultimate_output / unfold_tree; three verdicts are "
        "compared: rdflib on the generated SPARQL, every component of the query (parsed back into clauses) evaluated as a plain basic graph pattern by the harness' "
        "own matcher, and the property's statement evaluated by brute force over assignments of steps to concept nodes; the clause set and the plain verdict are "
        "also compared with the model; non-trivial = the task has at least two steps; distinct by (language, workflow, task, flags)")
ASSUMPTIONS = ["a task step without operator may coincide with the step after it (the generator's `:depends?` rule) - part of the matching relation checked",
               "rdflib ignores the GROUP BY sub-select pre-filter; a disagreement that only stems from that is counted, not reported"]
TRUSTED = ["harness/querygen.py (SPARQL parse-back, plain matcher)", "the brute-force assignment search in this file (oracle)"]

TFNS = Q.TFNS


class Timeout(Exception):
    pass


class time_limit:
    """wall-clock guard for one evaluation (SIGALRM); evaluations that exceed it are counted, not judged"""
    def __init__(self, seconds):
        self.seconds = seconds

    def __enter__(self):
        import signal

        def handler(signum, frame):
            raise Timeout()
        self.old = signal.signal(signal.SIGALRM, handler)
        signal.setitimer(signal.ITIMER_REAL, self.seconds)

    def __exit__(self, *a):
        import signal
        signal.setitimer(signal.ITIMER_REAL, 0)
        signal.signal(signal.SIGALRM, self.old)
        return False


def node_key(g, n):
    """deterministic (hash-seed independent) ordering key of a concept node: blank-node ids are random per run"""
    from transforge.namespace import TF
    return (sorted(str(x) for x in g.objects(n, TF.via)), sorted(str(x) for x in g.objects(n, TF.type) if not str(x).startswith("N")),
            sorted(str(x) for x in g.objects(n, TF.subtypeOf)), len(list(g.objects(n, TF.depends))), len(list(g.subjects(TF.depends, n))))


def concept_nodes(g, root):
    """concept nodes of a workflow graph with their operator, type supertypes, dependencies"""
    from transforge.namespace import TF
    nodes = {}
    allnodes = set(g.subjects(TF.type)) | set(g.subjects(TF.via)) | set(g.subjects(TF["from"])) | set(g.objects(None, TF["from"]))
    for n in sorted(allnodes, key=lambda n: node_key(g, n)):
        nodes[n] = {"via": set(g.objects(n, TF.via)), "subtypeOf": set(g.objects(n, TF.subtypeOf)), "type": set(g.objects(n, TF.type)),
                    "from": set(g.objects(n, TF["from"]))}
    # a node's dependencies are what its data flows from, directly or not: computed here from the tf:from edges, NOT read from the graph's
    # tf:depends triples (that those are the same is C09; the query generator relies on the triples)
    for n in nodes:
        reach, work = set(), [n]
        while work:
            x = work.pop()
            for y in nodes.get(x, {}).get("from", ()):
                if y not in reach:
                    reach.add(y)
                    work.append(y)
        nodes[n]["depends"] = reach
    return nodes


def statement_matches(task, flags, g, root, lang, ops, operators, spec):
    """the property's statement by brute force: exists an assignment of task steps to concept nodes"""
    from transforge.namespace import TF
    nodes = concept_nodes(g, root)
    outs = set(g.objects(root, TF.output))
    ins = set(g.objects(root, TF.input))
    steps = list(task["steps"].keys())
    # pre-filter on membership
    if flags["by_operators"]:
        for k in steps:
            st = task["steps"][k]
            if len(st["ops"]) == 1 and lang.uri(operators[st["ops"][0]]) not in set(g.objects(root, TF.containsOperation)):
                return False
    if flags["by_types"]:
        contained = set(g.objects(root, TF.containsType))
        for k in steps:
            ts = [lang.uri(G.ty_py(Q.generalize_w(t), ops)) for t in task["steps"][k]["types"]]
            if ts and not any(u in contained for u in ts):
                return False
    # variables: one per step, or one per path when the tree is unfolded
    occ = []      # (occurrence id, step, parent occurrence or None)

    def walk(k, parent, path):
        if flags["unfold_tree"] or k not in [o[1] for o in occ]:
            oid = len(occ)
            occ.append((oid, k, parent))
            for b in task["steps"][k]["from"]:
                walk(b, oid, path + [k])
        else:
            oid = next(o[0] for o in occ if o[1] == k)
            links.append((parent, oid))
            return
        if parent is not None:
            links.append((parent, oid))
    links = []
    for o in task["outputs"]:
        walk(o, None, [])
    if not flags["by_chronology"]:
        # only the outputs (and inputs) are constrained
        occ2 = [o for o in occ if o[2] is None]
    cand = {}
    for oid, k, parent in occ:
        st = task["steps"][k]
        opu = {lang.uri(operators[o]) for o in st["ops"]}
        tyu = most_general([Q.generalize_w(t) for t in st["types"]], spec)
        tyu = {lang.uri(G.ty_py(t, ops)) for t in tyu}
        c = []
        for n, info in nodes.items():
            if flags["by_chronology"] or parent is None:
                if parent is None and not flags["by_chronology"]:
                    # outputs: only the type is constrained by output_nodes()
                    if tyu and not (tyu & info["subtypeOf"]):
                        continue
                else:
                    if opu and not (opu & info["via"]):
                        continue
                    if tyu and not (tyu & info["subtypeOf"]):
                        continue
            if parent is None:
                ok = n in outs or (flags["by_penultimate_output"] and any(n in nodes[o]["from"] for o in outs if o in nodes))
                if not ok:
                    continue
            if flags["by_io"] and k in task.get("inputs", []) and n not in ins:
                continue
            c.append(n)
        cand[oid] = c
    if not flags["by_chronology"]:
        return all(cand[o[0]] for o in occ if o[2] is None)

    def relaxed(c_step, b_step):
        sc, sb = task["steps"][c_step], task["steps"][b_step]
        return not sc["ops"] and (not sc["types"] or (bool(sb["ops"]) and not sb["types"]))
    order = [o[0] for o in occ]
    step_of = {o[0]: o[1] for o in occ}

    def go(i, env):
        if i == len(order):
            return True
        oid = order[i]
        for n in cand[oid]:
            ok = True
            for (c, b) in links:
                if b == oid and c in env:
                    if not (n in nodes[env[c]]["depends"] or (relaxed(step_of[c], step_of[b]) and env[c] == n)):
                        ok = False
                        break
                if c == oid and b in env:
                    if not (env[b] in nodes[n]["depends"] or (relaxed(step_of[c], step_of[b]) and env[b] == n)):
                        ok = False
                        break
            if ok:
                env[oid] = n
                if go(i + 1, env):
                    return True
                del env[oid]
        return False
    return go(0, {})


def most_general(ts, spec):
    """TypeUnion(specific=False): keep the maximal elements"""
    out = []
    for t in ts:
        if any(ref_sub(spec, t, u) for u in out):
            continue
        out = [u for u in out if not ref_sub(spec, u, t)] + [t]
    return out


def gen_flags(rng):
    f = {"by_io": rng.random() < 0.8, "by_types": rng.random() < 0.85, "by_operators": rng.random() < 0.85,
         "by_chronology": rng.random() < 0.9, "by_penultimate_output": rng.random() < 0.7, "unfold_tree": rng.random() < 0.3}
    return f


def derive_task(rng, g, root, lang, ops, operators, spec, canon, corrupt):
    """a task from the workflow's own graph"""
    from transforge.namespace import TF
    nodes = concept_nodes(g, root)
    out = next(iter(g.objects(root, TF.output)))
    canon_uri = {lang.uri(G.ty_py(t, ops)): t for t in canon}
    op_uri = {lang.uri(o): n for n, o in operators.items()}
    chosen = [out]
    deps = sorted(nodes[out]["depends"], key=lambda n: node_key(g, n))
    rng.shuffle(deps)
    chosen += deps[: rng.randint(0, min(4, len(deps)))]
    steps = {}
    for i, n in enumerate(chosen):
        info = nodes[n]
        st = {"types": [], "ops": [], "from": []}
        if info["via"] and rng.random() < 0.6:
            st["ops"] = [op_uri[next(iter(info["via"]))]]
            if rng.random() < 0.15:
                other = [o for o in operators if o not in st["ops"]]
                if other:
                    st["ops"].append(rng.choice(other))      # a choice of operators (union)
        sups = sorted(canon_uri[u] for u in info["subtypeOf"] if u in canon_uri)
        if sups and rng.random() < 0.7:
            t = rng.choice(sups)
            if t[1] and rng.random() < 0.3:
                t = wildcardize(rng, t, canon)
            st["types"] = [t]
        steps[i] = st
    # links: c from b when the node of c depends on the node of b (a DAG: only towards later-chosen indices to avoid cycles)
    for i, n in enumerate(chosen):
        for j, m in enumerate(chosen):
            if i != j and m in nodes[n]["depends"] and (i == 0 or rng.random() < 0.4):
                if not reaches(steps, j, i):
                    steps[i]["from"].append(j)
    # every step must be reachable from the output
    reach = set()

    def walk(k):
        if k in reach:
            return
        reach.add(k)
        for b in steps[k]["from"]:
            walk(b)
    walk(0)
    steps = {k: {**v, "from": [b for b in v["from"] if b in reach]} for k, v in steps.items() if k in reach}
    task = {"steps": steps, "outputs": [0], "inputs": []}
    kind = "derived"
    if corrupt:
        k = rng.choice(list(steps.keys()))
        r = rng.random()
        if r < 0.4:
            absent = [o for o in operators if lang.uri(operators[o]) not in set(g.objects(root, TF.containsOperation))]
            pool = absent or [o for o in operators if o not in steps[k]["ops"]]
            if pool:
                steps[k]["ops"] = [rng.choice(pool)]
                kind = "corrupt-operator"
        elif r < 0.8:
            info = nodes[chosen[k]]
            bad = [t for u, t in canon_uri.items() if u not in info["subtypeOf"]]
            if bad:
                steps[k]["types"] = [rng.choice(bad)]
                kind = "corrupt-type"
        else:
            kind = "corrupt-none"
    return task, kind


def link_shape_tasks(rng, g, root, lang, ops, operators, canon):
    """two-step tasks [c after b] for a pair of graph nodes, in every combination of (operator given?, type given?) for both steps
    - the table that decides between `:depends` and `:depends?` - for a dependent pair AND for one node used for both steps"""
    from transforge.namespace import TF
    nodes = concept_nodes(g, root)
    out = next(iter(g.objects(root, TF.output)))
    canon_uri = {lang.uri(G.ty_py(t, ops)): t for t in canon}
    op_uri = {lang.uri(o): n for n, o in operators.items()}

    def info(n):
        i = nodes[n]
        op = [op_uri[u] for u in sorted(i["via"], key=str) if u in op_uri][:1]
        ty = sorted(canon_uri[u] for u in i["subtypeOf"] if u in canon_uri)[:1]
        return op, ty
    deps = sorted(nodes[out]["depends"], key=lambda n: node_key(g, n))
    pairs = [(out, d) for d in deps[:2]] + [(out, out)]
    tasks = []
    for (c, b) in pairs:
        cop, cty = info(c)
        bop, bty = info(b)
        for mask in range(16):
            st_c = {"types": cty if mask & 1 else [], "ops": cop if mask & 2 else [], "from": [1]}
            st_b = {"types": bty if mask & 4 else [], "ops": bop if mask & 8 else [], "from": []}
            if rng.random() < 0.5:
                tasks.append({"steps": {0: st_c, 1: st_b}, "outputs": [0], "inputs": []})
    return tasks


def reaches(steps, a, b):
    seen = set()
    work = [a]
    while work:
        x = work.pop()
        if x == b:
            return True
        if x in seen:
            continue
        seen.add(x)
        work += steps[x]["from"]
    return False


def wildcardize(rng, t, canon):
    """replace one parameter by a wildcard when the Top-generalisation is canonical"""
    args = list(t[1])
    i = rng.randrange(len(args))
    g = (t[0], tuple((G.TOP, ()) if j == i else a for j, a in enumerate(args)))
    if g in canon:
        args[i] = ('w',)
        return (t[0], tuple(args))
    return t


def run(ctx):
    rng = ctx.rng
    nlang = 5 if ctx.tier == "quick" else 10
    for li in range(nlang):
        spec = G.gen_lang(rng, max_base=5, max_ops=2, max_arity=2)
        Q.LANGSPEC = spec
        ops = spec.build()
        opdecls = X.gen_operators(rng, spec, p_constraints=0.1)
        top = rng.random() < 0.4
        listed = [(b, ()) for b in spec.bases()] + G.gen_canon(rng, spec, max_items=3, depth=1)
        try:
            lang, operators = X.build_typed_language(spec, ops, opdecls, canon=listed, include_top=top)
        except Exception:  # noqa
            ctx.count("language_rejected")
            continue
        canon = sorted(G.py_to_data(t, ops) for t in lang.canon)
        if len(canon) > 80:
            continue
        ctx.setup(spec.sexp(), "ok T")
        ctx.setup(f"(canon {'T' if top else 'F'} F " + " ".join(G.ty_sexp(t) for t in listed) + ")", "ok")
        trees = [t for t in X.gen_typed_trees(rng, lang, spec, opdecls, 0, rounds=4, per_round=10, p_ann=0.3, op_heads=True) if X.napps(t) >= 1]
        workflows = build_workflows(lang, spec, ops, trees[: 12 if ctx.tier == "quick" else 30])
        if not workflows:
            continue
        ds = dataset(lang, workflows)
        for wi, (wf, (g, text)) in enumerate(workflows.items()):
            if wi < (3 if ctx.tier == "quick" else 10):
                for task in link_shape_tasks(rng, g, wf, lang, ops, operators, canon):
                    one_case(ctx, li, spec, ops, opdecls, lang, operators, canon, listed, top, workflows, ds, wf, text, task, "link-shape", gen_flags(rng))
            for k in range(4 if ctx.tier == "quick" else 8):
                task, kind = derive_task(rng, g, wf, lang, ops, operators, spec, canon, corrupt=rng.random() < 0.4)
                flags = gen_flags(rng)
                one_case(ctx, li, spec, ops, opdecls, lang, operators, canon, listed, top, workflows, ds, wf, text, task, kind, flags)


def build_workflows(lang, spec, ops, trees):
    from rdflib import RDF
    from transforge.graph import TransformationGraph
    from transforge.namespace import TF
    from transforge import expr as E
    import wfgen as W
    out = {}
    for i, tree in enumerate(trees):
        text = X.tree_text(tree)
        try:
            e = lang.parse(text)
            e.fix()
            g = TransformationGraph(lang)
            wf = W.res(f"wf{i}")
            n = g.add_expr(e, wf)
            g.add((wf, RDF.type, TF.Transformation))
            g.add((wf, TF.output, n))
        except Exception:  # noqa
            continue
        out[wf] = (g, text)
    return out


def dataset(lang, workflows):
    from rdflib import Dataset
    from transforge.graph import TransformationGraph
    ds = Dataset()
    for wf, (g, text) in workflows.items():
        gg = ds.add_graph(wf)
        gg += g
    return ds


def one_case(ctx, li, spec, ops, opdecls, lang, operators, canon, listed, top, workflows, ds, wf, text, task, kind, flags):
    from transforge.query import TransformationQuery
    from transforge.graph import CyclicTransformationGraphError
    rng = ctx.rng
    styles = ["uri", "shortcut"] + (["list"] if Q.is_tree(task) and all(len(s["types"]) <= 1 for s in task["steps"].values()) else [])
    style = rng.choice(styles)
    replay = {"lang": spec.to_json(), "opdecls": [[n, s] for n, s in opdecls], "listed": listed, "top": top, "workflow": text, "task": task, "flags": flags, "style": style}
    tnodes = None
    try:
        if style == "list":
            q = TransformationQuery.from_list(lang, Q.task_list(task, ops, operators), **flags)
        else:
            tg, troot, tnodes = Q.task_graph(task, lang, ops, operators, style=style, with_nodes=True)
            q = TransformationQuery(lang, tg, **flags)
        sparql = q.sparql()
    except Exception as ex:  # noqa
        ctx.count("query_error_" + type(ex).__name__)
        return
    ctx.evaluations += 1
    if len(task["steps"]) >= 2:
        ctx.distinct.add((li, text, str(task), str(sorted(flags.items()))))
    ctx.count("kind_" + kind)
    ctx.count("style_" + style)
    base = str(lang.namespace)
    parsed = Q.parse_sparql(sparql, base)
    # every predicate the query tests is one the graph generator emits
    emitted = set(ctx.constants["emitted"]) if ctx.constants else None
    for c in parsed["prefilter"] + parsed["body"]:
        for t in (c[1] if c[0] == "union" else [c]):
            for p in t[2].replace("^", "").replace("?", "").split("/"):
                if emitted is not None and p.startswith(":") and p[1:] not in emitted:
                    ctx.fail(f"the query tests predicate {p}, which the graph generator never emits", {"check": "predicate-not-emitted", "predicate": p}, replay)
    g, _ = workflows[wf]
    bits = "".join("T" if flags[k] else "F" for k in ("by_io", "by_types", "by_operators", "by_chronology", "by_penultimate_output", "unfold_tree"))
    mtask = None
    if tnodes is not None:
        # the model gets the task with predecessors in the order the implementation visited them, and names variables by step / path
        mtask, rename = model_task(task, q, tnodes, flags)
        renamed = {"prefilter": [rename_clause(c, rename) for c in parsed["prefilter"]], "body": [rename_clause(c, rename) for c in parsed["body"]]}
        ctx.case(f"(query {bits} {G.str_sexp(base)} {task_sexp(mtask)})", Q.clauses_text(dedup(renamed)),
            {"lang": spec.to_json(), "task": task, "flags": flags, "style": style}, nontrivial=len(task["steps"]) >= 2,
            key=(li, "query", str(task), bits, style))
    # (1) rdflib on the whole query
    try:
        with time_limit(10):
            rdflib_hits = {r.workflow for r in ds.query(sparql)}
    except Timeout:
        ctx.count("rdflib_timeout")
        return
    except Exception as ex:  # noqa
        ctx.fail(f"rdflib could not evaluate the generated query: {type(ex).__name__}: {ex}", {"check": "query-invalid"}, replay)
        return
    # (2) plain basic graph patterns, per workflow; (3) the statement by brute force
    for w2, (g2, text2) in workflows.items():
        tr = Q.Triples(g2, w2)
        nodes = sorted({s for (s, o) in itertools.chain.from_iterable(tr.by_p.values())} | {o for (s, o) in itertools.chain.from_iterable(tr.by_p.values())})
        try:
            with time_limit(10):
                pre_ok = Q.match_clauses(tr, parsed["prefilter"], base, nodes)
                body_ok = Q.match_clauses(tr, parsed["body"], base, nodes)
                plain = pre_ok and body_ok
                stmt = statement_matches(task, flags, g2, w2, lang, ops, operators, spec)
        except Timeout:
            ctx.count("matcher_timeout")
            continue
        rd = w2 in rdflib_hits
        ctx.count(f"verdict_{'match' if plain else 'nomatch'}")
        if mtask is not None and (w2 == wf or ctx.rng.random() < 0.3):
            ctx.case(f"(qeval {bits} {task_sexp(mtask)} {wf_name(w2)} {triples_sexp(g2, lang)})", "T" if plain else "F",
                {"lang": spec.to_json(), "task": task, "flags": flags, "workflow": text2}, nontrivial=len(task["steps"]) >= 2,
                key=(li, "qeval", str(task), bits, text2))
        rp = dict(replay, target=text2)
        if plain != stmt:
            ctx.fail(f"task {task} (flags {flags}) against `{text2}`: the query's clauses evaluated as plain graph patterns {'match' if plain else 'do not match'}, "
                     f"but an assignment of the steps to concept nodes {'exists' if stmt else 'does not exist'}",
                {"check": "query-vs-statement", "plain": plain, "kind": kind, "self": w2 == wf}, rp)
        if rd != plain:
            if rd and body_ok and not pre_ok:
                ctx.count("rdflib_prefilter_quirk")
            else:
                ctx.fail(f"task {task} against `{text2}`: rdflib says {'match' if rd else 'no match'}, plain evaluation of the same clauses says {'match' if plain else 'no match'}",
                    {"check": "rdflib-vs-plain", "rdflib": rd}, rp)
        if w2 == wf and kind == "derived" and not stmt:
            ctx.fail(f"task {task} was extracted from the graph of `{text}` itself but no assignment exists", {"check": "self-match"}, rp)


def wf_name(w):
    import wfgen as W
    return "wf:" + str(w)[len(W.NS):]


KEEP = ("via", "subtypeOf", "depends", "from", "input", "output", "containsType", "containsOperation")


def triples_sexp(g, lang):
    import graphgen as GG
    from rdflib import RDF
    from transforge.namespace import TF
    ns = str(lang.namespace)
    bmap = {}
    out = []
    for s_, p, o in g:
        if p == RDF.type or any(p == TF[k] for k in KEEP):
            out.append("(" + " ".join(GG.node_str(x, ns, bmap) for x in (s_, p, o)) + ")")
    return " ".join(sorted(out))


def task_sexp(t):
    steps = " ".join("(step (types " + " ".join(G.ty_sexp(Q.generalize_w(x)) for x in st["types"]) + ") (ops " + " ".join(st["ops"]) + ") (from "
        + " ".join(str(b) for b in st["from"]) + "))" for st in t["steps"])
    return "(task (steps " + steps + ") (outputs " + " ".join(str(o) for o in t["outputs"]) + ") (inputs " + " ".join(str(i) for i in t["inputs"]) + "))"


def model_task(task, q, tnodes, flags):
    """task with dense step numbering and predecessors in the implementation's visiting order; renaming of ?_i to step / path names"""
    ids = sorted(task["steps"].keys())
    dense = {k: i for i, k in enumerate(ids)}
    node_step = {n: dense[k] for k, n in tnodes.items()}
    var_step = {str(v): node_step[n] for v, n in q.steps.items()}
    children = {}
    for v, bs in q.before.items():
        st = var_step[str(v)]
        order = []
        for b in bs:
            sb = var_step[str(b)]
            if sb not in order:
                order.append(sb)
        children.setdefault(st, order)
    steps = []
    for k in ids:
        st = task["steps"][k]
        want = [dense[b] for b in st["from"]]
        order = [b for b in children.get(dense[k], []) if b in want] + [b for b in want if b not in children.get(dense[k], [])]
        steps.append({"types": st["types"], "ops": st["ops"], "from": order})
    outs = []
    for v in q.outputs:
        s_ = var_step[str(v)]
        if s_ not in outs:
            outs.append(s_)
    rename = {}
    if flags["unfold_tree"]:
        parent = {}
        for v, cs in q.after.items():
            for c in cs:
                parent[str(v)] = str(c)

        def path(v):
            return (path(parent[v]) if v in parent else []) + [var_step[v]]
        for v in var_step:
            rename[v] = "p" + ".".join(str(x) for x in path(v))
            if len(path(v)) == 1:
                rename[v] = "s" + str(path(v)[0])
    else:
        for v, s_ in var_step.items():
            rename[v] = "s" + str(s_)
    return {"steps": steps, "outputs": outs, "inputs": [dense[i] for i in task.get("inputs", [])]}, rename


def rename_clause(c, rename):
    def t(x):
        return ("v", rename.get(x[1], x[1])) if x[0] == "v" and x[1] != "workflow" else x
    if c[0] == "union":
        return ("union", [rename_clause(x, rename) for x in c[1]])
    return ("t", t(c[1]), c[2], t(c[3]))


def dedup(q):
    def uniq(cs):
        out, seen = [], set()
        for c in cs:
            k = Q.clause_key(c)
            if k not in seen:
                seen.add(k)
                out.append(c)
        return out
    return {"prefilter": uniq(q["prefilter"]), "body": uniq(q["body"])}


def replay(ctx, payload):
    from props.C03 import fix_schema
    inp = payload["input"]
    spec = G.LangSpec([(n, v, p) for n, v, p in inp["lang"]])
    Q.LANGSPEC = spec
    ops = spec.build()
    opdecls = [(n, fix_schema(s)) for n, s in inp["opdecls"]]
    listed = [tt(t) for t in inp["listed"]]
    lang, operators = X.build_typed_language(spec, ops, opdecls, canon=listed, include_top=inp["top"])
    canon = sorted(G.py_to_data(t, ops) for t in lang.canon)
    texts = [inp["workflow"]] + ([inp["target"]] if inp.get("target") and inp["target"] != inp["workflow"] else [])
    trees = []
    workflows = {}
    from rdflib import RDF
    from transforge.graph import TransformationGraph
    from transforge.namespace import TF
    import wfgen as W
    for i, text in enumerate(texts):
        e = lang.parse(text)
        e.fix()
        g = TransformationGraph(lang)
        wf = W.res(f"wf{i}")
        n = g.add_expr(e, wf)
        g.add((wf, RDF.type, TF.Transformation))
        g.add((wf, TF.output, n))
        workflows[wf] = (g, text)
    ds = dataset(lang, workflows)
    task = inp["task"]
    task = {"steps": {int(k): {"types": [tw(t) for t in v["types"]], "ops": v["ops"], "from": v["from"]} for k, v in task["steps"].items()},
            "outputs": task["outputs"], "inputs": task.get("inputs", [])}
    c = type("C", (), {"failures": [], "stats": {}, "evaluations": 0, "distinct": set(), "constants": None, "rng": __import__("random").Random(0),
        "count": lambda self, n, k=1: None, "case": lambda self, *a, **k: None,
        "fail": lambda self, d, f, r: self.failures.append((d, f))})()
    # force the recorded style
    style = inp.get("style", "uri")
    orig_choice = c.rng.choice
    c.rng.choice = lambda seq: style if style in seq else orig_choice(seq)
    one_case(c, 0, spec, ops, opdecls, lang, operators, canon, listed, inp["top"], workflows, ds, W.res("wf0"), texts[0], task, "replay", inp["flags"])
    for d, f in c.failures:
        print(d[:700], f)
    print("oracle:", "holds" if not c.failures else "fails")
    return not c.failures


def tt(x):
    return (x[0], tuple(tt(a) for a in x[1]))


def tw(x):
    if x[0] == 'w':
        return ('w',)
    return (x[0], tuple(tw(a) for a in x[1]))
