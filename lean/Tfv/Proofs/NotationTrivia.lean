import Tfv.Proofs.Notation
import Tfv.Proofs.ParseTotal
/-!
# Comments and line breaks are neutral for every token list, annotations included

Since layout and comment tokens no longer count as "the previous token" (repair of defect D31), the expression
parser treats a token list exactly like the list with every comment (`#` up to the line break) and every line break
removed — also when the list contains type annotations `: T`, and also when the comments and line breaks stand
inside the type text (the type parser skips them by the same rule).

* `typeLoop_strip` — the type parser (both modes) on `ts` and on `stripTrivia ts`: same type, same number of
  variables, same error; the unconsumed tokens of the second run are the stripped unconsumed tokens of the first.
* `exprLoop_strip` — the expression loop, any builder, any fuel that suffices: final states equal up to the
  `comment` flag.
* `parseExprToks_strip_all` — `parseExprToks ts = parseExprToks (stripTrivia false ts)`, no side condition.
-/
namespace Tfv.Notation
open Tfv

/-! ## the type parser -/

theorem typeStep_comment (P : PLang) (vb : Nat) (s s' : TState) (tok : String)
    (h : typeStep P vb s tok = .ok s') : s'.comment = s.comment := by
  unfold typeStep at h
  split at h
  · split at h
    · cases h; rfl
    · cases h
  split at h
  · split at h
    · cases h
    · split at h
      · split at h
        · split at h
          · cases h
          · cases h; rfl
        · cases h; rfl
        · cases h; rfl
      · cases h; rfl
  split at h
  · cases h; rfl
  split at h
  · split at h
    · cases h; rfl
    · cases h
    · cases h
  · split at h
    · cases h
    · cases h; rfl

theorem stripTrivia_length_le : ∀ (c : Bool) (ts : List String), (stripTrivia c ts).length ≤ ts.length
  | _, [] => Nat.le_refl _
  | c, tok :: rest => by
    have h1 := stripTrivia_length_le true rest
    have h2 := stripTrivia_length_le false rest
    simp only [stripTrivia]
    split
    · simp only [List.length_cons]; omega
    split
    · simp only [List.length_cons]; omega
    split
    · simp only [List.length_cons]; omega
    · simp only [List.length_cons]; omega

/-- the result of the type parser with the unconsumed tokens stripped -/
def stripRest : Except PErr (Term × Nat × List String) → Except PErr (Term × Nat × List String)
  | .error e => .error e
  | .ok (t, k, r) => .ok (t, k, stripTrivia false r)

theorem typeFinish_comment (P : PLang) (s : TState) (b : Bool) :
    typeFinish P { s with comment := b } = typeFinish P s := rfl

theorem inlineDone_comment (s : TState) (b : Bool) : inlineDone { s with comment := b } = inlineDone s := rfl

/-- the type parser on a token list and on the list without comments and line breaks -/
theorem typeLoop_strip (P : PLang) (ca : Bool) (vb : Nat) : ∀ (ts : List String) (s : TState),
    stripRest (parseTypeLoop P ca vb s ts)
    = parseTypeLoop P ca vb { s with comment := false } (stripTrivia s.comment ts)
  | [], s => by
    simp only [stripTrivia]
    rw [parseTypeLoop, parseTypeLoop]
    have e : typeFinish P { s with comment := false } = typeFinish P s := rfl
    rw [e]
    cases typeFinish P s with
    | error e => rfl
    | ok r => rfl
  | tok :: rest, s => by
    obtain ⟨stack, level, calls, fresh, c⟩ := s
    cases c with
    | true =>
      rw [parseTypeLoop]
      simp only [if_true]
      have ih := typeLoop_strip P ca vb rest ⟨stack, level, calls, fresh, tok != "\n"⟩
      rw [ih]
      by_cases h1 : tok = "#"
      · subst h1
        simp only [stripTrivia, beq_self_eq_true, if_true]
        rfl
      · by_cases h2 : tok = "\n"
        · subst h2
          simp only [stripTrivia, beq_iff_eq, h1, if_false, if_true]
          rfl
        · simp only [stripTrivia, beq_iff_eq, h1, h2, if_false, if_true]
          have : (tok != "\n") = true := by simp [h2]
          rw [this]
    | false =>
      by_cases h2 : tok = "\n"
      · subst h2
        rw [parseTypeLoop]
        simp only [Bool.false_eq_true, if_false, beq_self_eq_true, if_true]
        rw [typeLoop_strip P ca vb rest ⟨stack, level, calls, fresh, false⟩]
        have c1 : ("\n" == "#") = false := by decide
        simp only [stripTrivia, c1, Bool.false_eq_true, if_false, beq_self_eq_true, if_true]
      · by_cases h1 : tok = "#"
        · subst h1
          rw [parseTypeLoop]
          have c1 : ("#" == "\n") = false := by decide
          simp only [Bool.false_eq_true, if_false, c1, beq_self_eq_true, if_true]
          rw [typeLoop_strip P ca vb rest ⟨stack, level, calls, fresh, true⟩]
          simp only [stripTrivia, beq_self_eq_true, if_true]
        · have e1 : stripTrivia false (tok :: rest) = tok :: stripTrivia false rest := by
            simp only [stripTrivia, beq_iff_eq, h1, h2, if_false, Bool.false_eq_true]
          simp only [e1]
          rw [parseTypeLoop, parseTypeLoop]
          simp only [Bool.false_eq_true, if_false, beq_iff_eq, h1, h2]
          cases hs : typeStep P vb ⟨stack, level, calls, fresh, false⟩ tok with
          | error e => rfl
          | ok s' =>
            have hc := typeStep_comment P vb _ s' tok hs
            have ih := typeLoop_strip P ca vb rest s'
            obtain ⟨stack', level', calls', fresh', c'⟩ := s'
            simp only at hc
            subst hc
            simp only []
            cases ca with
            | true => simpa only [if_true] using ih
            | false =>
              simp only [Bool.false_eq_true, if_false]
              cases inlineDone ⟨stack', level', calls', fresh', false⟩ with
              | error e => rfl
              | ok b =>
                cases b with
                | false => simpa only [] using ih
                | true =>
                  simp only []
                  cases typeFinish P ⟨stack', level', calls', fresh', false⟩ with
                  | error e => rfl
                  | ok r => rfl

/-! ## the expression parser -/
section expr
variable {S E : Type} (P : PLang) (B : Builder S E) (inputs : List E) (defaults : Bool)

/-- the final loop state without its `comment` flag -/
def clearC : Except PErr (EState S E) → Except PErr (EState S E)
  | .error e => .error e
  | .ok s => .ok { s with comment := false }

theorem proj_clearC (r : Except PErr (EState S E)) : proj (clearC r) = proj r := by
  cases r <;> rfl

/-- the expression loop on a token list and on the list without comments and line breaks: the same builder state,
stack and previous token at the end, or the same error — for any two amounts of fuel that suffice -/
theorem exprLoop_strip : ∀ (n m : Nat) (s : EState S E) (ts : List String),
    ts.length < n → (stripTrivia s.comment ts).length < m →
    clearC (parseExprLoop P B inputs defaults n s ts)
    = clearC (parseExprLoop P B inputs defaults m { s with comment := false } (stripTrivia s.comment ts))
  | 0, _, _, _, h, _ => by omega
  | n+1, m, s, [], _, hm => by
    simp only [stripTrivia] at hm ⊢
    cases m with
    | zero => omega
    | succ m =>
      rw [parseExprLoop, parseExprLoop]
      · rfl
      · intro h; cases h
      · intro h; cases h
  | n+1, m, s, tok :: rest, hn, hm => by
    have hn' : rest.length < n := by simp only [List.length_cons] at hn; omega
    have IH := exprLoop_strip n
    by_cases h1 : tok = "#"
    · subst h1
      rw [parseExprLoop]
      simp only [beq_self_eq_true, if_true]
      simp only [stripTrivia, beq_self_eq_true, if_true] at hm ⊢
      exact IH m { s with comment := true } rest hn' hm
    by_cases h2 : tok = "\n"
    · subst h2
      rw [parseExprLoop]
      simp only [beq_iff_eq, h1, if_false, if_true]
      simp only [stripTrivia, beq_iff_eq, h1, if_false, if_true] at hm ⊢
      exact IH m { s with comment := false } rest hn' hm
    obtain ⟨st, stack, c, p⟩ := s
    cases c with
    | true =>
      rw [parseExprLoop]
      simp only [beq_iff_eq, h1, h2, if_false, if_true]
      simp only [stripTrivia, beq_iff_eq, h1, h2, if_false, if_true] at hm ⊢
      exact IH m ⟨st, stack, true, p⟩ rest hn' hm
    | false =>
      have e1 : stripTrivia false (tok :: rest) = tok :: stripTrivia false rest := by
        simp only [stripTrivia, beq_iff_eq, h1, h2, if_false, Bool.false_eq_true]
      simp only [e1, List.length_cons] at hm ⊢
      cases m with
      | zero => omega
      | succ m =>
        have hm' : (stripTrivia false rest).length < m := by omega
        by_cases h3 : tok = ":"
        · subst h3
          rw [parseExprLoop, parseExprLoop]
          have c1 : (":" == "#") = false := by decide
          have c2 : (":" == "\n") = false := by decide
          have c3 : (":" == "(" || ":" == "," || ":" == ")") = false := by decide
          simp only [c1, c2, c3, Bool.false_eq_true, if_false, beq_self_eq_true, if_true]
          cases stack with
          | nil => rfl
          | cons top below =>
            cases top with
            | none => rfl
            | some previous =>
              simp only []
              have hty := typeLoop_strip P false (B.varBase st) rest {}
              have e0 : ({ ({} : TState) with comment := false } : TState) = {} := rfl
              have e0' : ({} : TState).comment = false := rfl
              rw [e0, e0'] at hty
              cases hr : parseTypeLoop P false (B.varBase st) {} rest with
              | error e =>
                rw [hr] at hty
                simp only [stripRest] at hty
                rw [← hty]
              | ok r =>
                obtain ⟨t, nfresh, rest'⟩ := r
                rw [hr] at hty
                simp only [stripRest] at hty
                rw [← hty]
                simp only []
                cases B.annotate st previous t nfresh (p == "-") with
                | error e => rfl
                | ok q =>
                  obtain ⟨st', previous'⟩ := q
                  simp only []
                  have l1 := parseTypeLoop_length P false _ rest {} t nfresh rest' hr
                  have l2 := parseTypeLoop_length P false _ _ {} t nfresh _ hty.symm
                  exact IH m ⟨st', some previous' :: below, false, ":"⟩ rest' (by omega) (by simp only []; omega)
        · rw [loop_step P B inputs defaults n ⟨st, stack, false, p⟩ tok rest h1 h2 h3 rfl,
            loop_step P B inputs defaults m ⟨st, stack, false, p⟩ tok _ h1 h2 h3 rfl]
          cases exprStep B inputs defaults st stack tok with
          | error e => rfl
          | ok v =>
            obtain ⟨st', stack'⟩ := v
            exact IH m ⟨st', stack', false, tok⟩ rest hn' hm'

/-- comments and line breaks anywhere, type annotations included -/
theorem parseExprToks_strip_all (st0 : S) (ts : List String) :
    parseExprToks P B inputs st0 ts = parseExprToks P B inputs st0 (stripTrivia false ts) := by
  rw [parseExprToks_eq_proj, parseExprToks_eq_proj]
  have h := exprLoop_strip P B inputs false (ts.length + 1) ((stripTrivia false ts).length + 1)
    { st := st0 } ts (Nat.lt_succ_self _) (Nat.lt_succ_self _)
  have h' := congrArg proj h
  rw [proj_clearC, proj_clearC] at h'
  rw [h']

end expr

end Tfv.Notation
