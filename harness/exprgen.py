"""Typed languages (operators with schemas), typed expression texts, and the canonical dump
of the implementation's typed expression trees (identical to Tfv.renderExpr)."""
from __future__ import annotations
import itertools
import langgen as G
import infer as I
import parsegen as PG

FUN, TOP, BOT, PROD, UNIT = G.FUN, G.TOP, G.BOT, G.PROD, G.UNIT
OPNAMES = ["f", "g", "h", "k", "m", "p", "q", "r", "c", "d"]


# -- operator sets ------------------------------------------------------------------

def fun(*ts):
    """curried function term"""
    t = ts[-1]
    for p in reversed(ts[:-1]):
        t = (FUN, (p, t))
    return t


def gen_operators(rng, spec, n=None, p_constraints=0.35, allow_prod=True):
    """list of (name, schema) designed to compose: monomorphic, polymorphic, constrained, higher-order, constants"""
    bases = spec.bases() or [UNIT]
    comps = spec.compounds(builtin=False)
    n = n or rng.randint(3, 7)
    out = []

    def base():
        return (rng.choice(bases), ())

    def conc(d=1):
        return I.conc(G.gen_ty(rng, spec, d, p_special=0.04, allow_fun=False, allow_prod=allow_prod))

    for i in range(n):
        name = OPNAMES[i]
        r = rng.random()
        if r < 0.1 and allow_prod:
            # one variable in co-, contra- and mixed-variance parameter contexts (two-sided bounds, variable-to-variable binds)
            x = ('v', 0)
            k1, k2 = base(), base()
            palette = [x, fun(k1, x), fun(x, k1), fun(x, k2), fun(x, x)]
            if comps:
                c = rng.choice(comps)
                palette.append((c, tuple(x if j == 0 else k1 for j in range(spec.arity(c)))))
            ps = [rng.choice(palette) for _ in range(rng.randint(2, 3))]
            s = {"nvars": 1, "nwild": 0, "body": fun(*ps, rng.choice([x, k2])), "constraints": []}
        elif r < 0.12:
            s = {"nvars": 0, "nwild": 0, "body": conc(1), "constraints": []}          # constant
            if comps and rng.random() < 0.4:
                # a polymorphic data constant (nil : L(x)): every use must get its own variables
                c = rng.choice(comps)
                s = {"nvars": 1, "nwild": 0, "body": (c, tuple(('v', 0) if j == 0 else base() for j in range(spec.arity(c)))), "constraints": []}
        elif r < 0.38:
            k = rng.randint(1, 3)
            s = {"nvars": 0, "nwild": 0, "body": fun(*[conc(rng.randint(0, 1)) for _ in range(k + 1)]), "constraints": []}
        elif r < 0.55:
            # polymorphic in one variable: x ** x ** x, F(x) ** x, x ** F(x), with optional subtype constraint
            x = ('v', 0)
            forms = [fun(x, x, x), fun(x, x)]
            if comps:
                c = rng.choice(comps)
                cx = (c, tuple(x if j == 0 else base() for j in range(spec.arity(c))))
                forms += [fun(cx, x), fun(x, cx), fun(cx, cx, cx)]
            cs = []
            if rng.random() < 0.4:
                cs.append(('sub', x, base(), False))
            s = {"nvars": 1, "nwild": 0, "body": rng.choice(forms), "constraints": cs}
        elif r < 0.70:
            # higher-order: (x ** y) ** c(x) ** c(y), (x ** y ** z) ** ..., x ** (x ** y) ** y
            x, y = ('v', 0), ('v', 1)
            forms = [fun(fun(x, y), x, y), fun(x, fun(x, y), y)]
            if comps:
                c = rng.choice(comps)
                cx = (c, tuple(x if j == 0 else base() for j in range(spec.arity(c))))
                cy = (c, tuple(y if j == 0 else base() for j in range(spec.arity(c))))
                forms += [fun(fun(x, y), cx, cy), fun(fun(x, x, y), cx, y)]
            s = {"nvars": 2, "nwild": 0, "body": rng.choice(forms), "constraints": []}
        elif allow_prod:
            s = I.gen_schema(rng, spec, p_constraints=p_constraints)
        else:
            x = ('v', 0)
            s = {"nvars": 1, "nwild": 0, "body": fun(x, conc(1), x), "constraints": [('sub', x, base(), False)] if rng.random() < 0.5 else []}
        out.append((name, s))
    return out


def operators_line(opdecls):
    return "(operators " + " ".join(f"({n} {I.schema_sexp(s)})" for n, s in opdecls) + ")"


def build_typed_language(spec, ops, opdecls, canon=None, include_top=False, include_bottom=False, aliases=None):
    """a real Language with the operators of `opdecls`; returns (lang, {name: Operator})"""
    from transforge.expr import Operator
    from transforge import type as T
    operators = {}
    for name, s in opdecls:
        src = I.schema_src(s, spec)
        fn = eval(src, {"OPS": ops, "_": T._})
        if s["nvars"] == 0 and s["nwild"] == 0 and not I.is_var(s["body"]) and not s["body"][1]:
            fn = fn()           # a constant of a base type is declared as users do: Operator(type=A)
        operators[name] = Operator(type=fn, name=name)
    lang = G.build_language(spec, ops, canon=canon, include_top=include_top, include_bottom=include_bottom,
        operators=operators, aliases=aliases)
    return lang, operators


# -- canonical dump -----------------------------------------------------------------

class SourceNumbering:
    """numbers every `Source` object in creation order (inputs first), tags non-function operator sources"""
    def __init__(self):
        pass

    def __enter__(self):
        from transforge import expr as E
        self.E = E
        self.counter = itertools.count()
        me = self
        self._init = E.Source.__init__
        self._inst = E.Operator.instance

        def init(s, *a, **kw):
            s._verif_id = next(me.counter)
            me._init(s, *a, **kw)

        def inst(op):
            e = me._inst(op)
            if isinstance(e, E.Source):
                e._verif_label = op.name
            return e
        E.Source.__init__ = init
        E.Operator.instance = inst
        return self

    def __exit__(self, *a):
        self.E.Source.__init__ = self._init
        self.E.Operator.instance = self._inst


def dump_expr(e, ops):
    """canonical form of a typed expression tree; must equal Tfv.renderExpr"""
    from transforge import type as T
    from transforge import expr as E
    names = []
    types = []

    def collect_t(t):
        t = t.follow()
        if isinstance(t, T.TypeVariable):
            if not any(t is n for n in names):
                names.append(t)
        else:
            for p in t.params:
                collect_t(p)

    def collect(e):
        if isinstance(e, E.Application):
            collect(e.f)
            collect(e.x)
        collect_t(e.type)
        types.append(e.type)

    def on(o):
        return "-" if o is None else str(I.op_index(o, ops))

    def render(t):
        t = t.follow()
        if isinstance(t, T.TypeVariable):
            for k, n in enumerate(names):
                if n is t:
                    return f"(v {k})"
            return f"(u {on(t.lower)} {on(t.upper)} {'W' if t.wildcard else '-'})"
        o = I.op_index(t.operator, ops)
        if not t.params:
            return f"({o})"
        return "(" + str(o) + " " + " ".join(render(p) for p in t.params) + ")"

    def rexpr(e):
        if isinstance(e, E.Application):
            return f"(app {rexpr(e.f)} {rexpr(e.x)} {render(e.type)})"
        if isinstance(e, E.Operation):
            return f"(op {e.operator.name} {render(e.type)})"
        if isinstance(e, E.Source):
            if hasattr(e, "_verif_label"):
                return f"(const {e._verif_label} {render(e.type)})"
            return f"(src {getattr(e, '_verif_id', '?')} {render(e.type)})"
        return "?" + type(e).__name__

    collect(e)
    body = rexpr(e)
    bounds = "".join(f"[{on(v.lower)} {on(v.upper)} {'W' if v.wildcard else '-'}]" for v in names)
    cset = []
    for t in types:
        for c in t.constraints():
            if not any(c is d for d in cset):
                cset.append(c)
    cs = []
    for c in cset:
        if isinstance(c, T.SubtypeConstraint):
            cs.append(f"(sub {render(c.reference)} {render(c.target)} {'S' if c.strict else 'N'} {'F' if c.fulfilled else 'P'})")
        else:
            cs.append("(elim " + render(c.reference) + " [" + " ".join(render(a) for a in c.alternatives) + "] " + ('F' if c.fulfilled else 'P') + ")")
    cs.sort()
    return body + " " + bounds + " {" + " ".join(cs) + "}"


def err_obs(ex):
    from transforge import type as T
    from transforge.expr import ApplicationError
    from transforge.lang import ParseError, TypeAnnotationError
    if isinstance(ex, ApplicationError):
        c = ex.__cause__
        if isinstance(c, AssertionError):
            return "E:ApplicationError:Internal(" + I.assert_site(c) + ")"
        return "E:ApplicationError:" + type(c).__name__
    if isinstance(ex, AssertionError):
        return "E:Internal(" + I.assert_site(ex) + ")"
    if isinstance(ex, (ParseError, T.TypingError)):
        return "E:" + type(ex).__name__
    return "E:X:" + type(ex).__name__


def obs_typed(lang, text, ninputs, ops, fix=True, apply_fix=True):
    """typed observation of Language.parse (+ Expr.fix); returns (obs, exception | None, expr | None, inputs)"""
    from transforge import expr as E
    I.install_order_hook()
    with SourceNumbering():
        inputs = [E.Source() for _ in range(ninputs)]
        try:
            e = lang.parse(text, *inputs) if apply_fix else lang.parse(text, *inputs, fix=False)
            if fix:
                e.fix()
        except AssertionError as ex:
            # an assert inside Application is not wrapped (only TypingError is)
            return err_obs_raw(ex), ex, None, inputs
        except Exception as ex:  # noqa
            return err_obs(ex), ex, None, inputs
    return "ok " + dump_expr(e, ops), None, e, inputs


def err_obs_raw(ex):
    import traceback
    names = [fr.name for fr in traceback.extract_tb(ex.__traceback__)]
    site = I.assert_site(ex)
    if "__init__" in names and "apply" in names:
        return "E:ApplicationError:Internal(" + site + ")"
    return "E:Internal(" + site + ")"


# programmatic construction -----------------------------------------------------------

def ctree_sexp(t):
    if t[0] == "op":
        return f"(op {t[1]})"
    if t[0] == "in":
        return f"(in {t[1]})"
    if t[0] == "src":
        return "(src)"
    return "(call " + ctree_sexp(t[1]) + "".join(" " + ctree_sexp(a) for a in t[2]) + ")"


def to_ctree(tree):
    """application tree ('app', f, x) -> call tree with maximal spines"""
    head, args = PG.spine(tree)
    if not args:
        return tree
    return ("call", to_ctree(head), [to_ctree(a) for a in args])


def build_py(t, operators, inputs):
    from transforge import expr as E
    if t[0] == "op":
        return operators[t[1]]          # an Operator: instantiated by __call__/shorthand after the arguments
    if t[0] == "in":
        return inputs[t[1] - 1]
    if t[0] == "src":
        return E.Source()
    # Python evaluates the callee expression first (a `Source()` is created, an `Operator` is only named),
    # then the arguments; `Operator.__call__` instantiates the operator after that
    head = build_py(t[1], operators, inputs)
    args = [inst(build_py(a, operators, inputs)) for a in t[2]]
    return inst(head)(*args)


def inst(x):
    from transforge import expr as E
    return x.instance() if isinstance(x, E.Operator) else x


def obs_call(operators, tree, ninputs, ops, fix=True):
    from transforge import expr as E
    I.install_order_hook()
    with SourceNumbering():
        inputs = [E.Source() for _ in range(ninputs)]
        try:
            e = inst(build_py(tree, operators, inputs))
            if fix:
                e.fix()
        except AssertionError as ex:
            return err_obs_raw(ex), ex, None
        except Exception as ex:  # noqa
            return err_obs(ex), ex, None
    return "ok " + dump_expr(e, ops), None, e


# -- expression generation by trial -----------------------------------------------------

def tree_text(t):
    """plain rendering `f x (g y)`"""
    if t[0] == "op":
        return t[1]
    if t[0] == "in":
        return str(t[1])
    if t[0] == "src":
        return "-"
    if t[0] == "ann":
        return "(" + tree_text(t[1]) + " : " + t[2] + ")"
    f = tree_text(t[1])
    x = tree_text(t[2])
    if t[2][0] == "app":
        x = "(" + x + ")"
    return f + " " + x


def well_typed(lang, text, ninputs):
    from transforge import expr as E
    try:
        e = lang.parse(text, *[E.Source() for _ in range(ninputs)])
        return e
    except Exception:  # noqa
        return None


def head_is_op(t):
    t = strip_ann(t)
    while t[0] == "app":
        t = strip_ann(t[1])
    return t[0] == "op"


def gen_typed_trees(rng, lang, spec, opdecls, ninputs, rounds=3, per_round=10, p_ann=0.25, op_heads=False):
    """pool of mostly well-typed trees, grown bottom-up by trying applications on the implementation"""
    from transforge import type as T
    leaves = [("op", n) for n, _ in opdecls] + [("in", k + 1) for k in range(ninputs)]
    bases = spec.bases() or [UNIT]

    def typed_src():
        t = G.gen_ty(rng, spec, rng.randint(0, 1), p_special=0.03, allow_fun=False)
        return ("ann", ("src",), G.ty_text(t, spec))
    pool = list(leaves) + [typed_src() for _ in range(4)] + [("src",)]
    good = []
    for _ in range(rounds):
        new = []
        tries = 0
        while len(new) < per_round and tries < per_round * 8:
            tries += 1
            f = rng.choice(pool)
            if op_heads and not head_is_op(f):
                continue
            x = rng.choice(pool)
            t = ("app", f, x)
            if rng.random() < p_ann * 0.3:
                ty = G.gen_ty(rng, spec, 1, p_special=0.05, allow_fun=False)
                t = ("ann", t, G.ty_text(ty, spec))
            if well_typed(lang, tree_text(t), ninputs) is not None:
                new.append(t)
        pool += new
        good += new
    return good


def strip_ann(t):
    if t[0] == "ann":
        return strip_ann(t[1])
    if t[0] == "app":
        return ("app", strip_ann(t[1]), strip_ann(t[2]))
    return t


def has_ann(t):
    if t[0] == "ann":
        return True
    if t[0] == "app":
        return has_ann(t[1]) or has_ann(t[2])
    return False


def napps(t):
    if t[0] == "ann":
        return napps(t[1])
    return 0 if t[0] != "app" else 1 + napps(t[1]) + napps(t[2])
