import Tfv.Proofs.SchedSoundApply
import Tfv.Proofs.InferConstrMain
/-!
# C18 (soundness under every schedule): the C03 statements for the scheduled engine, in their final form
-/
namespace Tfv.C18S
open Tfv Tfv.C03P Tfv.C03C

variable {ord : List Nat → List Nat}

theorem unify_soundCO {L : Lang} (wf : WF L) (hord : OrdSub ord) {n : Nat} {σ σ' : Store} {a b : Term}
    (okc : OkStoreC L σ) (ha : okTerm L σ a = true) (hb : okTerm L σ b = true)
    (h : unifyS L ord n σ a b true false false = .ok σ') :
    OkStoreC L σ' ∧ σ.vars.length ≤ σ'.vars.length ∧
    (∀ t, okTerm L σ t = true → okTerm L σ' t = true) ∧
    ∀ ρ, Sat L ρ σ' → Sat L ρ σ ∧ Sub L (den ρ a) (den ρ b) := by
  obtain ⟨s, hs⟩ := (all_soundCO wf hord n).1 σ a b false false σ' okc ha hb h
  obtain ⟨h1, h2, h3⟩ := stepC_unpack s
  exact ⟨h1, h2, h3, fun ρ hρ => ⟨s.sat ρ hρ, hs rfl rfl ρ hρ⟩⟩

theorem unify_flags_soundCO {L : Lang} (wf : WF L) (hord : OrdSub ord) {n : Nat} {σ σ' : Store} {a b : Term} {sb sw : Bool}
    (okc : OkStoreC L σ) (ha : okTerm L σ a = true) (hb : okTerm L σ b = true)
    (h : unifyS L ord n σ a b true sb sw = .ok σ') :
    OkStoreC L σ' ∧ σ.vars.length ≤ σ'.vars.length ∧
    (∀ t, okTerm L σ t = true → okTerm L σ' t = true) ∧
    ∀ ρ, Sat L ρ σ' → Sat L ρ σ ∧ (sb = false → sw = false → Sub L (den ρ a) (den ρ b)) := by
  obtain ⟨s, hs⟩ := (all_soundCO wf hord n).1 σ a b sb sw σ' okc ha hb h
  obtain ⟨h1, h2, h3⟩ := stepC_unpack s
  exact ⟨h1, h2, h3, fun ρ hρ => ⟨s.sat ρ hρ, fun e1 e2 => hs e1 e2 ρ hρ⟩⟩

theorem fix_soundCO {L : Lang} (wf : WF L) (hord : OrdSub ord) {n : Nat} {σ σ' : Store} {t t' : Term} {pl : Bool}
    (okc : OkStoreC L σ) (ht : okTerm L σ t = true)
    (h : fixS L ord n σ t pl = .ok (σ', t')) :
    OkStoreC L σ' ∧ σ.vars.length ≤ σ'.vars.length ∧
    (∀ t, okTerm L σ t = true → okTerm L σ' t = true) ∧ okTerm L σ' t' = true ∧
    ∀ ρ, Sat L ρ σ' → Sat L ρ σ ∧ den ρ t' = den ρ t := by
  obtain ⟨s, ht', hs⟩ := (all_soundCO wf hord n).2.2.2.2.2.1 σ t pl σ' t' okc ht h
  obtain ⟨h1, h2, h3⟩ := stepC_unpack s
  exact ⟨h1, h2, h3, ht', fun ρ hρ => ⟨s.sat ρ hρ, hs ρ hρ⟩⟩

theorem checkConstraints_soundCO {L : Lang} (wf : WF L) (hord : OrdSub ord) {n : Nat} {σ σ' : Store} {v : Nat}
    (okc : OkStoreC L σ) (h : checkConstraintsS L ord n σ v = .ok σ') :
    OkStoreC L σ' ∧ σ.vars.length ≤ σ'.vars.length ∧ ∀ ρ, Sat L ρ σ' → Sat L ρ σ := by
  have s := (all_soundCO wf hord n).2.2.2.2.2.2.2.1 σ v σ' okc h
  exact ⟨s.ok, s.len, s.sat⟩

theorem fulfill_soundCO {L : Lang} (wf : WF L) (hord : OrdSub ord) {n : Nat} {σ σ' : Store} {c : Nat} {d : Bool}
    (okc : OkStoreC L σ) (hc : c < σ.constrs.length) (h : fulfillS L ord n σ c = .ok (σ', d)) :
    OkStoreC L σ' ∧ σ.vars.length ≤ σ'.vars.length ∧ ∀ ρ, Sat L ρ σ' → Sat L ρ σ := by
  have s := (all_soundCO wf hord n).2.2.2.2.2.2.2.2.2.1 σ c σ' d okc hc h
  exact ⟨s.ok, s.len, s.sat⟩

theorem instantiate_sound_CO {L : Lang} (wf : WF L) (hord : OrdSub ord) {n : Nat} {σ σ' : Store} {s : Schema} {f : Term}
    (okc : OkStoreC L σ)
    (hcs : ∀ c, c ∈ s.constraints → okCAstN L (s.nvars + s.nwild) c = true)
    (hbody : okTermN L (s.nvars + s.nwild) s.body = true)
    (h : instantiateS L ord n σ s = .ok (σ', f)) :
    OkStoreC L σ' ∧ σ.vars.length + s.nvars + s.nwild ≤ σ'.vars.length ∧
    (∀ t, okTerm L σ t = true → okTerm L σ' t = true) ∧ okTerm L σ' f = true ∧
    ∀ ρ, Sat L ρ σ' → Sat L ρ σ ∧ den ρ f = den ρ (s.body.shift σ.vars.length) := by
  obtain ⟨st, hlen, hf, hd⟩ := instantiate_soundCO wf hord okc hcs hbody h
  exact ⟨st.ok, hlen, fun t ht => okTerm_mono st.len t ht, hf, fun ρ hρ => ⟨st.sat ρ hρ, hd ρ hρ⟩⟩

theorem apply_soundCO {L : Lang} (wf : WF L) (hord : OrdSub ord) {n : Nat} {σ σ' : Store} {f x r : Term} {fixFlag : Bool}
    (okc : OkStoreC L σ) (hf : okTerm L σ f = true) (hx : okTerm L σ x = true)
    (h : applyTS L ord n σ f x fixFlag = .ok (σ', r)) :
    OkStoreC L σ' ∧ σ.vars.length ≤ σ'.vars.length ∧
    (∀ t, okTerm L σ t = true → okTerm L σ' t = true) ∧ okTerm L σ' r = true ∧
    ∀ ρ, Sat L ρ σ' → Sat L ρ σ ∧
      ((∃ p, den ρ f = .app FUN [p, den ρ r] ∧ Sub L (den ρ x) p) ∨
       (den ρ f = .app TOP [] ∧ r = .app TOP [])) := by
  obtain ⟨s, hr, hs⟩ := applyT_soundCO wf hord okc hf hx h
  obtain ⟨h1, h2, h3⟩ := stepC_unpack s
  exact ⟨h1, h2, h3, hr, fun ρ hρ => ⟨s.sat ρ hρ, hs ρ hρ⟩⟩

theorem apply_chainCO {L : Lang} (wf : WF L) (hord : OrdSub ord) {n : Nat} {fixFlag : Bool} {σ σ' : Store} {f r : Term}
    {xs : List Term} (okc : OkStoreC L σ)
    (hf : okTerm L σ f = true) (hxs : okTermL L σ xs = true)
    (h : applyAllS L ord n fixFlag σ f xs = .ok (σ', r)) :
    OkStoreC L σ' ∧ σ.vars.length ≤ σ'.vars.length ∧
    (∀ t, okTerm L σ t = true → okTerm L σ' t = true) ∧ okTerm L σ' r = true ∧
    ∀ ρ, Sat L ρ σ' → Sat L ρ σ ∧ Accepts L (den ρ f) (denL ρ xs) (den ρ r) := by
  obtain ⟨s, hr, hs⟩ := applyAll_soundCO wf hord n fixFlag xs σ σ' f r okc hf hxs h
  obtain ⟨h1, h2, h3⟩ := stepC_unpack s
  exact ⟨h1, h2, h3, hr, fun ρ hρ => ⟨s.sat ρ hρ, hs ρ hρ⟩⟩

/-- instantiate a constrained schema, then apply it to arguments: the property in one statement,
with a witness for the unresolved variables -/
theorem apply_chain_instantiationCO {L : Lang} (wf : WF L) (hord : OrdSub ord) {n : Nat} {fixFlag : Bool} {σ σ' : Store}
    {f r : Term} {xs : List Term} (okc : OkStoreC L σ)
    (hf : okTerm L σ f = true) (hxs : okTermL L σ xs = true)
    (h : applyAllS L ord n fixFlag σ f xs = .ok (σ', r)) (hac : Acyclic σ')
    (θ : Val) (hθ : Choice L θ σ') :
    ∃ ρ, Sat L ρ σ' ∧ (∀ v, (getVar σ' v).bound = none → ρ v = θ v) ∧ Sat L ρ σ ∧
      Accepts L (den ρ f) (denL ρ xs) (den ρ r) := by
  obtain ⟨ok', _, _, _, hs⟩ := apply_chainCO wf hord okc hf hxs h
  obtain ⟨ρ, hρ, hθ'⟩ := witness_exists ok'.ok hac θ hθ
  exact ⟨ρ, hρ, hθ', (hs ρ hρ).1, (hs ρ hρ).2⟩


end Tfv.C18S
