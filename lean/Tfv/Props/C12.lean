import Tfv.Model
import Tfv.Proofs.GraphExamples
import Tfv.Proofs.WorkflowPerm
import Tfv.Proofs.WorkflowMain
import Tfv.Proofs.WorkflowLink
import Tfv.Proofs.WorkflowRecord
/-!
# C12 — the graph of a workflow

Statements only; the proofs are in `Tfv/Proofs/Workflow*.lean`.
-/
namespace Tfv.C12
open Tfv Tfv.GraphEx

/-- a workflow in which resource 1 is consumed by two tools: `r1 = f r0`, `r2 = g r1`, `r3 = h r1 r2` -/
def wops2 : List OperatorDecl := wops ++ [⟨"h", ⟨0, 0, .app FUN [.app 6 [], .app FUN [.app 7 [], .app 7 []]], []⟩⟩]
def wf2 : Wf := { sources := [0], apps := [
  { out := 1, toks := ["f", "1"], inputs := [0] },
  { out := 2, toks := ["g", "1"], inputs := [1] },
  { out := 3, toks := ["h", "1", "2"], inputs := [1, 2] }] }

/-- the running example with its two applications listed in the other order -/
def wf1r : Wf := { wf1 with apps := wf1.apps.reverse }

theorem wf1r_perm : wf1.apps.Perm wf1r.apps := (List.reverse_perm _).symm
theorem wf1_nodup : (wf1.apps.map (·.out)).Nodup := by decide

/-! ## 1. The listing order of the tool applications -/

/-- **Which application produces a resource does not depend on the listing order**, when no two applications
have the same output. -/
theorem C12_app_perm (w₁ w₂ : Wf) (hp : w₁.apps.Perm w₂.apps) (hn : (w₁.apps.map (·.out)).Nodup) (r : Nat) :
    w₁.app? r = w₂.app? r :=
  app?_perm w₁ w₂ hp hn r

example : wf1.app? 2 = wf1r.app? 2 ∧ (wf1.app? 2).map (·.toks) = some ["g", "1"] :=
  ⟨C12_app_perm wf1 wf1r wf1r_perm wf1_nodup 2, by decide⟩

/-- **The target** (the unique tool output that no tool consumes, or the error that there is none) does not
depend on the listing order. -/
theorem C12_target_perm (w₁ w₂ : Wf) (hp : w₁.apps.Perm w₂.apps) : w₁.target = w₂.target :=
  target_perm w₁ w₂ hp

example : wf1.target = wf1r.target := C12_target_perm wf1 wf1r wf1r_perm
example : wf1.target.toOption = some 2 ∧ wf1r.target.toOption = some 2 := by decide

/-- **The expression of a resource** is computed from `app?` and the sources only, hence does not depend on the
listing order. -/
theorem C12_wfExpr_perm (P : PLang) (ops : List OperatorDecl) (w₁ w₂ : Wf) (pt : Bool)
    (hp : w₁.apps.Perm w₂.apps) (hn : (w₁.apps.map (·.out)).Nodup) (hs : w₁.sources = w₂.sources)
    (n : Nat) (s : WState) (r : Nat) : wfExpr P ops w₁ pt n s r = wfExpr P ops w₂ pt n s r :=
  congrFun (congrFun (wfExpr_congr P ops w₁ w₂ pt hs (app?_perm w₁ w₂ hp hn) n) s) r

/-- the same for the graph nodes of a resource -/
theorem C12_wfNode_perm (G : GLang) (c : GCfg) (w₁ w₂ : Wf) (root : Node) (exprs : List (Nat × TExpr))
    (hp : w₁.apps.Perm w₂.apps) (hn : (w₁.apps.map (·.out)).Nodup) (hs : w₁.sources = w₂.sources)
    (hnm : w₁.names = w₂.names) (n : Nat) (g : GState) (r : Nat) :
    wfNode G c w₁ root exprs n g r = wfNode G c w₂ root exprs n g r :=
  congrFun (congrFun (wfNode_congr G c w₁ w₂ root exprs hs hnm (app?_perm w₁ w₂ hp hn) n) g) r

/-- **Every resource's expression is computed once.** A successful `wfExpr` call extends the memo table by entries
for pairwise distinct resources that had no entry, each a tool expression tagged with its resource, and returns the
table's entry for the resource asked for. (In particular a successful call never meets a cycle of the workflow: on a
cyclic workflow the model runs out of fuel, where Python would exceed its recursion limit.)

Since the model reproduces `e.fix()` of a producer when a stand-in source is made for it (no passthrough), an entry
may later be *replaced* by its fixed tree. `MemoExt s s' l` (`Tfv/Proofs/WorkflowMemo.lean`) therefore says: the keys
of `s'` are the keys of `s` followed by the (pairwise distinct, previously absent) keys of `l`; `l` lists the new
entries as they are in `s'`, each of the form `.shared r _` with its own key `r`; and every entry that `s` had is
still there under its key, possibly replaced by an expression of the same shape (`TExpr.sig`: the same source id or
tag, the same tagged sub-expressions — only types differ). -/
theorem C12_expr_once (P : PLang) (ops : List OperatorDecl) (w : Wf) (pt : Bool) (n : Nat) (s : WState) (r : Nat)
    (s' : WState) (e : TExpr) (h : wfExpr P ops w pt n s r = .ok (s', e)) :
    (∃ l, MemoExt s s' l) ∧ s'.expr? r = some e :=
  wfExpr_main P ops w pt n s r s' e h

/-- … and with passthrough no entry is ever replaced: the memo table only grows. -/
theorem C12_expr_once_passthrough (P : PLang) (ops : List OperatorDecl) (w : Wf) (n : Nat) (s : WState) (r : Nat)
    (s' : WState) (e : TExpr) (h : wfExpr P ops w true n s r = .ok (s', e)) :
    (∃ l, s'.exprs = s.exprs ++ l) ∧ s'.expr? r = some e :=
  wfExpr_exact_true P ops w n s r s' e h

-- non-vacuity, and a replacement that is visible: without passthrough, the entry of resource 1 in the diamond
-- workflow (defined in section 2 below) right after its creation and after the target has been computed differ (the
-- type of its source has been fixed from a variable to `A`), but have the same shape
#guard
  let wf2' : Wf := { sources := [0], apps := [
    { out := 1, toks := ["f", "1"], inputs := [0] },
    { out := 2, toks := ["g", "1"], inputs := [1] },
    { out := 3, toks := ["h", "1", "2"], inputs := [1, 2] }] }
  let ops2 := wops ++ [⟨"h", ⟨0, 0, .app FUN [.app 6 [], .app FUN [.app 7 [], .app 7 []]], []⟩⟩]
  let start : WState := match sourceTypes wP ops2 wf2' {} wf2'.apps [] with
    | .ok (xs0, st) => { xs := (wfSrcTable wf2' xs0 st).1, exprs := (wfSrcTable wf2' xs0 st).2 }
    | .error _ => {}
  let e1 := (wfExpr wP ops2 wf2' false 5 start 1).toOption.bind (fun p => p.1.expr? 1)
  let e3 := (wfExpr wP ops2 wf2' false 5 start 3).toOption.bind (fun p => p.1.expr? 1)
  e1.isSome && e3.isSome && toString (repr e1) != toString (repr e3) && e1.map (·.sig) == e3.map (·.sig)

/-- **The graph of a workflow depends on the listing order only through `source_types`**: two listings of the
same applications for which `source_types` returns the same store and the same recorded types give the same
graph, output node and node map. (`sourceTypes` threads the inference store through the applications in listing
order, so the hypothesis cannot be dropped as a statement about terms: see `C12_sourceTypes_order_visible`.) -/
theorem C12_order_partial (P : PLang) (G : GLang) (ops : List OperatorDecl) (c : GCfg) (pt : Bool) (w₁ w₂ : Wf)
    (hp : w₁.apps.Perm w₂.apps) (hn : (w₁.apps.map (·.out)).Nodup)
    (hs : w₁.sources = w₂.sources) (hnm : w₁.names = w₂.names)
    (hst : sourceTypes P ops w₁ {} w₁.apps [] = sourceTypes P ops w₂ {} w₂.apps []) :
    addWorkflow P G ops c pt w₁ = addWorkflow P G ops c pt w₂ :=
  addWorkflow_perm P G ops c pt w₁ w₂ hp hn hs hnm hst

-- the hypothesis on `sourceTypes` holds for the two listings of the example (checked by evaluation: the parser
-- does not reduce in the kernel)
#guard toString (repr (sourceTypes wP wops wf1 {} wf1.apps [])) == toString (repr (sourceTypes wP wops wf1r {} wf1r.apps []))
#guard (sourceTypes wP wops wf1 {} wf1.apps []).toOption.isSome

/-! ## 1b. `source_types` does see the listing order

`sourceTypes` threads the inference store through the applications in listing order: already the numbers of the
type variables it allocates depend on the order, and so do the recorded types when they contain variables. When the
uses of a source are incomparable, even the recorded *closed* type depends on the order (the first use wins). The
parser does not reduce in the kernel, so the two evaluations are checked by `#guard`; the theorems say what follows
from them. -/

/-- tool `a` annotates its input with `F(_)`; tool `b` consumes `a`'s output -/
def appA : WfApp := { out := 1, toks := ["f", "(", "1", ":", "F", "(", "_", ")", ")"], inputs := [0] }
def appB : WfApp := { out := 2, toks := ["g", "1"], inputs := [1] }
def wfAB : Wf := { sources := [0], apps := [appA, appB] }
def wfBA : Wf := { sources := [0], apps := [appB, appA] }

/-- **The listing order is visible in `sourceTypes`.** For the two listings `[a, b]` and `[b, a]` of the same two
applications the recorded type of source 0 is `F(var 1)` resp. `F(var 3)`: different terms, so the hypothesis of
`C12_order_partial` fails for them although the workflows are the same up to the listing order. -/
theorem C12_sourceTypes_order_visible
    (h₁ : recordedIs (sourceTypes wP wops wfAB {} wfAB.apps []) 0 (.app 8 [.var 1]) = true)
    (h₂ : recordedIs (sourceTypes wP wops wfBA {} wfBA.apps []) 0 (.app 8 [.var 3]) = true) :
    wfAB.apps.Perm wfBA.apps ∧ (wfAB.apps.map (·.out)).Nodup ∧ wfAB.sources = wfBA.sources ∧
      sourceTypes wP wops wfAB {} wfAB.apps [] ≠ sourceTypes wP wops wfBA {} wfBA.apps [] :=
  ⟨List.Perm.swap _ _ _, by decide, rfl, recordedIs_ne h₁ h₂ (by intro h; cases h)⟩

#guard recordedIs (sourceTypes wP wops wfAB {} wfAB.apps []) 0 (.app 8 [.var 1])
#guard recordedIs (sourceTypes wP wops wfBA {} wfBA.apps []) 0 (.app 8 [.var 3])

/-- two tools annotate the same source with the incomparable types `A` and `F(A)` -/
def appC : WfApp := { out := 1, toks := ["f", "(", "1", ":", "A", ")"], inputs := [0] }
def appD : WfApp := { out := 2, toks := ["h", "(", "1", ":", "F", "(", "A", ")", ")", "2"], inputs := [0, 1] }
def wfCD : Wf := { sources := [0], apps := [appC, appD] }
def wfDC : Wf := { sources := [0], apps := [appD, appC] }

/-- **A semantic difference.** With incomparable uses the recorded closed type of a source is the one of the use
listed first: `A` for `[c, d]`, `F(A)` for `[d, c]`. (Such a workflow is ill-typed, and `addWorkflow` fails on both
listings afterwards; with pairwise comparable uses the recorded type is the most specific one in either order, see
`C12_record_order`.) -/
theorem C12_sourceTypes_order_semantic
    (h₁ : recordedIs (sourceTypes wP wops2 wfCD {} wfCD.apps []) 0 (.app 5 []) = true)
    (h₂ : recordedIs (sourceTypes wP wops2 wfDC {} wfDC.apps []) 0 (.app 8 [.app 5 []]) = true) :
    wfCD.apps.Perm wfDC.apps ∧
      sourceTypes wP wops2 wfCD {} wfCD.apps [] ≠ sourceTypes wP wops2 wfDC {} wfDC.apps [] :=
  ⟨List.Perm.swap _ _ _, recordedIs_ne h₁ h₂ (by intro h; cases h)⟩

#guard recordedIs (sourceTypes wP wops2 wfCD {} wfCD.apps []) 0 (.app 5 [])
#guard recordedIs (sourceTypes wP wops2 wfDC {} wfDC.apps []) 0 (.app 8 [.app 5 []])
#guard (addWorkflow wP exG wops2 {} true wfCD).toOption.isNone && (addWorkflow wP exG wops2 {} true wfDC).toOption.isNone

/-- **`source_types` is a fold of one recording step over the applications in listing order**: the application's
text is parsed without unification over fresh sources, fixed, and every input's type — followed in the resulting
store `σ3` — is recorded by `recordUse` (`Tfv/Proofs/WorkflowRecord.lean`, the body of the model's fold). -/
theorem C12_sourceTypes_fold (P : PLang) (ops : List OperatorDecl) (w : Wf) (s : XState) (a : WfApp)
    (rest : List WfApp) (acc : List (Nat × Term)) :
    sourceTypes P ops w s (a :: rest) acc =
      match parseExprToks P (untypedBuilder P.types ops) (mkInputs a.inputs.length s).2 (mkInputs a.inputs.length s).1 a.toks with
      | .error e => .error (.composition e)
      | .ok (s2, e) =>
        match fixExpr P.types s2.store e with
        | .error err => .error (.typing err)
        | .ok (σ3, _) =>
          sourceTypes P ops w { s2 with store := σ3 } rest
            ((a.inputs.zip (mkInputs a.inputs.length s).2).foldl (recordUse w P.types σ3) acc) :=
  sourceTypes_cons P ops w s a rest acc

/-- … and the recording steps of one application are `recordAbs` steps, with the comparison evaluated in `σ3`, over
the uses that say something (a source of the workflow, a type that is not a variable). -/
theorem C12_record_steps (w : Wf) (L : Lang) (σ3 : Store) (zs : List (Nat × TExpr)) (acc : List (Nat × Term)) :
    zs.foldl (recordUse w L σ3) acc = (sayingUses w σ3 zs).foldl (recordAbs (recordCmp L σ3)) acc :=
  recordUse_foldl w L σ3 zs acc

/-- **The recording discipline is order independent on comparable uses** (the part of "each source gets the most
general type acceptable to all of its uses" that does not involve the store): if the comparison `lt` is a strict
total order on the types used (a chain of subtypes), then after recording the uses in any order each source has
the same recorded type — the least one. What this does *not* cover is that the model evaluates the comparison, and
follows the types, in a store that depends on the listing order (`C12_sourceTypes_order_visible`). -/
theorem C12_record_order (lt : Term → Term → Bool) (S : Term → Prop) (ho : StrictTotalOn lt S)
    (l₁ l₂ : List (Nat × Term)) (hp : l₁.Perm l₂) (hS : ∀ u ∈ l₁, S u.2) (r : Nat) :
    (((l₁.foldl (recordAbs lt) []).find? (fun p => p.1 == r)).map (·.2)) =
      (((l₂.foldl (recordAbs lt) []).find? (fun p => p.1 == r)).map (·.2)) :=
  recordAbs_perm lt S ho l₁ l₂ hp hS r

/-- a comparison that orders `B` below `A` (as `recordCmp exL σ` does, checked by `#guard` below) -/
def ltEx (a b : Term) : Bool := Term.beq a tmB && Term.beq b tmA

theorem ltEx_order : StrictTotalOn ltEx (fun t => t = tmA ∨ t = tmB) where
  irrefl := by rintro t (rfl | rfl) <;> decide +kernel
  total := by
    rintro s t (rfl | rfl) (rfl | rfl) hne
    · exact absurd rfl hne
    · right; decide +kernel
    · left; decide +kernel
    · exact absurd rfl hne
  asymm := by
    rintro s t (rfl | rfl) (rfl | rfl) h <;> first | decide +kernel | (exfalso; revert h; decide +kernel)
  trans := by
    rintro s t u (rfl | rfl) (rfl | rfl) (rfl | rfl) h1 h2 <;>
      first | decide +kernel | (exfalso; revert h1; decide +kernel) | (exfalso; revert h2; decide +kernel)

example : (([(0, tmA), (0, tmB)].foldl (recordAbs ltEx) []).find? (fun p => p.1 == 0)).map (·.2)
    = (([(0, tmB), (0, tmA)].foldl (recordAbs ltEx) []).find? (fun p => p.1 == 0)).map (·.2) :=
  C12_record_order ltEx _ ltEx_order _ _ (List.Perm.swap _ _ _) (by
    intro u hu
    simp only [List.mem_cons, List.not_mem_nil, or_false] at hu
    rcases hu with rfl | rfl
    · exact .inl rfl
    · exact .inr rfl) 0

-- the model's comparison on the chain `C < B < A` of the example language, and on incomparable types
#guard recordCmp exL {} tmB tmA && !recordCmp exL {} tmA tmB && !recordCmp exL {} tmA tmA && recordCmp exL {} tmC tmB
  && recordCmp exL {} tmC tmA && !recordCmp exL {} tmB tmC
#guard !recordCmp exL {} (tmF tmA) tmA && !recordCmp exL {} tmA (tmF tmA)

/-! ## 2. The node map

`addWorkflow` returns the graph `g`, the output node `out` and the map `m` from workflow resources to concept
nodes. The hypothesis `w.sources.Nodup` says that the sources are listed once each (in Python they form a set). -/


theorem wf2_sources : wf2.sources.Nodup := by decide

/-- **Every workflow resource maps to at most one concept node**, and that node is the one registered in the graph
for the resource's expression object: for a tool output the node registered under the resource itself (whatever
the number of tools consuming it), for a source the node of a source expression. -/
theorem C12_nodemap_functional (P : PLang) (G : GLang) (ops : List OperatorDecl) (c : GCfg) (pt : Bool) (w : Wf)
    (g : GState) (out : Nat) (m : List (Nat × Nat)) (hn : w.sources.Nodup)
    (h : addWorkflow P G ops c pt w = .ok (g, out, m)) :
    (m.map (·.1)).Nodup ∧ ∀ r k, (r, k) ∈ m →
      (r ∉ w.sources ∧ (r, k) ∈ g.sharedNodes) ∨ (r ∈ w.sources ∧ ∃ id, (id, k) ∈ g.srcNodes) :=
  addWorkflow_nodemap_functional P G ops c pt w g out m hn h

/-- **The resources that have a node are exactly the sources and the resources the target depends on**
(`SReach w tgt r`: `r` is reached from the target by going from a tool output to one of the tool's inputs; a
source has no inputs). In particular every resource for which `add_workflow` computed an expression has a node. -/
theorem C12_nodemap_total (P : PLang) (G : GLang) (ops : List OperatorDecl) (c : GCfg) (pt : Bool) (w : Wf)
    (g : GState) (out : Nat) (m : List (Nat × Nat)) (hn : w.sources.Nodup)
    (h : addWorkflow P G ops c pt w = .ok (g, out, m)) :
    ∃ tgt, w.target = .ok tgt ∧ ∀ r, (∃ k, (r, k) ∈ m) ↔ (r ∈ w.sources ∨ SReach w tgt r) :=
  addWorkflow_nodemap_total P G ops c pt w g out m hn h

-- the hypotheses hold for the example, with and without passthrough: resource 1, consumed twice, has the one node 1
#guard ((addWorkflow wP exG wops2 {} true wf2).toOption.map (fun p => (p.2, p.1.sharedNodes)))
  == some ((5, [(0, 0), (1, 1), (2, 3), (3, 5)]), [(1, 1), (2, 3), (3, 5)])
#guard ((addWorkflow wP exG wops2 {} false wf2).toOption.map (fun p => (p.2, p.1.sharedNodes)))
  == some ((5, [(0, 0), (1, 1), (2, 3), (3, 5)]), [(1, 1), (2, 3), (3, 5)])
example : wf2.sources.Nodup ∧ SReach wf2 3 1 :=
  ⟨wf2_sources, .step ⟨by decide, _, rfl, by decide⟩ (.refl 1)⟩

/-- **A resource consumed more than once gets one node**: adding a tagged expression whose tag already has a node
returns that node and leaves the graph unchanged. -/
theorem C12_shared_once (G : GLang) (c : GCfg) (root : Node) (origin : Option Node) (g : GState) (k : Nat)
    (e : TExpr) (cur : Option Nat) (inter : Bool) (n : Nat)
    (h : (g.sharedNodes.find? (fun p => p.1 == k)).map (·.2) = some n) :
    addExpr G c root origin g (.shared k e) cur inter = .ok (g, n) :=
  addExpr_shared_hit G c root origin g k e cur inter n h

/-- … and the first visit registers the node under the tag (provided the expression does not contain its own tag,
which holds for every expression `add_workflow` builds) -/
theorem C12_shared_first (G : GLang) (c : GCfg) (root : Node) (origin : Option Node) (g : GState) (k : Nat)
    (e : TExpr) (cur : Option Nat) (inter : Bool) (g' : GState) (n : Nat) (hk : k ∉ e.sharedKeys)
    (h : addExpr G c root origin g (.shared k e) cur inter = .ok (g', n)) :
    (g'.sharedNodes.find? (fun p => p.1 == k)).map (·.2) = some n :=
  addExpr_shared_registers G c root origin g k e cur inter g' n hk h

example : addExpr exG {} root none { sharedNodes := [(1, 7)] } (.shared 1 ex1) none false
    = .ok ({ sharedNodes := [(1, 7)] }, 7) :=
  C12_shared_once exG {} root none _ 1 ex1 none false 7 rfl

/-! ## 3. Marks -/

/-- **The output is marked**: the graph contains `workflow tf:output out`, and `out` is the node of the target
resource. -/
theorem C12_output_marked (P : PLang) (G : GLang) (ops : List OperatorDecl) (c : GCfg) (pt : Bool) (w : Wf)
    (g : GState) (out : Nat) (m : List (Nat × Nat)) (hn : w.sources.Nodup)
    (h : addWorkflow P G ops c pt w = .ok (g, out, m)) :
    (Node.res "workflow", Node.tf "output", Node.b out) ∈ g.triples ∧ ∃ tgt, w.target = .ok tgt ∧ (tgt, out) ∈ m :=
  addWorkflow_output_marked P G ops c pt w g out m hn h

/-- **Every source of the workflow is marked as an input**: it has a node `k` and the graph contains
`workflow tf:input k`. -/
theorem C12_inputs_marked (P : PLang) (G : GLang) (ops : List OperatorDecl) (c : GCfg) (pt : Bool) (w : Wf)
    (g : GState) (out : Nat) (m : List (Nat × Nat)) (hn : w.sources.Nodup)
    (h : addWorkflow P G ops c pt w = .ok (g, out, m)) :
    ∀ r ∈ w.sources, ∃ k, (r, k) ∈ m ∧ (Node.res "workflow", Node.tf "input", Node.b k) ∈ g.triples :=
  addWorkflow_inputs_marked P G ops c pt w g out m hn h

/-- **The class**: with `with_classes`, the workflow is a `tf:Transformation`. -/
theorem C12_class (P : PLang) (G : GLang) (ops : List OperatorDecl) (c : GCfg) (pt : Bool) (w : Wf)
    (g : GState) (out : Nat) (m : List (Nat × Nat)) (hc : c.withClasses = true)
    (h : addWorkflow P G ops c pt w = .ok (g, out, m)) :
    (Node.res "workflow", Node.rdf "type", Node.tf "Transformation") ∈ g.triples :=
  addWorkflow_class P G ops c pt w g out m hc h

#guard ((addWorkflow wP exG wops2 {} true wf2).toOption.map (fun p => p.1.triples.filter (fun t =>
    t.1 == Node.res "workflow" && (t.2.1 == .tf "input" || t.2.1 == .tf "output" || t.2.1 == .rdf "type"))))
  == some [(.res "workflow", .tf "input", .b 0), (.res "workflow", .tf "output", .b 5),
    (.res "workflow", .rdf "type", .tf "Transformation")]

/-! ## 4. Inlining -/

/-- the state `add_workflow` starts `wfExpr` from: the store left by `source_types`, one source per workflow source -/
def startState (ops : List OperatorDecl) (w : Wf) : WState :=
  match sourceTypes wP ops w {} w.apps [] with
  | .ok (xs0, st) => { xs := (wfSrcTable w xs0 st).1, exprs := (wfSrcTable w xs0 st).2 }
  | .error _ => {}

/-- **Inlining.** With passthrough, the expression computed for a tool output `r` (not yet in the memo table)
is `.shared r e0` where `e0` is the tool's text parsed with, as numbered inputs, exactly the expressions that the
memo table holds for the tool's input resources — so every numbered input of the text denotes the whole expression
of the tool that produced it. If the table held only sources and tagged tool expressions before, each of these inputs
is a source or the producing tool's expression tagged with the input resource.

This describes the entry at the time it is *created*: `add_workflow` afterwards fixes the target expression, and the
table the graph is built from holds the fixed trees (`C12_final_exprs`: same keys, same tags, other types). -/
theorem C12_inline_structure (P : PLang) (ops : List OperatorDecl) (w : Wf) (n : Nat) (s : WState) (r : Nat)
    (s' : WState) (e' : TExpr) (habs : s.expr? r = none) (h : wfExpr P ops w true (n+1) s r = .ok (s', e')) :
    ∃ (a : WfApp) (inputs : List TExpr) (s1 : WState) (xs3 : XState) (e0 : TExpr),
      w.app? r = some a ∧ e' = TExpr.shared r e0 ∧
      parseExprToks P (typedBuilder P.types ops true) inputs s1.xs a.toks = .ok (xs3, e0) ∧
      inputs.length = a.inputs.length ∧ (∀ p ∈ a.inputs.zip inputs, s'.expr? p.1 = some p.2) ∧
      s'.expr? r = some e' ∧
      ((∀ p ∈ s.exprs, p.2.IsSrc ∨ IsSharedOwn p) →
        ∀ p ∈ a.inputs.zip inputs, p.2.IsSrc ∨ ∃ ei, p.2 = TExpr.shared p.1 ei) :=
  wfExpr_inline P ops w n s r s' e' habs h

-- non-vacuity: the target of the diamond workflow is not in the start table, and its expression is computed;
-- it contains the expression of resource 1 twice (once directly, once inside the expression of resource 2)
#guard (startState wops2 wf2).expr? 3 |>.isNone
#guard ((wfExpr wP wops2 wf2 true 5 (startState wops2 wf2) 3).toOption.map (fun p => p.2.sharedKeys)) == some [3, 1, 2, 1]

/-- **The tag is transparent**: for a graph in which tag `k` has no node yet, adding `.shared k e` gives the same
graph (triples, edges, counters) and the same node as adding `e`, plus the registration of that node under `k`;
and it fails exactly when adding `e` fails. Hence the graph of a workflow's target expression is the graph of the
inlined expression, with one node per shared sub-expression. -/
theorem C12_addExpr_shared_transparent (G : GLang) (c : GCfg) (root : Node) (origin : Option Node) (g : GState)
    (k : Nat) (e : TExpr) (cur : Option Nat) (inter : Bool)
    (h : (g.sharedNodes.find? (fun p => p.1 == k)).map (·.2) = none) :
    (∀ g1 n, addExpr G c root origin g e cur inter = .ok (g1, n) →
      addExpr G c root origin g (.shared k e) cur inter
        = .ok ({ g1 with sharedNodes := g1.sharedNodes ++ [(k, n)] }, n)) ∧
    (∀ err, addExpr G c root origin g e cur inter = .error err →
      addExpr G c root origin g (.shared k e) cur inter = .error err) :=
  addExpr_shared_transparent G c root origin g k e cur inter h

/-- the configuration without type annotations (so that the kernel can evaluate `addExpr`: `normT` is defined by
well-founded recursion) -/
def cfgNoTypes : GCfg := { withTypes := false }

example : ∃ g1, addExpr exG cfgNoTypes root none (initGraph exG cfgNoTypes) ex1 none false = .ok (g1, 0) ∧
    addExpr exG cfgNoTypes root none (initGraph exG cfgNoTypes) (.shared 9 ex1) none false
      = .ok ({ g1 with sharedNodes := g1.sharedNodes ++ [(9, 0)] }, 0) := by
  have h0 : ∃ g1, addExpr exG cfgNoTypes root none (initGraph exG cfgNoTypes) ex1 none false = .ok (g1, 0) := by
    have : (addExpr exG cfgNoTypes root none (initGraph exG cfgNoTypes) ex1 none false).toOption.map (·.2) = some 0 := by
      decide +kernel
    cases hx : addExpr exG cfgNoTypes root none (initGraph exG cfgNoTypes) ex1 none false with
    | error e => rw [hx] at this; cases this
    | ok p =>
      rw [hx] at this
      simp only [Except.toOption, Option.map_some, Option.some.injEq] at this
      exact ⟨p.1, by rw [← this]⟩
  obtain ⟨g1, h1⟩ := h0
  exact ⟨g1, h1, (C12_addExpr_shared_transparent exG cfgNoTypes root none (initGraph exG cfgNoTypes) 9 ex1 none false
    (by rw [initGraph_sharedNodes]; rfl)).1 g1 0 h1⟩

/-! ## 5. Without passthrough -/

/-- **The stages of `add_workflow`** (`WfRun`, defined in `Tfv/Proofs/WorkflowRun.lean`): a successful call
determines the store and types of `source_types`, the target, the final memo state `ws` of `wfExpr` (with its
`indirection` list) and the target expression `te`, the store `σf` and the fixed tree `te'` of the final
`fixExpr … te = .ok (σf, te')`, the graph `g1` after the target's nodes have been made and the graph `g3` after the
inputs have been marked. The graph is built with the language `wfGLang G σf = { G with store := σf }` from the table
`wfFinalExprs ws te'`: the entry of a resource is the last `.shared r _` visited in `te'` if there is one, else the
entry `wfExpr` left (`ws.exprs`), and every source occurrence in it gets the type its object carries after the last
`fix()` that visited it (`setSrcTypes (srcTypesOf te' ws.srcTypes)`). -/
theorem C12_run (P : PLang) (G : GLang) (ops : List OperatorDecl) (c : GCfg) (pt : Bool) (w : Wf)
    (g : GState) (out : Nat) (m : List (Nat × Nat)) (h : addWorkflow P G ops c pt w = .ok (g, out, m)) :
    ∃ xs0 stypes tgt ws te σf te' g1 g3, WfRun P G ops c pt w g out m xs0 stypes tgt ws te σf te' g1 g3 :=
  addWorkflow_run P G ops c pt w g out m h

/-- **The final `fix()` changes types only**: the table the graph is built from has the keys of the memo table
`wfExpr` left, and under every key an expression with the same identity (`TExpr.head`: the source id, or the tag)
containing the same tags (`KSim`, `Tfv/Proofs/WorkflowKeys.lean`). -/
theorem C12_final_exprs {P : PLang} {G : GLang} {ops : List OperatorDecl} {c : GCfg} {pt : Bool} {w : Wf}
    {g : GState} {out : Nat} {m : List (Nat × Nat)} {xs0 : XState} {stypes : List (Nat × Term)} {tgt : Nat}
    {ws : WState} {te : TExpr} {σf : Store} {te' : TExpr} {g1 g3 : GState}
    (run : WfRun P G ops c pt w g out m xs0 stypes tgt ws te σf te' g1 g3) (hn : w.sources.Nodup) :
    (wfFinalExprs ws te').map (·.1) = ws.exprs.map (·.1) ∧
      ∀ k v, ws.expr? k = some v →
        ∃ v', alook (wfFinalExprs ws te') k = some v' ∧ v'.head = v.head ∧ v'.sharedKeys = v.sharedKeys :=
  run.final_ksim hn

-- non-vacuity (the run of the diamond workflow, with passthrough): the final table differs from the memo table, but
-- not in keys, identities and tags
#guard (match wfExpr wP wops2 wf2 true 5 (startState wops2 wf2) 3 with
  | .ok (ws, te) =>
    (match fixExpr wP.types ws.xs.store te with
    | .ok (_, te') =>
      toString (repr (wfFinalExprs ws te')) != toString (repr ws.exprs) &&
        (wfFinalExprs ws te').map (fun p => (p.1, p.2.head, p.2.sharedKeys)) ==
          ws.exprs.map (fun p => (p.1, p.2.head, p.2.sharedKeys))
    | .error _ => false)
  | .error _ => false)

/-- **Stand-in sources are linked.** Without passthrough every tool input that is a tool output `r` is replaced by
a fresh source `sid`, recorded as `(sid, r)`. For every such pair, `r` is not a source, has a node `t` (the one in
the node map), and if the stand-in source has a node `s` — it has one when the tool's text mentions that input —
the final graph has the edge `s —from→ t`. -/
theorem C12_no_passthrough_link {P : PLang} {G : GLang} {ops : List OperatorDecl} {c : GCfg} {pt : Bool} {w : Wf}
    {g : GState} {out : Nat} {m : List (Nat × Nat)} {xs0 : XState} {stypes : List (Nat × Term)} {tgt : Nat}
    {ws : WState} {te : TExpr} {σf : Store} {te' : TExpr} {g1 g3 : GState}
    (run : WfRun P G ops c pt w g out m xs0 stypes tgt ws te σf te' g1 g3) (hn : w.sources.Nodup)
    (sid r : Nat) (h : (sid, r) ∈ ws.indirection) :
    r ∉ w.sources ∧ ∃ t, (r, t) ∈ m ∧ (r, t) ∈ g1.sharedNodes ∧
      ∀ s, (g1.srcNodes.find? (fun p => p.1 == sid)).map (·.2) = some s → (s, t) ∈ g.fd.frm :=
  run.link hn sid r h

/-- **Without passthrough a tool's expression is flat**: if the sources of the workflow have source expressions in
the memo table, the expression computed for a tool output is `.shared r e0` where `e0` contains no other tool's
expression (its inputs are sources: workflow sources or stand-ins). The connection to the producing tools is made by
the `from` edges of `C12_no_passthrough_link` instead. -/
theorem C12_no_passthrough_flat (P : PLang) (ops : List OperatorDecl) (w : Wf) (n : Nat) (s : WState) (r : Nat)
    (s' : WState) (e' : TExpr) (hsrc : ∀ i ∈ w.sources, ∃ e, s.expr? i = some e ∧ e.IsSrc)
    (habs : s.expr? r = none) (h : wfExpr P ops w false (n+1) s r = .ok (s', e')) :
    ∃ e0, e' = TExpr.shared r e0 ∧ e0.sharedKeys = [] :=
  wfExpr_flat P ops w n s r s' e' hsrc habs h

#guard ((wfExpr wP wops2 wf2 false 5 (startState wops2 wf2) 3).toOption.map (fun p => p.2.sharedKeys)) == some [3]
#guard wf2.sources.all (fun i => match (startState wops2 wf2).expr? i with | some (.src _ _ _) => true | _ => false)

-- non-vacuity: three stand-in sources in the diamond workflow; their nodes 4, 6, 7 are linked to the nodes 1, 1, 3
-- of the resources 1, 1, 2 they stand for
#guard ((wfExpr wP wops2 wf2 false 5 (startState wops2 wf2) 3).toOption.map (fun p => p.1.indirection))
  == some [(5, 1), (6, 1), (7, 2)]
#guard ((addWorkflow wP exG wops2 {} false wf2).toOption.map (fun p =>
    (p.1.srcNodes, p.1.sharedNodes, [(4, 1), (6, 1), (7, 3)].all (fun e => p.1.fd.frm.contains e))))
  == some ([(4, 0), (5, 4), (6, 6), (7, 7)], [(1, 1), (2, 3), (3, 5)], true)

end Tfv.C12
