import Tfv.Proofs.VocabMain
/-!
# When `add_taxonomy` succeeds

Sufficient: `with_canonical_types`, the order lists canonical types only, every type `add_type` reaches has a URI or
`with_noncanonical_types` is on, and the fuel of `addType` suffices (`Term.need`). Necessary: the second and third.
-/
namespace Tfv.Voc
open Tfv Tfv.Tax

mutual
/-- fuel `addType` needs for a type (it spends one unit per nesting level and one per parameter position) -/
def termNeed : Term → Nat
  | .var _ => 1
  | .app _ args => 1 + termNeedL args
def termNeedL : List Term → Nat
  | [] => 1
  | p :: ps => 1 + max (termNeed p) (termNeedL ps)
end

theorem termNeed_pos : ∀ x : Term, 1 ≤ termNeed x
  | .var _ => by simp [termNeed]
  | .app _ _ => by simp [termNeed]

theorem termNeedL_pos : ∀ ps : List Term, 1 ≤ termNeedL ps
  | [] => by simp [termNeedL]
  | _ :: _ => by simp [termNeedL]

/-- `Language.uri` raises nothing but `NonCanonicalTypeError` -/
theorem typeUri_error {G : GLang} {x : Term} {e : GErr} (h : typeUri G x = .error e) : typeUri G x = .error .nonCanonical := by
  unfold typeUri at h ⊢
  simp only [] at h ⊢
  cases hg : x.generalize with
  | app o args =>
    rw [hg] at h
    simp only [] at h ⊢
    split at h
    · cases h
    · split at h
      · cases h
      · rename_i h1 h2
        rw [if_neg h1, if_neg h2]

/-- a failing fold fails at one of its elements, in a state that satisfies the invariant -/
theorem foldlM_error {α : Type} (f : GState → α → Except GErr GState) (Inv : GState → Prop)
    (hstep : ∀ g s g1, Inv g → f g s = .ok g1 → Inv g1) (l : List α) :
    ∀ g e, Inv g → l.foldlM f g = .error e → ∃ s ∈ l, ∃ g', Inv g' ∧ f g' s = .error e := by
  induction l with
  | nil => intro g e _ h; simp only [List.foldlM_nil, pure, Except.pure] at h; cases h
  | cons a l ih =>
    intro g e hi h
    simp only [List.foldlM_cons] at h
    cases hx : f g a with
    | error e' =>
      rw [hx] at h
      cases h
      exact ⟨a, List.mem_cons_self, g, hi, hx⟩
    | ok g1 =>
      rw [hx] at h
      obtain ⟨s, hs, g', hg', he⟩ := ih g1 e (hstep g a g1 hi hx) h
      exact ⟨s, List.mem_cons_of_mem _ hs, g', hg', he⟩

theorem typeUri_canon_ne_error {G : GLang} {t : Ty} {e : GErr} (ht : t ∈ G.canon) (h : typeUri G t.toTerm = .error e) : False := by
  obtain ⟨u, hu⟩ := typeUri_canonical G t ((memTy_iff _ _).2 ht)
  rw [hu] at h; cases h

/-- `add_supertypes(t, recursive=True)` does not fail on a canonical type -/
theorem addSupertypesRec_total (G : GLang) : ∀ (k : Nat) (g : GState) (t : Ty) (e : GErr),
    addSupertypesRec G k g t = .error e → t ∈ G.canon → False := by
  intro k
  induction k with
  | zero => intro g t e h _; simp only [addSupertypesRec] at h; cases h
  | succ k ih =>
    intro g t e h ht
    rw [addSupertypesRec] at h
    split at h
    · cases h
    · split at h
      · rename_i e' he'; exact typeUri_canon_ne_error ht he'
      · rename_i ref href
        simp only [] at h
        split at h
        · rename_i e' hfold
          obtain ⟨s, hs, g', _, hf⟩ := foldlM_error _ (fun _ => True) (fun _ _ _ _ _ => trivial) _ g e' trivial hfold
          have hsc : s ∈ G.canon := mem_of_memTy (langSucc_canon _ _ _ _ _ _ _ _ ((mem_dedupTy _ _).1 hs))
          split at hf
          · rename_i e'' he''; exact typeUri_canon_ne_error hsc he''
          · exact ih _ _ _ hf hsc
        · cases h

/-- every type `add_type` reaches from the canon has a URI, or blank nodes are allowed -/
def Describable (G : GLang) (c : GCfg) : Prop :=
  ∀ x, FromCanon G c x → (∃ n, typeUri G x = .ok n) ∨ c.withNoncanonicalTypes = true

theorem addType_total (G : GLang) (c : GCfg) (hdesc : Describable G c) : ∀ (k : Nat),
    (∀ (g : GState) (x : Term) (e : GErr), addType G c k g x = .error e → VInv G c g → FromCanon G c x →
      termNeed x ≤ k → False) ∧
    (∀ (g : GState) (node : Node) (i : Nat) (ps : List Term) (e : GErr), addTypeParams G c k g node i ps = .error e →
      VInv G c g → (∀ p ∈ ps, FromCanon G c p) → termNeedL ps ≤ k → False) := by
  intro k
  induction k with
  | zero =>
    constructor
    · intro g x e _ _ _ hk; have := termNeed_pos x; omega
    · intro g node i ps e _ _ _ hk; have := termNeedL_pos ps; omega
  | succ k ih =>
    obtain ⟨ihT, ihP⟩ := ih
    constructor
    · intro g x e h hi hfc hk
      rw [addType] at h
      split at h
      · cases h
      · simp only [] at h
        split at h
        · rename_i e' hr
          split at hr
          · cases hr
          · rename_i hnd
            split at hr
            · cases hr
            · rename_i hnc
              rcases hdesc x hfc with ⟨n, hn⟩ | hw
              · rw [hn] at hnd; cases hnd
              · exact hnc hw
          · rename_i e'' hne hnd
            have := typeUri_error hnd
            rw [hnd] at this
            simp only [Except.error.injEq] at this
            exact hne this
        · rename_i r ga na hr
          have h1 : ga.typeNodes = g.typeNodes ∧ ga.triples = g.triples ∧ ga.supertyped = g.supertyped := by
            split at hr
            · simp only [Except.ok.injEq, Prod.mk.injEq] at hr
              obtain ⟨rfl, _⟩ := hr
              exact ⟨rfl, rfl, rfl⟩
            · split at hr
              · simp only [Except.ok.injEq, Prod.mk.injEq] at hr
                obtain ⟨rfl, _⟩ := hr
                exact ⟨rfl, rfl, rfl⟩
              · cases hr
            · cases hr
          have hia : VInv G c ga := hi.congr h1.1 h1.2.1 h1.2.2
          have hi2 : VInv G c (if c.withClasses = true then ga.add (na, Node.rdf "type", Node.tf "Type") else ga) := by
            split
            · exact hia.add _
            · exact hia
          generalize (if c.withClasses = true then ga.add (na, Node.rdf "type", Node.tf "Type") else ga) = g2 at h hi2
          split at h
          · rename_i e' hr2
            split at hr2
            · rename_i o args
              split at hr2
              · rename_i hcond
                simp only [Bool.and_eq_true, decide_eq_true_eq] at hcond
                refine ihP _ _ _ _ _ hr2 (hi2.add _) (fun p hp => hfc.param hcond.1 hcond.2 hp) ?_
                simp only [termNeed] at hk
                omega
              · cases hr2
            · cases hr2
          · rename_i r2 gb hr2
            split at h
            · rename_i e' hr3
              split at hr3
              · rename_i hcond
                simp only [Bool.and_eq_true] at hcond
                have hcan : x.generalize ∈ G.canon := by
                  have := hcond.2
                  unfold inCanon at this
                  simp only [Bool.and_eq_true] at this
                  exact mem_of_memTy this.2
                exact addSupertypesRec_total G _ _ _ _ hr3 hcan
              · cases hr3
            · cases h
    · intro g node i ps e h hi hfc hk
      cases ps with
      | nil => rw [addTypeParams] at h; cases h
      | cons p ps =>
        rw [addTypeParams] at h
        simp only [termNeedL] at hk
        split at h
        · rename_i e' hp
          exact ihT _ _ _ hp hi (hfc p List.mem_cons_self) (by omega)
        · rename_i g1 pn hp
          obtain ⟨i1, _, _, _⟩ := (addType_voc G c k).1 _ _ _ _ hp hi (hfc p List.mem_cons_self)
          exact ihP _ _ _ _ _ h (i1.add _) (fun q hq => hfc q (List.mem_cons_of_mem _ hq)) (by omega)

theorem addSubtypes_total (G : GLang) (g : GState) (t : Ty) (e : GErr) (h : addSubtypes G g t = .error e)
    (ht : t ∈ G.canon) : False := by
  unfold addSubtypes at h
  split at h
  · rename_i e' he'; exact typeUri_canon_ne_error ht he'
  · split at h
    · rename_i hm
      simp only [(memTy_iff _ _).2 ht, Bool.not_true, Bool.false_eq_true] at hm
    · obtain ⟨s, hs, g', _, hf⟩ := foldlM_error _ (fun _ => True) (fun _ _ _ _ _ => trivial) _ g e trivial h
      split at hf
      · rename_i e'' he''
        exact typeUri_canon_ne_error (mem_of_memTy (langSucc_canon _ _ _ _ _ _ _ _ hs)) he''
      · cases hf

theorem addSupertypes_total (G : GLang) (g : GState) (t : Ty) (e : GErr) (h : addSupertypes G g t = .error e)
    (ht : t ∈ G.canon) : False := by
  unfold addSupertypes at h
  split at h
  · cases h
  · split at h
    · rename_i e' he'; exact typeUri_canon_ne_error ht he'
    · split at h
      · rename_i hm
        simp only [(memTy_iff _ _).2 ht, Bool.not_true, Bool.false_eq_true] at hm
      · obtain ⟨s, hs, g', _, hf⟩ := foldlM_error _ (fun _ => True) (fun _ _ _ _ _ => trivial) _ g e trivial h
        split at hf
        · rename_i e'' he''
          exact typeUri_canon_ne_error (mem_of_memTy (langSucc_canon _ _ _ _ _ _ _ _ hs)) he''
        · cases hf

theorem taxonomyStep_total (G : GLang) (c : GCfg) (hdesc : Describable G c) (g : GState) (t : Ty) (e : GErr)
    (h : taxonomyStep G c g t = .error e) (hi : VInv G c g) (ht : t ∈ G.canon) (hk : termNeed t.toTerm ≤ typeFuel) : False := by
  unfold taxonomyStep at h
  split at h
  · rename_i e' hadd
    exact (addType_total G c hdesc typeFuel).1 _ _ _ hadd hi ⟨t, ht, .refl _⟩ hk
  · split at h
    · rename_i e' hsub; exact addSubtypes_total G _ t _ hsub ht
    · exact addSupertypes_total G _ t _ h ht

theorem closureStep_total (G : GLang) (g : GState) (t : Ty) (e : GErr) (h : closureStep G g t = .error e)
    (ht : t ∈ G.canon) : False := by
  unfold closureStep at h
  split at h
  · rename_i e' he'; exact typeUri_canon_ne_error ht he'
  · cases h

/-- **`add_taxonomy` succeeds** under the four conditions -/
theorem addTaxonomyOn_total (G : GLang) (c : GCfg) (closure : Bool) (order : List Ty) (hc : c.withCanonicalTypes = true)
    (hord : ∀ t ∈ order, t ∈ G.canon) (hdesc : Describable G c) (hfuel : ∀ t ∈ G.canon, termNeed t.toTerm ≤ typeFuel) :
    ∃ g, addTaxonomyOn G c closure order {} = .ok g := by
  cases hres : addTaxonomyOn G c closure order {} with
  | ok g => exact ⟨g, rfl⟩
  | error e =>
    exfalso
    unfold addTaxonomyOn at hres
    rw [hc] at hres
    simp only [Bool.not_true, Bool.false_eq_true, if_false] at hres
    split at hres
    · rename_i e' hloop
      obtain ⟨t, ht, g', ⟨hi', _⟩, hf⟩ := foldlM_error (taxonomyStep G c) (fun g => VInv G c g ∧ VSound G c g)
        (fun ga s gb hia hs => (taxonomyStep_voc G c ga s gb hs hia.1 hia.2).1) order {} e'
        ⟨vinv_empty G c, vsound_empty G c⟩ hloop
      exact taxonomyStep_total G c hdesc g' t e' hf hi' (hord t ht) (hfuel t (hord t ht))
    · split at hres
      · obtain ⟨t, ht, g', _, hf⟩ := foldlM_error (closureStep G) (fun _ => True) (fun _ _ _ _ _ => trivial) order _ e trivial hres
        exact closureStep_total G g' t e hf (hord t ht)
      · cases hres

/-- the third condition is necessary: a reached type without a URI makes the run fail when blank nodes are not allowed -/
theorem addTaxonomyOn_fails (G : GLang) (c : GCfg) (closure : Bool) (order : List Ty) (hcov : ∀ t ∈ G.canon, t ∈ order)
    {x : Term} (hx : FromCanon G c x) (hu : ∀ n, typeUri G x ≠ .ok n) (hw : c.withNoncanonicalTypes = false) (g : GState) :
    addTaxonomyOn G c closure order {} ≠ .ok g := by
  intro h
  have r := addTaxonomyOn_result G c closure order g hcov h
  obtain ⟨n, hn⟩ := (r.registered x).2 hx
  rcases r.node x n hn with h0 | ⟨_, h1, _⟩
  · exact hu n h0
  · rw [hw] at h1; cases h1

/-- a successful run (over an order covering the canon) shows that every reached type can be described -/
theorem describable_of_success (G : GLang) (c : GCfg) (closure : Bool) (order : List Ty) (g : GState)
    (hcov : ∀ t ∈ G.canon, t ∈ order) (h : addTaxonomyOn G c closure order {} = .ok g) : Describable G c := by
  intro x hx
  have r := addTaxonomyOn_result G c closure order g hcov h
  obtain ⟨n, hn⟩ := (r.registered x).2 hx
  rcases r.node x n hn with h0 | ⟨_, h1, _⟩
  · exact .inl ⟨n, h0⟩
  · exact .inr h1

/-- whether the run succeeds does not depend on the order (fuel permitting) -/
theorem success_transfer (G : GLang) (c : GCfg) (cl1 cl2 : Bool) (order1 order2 : List Ty) (g1 : GState)
    (hcov1 : ∀ t ∈ G.canon, t ∈ order1) (h1 : addTaxonomyOn G c cl1 order1 {} = .ok g1)
    (hord2 : ∀ t ∈ order2, t ∈ G.canon) (hfuel : ∀ t ∈ G.canon, termNeed t.toTerm ≤ typeFuel) :
    ∃ g2, addTaxonomyOn G c cl2 order2 {} = .ok g2 :=
  addTaxonomyOn_total G c cl2 order2 (addTaxonomyOn_result G c cl1 order1 g1 hcov1 h1).canonical hord2
    (describable_of_success G c cl1 order1 g1 hcov1 h1) hfuel

/-- the second condition is necessary: only canonical types can be visited -/
theorem addTaxonomyOn_order_canon (G : GLang) (c : GCfg) (closure : Bool) (order : List Ty) (g : GState)
    (h : addTaxonomyOn G c closure order {} = .ok g) : ∀ t ∈ order, t ∈ G.canon := by
  unfold addTaxonomyOn at h
  split at h
  · cases h
  · split at h
    · cases h
    · rename_i g1 hloop
      obtain ⟨_, _, d1⟩ := taxonomyLoop_voc G c order {} g1 hloop (vinv_empty G c) (vsound_empty G c)
      exact fun t ht => (d1 t ht).canon

end Tfv.Voc
