import Tfv.Proofs.GraphMemo
/-!
# `annotateType` with the list of supertypes as a parameter
-/
namespace Tfv

/-- the two triples emitted for a supertype node `sn` -/
def emitSup (c : GCfg) (root : Node) (cur : Nat) (g : GState) (sn : Node) : GState :=
  let g := if c.withMembershipSupertypes then g.add (root, .tf "containsType", sn) else g
  if c.withSupertypes then g.add (.b cur, .tf "subtypeOf", sn) else g

/-- one round of the loop over the supertypes in `annotateType` -/
def supStep (G : GLang) (c : GCfg) (root : Node) (cur : Nat) (g : GState) (s : Ty) : Except GErr GState :=
  match addType G c typeFuel g s.toTerm with
  | .error e => .error e
  | .ok (g, sn) => .ok (emitSup c root cur g sn)

/-- the triples emitted for the node's own type node `tn` (`ov`: the caller's decision whether the type counts as
canonical, as in `annotateType`) -/
def emitOwn (G : GLang) (c : GCfg) (root : Node) (cur : Nat) (ty : Term) (g : GState) (tn : Node)
    (ov : Option Bool := none) : GState :=
  let g := g.add (.b cur, .tf "type", tn)
  let g := if c.withSupertypes && ov.getD (inCanon G ty) then g.add (.b cur, .tf "subtypeOf", tn) else g
  if c.withMembership then g.add (root, .tf "containsType", tn) else g

/-- `annotateType` where the supertypes are iterated in the order of the given list -/
def annotateTypeWith (G : GLang) (c : GCfg) (g : GState) (root : Node) (cur : Nat) (ty : Term) (sups : List Ty)
    (ov : Option Bool := none) : Except GErr GState :=
  match addType G c typeFuel g ty with
  | .error e => .error e
  | .ok (g, tn) =>
    let g := emitOwn G c root cur ty g tn ov
    match ty with
    | .var _ => .ok g
    | .app _ _ => if ov.getD (inCanon G ty) then sups.foldlM (supStep G c root cur) g else .ok g

/-- the supertypes `annotateType` iterates over -/
def supsOf (G : GLang) (ty : Term) : List Ty :=
  dedupTy (langSucc G.types G.cfg G.canon (G.canon.length + 2) true ty.generalize true)

theorem annotateType_eq_ov (G : GLang) (c : GCfg) (g : GState) (root : Node) (cur : Nat) (ty : Term) (mf : Bool)
    (ov : Option Bool) :
    annotateType G c g root cur ty mf ov = annotateTypeWith G c g root cur ty (supsOf G ty) ov := by
  rfl

theorem annotateType_eq (G : GLang) (c : GCfg) (g : GState) (root : Node) (cur : Nat) (ty : Term) (mf : Bool) :
    annotateType G c g root cur ty mf = annotateTypeWith G c g root cur ty (supsOf G ty) :=
  annotateType_eq_ov G c g root cur ty mf none

/-! ## states that differ in their triples only -/

/-- `g'` is `g` with another list of triples -/
def SameBut (g g' : GState) : Prop := g' = { g with triples := g'.triples }

theorem SameBut.refl (g : GState) : SameBut g g := rfl

theorem SameBut.trans {g1 g2 g3 : GState} (h1 : SameBut g1 g2) (h2 : SameBut g2 g3) : SameBut g1 g3 := by
  unfold SameBut at *
  rw [h2, h1]

theorem SameBut.add (g : GState) (t : Triple) : SameBut g (g.add t) := by
  unfold SameBut GState.add
  split <;> rfl

theorem SameBut.typeNodes {g g' : GState} (h : SameBut g g') : g'.typeNodes = g.typeNodes := by
  unfold SameBut at h; rw [h]

theorem SameBut.ext {g g1 g2 : GState} (h1 : SameBut g g1) (h2 : SameBut g g2) (h : g1.triples = g2.triples) :
    g1 = g2 := by
  unfold SameBut at *
  rw [h1, h2, h]

theorem SameBut.iteAdd (b : Bool) (g : GState) (t : Triple) : SameBut g (if b = true then g.add t else g) := by
  split
  · exact .add g t
  · exact .refl g

theorem emitSup_sameBut (c : GCfg) (root : Node) (cur : Nat) (g : GState) (sn : Node) :
    SameBut g (emitSup c root cur g sn) := by
  unfold emitSup
  exact .trans (.iteAdd _ _ _) (.iteAdd _ _ _)

theorem mem_iteAdd {b : Bool} {g : GState} {t u : Triple} :
    u ∈ (if b = true then g.add t else g).triples ↔ (u ∈ g.triples ∨ (b = true ∧ u = t)) := by
  cases b
  · simp
  · simp [mem_add]

theorem mem_emitSup {c : GCfg} {root : Node} {cur : Nat} {g : GState} {sn : Node} {t : Triple} :
    t ∈ (emitSup c root cur g sn).triples ↔
      (t ∈ g.triples ∨ (c.withMembershipSupertypes = true ∧ t = (root, .tf "containsType", sn)) ∨
        (c.withSupertypes = true ∧ t = (.b cur, .tf "subtypeOf", sn))) := by
  unfold emitSup
  simp only [mem_iteAdd, or_assoc]

theorem emitOwn_sameBut (G : GLang) (c : GCfg) (root : Node) (cur : Nat) (ty : Term) (g : GState) (tn : Node)
    {ov : Option Bool} : SameBut g (emitOwn G c root cur ty g tn ov) := by
  unfold emitOwn
  exact .trans (.add _ _) (.trans (.iteAdd _ _ _) (.iteAdd _ _ _))

theorem mem_emitOwn {G : GLang} {c : GCfg} {root : Node} {cur : Nat} {ty : Term} {g : GState} {tn : Node}
    {ov : Option Bool} {t : Triple} :
    t ∈ (emitOwn G c root cur ty g tn ov).triples ↔
      (t ∈ g.triples ∨ t = (.b cur, .tf "type", tn) ∨
        ((c.withSupertypes && ov.getD (inCanon G ty)) = true ∧ t = (.b cur, .tf "subtypeOf", tn)) ∨
        (c.withMembership = true ∧ t = (root, .tf "containsType", tn))) := by
  unfold emitOwn
  simp only [mem_iteAdd, mem_add, or_assoc]

/-! ## the loop over pre-registered supertypes -/

/-- the triples emitted for the supertype `s`, looked up in the type-node table `m` -/
def SupTriple (c : GCfg) (root : Node) (cur : Nat) (m : List (Term × Node)) (s : Ty) (t : Triple) : Prop :=
  ∃ n, lookupType m s.toTerm = some n ∧
    ((c.withMembershipSupertypes = true ∧ t = (root, .tf "containsType", n)) ∨
      (c.withSupertypes = true ∧ t = (.b cur, .tf "subtypeOf", n)))

theorem supStep_registered (G : GLang) (c : GCfg) (root : Node) (cur : Nat) (g : GState) (s : Ty) (n : Node)
    (h : lookupType g.typeNodes s.toTerm = some n) :
    supStep G c root cur g s = .ok (emitSup c root cur g n) := by
  unfold supStep
  rw [show typeFuel = 999 + 1 from rfl, addType_of_lookup G c 999 g s.toTerm n h]

theorem supFold_registered (G : GLang) (c : GCfg) (root : Node) (cur : Nat) : ∀ (sups : List Ty) (g : GState),
    (∀ s ∈ sups, ∃ n, lookupType g.typeNodes s.toTerm = some n) →
    ∃ g', sups.foldlM (supStep G c root cur) g = .ok g' ∧ SameBut g g' ∧
      ∀ t, t ∈ g'.triples ↔ (t ∈ g.triples ∨ ∃ s ∈ sups, SupTriple c root cur g.typeNodes s t) := by
  intro sups
  induction sups with
  | nil =>
    intro g _
    exact ⟨g, rfl, .refl g, by simp⟩
  | cons s sups ih =>
    intro g hreg
    obtain ⟨n, hn⟩ := hreg s List.mem_cons_self
    have hsb := emitSup_sameBut c root cur g n
    obtain ⟨g', hf, hs, hm⟩ := ih (emitSup c root cur g n) (by
      intro s' hs'
      rw [hsb.typeNodes]
      exact hreg s' (List.mem_cons_of_mem _ hs'))
    refine ⟨g', ?_, hsb.trans hs, ?_⟩
    · simp only [List.foldlM_cons, supStep_registered G c root cur g s n hn]
      exact hf
    · intro t
      rw [hm t, mem_emitSup, hsb.typeNodes]
      constructor
      · rintro ((h | h) | ⟨s', hs', h⟩)
        · exact .inl h
        · exact .inr ⟨s, List.mem_cons_self, n, hn, h⟩
        · exact .inr ⟨s', List.mem_cons_of_mem _ hs', h⟩
      · rintro (h | ⟨s', hs', h⟩)
        · exact .inl (.inl h)
        · rcases List.mem_cons.1 hs' with rfl | hs'
          · obtain ⟨n', hn', h⟩ := h
            rw [hn] at hn'
            cases hn'
            exact .inl (.inr h)
          · exact .inr ⟨s', hs', h⟩

/-- **order independence of the supertype loop**: two lists with the same members, all pre-registered -/
theorem supFold_perm (G : GLang) (c : GCfg) (root : Node) (cur : Nat) (sups1 sups2 : List Ty) (g : GState)
    (hsame : ∀ s, s ∈ sups1 ↔ s ∈ sups2)
    (hreg : ∀ s ∈ sups1, ∃ n, lookupType g.typeNodes s.toTerm = some n) :
    ∃ g1 g2, sups1.foldlM (supStep G c root cur) g = .ok g1 ∧ sups2.foldlM (supStep G c root cur) g = .ok g2 ∧
      SameBut g g1 ∧ SameBut g g2 ∧ ∀ t, t ∈ g1.triples ↔ t ∈ g2.triples := by
  obtain ⟨g1, h1, s1, m1⟩ := supFold_registered G c root cur sups1 g hreg
  obtain ⟨g2, h2, s2, m2⟩ := supFold_registered G c root cur sups2 g
    (fun s hs => hreg s ((hsame s).2 hs))
  refine ⟨g1, g2, h1, h2, s1, s2, ?_⟩
  intro t
  rw [m1 t, m2 t]
  constructor
  · rintro (h | ⟨s, hs, h⟩)
    · exact .inl h
    · exact .inr ⟨s, (hsame s).1 hs, h⟩
  · rintro (h | ⟨s, hs, h⟩)
    · exact .inl h
    · exact .inr ⟨s, (hsame s).2 hs, h⟩

theorem SameBut.of_common {g g1 g2 : GState} (h1 : SameBut g g1) (h2 : SameBut g g2) : SameBut g1 g2 := by
  unfold SameBut at *
  rw [h1]; exact h2

/-- **order independence of `annotateType`**: if the supertypes are registered before the call, iterating them in
another order (any list with the same members) succeeds as well and yields a state with the same set of triples
that agrees in every other component -/
theorem annotateTypeWith_perm_ov (G : GLang) (c : GCfg) (g : GState) (root : Node) (cur : Nat) (ty : Term)
    (sups1 sups2 : List Ty) (ov : Option Bool) (hsame : ∀ s, s ∈ sups1 ↔ s ∈ sups2)
    (hreg : ∀ s ∈ sups1, ∃ n, lookupType g.typeNodes s.toTerm = some n) (g1 : GState)
    (h : annotateTypeWith G c g root cur ty sups1 ov = .ok g1) :
    ∃ g2, annotateTypeWith G c g root cur ty sups2 ov = .ok g2 ∧ SameBut g1 g2 ∧
      ∀ t, t ∈ g1.triples ↔ t ∈ g2.triples := by
  unfold annotateTypeWith at h ⊢
  cases ha : addType G c typeFuel g ty with
  | error e => rw [ha] at h; cases h
  | ok r =>
    obtain ⟨ga, tn⟩ := r
    rw [ha] at h
    simp only [] at h ⊢
    cases ty with
    | var v => exact ⟨g1, h, .refl g1, fun _ => Iff.rfl⟩
    | app o args =>
      simp only [] at h ⊢
      by_cases hc : ov.getD (inCanon G (.app o args)) = true
      · rw [if_pos hc] at h ⊢
        have hreg' : ∀ s ∈ sups1, ∃ n,
            lookupType (emitOwn G c root cur (.app o args) ga tn ov).typeNodes s.toTerm = some n := by
          intro s hs
          obtain ⟨n, hn⟩ := hreg s hs
          rw [(emitOwn_sameBut G c root cur _ ga tn).typeNodes]
          exact ⟨n, (addType_step G c _ _ _ _ _ ha).lookup_stable hn⟩
        obtain ⟨q1, q2, e1, e2, b1, b2, hm⟩ := supFold_perm G c root cur sups1 sups2 _ hsame hreg'
        rw [e1] at h
        cases h
        exact ⟨q2, e2, b1.of_common b2, hm⟩
      · rw [if_neg hc] at h ⊢
        exact ⟨g1, h, .refl g1, fun _ => Iff.rfl⟩

theorem annotateTypeWith_perm (G : GLang) (c : GCfg) (g : GState) (root : Node) (cur : Nat) (ty : Term)
    (sups1 sups2 : List Ty) (hsame : ∀ s, s ∈ sups1 ↔ s ∈ sups2)
    (hreg : ∀ s ∈ sups1, ∃ n, lookupType g.typeNodes s.toTerm = some n) (g1 : GState)
    (h : annotateTypeWith G c g root cur ty sups1 = .ok g1) :
    ∃ g2, annotateTypeWith G c g root cur ty sups2 = .ok g2 ∧ SameBut g1 g2 ∧
      ∀ t, t ∈ g1.triples ↔ t ∈ g2.triples :=
  annotateTypeWith_perm_ov G c g root cur ty sups1 sups2 none hsame hreg g1 h

end Tfv
