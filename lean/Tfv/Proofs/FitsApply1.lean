import Tfv.Proofs.FitsGen5
import Tfv.Proofs.ResolvedConstrMain
import Tfv.Proofs.ResolvedConstrExamples
/-!
# C06 end to end, part 1: the engine on concrete (closed) types

Fuel-explicit facts: on concrete types `match3` is `matchC`, `fix` does nothing, `unify` (subtype mode) succeeds
exactly when `matchC` holds, and `minLoop` over concrete alternatives computes the pure function `minz`.
-/
namespace Tfv.C06A
open Tfv Tfv.C03P Tfv.C03C Tfv.C16P Tfv.C17E Tfv.C03R

/-! ## concrete types as terms -/

mutual
theorem closed_toTerm : ∀ t : Ty, t.toTerm.closed = true
  | .app o ts => by rw [Tfv.toTerm_app, closed_app]; exact closedL_toTermL ts
theorem closedL_toTermL : ∀ ts : List Ty, Term.closedL (Ty.toTermL ts) = true
  | [] => by rw [Ty.toTermL]; exact closedL_nil
  | t :: ts => by rw [Tfv.toTermL_cons, closedL_cons, closed_toTerm t, closedL_toTermL ts]; rfl
end

mutual
theorem res_toTerm (σ : Store) : ∀ t : Ty, Res σ t.toTerm t
  | .app o ts => by
    rw [Tfv.toTerm_app, res_app]
    exact ⟨_, Tfv.followT_app σ o _, resL_toTermL σ ts⟩
theorem resL_toTermL (σ : Store) : ∀ ts : List Ty, ResL σ (Ty.toTermL ts) ts
  | [] => by rw [Ty.toTermL]; exact resL_nil
  | t :: ts => by rw [Tfv.toTermL_cons, resL_cons]; exact ⟨res_toTerm σ t, resL_toTermL σ ts⟩
end

theorem followT_toTerm (σ : Store) (t : Ty) : followT σ t.toTerm = t.toTerm :=
  followT_closed σ (closed_toTerm t)

/-- `match3` on two concrete types is `matchC` -/
theorem match3_toTerm (L : Lang) (σ : Store) (n : Nat) (st aw : Bool) (a b : Ty)
    (da : Ty.depth a < n) (db : Ty.depth b < n) :
    match3 L σ n st aw a.toTerm b.toTerm = some (matchC L st true a b) :=
  match3_res L σ n st aw _ _ a b (res_toTerm σ a) (res_toTerm σ b) da db

theorem size_pos (t : Ty) : 1 ≤ Ty.size t := by
  cases t with
  | app o ts => rw [Ty.size]; omega

/-! ## `fix` on a concrete type: nothing happens (and the fuel `2·size` suffices) -/

theorem fix_fixList_toTerm (L : Lang) : ∀ (n : Nat),
    (∀ σ (t : Ty) pl, 2 * Ty.size t ≤ n → fix L n σ t.toTerm pl = .ok (σ, t.toTerm)) ∧
    (∀ σ vs (ts : List Ty) pl, 2 * Ty.sizeL ts + 1 ≤ n → fixList L n σ vs (Ty.toTermL ts) pl = .ok σ)
  | 0 => by
    refine ⟨?_, ?_⟩
    · intro σ t pl h; have := size_pos t; omega
    · intro σ vs ts pl h; omega
  | n+1 => by
    obtain ⟨ih1, ih2⟩ := fix_fixList_toTerm L n
    refine ⟨?_, ?_⟩
    · intro σ t pl h
      cases t with
      | app o ts =>
        rw [Ty.size] at h
        rw [Tfv.toTerm_app]
        unfold fix
        rw [Tfv.followT_app]
        simp only []
        rw [ih2 σ _ ts pl (by omega)]
    · intro σ vs ts pl h
      match vs, ts with
      | [], ts => exact fixList_nil_left L n σ _ pl
      | _ :: _, [] => rw [Ty.toTermL]; exact fixList_nil_right L n σ _ pl
      | v :: vs, t :: ts =>
        rw [Ty.sizeL] at h
        have := size_pos t
        rw [Tfv.toTermL_cons, fixList_cons, ih1 σ t _ (by omega)]
        simp only []
        exact ih2 σ vs ts pl (by omega)

theorem fix_toTerm {L : Lang} {n : Nat} (σ : Store) (t : Ty) (pl : Bool) (h : 2 * Ty.size t ≤ n) :
    fix L n σ t.toTerm pl = .ok (σ, t.toTerm) := (fix_fixList_toTerm L n).1 σ t pl h

/-! ## `unify` (subtype mode) of two concrete types -/

theorem unifyList_nil_vs (L : Lang) (n : Nat) (σ : Store) (xs ys : List Term) (st sb sw : Bool) :
    unifyList L (n+1) σ [] xs ys st sb sw = .ok σ := by
  rw [unifyList]
  intro _ _ _ _ _ _ h; cases h

theorem unifyList_nil_xs (L : Lang) (n : Nat) (σ : Store) (vs : List Bool) (ys : List Term) (st sb sw : Bool) :
    unifyList L (n+1) σ vs [] ys st sb sw = .ok σ := by
  rw [unifyList]
  intro _ _ _ _ _ _ _ h; cases h

theorem unifyList_nil_ys (L : Lang) (n : Nat) (σ : Store) (vs : List Bool) (xs : List Term) (st sb sw : Bool) :
    unifyList L (n+1) σ vs xs [] st sb sw = .ok σ := by
  rw [unifyList]
  intro _ _ _ _ _ _ _ _ h; cases h

/-- the two sides in the order `unify` receives them -/
def sideA (pol : Bool) (a b : Ty) : Ty := if pol then a else b
def sideB (pol : Bool) (a b : Ty) : Ty := if pol then b else a

theorem unify_app_app (L : Lang) (n : Nat) (σ : Store) (ao bo : Nat) (as bs : List Term) :
    unify L (n+1) σ (.app ao as) (.app bo bs) true false false =
      (if ao == BOT || bo == TOP then .ok σ
       else if arityOf L ao == 0 then
         (if !opSub L ao bo then .error .subtypeMismatch else .ok σ)
       else if ao == bo then unifyList L n σ (varianceOf L ao) as bs true false false
       else .error .typeMismatch) := by
  rw [unify, Tfv.followT_app, Tfv.followT_app]
  simp

theorem unify_unifyList_toTerm (L : Lang) : ∀ (n : Nat),
    (∀ σ pol (a b : Ty), 2 * Ty.size a ≤ n → matchC L true pol a b = true →
      unify L n σ (sideA pol a b).toTerm (sideB pol a b).toTerm true false false = .ok σ) ∧
    (∀ σ pol vs (as bs : List Ty), 2 * Ty.sizeL as + 1 ≤ n → matchCs L true pol vs as bs = true →
      unifyList L n σ vs (Ty.toTermL (if pol then as else bs)) (Ty.toTermL (if pol then bs else as))
        true false false = .ok σ)
  | 0 => by
    refine ⟨?_, ?_⟩
    · intro σ pol a b h; have := size_pos a; omega
    · intro σ pol vs as bs h; omega
  | n+1 => by
    obtain ⟨ih1, ih2⟩ := unify_unifyList_toTerm L n
    refine ⟨?_, ?_⟩
    · intro σ pol a b h hm
      cases a with
      | app ao as =>
      cases b with
      | app bo bs =>
        rw [Ty.size] at h
        rw [matchC] at hm
        simp only [Bool.true_and] at hm
        have key := ih2 σ pol (varianceOf L (if pol then ao else bo)) as bs (by omega)
        cases pol with
        | true =>
          simp only [sideA, sideB, if_true, Tfv.toTerm_app] at hm key ⊢
          rw [unify_app_app]
          split
          · rfl
          · next h1 =>
            simp only [h1, Bool.false_eq_true, if_false] at hm
            split
            · next h2 =>
              simp only [h2, if_true, Bool.or_eq_true, beq_iff_eq] at hm
              have : opSub L ao bo = true := by
                rcases hm with e | e
                · subst e; unfold opSub; simp
                · exact e
              simp [this]
            · next h2 =>
              simp only [h2, Bool.false_eq_true, if_false] at hm
              split
              · next h3 =>
                have h3' : (ao != bo) = false := by simpa using h3
                simp only [h3', Bool.false_eq_true, if_false] at hm
                exact key hm
              · next h3 =>
                have h3' : (ao != bo) = true := by simpa using h3
                simp [h3'] at hm
        | false =>
          simp only [sideA, sideB, Bool.false_eq_true, if_false, Tfv.toTerm_app] at hm key ⊢
          rw [unify_app_app]
          split
          · rfl
          · next h1 =>
            simp only [h1, Bool.false_eq_true, if_false] at hm
            split
            · next h2 =>
              simp only [h2, if_true, Bool.or_eq_true, beq_iff_eq] at hm
              have : opSub L bo ao = true := by
                rcases hm with e | e
                · subst e; unfold opSub; simp
                · exact e
              simp [this]
            · next h2 =>
              simp only [h2, Bool.false_eq_true, if_false] at hm
              split
              · next h3 =>
                have h3' : (bo != ao) = false := by simpa using h3
                simp only [h3', Bool.false_eq_true, if_false] at hm
                exact key hm
              · next h3 =>
                have h3' : (bo != ao) = true := by simpa using h3
                simp [h3'] at hm
    · intro σ pol vs as bs h hm
      match vs, as, bs with
      | [], as, bs => exact unifyList_nil_vs L n σ _ _ _ _ _
      | _ :: _, [], bs =>
        cases pol
        · simp only [Bool.false_eq_true, if_false]; rw [Ty.toTermL]; exact unifyList_nil_ys L n σ _ _ _ _ _
        · simp only [if_true]; rw [Ty.toTermL]; exact unifyList_nil_xs L n σ _ _ _ _ _
      | _ :: _, _ :: _, [] =>
        cases pol
        · simp only [Bool.false_eq_true, if_false]; rw [Ty.toTermL]; exact unifyList_nil_xs L n σ _ _ _ _ _
        · simp only [if_true]; rw [Ty.toTermL]; exact unifyList_nil_ys L n σ _ _ _ _ _
      | v :: vs, a :: as, b :: bs =>
        rw [Ty.sizeL] at h
        have := size_pos a
        rw [matchCs, Bool.and_eq_true] at hm
        have k1 := ih1 σ (pol == v) a b (by omega) hm.1
        have k2 := ih2 σ pol vs as bs (by omega) hm.2
        have e1 : (true == false) = false := rfl
        have e2 : (false == true) = false := rfl
        have e3 : (true == true) = true := rfl
        have e4 : (false == false) = true := rfl
        cases pol <;> cases v <;>
          simp only [sideA, sideB, e1, e2, e3, e4, Bool.false_eq_true, if_false, if_true, Tfv.toTermL_cons,
            unifyList_cons] at k1 k2 ⊢ <;>
          rw [k1] <;> exact k2

/-- a concrete subtype unifies with its supertype, nothing changes -/
theorem unify_toTerm_ok {L : Lang} {n : Nat} (σ : Store) (a b : Ty) (h : 2 * Ty.size a ≤ n)
    (hm : sub L a b = true) : unify L n σ a.toTerm b.toTerm true false false = .ok σ :=
  (unify_unifyList_toTerm L n).1 σ true a b h hm

/-! ## `minimize` over concrete alternatives is a pure function -/

/-- one step of the inner loop of `minimize` -/
def minStep (L : Lang) (obj : Ty) (acc : List Ty × Bool) (m : Ty) : List Ty × Bool :=
  let m' := if sub L m obj then obj else m
  (acc.1 ++ [m'], if sub L obj m' then false else acc.2)

/-- `EliminationConstraint.minimize()` on concrete alternatives -/
def minz (L : Lang) : List Ty → List Ty → List Ty
  | [], mins => mins
  | obj :: rest, mins =>
    let r := mins.foldl (minStep L obj) ([], true)
    minz L rest (if r.2 then r.1 ++ [obj] else r.1)

theorem toTermL_append (xs ys : List Ty) : Ty.toTermL (xs ++ ys) = Ty.toTermL xs ++ Ty.toTermL ys := by
  induction xs with
  | nil => rw [Ty.toTermL]; rfl
  | cons x xs ih => rw [List.cons_append, Tfv.toTermL_cons, Tfv.toTermL_cons, ih, List.cons_append]

theorem minFold_toTerm (L : Lang) (σ : Store) (obj : Ty) (hobj : Ty.depth obj < 64) :
    ∀ (mins : List Ty) (acc : List Ty) (b : Bool), (∀ m ∈ mins, Ty.depth m < 64) →
      (Ty.toTermL mins).foldl (fun (acc : List Term × Bool) (m : Term) =>
        ((acc.1 ++ [if match3 L σ (matchFuel σ) true false m obj.toTerm == some true then followT σ obj.toTerm else m],
          if match3 L σ (matchFuel σ) true false obj.toTerm
            (if match3 L σ (matchFuel σ) true false m obj.toTerm == some true then followT σ obj.toTerm else m) == some true
          then false else acc.2) : List Term × Bool)) (Ty.toTermL acc, b) =
      (Ty.toTermL (mins.foldl (minStep L obj) (acc, b)).1, (mins.foldl (minStep L obj) (acc, b)).2)
  | [], acc, b, _ => by rw [Ty.toTermL]; rfl
  | m :: mins, acc, b, hd => by
    have hm : Ty.depth m < 64 := hd m List.mem_cons_self
    have f : 64 ≤ matchFuel σ := by unfold matchFuel; omega
    rw [Tfv.toTermL_cons, List.foldl_cons, List.foldl_cons]
    have e1 : match3 L σ (matchFuel σ) true false m.toTerm obj.toTerm = some (sub L m obj) :=
      match3_toTerm L σ _ true false m obj (by omega) (by omega)
    have e2 : (if (some (sub L m obj) == some true) = true then followT σ obj.toTerm else m.toTerm) =
        (if sub L m obj then obj else m).toTerm := by
      rw [followT_toTerm]
      cases sub L m obj <;> rfl
    have hd' : Ty.depth (if sub L m obj then obj else m) < 64 := by split <;> assumption
    have e3 : match3 L σ (matchFuel σ) true false obj.toTerm (if sub L m obj then obj else m).toTerm =
        some (sub L obj (if sub L m obj then obj else m)) :=
      match3_toTerm L σ _ true false obj _ (by omega) (by omega)
    simp only [e1, e2, e3]
    have e4 : Ty.toTermL acc ++ [(if sub L m obj then obj else m).toTerm] =
        Ty.toTermL (acc ++ [if sub L m obj then obj else m]) := by
      rw [toTermL_append, Tfv.toTermL_cons, Ty.toTermL]
    rw [e4]
    have e5 : (if (some (sub L obj (if sub L m obj then obj else m)) == some true) = true then false else b) =
        (if sub L obj (if sub L m obj then obj else m) then false else b) := by
      cases sub L obj (if sub L m obj then obj else m) <;> rfl
    rw [e5]
    exact minFold_toTerm L σ obj hobj mins _ _ (fun x hx => hd x (List.mem_cons_of_mem _ hx))

theorem minz_depth (L : Lang) : ∀ (alts mins : List Ty), (∀ t ∈ alts, Ty.depth t < 64) →
    (∀ t ∈ mins, Ty.depth t < 64) → ∀ t ∈ minz L alts mins, Ty.depth t < 64
  | [], mins, _, hm => by rw [minz]; exact hm
  | obj :: rest, mins, ha, hm => by
    rw [minz]
    refine minz_depth L rest _ (fun t ht => ha t (List.mem_cons_of_mem _ ht)) ?_
    have hobj := ha obj List.mem_cons_self
    have key : ∀ (ms acc : List Ty) (b : Bool), (∀ t ∈ ms, Ty.depth t < 64) → (∀ t ∈ acc, Ty.depth t < 64) →
        ∀ t ∈ (ms.foldl (minStep L obj) (acc, b)).1, Ty.depth t < 64 := by
      intro ms
      induction ms with
      | nil => intro acc b _ h2; exact h2
      | cons m ms ih =>
        intro acc b h1 h2
        rw [List.foldl_cons]
        refine ih _ _ (fun t ht => h1 t (List.mem_cons_of_mem _ ht)) ?_
        intro t ht
        simp only [List.mem_append, List.mem_singleton] at ht
        rcases ht with ht | ht
        · exact h2 t ht
        · rw [ht]; split
          · exact hobj
          · exact h1 m List.mem_cons_self
    have k := key mins [] true hm (fun _ h => nomatch h)
    split
    · intro t ht
      rcases List.mem_append.mp ht with h | h
      · exact k t h
      · rw [List.mem_singleton.mp h]; exact hobj
    · exact k

/-- `minLoop` on concrete alternatives: the store is unchanged, the result is `minz` -/
theorem minLoop_toTerm (L : Lang) (σ : Store) : ∀ (n : Nat) (alts mins : List Ty),
    (∀ t ∈ alts, Ty.depth t < 64) → (∀ t ∈ mins, Ty.depth t < 64) →
    alts.length + 2 * Ty.sizeL alts + 1 ≤ n →
    minLoop L n σ (Ty.toTermL alts) (Ty.toTermL mins) = .ok (σ, Ty.toTermL (minz L alts mins))
  | 0, _, _, _, _, h => by omega
  | n+1, [], mins, _, _, _ => by rw [Ty.toTermL, minLoop, minz]
  | n+1, obj :: rest, mins, ha, hm, h => by
    have hobj := ha obj List.mem_cons_self
    have hrest : ∀ t ∈ rest, Ty.depth t < 64 := fun t ht => ha t (List.mem_cons_of_mem _ ht)
    rw [Ty.sizeL, List.length_cons] at h
    have := size_pos obj
    rw [Tfv.toTermL_cons, minLoop]
    simp only []
    have hf := minFold_toTerm L σ obj hobj mins [] true hm
    rw [Ty.toTermL] at hf
    rw [hf, minz]
    simp only []
    have hdep := minz_depth L [obj] mins (by simpa using hobj) hm
    rw [minz, minz] at hdep
    split
    · next hadd =>
      rw [followT_toTerm, fix_toTerm σ obj true (by omega)]
      simp only [hadd, if_true] at hdep ⊢
      have e : Ty.toTermL (List.foldl (minStep L obj) ([], true) mins).1 ++ [obj.toTerm] =
          Ty.toTermL ((List.foldl (minStep L obj) ([], true) mins).1 ++ [obj]) := by
        rw [toTermL_append, Tfv.toTermL_cons, Ty.toTermL]
      rw [e]
      exact minLoop_toTerm L σ n rest _ hrest hdep (by omega)
    · next hadd =>
      have hadd' : (List.foldl (minStep L obj) ([], true) mins).2 = false := by simpa using hadd
      simp only [hadd', Bool.false_eq_true, if_false] at hdep ⊢
      exact minLoop_toTerm L σ n rest _ hrest hdep (by omega)

/-- pairwise incomparable concrete alternatives (an antichain of the declared order) -/
def antichain (L : Lang) : List Ty → Bool
  | [] => true
  | t :: ts => ts.all (fun u => !sub L t u && !sub L u t) && antichain L ts

theorem minFold_antichain (L : Lang) (obj : Ty) : ∀ (mins acc : List Ty),
    (∀ m ∈ mins, sub L m obj = false ∧ sub L obj m = false) →
    mins.foldl (minStep L obj) (acc, true) = (acc ++ mins, true)
  | [], acc, _ => by simp
  | m :: mins, acc, h => by
    obtain ⟨h1, h2⟩ := h m List.mem_cons_self
    rw [List.foldl_cons, minStep]
    simp only [h1, Bool.false_eq_true, if_false, h2]
    rw [minFold_antichain L obj mins _ (fun x hx => h x (List.mem_cons_of_mem _ hx))]
    simp

theorem minz_antichain (L : Lang) : ∀ (alts mins : List Ty),
    (∀ m ∈ mins, ∀ t ∈ alts, sub L m t = false ∧ sub L t m = false) → antichain L alts = true →
    minz L alts mins = mins ++ alts
  | [], mins, _, _ => by rw [minz]; simp
  | obj :: rest, mins, h, ha => by
    rw [antichain, Bool.and_eq_true, List.all_eq_true] at ha
    rw [minz, minFold_antichain L obj mins [] (fun m hm => h m hm obj List.mem_cons_self)]
    simp only [if_true, List.nil_append]
    rw [minz_antichain L rest _ ?_ ha.2]
    · simp
    · intro m hm t ht
      rcases List.mem_append.mp hm with hm | hm
      · exact h m hm t (List.mem_cons_of_mem _ ht)
      · rw [List.mem_singleton.mp hm]
        have := ha.1 t ht
        simpa using this

theorem minz_antichain_nil (L : Lang) (alts : List Ty) (ha : antichain L alts = true) : minz L alts [] = alts := by
  rw [minz_antichain L alts [] (fun _ h => nomatch h) ha]; rfl

/-! ## the filter of `fulfill` on a concrete reference and concrete alternatives -/

theorem filter_toTerm (L : Lang) (σ : Store) (a : Ty) (ha : Ty.depth a < 64) : ∀ (ts : List Ty),
    (∀ t ∈ ts, Ty.depth t < 64) →
    (Ty.toTermL ts).filter (fun t => match3 L σ (matchFuel σ) true true a.toTerm t != some false) =
      Ty.toTermL (ts.filter (fun t => sub L a t))
  | [], _ => by rw [Ty.toTermL]; rfl
  | t :: ts, h => by
    have f : 64 ≤ matchFuel σ := by unfold matchFuel; omega
    have ht := h t List.mem_cons_self
    have e := match3_toTerm L σ (matchFuel σ) true true a t (by omega) (by omega)
    have ih := filter_toTerm L σ a ha ts (fun x hx => h x (List.mem_cons_of_mem _ hx))
    rw [Tfv.toTermL_cons, List.filter_cons, List.filter_cons, e, ih]
    unfold sub
    cases matchC L true true a t <;> simp [Tfv.toTermL_cons]

end Tfv.C06A
