import sys, random, itertools
sys.path.insert(0,'/repo')
from transforge.type import *
from transforge.expr import *
from transforge.lang import *
from transforge.graph import *
from rdflib import BNode, Graph, URIRef
from rdflib.compare import isomorphic
A=TypeOperator('A')
ops={}
def mk(name,t): ops[name]=Operator(type=t,name=name)
mk('u1',A**A); mk('u2',A**A); mk('b1',A**A**A)
mk('h1',(A**A)**A); mk('h2',(A**A)**A**A); mk('h3',(A**A)**(A**A)**A**A)
mk('hh',((A**A)**A)**A); mk('hr',(A**A)**A**(A**A))  # returns function
mk('k2', (A**A**A)**A**A)
lang=Language(dict(A=A,**ops), namespace=TEST)
FROM=TF['from']
def spec(expr):
    """independent graph: returns Graph"""
    g=Graph()
    srcnodes={}
    def spine(e):
        args=[]
        while isinstance(e, Application):
            args.append(e.x); e=e.f
        return e, list(reversed(args))
    def isfun(e): return isinstance(e.type.follow(), TypeOperation) and e.type.follow().operator==Function
    def build(e, outer_internal=None):
        # returns node for e ; e is data or function-valued (partial app / operator)
        if isinstance(e, Source):
            if e not in srcnodes: srcnodes[e]=BNode()
            return srcnodes[e]
        head,args=spine(e)
        assert isinstance(head, Operation)
        n=BNode(); g.add((n,TF.via,lang.namespace[head.operator.name]))
        argnodes=[]; internals=[]
        for a in args:
            if isfun(a):
                lam=BNode(); g.add((n,TF.internal,lam))
                an=build(a)
                g.add((an,FROM,lam))
                # nested internals of an fed by lam
                for inner in g.objects(an,TF.internal): g.add((inner,FROM,lam))
                argnodes.append(an); internals.append(lam)
            else:
                an=build(a); argnodes.append(an); internals.append(None)
            g.add((n,FROM,an))
        for i,lam in enumerate(internals):
            if lam is None: continue
            for j,an in enumerate(argnodes):
                if j!=i: g.add((lam,FROM,an))
        return n
    build(expr)
    return g
def actual(expr):
    g=TransformationGraph(lang, minimal=True, with_operators=True)
    g.add_expr(expr, BNode())
    return g
random.seed(3)
def gen_data(d):
    r=random.random()
    if d==0 or r<0.25: return random.choice(SRC)
    c=random.choice(['u1','b1','h1','h2','h3','hh','hrapp','k2'])
    if c=='u1': return ops['u1'](gen_data(d-1))
    if c=='b1': return ops['b1'](gen_data(d-1),gen_data(d-1))
    if c=='h1': return ops['h1'](gen_fun(d-1))
    if c=='h2': return ops['h2'](gen_fun(d-1),gen_data(d-1))
    if c=='h3': return ops['h3'](gen_fun(d-1),gen_fun(d-1),gen_data(d-1))
    if c=='hh': return ops['hh'](gen_fun2(d-1))
    if c=='hrapp': return ops['hr'](gen_fun(d-1),gen_data(d-1),gen_data(d-1))
    if c=='k2': return ops['k2'](ops['b1'].instance(), gen_data(d-1))
def gen_fun(d):
    r=random.random()
    if d<=0 or r<0.4: return random.choice([ops['u1'],ops['u2']]).instance()
    if r<0.7: return ops['b1'](gen_data(d-1))
    if r<0.85: return ops['h2'](gen_fun(d-1))
    return ops['hr'](gen_fun(d-1),gen_data(d-1))
def gen_fun2(d):
    return random.choice([ops['h1'].instance(), ops['h2'].instance() if False else ops['h1'].instance()])
bad=0
for it in range(400):
    SRC=[Source(A) for _ in range(3)]
    e=gen_data(3)
    try:
        ga=actual(e); gs=spec(e)
    except Exception as ex:
        print('ERR',type(ex).__name__,ex, e); bad+=1; continue
    if not isomorphic(ga,gs):
        bad+=1
        if bad<4:
            print('DIFF', e)
            print(' actual', len(ga), 'spec', len(gs))
print('bad',bad)
