import Tfv.Model
import Tfv.Spec.History
import Tfv.Proofs.ExprNoInternal
import Tfv.Proofs.ExprNoInternalParse
import Tfv.Proofs.ExprNoInternalExamples
/-!
# C17 (expression layer) — building and parsing typed expressions never fails with an internal error

Between the stack-machine parser (`Tfv/Props/C17.lean`) and the inference engine
(`Tfv/Props/C17Engine.lean`) sits the TYPED builder of `Tfv/Model/Expr.lean`: `Source()`,
`Operator.instance()`, `Application(f, x)`, the annotation `e : T`, `Language.parse`, `Expr.fix()`
and the programmatic call `f(x, y, …)`. Its error type is `PErr`.

**Internal** errors of `PErr` (`isIntP`): `.internal site` (a parser site), and an engine assertion
`Err.internal site` carried by `.typing` (printed `Internal(site)`) or by `.application` (printed
`ApplicationError:Internal(site)`). Everything else is declared: `ParseError`, `BracketMismatch`,
`EmptyParse`, `UndefinedTokenError`, `MissingInputError`, `TypeParameterError`, `TypeAnnotationError`,
`ApplicationError` / `TypingError` with a declared engine error, and the model's engine fuel
`Err.outOfFuel` (an artefact of the model, allowed).

**Invariant**: the builder state's store satisfies `FuelOk` (`Tfv/Spec/History.lean`; the invariant of
the engine theorems: `follow()` always arrives at an unresolved variable or a compound type). It holds
for the empty store and is kept by every operation below, so it holds in every state a program can reach.

`GoodX r` (results of the builder, `C17x_goodX_iff`): `r` is `.ok (s, _)` with `FuelOk s.store`, or
`.error e` with `e` not internal. `GoodS r` is the same for functions returning an engine error.
No internal error is reachable: all statements are full. Proofs in `Tfv/Proofs/ExprNoInternal*.lean`.
-/
namespace Tfv.C17
open Tfv Tfv.C03P Tfv.C03C Tfv.C04P Tfv.C04C Tfv.C17E Tfv.C17X

/-! ## 0. what "internal" and the result predicates mean -/

/-- An error of the builder is not internal exactly when it is none of the three shapes that stand for an
escaped assertion: a parser site, an engine assertion inside `TypingError` position, an engine
assertion inside `ApplicationError`. -/
theorem C17x_internal_iff (e : PErr) : isIntP e = false ↔
    ∀ s, e ≠ .internal s ∧ e ≠ .typing (.internal s) ∧ e ≠ .application (.internal s) :=
  isIntP_false_iff

/-- `GoodX` spelled out: every successful result carries a store satisfying the invariant, and every error
is none of the three internal shapes. -/
theorem C17x_goodX_iff {α : Type} (r : Except PErr (XState × α)) : GoodX r ↔
    (∀ s x, r = .ok (s, x) → FuelOk s.store) ∧
    (∀ e, r = .error e → ∀ site, e ≠ .internal site ∧ e ≠ .typing (.internal site) ∧
      e ≠ .application (.internal site)) :=
  goodX_iff r

/-- `GoodS` spelled out (functions that return an engine error, `Expr.fix()`). -/
theorem C17x_goodS_iff {α : Type} (r : Except Err (Store × α)) : GoodS r ↔
    (∀ σ x, r = .ok (σ, x) → FuelOk σ) ∧ (∀ site, r ≠ .error (.internal site)) :=
  goodS_iff r

/-- declared errors are not internal, engine fuel is not internal, the three shapes are -/
example : isIntP (.application .constraintViolation) = false ∧ isIntP (.typing .outOfFuel) = false ∧
    isIntP .typeAnnotation = false ∧ isIntP (.internal "fuel") = true ∧
    isIntP (.application (.internal "bind:variable cannot be unified twice")) = true ∧
    isIntP (.typing (.internal "fulfill:assert normalized")) = true :=
  ⟨rfl, rfl, rfl, rfl, rfl, rfl⟩

/-! ## 1. the operations of the typed builder -/

/-- `Source()` cannot fail, and keeps the invariant. -/
theorem C17x_mkSource_keeps (s : XState) (h : FuelOk s.store) : FuelOk (mkSourceT s).1.store :=
  mkSourceT_keeps h

example : FuelOk s1.store ∧ mkSourceT s1 = (s2, eS) ∧ FuelOk s2.store :=
  ⟨fuelOk_of_chainsB (by decide), ex_s, s2_fuelOk⟩

/-- `Operator.instance()` (`mkOpT`), for every operator table (any schemas: constraints of both kinds,
wildcards, no well-formedness assumed) and every name: a state satisfying the invariant, or
`UndefinedTokenError`, or a `TypingError` that is not an engine assertion. -/
theorem C17x_mkOp_no_internal (L : Lang) (ops : List OperatorDecl) (s : XState) (name : String)
    (h : FuelOk s.store) : GoodX (mkOpT L ops s name) :=
  mkOpT_good L ops name h

/-- non-vacuity: the operator `h : x ** x [x ≤ A]` instantiated on the empty state (the instance carries a
pending constraint), then the constant `b` -/
example : FuelOk ({} : XState).store ∧ mkOpT exL exOpsC {} "h" = .ok (sH, eH) ∧ FuelOk sH.store ∧
    mkOpT exL exOpsC sH "b" = .ok (sB, eB) :=
  ⟨fuelOk_empty, exH_op, sH_fuelOk, exB_op⟩

/-- `Application(f, x)` (`mkAppT`, both values of `fix`): a state satisfying the invariant, or an
`ApplicationError` whose cause is not an engine assertion. In particular the observation class
`E:ApplicationError:Internal(…)` does not occur in reachable states. -/
theorem C17x_mkApp_no_internal (L : Lang) (fixFlag : Bool) (s : XState) (f x : TExpr)
    (h : FuelOk s.store) : GoodX (mkAppT L fixFlag s f x) :=
  mkAppT_good L fixFlag f x h

/-- non-vacuity: `h b` succeeds; `h` applied to a constant of type `Unit` is rejected with the declared
`ApplicationError(ConstraintViolation)` -/
example : FuelOk sB.store ∧ mkAppT exL true sB eH eB = .ok (sHB, eHB) ∧ FuelOk sHB.store ∧
    mkAppT exL true sH eH (.src 0 none (.app 0 [])) = .error (.application .constraintViolation) :=
  ⟨sB_fuelOk, exHB_app, sHB_fuelOk, exH_unit_rejected⟩

/-- the annotation `previous : T` (`annotateT`): a state satisfying the invariant, or
`TypeAnnotationError`. -/
theorem C17x_annotate_no_internal (L : Lang) (s : XState) (previous : TExpr) (t : Term) (nfresh : Nat)
    (prevDash : Bool) (h : FuelOk s.store) : GoodX (annotateT L s previous t nfresh prevDash) :=
  annotateT_good L previous t nfresh prevDash h

/-- `annotateT` replaces every error of its unification by `TypeAnnotationError`; this hides no assertion:
the unification it runs (`annotateUnify`, `annotateT_eq`) never fails with an internal error. -/
theorem C17x_annotate_hides_nothing (L : Lang) (s : XState) (previous : TExpr) (t : Term) (nfresh : Nat)
    (prevDash : Bool) (h : FuelOk s.store) (site : String) :
    annotateUnify L s previous t nfresh prevDash ≠ .error (.internal site) :=
  (annotateUnify_good L previous t nfresh prevDash h).not_internal site

/-- `annotateT` is its unification with the error replaced (definitional). -/
theorem C17x_annotate_eq (L : Lang) (s : XState) (previous : TExpr) (t : Term) (nfresh : Nat) (prevDash : Bool) :
    annotateT L s previous t nfresh prevDash =
      match annotateUnify L s previous t nfresh prevDash with
      | .error _ => .error .typeAnnotation
      | .ok σ1 => .ok ({ s with store := σ1 },
          if prevDash && previous.isSource then previous.setTy t else previous) :=
  C17X.annotateT_eq L s previous t nfresh prevDash

example : FuelOk s2.store := s2_fuelOk

/-- All four together: the typed builder satisfies the hypothesis `BuilderGood` of the generalised parser
theorem with the invariant "the store satisfies `FuelOk`". -/
theorem C17x_typedBuilder_good (L : Lang) (ops : List OperatorDecl) (fixFlag : Bool) :
    BuilderGood (typedBuilder L ops fixFlag) (fun s => FuelOk s.store) :=
  typedBuilder_good L ops fixFlag

/-- `mkInputs` (the `Source()` inputs handed to `Language.parse`) keeps the invariant. -/
theorem C17x_mkInputs_keeps (n : Nat) (s : XState) (h : FuelOk s.store) : FuelOk (mkInputs n s).1.store :=
  mkInputs_keeps n h

example : FuelOk ({} : XState).store ∧ (mkInputs 2 {}).2.length = 2 := ⟨fuelOk_empty, rfl⟩

/-! ## 2. the parser over a builder with a state invariant, and `Language.parse` -/

/-- The generic parser theorem of `C17.lean` asks that the builder never fails internally in ANY state
and only speaks of `PErr.internal`. This generalisation carries an invariant `Inv` of the builder's state:
if the operations keep `Inv` and fail from `Inv`-states only with errors that are not internal (in the wide
sense), then the parser loop, started in an `Inv`-state with fuel above the number of tokens, ends in an
`Inv`-state or with an error that is not internal. The type parser called for annotations contributes only
its declared errors. -/
theorem C17x_parseExpr_no_internal {S E : Type} (P : PLang) (B : Builder S E) (Inv : S → Prop)
    (hB : BuilderGood B Inv) (inputs : List E) (defaults : Bool) (n : Nat) (s : EState S E)
    (toks : List String) (hn : n ≥ toks.length + 1) (hs : Inv s.st) :
    GoodE Inv (parseExprLoop P B inputs defaults n s toks) :=
  parseExprLoop_good P B Inv hB inputs defaults n s toks (by omega) hs

example : BuilderGood (typedBuilder exL exOpsC true) (fun s => FuelOk s.store) ∧
    (3 : Nat) ≥ ["h", "b"].length + 1 ∧ FuelOk ({} : XState).store :=
  ⟨typedBuilder_good _ _ _, by decide, fuelOk_empty⟩

/-- The type parser never returns an error that carries an engine error (from any state, both modes). -/
theorem C17x_parseType_no_engine_error (P : PLang) (consumeAll : Bool) (varBase : Nat) (s : TState)
    (toks : List String) (e : PErr) (h : parseTypeLoop P consumeAll varBase s toks = .error e) :
    isEng e = false :=
  parseTypeLoop_noEng P consumeAll varBase e toks s h

example : parseTypeToks exPC ["A", ")", ")"] = .error .bracketMismatch ∧ isEng .bracketMismatch = false :=
  ⟨by rfl, rfl⟩

/-- Parsing with the typed builder from ANY state satisfying the invariant, with ANY input expressions,
operator table, language, alias table and token list: a state satisfying the invariant or a declared error. -/
theorem C17x_parseTypedToks_no_internal (P : PLang) (L : Lang) (ops : List OperatorDecl) (fixFlag : Bool)
    (inputs : List TExpr) (s0 : XState) (toks : List String) (h0 : FuelOk s0.store) :
    GoodX (parseExprToks P (typedBuilder L ops fixFlag) inputs s0 toks) :=
  parseTypedToks_good P L ops fixFlag inputs s0 toks h0

example : FuelOk ({} : XState).store ∧
    parseExprToks c4P (typedBuilder c4L c4ops true) [] {} ["g", "(", "f", "-", ")"] = .ok (s4, eGFS) ∧
    FuelOk s4.store :=
  ⟨fuelOk_empty, ex_parse, s4_fuelOk⟩

/-- **`Language.parse(text, *inputs)` (followed by `Expr.fix()` when `doFix`)**: for every language, alias
table, operator table, number of inputs and token list, the result is a state satisfying the invariant or
a declared error. No hypothesis. -/
theorem C17x_parseTyped_good (P : PLang) (ops : List OperatorDecl) (ninputs : Nat) (toks : List String)
    (doFix : Bool) : GoodX (parseTyped P ops ninputs toks doFix) :=
  parseTyped_good P ops ninputs toks doFix

/-- The same in the explicit form: none of the three internal shapes is ever returned. -/
theorem C17x_parseTyped_no_internal (P : PLang) (ops : List OperatorDecl) (ninputs : Nat)
    (toks : List String) (doFix : Bool) (site : String) :
    parseTyped P ops ninputs toks doFix ≠ .error (.internal site) ∧
    parseTyped P ops ninputs toks doFix ≠ .error (.typing (.internal site)) ∧
    parseTyped P ops ninputs toks doFix ≠ .error (.application (.internal site)) :=
  (parseTyped_good P ops ninputs toks doFix).not_internal site

/-- …and a successful parse ends in a state satisfying the invariant (so parses can be chained with
programmatic construction, `C17x_call_no_internal`). -/
theorem C17x_parseTyped_keeps (P : PLang) (ops : List OperatorDecl) (ninputs : Nat) (toks : List String)
    (doFix : Bool) (s : XState) (e : TExpr) (h : parseTyped P ops ninputs toks doFix = .ok (s, e)) :
    FuelOk s.store :=
  (parseTyped_good P ops ninputs toks doFix).keeps h

/-- non-vacuity: `h b` with the constrained operator `h : x ** x [x ≤ A]`, parsed and fixed -/
example : parseTyped exPC exOpsC 0 ["h", "b"] true = .ok (sHB, eHBfixed) ∧ FuelOk sHB.store :=
  ⟨exHB_parseTyped, sHB_fuelOk⟩

/-! ## 3. `Expr.fix()` and programmatic calls -/

/-- `Expr.fix()` (`fixExpr`: children first, then the node, normalised at that moment) on any expression
tree and any store satisfying the invariant: a store satisfying the invariant, or an engine error that is
not an assertion. -/
theorem C17x_fixExpr_good (L : Lang) (σ : Store) (e : TExpr) (h : FuelOk σ) : GoodS (fixExpr L σ e) :=
  fixExpr_good L e h

theorem C17x_fixExpr_no_internal (L : Lang) (σ : Store) (e : TExpr) (h : FuelOk σ) (site : String) :
    fixExpr L σ e ≠ .error (.internal site) :=
  (fixExpr_good L e h).not_internal site

theorem C17x_fixExpr_keeps (L : Lang) (σ σ' : Store) (e e' : TExpr) (h : FuelOk σ)
    (hr : fixExpr L σ e = .ok (σ', e')) : FuelOk σ' :=
  (fixExpr_good L e h).keeps hr

/-- the same for the fixing pass without normalisation (`fixExprCore`) -/
theorem C17x_fixExprCore_no_internal (L : Lang) (σ : Store) (e : TExpr) (h : FuelOk σ) (site : String) :
    fixExprCore L σ e ≠ .error (.internal site) :=
  (fixExprCore_good L e h).not_internal site

/-- non-vacuity: the tree of `g(f -)` fixed in the store its parse left behind -/
example : FuelOk s4.store ∧ fixExpr c4L s4.store eGFS = .ok (s5.store, eFixed) ∧
    fixExprCore c4L s4.store eGFS = .ok (s5.store, eCore) :=
  ⟨s4_fuelOk, ex_fix, ex_fixCore⟩

/-- `Expr.__call__`, `f(x, y, …)` (`callT`: one `Application` per argument): a state satisfying the
invariant, or an `ApplicationError` whose cause is not an engine assertion. -/
theorem C17x_call_good (L : Lang) (s : XState) (f : TExpr) (xs : List TExpr) (h : FuelOk s.store) :
    GoodX (callT L s f xs) :=
  callT_good L xs f h

theorem C17x_call_no_internal (L : Lang) (s : XState) (f : TExpr) (xs : List TExpr) (h : FuelOk s.store)
    (site : String) :
    callT L s f xs ≠ .error (.internal site) ∧ callT L s f xs ≠ .error (.typing (.internal site)) ∧
    callT L s f xs ≠ .error (.application (.internal site)) :=
  (callT_good L xs f h).not_internal site

theorem C17x_call_keeps (L : Lang) (s s' : XState) (f e : TExpr) (xs : List TExpr) (h : FuelOk s.store)
    (hr : callT L s f xs = .ok (s', e)) : FuelOk s'.store :=
  (callT_good L xs f h).keeps hr

example : FuelOk sB.store ∧ callT exL sB eH [eB] = .ok (sHB, eHB) := ⟨sB_fuelOk, C04C.exHB_call⟩

/-! ## 4. termination: the parser's fuel is never the reason for a failure

`parseExprLoop` takes a fuel argument only because the type parser consumes from the same token list; every
iteration consumes at least one token. The engine's fuel (`exprFuel`, reported as `Err.outOfFuel` inside
`.typing` / `.application`, or hidden in `TypeAnnotationError` by `annotateT`) is a separate artefact of the
model and is allowed. -/

/-- No operation of the typed builder returns `PErr.internal` itself — in ANY state, also one violating the
invariant. -/
theorem C17x_typedBuilder_total (L : Lang) (ops : List OperatorDecl) (fixFlag : Bool) :
    BuilderTotal (typedBuilder L ops fixFlag) :=
  typedBuilder_total L ops fixFlag

/-- Hence, from ANY state (no invariant needed), with fuel above the number of tokens the typed parse never
reports a parser site, in particular never `"fuel"`: the parse consumes its input. -/
theorem C17x_parse_consumes (P : PLang) (L : Lang) (ops : List OperatorDecl) (fixFlag : Bool)
    (inputs : List TExpr) (defaults : Bool) (n : Nat) (s : EState XState TExpr) (toks : List String)
    (hn : n ≥ toks.length + 1) (site : String) :
    parseExprLoop P (typedBuilder L ops fixFlag) inputs defaults n s toks ≠ .error (.internal site) :=
  parseExprLoop_no_internal P _ (typedBuilder_total L ops fixFlag) inputs defaults site n s toks (by omega)

/-- Any two amounts of parser fuel above the number of tokens give the same typed parse. -/
theorem C17x_parse_fuel_irrelevant (P : PLang) (L : Lang) (ops : List OperatorDecl) (fixFlag : Bool)
    (inputs : List TExpr) (defaults : Bool) (n m : Nat) (s : EState XState TExpr) (toks : List String)
    (hn : n ≥ toks.length + 1) (hm : m ≥ toks.length + 1) :
    parseExprLoop P (typedBuilder L ops fixFlag) inputs defaults n s toks =
      parseExprLoop P (typedBuilder L ops fixFlag) inputs defaults m s toks :=
  parseExprLoop_fuel P _ inputs defaults n m s toks (by omega) (by omega)

example : (6 : Nat) ≥ ["g", "(", "f", "-", ")"].length + 1 := by decide

/-! ## 5. the invariant is needed (and unreachable states only)

`sCyc`: a builder state over the store `σcyc` of `C17Engine.lean` (two variables bound to each other).
It violates `FuelOk`; by the `_keeps` theorems no run from the empty state reaches it. There the engine's
assertions do escape through the builder, un-wrapped by `Application.__init__`'s `except TypingError`. -/

/-- `Application(x0, x1)` on the cyclic store ends in `ApplicationError:Internal(bind:…)`; so do `Expr.__call__`
and the parse of `1 2` with these two inputs. `Expr.fix()` lets `bind`'s assertion escape bare; an annotation
turns `below`'s assertion into `TypeAnnotationError`. -/
theorem C17x_needs_fuelOk :
    ¬ FuelOk sCyc.store ∧
    mkAppT exL true sCyc (.src 0 none (.var 0)) (.src 1 none (.var 1))
      = .error (.application (.internal "bind:variable cannot be unified twice")) ∧
    callT exL sCyc (.src 0 none (.var 0)) [.src 1 none (.var 1)]
      = .error (.application (.internal "bind:variable cannot be unified twice")) ∧
    parseExprToks exPC (typedBuilder exL exOpsC true) [.src 0 none (.var 0), .src 1 none (.var 1)] sCyc ["1", "2"]
      = .error (.application (.internal "bind:variable cannot be unified twice")) ∧
    fixExpr exL σcycU (.src 0 none (.var 0)) = .error (.internal "bind:variable cannot be unified twice") ∧
    annotateUnify exL sCyc (.src 0 none (.var 0)) (.app 5 []) 0 false
      = .error (.internal "below:assert not self.bound") ∧
    annotateT exL sCyc (.src 0 none (.var 0)) (.app 5 []) 0 false = .error .typeAnnotation :=
  ⟨sCyc_not_fuelOk, sCyc_mkApp, sCyc_call, sCyc_parse, σcycU_fix, sCyc_annotateUnify, sCyc_annotate⟩

end Tfv.C17
