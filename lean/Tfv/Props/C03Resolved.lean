import Tfv.Model
import Tfv.Spec.Sat
import Tfv.Spec.SatChain
import Tfv.Proofs.ResolvedConstrMain
import Tfv.Proofs.ResolvedConstrExamples
/-!
# C03, last clause: constraints whose variables were all resolved HOLD at the end of a successful run

`Tfv/Props/C03Constr.lean` proves that subtype constraints MARKED fulfilled hold under every solution. Here the marking
is not assumed: in every store the engine reaches, a subtype constraint whose reference and target both *resolve*
holds on the resolutions, whether it is marked or not; an unmarked one never has both sides resolved.

* `Res σ t τ` (`Tfv/Proofs/ResolvedConstrDefs.lean`): following bindings (the model's `followT`, at every level)
  turns the term `t` into the closed type `τ`:  `Res σ t (.app o τs) ↔ ∃ args, followT σ t = .app o args ∧ ResL σ args τs`.
* `Reach σ t u d`: `followT` stops at the variable `u`, `d` operators below the root of `t`.
* `Ready L σ` (`Tfv/Proofs/ResolvedConstrMain.lean`): the invariants of the earlier theorems (`OkStoreC`, `Chains`: the fuel of
  `followT` suffices, `NoWild`) and the ATTACHMENT invariant `Inv L σ (fun _ => False)`:
  every variable points to an allocated constraint set; an unfulfilled constraint (subtype or elimination) sits in the
  constraint set of every variable reachable from it (so binding that variable re-checks it); an unfulfilled subtype
  constraint does not have both sides resolved (the last `match3` was undecided, and `match3` is exact on resolved terms);
  a fulfilled subtype constraint holds in every later store in which both sides resolve; an unfulfilled elimination
  constraint has at least two alternatives and, once everything resolves, the reference is below all of them; a fulfilled
  elimination constraint with one alternative holds under every solution.
  During a run the invariant holds "up to a set of pending constraints": `bind` makes the constraints of the bound
  variable pending, `check_constraints` discharges them (`Tfv/Proofs/ResolvedConstrEngine*.lean`).

Two hypotheses restrict the statements (hence `_partial`):
* no wildcard variables (`NoWild`, inside `Ready`; schemas with `nwild = 0`), as in `C03c_fulfilled_sub_holds_partial`:
  the marking relies on `match3 … = some true`, which is not sound on two distinct wildcards;
* the resolutions are less than 64 operators deep: `match3` runs with fuel `4·|vars| + 64` and `directVars` with fuel
  `|vars| + 64` (artifacts of the model, Python recurses without a bound): deeper constraints are neither attached nor
  decided; `C03r_deep_constraint_unchecked` is a kernel-checked run where a violated constraint of depth 70 survives.

Statements only; proofs in `Tfv/Proofs/ResolvedConstr*.lean`, namespace `Tfv.C03R`.
-/
namespace Tfv.C03
open Tfv Tfv.C03P Tfv.C03C Tfv.C03R

/-- In a store satisfying the attachment invariant, every subtype constraint record whose reference and target resolve
(to types less than 64 operators deep) holds on the resolutions — whether or not it is marked fulfilled. -/
theorem C03r_resolved_sub_holds_store_partial (L : Lang) (σ : Store) (rd : Ready L σ) (c : Nat) (ref tgt : Term)
    (st ful : Bool) (hc : c < σ.constrs.length) (hg : getConstr σ c = .sub ref tgt st ful) (τr τt : Ty)
    (h1 : Res σ ref τr) (h2 : Res σ tgt τt) (d1 : Ty.depth τr < 64) (d2 : Ty.depth τt < 64) : Sub L τr τt :=
  ready_sub rd hc hg h1 h2 d1 d2

/-- An unfulfilled subtype constraint of such a store never has both sides resolved: it still has an unresolved
variable, and (next theorem) it sits in the constraint set of that variable. -/
theorem C03r_unfulfilled_sub_unresolved_partial (L : Lang) (σ : Store) (rd : Ready L σ) (c : Nat) (ref tgt : Term)
    (st : Bool) (hg : getConstr σ c = .sub ref tgt st false) (τr τt : Ty)
    (h1 : Res σ ref τr) (h2 : Res σ tgt τt) (d1 : Ty.depth τr < 64) (d2 : Ty.depth τt < 64) : False :=
  ready_unfulfilled rd hg h1 h2 d1 d2

/-- The attachment invariant proper: an unfulfilled subtype constraint is in the constraint set of every variable that
following bindings from its reference or target still reaches (within depth 64). -/
theorem C03r_unfulfilled_sub_attached_partial (L : Lang) (σ : Store) (rd : Ready L σ) (c : Nat) (ref tgt : Term)
    (st : Bool) (hg : getConstr σ c = .sub ref tgt st false) (u d : Nat) (hd : d < 64)
    (hr : C03R.Reach σ ref u d ∨ C03R.Reach σ tgt u d) : c ∈ getCset σ (getVar σ u).cset :=
  ready_attached rd hg hd hr

/-- The invariant holds of the empty store … -/
theorem C03r_ready_empty (L : Lang) : Ready L {} := ready_empty L

/-- … of every well-formed wildcard-free store without constraints (executable test) … -/
theorem C03r_readyB_sound (L : Lang) (σ : Store) (h : readyB L σ = true) : Ready L σ := readyB_sound h

/-- … and is kept by instantiating a schema with constraints (no wildcards), … -/
theorem C03r_ready_instantiate_partial (L : Lang) (wf : WF L) (n : Nat) (σ σ' : Store) (s : Schema) (f : Term)
    (rd : Ready L σ) (hw : s.nwild = 0)
    (hcs : ∀ c, c ∈ s.constraints → okCAstN L (s.nvars + s.nwild) c = true)
    (hbody : okTermN L (s.nvars + s.nwild) s.body = true)
    (h : instantiate L n σ s = .ok (σ', f)) : Ready L σ' ∧ okTerm L σ' f = true :=
  ready_instantiate wf rd hw hcs hbody h

/-- … by a chain of applications, … -/
theorem C03r_ready_applyAll_partial (L : Lang) (wf : WF L) (n : Nat) (fixFlag : Bool) (σ σ' : Store) (f r : Term)
    (xs : List Term) (rd : Ready L σ) (hf : okTerm L σ f = true) (hxs : okTermL L σ xs = true)
    (h : applyAll L n fixFlag σ f xs = .ok (σ', r)) : Ready L σ' :=
  ready_applyAll wf rd hf hxs h

/-- … and by a subtype unification with arbitrary `skip_basic` / `skip_wildcard`. -/
theorem C03r_ready_unify_partial (L : Lang) (wf : WF L) (n : Nat) (σ σ' : Store) (a b : Term) (sb sw : Bool)
    (rd : Ready L σ) (ha : okTerm L σ a = true) (hb : okTerm L σ b = true)
    (h : unify L n σ a b true sb sw = .ok σ') : Ready L σ' :=
  ready_unify wf rd ha hb h

/-- The property in one statement (subtype constraints): instantiate a constrained schema without wildcards in a store
satisfying the invariant (e.g. the empty store), apply the instance to arguments; if that succeeds then in the final
store every subtype constraint record — of this schema or registered earlier, marked fulfilled or not — whose reference
and target resolve (less than 64 operators deep) holds on the resolutions. PARTIAL: `NoWild` / `nwild = 0`, depth 64. -/
theorem C03r_resolved_sub_holds_partial (L : Lang) (wf : WF L) (n : Nat) (fixFlag : Bool) (σ σ1 σ' : Store)
    (s : Schema) (f r : Term) (xs : List Term) (rd : Ready L σ) (hw : s.nwild = 0)
    (hcs : ∀ c, c ∈ s.constraints → okCAstN L (s.nvars + s.nwild) c = true)
    (hbody : okTermN L (s.nvars + s.nwild) s.body = true)
    (hi : instantiate L n σ s = .ok (σ1, f)) (hxs : okTermL L σ1 xs = true)
    (ha : applyAll L n fixFlag σ1 f xs = .ok (σ', r)) :
    Ready L σ' ∧
    ∀ c ref tgt st ful, c < σ'.constrs.length → getConstr σ' c = .sub ref tgt st ful →
      ∀ τr τt, Res σ' ref τr → Res σ' tgt τt → Ty.depth τr < 64 → Ty.depth τt < 64 → Sub L τr τt :=
  resolved_sub_holds wf rd hw hcs hbody hi hxs ha

/-- non-vacuity: `(x ** y ** x)[x ≤ y]` applied to `B`, `A`: the run succeeds, the constraint record resolves to
`A ≤ A`, and the theorem gives the subtype relation -/
example : ∃ σ1 f σ' r, instantiate exL 200 {} sXY = .ok (σ1, f) ∧
    applyAll exL 200 true σ1 f [.app 6 [], .app 5 []] = .ok (σ', r) ∧
    ∃ ref tgt st ful, getConstr σ' 0 = .sub ref tgt st ful ∧ Res σ' ref (.app 5 []) ∧ Res σ' tgt (.app 5 []) ∧
      Sub exL (.app 5 []) (.app 5 []) := by
  obtain ⟨σ1, f, σ', r, hi, hxs, ha, hchk⟩ := runChk_elim run_sXY
  obtain ⟨hc, ref, tgt, st, ful, hg, h1, h2⟩ := subChk_elim hchk
  exact ⟨σ1, f, σ', r, hi, ha, ref, tgt, st, ful, hg, h1, h2,
    (C03r_resolved_sub_holds_partial exL exL_wf 200 true {} σ1 σ' sXY f r _ (ready_empty exL) rfl (by decide) (by decide)
      hi hxs ha).2 0 ref tgt st ful hc hg _ _ h1 h2 (by decide) (by decide)⟩

/-- non-vacuity: `(x ** x)[x ≤ A]` applied to `B`: the constraint record resolves to `B ≤ A`; applied to `Unit` the
constraint rejects the application -/
example : (∃ σ1 f σ' r, instantiate exL 200 {} sXA = .ok (σ1, f) ∧
    applyAll exL 200 true σ1 f [.app 6 []] = .ok (σ', r) ∧
    ∃ ref tgt st ful, getConstr σ' 0 = .sub ref tgt st ful ∧ Res σ' ref (.app 6 []) ∧ Res σ' tgt (.app 5 []) ∧
      Sub exL (.app 6 []) (.app 5 [])) ∧
    runErr exL 200 sXA [.app 0 []] = some .constraintViolation := by
  obtain ⟨σ1, f, σ', r, hi, hxs, ha, hchk⟩ := runChk_elim run_sXA
  obtain ⟨hc, ref, tgt, st, ful, hg, h1, h2⟩ := subChk_elim hchk
  exact ⟨⟨σ1, f, σ', r, hi, ha, ref, tgt, st, ful, hg, h1, h2,
    (C03r_resolved_sub_holds_partial exL exL_wf 200 true {} σ1 σ' sXA f r _ (ready_empty exL) rfl (by decide) (by decide)
      hi hxs ha).2 0 ref tgt st ful hc hg _ _ h1 h2 (by decide) (by decide)⟩, run_sXA_bad⟩

/-- non-vacuity with compound constraint terms: `(x ** y ** F(x))[F(x) ≤ F(y)]` applied to `B`, `A` -/
example : ∃ σ1 f σ' r, instantiate exL 200 {} sFF = .ok (σ1, f) ∧
    applyAll exL 200 true σ1 f [.app 6 [], .app 5 []] = .ok (σ', r) ∧
    ∃ ref tgt st ful, getConstr σ' 0 = .sub ref tgt st ful ∧ Res σ' ref (.app 7 [.app 5 []]) ∧
      Res σ' tgt (.app 7 [.app 5 []]) ∧ Sub exL (.app 7 [.app 5 []]) (.app 7 [.app 5 []]) := by
  obtain ⟨σ1, f, σ', r, hi, hxs, ha, hchk⟩ := runChk_elim run_sFF
  obtain ⟨hc, ref, tgt, st, ful, hg, h1, h2⟩ := subChk_elim hchk
  exact ⟨σ1, f, σ', r, hi, ha, ref, tgt, st, ful, hg, h1, h2,
    (C03r_resolved_sub_holds_partial exL exL_wf 200 true {} σ1 σ' sFF f r _ (ready_empty exL) rfl (by decide) (by decide)
      hi hxs ha).2 0 ref tgt st ful hc hg _ _ h1 h2 (by decide) (by decide)⟩

/-- Why the depth bound: `(x ** x)[F^70(x) ≤ F^70(A)]` applied to `Unit` SUCCEEDS in the model, and in the final store the
constraint record resolves to `F^70(Unit) ≤ F^70(A)`, which is false: `match3` (fuel `4·|vars| + 64`) never decides a
constraint that deep and `directVars` (fuel `|vars| + 64`) does not see its variable. (A finding about the MODEL's fuel:
Python's `match` recurses without such a bound.) -/
theorem C03r_deep_constraint_unchecked :
    ∃ σ1 f σ' r, instantiate exL 400 {} sDeep = .ok (σ1, f) ∧
      applyAll exL 400 true σ1 f [.app 0 []] = .ok (σ', r) ∧
      ∃ ref tgt st ful, 0 < σ'.constrs.length ∧ getConstr σ' 0 = .sub ref tgt st ful ∧
        Res σ' ref (deepTy 70 (.app 0 [])) ∧ Res σ' tgt (deepTy 70 (.app 5 [])) ∧
        ¬ Sub exL (deepTy 70 (.app 0 [])) (deepTy 70 (.app 5 [])) := by
  obtain ⟨σ1, f, σ', r, hi, _, ha, hchk⟩ := runChk_elim run_deep
  obtain ⟨hc, ref, tgt, st, ful, hg, h1, h2⟩ := subChk_elim hchk
  refine ⟨σ1, f, σ', r, hi, ha, ref, tgt, st, ful, hc, hg, h1, h2, fun hs => ?_⟩
  have := (sub_iff_Sub exL_wf deep_wf.1 deep_wf.2).mpr hs
  rw [deep_not_sub] at this
  cases this

/-! ## Elimination constraints -/

/-- In a store satisfying the invariant, an UNFULFILLED elimination constraint has at least two alternatives left, and if
its reference and all remaining alternatives resolve (less than 64 operators deep) then the resolved reference is a
subtype of EVERY resolved remaining alternative (the last `fulfill` removed every alternative `match3` refutes, and on
resolved terms `match3` is exact). PARTIAL: `NoWild`, depth 64 (as for subtype constraints). -/
theorem C03r_unfulfilled_elim_holds_partial (L : Lang) (σ : Store) (rd : Ready L σ) (c : Nat) (ref : Term)
    (alts : List Term) (hg : getConstr σ c = .elim ref alts false) :
    2 ≤ alts.length ∧ ∀ τr τs, Res σ ref τr → ResL σ alts τs → Ty.depth τr < 64 → Ty.depthL τs ≤ 64 →
      ∀ τ, τ ∈ τs → Sub L τr τ :=
  ready_elim_unfulfilled rd hg

/-- … in particular of at least one of them. -/
theorem C03r_unfulfilled_elim_exists_partial (L : Lang) (σ : Store) (rd : Ready L σ) (c : Nat) (ref : Term)
    (alts : List Term) (hg : getConstr σ c = .elim ref alts false) (τr : Ty) (τs : List Ty)
    (h1 : Res σ ref τr) (h2 : ResL σ alts τs) (d1 : Ty.depth τr < 64) (d2 : Ty.depthL τs ≤ 64) :
    ∃ τ, τ ∈ τs ∧ Sub L τr τ :=
  ready_elim_unfulfilled_exists rd hg h1 h2 d1 d2

/-- An unfulfilled elimination constraint sits in the constraint set of every variable that following bindings from its
reference or from a remaining alternative still reaches (within depth 64). -/
theorem C03r_unfulfilled_elim_attached_partial (L : Lang) (σ : Store) (rd : Ready L σ) (c : Nat) (ref : Term)
    (alts : List Term) (hg : getConstr σ c = .elim ref alts false) (t : Term) (ht : t ∈ ref :: alts) (u d : Nat)
    (hd : d < 64) (hr : C03R.Reach σ t u d) : c ∈ getCset σ (getVar σ u).cset :=
  ready_elim_attached rd hg ht hd hr

/-- non-vacuity: `(x ** x)[x << {F(A), F(Unit)}]` applied to `F(Bottom)`: both alternatives survive, the constraint stays
unfulfilled, everything resolves, and `F(Bottom)` is a subtype of both; applied to `A` the constraint rejects. -/
example : (∃ σ1 f σ' r, instantiate exL 200 {} sEl = .ok (σ1, f) ∧
    applyAll exL 200 true σ1 f [.app 7 [.app BOT []]] = .ok (σ', r) ∧
    ∃ ref alts, getConstr σ' 0 = .elim ref alts false ∧ Res σ' ref (.app 7 [.app BOT []]) ∧
      ResL σ' alts [.app 7 [.app 5 []], .app 7 [.app 0 []]] ∧
      Sub exL (.app 7 [.app BOT []]) (.app 7 [.app 5 []]) ∧ Sub exL (.app 7 [.app BOT []]) (.app 7 [.app 0 []])) ∧
    runErr exL 200 sEl [.app 5 []] = some .constraintViolation := by
  obtain ⟨σ1, f, σ', r, hi, hxs, ha, hchk⟩ := runChk_elim run_sEl_two
  obtain ⟨hc, ref, alts, hg, h1, h2⟩ := elimChk_elim hchk
  have rd' := (C03r_resolved_sub_holds_partial exL exL_wf 200 true {} σ1 σ' sEl f r _ (ready_empty exL) rfl
    (by decide) (by decide) hi hxs ha).1
  have hall := (C03r_unfulfilled_elim_holds_partial exL σ' rd' 0 ref alts hg).2 _ _ h1 h2 (by decide) (by decide)
  exact ⟨⟨σ1, f, σ', r, hi, ha, ref, alts, hg, h1, h2, hall _ (by simp), hall _ (by simp)⟩, run_sEl_bad⟩

/-- In a store satisfying the invariant whose bindings are acyclic, an elimination constraint marked FULFILLED with ONE
alternative left holds: if the reference and that alternative resolve, the resolved reference is a subtype of the resolved
alternative. (`fulfill` narrowed the constraint to the alternative and unified the reference with it in subtype mode;
the invariant records that this holds under every solution, also across the re-entrant `minimize`; `Acyclic` provides a
solution of the final store, as in `C03c_apply_chain_instantiation`.) No depth bound is needed here.
PARTIAL: `NoWild`; and fulfilled records with TWO OR MORE alternatives are not covered: they arise only when a
re-entrant `fulfill` marks the constraint while an outer `minimize` of the same constraint is running, which then writes
back the alternatives it read earlier together with the new flag (see the report: no violating run was found among
300 million generated runs, but the invariant that would prove it needs `match3 = some false` to be a sound refutation
under the solutions of the store, which it is not: a variable with a lower bound can still become `Top`). -/
theorem C03r_fulfilled_elim_single_partial (L : Lang) (wf : WF L) (σ : Store) (rd : Ready L σ) (hac : Acyclic σ)
    (c : Nat) (ref a : Term) (hc : c < σ.constrs.length) (hg : getConstr σ c = .elim ref [a] true) (τr τa : Ty)
    (h1 : Res σ ref τr) (h2 : Res σ a τa) : Sub L τr τa :=
  ready_elim_fulfilled_single wf rd hac hc hg h1 h2

/-- non-vacuity: `(x ** x)[x << {F(A), F(Unit)}]` applied to `F(B)`: narrowed to `F(A)`, marked fulfilled, the final store
is acyclic, and `F(B) ≤ F(A)` follows from the theorem -/
example : ∃ σ1 f σ' r, instantiate exL 200 {} sEl = .ok (σ1, f) ∧
    applyAll exL 200 true σ1 f [.app 7 [.app 6 []]] = .ok (σ', r) ∧ Acyclic σ' ∧
    ∃ ref a, getConstr σ' 0 = .elim ref [a] true ∧ Res σ' ref (.app 7 [.app 6 []]) ∧ Res σ' a (.app 7 [.app 5 []]) ∧
      Sub exL (.app 7 [.app 6 []]) (.app 7 [.app 5 []]) := by
  obtain ⟨σ1, f, σ', r, hi, hxs, ha, hchk⟩ := runChk_elim run_sEl_one_acyclic
  rw [Bool.and_eq_true] at hchk
  obtain ⟨hc, ref, alts, hg, h1, h2⟩ := elimChk_elim hchk.1
  have hac := acyclicB_sound hchk.2
  have rd' := (C03r_resolved_sub_holds_partial exL exL_wf 200 true {} σ1 σ' sEl f r _ (ready_empty exL) rfl
    (by decide) (by decide) hi hxs ha).1
  match alts, h2, hg with
  | [a], h2, hg =>
    rw [resL_cons] at h2
    exact ⟨σ1, f, σ', r, hi, ha, hac, ref, a, hg, h1, h2.1,
      C03r_fulfilled_elim_single_partial exL exL_wf σ' rd' hac 0 ref a hc hg _ _ h1 h2.1⟩
  | [], h2, _ => rw [resL_nil_left] at h2; cases h2
  | _ :: _ :: _, h2, _ => rw [resL_cons, resL_nil_right] at h2; cases h2.2

/-- The elimination clause for schemas whose elimination constraints have CLOSED alternatives (`x << {A, B}`, the usual
form): instantiate the schema (no wildcards) in a store satisfying the invariant, apply the instance to arguments; if the
final store is acyclic then every elimination constraint record of the schema whose reference and remaining alternatives
resolve (less than 64 operators deep) is satisfied: the resolved reference is a subtype of at least one resolved remaining
alternative — whether the record is marked fulfilled or not. (With closed alternatives `minimize` never re-enters
`fulfill`, so a fulfilled record has exactly one alternative: `C03r_closed_alternatives_single`.)
PARTIAL: `NoWild` / `nwild = 0`, depth 64, `Acyclic σ'`, closed alternatives. -/
theorem C03r_resolved_elim_closed_holds_partial (L : Lang) (wf : WF L) (n : Nat) (fixFlag : Bool) (σ σ1 σ' : Store)
    (s : Schema) (f r : Term) (xs : List Term) (rd : Ready L σ) (hw : s.nwild = 0)
    (hcs : ∀ c, c ∈ s.constraints → okCAstN L (s.nvars + s.nwild) c = true)
    (hbody : okTermN L (s.nvars + s.nwild) s.body = true)
    (hcl : ∀ c, c ∈ s.constraints → closedAltsB c = true)
    (hi : instantiate L n σ s = .ok (σ1, f)) (hxs : okTermL L σ1 xs = true)
    (ha : applyAll L n fixFlag σ1 f xs = .ok (σ', r)) (hac : Acyclic σ') :
    ∀ c ref alts ful, σ.constrs.length ≤ c → c < σ'.constrs.length → getConstr σ' c = .elim ref alts ful →
      ∀ τr τs, Res σ' ref τr → ResL σ' alts τs → Ty.depth τr < 64 → Ty.depthL τs ≤ 64 →
      ∃ τ, τ ∈ τs ∧ Sub L τr τ :=
  resolved_elim_closed_holds wf rd hw hcs hbody hcl hi hxs ha hac

/-- An elimination constraint registered with closed alternatives (index in `K`) keeps closed alternatives, and when it is
marked fulfilled exactly one alternative is left. -/
theorem C03r_closed_alternatives_single (L : Lang) (σ : Store) (K : Nat → Prop) (rd : ReadyK L σ K) (c : Nat)
    (hk : K c) (ref : Term) (alts : List Term) (ful : Bool) (hg : getConstr σ c = .elim ref alts ful) :
    Term.closedL alts = true ∧ (ful = true → alts.length = 1) :=
  readyK_closed rd hk hg

/-- non-vacuity: `(x ** x)[x << {A, F(A)}]` applied to `B`: the run succeeds, the final store is acyclic, the record
resolves to `B << {A}`, and the theorem gives `B ≤ A` -/
example : ∃ σ1 f σ' r, instantiate exL 200 {} sElAB = .ok (σ1, f) ∧
    applyAll exL 200 true σ1 f [.app 6 []] = .ok (σ', r) ∧ Acyclic σ' ∧
    ∃ ref alts, getConstr σ' 0 = .elim ref alts true ∧ Res σ' ref (.app 6 []) ∧ ResL σ' alts [.app 5 []] ∧
      ∃ τ, τ ∈ [Ty.app 5 []] ∧ Sub exL (.app 6 []) τ := by
  obtain ⟨σ1, f, σ', r, hi, hxs, ha, hchk⟩ := runChk_elim run_sElAB
  rw [Bool.and_eq_true] at hchk
  obtain ⟨hc, ref, alts, hg, h1, h2⟩ := elimChk_elim hchk.1
  have hac := acyclicB_sound hchk.2
  exact ⟨σ1, f, σ', r, hi, ha, hac, ref, alts, hg, h1, h2,
    C03r_resolved_elim_closed_holds_partial exL exL_wf 200 true {} σ1 σ' sElAB f r _ (ready_empty exL) rfl
      (by decide) (by decide) (by decide) hi hxs ha hac 0 ref alts true (Nat.zero_le _) hc hg _ _ h1 h2
      (by decide) (by decide)⟩

/-- Over a chain of applications an elimination constraint keeps its kind, its fulfilled flag is only raised, its
reference follows to what the old reference follows to, and every REMAINING alternative follows (now and in every later
store) to what some alternative of the record before the run follows to: remaining alternatives are instances of the
alternatives the constraint had (so, if they resolve, they resolve to what that alternative resolves to). Holds also
across the re-entrant `minimize` that writes back alternatives it read earlier. -/
theorem C03r_elim_alternatives_derive_partial (L : Lang) (wf : WF L) (n : Nat) (fixFlag : Bool) (σ σ' : Store)
    (f r : Term) (xs : List Term) (rd : Ready L σ) (hf : okTerm L σ f = true) (hxs : okTermL L σ xs = true)
    (h : applyAll L n fixFlag σ f xs = .ok (σ', r)) (c : Nat) (ref : Term) (alts : List Term) (ful : Bool)
    (hc : c < σ.constrs.length) (hg : getConstr σ c = .elim ref alts ful) :
    ∃ ref' alts' ful', getConstr σ' c = .elim ref' alts' ful' ∧ (ful = true → ful' = true) ∧ Same σ' ref' ref ∧
      ∀ a', a' ∈ alts' → ∃ a, a ∈ alts ∧ Same σ' a' a :=
  applyAll_der wf rd hf hxs h hc hg

/-- non-vacuity: `(x ** x)[x << {F(A), F(Unit)}]`: after `instantiate` the record has two alternatives and is unfulfilled;
after applying to `F(B)` the theorem relates the final record (one alternative, fulfilled) to it -/
example : ∃ σ1 f σ' r, instantiate exL 200 {} sEl = .ok (σ1, f) ∧
    applyAll exL 200 true σ1 f [.app 7 [.app 6 []]] = .ok (σ', r) ∧
    ∃ ref alts ful ref' alts' ful', getConstr σ1 0 = .elim ref alts ful ∧ getConstr σ' 0 = .elim ref' alts' ful' ∧
      (ful = true → ful' = true) ∧ Same σ' ref' ref ∧ ∀ a', a' ∈ alts' → ∃ a, a ∈ alts ∧ Same σ' a' a := by
  obtain ⟨σ1, f, σ', r, hi, h1, hxs, ha, _⟩ := runChk2_elim run_sEl_der
  rw [Bool.and_eq_true] at h1
  have hc : 0 < σ1.constrs.length := by simpa using h1.1
  obtain ⟨rd1, hf⟩ := C03r_ready_instantiate_partial exL exL_wf 200 {} σ1 sEl f (ready_empty exL) rfl
    (by decide) (by decide) hi
  cases hg : getConstr σ1 0 with
  | sub _ _ _ _ => rw [hg] at h1; cases h1.2
  | elim ref alts ful =>
    obtain ⟨ref', alts', ful', e, k1, k2, k3⟩ :=
      C03r_elim_alternatives_derive_partial exL exL_wf 200 true σ1 σ' f r _ rd1 hf hxs ha 0 ref alts ful hc hg
    exact ⟨σ1, f, σ', r, hi, ha, ref, alts, ful, ref', alts', ful', hg, e, k1, k2, k3⟩

/-- … and registering an elimination constraint (`Constraint.__init__`: normalise, inform the variables, first `fulfill`)
leaves a record whose reference and alternatives derive from the given ones. -/
theorem C03r_elim_registration_derives_partial (L : Lang) (wf : WF L) (n : Nat) (σ σ' : Store) (ref : Term)
    (alts : List Term) (rd : Ready L σ) (hc : okTermL L σ (ref :: alts) = true)
    (h : addConstraint L n σ (.elim ref alts false) = .ok σ') :
    Ready L σ' ∧ ∃ ref' alts' ful', getConstr σ' σ.constrs.length = .elim ref' alts' ful' ∧ Same σ' ref' ref ∧
      ∀ a', a' ∈ alts' → ∃ a, a ∈ alts ∧ Same σ' a' a :=
  addConstraint_der wf rd hc h

/-- `Same σ a b` (the two terms follow to the same term in `σ` and in every later store): if one resolves, the other
resolves to the same type. -/
theorem C03r_same_resolves (σ : Store) (a b : Term) (τ : Ty) (h : Same σ a b) (hc : C17E.Chains σ)
    (hr : Res σ a τ) : Res σ b τ :=
  Same.res h hc hr

/-- non-vacuity: `(x ** x)[x << {F(A), F(Unit)}]` applied to `F(B)`: narrowed to the alternative `F(A)`, marked fulfilled -/
example : ∃ σ1 f σ' r, instantiate exL 200 {} sEl = .ok (σ1, f) ∧
    applyAll exL 200 true σ1 f [.app 7 [.app 6 []]] = .ok (σ', r) ∧
    ∃ ref alts, getConstr σ' 0 = .elim ref alts true ∧ Res σ' ref (.app 7 [.app 6 []]) ∧
      ResL σ' alts [.app 7 [.app 5 []]] := by
  obtain ⟨σ1, f, σ', r, hi, _, ha, hchk⟩ := runChk_elim run_sEl_one
  obtain ⟨_, ref, alts, hg, h1, h2⟩ := elimChk_elim hchk
  exact ⟨σ1, f, σ', r, hi, ha, ref, alts, hg, h1, h2⟩

/-- `match3` on two resolved terms answers exactly what `matchC` says about the resolutions, whatever the wildcard
flags are (so on closed terms it decides `Sub`): the reason `chk` can be stated without `NoWild`. -/
theorem C03r_match3_resolved_exact (L : Lang) (σ : Store) (n : Nat) (st aw : Bool) (a b : Term) (τa τb : Ty)
    (ha : Res σ a τa) (hb : Res σ b τb) (da : Ty.depth τa < n) (db : Ty.depth τb < n) :
    match3 L σ n st aw a b = some (matchC L st true τa τb) :=
  match3_res L σ n st aw a b τa τb ha hb da db

example : Res σC2 (.var 0) (.app 6 []) ∧ Res σC2 (.app 5 []) (.app 5 []) ∧
    match3 exL σC2 3 true false (.var 0) (.app 5 []) = some (matchC exL true true (.app 6 []) (.app 5 [])) :=
  ⟨resB_sound _ _ (by decide), resB_sound _ _ (by decide),
   C03r_match3_resolved_exact exL σC2 3 true false _ _ _ _ (resB_sound _ _ (by decide)) (resB_sound _ _ (by decide))
     (by decide) (by decide)⟩

end Tfv.C03
