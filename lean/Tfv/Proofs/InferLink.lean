import Tfv.Model
import Tfv.Proofs.InferExamples
/-!
# Link between the inference engine and the concrete model (C03, phase 3)

On variable-free terms and with enough fuel, `unify … subtype=True`, `fix` and
`applyT` of the inference engine compute exactly what `unifyC` / `applyC` of the
concrete model (`Tfv/Model/Apply.lean`, property C02) compute, and leave the
store untouched.
-/
namespace Tfv.C03P

mutual
/-- fuel that `unify`/`fix` need to traverse a concrete type -/
def Ty.need : Ty → Nat
  | .app _ as => 1 + Ty.needL as
def Ty.needL : List Ty → Nat
  | [] => 1
  | t :: ts => 1 + max (Ty.need t) (Ty.needL ts)
end

def errOf : CErr → Err
  | .typeMismatch => .typeMismatch
  | .subtypeMismatch => .subtypeMismatch
  | .functionApplication => .functionApplication

def liftC (σ : Store) : Except CErr Unit → R
  | .ok () => .ok σ
  | .error e => .error (errOf e)

theorem toTerm_app (o : Nat) (args : List Ty) : (Ty.app o args).toTerm = .app o (Ty.toTermL args) := by
  rw [Ty.toTerm]
theorem toTermL_nil : Ty.toTermL [] = [] := by rw [Ty.toTermL]
theorem toTermL_cons (t : Ty) (ts : List Ty) : Ty.toTermL (t :: ts) = t.toTerm :: Ty.toTermL ts := by
  rw [Ty.toTermL]

theorem needL_pos (ts : List Ty) : 1 ≤ Ty.needL ts := by
  cases ts <;> rw [Ty.needL] <;> omega

theorem unifyList_stop_vs (L : Lang) (n : Nat) (σ : Store) (xs ys : List Term) (st sb sw : Bool) :
    unifyList L (n+1) σ [] xs ys st sb sw = .ok σ := by
  rw [unifyList]
  intro _ _ _ _ _ _ h; cases h

theorem unifyList_stop_xs (L : Lang) (n : Nat) (σ : Store) (vs : List Bool) (ys : List Term) (st sb sw : Bool) :
    unifyList L (n+1) σ vs [] ys st sb sw = .ok σ := by
  rw [unifyList]
  intro _ _ _ _ _ _ _ h; cases h

theorem unifyList_stop_ys (L : Lang) (n : Nat) (σ : Store) (vs : List Bool) (xs : List Term) (st sb sw : Bool) :
    unifyList L (n+1) σ vs xs [] st sb sw = .ok σ := by
  rw [unifyList]
  intro _ _ _ _ _ _ _ _ h; cases h

/-! ## 1. `unify` on variable-free terms is `unifyC` -/

def seqC (c1 c2 : Except CErr Unit) : Except CErr Unit :=
  match c1 with
  | .ok () => c2
  | .error e => .error e

theorem unifyList_cons_link {L : Lang} {σ : Store} {m : Nat} {x y : Term} {vs : List Bool} {xs ys : List Term}
    {c1 c2 : Except CErr Unit}
    (h1 : unify L m σ x y true false false = liftC σ c1)
    (h2 : unifyList L m σ vs xs ys true false false = liftC σ c2) :
    (match unify L m σ x y true false false with
      | .error e => .error e
      | .ok σ1 => unifyList L m σ1 vs xs ys true false false) =
    liftC σ (seqC c1 c2) := by
  rw [h1]
  cases c1 with
  | error e => rfl
  | ok u => cases u; exact h2

mutual
theorem unify_link (L : Lang) (σ : Store) : ∀ (s t : Ty) (pol : Bool) (n : Nat), Ty.need s ≤ n →
    unify L n σ (if pol then s else t).toTerm (if pol then t else s).toTerm true false false =
      liftC σ (unifyC L pol s t)
  | .app a as, .app b bs, pol, n, hn => by
    rw [Ty.need] at hn
    have hpos := needL_pos as
    obtain ⟨m, rfl⟩ : ∃ m, n = m + 1 := ⟨n - 1, by omega⟩
    have IH := fun vs => unifyList_link L σ as bs vs pol m (by omega)
    unfold unifyC
    cases pol with
    | true =>
      simp only [if_true] at IH ⊢
      rw [toTerm_app, toTerm_app, unify_app_app]
      split
      · rfl
      · split
        · cases opSub L a b <;> rfl
        · split
          · exact IH _
          · rfl
    | false =>
      simp only [Bool.false_eq_true, if_false] at IH ⊢
      rw [toTerm_app, toTerm_app, unify_app_app]
      split
      · rfl
      · split
        · cases opSub L b a <;> rfl
        · split
          · exact IH _
          · rfl
theorem unifyList_link (L : Lang) (σ : Store) : ∀ (ss ts : List Ty) (vs : List Bool) (pol : Bool) (n : Nat),
    Ty.needL ss ≤ n →
    unifyList L n σ vs (Ty.toTermL (if pol then ss else ts)) (Ty.toTermL (if pol then ts else ss))
      true false false = liftC σ (unifyCs L pol vs ss ts)
  | [], ts, vs, pol, n, hn => by
    rw [Ty.needL] at hn
    obtain ⟨m, rfl⟩ : ∃ m, n = m + 1 := ⟨n - 1, by omega⟩
    have e : unifyCs L pol vs [] ts = .ok () := by
      cases vs <;> rw [unifyCs] <;> intro _ _ _ _ _ _ _ h <;> cases h
    rw [e]
    cases pol with
    | true => simp only [if_true]; rw [toTermL_nil, unifyList_stop_xs]; rfl
    | false => simp only [Bool.false_eq_true, if_false]; rw [toTermL_nil, unifyList_stop_ys]; rfl
  | s :: ss, [], vs, pol, n, hn => by
    rw [Ty.needL] at hn
    obtain ⟨m, rfl⟩ : ∃ m, n = m + 1 := ⟨n - 1, by omega⟩
    have e : unifyCs L pol vs (s :: ss) [] = .ok () := by
      cases vs <;> rw [unifyCs] <;> intro _ _ _ _ _ _ _ _ h <;> cases h
    rw [e]
    cases pol with
    | true => simp only [if_true]; rw [toTermL_nil, unifyList_stop_ys]; rfl
    | false => simp only [Bool.false_eq_true, if_false]; rw [toTermL_nil, unifyList_stop_xs]; rfl
  | s :: ss, t :: ts, [], pol, n, hn => by
    rw [Ty.needL] at hn
    obtain ⟨m, rfl⟩ : ∃ m, n = m + 1 := ⟨n - 1, by omega⟩
    have e : unifyCs L pol [] (s :: ss) (t :: ts) = .ok () := by
      rw [unifyCs]; intro _ _ _ _ _ _ h; cases h
    rw [e, unifyList_stop_vs]; rfl
  | s :: ss, t :: ts, v :: vs, pol, n, hn => by
    rw [Ty.needL] at hn
    obtain ⟨m, rfl⟩ : ∃ m, n = m + 1 := ⟨n - 1, by omega⟩
    have IH1 := unify_link L σ s t (pol == v) m (by omega)
    have IH2 := unifyList_link L σ ss ts vs pol m (by omega)
    rw [unifyCs]
    have e1 : (false == true) = false := rfl
    have e2 : (true == false) = false := rfl
    have e3 : (true == true) = true := rfl
    have e4 : (false == false) = true := rfl
    cases pol <;> cases v <;>
      simp only [e1, e2, e3, e4, Bool.false_eq_true, if_false, if_true] at IH1 IH2 ⊢ <;>
      rw [toTermL_cons, toTermL_cons, unifyList_cons] <;>
      simp only [Bool.false_eq_true, if_false, if_true] <;>
      exact unifyList_cons_link IH1 IH2
end

/-! ## 2. `fix` leaves variable-free terms alone -/

mutual
theorem fix_link (L : Lang) (σ : Store) : ∀ (t : Ty) (pl : Bool) (n : Nat), Ty.need t ≤ n →
    fix L n σ t.toTerm pl = .ok (σ, t.toTerm)
  | .app o as, pl, n, hn => by
    rw [Ty.need] at hn
    have hpos := needL_pos as
    obtain ⟨m, rfl⟩ : ∃ m, n = m + 1 := ⟨n - 1, by omega⟩
    rw [toTerm_app, fix, followT_app]
    simp only []
    rw [fixList_link L σ as (varianceOf L o) pl m (by omega)]
theorem fixList_link (L : Lang) (σ : Store) : ∀ (ts : List Ty) (vs : List Bool) (pl : Bool) (n : Nat),
    Ty.needL ts ≤ n → fixList L n σ vs (Ty.toTermL ts) pl = .ok σ
  | [], vs, pl, n, hn => by
    rw [Ty.needL] at hn
    obtain ⟨m, rfl⟩ : ∃ m, n = m + 1 := ⟨n - 1, by omega⟩
    rw [toTermL_nil, fixList_nil_right]
  | t :: ts, [], pl, n, hn => by
    rw [Ty.needL] at hn
    obtain ⟨m, rfl⟩ : ∃ m, n = m + 1 := ⟨n - 1, by omega⟩
    rw [fixList_nil_left]
  | t :: ts, v :: vs, pl, n, hn => by
    rw [Ty.needL] at hn
    obtain ⟨m, rfl⟩ : ∃ m, n = m + 1 := ⟨n - 1, by omega⟩
    rw [toTermL_cons, fixList_cons, fix_link L σ t _ m (by omega)]
    simp only []
    exact fixList_link L σ ts vs pl m (by omega)
end

/-! ## 3. `applyT` on variable-free terms is `applyC` -/

/-- the result of the concrete model, as a result of the engine on the unchanged store -/
def liftA (σ : Store) : Except CErr Ty → Except Err (Store × Term)
  | .ok b => .ok (σ, b.toTerm)
  | .error e => .error (errOf e)

theorem toTermL_pair {args : List Ty} {l r : Term} (h : Ty.toTermL args = [l, r]) : ∃ a b, args = [a, b] := by
  match args with
  | [] => rw [toTermL_nil] at h; cases h
  | [a] => rw [toTermL_cons, toTermL_nil] at h; cases h
  | [a, b] => exact ⟨a, b, rfl⟩
  | a :: b :: c :: rest =>
    rw [toTermL_cons, toTermL_cons, toTermL_cons] at h
    injection h with _ h
    injection h with _ h
    cases h

theorem applyT_nonfun (L : Lang) (n : Nat) (σ : Store) (o : Nat) (args : List Term) (x : Term) (fixFlag : Bool)
    (h : ∀ l r, args ≠ [l, r]) :
    applyT L n σ (.app o args) x fixFlag =
      if o == TOP then .ok (σ, .app TOP []) else .error .functionApplication := by
  rw [applyT_eq, followT_app]
  simp only [applyPre]
  unfold applyPost
  split
  · next o' l r heq =>
    injection heq with _ h2
    exact absurd h2 (h l r)
  · next o' args' _ heq =>
    injection heq with h1 _
    subst h1; rfl
  · next heq => cases heq

theorem liftA_top (σ : Store) : liftA σ (.ok (.app TOP [])) = .ok (σ, .app TOP []) := by
  simp only [liftA, toTerm_app, toTermL_nil]

theorem applyC_nonfun (L : Lang) (o : Nat) (args : List Ty) (x : Ty) (h : ∀ a b, args = [a, b] → o ≠ FUN) :
    applyC L (.app o args) x = if o == TOP then .ok (.app TOP []) else .error .functionApplication := by
  unfold applyC
  split
  · next o' a b heq =>
    injection heq with h1 h2
    subst h1
    have := h a b h2
    simp [this]
  · next o' args' _ heq =>
    injection heq with h1 _
    subst h1; rfl

theorem concrete_link (L : Lang) (σ : Store) (f x : Ty) (n : Nat) (fixFlag : Bool)
    (hx : Ty.need x ≤ n) (hf : Ty.need f ≤ n) :
    applyT L n σ f.toTerm x.toTerm fixFlag = liftA σ (applyC L f x) := by
  cases f with
  | app o args =>
    rw [toTerm_app]
    by_cases hfun : ∃ a b, args = [a, b] ∧ o = FUN
    · obtain ⟨a, b, rfl, rfl⟩ := hfun
      rw [toTermL_cons, toTermL_cons, toTermL_nil]
      have hb : Ty.need b ≤ n := by
        rw [Ty.need, Ty.needL, Ty.needL, Ty.needL] at hf
        omega
      have hu := unify_link L σ x a true n hx
      simp only [if_true] at hu
      have hxt : followT σ x.toTerm = x.toTerm := by
        cases x with
        | app xo xargs => rw [toTerm_app, followT_app]
      rw [applyT_fun, hxt, hu, applyC_fun]
      cases unifyC L true x a with
      | error e => rfl
      | ok u =>
        cases u
        simp only [liftC, liftA]
        split
        · exact fix_link L σ b true n hb
        · rfl
    · have hC := applyC_nonfun L o args x (fun a b e1 e2 => hfun ⟨a, b, e1, e2⟩)
      rw [hC]
      by_cases hshape : ∃ a b, args = [a, b]
      · obtain ⟨a, b, rfl⟩ := hshape
        have ho : o ≠ FUN := fun e => hfun ⟨a, b, rfl, e⟩
        rw [toTermL_cons, toTermL_cons, toTermL_nil, applyT_eq, followT_app]
        simp only [applyPre]
        unfold applyPost
        simp only [beq_iff_eq, ho, if_false]
        split
        · exact (liftA_top σ).symm
        · rfl
      · rw [applyT_nonfun L n σ o _ _ _ (fun l r h => hshape (toTermL_pair h))]
        split
        · exact (liftA_top σ).symm
        · rfl

theorem concrete_link_iff (L : Lang) (σ : Store) (f x : Ty) (n : Nat) (fixFlag : Bool)
    (hx : Ty.need x ≤ n) (hf : Ty.need f ≤ n) :
    (∃ σ' r, applyT L n σ f.toTerm x.toTerm fixFlag = .ok (σ', r)) ↔ (∃ b, applyC L f x = .ok b) := by
  rw [concrete_link L σ f x n fixFlag hx hf]
  cases applyC L f x with
  | error e =>
    constructor
    · rintro ⟨σ', r, h⟩; cases h
    · rintro ⟨b, h⟩; cases h
  | ok b =>
    constructor
    · intro _; exact ⟨b, rfl⟩
    · intro _; exact ⟨σ, b.toTerm, rfl⟩

mutual
theorem need_le_size : ∀ (t : Ty), Ty.need t ≤ 2 * Ty.size t
  | .app o as => by
    rw [Ty.need, Ty.size]
    have := needL_le_size as
    omega
theorem needL_le_size : ∀ (ts : List Ty), Ty.needL ts ≤ 1 + 2 * Ty.sizeL ts
  | [] => by rw [Ty.needL, Ty.sizeL]; omega
  | t :: ts => by
    rw [Ty.needL, Ty.sizeL]
    have h1 := need_le_size t
    have h2 := needL_le_size ts
    have h3 : 1 ≤ Ty.size t := by cases t; rw [Ty.size]; omega
    omega
end

end Tfv.C03P
