import Tfv.Model.Vocab
import Tfv.Spec.Taxonomy
import Tfv.Proofs.GraphMemo
import Tfv.Proofs.GraphCanonNode
/-!
# The vocabulary: what a triple of the taxonomy can be, and the state invariant of `add_taxonomy`

* `g.L x` : the node registered for the type term `x` (`type_nodes[x]`);
* `TyDesc G c m x n tr` : `tr` is one of the triples `add_type` writes for `x` at node `n` (`m` gives the nodes of the parameters);
* `GLink G up t s` : `s` is reported by `Language.successors(up, t, transitive=False)`;
* `LinkTr G tr` : `tr` is `(uri t, rdfs:subClassOf, uri u)` for a canonical `t` and a reported direct supertype `u`, or
  `(uri s, rdfs:subClassOf, uri t)` for a canonical `t` and a reported direct subtype `s`;
* `PReach G c x y` : `y` is reached from `x` through parameters the way `add_type` descends (operators of arity `> 0`,
  `with_type_parameters`); `FromCanon G c x` : reached from some canonical type;
* `NodeOk G c x n` : `n` is the URI of `x`, or `x` has no URI (not canonical), `with_noncanonical_types` is on and `n` is blank;
* `VInv G c g` : the invariant of the state between two calls of `add_type`.
-/
namespace Tfv.Voc
open Tfv Tfv.Tax

/-- `type_nodes[x]` -/
def _root_.Tfv.GState.L (g : GState) (x : Term) : Option Node := lookupType g.typeNodes x

abbrev paramPred (i : Nat) : Node := .rdf ("_" ++ toString i)

/-- the triples `add_type` writes for `x` at node `n` -/
inductive TyDesc (G : GLang) (c : GCfg) (m : Term → Option Node) (x : Term) (n : Node) : Triple → Prop
  | cls : c.withClasses = true → TyDesc G c m x n (n, .rdf "type", .tf "Type")
  | op {o : Nat} {args : List Term} : x = .app o args → arityOf G.types o > 0 → c.withTypeParameters = true →
      TyDesc G c m x n (n, subClassOf, opUri G o)
  | param {o : Nat} {args : List Term} {i : Nat} {p : Term} {pn : Node} : x = .app o args → arityOf G.types o > 0 →
      c.withTypeParameters = true → args[i]? = some p → m p = some pn → TyDesc G c m x n (n, paramPred (i + 1), pn)

/-- `tr` describes a registered type -/
def Described (G : GLang) (c : GCfg) (g : GState) (tr : Triple) : Prop :=
  ∃ x n, g.L x = some n ∧ TyDesc G c g.L x n tr

/-- `s` is reported by `Language.successors(up, t, transitive=False)` -/
abbrev GLink (G : GLang) (up : Bool) (t s : Ty) : Prop := Link G.types G.cfg G.canon (G.canon.length + 2) up t s

/-- the link triples of `add_subtypes` / `add_supertypes` -/
inductive LinkTr (G : GLang) : Triple → Prop
  | up {t u : Ty} {a b : Node} : t ∈ G.canon → GLink G true t u → typeUri G t.toTerm = .ok a →
      typeUri G u.toTerm = .ok b → LinkTr G (a, subClassOf, b)
  | down {t s : Ty} {a b : Node} : t ∈ G.canon → GLink G false t s → typeUri G t.toTerm = .ok a →
      typeUri G s.toTerm = .ok b → LinkTr G (b, subClassOf, a)

/-- the descent of `add_type` into parameters -/
inductive PReach (G : GLang) (c : GCfg) : Term → Term → Prop
  | refl (x : Term) : PReach G c x x
  | param {x : Term} {o : Nat} {args : List Term} {p : Term} : PReach G c x (.app o args) → arityOf G.types o > 0 →
      c.withTypeParameters = true → p ∈ args → PReach G c x p

def FromCanon (G : GLang) (c : GCfg) (x : Term) : Prop := ∃ t, t ∈ G.canon ∧ PReach G c t.toTerm x

def NodeOk (G : GLang) (c : GCfg) (x : Term) (n : Node) : Prop :=
  typeUri G x = .ok n ∨ (typeUri G x = .error .nonCanonical ∧ c.withNoncanonicalTypes = true ∧ ∃ k, n = .b k)

structure VInv (G : GLang) (c : GCfg) (g : GState) : Prop where
  node : ∀ x n, g.L x = some n → NodeOk G c x n ∧ FromCanon G c x
  complete : ∀ x n, g.L x = some n → ∀ tr, TyDesc G c g.L x n tr → tr ∈ g.triples
  params : ∀ x n, g.L x = some n → ∀ o args, x = .app o args → arityOf G.types o > 0 → c.withTypeParameters = true →
    ∀ p ∈ args, ∃ pn, g.L p = some pn
  sup : ∀ t, t ∈ g.supertyped → ∀ u a b, GLink G true t u → typeUri G t.toTerm = .ok a → typeUri G u.toTerm = .ok b →
    (a, subClassOf, b) ∈ g.triples

/-- `g'` extends `g`: registered types stay, unregistered types of size `≥ bound` stay unregistered, triples stay -/
structure Ext (g g' : GState) (bound : Nat) : Prop where
  look : ∀ x n, g.L x = some n → g'.L x = some n
  none : ∀ x, g.L x = none → bound ≤ sizeOf x → g'.L x = none
  triples : ∀ tr, tr ∈ g.triples → tr ∈ g'.triples

/-- every triple of `g'` is old, describes a registered type, is a link triple, or is one of `Extra` -/
def NewOk (G : GLang) (c : GCfg) (g g' : GState) (Extra : Triple → Prop) : Prop :=
  ∀ tr, tr ∈ g'.triples → tr ∈ g.triples ∨ Described G c g' tr ∨ LinkTr G tr ∨ Extra tr

/-! ## basic facts -/

theorem FromCanon.param {G : GLang} {c : GCfg} {o : Nat} {args : List Term} {p : Term}
    (h : FromCanon G c (.app o args)) (ha : arityOf G.types o > 0) (htp : c.withTypeParameters = true) (hp : p ∈ args) :
    FromCanon G c p := by
  obtain ⟨t, ht, hr⟩ := h
  exact ⟨t, ht, .param hr ha htp hp⟩

theorem TyDesc.mono {G : GLang} {c : GCfg} {m m' : Term → Option Node} (h : ∀ x n, m x = some n → m' x = some n)
    {x : Term} {n : Node} {tr : Triple} (hd : TyDesc G c m x n tr) : TyDesc G c m' x n tr := by
  cases hd with
  | cls hc => exact .cls hc
  | op hx ha htp => exact .op hx ha htp
  | param hx ha htp hi hp => exact .param hx ha htp hi (h _ _ hp)

/-- if the parameters of `x` are registered in `m` and `m'` extends `m`, `m'` describes `x` as `m` does -/
theorem TyDesc.anti {G : GLang} {c : GCfg} {m m' : Term → Option Node} (h : ∀ x n, m x = some n → m' x = some n)
    {x : Term} {n : Node} {tr : Triple}
    (hp : ∀ o args, x = .app o args → arityOf G.types o > 0 → c.withTypeParameters = true → ∀ p ∈ args, ∃ pn, m p = some pn)
    (hd : TyDesc G c m' x n tr) : TyDesc G c m x n tr := by
  cases hd with
  | cls hc => exact .cls hc
  | op hx ha htp => exact .op hx ha htp
  | @param o args i p pn hx ha htp hi hpn =>
    obtain ⟨pn0, h0⟩ := hp o args hx ha htp p (List.mem_of_getElem? hi)
    have := h _ _ h0
    rw [hpn] at this
    cases this
    exact .param hx ha htp hi h0

theorem Described.mono {G : GLang} {c : GCfg} {g g' : GState} (h : ∀ x n, g.L x = some n → g'.L x = some n)
    {tr : Triple} (hd : Described G c g tr) : Described G c g' tr := by
  obtain ⟨x, n, hl, ht⟩ := hd
  exact ⟨x, n, h _ _ hl, ht.mono h⟩

theorem Ext.refl (g : GState) (b : Nat) : Ext g g b := ⟨fun _ _ h => h, fun _ h _ => h, fun _ h => h⟩

theorem Ext.trans {g1 g2 g3 : GState} {b : Nat} (h1 : Ext g1 g2 b) (h2 : Ext g2 g3 b) : Ext g1 g3 b :=
  ⟨fun x n h => h2.look x n (h1.look x n h), fun x h hb => h2.none x (h1.none x h hb) hb,
    fun tr h => h2.triples tr (h1.triples tr h)⟩

theorem Ext.weaken {g g' : GState} {b b' : Nat} (h : Ext g g' b) (hb : b ≤ b') : Ext g g' b' :=
  ⟨h.look, fun x hx hs => h.none x hx (Nat.le_trans hb hs), h.triples⟩

/-- a change that keeps `typeNodes` and only adds triples -/
theorem Ext.of_triples {g g' : GState} (b : Nat) (h1 : g'.typeNodes = g.typeNodes)
    (h2 : ∀ tr, tr ∈ g.triples → tr ∈ g'.triples) : Ext g g' b := by
  refine ⟨?_, ?_, h2⟩
  · intro x n h; unfold GState.L at h ⊢; rw [h1]; exact h
  · intro x h _; unfold GState.L at h ⊢; rw [h1]; exact h

theorem L_congr {g g' : GState} (h : g'.typeNodes = g.typeNodes) : g'.L = g.L := by
  funext x; unfold GState.L; rw [h]

theorem L_add (g : GState) (t : Triple) : (g.add t).L = g.L := L_congr (add_typeNodes g t)

theorem Ext.add (g : GState) (t : Triple) (b : Nat) : Ext g (g.add t) b :=
  Ext.of_triples b (add_typeNodes g t) (fun _ h => mem_add.2 (.inl h))

/-- the invariant only reads `typeNodes`, `triples`, `supertyped` -/
theorem VInv.congr {G : GLang} {c : GCfg} {g g' : GState} (h1 : g'.typeNodes = g.typeNodes)
    (h2 : g'.triples = g.triples) (h3 : g'.supertyped = g.supertyped) (h : VInv G c g) : VInv G c g' := by
  have hL := L_congr h1
  refine ⟨?_, ?_, ?_, ?_⟩
  · intro x n hl; rw [hL] at hl; exact h.node x n hl
  · intro x n hl tr hd; rw [hL] at hl hd; rw [h2]; exact h.complete x n hl tr hd
  · intro x n hl; rw [hL] at hl ⊢; exact h.params x n hl
  · intro t ht; rw [h3] at ht; rw [h2]; exact h.sup t ht

/-- adding triples (same `typeNodes`, same `supertyped`) keeps the invariant -/
theorem VInv.more {G : GLang} {c : GCfg} {g g' : GState} (h1 : g'.typeNodes = g.typeNodes)
    (h2 : ∀ tr, tr ∈ g.triples → tr ∈ g'.triples) (h3 : g'.supertyped = g.supertyped) (h : VInv G c g) : VInv G c g' := by
  have hL := L_congr h1
  refine ⟨?_, ?_, ?_, ?_⟩
  · intro x n hl; rw [hL] at hl; exact h.node x n hl
  · intro x n hl tr hd; rw [hL] at hl hd; exact h2 _ (h.complete x n hl tr hd)
  · intro x n hl; rw [hL] at hl ⊢; exact h.params x n hl
  · intro t ht u a b hu ha hb; rw [h3] at ht; exact h2 _ (h.sup t ht u a b hu ha hb)

theorem VInv.add {G : GLang} {c : GCfg} {g : GState} (h : VInv G c g) (t : Triple) : VInv G c (g.add t) :=
  h.more (add_typeNodes g t) (fun _ hm => mem_add.2 (.inl hm)) (add_supertyped g t)

/-! ## registering a type -/

theorem L_push_some {g : GState} {x y : Term} {n m : Node} (h : g.L y = some m) :
    ({ g with typeNodes := g.typeNodes ++ [(x, n)] } : GState).L y = some m :=
  lookupType_append_some h

theorem L_push_self {g : GState} {x : Term} {n : Node} (h : g.L x = none) :
    ({ g with typeNodes := g.typeNodes ++ [(x, n)] } : GState).L x = some n := by
  show lookupType (g.typeNodes ++ [(x, n)]) x = some n
  rw [lookupType_append_none h, lookupType_singleton]

theorem L_push_ne {g : GState} {x y : Term} {n : Node} (h : g.L y = none) (hne : y ≠ x) :
    ({ g with typeNodes := g.typeNodes ++ [(x, n)] } : GState).L y = none := by
  show lookupType (g.typeNodes ++ [(x, n)]) y = none
  rw [lookupType_append_none h]
  apply lookupType_none_of_forall
  intro z hz he
  rw [List.mem_singleton.1 hz] at he
  exact hne he.symm

theorem L_push_inv {g : GState} {x y : Term} {n m : Node} (hx : g.L x = none)
    (h : ({ g with typeNodes := g.typeNodes ++ [(x, n)] } : GState).L y = some m) :
    g.L y = some m ∨ (y = x ∧ m = n) := by
  cases hy : g.L y with
  | some m' =>
    rw [L_push_some hy] at h
    exact .inl h
  | none =>
    by_cases hne : y = x
    · subst hne
      rw [L_push_self hx] at h
      cases h
      exact .inr ⟨rfl, rfl⟩
    · rw [L_push_ne hy hne] at h; cases h

/-- a registered node comes from the list of registered pairs -/
theorem L_some_mem {g : GState} {x : Term} {n : Node} (h : g.L x = some n) : (x, n) ∈ g.typeNodes := by
  unfold GState.L lookupType at h
  cases hf : g.typeNodes.find? (fun p => Term.beq p.1 x) with
  | none => rw [hf] at h; cases h
  | some p =>
    rw [hf] at h
    simp only [Option.map_some, Option.some.injEq] at h
    have h1 := List.find?_some hf
    have h2 := List.mem_of_find?_eq_some hf
    have h3 : p.1 = x := (term_beq_iff _ _).1 h1
    cases p with
    | mk a b =>
      simp only at h h3
      rw [← h3, ← h]; exact h2

end Tfv.Voc
