import Tfv.Model.Basic
/-!
# M1 — matching and subtyping of concrete types

`matchC L st pol s t` mirrors the operation/operation branch of
`TypeInstance.match(self, other, subtype=st)` (type.py:506-524) on concrete
types. Python swaps the two arguments in contravariant positions; to keep the
recursion structural the model carries a polarity instead: with `pol = true`
the call stands for `match(s, t)`, with `pol = false` for `match(t, s)`.
-/
namespace Tfv

mutual
def matchC (L : Lang) (st : Bool) : Bool → Ty → Ty → Bool
  | pol, .app a as, .app b bs =>
    let lo := if pol then a else b
    let hi := if pol then b else a
    if st && (lo == BOT || hi == TOP) then true
    else if arityOf L lo == 0 then lo == hi || (st && opSub L lo hi)
    else if lo != hi then false
    else matchCs L st pol (varianceOf L lo) as bs
def matchCs (L : Lang) (st : Bool) : Bool → List Bool → List Ty → List Ty → Bool
  | pol, v :: vs, s :: ss, t :: ts => matchC L st (pol == v) s t && matchCs L st pol vs ss ts
  | _, _, _, _ => true
end

/-- `s.match(t, subtype=True)` on concrete types -/
def sub (L : Lang) (s t : Ty) : Bool := matchC L true true s t
/-- `s.match(t)` on concrete types -/
def eqM (L : Lang) (s t : Ty) : Bool := matchC L false true s t

/-- `Type.is_subtype(self=s, other=t, strict)` on concrete types (type.py:125-132) -/
def isSubtype (L : Lang) (s t : Ty) (strict : Bool := false) : Bool :=
  sub L s t && (!strict || !eqM L s t)

end Tfv
