import Tfv.Proofs.WildConstrRun
import Tfv.Proofs.ResolvedConstrExamples
/-!
# The certificate is NOT passed by every reachable store: a fuel artifact of the model

`subsStrictB` runs `match3` with fuel `matchFuel σ = 4·|vars| + 64`. The schema `(x ** x)[x ≤ x]` marks its constraint at
once (`x` against itself); applying the instance to the closed type `F^70(A)` binds `x`, and in the final store
(one variable, fuel 68) the strict matcher runs out of fuel on `F^70(A)` against itself and answers `none`.
Python's `match` recurses without a bound, so this is a finding about the MODEL's certificate, not about the code.
-/
namespace Tfv.C03X
open Tfv Tfv.C03P Tfv.C03C Tfv.C03R Tfv.C18P

/-- `(x ** x)[x ≤ x]` -/
def sRefl : Schema :=
  { nvars := 1, nwild := 0, body := .app FUN [.var 0, .var 0], constraints := [.sub (.var 0) (.var 0) false] }

/-- the final store has its subtype constraint marked fulfilled and FAILS the certificate -/
def failsCert (L : Lang) (σ : Store) : Bool :=
  !(certK L σ) && decide (0 < fulSubs σ) && decide (liveWilds σ = 0)

theorem run_refl_deep : runChk exL 400 sRefl [deepT 70 (.app 5 [])] (failsCert exL) = true := by
  decide +kernel

/-- the same run with a shallow argument passes -/
theorem run_refl_shallow : runChk exL 400 sRefl [deepT 60 (.app 5 [])] (certK exL) = true := by
  decide +kernel

theorem reach_cert_fails :
    ∃ σ1 f σ' r, instantiate exL 400 {} sRefl = .ok (σ1, f) ∧ okTermL exL σ1 [deepT 70 (.app 5 [])] = true ∧
      applyAll exL 400 true σ1 f [deepT 70 (.app 5 [])] = .ok (σ', r) ∧ subsStrictB exL σ' = false := by
  obtain ⟨σ1, f, σ', r, hi, hx, ha, hc⟩ := runChk_elim run_refl_deep
  refine ⟨σ1, f, σ', r, hi, hx, ha, ?_⟩
  unfold failsCert at hc
  simp only [Bool.and_eq_true, Bool.not_eq_true'] at hc
  rw [← certK_eq]; exact hc.1.1

end Tfv.C03X
