import Tfv.Model
namespace Tfv.C15
theorem placeholder : True := trivial
end Tfv.C15
