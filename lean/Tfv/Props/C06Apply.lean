import Tfv.Model
import Tfv.Spec.Sub
import Tfv.Spec.Fits
import Tfv.Spec.SatChain
import Tfv.Proofs.FitsApply1
import Tfv.Proofs.FitsApply2
import Tfv.Proofs.FitsApply3
import Tfv.Proofs.FitsApply4
/-!
# C06 end to end: `x ** r(x) [x << {t₁, …, tₙ}]` instantiated and applied (what a user calls)

`Tfv/Props/C06.lean` and `C06Gen.lean` state what ONE `fulfill` call keeps. Here the statement runs through
`instantiate` (allocation, constraint registration with its first `fulfill`/`minimize`, `fix`) and `applyT`/`applyAll`
(`unify` → `bind` → `check_constraints` → `fulfill` → `minimize` → filter → `unify`, then `fix` of the result).

* `runAll L n fixFlag s xs` : instantiate the signature `s` in the empty store, apply the instance to `xs` in turn.
* `elimSchema r ts` : the signature `x ** r(x) [x << ts]`; the alternatives `ts` are concrete (closed) types, `r` is any
  term (its variable `0` is `x`).
* `antichain L ts` : the alternatives are pairwise incomparable in the declared order (then `minimize` keeps the list as it is;
  for other lists `minimize` computes `minz L ts []`, `C06a_minimize_is_minz`, and may even leave DUPLICATES: `C06a_minimize_duplicates`).
* `fuelFor r ts a` : a fuel that suffices (linear in the sizes); alternatives and argument are less than 64 operators deep
  (`match3` runs with fuel `4·|vars| + 64`).

The general theorems cover a COMPOUND argument `a = o(…)` (`arityOf L o ≠ 0`): the engine binds `x := a` and re-checks the
constraint on the concrete reference. A nullary argument takes another path (`above`: `x` gets the lower bound `a`, the filter
works on the bound); for it the clauses are kernel-checked runs only (`C06a_base_*`).

FINDINGS (all replayable, see the statements):
* unique fit: the variable is bound to the ARGUMENT `a` (≤ the fitting alternative), not to the alternative; the result is
  `r[x := a]`, the constraint record becomes `a << {t}` marked fulfilled.
* second argument for the same variable: accepted iff it is a subtype of the FIRST argument (for compound arguments), so the
  order of the arguments matters although both fit the same alternative (`C06a_two_args_order_matters`); with nullary
  arguments two incomparable subtypes of one alternative are rejected with `subtypeMismatch` (no joins,
  `C06a_two_base_args_no_join`).
Statements only; proofs in `Tfv/Proofs/FitsApply1..4.lean`.
-/
namespace Tfv.C06
open Tfv Tfv.C06A Tfv.C03R

/-! ## 1. acceptance ⇔ fit -/

/-- **Acceptance iff fit** (compound argument, concrete pairwise incomparable alternatives): instantiating
`x ** r(x) [x << ts]` in the empty store and applying it to `a` succeeds iff `a` fits some alternative. -/
theorem C06a_accept_iff_fit (L : Lang) (wf : WF L) (N : Nat) (r : Term) (ts : List Ty) (ao : Nat) (as : List Ty)
    (fixFlag : Bool) (h0 : arityOf L ao ≠ 0) (ha : antichain L ts = true) (h2 : 2 ≤ ts.length)
    (hd : ∀ t ∈ ts, Ty.depth t < 64) (hda : Ty.depth (.app ao as) < 64)
    (hwa : wfTy L (.app ao as) = true) (hwt : ∀ t ∈ ts, wfTy L t = true)
    (hN : fuelFor r ts (.app ao as) ≤ N) :
    (∃ σ' res, runAll L N fixFlag (elimSchema r ts) [(Ty.app ao as).toTerm] = .ok (σ', res)) ↔
      ∃ t ∈ ts, Fits L (.app ao as) t.toTerm :=
  accept_iff_fit wf N r ts ao as fixFlag h0 ha h2 hd hda hwa hwt hN

/-- … and when no alternative fits, the error is the declared `constraintViolation` (never an internal one, never
`outOfFuel`) -/
theorem C06a_reject_is_violation (L : Lang) (wf : WF L) (N : Nat) (r : Term) (ts : List Ty) (ao : Nat) (as : List Ty)
    (fixFlag : Bool) (h0 : arityOf L ao ≠ 0) (ha : antichain L ts = true) (h2 : 2 ≤ ts.length)
    (hd : ∀ t ∈ ts, Ty.depth t < 64) (hda : Ty.depth (.app ao as) < 64)
    (hwa : wfTy L (.app ao as) = true) (hwt : ∀ t ∈ ts, wfTy L t = true)
    (hN : fuelFor r ts (.app ao as) ≤ N) (hno : ∀ t ∈ ts, ¬ Fits L (.app ao as) t.toTerm) :
    runAll L N fixFlag (elimSchema r ts) [(Ty.app ao as).toTerm] = .error .constraintViolation :=
  reject_is_violation wf N r ts ao as fixFlag h0 ha h2 hd hda hwa hwt hN hno

/-- the run in one equation: the outcome is determined by the list of alternatives above the argument (`afterC`) -/
theorem C06a_run_eq (L : Lang) (wf : WF L) (N : Nat) (r : Term) (ts : List Ty) (ao : Nat) (as : List Ty)
    (fixFlag : Bool) (h0 : arityOf L ao ≠ 0) (ha : antichain L ts = true) (h2 : 2 ≤ ts.length)
    (hd : ∀ t ∈ ts, Ty.depth t < 64) (hda : Ty.depth (.app ao as) < 64)
    (hN : fuelFor r ts (.app ao as) ≤ N) :
    runAll L N fixFlag (elimSchema r ts) [(Ty.app ao as).toTerm] =
      (match afterC (.app ao as) (ts.filter (fun t => sub L (.app ao as) t)) with
       | .error e => .error e
       | .ok σ1 => .ok (σ1, if fixFlag && !isFunT r then resTerm σ1 r else r)) :=
  runAll_compound L wf N r ts ao as fixFlag h0 ha h2 hd hda hN

/-! ## 2. unique fit, several fits -/

/-- **Unique fit**: exactly one alternative `t` is above the argument `a`. The run succeeds; in the final store `x` is
bound to the ARGUMENT `a`, the constraint record is `a << {t}` marked fulfilled and removed from the constraint set of `x`,
`a ≤ t`, and the result resolves to `r[x := a]` (every variable of `r` is `x`). -/
theorem C06a_unique_fit (L : Lang) (wf : WF L) (N : Nat) (r : Term) (ts : List Ty) (ao : Nat) (as : List Ty)
    (fixFlag : Bool) (t : Ty) (h0 : arityOf L ao ≠ 0) (ha : antichain L ts = true) (h2 : 2 ≤ ts.length)
    (hd : ∀ t ∈ ts, Ty.depth t < 64) (hda : Ty.depth (.app ao as) < 64)
    (hwa : wfTy L (.app ao as) = true) (hwt : ∀ t ∈ ts, wfTy L t = true)
    (hr : ∀ v ∈ r.vars, v = 0) (hN : fuelFor r ts (.app ao as) ≤ N)
    (hu : ts.filter (fun t => sub L (.app ao as) t) = [t]) :
    ∃ σ' res, runAll L N fixFlag (elimSchema r ts) [(Ty.app ao as).toTerm] = .ok (σ', res) ∧
      (getVar σ' 0).bound = some (Ty.app ao as).toTerm ∧
      getConstr σ' 0 = .elim (Ty.app ao as).toTerm [t.toTerm] true ∧
      getCset σ' (getVar σ' 0).cset = [] ∧
      t ∈ ts ∧ Sub L (.app ao as) t ∧
      Res σ' res (r.inst (fun _ => .app ao as)) :=
  unique_fit wf N r ts ao as fixFlag t h0 ha h2 hd hda hwa hwt hr hN hu

/-- **Several fits**: at least two alternatives are above the argument. The run succeeds, `x` is bound to the argument,
and the constraint is STILL PENDING with exactly the fitting alternatives (in their declared order): the record is
`a << kept`, unfulfilled, still in the constraint set of `x`; every kept alternative fits, every fitting alternative is kept. -/
theorem C06a_several_fit (L : Lang) (wf : WF L) (N : Nat) (r : Term) (ts : List Ty) (ao : Nat) (as : List Ty)
    (fixFlag : Bool) (t1 t2 : Ty) (rest : List Ty) (h0 : arityOf L ao ≠ 0) (ha : antichain L ts = true) (h2 : 2 ≤ ts.length)
    (hd : ∀ t ∈ ts, Ty.depth t < 64) (hda : Ty.depth (.app ao as) < 64)
    (hwa : wfTy L (.app ao as) = true) (hwt : ∀ t ∈ ts, wfTy L t = true)
    (hr : ∀ v ∈ r.vars, v = 0) (hN : fuelFor r ts (.app ao as) ≤ N)
    (hu : ts.filter (fun t => sub L (.app ao as) t) = t1 :: t2 :: rest) :
    ∃ σ' res, runAll L N fixFlag (elimSchema r ts) [(Ty.app ao as).toTerm] = .ok (σ', res) ∧
      (getVar σ' 0).bound = some (Ty.app ao as).toTerm ∧
      getConstr σ' 0 = .elim (Ty.app ao as).toTerm (Ty.toTermL (t1 :: t2 :: rest)) false ∧
      getCset σ' (getVar σ' 0).cset = [0] ∧
      (∀ t, t ∈ t1 :: t2 :: rest ↔ t ∈ ts ∧ Fits L (.app ao as) t.toTerm) ∧
      Res σ' res (r.inst (fun _ => .app ao as)) :=
  several_fit wf N r ts ao as fixFlag t1 t2 rest h0 ha h2 hd hda hwa hwt hr hN hu

/-! ## 3. a second argument for the same variable -/

/-- `x ** x ** r(x) [x << ts]`, compound arguments: if the first argument fits some alternative and the second argument is
a subtype of the FIRST ARGUMENT, both applications succeed and the outcome is that of the first application alone. -/
theorem C06a_two_args_partial (L : Lang) (wf : WF L) (N : Nat) (r : Term) (ts : List Ty) (ao : Nat) (as : List Ty)
    (a2 : Ty) (fixFlag : Bool) (h0 : arityOf L ao ≠ 0) (ha : antichain L ts = true) (h2 : 2 ≤ ts.length)
    (hd : ∀ t ∈ ts, Ty.depth t < 64) (hda : Ty.depth (.app ao as) < 64)
    (hs : sub L a2 (.app ao as) = true)
    (hN : fuelFor (.app FUN [.var 0, r]) ts (.app ao as) + 2 * (tsz r * Ty.size (.app ao as)) + 2 * Ty.size a2 ≤ N) :
    runAll L N fixFlag (elimSchema (.app FUN [.var 0, r]) ts) [(Ty.app ao as).toTerm, a2.toTerm] =
      (match afterC (.app ao as) (ts.filter (fun t => sub L (.app ao as) t)) with
       | .error e => .error e
       | .ok σ1 => .ok (σ1, if fixFlag && !isFunT r then resTerm σ1 r else r)) :=
  runAll_two_compound L wf N r ts ao as a2 fixFlag h0 ha h2 hd hda hs hN

/-! ## the engine on concrete types (used above, of independent use) -/

/-- `minimize` on concrete alternatives is the pure function `minz` and leaves the store alone -/
theorem C06a_minimize_is_minz (L : Lang) (σ : Store) (n : Nat) (alts mins : List Ty)
    (ha : ∀ t ∈ alts, Ty.depth t < 64) (hm : ∀ t ∈ mins, Ty.depth t < 64)
    (hn : alts.length + 2 * Ty.sizeL alts + 1 ≤ n) :
    minLoop L n σ (Ty.toTermL alts) (Ty.toTermL mins) = .ok (σ, Ty.toTermL (minz L alts mins)) :=
  minLoop_toTerm L σ n alts mins ha hm hn

/-- on an antichain `minimize` changes nothing -/
theorem C06a_minz_antichain (L : Lang) (alts : List Ty) (ha : antichain L alts = true) : minz L alts [] = alts :=
  minz_antichain_nil L alts ha

/-- a concrete subtype unifies with its supertype (subtype mode) without touching the store -/
theorem C06a_unify_concrete (L : Lang) (n : Nat) (σ : Store) (a b : Ty) (h : 2 * Ty.size a ≤ n)
    (hm : sub L a b = true) : unify L n σ a.toTerm b.toTerm true false false = .ok σ :=
  unify_toTerm_ok σ a b h hm

/-- `instantiate` of the signature: one variable, the constraint pending with all alternatives, attached to the variable -/
theorem C06a_instantiate (L : Lang) (n : Nat) (r : Term) (ts : List Ty) (ha : antichain L ts = true)
    (h2 : 2 ≤ ts.length) (hd : ∀ t ∈ ts, Ty.depth t < 64)
    (hn : ts.length + 2 * Ty.sizeL ts + 2 * tsz r + 5 ≤ n) :
    instantiate L (n+2) {} (elimSchema r ts) = .ok (σ0 (Ty.toTermL ts), .app FUN [.var 0, r]) :=
  instantiate_elimSchema L n r ts ha h2 hd hn

/-! ## 4. findings and whole runs evaluated by the kernel (`runAll = runAllK`, a structurally recursive copy of the engine) -/

open FitsEx

/-- `F(t)` in the example language `exL` (`A = 5 > B = 6`, `F = 7` unary, `G = 8` binary, `C = 9`) -/
def tF (t : Ty) : Ty := .app 7 [t]
def tA : Ty := .app 5 []
def tB : Ty := .app 6 []
def tC : Ty := .app 9 []
/-- the alternatives `F(A)`, `F(C)` -/
def exTs : List Ty := [tF tA, tF tC]
/-- the result type `F(x)` -/
def exR : Term := .app 7 [.var 0]

/-- `A > B`, `A > B'`, `C`, unary `F` -/
def exL3 : Lang := builtinDecls ++
  [⟨"A", [], none⟩, ⟨"B", [], some 5⟩, ⟨"B'", [], some 5⟩, ⟨"C", [], none⟩, ⟨"F", [true], none⟩]

theorem C06a_runAll_eq_K (L : Lang) (n : Nat) (fixFlag : Bool) (s : Schema) (xs : List Term) :
    runAll L n fixFlag s xs = runAllK L n fixFlag s xs := runAll_eq_K L n fixFlag s xs

/-- FINDING (order of the arguments): `x ** x ** x [x << {F(A), F(C)}]`. Both `F(B)` and `F(A)` fit the alternative `F(A)`.
Applied to `F(A)`, `F(B)` the run succeeds (`x = F(A)`); applied to `F(B)`, `F(A)` it fails with `subtypeMismatch`: the first
argument is bound to `x`, the second must be a subtype of it. -/
theorem C06a_two_args_order_matters :
    (∃ σ t, runAll exL 100 true (elimSchema (.app FUN [.var 0, .var 0]) exTs) [(tF tA).toTerm, (tF tB).toTerm] = .ok (σ, t) ∧
      resB σ (.var 0) (tF tA) = true) ∧
    runAll exL 100 true (elimSchema (.app FUN [.var 0, .var 0]) exTs) [(tF tB).toTerm, (tF tA).toTerm] =
      .error .subtypeMismatch ∧
    Fits exL (tF tB) (tF tA).toTerm ∧ Fits exL (tF tA) (tF tA).toTerm := by
  refine ⟨?_, ?_, ?_, ?_⟩
  · rw [runAll_eq_K]; exact succeedsWith_iff.mp (by decide +kernel)
  · rw [runAll_eq_K]; exact failsWith_iff.mp (by decide +kernel)
  · exact (fits_toTerm_iff exL_wf (by decide) (by decide)).mpr (by decide)
  · exact (fits_toTerm_iff exL_wf (by decide) (by decide)).mpr (by decide)

/-- FINDING (no joins): `x ** x ** x [x << {A, C}]` over `exL3` applied to `B`, `B'` (both below `A`, incomparable) is rejected
with `subtypeMismatch`, although the alternative `A` fits both arguments. -/
theorem C06a_two_base_args_no_join :
    runAll exL3 100 true (elimSchema (.app FUN [.var 0, .var 0]) [.app 5 [], .app 8 []]) [.app 6 [], .app 7 []] =
      .error .subtypeMismatch ∧
    sub exL3 (.app 6 []) (.app 5 []) = true ∧ sub exL3 (.app 7 []) (.app 5 []) = true := by
  refine ⟨?_, by decide, by decide⟩
  rw [runAll_eq_K]; exact failsWith_iff.mp (by decide +kernel)

/-- ODDITY: `minimize` of the non-antichain `{B, B', A}` leaves the DUPLICATE list `[A, A]` (each of `B`, `B'` is replaced by
`A`); the record after `instantiate` has two (equal) alternatives, the next `fulfill` removes the duplicate. -/
theorem C06a_minimize_duplicates :
    minz exL3 [.app 6 [], .app 7 [], .app 5 []] [] = [.app 5 [], .app 5 []] ∧
    minz exL3 [.app 5 [], .app 5 []] [] = [.app 5 []] ∧
    (∃ σ t, runAll exL3 100 true (elimSchema (.var 0) [.app 6 [], .app 7 [], .app 5 []]) [] = .ok (σ, t) ∧
      (match getConstr σ 0 with | .elim _ alts ful => !ful && alts.length == 2 | _ => false) = true) := by
  refine ⟨by rfl, by rfl, ?_⟩
  rw [runAll_eq_K]; exact succeedsWith_iff.mp (by decide +kernel)

/-- nullary argument, unique fit: `x ** x [x << {A, C}]` applied to `B`: accepted, the result resolves to `B`, `x` ends between
the argument and the alternative (`lower = B`, `upper = A`), the record is narrowed to `{A}` and fulfilled -/
theorem C06a_base_unique :
    ∃ σ t, runAll exL 100 true (elimSchema (.var 0) [tA, tC]) [tB.toTerm] = .ok (σ, t) ∧
      (resB σ t tB && ((getVar σ 0).lower == some 6) && ((getVar σ 0).upper == some 5) &&
        (match getConstr σ 0 with | .elim _ alts ful => ful && alts.length == 1 | _ => false)) = true := by
  rw [runAll_eq_K]; exact succeedsWith_iff.mp (by decide +kernel)

/-- nullary argument, no fit: applied to `Unit` the declared `constraintViolation` is raised -/
theorem C06a_base_violation :
    runAll exL 100 true (elimSchema (.var 0) [tA, tC]) [.app 0 []] = .error .constraintViolation := by
  rw [runAll_eq_K]; exact failsWith_iff.mp (by decide +kernel)

/-- argument `Bottom` (fits every alternative): accepted, `x` stays unbound, the constraint stays pending with both
alternatives -/
theorem C06a_base_bottom_several :
    ∃ σ t, runAll exL 100 true (elimSchema (.var 0) [tA, tC]) [.app BOT []] = .ok (σ, t) ∧
      ((getVar σ 0).bound.isNone &&
        (match getConstr σ 0 with | .elim _ alts ful => !ful && alts.length == 2 | _ => false)) = true := by
  rw [runAll_eq_K]; exact succeedsWith_iff.mp (by decide +kernel)

/-! ## non-vacuity of the general theorems -/

example : WF exL := exL_wf
example : arityOf exL 7 ≠ 0 := by decide
example : antichain exL exTs = true := by decide
example : 2 ≤ exTs.length := by decide
example : ∀ t ∈ exTs, Ty.depth t < 64 := by decide
example : ∀ t ∈ exTs, wfTy exL t = true := by decide
example : wfTy exL (tF tB) = true ∧ Ty.depth (tF tB) < 64 := by decide
example : ∀ v ∈ exR.vars, v = 0 := by decide
example : fuelFor exR exTs (tF tB) ≤ 100 := by decide
-- unique fit: `F(B)` fits `F(A)` only
example : exTs.filter (fun t => sub exL (tF tB) t) = [tF tA] := by rfl
-- several fits: `F(Bottom)` fits both
example : exTs.filter (fun t => sub exL (tF (.app BOT [])) t) = [tF tA, tF tC] := by rfl
-- no fit: `F(Unit)`
example : exTs.filter (fun t => sub exL (tF (.app 0 [])) t) = [] := by rfl

/-- `x ** F(x) [x << {F(A), F(C)}]` applied to `F(B)`: accepted, the result resolves to `F(F(B))` -/
example : ∃ σ' res, runAll exL 100 true (elimSchema exR exTs) [(tF tB).toTerm] = .ok (σ', res) ∧
    getConstr σ' 0 = .elim (tF tB).toTerm [(tF tA).toTerm] true ∧ Res σ' res (tF (tF tB)) := by
  obtain ⟨σ', res, h1, _, h3, _, _, _, h7⟩ := C06a_unique_fit exL exL_wf 100 exR exTs 7 [tB] true (tF tA) (by decide)
    (by decide) (by decide) (by decide) (by decide) (by decide) (by decide) (by decide) (by decide) (by rfl)
  exact ⟨σ', res, h1, h3, h7⟩

/-- … applied to `F(Bottom)`: accepted, pending with both alternatives -/
example : ∃ σ' res, runAll exL 100 true (elimSchema exR exTs) [(tF (.app BOT [])).toTerm] = .ok (σ', res) ∧
    getConstr σ' 0 = .elim (tF (.app BOT [])).toTerm (Ty.toTermL exTs) false := by
  obtain ⟨σ', res, h1, _, h3, _⟩ := C06a_several_fit exL exL_wf 100 exR exTs 7 [.app BOT []] true (tF tA) (tF tC) []
    (by decide) (by decide) (by decide) (by decide) (by decide) (by decide) (by decide) (by decide) (by decide) (by rfl)
  exact ⟨σ', res, h1, h3⟩

/-- … applied to `F(Unit)`: `constraintViolation`; and the acceptance criterion says the same -/
example : runAll exL 100 true (elimSchema exR exTs) [(tF (.app 0 [])).toTerm] = .error .constraintViolation := by
  have h := C06a_run_eq exL exL_wf 100 exR exTs 7 [.app 0 []] true (by decide) (by decide) (by decide) (by decide)
    (by decide) (by decide)
  exact h

example : ∃ t ∈ exTs, Fits exL (tF tB) t.toTerm :=
  (C06a_accept_iff_fit exL exL_wf 100 exR exTs 7 [tB] true (by decide) (by decide) (by decide) (by decide) (by decide)
    (by decide) (by decide) (by decide)).mp
    (by
      obtain ⟨σ', res, h1, _⟩ := C06a_unique_fit exL exL_wf 100 exR exTs 7 [tB] true (tF tA) (by decide)
        (by decide) (by decide) (by decide) (by decide) (by decide) (by decide) (by decide) (by decide) (by rfl)
      exact ⟨σ', res, h1⟩)

-- two arguments: `F(A)` then `F(B)` (`F(B) ≤ F(A)`)
example : sub exL (tF tB) (tF tA) = true ∧
    fuelFor (.app FUN [.var 0, .var 0]) exTs (tF tA) + 2 * (tsz (.var 0) * Ty.size (tF tA)) + 2 * Ty.size (tF tB) ≤ 100 := by
  decide

end Tfv.C06
