"""Build the Lean project, audit the property theorems, run the driver."""
from __future__ import annotations
import fcntl, os, re, subprocess, time
from common import LEAN, VERIF

ALLOWED_AXIOMS = {"propext", "Classical.choice", "Quot.sound"}
FORBIDDEN = re.compile(
    r"\b(sorry|admit|native_decide|bv_decide|implemented_by|unsafe)\b|^\s*axiom\s|maxHeartbeats\s+0\b", re.M)


def strip_comments(src: str) -> str:
    # remove nested block comments and line comments
    out, i, depth, n = [], 0, 0, len(src)
    while i < n:
        if src.startswith("/-", i):
            depth += 1; i += 2; continue
        if depth and src.startswith("-/", i):
            depth -= 1; i += 2; continue
        if depth:
            if src[i] == "\n": out.append("\n")
            i += 1; continue
        if src.startswith("--", i):
            while i < n and src[i] != "\n": i += 1
            continue
        out.append(src[i]); i += 1
    return "".join(out)


def lean_files():
    for root, _, files in os.walk(os.path.join(LEAN, "Tfv")):
        for f in files:
            if f.endswith(".lean"):
                yield os.path.join(root, f)
    yield os.path.join(LEAN, "Driver", "Main.lean")


def grep_forbidden() -> list[str]:
    hits = []
    for p in lean_files():
        with open(p, encoding="utf-8") as f:
            src = strip_comments(f.read())
        # string literals may mention words; drop them
        src = re.sub(r'"(\\.|[^"\\])*"', '""', src)
        for m in FORBIDDEN.finditer(src):
            line = src.count("\n", 0, m.start()) + 1
            hits.append(f"{os.path.relpath(p, LEAN)}:{line}: {m.group(0).strip()}")
    return hits


class Lock:
    def __enter__(self):
        self.f = open(os.path.join(LEAN, ".build.lock"), "w")
        fcntl.flock(self.f, fcntl.LOCK_EX)
        return self
    def __exit__(self, *a):
        fcntl.flock(self.f, fcntl.LOCK_UN)
        self.f.close()


def run(cmd, timeout=3600, **kw):
    return subprocess.run(cmd, cwd=LEAN, stdout=subprocess.PIPE, stderr=subprocess.STDOUT,
        text=True, timeout=timeout, **kw)


def prop_modules(prop_id: str) -> list[str]:
    """`Props/C14.lean`, `Props/C14Text.lean`, … all state theorems of property C14"""
    d = os.path.join(LEAN, "Tfv", "Props")
    out = []
    for f in sorted(os.listdir(d)):
        if re.fullmatch(re.escape(prop_id) + r"[A-Za-z]*\.lean", f):
            out.append(f[:-5])
    return out


def theorems_of(prop_id: str) -> list[str]:
    names = []
    for mod in prop_modules(prop_id):
        path = os.path.join(LEAN, "Tfv", "Props", f"{mod}.lean")
        with open(path, encoding="utf-8") as f:
            src = strip_comments(f.read())
        ns = re.search(r"^namespace\s+(\S+)", src, re.M)
        prefix = (ns.group(1) + ".") if ns else ""
        names += [prefix + m.group(1) for m in re.finditer(r"^\s*theorem\s+([^\s:({\[]+)", src, re.M)]
    return names


def build_and_audit(prop_id: str, clean: bool = False, leanchecker: bool = False) -> dict:
    """Returns {ok, log, theorems: {name: [axioms]}, obligations, discharged, broken: [...]}"""
    res = {"ok": True, "broken": [], "theorems": {}, "log": ""}
    t0 = time.time()
    with Lock():
        if clean:
            run(["lake", "clean"])
        mods = [f"Tfv.Props.{m}" for m in prop_modules(prop_id)] or [f"Tfv.Props.{prop_id}"]
        r = run(["lake", "build"] + mods + ["tfv-driver", "tfv-inv"])
        res["log"] = r.stdout[-6000:]
        if r.returncode != 0:
            res["ok"] = False
            res["broken"].append(f"lake build Tfv.Props.{prop_id} failed")
        if re.search(r"declaration uses 'sorry'", r.stdout):
            res["ok"] = False
            res["broken"].append("build log mentions sorry")
        hits = grep_forbidden()
        if hits:
            res["ok"] = False
            res["broken"].append("forbidden tokens: " + "; ".join(hits[:5]))
        names = theorems_of(prop_id)
        res["obligations"] = len(names)
        discharged = 0
        if r.returncode == 0 and names:
            adir = os.path.join(LEAN, ".audit")
            os.makedirs(adir, exist_ok=True)
            apath = os.path.join(adir, f"{prop_id}.lean")
            with open(apath, "w") as f:
                for m in mods:
                    f.write(f"import {m}\n")
                for n in names:
                    f.write(f"#print axioms {n}\n")
            a = run(["lake", "env", "lean", apath])
            res["audit_log"] = a.stdout[-4000:]
            if a.returncode != 0:
                res["ok"] = False
                res["broken"].append("axiom audit failed to run")
            # parse: "'Name' depends on axioms: [a, b]" / "'Name' does not depend on any axioms"
            txt = re.sub(r"\s+", " ", a.stdout)
            for n in names:
                m = re.search(r"'" + re.escape(n) + r"' (does not depend on any axioms|depends on axioms: \[([^\]]*)\])", txt)
                if not m:
                    res["ok"] = False
                    res["broken"].append(f"theorem {n}: no axiom report")
                    continue
                axs = [x.strip() for x in (m.group(2) or "").split(",") if x.strip()]
                res["theorems"][n] = axs
                bad = [x for x in axs if x not in ALLOWED_AXIOMS]
                if bad:
                    res["ok"] = False
                    res["broken"].append(f"theorem {n} depends on {bad}")
                else:
                    discharged += 1
        res["discharged"] = discharged
        if not names:
            res["ok"] = False
            res["broken"].append(f"no theorems found in Tfv/Props/{prop_id}.lean")
        if leanchecker and r.returncode == 0:
            c = run(["lake", "env", "leanchecker"] + mods, timeout=3600)
            res["leanchecker"] = c.stdout[-1500:]
            if c.returncode != 0:
                res["ok"] = False
                res["broken"].append("leanchecker rejected Tfv.Props." + prop_id)
    res["build_s"] = round(time.time() - t0, 2)
    return res


def driver_path() -> str:
    return os.path.join(LEAN, ".lake", "build", "bin", "tfv-driver")


def run_driver(lines: list[str], timeout=1800, exe=None) -> list[str]:
    p = subprocess.run([exe or driver_path()], input="\n".join(lines) + "\n", stdout=subprocess.PIPE,
        stderr=subprocess.PIPE, text=True, timeout=timeout)
    if p.returncode != 0:
        raise RuntimeError(f"driver exited {p.returncode}: {p.stderr[-500:]}")
    out = p.stdout.split("\n")
    if out and out[-1] == "":
        out.pop()
    return out
