"""C06 - elimination constraints select exactly the alternatives the argument fits."""
from __future__ import annotations
import langgen as G
import infer as I
from refsub import ref_sub

RULE = ("signatures `a ** r(b) [a << alts]` with 1-4 linear alternatives (concrete types, F(b), G(b,_), G(_,b), nested F(G(b,_)), bare `_`, "
        "and the lists produced by with_parameters) and `a ** a [a << concrete alts]`, applied to every concrete argument of depth <= 2 "
        "(sampled in quick tier) over generated hierarchies; implementation vs model on each; oracle: accepted iff the argument fits some "
        "alternative (independent structural check with the reference order), unique fit => result is r(b) instantiated by that alternative, "
        "concrete alternatives => argument <= result <= a fitting alternative; non-trivial = the argument is not Bottom and at least one alternative is not a bare variable; distinct by (language, schema, argument)")
ASSUMPTIONS = ["alternatives are linear (each variable at most once per alternative) and given as lists", "re-check order = creation order (hook)"]
TRUSTED = ["harness/infer.py", "harness/refsub.py (oracle)"]

A_, B_ = ('v', 0), ('v', 1)


def fits(spec, x, alt):
    """concrete x (data) fits a linear alternative (term over variables): exists an instantiation with x <= alt"""
    if I.is_var(alt):
        return True
    if x[0] == G.BOT or alt[0] == G.TOP:
        return True
    ao, aargs = alt
    if not aargs:
        return not x[1] and spec.arity(x[0]) == 0 and ref_sub(spec, x, (ao, ()))
    if x[0] != ao:
        return False
    for v, xi, ai in zip(spec.variance(ao), x[1], aargs):
        if v:
            if not fits(spec, xi, ai):
                return False
        else:
            if not fits_rev(spec, ai, xi):
                return False
    return True


def fits_rev(spec, alt, x):
    """exists an instantiation with alt <= x (contravariant position)"""
    if I.is_var(alt):
        return True
    if alt[0] == G.BOT or x[0] == G.TOP:
        return True
    ao, aargs = alt
    if not aargs:
        return not x[1] and spec.arity(x[0]) == 0 and ref_sub(spec, (ao, ()), x)
    if x[0] != ao:
        return False
    for v, xi, ai in zip(spec.variance(ao), x[1], aargs):
        if v:
            if not fits_rev(spec, ai, xi):
                return False
        else:
            if not fits(spec, xi, ai):
                return False
    return True


def bind_b(spec, x, alt, pol=True):
    """the component of x that meets variable b in alt, with its polarity: (component, pol) or None"""
    if I.is_var(alt):
        return (x, pol) if alt == B_ else None
    if not alt[1] or x[0] != alt[0]:
        return None
    for v, xi, ai in zip(spec.variance(alt[0]), x[1], alt[1]):
        r = bind_b(spec, xi, ai, pol == v)
        if r:
            return r
    return None


def mentions_b(t):
    if I.is_var(t):
        return t == B_
    return any(mentions_b(a) for a in t[1])


def gen_alt(rng, spec, wild):
    comps = spec.compounds(builtin=False)
    r = rng.random()
    if r < 0.35 or not comps:
        return I.conc(G.gen_ty(rng, spec, rng.randint(0, 1), p_special=0.04, allow_fun=False))
    if r < 0.4:
        wild.append(1)
        return ('w', None)
    o = rng.choice(comps)
    used_b = [False]

    def arg(depth):
        q = rng.random()
        if q < 0.35 and not used_b[0]:
            used_b[0] = True
            return B_
        if q < 0.6:
            wild.append(1)
            return ('w', None)
        if q < 0.75 and depth > 0:
            o2 = rng.choice(comps)
            return (o2, tuple(arg(depth - 1) for _ in range(spec.arity(o2))))
        return I.conc(G.gen_ty(rng, spec, 0, p_special=0.04))
    return (o, tuple(arg(1) for _ in range(spec.arity(o))))


def gen_schema(rng, spec):
    comps = spec.compounds(builtin=False)
    wild = []
    kind = rng.random()
    if kind < 0.25:
        # a ** a [a << concrete alts]
        alts = [I.conc(G.gen_ty(rng, spec, rng.randint(0, 1), p_special=0.03, allow_fun=False)) for _ in range(rng.randint(1, 4))]
        body = (G.FUN, (A_, A_))
        nvars = 1
    else:
        alts = [gen_alt(rng, spec, wild) for _ in range(rng.randint(1, 4))]
        cov = [c for c in comps if spec.variance(c)[0]]
        if cov and rng.random() < 0.4:
            c = rng.choice(cov)
            res = (c, tuple(B_ if j == 0 else (rng.choice(spec.bases() or [G.UNIT]), ()) for j in range(spec.arity(c))))
        elif rng.random() < 0.15:
            res = (G.UNIT, ())
        else:
            res = B_
        body = (G.FUN, (A_, res))
        nvars = 2
    counter = [0]
    body = I.number_wildcards(body, nvars, counter)
    alts = [I.number_wildcards(a, nvars, counter) for a in alts]
    return {"nvars": nvars, "nwild": counter[0], "body": body, "constraints": [('elim', A_, alts)]}


def all_types(spec, depth):
    out = [(b, ()) for b in spec.bases()] + [(G.TOP, ()), (G.BOT, ()), (G.UNIT, ())]
    if depth == 0:
        return out
    sub = all_types(spec, depth - 1)
    res = list(out)
    import itertools
    for c in spec.compounds(builtin=False) + [G.PROD]:
        for combo in itertools.product(sub, repeat=spec.arity(c)):
            res.append((c, tuple(combo)))
    return res


def with_parameters_cases(ctx, li, spec, ops):
    """alternatives produced by transforge.type.with_parameters"""
    from transforge import type as T
    comps = [c for c in spec.compounds(builtin=False)]
    if not comps or not spec.bases():
        return
    rng = ctx.rng
    param = (rng.choice(spec.bases()), ())
    at = rng.choice([None, 1])
    pyops = [ops[c] for c in comps]
    try:
        alts_py = T.with_parameters(*pyops, param=ops[param[0]], at=at)
    except Exception as ex:  # noqa
        ctx.count("with_parameters_error_" + type(ex).__name__)
        return
    # translate to data (wildcards become numbered variables)
    counter = [0]

    def data(t):
        t = t.follow()
        if isinstance(t, T.TypeVariable):
            k = counter[0]
            counter[0] += 1
            return ('v', 1 + k)
        return (I.op_index(t.operator, ops), tuple(data(p) for p in t.params))
    alts = [data(a) for a in alts_py]
    s = {"nvars": 1, "nwild": counter[0], "body": (G.FUN, (A_, (G.UNIT, ()))), "constraints": [('elim', A_, alts)]}
    for x in rng.sample(all_types(spec, 1), min(12, len(all_types(spec, 1)))):
        one_case(ctx, li, spec, ops, s, x, family="with_parameters")
    ctx.count("with_parameters_lists")
    # the list as with_parameters itself builds it, used directly in a signature (the translation above gives every wildcard position its
    # own variable; here the objects the function returns are what the constraint holds): accepted iff the argument fits an alternative
    for use_param in (True, False):
        def mk():
            return T.with_parameters(*pyops, param=ops[param[0]], at=at) if use_param else T.with_parameters(*pyops)
        try:
            sch = T.TypeSchema(lambda a: a ** ops[G.UNIT] [a << mk()])
            counter[0] = 0
            alts_d = [data(a) for a in mk()]
        except Exception as ex:  # noqa
            ctx.count("with_parameters_error_" + type(ex).__name__)
            continue
        for x in rng.sample(all_types(spec, 2), min(16, len(all_types(spec, 2)))):
            try:
                sch.apply(G.ty_py(x, ops))
                accepted = True
            except T.TypingError:
                accepted = False
            except Exception as ex:  # noqa
                accepted = "X:" + type(ex).__name__
            want = any(fits(spec, x, alt) for alt in alts_d)
            ctx.evaluations += 1
            ctx.count("with_parameters_direct")
            if accepted is not want:
                ctx.fail(f"a ** Unit [a << with_parameters({[spec.name(c) for c in comps]}{', param=' + spec.name(param[0]) + ', at=' + str(at) if use_param else ''})] applied to "
                         f"{G.ty_str(x, spec)}: {'accepted' if accepted is True else ('rejected' if accepted is False else accepted)}, but the argument "
                         f"{'fits' if want else 'does not fit'} an alternative (wildcards fit anything)",
                    {"check": "with-parameters-direct", "accepted": str(accepted)},
                    {"lang": spec.to_json(), "what": "with_parameters", "comps": comps, "param": list(param), "at": at, "use_param": use_param, "x": x})


def run(ctx):
    rng = ctx.rng
    nlang = 6 if ctx.tier == "quick" else 40
    nschema = 30 if ctx.tier == "quick" else 80
    for li in range(nlang):
        spec = G.gen_lang(rng, max_base=6, max_ops=2, max_arity=2)
        ops = spec.build()
        ctx.setup(spec.sexp(), "ok T")
        universe = all_types(spec, 2 if len(spec.decls) <= 9 else 1)
        for k in range(nschema):
            s = gen_schema(rng, spec)
            xs = universe if (ctx.tier == "thorough" and len(universe) <= 150) else rng.sample(universe, min(10, len(universe)))
            for x in xs:
                one_case(ctx, li, spec, ops, s, x)
        with_parameters_cases(ctx, li, spec, ops)
    corpus(ctx)


def one_case(ctx, li, spec, ops, s, x, family="gen"):
    args = [(0, I.conc(x))]
    obs, results, err = I.run_chain(s, args, spec, ops)
    alts = s["constraints"][0][2]
    nontrivial = x[0] != G.BOT and any(not I.is_var(a) for a in alts)
    ctx.case(I.infer_line(s, args), obs, {"lang": spec.to_json(), "schema": I.schema_src(s, spec), "arg": G.ty_str(x, spec)},
        nontrivial=nontrivial, key=(li, I.schema_sexp(s), x))
    accepted = err is None and len(results) == 2
    fitting = [a for a in alts if fits(spec, x, a)]
    ctx.count(f"{family}_{'accepted' if accepted else 'rejected'}_{min(len(fitting), 2)}fit")
    replay = {"lang": spec.to_json(), "schema": s, "arg": x}
    desc = f"{I.schema_src(s, spec)} applied to {G.ty_str(x, spec)}"
    if obs.startswith("E@0"):
        return  # the schema itself is contradictory (instantiation failed): nothing was applied
    if accepted != bool(fitting):
        ctx.fail(f"{desc}: {'accepted' if accepted else 'rejected (' + obs.split(' | ')[-1] + ')'}, "
                 f"but the argument fits {len(fitting)} alternative(s)",
            {"check": "accept-iff-fits", "accepted": accepted, "arg_basic": not x[1],
             "n_base_alts": sum(1 for a in alts if not I.is_var(a) and not a[1])}, replay)
        return
    if not accepted:
        return
    res = results[-1]
    from transforge import type as T
    body_res = s["body"][1][1]
    # unique fit: the result is r(b) instantiated by the alternative
    if len(fitting) == 1 and s["nvars"] == 2 and mentions_b(fitting[0]) and x[0] != G.BOT:
        bb = bind_b(spec, x, fitting[0])
        if bb and bb[1] and bb[0][0] not in (G.BOT,):
            comp = bb[0]
            want = subst_b(body_res, comp)
            got = to_data_or_none(res, ops)
            if got is not None and want is not None and got != want:
                ctx.fail(f"{desc}: unique fitting alternative determines b = {G.ty_str(comp, spec)}, expected result {G.ty_str(want, spec)}, got {res}",
                    {"check": "unique-fit-result"}, replay)
            elif got is None and want is not None:
                ctx.fail(f"{desc}: unique fitting alternative determines b = {G.ty_str(comp, spec)}, but the result {res} is not resolved",
                    {"check": "unique-fit-result"}, replay)
    # concrete alternatives, result mentions a: argument <= result <= fitting alternative
    if s["nvars"] == 1 and body_res == A_ and x[0] not in (G.BOT,):
        got = to_data_or_none(res, ops)
        if got is not None:
            if not ref_sub(spec, x, got) or not any(ref_sub(spec, got, to_conc(a)) for a in fitting):
                ctx.fail(f"{desc}: result {G.ty_str(got, spec)} does not lie between the argument and a fitting alternative",
                    {"check": "between"}, replay)


def to_conc(t):
    return (t[0], tuple(to_conc(a) for a in t[1]))


def subst_b(t, comp):
    if I.is_var(t):
        return comp if t == B_ else None
    args = [subst_b(a, comp) for a in t[1]]
    if any(a is None for a in args):
        return None
    return (t[0], tuple(args))


def to_data_or_none(t, ops):
    from transforge import type as T
    t = t.follow()
    if isinstance(t, T.TypeVariable):
        return None
    args = [to_data_or_none(p, ops) for p in t.params]
    if any(a is None for a in args):
        return None
    return (I.op_index(t.operator, ops), tuple(args))


def corpus(ctx):
    """the statement's example and the D3 witness"""
    # keys : a ** C(b) [a << {C(b), R(b, _)}] applied to R(Ord, Obj) gives C(Ord)
    decls = list(G.BUILTIN_DECLS) + [("Ord", [], None), ("Obj", [], None), ("C", [True], None), ("R", [True, True], None),
        ("A", [], None), ("B", [], None), ("D", [], None)]
    spec = G.LangSpec(decls)
    ops = spec.build()
    ctx.setup(spec.sexp(), "ok T")
    s = {"nvars": 2, "nwild": 1, "body": (G.FUN, (A_, (7, (B_,)))), "constraints": [('elim', A_, [(7, (B_,)), (8, (B_, ('v', 2)))])]}
    one_case(ctx, -1, spec, ops, s, (8, ((5, ()), (6, ()))), family="corpus")
    # D3: a ** Unit [a << {A, B}] applied to an unrelated D
    s2 = {"nvars": 1, "nwild": 0, "body": (G.FUN, (A_, (G.UNIT, ()))), "constraints": [('elim', A_, [(9, ()), (10, ())])]}
    one_case(ctx, -1, spec, ops, s2, (11, ()), family="corpus")
    one_case(ctx, -1, spec, ops, s2, (9, ()), family="corpus")


def replay_with_parameters(inp):
    from transforge import type as T
    spec = G.LangSpec([(n, v, p) for n, v, p in inp["lang"]])
    ops = spec.build()
    pyops = [ops[c] for c in inp["comps"]]
    tt = lambda x: (x[0], tuple(tt(a) for a in x[1]))  # noqa
    x = tt(inp["x"])

    def mk():
        return T.with_parameters(*pyops, param=ops[inp["param"][0]], at=inp["at"]) if inp["use_param"] else T.with_parameters(*pyops)
    counter = [0]

    def data(t):
        t = t.follow()
        if isinstance(t, T.TypeVariable):
            counter[0] += 1
            return ('v', counter[0])
        return (I.op_index(t.operator, ops), tuple(data(p) for p in t.params))
    alts_d = [data(a) for a in mk()]
    sch = T.TypeSchema(lambda a: a ** ops[G.UNIT] [a << mk()])
    try:
        sch.apply(G.ty_py(x, ops))
        accepted = True
    except T.TypingError:
        accepted = False
    want = any(fits(spec, x, alt) for alt in alts_d)
    print("accepted" if accepted else "rejected", "- fits an alternative:", want)
    return accepted is want


def replay(ctx, payload):
    if payload["input"].get("what") == "with_parameters":
        return replay_with_parameters(payload["input"])
    from props.C03 import fix_schema, tt
    inp = payload["input"]
    spec = G.LangSpec([(n, v, p) for n, v, p in inp["lang"]])
    ops = spec.build()
    s = fix_schema(inp["schema"])
    x = tt(inp["arg"])
    c = type("C", (), {"failures": [], "stats": {}, "evaluations": 0, "count": lambda self, n, k=1: None,
        "case": lambda self, *a, **k: None, "fail": lambda self, d, f, r: self.failures.append(d)})()
    one_case(c, 0, spec, ops, s, x)
    print(I.schema_src(s, spec), "applied to", G.ty_str(x, spec))
    print("oracle:", c.failures or "holds")
    return not c.failures
