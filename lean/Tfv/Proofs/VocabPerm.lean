import Tfv.Proofs.VocabEdges
/-!
# The taxonomy does not depend on the order in which the canon is visited

Two results of `add_taxonomy` (any two orders covering the canon) contain the same triples among those that mention no
blank node; when no blank node is created (every parameter type reached has a URI, or `with_noncanonical_types` is off)
they contain the same triples. Blank nodes (finding D24: non-canonical parameter types) are numbered in the order of
creation, so the restriction cannot be dropped (see `Tfv.VocabEx`).
-/
namespace Tfv.Voc
open Tfv Tfv.Tax

def NotBlank (n : Node) : Prop := ∀ k, n ≠ .b k

/-- neither subject nor object is a blank node -/
def NoBlank (tr : Triple) : Prop := NotBlank tr.1 ∧ NotBlank tr.2.2

theorem typeUri_notBlank {G : GLang} {x : Term} {n : Node} (h : typeUri G x = .ok n) : NotBlank n := by
  intro k hk
  unfold typeUri at h
  simp only [] at h
  cases hg : x.generalize with
  | app o args =>
  rw [hg] at h
  simp only [] at h
  split at h
  · simp only [Except.ok.injEq] at h
    split at h <;> (rw [← h] at hk; cases hk)
  · split at h
    · simp only [Except.ok.injEq] at h
      rw [← h] at hk; cases hk
    · cases h

theorem opUri_notBlank (G : GLang) (o : Nat) : NotBlank (opUri G o) := by
  intro k hk
  unfold opUri at hk
  split at hk <;> cases hk

theorem nodeOk_uri {G : GLang} {c : GCfg} {x : Term} {n : Node} (h : NodeOk G c x n) (hn : NotBlank n) :
    typeUri G x = .ok n := by
  rcases h with h | ⟨_, _, k, rfl⟩
  · exact h
  · exact absurd rfl (hn k)

/-- a type registered with a URI in one result is registered with the same URI in the other -/
theorem TaxResult.transfer {G : GLang} {c : GCfg} {cl1 cl2 : Bool} {g1 g2 : GState} (h1 : TaxResult G c cl1 g1)
    (h2 : TaxResult G c cl2 g2) {x : Term} {n : Node} (hl : g1.L x = some n) (hn : NotBlank n) : g2.L x = some n := by
  have hu := nodeOk_uri (h1.node x n hl) hn
  obtain ⟨n2, hn2⟩ := (h2.registered x).2 ((h1.registered x).1 ⟨n, hl⟩)
  rcases h2.node x n2 hn2 with h | ⟨h, _⟩
  · rw [hu] at h; cases h; exact hn2
  · rw [hu] at h; cases h

theorem TaxResult.described_transfer {G : GLang} {c : GCfg} {cl1 cl2 : Bool} {g1 g2 : GState} (h1 : TaxResult G c cl1 g1)
    (h2 : TaxResult G c cl2 g2) {tr : Triple} (hd : Described G c g1 tr) (hb : NoBlank tr) : Described G c g2 tr := by
  obtain ⟨x, n, hl, hd⟩ := hd
  cases hd with
  | cls hc => exact ⟨x, n, h1.transfer h2 hl hb.1, .cls hc⟩
  | op hx ha htp => exact ⟨x, n, h1.transfer h2 hl hb.1, .op hx ha htp⟩
  | param hx ha htp hi hp => exact ⟨x, n, h1.transfer h2 hl hb.1, .param hx ha htp hi (h1.transfer h2 hp hb.2)⟩

theorem linkTr_noBlank {G : GLang} {tr : Triple} (h : LinkTr G tr) : NoBlank tr := by
  cases h with
  | up _ _ ha hb => exact ⟨typeUri_notBlank ha, typeUri_notBlank hb⟩
  | down _ _ ha hb => exact ⟨typeUri_notBlank hb, typeUri_notBlank ha⟩

theorem TaxResult.direct_transfer {G : GLang} {c : GCfg} {cl1 cl2 : Bool} {g1 g2 : GState} (h1 : TaxResult G c cl1 g1)
    (h2 : TaxResult G c cl2 g2) {tr : Triple} (hd : DirectTr G c g1 tr) (hb : NoBlank tr) : DirectTr G c g2 tr := by
  rcases hd with hd | hd
  · exact .inl (h1.described_transfer h2 hd hb)
  · exact .inr hd

/-- the object of a direct edge is a URI -/
theorem directEdge_obj_notBlank {G : GLang} {c : GCfg} {g : GState} {a b : Node} (h : DirectEdge G c g a b) : NotBlank b := by
  rcases (directEdge_iff G c g a b).1 h with ⟨_, _, _, _, _, hb, _⟩ | ⟨_, op, _, _, _, rfl⟩
  · exact typeUri_notBlank hb
  · exact opUri_notBlank G op

theorem TaxResult.reach_transfer {G : GLang} {c : GCfg} {cl1 cl2 : Bool} {g1 g2 : GState} (h1 : TaxResult G c cl1 g1)
    (h2 : TaxResult G c cl2 g2) {s o : Node} (hr : NReach (DirectEdge G c g1) s o) (hs : NotBlank s) :
    NReach (DirectEdge G c g2) s o := by
  induction hr with
  | refl _ => exact .refl _
  | step hab _ ih =>
    have hb := directEdge_obj_notBlank hab
    exact .step (h1.direct_transfer h2 hab ⟨hs, hb⟩) (ih hb)

theorem TaxResult.sub_noBlank {G : GLang} {c : GCfg} {cl1 cl2 : Bool} {g1 g2 : GState} (h1 : TaxResult G c cl1 g1)
    (h2 : TaxResult G c cl2 g2) (hcl : cl1 = true → cl2 = true) {tr : Triple} (hb : NoBlank tr) (h : tr ∈ g1.triples) :
    tr ∈ g2.triples := by
  rw [h1.triples] at h
  rw [h2.triples]
  rcases h with h | ⟨hc, t, ht, ref, s, href, hs, rfl⟩
  · exact .inl (h1.direct_transfer h2 h hb)
  · exact .inr ⟨hcl hc, t, ht, ref, s, href, h1.reach_transfer h2 hs hb.1, rfl⟩

/-- **order independence, blank nodes aside** -/
theorem TaxResult.perm_noBlank {G : GLang} {c : GCfg} {cl : Bool} {g1 g2 : GState} (h1 : TaxResult G c cl g1)
    (h2 : TaxResult G c cl g2) {tr : Triple} (hb : NoBlank tr) : tr ∈ g1.triples ↔ tr ∈ g2.triples :=
  ⟨h1.sub_noBlank h2 (fun h => h) hb, h2.sub_noBlank h1 (fun h => h) hb⟩

/-- every type `add_type` reaches from the canon has a URI (no blank node is needed) -/
def ParamsHaveUris (G : GLang) (c : GCfg) : Prop := ∀ x, FromCanon G c x → ∃ n, typeUri G x = .ok n

theorem TaxResult.reg_notBlank {G : GLang} {c : GCfg} {cl : Bool} {g : GState} (h : TaxResult G c cl g)
    (hu : ParamsHaveUris G c ∨ c.withNoncanonicalTypes = false) {x : Term} {n : Node} (hl : g.L x = some n) : NotBlank n := by
  rcases h.node x n hl with h0 | ⟨h0, hnc, _⟩
  · exact typeUri_notBlank h0
  · rcases hu with hu | hu
    · obtain ⟨m, hm⟩ := hu x ((h.registered x).1 ⟨n, hl⟩)
      rw [hm] at h0; cases h0
    · rw [hu] at hnc; cases hnc

theorem TaxResult.direct_noBlank {G : GLang} {c : GCfg} {cl : Bool} {g : GState} (h : TaxResult G c cl g)
    (hu : ParamsHaveUris G c ∨ c.withNoncanonicalTypes = false) {tr : Triple} (hd : DirectTr G c g tr) : NoBlank tr := by
  rcases hd with ⟨x, n, hl, hd⟩ | hd
  · cases hd with
    | cls _ => exact ⟨h.reg_notBlank hu hl, fun k hk => by cases hk⟩
    | op _ _ _ => exact ⟨h.reg_notBlank hu hl, opUri_notBlank G _⟩
    | param _ _ _ _ hp => exact ⟨h.reg_notBlank hu hl, h.reg_notBlank hu hp⟩
  · exact linkTr_noBlank hd

/-- when no blank node is needed, no triple mentions one -/
theorem TaxResult.all_noBlank {G : GLang} {c : GCfg} {cl : Bool} {g : GState} (h : TaxResult G c cl g)
    (hu : ParamsHaveUris G c ∨ c.withNoncanonicalTypes = false) {tr : Triple} (hm : tr ∈ g.triples) : NoBlank tr := by
  rw [h.triples] at hm
  rcases hm with hm | ⟨_, t, _, ref, s, href, hs, rfl⟩
  · exact h.direct_noBlank hu hm
  · refine ⟨?_, typeUri_notBlank href⟩
    cases hs with
    | refl _ => exact typeUri_notBlank href
    | step hab _ => exact (h.direct_noBlank hu hab).1

/-- **order independence of the triple set** when no blank node is needed -/
theorem TaxResult.perm_full {G : GLang} {c : GCfg} {cl : Bool} {g1 g2 : GState} (h1 : TaxResult G c cl g1)
    (h2 : TaxResult G c cl g2) (hu : ParamsHaveUris G c ∨ c.withNoncanonicalTypes = false) (tr : Triple) :
    tr ∈ g1.triples ↔ tr ∈ g2.triples :=
  ⟨fun h => (h1.perm_noBlank h2 (h1.all_noBlank hu h)).1 h, fun h => (h1.perm_noBlank h2 (h2.all_noBlank hu h)).2 h⟩

/-- the closure only adds triples (same order or not) -/
theorem TaxResult.closure_superset {G : GLang} {c : GCfg} {g1 g2 : GState} (h1 : TaxResult G c false g1)
    (h2 : TaxResult G c true g2) {tr : Triple} (hb : NoBlank tr) (h : tr ∈ g1.triples) : tr ∈ g2.triples :=
  h1.sub_noBlank h2 (fun h => by cases h) hb h

end Tfv.Voc
