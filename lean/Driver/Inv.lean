import Tfv.DriverCore
import Tfv.Proofs.InferConstrMain
import Tfv.Proofs.InferNoInternalTop
import Tfv.Spec.HistoryShiftConstr
import Tfv.Proofs.ResolvedElimCheck
import Tfv.Proofs.WildConstr
import Tfv.Proofs.FuelStableUse
/-!
# tfv-inv — the hypotheses of the engine theorems, checked on the runs the correspondence check makes

The soundness theorems of C03/C04/C05/C16/C17/C18 are stated for stores that satisfy `OkStoreC` (well formed, with
pending constraints), `FuelOk`/`Chains` (finite binding chains) and, for witnesses, `Acyclic`. Those hold of every
store reachable from the empty one (that is what the theorems' `…_keeps` parts say); this executable evaluates the
decidable checkers (`okStoreCB`, `chainsB`, `acyclicB`, each proved sound) on EVERY intermediate store of the
`(infer …)` lines it is given - the same lines the implementation is compared on - so that the theorems are seen to
apply to the runs that tie the model to the code, not only to hand-picked examples.

Input: the protocol lines of the driver (`lang`, `infer`; other lines are ignored). Output per `infer` line:
`inv <number of stores checked> <xyz>` with x, y, z ∈ {T, F}: `okStoreCB`, `chainsB`, `acyclicB` true on all of them.
`OkStoreC` and `Chains` are invariants of the engine (theorems `…_keeps`), so x and y can only be T unless a checker is
incomplete; `Acyclic` is a hypothesis of the witness theorems that the engine does not establish, so z says whether those
theorems applied to the run. A fourth character reports `historyStable` (T/F, `-` = arguments not concrete): the decidable hypothesis under
which `C16s_history_independent_partial` says the run behind ANY history is the fresh run shifted. A fifth character is the wildcard certificate `subsStrictB` on the last store reached (`C03w_certificate_sound`). A sixth character is `useSafe` (T/F, `-` = arguments not concrete). Two numbers follow: the resolved
elimination records of the final store and how many of them the verified monitor `elimHoldsB` accepts (`elimMonitor`).
-/
namespace Tfv
open Tfv.C03C Tfv.C03P

/-- (OkStoreC, Chains, Acyclic) -/
def invOk (L : Lang) (σ : Store) : Bool × Bool × Bool := (okStoreCB L σ, Tfv.C17E.chainsB σ, acyclicB σ)

/-- the certificate of `C03w_certificate_sound` (every subtype constraint marked fulfilled passes the matcher with all wildcard flags
cleared): sufficient, not necessary, for the marked constraints of a store WITH wildcards to hold under every solution -/
def wildCert (L : Lang) (σ : Store) : Bool := subsStrictB L σ

def and3 (a b : Bool × Bool × Bool) : Bool × Bool × Bool := (a.1 && b.1, a.2.1 && b.2.1, a.2.2 && b.2.2)

/-- following bindings at every level gives a closed term -/
partial def resolvedB (σ : Store) (t : Term) : Bool :=
  match followT σ t with
  | .var _ => false
  | .app _ args => args.all (resolvedB σ)

/-- The verified monitor of C03's last clause for elimination constraints (`elimHoldsB`, exact on resolved records by
`C03e_monitor_exact_partial`): (number of elimination records of `σ` whose reference and alternatives are all resolved, how many of
them the monitor accepts). Covers the case no theorem covers yet - records marked fulfilled with several alternatives. -/
def elimMonitor (L : Lang) (σ : Store) : Nat × Nat :=
  (List.range σ.constrs.length).foldl (fun (acc : Nat × Nat) c =>
    match getConstr σ c with
    | .elim r as _ =>
      if resolvedB σ r && as.all (resolvedB σ) then (acc.1 + 1, acc.2 + (if Tfv.C03E.elimHoldsB L σ c then 1 else 0)) else acc
    | _ => acc) (0, 0)

def runInferInv (L : Lang) (s : Schema) (args : List (Nat × Term)) : Nat × Bool × Bool × Bool × Nat × Nat × Bool :=
  match instantiate L engineFuel {} s with
  | .error _ => (0, true, true, true, 0, 0, true)
  | .ok (σ, f) =>
    let rec go (σ : Store) (f : Term) (n : Nat) (ok : Bool × Bool × Bool) : List (Nat × Term) → Nat × Bool × Bool × Bool × Nat × Nat × Bool
      | [] => let m := elimMonitor L σ; (n, ok.1, ok.2.1, ok.2.2, m.1, m.2, wildCert L σ)
      | (nw, a) :: rest =>
        let base := σ.vars.length
        let σ1 := allocVars σ 0 nw
        match applyT L engineFuel σ1 f (a.shift base) with
        | .error _ => (n, ok.1, ok.2.1, ok.2.2, 0, 0, wildCert L σ)
        | .ok (σ2, r) => go σ2 r (n + 1) (and3 ok (invOk L σ2)) rest
    go σ f 1 (invOk L σ) args

/-- The hypothesis `hstable` of `C16s_history_independent_partial` (by `C16s_history_independent_iff` it is also necessary): the use of
the schema on CONCRETE arguments from the empty store does not depend on the fuel offsets a history of `kv` variables and `kc`
constraints induces. Evaluated for three history sizes; `none` when an argument is not concrete (the theorem does not speak about it). -/
def historyStable (L : Lang) (s : Schema) (args : List (Nat × Term)) : Option Bool :=
  if args.all (fun a => a.1 == 0) && Term.closedL (args.map (·.2)) then
    let xs := args.map (·.2)
    let base := reprStr (useSchema L engineFuel true {} s xs)
    some ([(3, 1), (17, 5), (100, 40)].all fun (kv, kc) => reprStr (useSchemaE L kv kc engineFuel true {} s xs) == base)
  else none

/-- `useSafe` (Tfv/Proofs/FuelStableUse.lean): at every fuelled helper call of the fresh run the binding chains end, the terms walked have
resolved depth at most 63 and the constraint closure has stabilised - by `C16d_history_independent_partial` the use then gives the fresh
outcome shifted behind EVERY history; it is also the model's domain of fidelity (beyond it the fuels give up where Python keeps recursing) -/
def fuelSafe (L : Lang) (s : Schema) (args : List (Nat × Term)) : Option Bool :=
  if args.all (fun a => a.1 == 0) && Term.closedL (args.map (·.2)) then
    some (Tfv.C16D.useSafe L engineFuel true s (args.map (·.2)))
  else none

partial def invLoop (h : IO.FS.Stream) (out : IO.FS.Stream) (st : DState) : IO Unit := do
  let line ← h.getLine
  if line.isEmpty then return ()
  match Sexp.parse line with
  | some [e] =>
    match e with
    | .list (.atom "infer" :: s :: args) =>
      match Sexp.schema? s, args.mapM Sexp.arg? with
      | some s, some args =>
        let (n, a, b, c, em, eh, wc) := runInferInv st.lang s args
        let f (x : Bool) := if x then "T" else "F"
        let h := match historyStable st.lang s args with
          | some true => "T" | some false => "F" | none => "-"
        let fs := match fuelSafe st.lang s args with
          | some true => "T" | some false => "F" | none => "-"
        out.putStrLn s!"inv {n} {f a}{f b}{f c}{h}{f wc}{fs} {em} {eh}"
      | _, _ => out.putStrLn "bad-line"
      invLoop h out st
    | .list (.atom "lang" :: _) =>
      let (st', _) := step st e
      invLoop h out st'
    | _ => invLoop h out st
  | _ => invLoop h out st

end Tfv

def main : IO Unit := do
  let out ← IO.getStdout
  Tfv.invLoop (← IO.getStdin) out {}
  out.flush
