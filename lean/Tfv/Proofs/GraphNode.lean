import Tfv.Proofs.GraphSubtype
import Tfv.Proofs.GraphNorm
/-!
# The annotations of an operator leaf and of a source leaf
-/
namespace Tfv
open Tfv.Tax

theorem mem_opTriples {c : GCfg} {root : Node} {g : GState} {cur : Nat} {name : String} {t : Triple} :
    t ∈ (opTriples c root g cur name).triples ↔
      (t ∈ g.triples ∨ (c.withOperators = true ∧ (t = (.b cur, .tf "via", .ns name) ∨
        (c.withMembership = true ∧ t = (root, .tf "containsOperation", .ns name))))) := by
  unfold opTriples
  by_cases h : c.withOperators = true
  · simp only [h, if_true, mem_iteAdd, mem_add, true_and, or_assoc]
  · simp [h]

theorem opTriples_sameBut (c : GCfg) (root : Node) (g : GState) (cur : Nat) (name : String) :
    SameBut g (opTriples c root g cur name) := by
  unfold opTriples
  split
  · exact .trans (.add _ _) (.iteAdd _ _ _)
  · exact .refl g

theorem mem_addOrigin {c : GCfg} {origin : Option Node} {g : GState} {k : Nat} {t : Triple} :
    t ∈ (addOrigin c origin g k).triples ↔
      (t ∈ g.triples ∨ ∃ o, origin = some o ∧ c.withWorkflowOrigin = true ∧ t = (.b k, .tf "origin", o)) := by
  unfold addOrigin
  cases origin with
  | none => simp
  | some o => simp [mem_iteAdd]

theorem addOrigin_sameBut (c : GCfg) (origin : Option Node) (g : GState) (k : Nat) :
    SameBut g (addOrigin c origin g k) := by
  unfold addOrigin
  cases origin with
  | none => exact .refl g
  | some o => exact .iteAdd _ _ _

/-- the operator leaf: node, `via` and `containsOperation` -/
theorem addExpr_op_node (G : GLang) (c : GCfg) (root : Node) (origin : Option Node) (g : GState) (name : String)
    (ty : Term) (cur : Nat) (inter : Bool) (g' : GState) (n : Nat)
    (h : addExpr G c root origin g (.op name ty) (some cur) inter = .ok (g', n)) :
    n = cur ∧ (c.withOperators = true → (Node.b cur, Node.tf "via", Node.ns name) ∈ g'.triples ∧
      (c.withMembership = true → (root, Node.tf "containsOperation", Node.ns name) ∈ g'.triples)) := by
  rw [addExpr_op] at h
  refine ⟨(opBody_step h).2, ?_⟩
  intro hO
  unfold opBody at h
  simp only [] at h
  split at h
  · cases h
  · rename_i g2 hr
    simp only [Except.ok.injEq, Prod.mk.injEq] at h
    obtain ⟨rfl, _⟩ := h
    have mono : ∀ t, t ∈ (opTriples c root g cur name).triples → t ∈ (addOrigin c origin g2 cur).triples := by
      intro t ht
      refine mem_addOrigin.2 (.inl ?_)
      split at hr
      · exact (annotateType_step G c _ root cur _ true g2 hr).triples_mono t ht
      · simp only [Except.ok.injEq] at hr
        rw [← hr]; exact ht
    exact ⟨mono _ (mem_opTriples.2 (.inr ⟨hO, .inl rfl⟩)),
      fun hM => mono _ (mem_opTriples.2 (.inr ⟨hO, .inr ⟨hM, rfl⟩⟩))⟩

/-- the operator leaf whose output type, read through the graph's store (`normT G.store (outputType 1000 ty)`), is
canonical; default node table: its `subtypeOf` objects -/
theorem addExpr_op_subtypeOf (G : GLang) (c : GCfg) (hcT : c.withCanonicalTypes = false)
    (hS : c.withSupertypes = true) (hTy : c.withTypes = true) (root : Node) (origin : Option Node) (g : GState)
    (l : List (Term × Node)) (hg : g.typeNodes = (initGraph G c).typeNodes ++ l) (name : String) (ty : Term)
    (t : Ty) (hout : normT G.store (outputType 1000 ty) = t.toTerm) (hC : memTy t G.canon = true) (cur : Nat)
    (inter : Bool) (hE : (c.withIntermediateTypes || !inter) = true) (g' : GState) (n : Nat)
    (h : addExpr G c root origin g (.op name ty) (some cur) inter = .ok (g', n)) (o : Node) :
    (Node.b cur, Node.tf "subtypeOf", o) ∈ g'.triples ↔
      ((Node.b cur, Node.tf "subtypeOf", o) ∈ g.triples ∨
        ∃ s, (s = t ∨ s ∈ langSucc G.types G.cfg G.canon (G.canon.length + 2) true t true) ∧
          typeUri G s.toTerm = .ok o) := by
  rw [addExpr_op] at h
  unfold opBody at h
  simp only [] at h
  have hcond : (c.withTypes && (c.withNoncanonicalTypes || inCanon G (normT G.store (outputType 1000 ty))) &&
      (c.withIntermediateTypes || !inter)) = true := by
    rw [hout, inCanon_toTerm, hTy, hC, hE]; simp
  rw [if_pos hcond] at h
  split at h
  · cases h
  · rename_i g2 hr
    simp only [Except.ok.injEq, Prod.mk.injEq] at h
    obtain ⟨rfl, _⟩ := h
    rw [hout] at hr
    have hg1 : (opTriples c root g cur name).typeNodes = (initGraph G c).typeNodes ++ l := by
      rw [(opTriples_sameBut c root g cur name).typeNodes]; exact hg
    have key := annotateType_subtypeOf_exact G c hcT hS _ l hg1 root cur t hC true g2 hr o
    have e1 : (Node.b cur, Node.tf "subtypeOf", o) ∈ (addOrigin c origin g2 cur).triples ↔
        (Node.b cur, Node.tf "subtypeOf", o) ∈ g2.triples := by
      rw [mem_addOrigin]
      constructor
      · rintro (h | ⟨_, _, _, he⟩)
        · exact h
        · simp only [Prod.mk.injEq, Node.tf.injEq] at he
          exact absurd he.2.1 (by decide)
      · exact .inl
    have e2 : (Node.b cur, Node.tf "subtypeOf", o) ∈ (opTriples c root g cur name).triples ↔
        (Node.b cur, Node.tf "subtypeOf", o) ∈ g.triples := by
      rw [mem_opTriples]
      constructor
      · rintro (h | ⟨_, he | ⟨_, he⟩⟩)
        · exact h
        · simp only [Prod.mk.injEq, Node.tf.injEq] at he
          exact absurd he.2.1 (by decide)
        · simp only [Prod.mk.injEq, Node.tf.injEq] at he
          exact absurd he.2.1 (by decide)
      · exact .inl
    show (Node.b cur, Node.tf "subtypeOf", o) ∈ (addOrigin c origin g2 cur).triples ↔ _
    rw [e1, key, e2]

/-- the same when the STORED output type is already the canonical `t` (no variable in it: the store is irrelevant) -/
theorem addExpr_op_subtypeOf_stored (G : GLang) (c : GCfg) (hcT : c.withCanonicalTypes = false)
    (hS : c.withSupertypes = true) (hTy : c.withTypes = true) (root : Node) (origin : Option Node) (g : GState)
    (l : List (Term × Node)) (hg : g.typeNodes = (initGraph G c).typeNodes ++ l) (name : String) (ty : Term)
    (t : Ty) (hout : outputType 1000 ty = t.toTerm) (hC : memTy t G.canon = true) (cur : Nat) (inter : Bool)
    (hE : (c.withIntermediateTypes || !inter) = true) (g' : GState) (n : Nat)
    (h : addExpr G c root origin g (.op name ty) (some cur) inter = .ok (g', n)) (o : Node) :
    (Node.b cur, Node.tf "subtypeOf", o) ∈ g'.triples ↔
      ((Node.b cur, Node.tf "subtypeOf", o) ∈ g.triples ∨
        ∃ s, (s = t ∨ s ∈ langSucc G.types G.cfg G.canon (G.canon.length + 2) true t true) ∧
          typeUri G s.toTerm = .ok o) :=
  addExpr_op_subtypeOf G c hcT hS hTy root origin g l hg name ty t
    (by rw [hout]; exact GraphN.normT_toTerm G.store t) hC cur inter hE g' n h o

theorem not_origin_subtypeOf {c : GCfg} {origin : Option Node} {g : GState} {k cur : Nat} {o : Node} :
    (Node.b cur, Node.tf "subtypeOf", o) ∈ (addOrigin c origin g k).triples ↔
      (Node.b cur, Node.tf "subtypeOf", o) ∈ g.triples := by
  rw [mem_addOrigin]
  constructor
  · rintro (h | ⟨_, _, _, he⟩)
    · exact h
    · simp only [Prod.mk.injEq, Node.tf.injEq] at he
      exact absurd he.2.1 (by decide)
  · exact .inl

/-- a new source leaf whose STORED type is the canonical `t` (then `normT G.store t.toTerm = t.toTerm`, and the
caller-decided `canonical` flag is `true`); default node table: its `subtypeOf` objects -/
theorem addExpr_src_subtypeOf (G : GLang) (c : GCfg) (hcT : c.withCanonicalTypes = false)
    (hS : c.withSupertypes = true) (hTy : c.withTypes = true) (root : Node) (origin : Option Node) (g : GState)
    (l : List (Term × Node)) (hg : g.typeNodes = (initGraph G c).typeNodes ++ l) (id : Nat) (lbl : Option String)
    (t : Ty) (hC : memTy t G.canon = true) (hnew : g.srcNodes.find? (fun p => p.1 == id) = none) (cur : Nat)
    (inter : Bool) (g' : GState) (n : Nat)
    (h : addExpr G c root origin g (.src id lbl t.toTerm) (some cur) inter = .ok (g', n)) (o : Node) :
    n = cur ∧ ((Node.b cur, Node.tf "subtypeOf", o) ∈ g'.triples ↔
      ((Node.b cur, Node.tf "subtypeOf", o) ∈ g.triples ∨
        ∃ s, (s = t ∨ s ∈ langSucc G.types G.cfg G.canon (G.canon.length + 2) true t true) ∧
          typeUri G s.toTerm = .ok o)) := by
  rw [addExpr_src, hnew] at h
  simp only [] at h
  refine ⟨(srcBody_step h).2, ?_⟩
  unfold srcBody at h
  simp only [] at h
  have hcond : (c.withTypes && (inCanon G (normT G.store t.toTerm) || c.withNoncanonicalTypes)) = true := by
    rw [GraphN.normT_toTerm, inCanon_toTerm, hTy, hC]; simp
  rw [if_pos hcond] at h
  split at h
  · cases h
  · rename_i g2 hr
    simp only [Except.ok.injEq, Prod.mk.injEq] at h
    obtain ⟨rfl, _⟩ := h
    rw [GraphN.normT_toTerm] at hr
    have hr' : annotateType G c { g with srcNodes := g.srcNodes ++ [(id, cur)] } root cur t.toTerm false = .ok g2 := hr
    have key := annotateType_subtypeOf_exact G c hcT hS _ l (by exact hg) root cur t hC false g2 hr' o
    show (Node.b cur, Node.tf "subtypeOf", o) ∈ (addOrigin c origin g2 cur).triples ↔ _
    rw [not_origin_subtypeOf, key]

/-! ## a source whose stored type is not canonical -/

/-- `annotateType` told by its caller that the type is not canonical: no `subtypeOf` triple is added -/
theorem annotateType_false_subtypeOf (G : GLang) (c : GCfg) (g : GState) (root : Node) (cur : Nat) (ty : Term)
    (mf : Bool) (g' : GState) (h : annotateType G c g root cur ty mf (some false) = .ok g') (s o : Node)
    (ht : (s, Node.tf "subtypeOf", o) ∈ g'.triples) : (s, Node.tf "subtypeOf", o) ∈ g.triples := by
  unfold annotateType at h
  split at h
  · cases h
  · rename_i g1 tn h1
    simp only [Option.getD_some, Bool.and_false, Bool.false_eq_true, if_false] at h
    have hg' : g' = (if c.withMembership = true then
        (g1.add (.b cur, .tf "type", tn)).add (root, .tf "containsType", tn)
        else g1.add (.b cur, .tf "type", tn)) := by
      split at h <;> simp only [Except.ok.injEq] at h <;> exact h.symm
    rw [hg', mem_iteAdd, mem_add] at ht
    rcases ht with (ht | ht) | ⟨_, ht⟩
    · rcases (addType_step G c _ _ _ _ _ h1).new_triples _ ht with ht | hp
      · exact ht
      · exact absurd rfl (hp "subtypeOf")
    · simp only [Prod.mk.injEq, Node.tf.injEq] at ht
      exact absurd ht.2.1 (by decide)
    · simp only [Prod.mk.injEq, Node.tf.injEq] at ht
      exact absurd ht.2.1 (by decide)

/-- a new source leaf whose type - FOLLOWED through the final store - is not canonical gets no `subtypeOf` triple
(before the repair of defect D30 the test was made on the stored type object, so a source whose variable had been bound
to a canonical type after it was fixed got none either) -/
theorem addExpr_src_stale (G : GLang) (c : GCfg) (root : Node) (origin : Option Node) (g : GState) (id : Nat)
    (lbl : Option String) (ty : Term) (hC : inCanon G (normT G.store ty) = false)
    (hnew : g.srcNodes.find? (fun p => p.1 == id) = none) (cur : Option Nat) (inter : Bool) (g' : GState) (n : Nat)
    (h : addExpr G c root origin g (.src id lbl ty) cur inter = .ok (g', n)) (s o : Node)
    (ht : (s, Node.tf "subtypeOf", o) ∈ g'.triples) : (s, Node.tf "subtypeOf", o) ∈ g.triples := by
  rw [addExpr_src, hnew] at h
  simp only [] at h
  unfold srcBody at h
  simp only [hC] at h
  split at h
  · cases h
  · rename_i g2 hr
    simp only [Except.ok.injEq, Prod.mk.injEq] at h
    obtain ⟨rfl, _⟩ := h
    have h2 : (s, Node.tf "subtypeOf", o) ∈ g2.triples := by
      rw [mem_addOrigin] at ht
      rcases ht with ht | ⟨_, _, _, he⟩
      · exact ht
      · simp only [Prod.mk.injEq, Node.tf.injEq] at he
        exact absurd he.2.1 (by decide)
    have h3 : (s, Node.tf "subtypeOf", o) ∈ (curOrFresh g cur).1.triples := by
      split at hr
      · exact annotateType_false_subtypeOf G c _ root _ _ false g2 hr s o h2
      · simp only [Except.ok.injEq] at hr
        rw [← hr] at h2; exact h2
    cases cur with
    | none => exact h3
    | some k => exact h3

end Tfv
