import Tfv.Model
import Tfv.Generated
/-!
Line-protocol driver: one s-expression per line in, one canonical line out.
It evaluates the same definitions the theorems in `Tfv/Props` are about.
-/
open Tfv

structure DState where
  lang : Lang := builtinDecls
  aliases : List AliasDecl := []
  opNames : List String := []
  ops : List OperatorDecl := []
  canonCfg : CanonCfg := {}
  canon : List Ty := []
  deriving Inhabited

def DState.plang (st : DState) : PLang := { types := st.lang, aliases := st.aliases }

partial def showTerm : Term → String
  | .var v => s!"(v {v})"
  | .app o [] => s!"({o})"
  | .app o args => "(" ++ toString o ++ " " ++ " ".intercalate (args.map showTerm) ++ ")"

/-- variables renamed by first occurrence within the term -/
partial def termVars : Term → List Nat → List Nat
  | .var v, acc => if acc.contains v then acc else acc ++ [v]
  | .app _ args, acc => args.foldl (fun acc t => termVars t acc) acc

partial def showTermWith (names : List Nat) : Term → String
  | .var v => s!"(v {(names.idxOf? v).getD 0})"
  | .app o [] => s!"({o})"
  | .app o args => "(" ++ toString o ++ " " ++ " ".intercalate (args.map (showTermWith names)) ++ ")"

def showTermFirstOcc (t : Term) : String := showTermWith (termVars t []) t

def showPErr : PErr → String
  | .parseError _ => "ParseError"
  | .bracketMismatch => "BracketMismatch"
  | .emptyParse => "EmptyParse"
  | .undefinedToken _ => "UndefinedTokenError"
  | .missingInput _ => "MissingInputError"
  | .typeParameter => "TypeParameterError"
  | .typeAnnotation => "TypeAnnotationError"
  | .application _ => "ApplicationError"
  | .typing e => showErr e
  | .internal site => "Internal(" ++ site ++ ")"

partial def showPExpr : PExpr → String
  | .src id => s!"(src {id})"
  | .input k => s!"(in {k})"
  | .op name => name
  | .app f x => "(" ++ showPExpr f ++ " " ++ showPExpr x ++ ")"
  | .ann e t => "(: " ++ showPExpr e ++ " " ++ showTerm t ++ ")"

def parseAliasDecl : Sexp → Option AliasDecl
  | .list [.atom name, ar, body] => do pure ⟨name, ← Sexp.nat? ar, ← Sexp.term? body⟩
  | _ => none

def atomStr : Sexp → Option String
  | .atom s => some s
  | _ => none

def parseLangDecl : Sexp → Option OpDecl
  | .list [.atom name, .list vs, p] => do
      let vs ← vs.mapM (fun v => match v with
        | .atom "+" => some true | .atom "-" => some false | _ => none)
      let parent ← match p with
        | .atom "-" => some none
        | .atom n => n.toNat?.map some
        | _ => none
      pure ⟨name, vs, parent⟩
  | _ => none

def boolOf : Sexp → Option Bool
  | .atom "T" => some true
  | .atom "F" => some false
  | _ => none

def sortStrs (xs : List String) : List String := xs.mergeSort (fun a b => a ≤ b)

def showCErr : CErr → String
  | .typeMismatch => "TypeMismatch"
  | .subtypeMismatch => "SubtypeMismatch"
  | .functionApplication => "FunctionApplicationError"

def showUErr : UErr → String
  | .keyError => "KeyError"
  | .assertion => "AssertionError"

def leTy (L : Lang) (s t : Ty) : Bool := isSubtype L s t false

def parseEdge : Sexp → Option (Nat × Nat × Bool)
  | .list [a, b, r] => do pure ((← Sexp.nat? a), (← Sexp.nat? b), (← boolOf r))
  | _ => none

def showPairs (r : Rel) : String :=
  let strs := (r.map (fun p => s!"({p.1} {p.2})")).eraseDups
  " ".intercalate (sortStrs strs)

def stepBasic (st : DState) (e : Sexp) : Option (DState × String) :=
  let L := st.lang
  match e with
  | .list (.atom "lang" :: ds) =>
    match ds.mapM parseLangDecl with
    | some L' => some ({ st with lang := L' }, s!"ok {showBool (wfLangB L')}")
    | none => none
  | .list [.atom "sub", s, t] => do
    let s ← Sexp.ty? s; let t ← Sexp.ty? t
    pure (st, showBool (sub L s t))
  | .list [.atom "eq", s, t] => do
    let s ← Sexp.ty? s; let t ← Sexp.ty? t
    pure (st, showBool (eqM L s t))
  | .list [.atom "issub", s, t, b] => do
    let s ← Sexp.ty? s; let t ← Sexp.ty? t; let b ← boolOf b
    pure (st, showBool (isSubtype L s t b))
  | .list [.atom "opsub", a, b, c] => do
    let a ← Sexp.nat? a; let b ← Sexp.nat? b; let c ← boolOf c
    pure (st, showBool (opSub L a b c))
  | .list [.atom "wfty", t] => do
    let t ← Sexp.ty? t
    pure (st, showBool (wfTy L t))
  | .list [.atom "apply", f, x] => do
    let f ← Sexp.ty? f; let x ← Sexp.ty? x
    pure (st, match applyC L f x with
      | .ok t => "ok " ++ t.show
      | .error e => "E:" ++ showCErr e)
  | .list (.atom "union" :: spec :: ts) => do
    let spec ← boolOf spec
    let ts ← ts.mapM Sexp.ty?
    pure (st, " ".intercalate (sortStrs ((unionOf (leTy L) spec ts).map Ty.show)))
  | .list (.atom "bag" :: reqs) => do
    let reqs ← reqs.mapM (fun r => match r with
      | .list ts => ts.mapM Sexp.ty?
      | _ => none)
    let content := bagOf (leTy L) reqs
    let clauses := content.map (fun c => "[" ++ " ".intercalate (sortStrs (c.map Ty.show)) ++ "]")
    pure (st, " ".intercalate (sortStrs clauses))
  | .list (.atom "addfrom" :: es) => do
    let es ← es.mapM parseEdge
    let g := es.foldl (fun g (e : Nat × Nat × Bool) => addFrom g e.1 e.2.1 e.2.2) ({} : FD)
    pure (st, "dep " ++ showPairs g.dep)
  | .list [.atom "uri", t] => do
    let t ← Sexp.ty? t
    pure (st, uriLocal L t)
  | .list [.atom "deuri", s] => do
    let s ← Sexp.str? s
    pure (st, match decodeUri L s with
      | .ok t => "ok " ++ t.show
      | .error e => "E:" ++ showUErr e)
  | _ => none

def stepInfer (st : DState) (e : Sexp) : Option (DState × String) :=
  let L := st.lang
  match e with
  | .list (.atom "infer" :: s :: args) => do
    let s ← Sexp.schema? s
    let args ← args.mapM Sexp.arg?
    pure (st, runInfer L s args)
  | .list (.atom "infersched" :: .list perm :: s :: args) => do
    let perm ← perm.mapM Sexp.nat?
    let s ← Sexp.schema? s
    let args ← args.mapM Sexp.arg?
    pure (st, runInferS L (priorityOrd perm) s args)
  | _ => none

def stepParse (st : DState) (e : Sexp) : Option (DState × String) :=
  match e with
  | .list (.atom "aliases" :: ds) => do
    let ds ← ds.mapM parseAliasDecl
    pure ({ st with aliases := ds }, "ok")
  | .list (.atom "opnames" :: ns) => do
    let ns ← ns.mapM atomStr
    pure ({ st with opNames := ns }, "ok")
  | .list [.atom "tokenize", .atom mode, s] => do
    let s ← Sexp.str? s
    let specials := if mode == "expr" then Generated.exprSpecials else Generated.typeSpecials
    let toks := tokenize specials Generated.blanks s
    pure (st, toString toks.length ++ " " ++ " ".intercalate (toks.map (fun t => "(s" ++ String.join (t.toList.map (fun c => " " ++ toString c.toNat)) ++ ")")))
  | .list [.atom "ttext", t] => do
    let t ← Sexp.ty? t
    let txt := typeText st.lang t
    let same := tokenize Generated.typeSpecials Generated.blanks txt == typeToks st.lang t
    pure (st, (if same then "T " else "F ") ++ "(s" ++ String.join (txt.toList.map (fun c => " " ++ toString c.toNat)) ++ ")")
  | .list [.atom "ptype", s] => do
    let s ← Sexp.str? s
    let toks := tokenize Generated.typeSpecials Generated.blanks s
    pure (st, match parseTypeToks st.plang toks with
      | .ok (t, _) => "ok " ++ showTermFirstOcc t
      | .error e => "E:" ++ showPErr e)
  | .list [.atom "pexpr", n, s] => do
    let n ← Sexp.nat? n
    let s ← Sexp.str? s
    let toks := tokenize Generated.exprSpecials Generated.blanks s
    let inputs := (List.range n).map (fun k => PExpr.input (k + 1))
    pure (st, match parseExprToks st.plang (freeBuilder st.opNames) inputs {} toks with
      | .ok (fs, e) => "ok " ++ showPExpr e.erase ++ " |" ++ String.join (fs.anns.map (fun t => " " ++ showTermFirstOcc t))
      | .error e => "E:" ++ showPErr e)
  | _ => none

def showPErrT : PErr → String
  | .application e => "ApplicationError:" ++ showErr e
  | e => showPErr e

/-- expression trees for programmatic construction: `(op name)`, `(in k)`, `(src)`, `(call head arg …)` -/
inductive CTree where
  | op (name : String) | input (k : Nat) | src | call (head : CTree) (args : List CTree)
  deriving Inhabited

partial def ctree? : Sexp → Option CTree
  | .list [.atom "op", .atom n] => some (.op n)
  | .list [.atom "in", k] => (Sexp.nat? k).map .input
  | .list [.atom "src"] => some .src
  | .list (.atom "call" :: h :: args) => do pure (.call (← ctree? h) (← args.mapM ctree?))
  | _ => none

/-- Python evaluation order of `head(arg, …)`: the callee expression, the arguments left to right, then
(an `Operator` callee is instantiated by `__call__` only now) one application per argument -/
partial def buildCTree (L : Lang) (ops : List OperatorDecl) (inputs : List TExpr) (s : XState) : CTree → Except PErr (XState × TExpr)
  | .op n => mkOpT L ops s n
  | .input k => match lookupInput inputs k with
    | some e => .ok (s, e)
    | none => .error (.missingInput k)
  | .src => .ok (mkSourceT s)
  | .call h args => do
    let mut s := s
    -- the callee expression is evaluated first; an `Operator` callee is only instantiated by `__call__`, after the arguments
    let mut early : Option TExpr := none
    match h with
    | .op _ => pure ()
    | _ =>
      let (s', f) ← buildCTree L ops inputs s h
      s := s'
      early := some f
    let mut es : List TExpr := []
    for a in args do
      let (s', e) ← buildCTree L ops inputs s a
      s := s'
      es := es ++ [e]
    match early with
    | some f => callT L s f es
    | none =>
      let (s', f) ← buildCTree L ops inputs s h
      callT L s' f es

def finishTyped (L : Lang) (doFix : Bool) (r : Except PErr (XState × TExpr)) : String :=
  match r with
  | .error e => "E:" ++ showPErrT e
  | .ok (s, e) =>
    if doFix then
      match fixExpr L s.store e with
      | .error err => "E:" ++ showErr err
      | .ok (σ, e') => "ok " ++ renderExpr σ e'
    else "ok " ++ renderExpr s.store e

def stepExpr (st : DState) (e : Sexp) : Option (DState × String) :=
  match e with
  | .list (.atom "operators" :: ds) => do
    let ds ← ds.mapM Sexp.opdecl?
    pure ({ st with ops := ds }, "ok")
  | .list [.atom "texpr", n, fx, s] => do
    let n ← Sexp.nat? n
    let fx ← boolOf fx
    let s ← Sexp.str? s
    let toks := tokenize Generated.exprSpecials Generated.blanks s
    let (s0, inputs) := mkInputs n {}
    pure (st, finishTyped st.lang fx (parseExprToks st.plang (typedBuilder st.lang st.ops true) inputs s0 toks))
  | .list [.atom "texprf", n, fx, af, s] => do
    -- `lang.parse(text, *inputs, fix=af)`: the output type of each application is fixed as it is built, or not
    let n ← Sexp.nat? n
    let fx ← boolOf fx
    let af ← boolOf af
    let s ← Sexp.str? s
    let toks := tokenize Generated.exprSpecials Generated.blanks s
    let (s0, inputs) := mkInputs n {}
    pure (st, finishTyped st.lang fx (parseExprToks st.plang (typedBuilder st.lang st.ops af) inputs s0 toks))
  | .list [.atom "fixcase", .list bs, t, pl] => do
    let bs ← bs.mapM (fun b => match b with
      | .list [lo, hi] => some ((match lo with | .atom "-" => none | x => Sexp.nat? x), (match hi with | .atom "-" => none | x => Sexp.nat? x))
      | _ => none)
    let t ← Sexp.term? t
    let pl ← boolOf pl
    let σ : Store := bs.foldl (fun σ (b : Option Nat × Option Nat) =>
      let (σ1, v) := newVar σ
      setVar σ1 v { (getVar σ1 v) with lower := b.1, upper := b.2 }) {}
    pure (st, match fix st.lang engineFuel σ t pl with
      | .error e => "E:" ++ showErr e
      | .ok (σ1, r) => "ok " ++ renderResult σ1 r)
  | .list [.atom "tcall", n, fx, t] => do
    let n ← Sexp.nat? n
    let fx ← boolOf fx
    let t ← ctree? t
    let (s0, inputs) := mkInputs n {}
    pure (st, finishTyped st.lang fx (buildCTree st.lang st.ops inputs s0 t))
  | _ => none

def showTys (ts : List Ty) : String := " ".intercalate (sortStrs ((dedupTy ts).map Ty.show))

def stepCanon (st : DState) (e : Sexp) : Option (DState × String) :=
  let L := st.lang
  match e with
  | .list (.atom "canon" :: tp :: bt :: ts) => do
    let tp ← boolOf tp; let bt ← boolOf bt
    let ts ← ts.mapM Sexp.ty?
    let cfg : CanonCfg := { includeTop := tp, includeBottom := bt }
    let c := mkCanon L cfg ts
    pure ({ st with canonCfg := cfg, canon := c }, "ok " ++ showTys c)
  | .list [.atom "lsucc", up, tr, t] => do
    let up ← boolOf up; let tr ← boolOf tr; let t ← Sexp.ty? t
    pure (st, showTys (langSucc L st.canonCfg st.canon (st.canon.length + 2) up t tr))
  | .list [.atom "succ", up, cu, bt, tp, un, t] => do
    let up ← boolOf up; let cu ← boolOf cu; let bt ← boolOf bt; let tp ← boolOf tp; let un ← boolOf un
    let t ← Sexp.ty? t
    let o : SOpts := { custom := cu, bottom := bt, top := tp, univ := if un then typeUniverse L else [] }
    pure (st, showTys (succT L o up t))
  | _ => none

def showNode : Node → String
  | .tf n => "tf:" ++ n
  | .ns n => "ns:" ++ n
  | .rdf n => "rdf:" ++ n
  | .rdfs n => "rdfs:" ++ n
  | .b k => "_:" ++ toString k
  | .res n => "wf:" ++ n

def showTriples (ts : List Triple) : String :=
  " ".intercalate (sortStrs (ts.map (fun t => "(" ++ showNode t.1 ++ " " ++ showNode t.2.1 ++ " " ++ showNode t.2.2 ++ ")")))

def showGErr : GErr → String
  | .nonCanonical => "NonCanonicalTypeError"
  | .unexpectedVariable => "UnexpectedVariableError"
  | .internal s => "Internal(" ++ s ++ ")"

def gcfgOfBits (bs : List Bool) : GCfg :=
  let b (i : Nat) := bs.getD i true
  { withOperators := b 0, withTypes := b 1, withSupertypes := b 2, withIntermediateTypes := b 3, withMembership := b 4,
    withMembershipSupertypes := b 5, withTypeParameters := b 6, withClasses := b 7, withCanonicalTypes := b 8,
    withNoncanonicalTypes := b 9, withSupertypeClasses := b 10, withWorkflowOrigin := b 11, withDependencies := b 12 }

def DState.glang (st : DState) : GLang := { types := st.lang, cfg := st.canonCfg, canon := st.canon }

/-- `(src id ty) | (const name id ty) | (op name ty) | (app f x ty) | (lam (p…) body ty) | (pvar id ty)` -/
partial def aexpr? : Sexp → Option AExpr
  | .list [.atom "src", i, t] => do pure (.src (← Sexp.nat? i) none (← Sexp.term? t))
  | .list [.atom "const", .atom n, i, t] => do pure (.src (← Sexp.nat? i) (some n) (← Sexp.term? t))
  | .list [.atom "op", .atom n, t] => do pure (.op n (← Sexp.term? t))
  | .list [.atom "app", f, x, t] => do pure (.app (← aexpr? f) (← aexpr? x) (← Sexp.term? t))
  | .list [.atom "lam", .list ps, b, t] => do pure (.lam (← ps.mapM Sexp.nat?) (← aexpr? b) (← Sexp.term? t))
  | .list [.atom "pvar", i, t] => do pure (.pvar (← Sexp.nat? i) (← Sexp.term? t))
  | _ => none

def stepGraph (st : DState) (e : Sexp) : Option (DState × String) :=
  match e with
  | .list (.atom "gvocab" :: .atom bits :: cl :: opnames) => do
    -- `TransformationGraph(lang, with_canonical_types=True, <bits>, with_transitive_closure=cl).add_vocabulary()` without labels
    let cl ← boolOf cl
    let names ← opnames.mapM atomStr
    let cfg := { gcfgOfBits (bits.toList.map (· == 'T')) with withCanonicalTypes := true }
    match vocabulary st.glang cfg cl names with
    | .error ge => pure (st, "E:" ++ showGErr ge)
    | .ok ts => pure (st, "ok root - out - " ++ showTriples ts)
  | .list [.atom "gexpra", .atom bits, ex] => do
    -- the graph of an expression given as a tree (expanded composite operators: abstractions in argument position)
    let ex ← aexpr? ex
    let cfg := gcfgOfBits (bits.toList.map (· == 'T'))
    let G := st.glang
    let g0 := initGraph G cfg
    let (g1, r) := g0.fresh
    match addExprA G cfg (.b r) none { g := g1 } ex none false with
    | .error ge => pure (st, "E:" ++ showGErr ge)
    | .ok (s, out) => pure (st, s!"ok root _:{r} out _:{out} " ++ showTriples s.g.allTriples)
  | .list [.atom "gexpr", .atom bits, n, s] => do
    let n ← Sexp.nat? n
    let s ← Sexp.str? s
    let cfg := gcfgOfBits (bits.toList.map (· == 'T'))
    let toks := tokenize Generated.exprSpecials Generated.blanks s
    let (s0, inputs) := mkInputs n {}
    match parseExprToks st.plang (typedBuilder st.lang st.ops true) inputs s0 toks with
    | .error e => pure (st, "E:" ++ showPErrT e)
    | .ok (xs, ex) =>
      match fixExpr st.lang xs.store ex with
      | .error err => pure (st, "E:" ++ showErr err)
      | .ok (σf, ex') =>
        let G := { st.glang with store := σf }
        let g0 := initGraph G cfg
        let (g1, r) := g0.fresh
        match addExpr G cfg (.b r) none g1 ex' none false with
        | .error ge => pure (st, "E:" ++ showGErr ge)
        | .ok (g, out) => pure (st, s!"ok root _:{r} out _:{out} " ++ showTriples g.allTriples)
  | .list (.atom "gworkflow" :: .atom bits :: pt :: .list srcs :: apps) => do
    let pt ← boolOf pt
    let srcs ← srcs.mapM atomStr
    let cfg := gcfgOfBits (bits.toList.map (· == 'T'))
    let appNames ← apps.mapM (fun a => match a with
      | .list (.atom out :: _) => some out
      | _ => none)
    let names := srcs ++ appNames
    let idx (n : String) : Nat := (names.idxOf? n).getD 0
    let wapps ← apps.mapM (fun a => match a with
      | .list [.atom out, .list ins, txt] => do
        let ins ← ins.mapM atomStr
        let txt ← Sexp.str? txt
        pure ({ out := idx out, toks := tokenize Generated.exprSpecials Generated.blanks txt, inputs := ins.map idx } : WfApp)
      | _ => none)
    let w : Wf := { sources := srcs.map idx, apps := wapps, names := names }
    pure (st, match addWorkflow st.plang st.glang st.ops cfg pt w with
      | .error (.noUniqueTarget) => "E:ValueError"
      | .error (.composition e) => (match e with
          | .application _ => "E:ApplicationError"      -- not a TypingError: `add_workflow` does not wrap it
          | e => "E:WorkflowCompositionError:" ++ showPErr e)
      | .error (.typing e) => "E:" ++ showErr e
      | .error (.graph e) => "E:" ++ showGErr e
      | .error (.internal s) => "E:Internal(" ++ s ++ ")"
      | .ok (g, out, _) => s!"ok root wf:workflow out _:{out} " ++ showTriples g.allTriples)
  | _ => none

def showQVar (v : QVar) : String :=
  match v with
  | [k] => "?s" ++ toString k
  | _ => "?p" ++ ".".intercalate (v.map toString)

def nodeUriText (ns : String) : Node → String
  | .tf n => "<https://github.com/quangis/transforge#" ++ n ++ ">"
  | .ns n => "<" ++ ns ++ n ++ ">"
  | n => "<" ++ showNode n ++ ">"

def showQTerm (ns : String) : QTerm → String
  | .var v => showQVar v
  | .workflow => "?workflow"
  | .node n => nodeUriText ns n

def showQPath : QPath → String
  | .pred n => ":" ++ n
  | .opt n => ":" ++ n ++ "?"
  | .outputFrom => ":output/:from?"
  | .inputFromInv => ":input/^:from?"

def showQTriple (ns : String) (t : QTriple) : String :=
  "(" ++ showQTerm ns t.s ++ " " ++ showQPath t.p ++ " " ++ showQTerm ns t.o ++ ")"

def showQClause (ns : String) : QClause → String
  | .one t => showQTriple ns t
  | .union alts => "{" ++ " | ".intercalate (sortStrs (alts.map (showQTriple ns))) ++ "}"

def showQuery (ns : String) (q : Query) : String :=
  "pre[" ++ " ".intercalate (sortStrs ((q.prefilter.map (showQClause ns)).eraseDups)) ++ "] body[" ++
    " ".intercalate (sortStrs ((q.body.map (showQClause ns)).eraseDups)) ++ "]"

def qflagsOfBits (bs : List Bool) : QFlags :=
  let b (i : Nat) := bs.getD i true
  { byIo := b 0, byTypes := b 1, byOperators := b 2, byChronology := b 3, byPenultimateOutput := b 4, unfoldTree := b 5, bySecondInput := bs.getD 6 false }

def qstep? : Sexp → Option QStep
  | .list [.atom "step", .list (.atom "types" :: ts), .list (.atom "ops" :: os), .list (.atom "from" :: fs)] => do
    pure { types := ← ts.mapM Sexp.ty?, ops := ← os.mapM atomStr, from_ := ← fs.mapM Sexp.nat? }
  | _ => none

def qtask? : Sexp → Option QTask
  | .list [.atom "task", .list (.atom "steps" :: ss), .list (.atom "outputs" :: os), .list (.atom "inputs" :: is)] => do
    pure { steps := ← ss.mapM qstep?, outputs := ← os.mapM Sexp.nat?, inputs := ← is.mapM Sexp.nat? }
  | _ => none

def node? (s : String) : Option Node :=
  if s.startsWith "tf:" then some (.tf (s.drop 3).toString)
  else if s.startsWith "ns:" then some (.ns (s.drop 3).toString)
  else if s.startsWith "rdfs:" then some (.rdfs (s.drop 5).toString)
  else if s.startsWith "rdf:" then some (.rdf (s.drop 4).toString)
  else if s.startsWith "wf:" then some (.res (s.drop 3).toString)
  else if s.startsWith "_:" then (s.drop 2).toString.toNat?.map Node.b
  else none

def triple? : Sexp → Option Triple
  | .list [.atom a, .atom b, .atom c] => do pure (← node? a, ← node? b, ← node? c)
  | _ => none

def showQErr : QErr → String
  | .cyclic => "CyclicTransformationGraphError"
  | .nonCanonical => "NonCanonicalTypeError"
  | .internal s => "Internal(" ++ s ++ ")"

def stepQuery (st : DState) (e : Sexp) : Option (DState × String) :=
  match e with
  | .list [.atom "query", .atom bits, ns, t] => do
    let ns ← Sexp.str? ns
    let t ← qtask? t
    pure (st, match genQuery st.glang t (qflagsOfBits (bits.toList.map (· == 'T'))) with
      | .error err => "E:" ++ showQErr err
      | .ok q => showQuery ns q)
  | .list (.atom "qeval" :: .atom bits :: t :: .atom wf :: triples) => do
    let t ← qtask? t
    let wf ← node? wf
    let triples ← triples.mapM triple?
    pure (st, match genQuery st.glang t (qflagsOfBits (bits.toList.map (· == 'T'))) with
      | .error err => "E:" ++ showQErr err
      | .ok q => showBool (evalQuery q triples wf))
  | _ => none

def stepLambda (st : DState) (e : Sexp) : Option (DState × String) :=
  match e with
  | .list [.atom "prim", .list (.atom "defs" :: ds), t] => do
    let ds ← ds.mapM Sexp.ldef?
    let t ← Sexp.lterm? t
    pure (st, match primitiveL ds 20000 t with
      | some r => "ok " ++ r.show ++ (if normalB ds r then "" else " NOT-NORMAL")
      | none => "E:fuel")
  | _ => none

def step (st : DState) (e : Sexp) : DState × String :=
  match stepLambda st e with
  | some r => r
  | none =>
  match stepQuery st e with
  | some r => r
  | none =>
  match stepGraph st e with
  | some r => r
  | none =>
  match stepCanon st e with
  | some r => r
  | none =>
  match stepExpr st e with
  | some r => r
  | none =>
  match stepParse st e with
  | some r => r
  | none =>
  match stepBasic st e with
  | some r => r
  | none =>
    match stepInfer st e with
    | some r => r
    | none => (st, "bad-op")

partial def loop (h : IO.FS.Stream) (out : IO.FS.Stream) (st : DState) : IO Unit := do
  let line ← h.getLine
  if line.isEmpty then return ()
  match Sexp.parse line with
  | some [e] =>
    let (st', o) := step st e
    out.putStrLn o
    loop h out st'
  | _ =>
    out.putStrLn "bad-line"
    loop h out st
