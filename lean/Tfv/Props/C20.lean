import Tfv.Model
namespace Tfv.C20
theorem placeholder : True := trivial
end Tfv.C20
