"""Typed half of C13: every notation of an expression and its programmatic construction give the same typed tree."""
from __future__ import annotations
import langgen as G
import infer as I
import parsegen as PG
import exprgen as X


def typed_notation_cases(ctx):
    rng = ctx.rng
    nlang = 6 if ctx.tier == "quick" else 20
    for li in range(nlang):
        spec = G.gen_lang(rng, max_base=5, max_ops=2, max_arity=2)
        ops = spec.build()
        opdecls = X.gen_operators(rng, spec)
        try:
            lang, operators = X.build_typed_language(spec, ops, opdecls)
        except Exception:  # noqa
            continue
        ctx.setup(spec.sexp(), "ok T")
        ctx.setup("(aliases)", "ok")
        ctx.setup(X.operators_line(opdecls), "ok")
        ninputs = rng.randint(0, 2)
        trees = [X.strip_ann(t) for t in X.gen_typed_trees(rng, lang, spec, opdecls, ninputs, rounds=3,
            per_round=8 if ctx.tier == "quick" else 20, p_ann=0.0)]
        seen = set()
        for tree in trees:
            key = X.tree_text(tree)
            if key in seen:
                continue
            seen.add(key)
            one_tree(ctx, li, spec, ops, opdecls, lang, operators, tree, ninputs)
        match_cases(ctx, li, spec, ops, opdecls, lang, trees, ninputs)
        # annotated texts (anonymous sources, inputs and sub-expressions with `: T`), with layout right before the colon
        anns = X.gen_typed_trees(rng, lang, spec, opdecls, ninputs, rounds=2, per_round=8 if ctx.tier == "quick" else 20, p_ann=0.6)
        for tree in anns:
            annotation_layout_cases(ctx, li, spec, ops, opdecls, lang, X.tree_text(tree), ninputs)
        # (and the shapes in which the annotated thing is an anonymous source that the operator does not accept at that type)
        for nm, sch in opdecls[:4]:
            for b in spec.bases()[:3]:
                annotation_layout_cases(ctx, li, spec, ops, opdecls, lang, f"{nm} (- : {spec.name(b)})", ninputs)


def one_tree(ctx, li, spec, ops, opdecls, lang, operators, tree, ninputs, report=True):
    rng = ctx.rng
    ctree = X.to_ctree(tree)
    ref, ex, e = X.obs_call(operators, ctree, ninputs, ops)
    ctx.case(f"(tcall {ninputs} T {X.ctree_sexp(ctree)})", ref,
        {"lang": spec.to_json(), "opdecls": [[n, s] for n, s in opdecls], "tree": tree, "inputs": ninputs, "how": "programmatic"},
        nontrivial=X.napps(tree) >= 2, key=("call", li, X.tree_text(tree)))
    ctx.count("typed_" + ("ok" if ref.startswith("ok") else ref))
    ok = True
    for rep in range(3):
        text = PG.render_spine(rng, tree, spec, ann=0.0)
        obs, ex2, e2, _ = X.obs_typed(lang, text, ninputs, ops)
        ctx.case(f"(texpr {ninputs} T {G.str_sexp(text)})", obs,
            {"lang": spec.to_json(), "text": text, "inputs": ninputs, "how": "parsed"},
            nontrivial=X.napps(tree) >= 2, key=("text", li, text))
        if obs != ref:
            ok = False
            if report:
                ctx.fail(f"{text!r} parsed to {obs}; the programmatic construction {X.ctree_sexp(ctree)} gives {ref}",
                    {"check": "typed-notation"},
                    {"lang": spec.to_json(), "opdecls": [[n, s] for n, s in opdecls], "tree": tree, "text": text, "inputs": ninputs})
    # `e : T` constrains e to a subtype of T without changing the tree: annotate the whole expression, un-bracketed and
    # bracketed, with its own (concrete, function-free) type - nothing may change
    if e is not None and ref.startswith("ok"):
        try:
            td = G.py_to_data(e.type, ops)
            tytext = G.ty_text(td, spec) if not has_fun_or_unit(td) else None
        except Exception:  # noqa (the type still has variables)
            tytext = None
        if e is not None:
            plain = X.tree_text(tree)
            # its own type (when it can be written), a declared supertype, and Top
            tys = ([tytext] if tytext else []) + ["Top"]
            if tytext and not td[1] and spec.ancestors(td[0]):
                tys.append(spec.name(spec.ancestors(td[0])[0]))
            texts = []
            for ty in tys:
                texts += [plain + " : " + ty, "(" + plain + ") : " + ty]
            for text in texts:
                obs, ex2, e2, _ = X.obs_typed(lang, text, ninputs, ops)
                ctx.case(f"(texpr {ninputs} T {G.str_sexp(text)})", obs, {"lang": spec.to_json(), "text": text, "inputs": ninputs, "how": "annotated"},
                    nontrivial=X.napps(tree) >= 1, key=("ann", li, text))
                ctx.count("annotated_root")
                if obs != ref:
                    ok = False
                    if report:
                        ctx.fail(f"{text!r} (the expression annotated with its own type) parsed to {obs}; without the annotation {ref}",
                            {"check": "annotation-changes-tree"},
                            {"lang": spec.to_json(), "opdecls": [[n, s] for n, s in opdecls], "tree": tree, "text": text, "inputs": ninputs})
    return ok


def annotation_layout_cases(ctx, li, spec, ops, opdecls, lang, text, ninputs):
    """layout and comments are neutral also right before an annotation's colon: `e⏎: T` and `e # c⏎: T` mean what `e : T` means
    (defect D31: the parser remembered a line break as "the previous token", so `-⏎: T` was not an annotated anonymous source)"""
    if " : " not in text:
        return
    ref, _, _, _ = X.obs_typed(lang, text, ninputs, ops)
    ref_nofix, _, _, _ = X.obs_typed(lang, text, ninputs, ops, fix=False)
    for sep in ("\n: ", " # c ( : \n : ", "\n\n : "):
        variant = text.replace(" : ", sep)
        obs, _, _, _ = X.obs_typed(lang, variant, ninputs, ops)
        obs_nofix, _, _, _ = X.obs_typed(lang, variant, ninputs, ops, fix=False)
        ctx.case(f"(texpr {ninputs} T {G.str_sexp(variant)})", obs, {"lang": spec.to_json(), "text": variant, "inputs": ninputs, "how": "annotation-layout"},
            nontrivial=True, key=("annlayout", li, variant))
        ctx.count("annotation_layout")
        if obs != ref or obs_nofix != ref_nofix:
            ctx.fail(f"{variant!r} parses to {obs if obs != ref else obs_nofix}; the same text with the colon on the same line, {text!r}, to {ref if obs != ref else ref_nofix}",
                {"check": "annotation-layout"}, {"lang": spec.to_json(), "opdecls": [[n, s] for n, s in opdecls], "text": variant, "plain": text, "inputs": ninputs, "layout": True})
            return


def has_fun_or_unit(t):
    return t[0] in (G.FUN, G.UNIT) or any(has_fun_or_unit(a) for a in t[1])


def tt_tree(t):
    if t[0] == "app":
        return ("app", tt_tree(t[1]), tt_tree(t[2]))
    return tuple(t)


def replay_typed(ctx, inp):
    from props.C03 import fix_schema
    from transforge import expr as E
    spec = G.LangSpec([(n, v, p) for n, v, p in inp["lang"]])
    ops = spec.build()
    opdecls = [(n, fix_schema(s)) for n, s in inp["opdecls"]]
    lang, operators = X.build_typed_language(spec, ops, opdecls)
    if inp.get("layout"):
        a, _, _, _ = X.obs_typed(lang, inp["text"], inp["inputs"], ops)
        b, _, _, _ = X.obs_typed(lang, inp["plain"], inp["inputs"], ops)
        print(repr(inp["text"]), "->", a[:200]); print(repr(inp["plain"]), "->", b[:200])
        return a == b
    if "a" in inp:
        ea = lang.parse(inp["a"], *[E.Source() for _ in range(inp["inputs"])])
        eb = lang.parse(inp["b"], *[E.Source() for _ in range(inp["inputs"])])
        got = ea.match(eb)
        print(f"`{inp['a']}`.match(`{inp['b']}`) = {got}; reference {inp['want']}")
        return bool(got) == inp["want"]
    tree = tt_tree(inp["tree"])
    ref, ex, e = X.obs_call(operators, X.to_ctree(tree), inp["inputs"], ops)
    obs, ex2, e2, _ = X.obs_typed(lang, inp["text"], inp["inputs"], ops)
    print("programmatic:", ref)
    print("parsed      :", obs, "from", repr(inp["text"]))
    return ref == obs


# -- Expr.match ------------------------------------------------------------------------

def annotate_sources(rng, spec, t):
    """give every anonymous source a concrete annotation so that `equal source types` is decidable by the reference"""
    if t[0] == "src":
        ty = G.gen_ty(rng, spec, rng.randint(0, 1), p_special=0.0, allow_fun=False)
        return ("ann", t, G.ty_text(ty, spec), ty)
    if t[0] == "app":
        return ("app", annotate_sources(rng, spec, t[1]), annotate_sources(rng, spec, t[2]))
    return t


def variant(rng, spec, t, opnames):
    """a tree that differs from `t` in one leaf (operator or source type) or in shape; returns (tree, kind)"""
    leaves = []

    def walk(t, path):
        if t[0] == "app":
            walk(t[1], path + (1,))
            walk(t[2], path + (2,))
        else:
            leaves.append(path)
    walk(t, ())
    path = rng.choice(leaves)

    def rebuild(t, path):
        if not path:
            if t[0] == "op":
                others = [n for n in opnames if n != t[1]]
                return ("op", rng.choice(others)) if others else t
            if t[0] == "ann":
                ty = G.gen_ty(rng, spec, rng.randint(0, 1), p_special=0.0, allow_fun=False)
                return ("ann", t[1], G.ty_text(ty, spec), ty)
            return t
        l = list(t)
        l[path[0]] = rebuild(t[path[0]], path[1:])
        return tuple(l)
    return rebuild(t, path)


def ref_match(a, b, polyconst=()):
    """same shape, same operators, equal source types (reference semantics of Expr.match, strict). A data constant whose declared type
    has variables (`m : F(x, A)`) is a SOURCE of a freshly instantiated type at every use: two uses have types that differ in their
    variables, which strict matching leaves undecided - no reference verdict (None) for trees that contain one (thorough seeds 73, 79)"""
    if a[0] != b[0]:
        return False
    if a[0] == "app":
        l, r = ref_match(a[1], b[1], polyconst), ref_match(a[2], b[2], polyconst)
        if l is False or r is False:
            return False
        return None if l is None or r is None else True
    if a[0] == "op":
        if a[1] == b[1] and a[1] in polyconst:
            return None
        return a[1] == b[1]
    if a[0] == "ann":
        return a[3] == b[3]
    if a[0] == "in":
        return None     # inputs are untyped sources: `_` against `_`
    return None


def match_cases(ctx, li, spec, ops, opdecls, lang, trees, ninputs):
    from transforge import expr as E
    rng = ctx.rng
    opnames = [n for n, s in opdecls if not I.is_var(s["body"]) and s["body"][0] == G.FUN]
    polyconst = {n for n, s in opdecls if n not in opnames and s["nvars"] + s["nwild"] > 0}
    for tree in trees[:40]:
        a = annotate_sources(rng, spec, tree)
        b = variant(rng, spec, a, opnames) if rng.random() < 0.7 else a
        want = ref_match(a, b, polyconst)
        if want is None:
            ctx.count("match_no_reference_verdict")
            continue
        try:
            ea = lang.parse(X.tree_text(a), *[E.Source() for _ in range(ninputs)])
            eb = lang.parse(X.tree_text(b), *[E.Source() for _ in range(ninputs)])
        except Exception:  # noqa
            ctx.count("match_illtyped_variant")
            continue
        got = ea.match(eb)
        ctx.evaluations += 1
        ctx.count(f"match_{want}")
        if bool(got) != want:
            ctx.fail(f"`{X.tree_text(a)}`.match(`{X.tree_text(b)}`) = {got}; same shape/operators/source types: {want}",
                {"check": "expr-match"}, {"lang": spec.to_json(), "opdecls": [[n, s] for n, s in opdecls],
                    "a": X.tree_text(a), "b": X.tree_text(b), "want": want, "inputs": ninputs})


# -- C09: the add_from calls made by add_expr on typed expressions ------------------------------

class FromRecorder:
    """records TransformationGraph.add_from calls with nodes numbered by first appearance"""
    def __init__(self):
        self.calls = []
        self.nodes = []

    def idx(self, n):
        for i, m in enumerate(self.nodes):
            if m == n:
                return i
        self.nodes.append(n)
        return len(self.nodes) - 1

    def __enter__(self):
        from transforge.graph import TransformationGraph
        self.cls = TransformationGraph
        self.orig = TransformationGraph.add_from
        rec = self

        def add_from(g, a, b, recursive=False):
            rec.calls.append((rec.idx(a), rec.idx(b), bool(recursive)))
            return rec.orig(g, a, b, recursive)
        TransformationGraph.add_from = add_from
        return self

    def __exit__(self, *a):
        self.cls.add_from = self.orig


def closure_cases(ctx, check_recorded):
    """expression graphs (first-order and higher-order) built by add_expr with dependencies on"""
    from rdflib import BNode
    from transforge.graph import TransformationGraph
    from transforge.namespace import TF
    from transforge import expr as E
    rng = ctx.rng
    nlang = 3 if ctx.tier == "quick" else 15
    for li in range(nlang):
        spec = G.gen_lang(rng, max_base=5, max_ops=2, max_arity=2)
        ops = spec.build()
        opdecls = X.gen_operators(rng, spec)
        try:
            lang, operators = X.build_typed_language(spec, ops, opdecls)
        except Exception:  # noqa
            continue
        ninputs = rng.randint(0, 2)
        trees = X.gen_typed_trees(rng, lang, spec, opdecls, ninputs, rounds=3, per_round=8 if ctx.tier == "quick" else 20, p_ann=0.0)
        for tree in trees:
            if X.napps(tree) < 2:
                continue
            text = X.tree_text(tree)
            try:
                e = lang.parse(text, *[E.Source() for _ in range(ninputs)])
                e.fix()
                g = TransformationGraph(lang, with_dependencies=True, with_noncanonical_types=True)
                with FromRecorder() as rec:
                    g.add_expr(e, BNode())
            except Exception as ex:  # noqa
                ctx.count("closure_expr_skipped_" + type(ex).__name__)
                continue
            frm = {(rec.idx(s), rec.idx(o)) for s, o in g.subject_objects(TF["from"])}
            dep = {(rec.idx(s), rec.idx(o)) for s, o in g.subject_objects(TF.depends)}
            check_recorded(ctx, rec.calls, frm, dep, len(rec.nodes), "add_expr",
                {"lang": spec.to_json(), "opdecls": [[n, s] for n, s in opdecls], "text": text, "inputs": ninputs,
                 "calls": [list(c) for c in rec.calls], "n": len(rec.nodes)})
            ctx.count("closure_expr_graphs")
